import Ts.Lemmas.Demux
import Ts.Lemmas.DemuxB
import Ts.Props.C06
import Ts.Props.C07
/-!
# C18 — filter changes queued during packet k take effect exactly between k and k+1, in order

All theorems hold for EVERY handler semantics `sem : Sem H C`; they are stated on `specStep` /
`pushSpec`, which `pushModel` (the real loops) equals by C06 `push_refines_spec`.
-/
namespace Ts.Props.C18
open Ts Ts.Demux

variable {H C : Type}

/-- None of the changes queued while packet k is processed is in force during packet k: the
handler `h` that consumes k is the one found in the table `t1` as it was BEFORE k's own changes;
its in-place update `h'` is stored first and the queued changes `chg` are applied afterwards. -/
theorem changes_not_in_force_during_k (sem : Sem H C) (t : Tab H) (c : C) (pk : Pk)
    (t1 : Tab H) (c1 : C) (h h' : H) (c' : C) (chg : List (Change H))
    (hf : pk.flagged = false)
    (hE : ensure sem t c pk.pid = .ok (t1, c1))
    (hg : t1.get pk.pid = some h)
    (hC : sem.consume h c1 pk = .ok (h', c', chg)) :
    specStep sem (t, c) pk = .ok (applyChanges (t1.insert pk.pid h') chg, c') := by
  rw [specStep_eq, hE]
  simp only [R.ok_bind, hf, Bool.false_eq_true, if_false, hg, hC]

/-- All of them are in force when packet k+1 is dispatched — whatever its PID (also the same PID:
the cached `this_proc` of the inner loop is abandoned when changes were queued) — since k+1 is
dispatched by `specStep` on exactly the table produced above. Stated for the real loops. -/
theorem changes_in_force_at_k_plus_1 (sem : Sem H C) (t : Tab H) (c : C) (pk pk2 : Pk) (rest : List Pk)
    (t1 : Tab H) (c1 : C) (h h' : H) (c' : C) (chg : List (Change H))
    (hf : pk.flagged = false)
    (hE : ensure sem t c pk.pid = .ok (t1, c1))
    (hg : t1.get pk.pid = some h)
    (hC : sem.consume h c1 pk = .ok (h', c', chg)) :
    pushModel sem (t, c) (pk :: pk2 :: rest) =
      (specStep sem (applyChanges (t1.insert pk.pid h') chg, c') pk2 >>= fun tc =>
        pushModel sem tc rest) := by
  rw [C06.push_refines_spec, pushSpec_cons,
    changes_not_in_force_during_k sem t c pk t1 c1 h h' c' chg hf hE hg hC, R.ok_bind, pushSpec_cons]
  cases specStep sem (applyChanges (t1.insert pk.pid h') chg, c') pk2 with
  | panic s => rfl
  | ok tc => simp only [R.ok_bind, C06.push_refines_spec]

/-- The same when k is the LAST packet of one `push` call and k+1 the first packet of the next:
the first call ends in exactly that table, and the next call starts by dispatching k+1 on it. -/
theorem changes_in_force_across_push (sem : Sem H C) (tc0 : Tab H × C) (pre : List Pk)
    (t : Tab H) (c : C) (pk pk2 : Pk) (rest : List Pk)
    (t1 : Tab H) (c1 : C) (h h' : H) (c' : C) (chg : List (Change H))
    (hpre : pushModel sem tc0 pre = .ok (t, c))
    (hf : pk.flagged = false)
    (hE : ensure sem t c pk.pid = .ok (t1, c1))
    (hg : t1.get pk.pid = some h)
    (hC : sem.consume h c1 pk = .ok (h', c', chg)) :
    pushModel sem tc0 (pre ++ [pk]) = .ok (applyChanges (t1.insert pk.pid h') chg, c') ∧
    pushModel sem (applyChanges (t1.insert pk.pid h') chg, c') (pk2 :: rest) =
      (specStep sem (applyChanges (t1.insert pk.pid h') chg, c') pk2 >>= fun tc =>
        pushModel sem tc rest) ∧
    pushModel sem tc0 (pre ++ pk :: pk2 :: rest) =
      pushModel sem (applyChanges (t1.insert pk.pid h') chg, c') (pk2 :: rest) := by
  have hk := changes_not_in_force_during_k sem t c pk t1 c1 h h' c' chg hf hE hg hC
  refine ⟨?_, ?_, ?_⟩
  · rw [C07.pushModel_append, hpre, R.ok_bind, C06.push_refines_spec, pushSpec_cons, hk]; rfl
  · rw [C06.push_refines_spec, pushSpec_cons]
    cases specStep sem (applyChanges (t1.insert pk.pid h') chg, c') pk2 with
    | panic s => rfl
    | ok tc => simp only [R.ok_bind, C06.push_refines_spec]
  · rw [C07.pushModel_append, hpre, R.ok_bind, C06.push_refines_spec, pushSpec_cons, hk, R.ok_bind,
      C06.push_refines_spec]

/-- … and at the byte level: cutting the stream between k and k+1 is invisible (C07) -/
theorem changes_in_force_across_push_bytes (sem : Sem H C) (tc : Tab H × C) (a b : Bytes) (base : Nat)
    (ha : a.length % 188 = 0) :
    pushAll sem tc [a, b] base = push sem tc (a ++ b) base := by
  have := C07.chunking_irrelevant_unaligned_last sem tc [a] b base (by simpa using ha)
  simpa using this

/-- changes are applied in the order queued -/
theorem apply_in_order (t : Tab H) (a b : List (Change H)) :
    applyChanges t (a ++ b) = applyChanges (applyChanges t a) b :=
  applyChanges_append t a b

theorem apply_one (t : Tab H) (ch : Change H) (cs : List (Change H)) :
    applyChanges t (ch :: cs) = applyChanges (applyChange t ch) cs := rfl

/-- the last request for a PID wins -/
theorem last_insert_wins (t : Tab H) (cs : List (Change H)) (p : Nat) (h : H) :
    (applyChanges t (cs ++ [.insert p h])).get p = some h :=
  get_applyChanges_last t cs [] (.insert p h) (by simp)

theorem last_remove_wins (t : Tab H) (cs : List (Change H)) (p : Nat) :
    (applyChanges t (cs ++ [.remove p])).get p = none :=
  get_applyChanges_last t cs [] (.remove p) (by simp)

/-- generally: the LAST change for `p` in the queue determines slot `p` -/
theorem last_change_wins (t : Tab H) (pre post : List (Change H)) (ch : Change H)
    (hpost : ∀ x ∈ post, x.pid ≠ ch.pid) :
    (applyChanges t (pre ++ ch :: post)).get ch.pid = ch.val :=
  get_applyChanges_last t pre post ch hpost

/-- a PID not mentioned in the queue keeps its handler -/
theorem unmentioned_pid_unchanged (t : Tab H) (cs : List (Change H)) (q : Nat)
    (hq : ∀ ch ∈ cs, ch.pid ≠ q) : (applyChanges t cs).get q = t.get q :=
  get_applyChanges_untouched cs t q hq

/-- removing an unregistered PID is harmless — also beyond the end of the vector: the table is
literally unchanged (no growth, and `Tab.remove` is total so no panic) -/
theorem remove_absent_noop (t : Tab H) (p : Nat) (hg : t.get p = none) :
    t.remove p = t ∧ (∀ q, (t.remove p).get q = t.get q) ∧ (t.remove p).length = t.length := by
  have := Tab.remove_of_get_none t p hg
  exact ⟨this, fun q => by rw [this], by rw [this]⟩

theorem remove_beyond_end_noop (t : Tab H) (p : Nat) (hp : t.length ≤ p) : t.remove p = t :=
  Tab.remove_of_ge t p hp

/-- `remove` never grows the table; `insert` grows it exactly to `pid+1` when needed -/
theorem table_length (t : Tab H) (p : Nat) (h : H) :
    (t.remove p).length = t.length ∧ (t.insert p h).length = max t.length (p + 1) :=
  ⟨Tab.length_remove t p, Tab.length_insert t p h⟩

/-- a handler may REPLACE itself: if the last change it queues for its own PID is `insert pid h2`,
then after the step the slot holds `h2`, overriding the in-place update `h'` -/
theorem self_replace (sem : Sem H C) (t : Tab H) (c : C) (pk : Pk)
    (t1 : Tab H) (c1 : C) (h h' h2 : H) (c' : C) (pre post : List (Change H))
    (hf : pk.flagged = false)
    (hE : ensure sem t c pk.pid = .ok (t1, c1))
    (hg : t1.get pk.pid = some h)
    (hC : sem.consume h c1 pk = .ok (h', c', pre ++ .insert pk.pid h2 :: post))
    (hpost : ∀ x ∈ post, x.pid ≠ pk.pid) :
    ∃ T, specStep sem (t, c) pk = .ok (T, c') ∧ T.get pk.pid = some h2 :=
  ⟨_, changes_not_in_force_during_k sem t c pk t1 c1 h h' c' _ hf hE hg hC,
    get_applyChanges_last _ pre post (.insert pk.pid h2) hpost⟩

/-- a handler may REMOVE itself -/
theorem self_remove (sem : Sem H C) (t : Tab H) (c : C) (pk : Pk)
    (t1 : Tab H) (c1 : C) (h h' : H) (c' : C) (pre post : List (Change H))
    (hf : pk.flagged = false)
    (hE : ensure sem t c pk.pid = .ok (t1, c1))
    (hg : t1.get pk.pid = some h)
    (hC : sem.consume h c1 pk = .ok (h', c', pre ++ .remove pk.pid :: post))
    (hpost : ∀ x ∈ post, x.pid ≠ pk.pid) :
    ∃ T, specStep sem (t, c) pk = .ok (T, c') ∧ T.get pk.pid = none ∧ T.contains pk.pid = false := by
  refine ⟨_, changes_not_in_force_during_k sem t c pk t1 c1 h h' c' _ hf hE hg hC, ?_, ?_⟩
  · exact get_applyChanges_last _ pre post (.remove pk.pid) hpost
  · rw [Tab.contains_eq_false_iff]
    exact get_applyChanges_last _ pre post (.remove pk.pid) hpost

/-- if the handler queues nothing about its own PID its in-place update is what remains -/
theorem self_update_persists (sem : Sem H C) (t : Tab H) (c : C) (pk : Pk)
    (t1 : Tab H) (c1 : C) (h h' : H) (c' : C) (chg : List (Change H))
    (hf : pk.flagged = false)
    (hE : ensure sem t c pk.pid = .ok (t1, c1))
    (hg : t1.get pk.pid = some h)
    (hC : sem.consume h c1 pk = .ok (h', c', chg))
    (hno : ∀ x ∈ chg, x.pid ≠ pk.pid) :
    ∃ T, specStep sem (t, c) pk = .ok (T, c') ∧ T.get pk.pid = some h' := by
  refine ⟨_, changes_not_in_force_during_k sem t c pk t1 c1 h h' c' _ hf hE hg hC, ?_⟩
  rw [get_applyChanges_untouched chg _ _ hno, Tab.get_insert_self]

/-- a PID left without a handler is offered to the application again: `ensure` requests
`construct(ByPid p)` (exactly as for a never-seen PID) and installs the result -/
theorem orphan_pid_reoffered (sem : Sem H C) (t : Tab H) (c : C) (p : Nat) (hg : t.get p = none) :
    ensure sem t c p = (sem.construct c p >>= fun r => R.ok (t.insert p r.1, r.2)) ∧
    (∀ hn cn, sem.construct c p = .ok (hn, cn) →
      ensure sem t c p = .ok (t.insert p hn, cn) ∧ (t.insert p hn).get p = some hn) := by
  have he := ensure_of_absent sem t c p ((Tab.contains_eq_false_iff t p).2 hg)
  refine ⟨he, ?_⟩
  intro hn cn hk
  rw [he, hk]
  exact ⟨rfl, Tab.get_insert_self _ _ _⟩

/-- … in particular right after a removal, whatever else was queued before it -/
theorem removed_pid_reoffered (sem : Sem H C) (t : Tab H) (c : C) (p : Nat) (cs : List (Change H)) :
    ensure sem (applyChanges t (cs ++ [.remove p])) c p =
      (sem.construct c p >>= fun r => R.ok ((applyChanges t (cs ++ [.remove p])).insert p r.1, r.2)) :=
  (orphan_pid_reoffered sem _ c p (last_remove_wins t cs p)).1

/-! ### non-vacuity (`exSem`: `H := Nat` counts consumed packets, `C := List Nat` logs callbacks:
`9000+pid` = construct, `100*pid+n` = consume by the handler of `pid` in state `n`) -/

/-- PID 1's handler queues `[insert 2 50, remove 1]` (removes itself).  The second PID-1 packet is
therefore offered to the application again (second 9001) and handled by a fresh handler (state 0
again: `100`), and PID 2's packet goes to the inserted handler in state 50 (`250`). -/
example : pushModel exSem ([], []) [exPk 1 false false, exPk 1 false false, exPk 2 false false]
    = .ok ([none, none, some 51], [9001, 100, 9001, 100, 250]) := rfl

/-- PID 3's handler queues `[remove 3, insert 3 70]`: last request wins, self-replacement overrides
the in-place update (state 1), next packet is consumed in state 70 without a new `construct` -/
example : pushModel exSem ([], []) [exPk 3 false false, exPk 3 false false]
    = .ok ([none, none, none, some 70], [9003, 300, 370]) := rfl

/-- PID 4's handler queues the removal of the never-registered PID 7 (beyond the vector's end):
harmless, no growth -/
example : pushModel exSem ([], []) [exPk 4 false false, exPk 4 false false]
    = .ok ([none, none, none, none, some 2], [9004, 400, 401]) := rfl

/-- the hypotheses of `changes_not_in_force_during_k` / `self_remove` are satisfiable -/
example : ∃ t1 c1 h h' c' pre post,
    (exPk 1 false false).flagged = false ∧
    ensure exSem ([] : Tab Nat) [] (exPk 1 false false).pid = .ok (t1, c1) ∧
    t1.get (exPk 1 false false).pid = some h ∧
    exSem.consume h c1 (exPk 1 false false) = .ok (h', c', pre ++ .remove (exPk 1 false false).pid :: post) ∧
    (∀ x ∈ post, x.pid ≠ (exPk 1 false false).pid) :=
  ⟨[none, some 0], [9001], 0, 1, [9001, 100], [.insert 2 50], [], rfl, rfl, rfl, rfl, by simp⟩

/-- split across two `push` calls: same callbacks -/
example : (pushModel exSem ([], []) [exPk 1 false false] >>= fun tc => pushModel exSem tc [exPk 1 false false, exPk 2 false false])
    = pushModel exSem ([], []) [exPk 1 false false, exPk 1 false false, exPk 2 false false] := rfl

end Ts.Props.C18
