import Ts.Lemmas.Demux
import Ts.Lemmas.DemuxB
import Ts.Props.C06
import Ts.Props.C07
/-!
# C18 — filter changes queued during packet k take effect exactly between k and k+1, in order

All theorems hold for EVERY handler semantics `sem : Sem H C`; they are stated on `specStep` /
`pushSpec`, which `pushModel` (the real loops) equals by C06 `push_refines_spec`.
-/
namespace Ts.Props.C18
open Ts Ts.Demux

variable {H C : Type}

/-- None of the changes queued while packet k is processed is in force during packet k: the
handler `h` that consumes k is the one found in the table `t1` as it was BEFORE k's own changes;
its in-place update `h'` is stored first and the queued changes `chg` are applied afterwards. -/
theorem changes_not_in_force_during_k (sem : Sem H C) (t : Tab H) (c : C) (pk : Pk)
    (t1 : Tab H) (c1 : C) (h h' : H) (c' : C) (chg : List (Change H))
    (hf : pk.flagged = false)
    (hE : ensure sem t c pk.pid = .ok (t1, c1))
    (hg : t1.get pk.pid = some h)
    (hC : sem.consume h c1 pk = .ok (h', c', chg)) :
    specStep sem (t, c) pk = .ok (applyChanges (t1.insert pk.pid h') chg, c') := by
  rw [specStep_eq, hE]
  simp only [R.ok_bind, hf, Bool.false_eq_true, if_false, hg, hC]

/-- All of them are in force when packet k+1 is dispatched — whatever its PID (also the same PID:
the cached `this_proc` of the inner loop is abandoned when changes were queued) — since k+1 is
dispatched by `specStep` on exactly the table produced above. Stated for the real loops. -/
theorem changes_in_force_at_k_plus_1 (sem : Sem H C) (t : Tab H) (c : C) (pk pk2 : Pk) (rest : List Pk)
    (t1 : Tab H) (c1 : C) (h h' : H) (c' : C) (chg : List (Change H))
    (hf : pk.flagged = false)
    (hE : ensure sem t c pk.pid = .ok (t1, c1))
    (hg : t1.get pk.pid = some h)
    (hC : sem.consume h c1 pk = .ok (h', c', chg)) :
    pushModel sem (t, c) (pk :: pk2 :: rest) =
      (specStep sem (applyChanges (t1.insert pk.pid h') chg, c') pk2 >>= fun tc =>
        pushModel sem tc rest) := by
  rw [C06.push_refines_spec, pushSpec_cons,
    changes_not_in_force_during_k sem t c pk t1 c1 h h' c' chg hf hE hg hC, R.ok_bind, pushSpec_cons]
  cases specStep sem (applyChanges (t1.insert pk.pid h') chg, c') pk2 with
  | panic s => rfl
  | ok tc => simp only [R.ok_bind, C06.push_refines_spec]

/-- The same when k is the LAST packet of one `push` call and k+1 the first packet of the next:
the first call ends in exactly that table, and the next call starts by dispatching k+1 on it. -/
theorem changes_in_force_across_push (sem : Sem H C) (tc0 : Tab H × C) (pre : List Pk)
    (t : Tab H) (c : C) (pk pk2 : Pk) (rest : List Pk)
    (t1 : Tab H) (c1 : C) (h h' : H) (c' : C) (chg : List (Change H))
    (hpre : pushModel sem tc0 pre = .ok (t, c))
    (hf : pk.flagged = false)
    (hE : ensure sem t c pk.pid = .ok (t1, c1))
    (hg : t1.get pk.pid = some h)
    (hC : sem.consume h c1 pk = .ok (h', c', chg)) :
    pushModel sem tc0 (pre ++ [pk]) = .ok (applyChanges (t1.insert pk.pid h') chg, c') ∧
    pushModel sem (applyChanges (t1.insert pk.pid h') chg, c') (pk2 :: rest) =
      (specStep sem (applyChanges (t1.insert pk.pid h') chg, c') pk2 >>= fun tc =>
        pushModel sem tc rest) ∧
    pushModel sem tc0 (pre ++ pk :: pk2 :: rest) =
      pushModel sem (applyChanges (t1.insert pk.pid h') chg, c') (pk2 :: rest) := by
  have hk := changes_not_in_force_during_k sem t c pk t1 c1 h h' c' chg hf hE hg hC
  refine ⟨?_, ?_, ?_⟩
  · rw [C07.pushModel_append, hpre, R.ok_bind, C06.push_refines_spec, pushSpec_cons, hk]; rfl
  · rw [C06.push_refines_spec, pushSpec_cons]
    cases specStep sem (applyChanges (t1.insert pk.pid h') chg, c') pk2 with
    | panic s => rfl
    | ok tc => simp only [R.ok_bind, C06.push_refines_spec]
  · rw [C07.pushModel_append, hpre, R.ok_bind, C06.push_refines_spec, pushSpec_cons, hk, R.ok_bind,
      C06.push_refines_spec]

/-- … and at the byte level: cutting the stream between k and k+1 is invisible (C07) -/
theorem changes_in_force_across_push_bytes (sem : Sem H C) (tc : Tab H × C) (a b : Bytes) (base : Nat)
    (ha : a.length % 188 = 0) :
    pushAll sem tc [a, b] base = push sem tc (a ++ b) base := by
  have := C07.chunking_irrelevant_unaligned_last sem tc [a] b base (by simpa using ha)
  simpa using this

/-- changes are applied in the order queued -/
theorem apply_in_order (t : Tab H) (a b : List (Change H)) :
    applyChanges t (a ++ b) = applyChanges (applyChanges t a) b :=
  applyChanges_append t a b

theorem apply_one (t : Tab H) (ch : Change H) (cs : List (Change H)) :
    applyChanges t (ch :: cs) = applyChanges (applyChange t ch) cs := rfl

/-- the last request for a PID wins -/
theorem last_insert_wins (t : Tab H) (cs : List (Change H)) (p : Nat) (h : H) :
    (applyChanges t (cs ++ [.insert p h])).get p = some h :=
  get_applyChanges_last t cs [] (.insert p h) (by simp)

theorem last_remove_wins (t : Tab H) (cs : List (Change H)) (p : Nat) :
    (applyChanges t (cs ++ [.remove p])).get p = none :=
  get_applyChanges_last t cs [] (.remove p) (by simp)

/-- generally: the LAST change for `p` in the queue determines slot `p` -/
theorem last_change_wins (t : Tab H) (pre post : List (Change H)) (ch : Change H)
    (hpost : ∀ x ∈ post, x.pid ≠ ch.pid) :
    (applyChanges t (pre ++ ch :: post)).get ch.pid = ch.val :=
  get_applyChanges_last t pre post ch hpost

/-- a PID not mentioned in the queue keeps its handler -/
theorem unmentioned_pid_unchanged (t : Tab H) (cs : List (Change H)) (q : Nat)
    (hq : ∀ ch ∈ cs, ch.pid ≠ q) : (applyChanges t cs).get q = t.get q :=
  get_applyChanges_untouched cs t q hq

/-- removing an unregistered PID is harmless — also beyond the end of the vector: the table is
literally unchanged (no growth, and `Tab.remove` is total so no panic) -/
theorem remove_absent_noop (t : Tab H) (p : Nat) (hg : t.get p = none) :
    t.remove p = t ∧ (∀ q, (t.remove p).get q = t.get q) ∧ (t.remove p).length = t.length := by
  have := Tab.remove_of_get_none t p hg
  exact ⟨this, fun q => by rw [this], by rw [this]⟩

theorem remove_beyond_end_noop (t : Tab H) (p : Nat) (hp : t.length ≤ p) : t.remove p = t :=
  Tab.remove_of_ge t p hp

/-- `remove` never grows the table; `insert` grows it exactly to `pid+1` when needed -/
theorem table_length (t : Tab H) (p : Nat) (h : H) :
    (t.remove p).length = t.length ∧ (t.insert p h).length = max t.length (p + 1) :=
  ⟨Tab.length_remove t p, Tab.length_insert t p h⟩

/-! ### run level: the table never exceeds `max PID + 1` slots

`table_length` above is a one-step equation.  The run-level statement needs a bound on the PIDs that
packets carry and that handlers name in their changes; it is stated for EVERY `sem` relative to a
context invariant `I` (for the application of `Ts/Model/App.lean`, `I` is "the recorder script names
13-bit PIDs only": `Ts.Lemmas.C19.ScriptOk`, and the instance at `n = 0x1fff` — together with the
bound on the reassembly buffers — is `Ts.Lemmas.C19.pushSpec_inv` / `Ts.Props.C19.bounded_push`,
`retained_bounded`; C19 is not imported here). -/

/-- applying changes that name PIDs `≤ n` keeps a table of at most `n + 1` slots within `n + 1` -/
theorem applyChanges_length_le (n : Nat) (cs : List (Change H)) : ∀ (t : Tab H),
    t.length ≤ n + 1 → (∀ ch ∈ cs, ch.pid ≤ n) → (applyChanges t cs).length ≤ n + 1 := by
  induction cs with
  | nil => intro t ht _; exact ht
  | cons ch cs ih =>
    intro t ht hcs
    rw [apply_one]
    apply ih
    · cases ch with
      | insert p h =>
        have hp : p ≤ n := hcs (.insert p h) (List.mem_cons_self ..)
        show (t.insert p h).length ≤ n + 1
        rw [Tab.length_insert]; omega
      | remove p =>
        show (t.remove p).length ≤ n + 1
        rw [Tab.length_remove]; exact ht
    · intro x hx; exact hcs x (List.mem_cons_of_mem _ hx)

/-- **One packet.**  Hypotheses: `hcons` — from a context satisfying `I`, `consume` keeps `I` and
only queues changes naming PIDs `≤ n`; `hmk` — `construct` keeps `I`; the table has at most `n + 1`
slots, the context satisfies `I`, the packet's PID is `≤ n`, and the step does not panic.
Conclusion: at most `n + 1` slots afterwards, and `I` still holds. -/
theorem table_length_step (sem : Sem H C) (I : C → Prop) (n : Nat)
    (hcons : ∀ h c pk h' c' chg, I c → sem.consume h c pk = .ok (h', c', chg) →
      I c' ∧ ∀ ch ∈ chg, ch.pid ≤ n)
    (hmk : ∀ c p h c', I c → sem.construct c p = .ok (h, c') → I c')
    (t : Tab H) (c : C) (pk : Pk) (t' : Tab H) (c' : C)
    (ht : t.length ≤ n + 1) (hc : I c) (hp : pk.pid ≤ n)
    (hs : specStep sem (t, c) pk = .ok (t', c')) : t'.length ≤ n + 1 ∧ I c' := by
  rw [specStep_eq] at hs
  -- the table after lookup-or-construct
  have hens : ∀ t1 c1, ensure sem t c pk.pid = .ok (t1, c1) → t1.length ≤ n + 1 ∧ I c1 := by
    intro t1 c1 he
    by_cases hcn : t.contains pk.pid = true
    · rw [ensure_of_contains sem t c pk.pid hcn] at he
      cases he; exact ⟨ht, hc⟩
    · rw [ensure_of_absent sem t c pk.pid (by simpa using hcn)] at he
      cases hk : sem.construct c pk.pid with
      | panic s => rw [hk] at he; cases he
      | ok r =>
        obtain ⟨hn, cn⟩ := r
        rw [hk] at he
        simp only [R.ok_bind] at he
        cases he
        exact ⟨by rw [Tab.length_insert]; omega, hmk c pk.pid hn c1 hc hk⟩
  cases he : ensure sem t c pk.pid with
  | panic s => rw [he] at hs; cases hs
  | ok r =>
    obtain ⟨t1, c1⟩ := r
    obtain ⟨ht1, hc1⟩ := hens t1 c1 he
    rw [he] at hs
    simp only [R.ok_bind] at hs
    by_cases hf : pk.flagged = true
    · simp only [hf, if_true] at hs
      cases hs; exact ⟨ht1, hc1⟩
    · simp only [hf, Bool.false_eq_true, if_false] at hs
      cases hg : t1.get pk.pid with
      | none => rw [hg] at hs; cases hs
      | some h =>
        rw [hg] at hs
        dsimp only at hs
        cases hC : sem.consume h c1 pk with
        | panic s => rw [hC] at hs; cases hs
        | ok x =>
          obtain ⟨h', c'', chg⟩ := x
          rw [hC] at hs
          simp only [R.ok_bind] at hs
          cases hs
          obtain ⟨hI, hchg⟩ := hcons h c1 pk h' c' chg hc1 hC
          refine ⟨applyChanges_length_le n chg _ ?_ hchg, hI⟩
          rw [Tab.length_insert]; omega

/-- **Whole run (`pushSpec`, and `pushModel` = the real loops by C06).**  Under the hypotheses of
`table_length_step` for every packet of the run (all PIDs `≤ n`), a run that does not panic ends
with at most `n + 1` slots.  With `n = 0x1fff` (every framed packet has a 13-bit PID): the table
length never exceeds max PID + 1 = 8192. -/
theorem table_length_run (sem : Sem H C) (I : C → Prop) (n : Nat)
    (hcons : ∀ h c pk h' c' chg, I c → sem.consume h c pk = .ok (h', c', chg) →
      I c' ∧ ∀ ch ∈ chg, ch.pid ≤ n)
    (hmk : ∀ c p h c', I c → sem.construct c p = .ok (h, c') → I c') :
    ∀ (pks : List Pk) (tc tc' : Tab H × C), (∀ pk ∈ pks, pk.pid ≤ n) →
      tc.1.length ≤ n + 1 → I tc.2 →
      (pushSpec sem tc pks = .ok tc' → tc'.1.length ≤ n + 1 ∧ I tc'.2) ∧
      (pushModel sem tc pks = .ok tc' → tc'.1.length ≤ n + 1 ∧ I tc'.2) := by
  have key : ∀ (pks : List Pk) (tc tc' : Tab H × C), (∀ pk ∈ pks, pk.pid ≤ n) →
      tc.1.length ≤ n + 1 → I tc.2 → pushSpec sem tc pks = .ok tc' →
      tc'.1.length ≤ n + 1 ∧ I tc'.2 := by
    intro pks
    induction pks with
    | nil => intro tc tc' _ ht hc h; rw [pushSpec_nil] at h; cases h; exact ⟨ht, hc⟩
    | cons pk rest ih =>
      intro tc tc' hp ht hc h
      rw [pushSpec_cons] at h
      cases hs : specStep sem tc pk with
      | panic s => rw [hs] at h; cases h
      | ok tc1 =>
        rw [hs] at h
        simp only [R.ok_bind] at h
        obtain ⟨t, c⟩ := tc
        obtain ⟨t1, c1⟩ := tc1
        obtain ⟨h1, h2⟩ := table_length_step sem I n hcons hmk t c pk t1 c1 ht hc
          (hp pk (List.mem_cons_self ..)) hs
        exact ih (t1, c1) tc' (fun q hq => hp q (List.mem_cons_of_mem _ hq)) h1 h2 h
  intro pks tc tc' hp ht hc
  refine ⟨key pks tc tc' hp ht hc, ?_⟩
  intro h
  rw [C06.push_refines_spec] at h
  exact key pks tc tc' hp ht hc h

/-- the 13-bit instance, spelled out: PIDs `≤ 0x1fff` give at most 8192 slots -/
theorem table_length_run_13bit (sem : Sem H C) (I : C → Prop)
    (hcons : ∀ h c pk h' c' chg, I c → sem.consume h c pk = .ok (h', c', chg) →
      I c' ∧ ∀ ch ∈ chg, ch.pid ≤ 0x1fff)
    (hmk : ∀ c p h c', I c → sem.construct c p = .ok (h, c') → I c')
    (pks : List Pk) (tc tc' : Tab H × C) (hp : ∀ pk ∈ pks, pk.pid ≤ 0x1fff)
    (ht : tc.1.length ≤ 8192) (hc : I tc.2) (h : pushModel sem tc pks = .ok tc') :
    tc'.1.length ≤ 8192 :=
  ((table_length_run sem I 0x1fff hcons hmk pks tc tc' hp ht hc).2 h).1

/-- the bound is attained and the PID hypothesis is needed: one packet on PID `n` grows the empty
table to exactly `n + 1` slots (`exSem`, `n = 9`) -/
example : (pushModel exSem ([], []) [exPk 9 false false]).isOk = true ∧
    (match pushModel exSem ([], []) [exPk 9 false false] with
     | .ok tc => tc.1.length | .panic _ => 0) = 10 := ⟨rfl, rfl⟩

/-- the hypotheses of `table_length_run` are satisfiable: `exSem` with `I := True`, `n = 7` (its
handlers name the PIDs 1, 2, 3, 7), on the three-packet run used below -/
example : ∀ tc', pushModel exSem ([], []) [exPk 1 false false, exPk 1 false false, exPk 4 false false] = .ok tc' →
    tc'.1.length ≤ 8 := by
  intro tc' h
  refine ((table_length_run exSem (fun _ => True) 7 ?_ ?_ _ ([], []) tc' ?_ (by decide) trivial).2 h).1
  · intro h c pk h' c' chg _ hC
    refine ⟨trivial, ?_⟩
    have : chg = (if pk.pid == 1 then [.insert 2 50, .remove 1]
        else if pk.pid == 3 then [.remove 3, .insert 3 70]
        else if pk.pid == 4 then [.remove 7] else []) := by
      cases hC; rfl
    subst this
    intro ch hch
    split at hch
    · simp only [List.mem_cons, List.not_mem_nil, or_false] at hch
      rcases hch with rfl | rfl <;> decide
    · split at hch
      · simp only [List.mem_cons, List.not_mem_nil, or_false] at hch
        rcases hch with rfl | rfl <;> decide
      · split at hch
        · simp only [List.mem_cons, List.not_mem_nil, or_false] at hch
          subst hch; decide
        · cases hch
  · intros; trivial
  · intro pk hpk
    simp only [List.mem_cons, List.not_mem_nil, or_false] at hpk
    rcases hpk with rfl | rfl | rfl <;> decide

/-- a handler may REPLACE itself: if the last change it queues for its own PID is `insert pid h2`,
then after the step the slot holds `h2`, overriding the in-place update `h'` -/
theorem self_replace (sem : Sem H C) (t : Tab H) (c : C) (pk : Pk)
    (t1 : Tab H) (c1 : C) (h h' h2 : H) (c' : C) (pre post : List (Change H))
    (hf : pk.flagged = false)
    (hE : ensure sem t c pk.pid = .ok (t1, c1))
    (hg : t1.get pk.pid = some h)
    (hC : sem.consume h c1 pk = .ok (h', c', pre ++ .insert pk.pid h2 :: post))
    (hpost : ∀ x ∈ post, x.pid ≠ pk.pid) :
    ∃ T, specStep sem (t, c) pk = .ok (T, c') ∧ T.get pk.pid = some h2 :=
  ⟨_, changes_not_in_force_during_k sem t c pk t1 c1 h h' c' _ hf hE hg hC,
    get_applyChanges_last _ pre post (.insert pk.pid h2) hpost⟩

/-- a handler may REMOVE itself -/
theorem self_remove (sem : Sem H C) (t : Tab H) (c : C) (pk : Pk)
    (t1 : Tab H) (c1 : C) (h h' : H) (c' : C) (pre post : List (Change H))
    (hf : pk.flagged = false)
    (hE : ensure sem t c pk.pid = .ok (t1, c1))
    (hg : t1.get pk.pid = some h)
    (hC : sem.consume h c1 pk = .ok (h', c', pre ++ .remove pk.pid :: post))
    (hpost : ∀ x ∈ post, x.pid ≠ pk.pid) :
    ∃ T, specStep sem (t, c) pk = .ok (T, c') ∧ T.get pk.pid = none ∧ T.contains pk.pid = false := by
  refine ⟨_, changes_not_in_force_during_k sem t c pk t1 c1 h h' c' _ hf hE hg hC, ?_, ?_⟩
  · exact get_applyChanges_last _ pre post (.remove pk.pid) hpost
  · rw [Tab.contains_eq_false_iff]
    exact get_applyChanges_last _ pre post (.remove pk.pid) hpost

/-- if the handler queues nothing about its own PID its in-place update is what remains -/
theorem self_update_persists (sem : Sem H C) (t : Tab H) (c : C) (pk : Pk)
    (t1 : Tab H) (c1 : C) (h h' : H) (c' : C) (chg : List (Change H))
    (hf : pk.flagged = false)
    (hE : ensure sem t c pk.pid = .ok (t1, c1))
    (hg : t1.get pk.pid = some h)
    (hC : sem.consume h c1 pk = .ok (h', c', chg))
    (hno : ∀ x ∈ chg, x.pid ≠ pk.pid) :
    ∃ T, specStep sem (t, c) pk = .ok (T, c') ∧ T.get pk.pid = some h' := by
  refine ⟨_, changes_not_in_force_during_k sem t c pk t1 c1 h h' c' _ hf hE hg hC, ?_⟩
  rw [get_applyChanges_untouched chg _ _ hno, Tab.get_insert_self]

/-- a PID left without a handler is offered to the application again: `ensure` requests
`construct(ByPid p)` (exactly as for a never-seen PID) and installs the result -/
theorem orphan_pid_reoffered (sem : Sem H C) (t : Tab H) (c : C) (p : Nat) (hg : t.get p = none) :
    ensure sem t c p = (sem.construct c p >>= fun r => R.ok (t.insert p r.1, r.2)) ∧
    (∀ hn cn, sem.construct c p = .ok (hn, cn) →
      ensure sem t c p = .ok (t.insert p hn, cn) ∧ (t.insert p hn).get p = some hn) := by
  have he := ensure_of_absent sem t c p ((Tab.contains_eq_false_iff t p).2 hg)
  refine ⟨he, ?_⟩
  intro hn cn hk
  rw [he, hk]
  exact ⟨rfl, Tab.get_insert_self _ _ _⟩

/-- … in particular right after a removal, whatever else was queued before it -/
theorem removed_pid_reoffered (sem : Sem H C) (t : Tab H) (c : C) (p : Nat) (cs : List (Change H)) :
    ensure sem (applyChanges t (cs ++ [.remove p])) c p =
      (sem.construct c p >>= fun r => R.ok ((applyChanges t (cs ++ [.remove p])).insert p r.1, r.2)) :=
  (orphan_pid_reoffered sem _ c p (last_remove_wins t cs p)).1

/-! ### non-vacuity (`exSem`: `H := Nat` counts consumed packets, `C := List Nat` logs callbacks:
`9000+pid` = construct, `100*pid+n` = consume by the handler of `pid` in state `n`) -/

/-- PID 1's handler queues `[insert 2 50, remove 1]` (removes itself).  The second PID-1 packet is
therefore offered to the application again (second 9001) and handled by a fresh handler (state 0
again: `100`), and PID 2's packet goes to the inserted handler in state 50 (`250`). -/
example : pushModel exSem ([], []) [exPk 1 false false, exPk 1 false false, exPk 2 false false]
    = .ok ([none, none, some 51], [9001, 100, 9001, 100, 250]) := rfl

/-- PID 3's handler queues `[remove 3, insert 3 70]`: last request wins, self-replacement overrides
the in-place update (state 1), next packet is consumed in state 70 without a new `construct` -/
example : pushModel exSem ([], []) [exPk 3 false false, exPk 3 false false]
    = .ok ([none, none, none, some 70], [9003, 300, 370]) := rfl

/-- PID 4's handler queues the removal of the never-registered PID 7 (beyond the vector's end):
harmless, no growth -/
example : pushModel exSem ([], []) [exPk 4 false false, exPk 4 false false]
    = .ok ([none, none, none, none, some 2], [9004, 400, 401]) := rfl

/-- the hypotheses of `changes_not_in_force_during_k` / `self_remove` are satisfiable -/
example : ∃ t1 c1 h h' c' pre post,
    (exPk 1 false false).flagged = false ∧
    ensure exSem ([] : Tab Nat) [] (exPk 1 false false).pid = .ok (t1, c1) ∧
    t1.get (exPk 1 false false).pid = some h ∧
    exSem.consume h c1 (exPk 1 false false) = .ok (h', c', pre ++ .remove (exPk 1 false false).pid :: post) ∧
    (∀ x ∈ post, x.pid ≠ (exPk 1 false false).pid) :=
  ⟨[none, some 0], [9001], 0, 1, [9001, 100], [.insert 2 50], [], rfl, rfl, rfl, rfl, by simp⟩

/-- split across two `push` calls: same callbacks -/
example : (pushModel exSem ([], []) [exPk 1 false false] >>= fun tc => pushModel exSem tc [exPk 1 false false, exPk 2 false false])
    = pushModel exSem ([], []) [exPk 1 false false, exPk 1 false false, exPk 2 false false] := rfl

end Ts.Props.C18
