import Ts.Lemmas.Proj
import Ts.Lemmas.Projb
import Ts.Lemmas.C02d
import Ts.Props.C02
import Ts.Props.C06
import Ts.Props.C08
import Ts.Props.C19
/-!
# C02 / C06 / C08 for the concrete application: the per-consumer view of the callback trace

The application context `App.Ctx` records the callbacks of ALL handlers in one shared trace
(`Ctx.trace`, most recent first).  `C02.not_attributed_to_other_pid` tracked the filter STATE of a
PES handler's slot over an interleaving; here the TRACE is projected.

1. **Tag discipline** (`TagInv`): tags held by handlers in the table are `< nextTag` and pairwise
   distinct across slots, every tagged event in the trace has a tag `< nextTag`; holds initially,
   preserved by every dispatcher step on ANY packet (`tagInv_step` … `tagInv_runApp`).
   A tag that left the table is never re-issued and never emits again (`tag_never_reissued`).
2. **Projection** (`pes_trace_is_filter_run_kept`): what consumer `τ` observes over an interleaving
   is what it observed before followed by exactly the events of `PesFilter.run` over the unflagged
   packets of its own PID, in order, with global ranges; no other handler emits an event tagged
   `τ`; independent of the interleaving (`projection_independent_of_interleaving`,
   `projection_independent_modulo_offsets`).  The hypothesis is `Keeps` (along the actual run the
   consumer is not replaced); `pes_trace_is_filter_run` assumes the run-relative `QuietAlong`
   instead, and `pes_trace_is_filter_run_benign` / `keeps_of_es_interleaving` /
   `keeps_of_es_and_repeated_tables` / `keeps_of_benign_traffic` derive it from hypotheses on the
   INPUT: the other packets belong to other elementary streams, are repetitions of the tables in
   force (C10), or go to recorders without scripted action.
3. **Corollaries**: `es_consumer_sees_only_its_pid` (C19), `es_consumer_conservation` (C02),
   `es_consumer_well_nested` (C08) for EVERY tag over ANY pushed bytes.
4. **Bytes of the pushed buffer** (section 5): `frame_range_is_buffer_window` — a range of a framed
   packet is a window of the buffer handed to `push`; `es_payload_bytes_from_pushed_buffer` (and
   `…_benign`, `es_payload_bytes_from_buffer`) — the buffer bytes at the global ranges consumer `τ`
   is handed, grouped per PES packet (`payloadGroups`), are exactly the multiplexed payloads.
5. **End to end** (section 6): `es_conservation_end_to_end` — from `Demultiplex::new`, one push of
   concrete PAT and PMT packets followed by ANY interleaving of a well-formed PES stream with
   benign traffic; no hypothesis on internal state.
6. `rejected_optional_header_still_delivered_split` (section 7): the reading of C08's "header could
   not be recognised" clause on the `exSplit` packets of `Props/C02.lean`.
-/
namespace Ts.Props.C02Trace
open Ts Ts.Demux Ts.App Ts.Lemmas.Proj Ts.Spec.Protocol Ts.Spec.PesMux
open Ts.Lemmas.C02 (QuietAlong Benign streamPackets streamFinal expectedBegin esOpen)
open Ts.Lemmas.C10 (RepPacket QuiescentH)
open Ts.Lemmas.C19 (EvInPacket R.bind_eq_ok R.ok_inj)

/-! ## 0. vocabulary -/

/-- which events / handlers carry a tag -/
theorem tag_vocabulary (tag off len pid prog : Nat) (bi : BeginInfo) (req : Req) (s : Psi.St)
    (reg : List Nat) (f : PesFilter.F) :
    tagOf (.pkt tag off) = some tag ∧ tagOf (.esStart tag) = some tag ∧ tagOf (.esBegin tag bi) = some tag
    ∧ tagOf (.esCont tag off len) = some tag ∧ tagOf (.esEnd tag) = some tag ∧ tagOf (.esCcErr tag) = some tag
    ∧ tagOf (.construct req tag) = none ∧ tagOf (.scriptIns pid tag) = none ∧ tagOf (.scriptRem pid) = none
    ∧ hTag (.pes tag f) = some tag ∧ hTag (.recorder tag) = some tag
    ∧ hTag (.pat s reg) = none ∧ hTag (.pmt pid prog s reg) = none :=
  ⟨rfl, rfl, rfl, rfl, rfl, rfl, rfl, rfl, rfl, rfl, rfl, rfl, rfl⟩

/-- `tagsIn t`: the tags of the `.pes` / `.recorder` handlers registered in `t` -/
theorem tagsIn_mem (t : Tab Handler) (τ : Nat) :
    τ ∈ tagsIn t ↔ ∃ p h, t.get p = some h ∧ hTag h = some τ :=
  Ts.Lemmas.Proj.tagsIn_mem t τ

/-- THE INVARIANT, spelled out -/
theorem tagInv_iff (t : Tab Handler) (c : Ctx) :
    TagInv (t, c) ↔
      (∀ τ ∈ tagsIn t, τ < c.nextTag) ∧ (tagsIn t).Pairwise (· ≠ ·)
      ∧ (∀ e ∈ c.trace, ∀ τ, tagOf e = some τ → τ < c.nextTag) := by
  constructor
  · rintro ⟨a, b⟩
    exact ⟨((tabTags_iff t _).1 a).1, ((tabTags_iff t _).1 a).2, b⟩
  · rintro ⟨a, b, d⟩
    exact ⟨(tabTags_iff t _).2 ⟨a, b⟩, d⟩

/-- … equivalently, slot-wise: two slots holding the same tag are the same slot -/
theorem tagInv_slots (t : Tab Handler) (c : Ctx) (h : TagInv (t, c)) :
    (∀ p hd τ, t.get p = some hd → hTag hd = some τ → τ < c.nextTag) ∧
    (∀ p q hd hd' τ, t.get p = some hd → t.get q = some hd' → hTag hd = some τ → hTag hd' = some τ → p = q) :=
  h.1

/-- the projection -/
theorem proj_eq (τ : Nat) (c : Ctx) :
    proj τ c = (c.trace.reverse).filter (fun e => decide (tagOf e = some τ)) := rfl

theorem own_eq (p : Nat) (pks : List Pk) :
    own p pks = pks.filter (fun pk => pk.pid == p && !pk.flagged) := rfl

/-! ## 1. tag discipline -/

/-- `construct` allocates `nextTag`, increments it, records the request; the handler it returns
holds that tag or none; a PES handler is returned in its initial state -/
theorem construct_allocates (c : Ctx) (req : Req) :
    (construct c req).2 = { c with nextTag := c.nextTag + 1 }.emit (.construct req c.nextTag)
    ∧ (hTag (construct c req).1 = none ∨ hTag (construct c req).1 = some c.nextTag)
    ∧ ∀ σ f, (construct c req).1 = .pes σ f → f = {} ∧ σ = c.nextTag :=
  ⟨construct_ctx c req, construct_tag c req, construct_pes c req⟩

/-- `Produces`, spelled out: configuration untouched, tags only handed out, events only appended
(each satisfying `P`), every tagged handler queued for insertion holds a tag handed out by this
very piece of code, those tags are strictly increasing in queue order (so pairwise distinct), and
PES handlers are queued in their initial state -/
theorem produces_spec {P : Ev → Prop} {c c' : Ctx} {chg : List (Change Handler)}
    (h : Produces P c chg c') :
    c'.cfg = c.cfg ∧ c.nextTag ≤ c'.nextTag
    ∧ (∃ out, c'.trace = out ++ c.trace ∧ ∀ e ∈ out, P e)
    ∧ (∀ q hd σ, Change.insert q hd ∈ chg → hTag hd = some σ → c.nextTag ≤ σ ∧ σ < c'.nextTag)
    ∧ (chgTags chg).Pairwise (· < ·)
    ∧ (∀ q σ f, Change.insert q (Handler.pes σ f) ∈ chg → f = {}) :=
  ⟨h.1.1, h.1.2.1, h.1.2.2, fun q hd σ hm ht => chgFresh_mem chg _ _ h.2.1 q hd σ hm ht,
   chgFresh_pairwise chg _ _ h.2.1, fun q σ f hm => h.2.2 _ hm q σ f rfl⟩

theorem chgTags_mem (cs : List (Change Handler)) (σ : Nat) :
    σ ∈ chgTags cs ↔ ∃ q h, Change.insert q h ∈ cs ∧ hTag h = some σ :=
  Ts.Lemmas.Proj.chgTags_mem cs σ

/-- `PatProcessor::section`: only `construct` events; inserted handlers get consecutive fresh tags -/
theorem patSection_fresh (c : Ctx) (reg : List Nat) (data : Bytes) (c' : Ctx) (reg' : List Nat)
    (chg : List (Change Handler)) (h : patSection c reg data = .ok (c', reg', chg)) :
    Produces (fun e => tagOf e = none) c chg c' :=
  patSection_produces c reg data c' reg' chg h

/-- `PmtProcessor::section`: likewise -/
theorem pmtSection_fresh (c : Ctx) (pmtPid : Nat) (reg : List Nat) (data : Bytes) (c' : Ctx)
    (reg' : List Nat) (chg : List (Change Handler))
    (h : pmtSection c pmtPid reg data = .ok (c', reg', chg)) :
    Produces (fun e => tagOf e = none) c chg c' :=
  pmtSection_produces c pmtPid reg data c' reg' chg h

/-- the recorder's scripted changes: likewise -/
theorem scriptChanges_fresh (ops : List ScriptOp) (c : Ctx) :
    Produces (fun e => tagOf e = none) c (scriptChanges c ops).2 (scriptChanges c ops).1 :=
  scriptChanges_produces ops c

/-- ONE `consume` of ANY handler on ANY packet: every tagged event it appends carries the handler's
own tag; its queued changes are fresh (`produces_spec`); the handler keeps its tag -/
theorem consume_emits_own_tag (h : Handler) (c : Ctx) (pk : Pk) (h' : Handler) (c' : Ctx)
    (chg : List (Change Handler)) (hc : App.consume h c pk = .ok (h', c', chg)) :
    Produces (fun e => ∀ σ, tagOf e = some σ → hTag h = some σ) c chg c' ∧ hTag h' = hTag h := by
  obtain ⟨a, b, _⟩ := consume_facts h c pk h' c' chg hc
  exact ⟨produces_mono (fun e he σ hσ => evBy_tag h e σ he hσ) a, b⟩

theorem tagInv_init (cfg : Cfg) : TagInv (App.init cfg) := init_tagInv cfg

/-- one dispatcher step, ANY packet: the invariant is preserved, the configuration is untouched,
the trace is only extended, and every new tagged event carries the tag of the handler that was
registered for the packet's PID, or a tag handed out during this step -/
theorem tagInv_step (t : Tab Handler) (c : Ctx) (pk : Pk) (t' : Tab Handler) (c' : Ctx)
    (hi : TagInv (t, c)) (h : specStep App.sem (t, c) pk = .ok (t', c')) :
    TagInv (t', c') ∧ c'.cfg = c.cfg ∧ c.nextTag ≤ c'.nextTag ∧
    ∃ out, c'.trace = out ++ c.trace ∧ ∀ e ∈ out, ∀ σ, tagOf e = some σ →
      (∃ h0, t.get pk.pid = some h0 ∧ hTag h0 = some σ) ∨ c.nextTag ≤ σ := by
  obtain ⟨a, b1, b2, b3⟩ := specStep_facts t c pk t' c' hi h
  exact ⟨a, b1, b2, b3⟩

theorem tagInv_pushSpec (pks : List Pk) (tc tc' : Tab Handler × Ctx) (hi : TagInv tc)
    (h : pushSpec App.sem tc pks = .ok tc') :
    TagInv tc' ∧ tc'.2.cfg = tc.2.cfg ∧ tc.2.nextTag ≤ tc'.2.nextTag
      ∧ ∃ new, tc'.2.trace = new ++ tc.2.trace := by
  obtain ⟨a, b1, b2, new, b3, _⟩ := pushSpec_tagInv pks tc tc' hi h
  exact ⟨a, b1, b2, new, b3⟩

/-- the real double loop -/
theorem tagInv_pushModel (pks : List Pk) (tc tc' : Tab Handler × Ctx) (hi : TagInv tc)
    (h : pushModel App.sem tc pks = .ok tc') : TagInv tc' := by
  rw [C06.push_refines_spec] at h
  exact (pushSpec_tagInv pks tc tc' hi h).1

/-- `Demultiplex::push` of ARBITRARY bytes -/
theorem tagInv_push (tc : Tab Handler × Ctx) (buf : Bytes) (base : Nat) (tc' : Tab Handler × Ctx)
    (hi : TagInv tc) (h : push App.sem tc buf base = .ok tc') : TagInv tc' :=
  push_tagInv tc buf base tc' hi h

/-- the whole application over any sequence of pushed byte strings -/
theorem tagInv_runApp (cfg : Cfg) (pushes : List Bytes) (t : Tab Handler) (c : Ctx)
    (h : runApp cfg pushes = .ok (t, c)) : TagInv (t, c) :=
  pushAll_tagInv pushes (App.init cfg) 0 (t, c) (init_tagInv cfg) h

/-- where the tags in the table come from: they were there, or they were handed out in this step -/
theorem tags_after_step (t : Tab Handler) (c : Ctx) (pk : Pk) (t' : Tab Handler) (c' : Ctx)
    (h : specStep App.sem (t, c) pk = .ok (t', c')) :
    ∀ σ ∈ tagsIn t', σ ∈ tagsIn t ∨ c.nextTag ≤ σ :=
  specStep_tags_origin t c pk t' c' h

/-- replacing or removing a slot drops its tag from the table; a tag that was handed out and is not
in the table is NEVER re-issued and NO event is ever attributed to it again -/
theorem tag_never_reissued (τ : Nat) (pks : List Pk) (t : Tab Handler) (c : Ctx) (t' : Tab Handler)
    (c' : Ctx) (hi : TagInv (t, c)) (hlt : τ < c.nextTag) (hn : τ ∉ tagsIn t)
    (h : pushSpec App.sem (t, c) pks = .ok (t', c')) : τ ∉ tagsIn t' ∧ proj τ c' = proj τ c :=
  retired_silent τ pks t c t' c' hi hlt hn h

/-- before a tag is handed out nothing is attributed to it -/
theorem unissued_tag_silent (τ : Nat) (t : Tab Handler) (c : Ctx) (hi : TagInv (t, c))
    (h : c.nextTag ≤ τ) : proj τ c = [] ∧ τ ∉ tagsIn t := by
  refine ⟨?_, ?_⟩
  · unfold proj
    refine filter_tag_none τ _ ?_
    intro e he hτ
    have : τ < c.nextTag := hi.2 e (List.mem_reverse.1 he) τ hτ
    omega
  · intro hm
    have := ((tagInv_iff t c).1 hi).1 τ hm
    omega

/-! ## 2. the projection -/

/-- `esEvList` IS what `App.esEvents` appends (oldest first); same panics -/
theorem esEvents_is_esEvList (touch : Bool) (tag : Nat) (p : Bytes) (base : Nat)
    (evs : List PesFilter.Ev) (c : Ctx) :
    esEvents touch tag p base c evs =
      (esEvList touch tag p base evs >>= fun l => R.ok { c with trace := l.reverse ++ c.trace }) :=
  esEvents_eq_list touch tag p base evs c

/-- `esAll`: `esEvList` packet by packet, each with its own bytes and stream offset -/
theorem esAll_spec (touch : Bool) (tag : Nat) (pk : Pk) (pks : List Pk) (evs : List PesFilter.Ev)
    (evss : List (List PesFilter.Ev)) :
    esAll touch tag [] [] = .ok [] ∧
    esAll touch tag (pk :: pks) (evs :: evss) =
      (esEvList touch tag pk.bytes pk.off evs >>= fun a =>
        esAll touch tag pks evss >>= fun rest => R.ok (a :: rest)) :=
  ⟨rfl, rfl⟩

/-- `Keeps p τ tc pks`: along the actual run, after every step slot `p` holds a PES handler tagged `τ` -/
theorem keeps_spec (p τ : Nat) (tc : Tab Handler × Ctx) (pk : Pk) (pks : List Pk) :
    Keeps p τ tc [] = true ∧
    (Keeps p τ tc (pk :: pks) = true ↔
      ∀ tc', specStep App.sem tc pk = .ok tc' →
        (∃ f, tc'.1.get p = some (.pes τ f)) ∧ Keeps p τ tc' pks = true) := by
  refine ⟨rfl, ?_⟩
  simp only [Keeps]
  cases h : specStep App.sem tc pk with
  | panic s => simp
  | ok r =>
    simp only [Bool.and_eq_true, holdsPes_iff]
    constructor
    · intro hk tc' e
      injection e with e; subst e; exact hk
    · intro hk; exact hk r rfl

/-- the hypotheses of `C02.not_attributed_to_other_pid` imply `Keeps`: if slot `p` holds the PES
handler tagged `τ` and the run is quiet for `p` (`QuietAlong`: no handler that actually consumes a
packet of another PID in this run queues a change naming `p`), the consumer is never replaced -/
theorem keeps_of_not_attributed (p τ : Nat) (pks : List Pk) (t : Tab Handler) (c : Ctx)
    (f : PesFilter.F) (hg : t.get p = some (.pes τ f))
    (hQ : QuietAlong App.sem p (t, c) pks) :
    Keeps p τ (t, c) pks = true :=
  Ts.Lemmas.C02.keeps_of_quietAlong p τ pks t c f hg hQ

/-- INPUT-LEVEL ⇒ `Keeps`, elementary streams only.  Slot `p` holds the PES handler tagged `τ`; every
packet of `pks` on another PID `q` finds a PES handler in slot `q` of the table `t` at the START of
the run (the other traffic consists of elementary streams with PES handlers).  Then along the run
consumer `τ` is never replaced or removed.  No hypothesis on packet lengths, flags or contents:
PES handlers queue no change (`C02.pes_handler_queues_nothing`) and stay PES handlers. -/
theorem keeps_of_es_interleaving (p τ : Nat) (pks : List Pk) (t : Tab Handler) (c : Ctx)
    (f : PesFilter.F) (hg : t.get p = some (.pes τ f))
    (hO : ∀ pk ∈ pks, pk.pid ≠ p → ∃ σ g, t.get pk.pid = some (.pes σ g)) :
    Keeps p τ (t, c) pks = true :=
  Ts.Lemmas.C02.keeps_of_benign (fun _ => 0) p τ pks t c f hg
    (fun pk hm hne => Or.inl (hO pk hm hne))

/-- INPUT-LEVEL ⇒ `Keeps`, elementary streams and REPEATED TABLES (the property's "any interleaving
with other PIDs and repeated tables").  Slot `p` holds the PES handler tagged `τ`; every packet of
`pks` on another PID `q` either finds a PES handler in slot `q` of the table `t` at the start of
the run, or is an unflagged repetition packet (C10 `RepPacket (ver q)`: 188 bytes whose payload, if
any, is a continuation payload or the first payload of a packetisation of a well-formed section
with `version_number = ver q`) and slot `q` of `t` holds a PAT / PMT handler quiescent at that
version (C10 `QuiescentH`).  Then along the run consumer `τ` is never replaced or removed. -/
theorem keeps_of_es_and_repeated_tables (ver : Nat → Nat) (p τ : Nat) (pks : List Pk)
    (t : Tab Handler) (c : Ctx) (f : PesFilter.F) (hg : t.get p = some (.pes τ f))
    (hO : ∀ pk ∈ pks, pk.pid ≠ p →
      (∃ σ g, t.get pk.pid = some (.pes σ g))
      ∨ (pk.flagged = false ∧ RepPacket (ver pk.pid) pk.bytes
          ∧ ∃ h, t.get pk.pid = some h ∧ QuiescentH (ver pk.pid) h)) :
    Keeps p τ (t, c) pks = true := by
  refine Ts.Lemmas.C02.keeps_of_benign ver p τ pks t c f hg ?_
  intro pk hm hne
  rcases hO pk hm hne with h | ⟨_, hr, hq⟩
  · exact Or.inl h
  · exact Or.inr (Or.inl ⟨hq, Or.inr hr⟩)

/-- INPUT-LEVEL ⇒ `Keeps`, the general form: every packet on another PID is `Benign` for the table
and the script at the start of the run (`C02.benign_iff`: other elementary streams; flagged or
repetition packets on quiescent PAT / PMT handlers; packets — flagged, or without scripted action —
on recorders or on unregistered PIDs other than 0, e.g. null packets). -/
theorem keeps_of_benign_traffic (ver : Nat → Nat) (p τ : Nat) (pks : List Pk) (t : Tab Handler)
    (c : Ctx) (f : PesFilter.F) (hg : t.get p = some (.pes τ f))
    (hB : ∀ pk ∈ pks, pk.pid ≠ p → Benign ver c.cfg.script t pk) :
    Keeps p τ (t, c) pks = true :=
  Ts.Lemmas.C02.keeps_of_benign ver p τ pks t c f hg hB

/-- MAIN, semantic hypothesis.  `TagInv (t, c)`; slot `p` holds the PES handler tagged `τ` in
filter state `f`; along the run over the interleaving `pks` the consumer is never replaced or
removed (`Keeps`; every unflagged packet on `p` is 188 bytes).  Then
* `PesFilter.run f` over exactly the unflagged PID-`p` packets, in order, succeeds (`f'`, `evss`),
* the application events for those callbacks (`esAll`: packet `k`'s callbacks with packet `k`'s
  bytes and global offset) are `outs`,
* consumer `τ` observes `proj τ c' = proj τ c ++ outs.flatten` — nothing else: no other handler
  emits an event tagged `τ`, nothing of PID `p` is missing,
* slot `p` ends in state `f'`, and the invariant holds again. -/
theorem pes_trace_is_filter_run_kept (p τ : Nat) (pks : List Pk) (t : Tab Handler) (c : Ctx)
    (f : PesFilter.F) (t' : Tab Handler) (c' : Ctx)
    (hi : TagInv (t, c)) (hg : t.get p = some (.pes τ f))
    (h188 : ∀ pk ∈ pks, pk.pid = p → pk.flagged = false → pk.bytes.length = 188)
    (hK : Keeps p τ (t, c) pks = true)
    (hrun : pushSpec App.sem (t, c) pks = .ok (t', c')) :
    ∃ f' evss outs,
      PesFilter.run f ((own p pks).map (·.bytes)) = .ok (f', evss) ∧
      esAll c.cfg.touch τ (own p pks) evss = .ok outs ∧
      proj τ c' = proj τ c ++ outs.flatten ∧
      t'.get p = some (.pes τ f') ∧ TagInv (t', c') := by
  obtain ⟨outs, new, a1, a2, a3, _, a5, a6⟩ := pushSpec_view p τ pks t c f t' c' hi hg h188 hK hrun
  refine ⟨_, _, outs, Ts.Lemmas.C08.run_eq f _ ?_, a1, ?_, a2, a3⟩
  · intro b hb
    simp only [List.mem_map, own, List.mem_filter] at hb
    obtain ⟨pk, ⟨hm, hp⟩, rfl⟩ := hb
    simp only [Bool.and_eq_true, beq_iff_eq, Bool.not_eq_true'] at hp
    exact h188 pk hm hp.1 hp.2
  · rw [proj_of_trace τ c c' new a5, a6]

/-- MAIN, with the hypotheses of `C02.not_attributed_to_other_pid`: the run is quiet for `p`
(`hQ : QuietAlong`, a hypothesis on the ACTUAL run: no handler that consumes a packet of another
PID in this run queues a change naming `p`); packets on `p` are 188 bytes. -/
theorem pes_trace_is_filter_run (p τ : Nat) (pks : List Pk) (t : Tab Handler) (c : Ctx)
    (f : PesFilter.F) (t' : Tab Handler) (c' : Ctx)
    (hi : TagInv (t, c)) (hg : t.get p = some (.pes τ f))
    (h188 : ∀ pk ∈ pks, pk.pid = p → pk.bytes.length = 188)
    (hQ : QuietAlong App.sem p (t, c) pks)
    (hrun : pushSpec App.sem (t, c) pks = .ok (t', c')) :
    ∃ f' evss outs,
      PesFilter.run f ((own p pks).map (·.bytes)) = .ok (f', evss) ∧
      esAll c.cfg.touch τ (own p pks) evss = .ok outs ∧
      proj τ c' = proj τ c ++ outs.flatten ∧
      t'.get p = some (.pes τ f') ∧ TagInv (t', c') :=
  pes_trace_is_filter_run_kept p τ pks t c f t' c' hi hg (fun pk hm hp _ => h188 pk hm hp)
    (keeps_of_not_attributed p τ pks t c f hg hQ) hrun

/-- the same for the real double loop `pushModel` (`C06.push_refines_spec`) -/
theorem pes_trace_is_filter_run_model (p τ : Nat) (pks : List Pk) (t : Tab Handler) (c : Ctx)
    (f : PesFilter.F) (t' : Tab Handler) (c' : Ctx)
    (hi : TagInv (t, c)) (hg : t.get p = some (.pes τ f))
    (h188 : ∀ pk ∈ pks, pk.pid = p → pk.bytes.length = 188)
    (hQ : QuietAlong App.sem p (t, c) pks)
    (hrun : pushModel App.sem (t, c) pks = .ok (t', c')) :
    ∃ f' evss outs,
      PesFilter.run f ((own p pks).map (·.bytes)) = .ok (f', evss) ∧
      esAll c.cfg.touch τ (own p pks) evss = .ok outs ∧
      proj τ c' = proj τ c ++ outs.flatten ∧
      t'.get p = some (.pes τ f') ∧ TagInv (t', c') := by
  rw [C06.push_refines_spec] at hrun
  exact pes_trace_is_filter_run p τ pks t c f t' c' hi hg h188 hQ hrun

/-- MAIN, INPUT-LEVEL hypotheses: ANY interleaving of the packets of PID `p` with packets of other
elementary streams, repetitions of the tables in force, and recorder traffic without scripted
action (`hB : Benign`, relative to the table and script at the START of the run; see
`C02.benign_iff`, and `keeps_of_es_and_repeated_tables` for the hypothesis written out without the
recorder clause).  `TagInv (t, c)`; slot `p` holds the PES handler tagged `τ` in state `f`; the
unflagged packets on `p` are 188 bytes.  Conclusion as in `pes_trace_is_filter_run_kept`. -/
theorem pes_trace_is_filter_run_benign (ver : Nat → Nat) (p τ : Nat) (pks : List Pk)
    (t : Tab Handler) (c : Ctx) (f : PesFilter.F) (t' : Tab Handler) (c' : Ctx)
    (hi : TagInv (t, c)) (hg : t.get p = some (.pes τ f))
    (h188 : ∀ pk ∈ pks, pk.pid = p → pk.flagged = false → pk.bytes.length = 188)
    (hB : ∀ pk ∈ pks, pk.pid ≠ p → Benign ver c.cfg.script t pk)
    (hrun : pushSpec App.sem (t, c) pks = .ok (t', c')) :
    ∃ f' evss outs,
      PesFilter.run f ((own p pks).map (·.bytes)) = .ok (f', evss) ∧
      esAll c.cfg.touch τ (own p pks) evss = .ok outs ∧
      proj τ c' = proj τ c ++ outs.flatten ∧
      t'.get p = some (.pes τ f') ∧ TagInv (t', c') :=
  pes_trace_is_filter_run_kept p τ pks t c f t' c' hi hg h188
    (keeps_of_benign_traffic ver p τ pks t c f hg hB) hrun

/-- … and for `Demultiplex::push` on raw bytes: the framed packets are 188 bytes by construction -/
theorem pes_trace_is_filter_run_push (p τ : Nat) (buf : Bytes) (base : Nat) (pks : List Pk)
    (t : Tab Handler) (c : Ctx) (f : PesFilter.F) (t' : Tab Handler) (c' : Ctx)
    (hi : TagInv (t, c)) (hg : t.get p = some (.pes τ f))
    (hf : frame buf base = .ok pks)
    (hK : Keeps p τ (t, c) pks = true)
    (hrun : push App.sem (t, c) buf base = .ok (t', c')) :
    ∃ f' evss outs,
      PesFilter.run f ((own p pks).map (·.bytes)) = .ok (f', evss) ∧
      esAll c.cfg.touch τ (own p pks) evss = .ok outs ∧
      proj τ c' = proj τ c ++ outs.flatten ∧
      t'.get p = some (.pes τ f') ∧ TagInv (t', c') := by
  unfold push at hrun
  rw [hf] at hrun
  have hrun : pushModel App.sem (t, c) pks = .ok (t', c') := hrun
  rw [C06.push_refines_spec] at hrun
  exact pes_trace_is_filter_run_kept p τ pks t c f t' c' hi hg
    (fun pk hm _ _ => (Ts.Lemmas.C19.frame_pk_props buf base pks hf pk hm).2.2.2.2.1) hK hrun

/-- … `Demultiplex::push` on raw bytes with INPUT-LEVEL hypotheses: the packets framed out of `buf`
on PIDs other than `p` are `Benign` for the table and script at the start of the call -/
theorem pes_trace_is_filter_run_push_benign (ver : Nat → Nat) (p τ : Nat) (buf : Bytes) (base : Nat)
    (pks : List Pk) (t : Tab Handler) (c : Ctx) (f : PesFilter.F) (t' : Tab Handler) (c' : Ctx)
    (hi : TagInv (t, c)) (hg : t.get p = some (.pes τ f))
    (hf : frame buf base = .ok pks)
    (hB : ∀ pk ∈ pks, pk.pid ≠ p → Benign ver c.cfg.script t pk)
    (hrun : push App.sem (t, c) buf base = .ok (t', c')) :
    ∃ f' evss outs,
      PesFilter.run f ((own p pks).map (·.bytes)) = .ok (f', evss) ∧
      esAll c.cfg.touch τ (own p pks) evss = .ok outs ∧
      proj τ c' = proj τ c ++ outs.flatten ∧
      t'.get p = some (.pes τ f') ∧ TagInv (t', c') :=
  pes_trace_is_filter_run_push p τ buf base pks t c f t' c' hi hg hf
    (keeps_of_benign_traffic ver p τ pks t c f hg hB) hrun

/-- INDEPENDENCE OF THE INTERLEAVING: two runs (different tables, contexts, traffic on other PIDs)
in which consumer `τ` sits on PID `p` in the same filter state and sees the same own packets
(bytes and stream offsets) observe the SAME new events and end in the same handler state. -/
theorem projection_independent_of_interleaving (p τ : Nat) (xs ys : List Pk)
    (t1 t2 : Tab Handler) (c1 c2 : Ctx) (f : PesFilter.F) (t1' t2' : Tab Handler) (c1' c2' : Ctx)
    (hi1 : TagInv (t1, c1)) (hi2 : TagInv (t2, c2))
    (hg1 : t1.get p = some (.pes τ f)) (hg2 : t2.get p = some (.pes τ f))
    (htouch : c1.cfg.touch = c2.cfg.touch) (hown : own p xs = own p ys)
    (hx188 : ∀ pk ∈ xs, pk.pid = p → pk.flagged = false → pk.bytes.length = 188)
    (hK1 : Keeps p τ (t1, c1) xs = true) (hK2 : Keeps p τ (t2, c2) ys = true)
    (hr1 : pushSpec App.sem (t1, c1) xs = .ok (t1', c1'))
    (hr2 : pushSpec App.sem (t2, c2) ys = .ok (t2', c2')) :
    ∃ d, proj τ c1' = proj τ c1 ++ d ∧ proj τ c2' = proj τ c2 ++ d ∧ t1'.get p = t2'.get p := by
  have hy188 : ∀ pk ∈ ys, pk.pid = p → pk.flagged = false → pk.bytes.length = 188 := by
    intro pk hm hp hf
    have : pk ∈ own p ys := by simp [own, hm, hp, hf]
    rw [← hown] at this
    simp only [own, List.mem_filter] at this
    exact hx188 pk this.1 hp hf
  obtain ⟨o1, n1, a1, a2, _, _, a5, a6⟩ := pushSpec_view p τ xs t1 c1 f t1' c1' hi1 hg1 hx188 hK1 hr1
  obtain ⟨o2, n2, b1, b2, _, _, b5, b6⟩ := pushSpec_view p τ ys t2 c2 f t2' c2' hi2 hg2 hy188 hK2 hr2
  rw [hown, htouch] at a1
  rw [a1] at b1
  have : o1 = o2 := R.ok_inj b1
  subst this
  refine ⟨o1.flatten, ?_, ?_, ?_⟩
  · rw [proj_of_trace τ c1 c1' n1 a5, a6]
  · rw [proj_of_trace τ c2 c2' n2 b5, b6]
  · rw [a2, b2, hown]

/-- vocabulary of `projection_independent_modulo_offsets`: `shiftEv d` adds `d` to the stream offsets
an event carries (the exposed-payload range of `esBegin`, the range of `esCont`, the offset of a
recorder's `pkt`) and leaves everything else alone; `placeAt pks rel` moves the `k`-th event list to
the `k`-th packet's offset; `esAllRel` is `esAll` with every packet taken at offset 0 -/
theorem shiftEv_vocabulary (d tag off len : Nat) (bi : BeginInfo) (pks : List Pk) (rel : List (List Ev)) :
    shiftEv d (.esCont tag off len) = .esCont tag (d + off) len
    ∧ shiftEv d (.esBegin tag bi) = .esBegin tag { bi with pl := bi.pl.map (fun r => (d + r.1, r.2)) }
    ∧ shiftEv d (.pkt tag off) = .pkt tag (d + off)
    ∧ shiftEv d (.esStart tag) = .esStart tag ∧ shiftEv d (.esEnd tag) = .esEnd tag
    ∧ shiftEv d (.esCcErr tag) = .esCcErr tag
    ∧ placeAt pks rel = List.zipWith (fun pk l => l.map (shiftEv pk.off)) pks rel :=
  ⟨rfl, rfl, rfl, rfl, rfl, rfl, rfl⟩

theorem esAllRel_spec (touch : Bool) (tag : Nat) (b : Bytes) (bs : List Bytes) (evs : List PesFilter.Ev)
    (evss : List (List PesFilter.Ev)) :
    esAllRel touch tag [] [] = .ok [] ∧
    esAllRel touch tag (b :: bs) (evs :: evss) =
      (esEvList touch tag b 0 evs >>= fun a =>
        esAllRel touch tag bs evss >>= fun rest => R.ok (a :: rest)) :=
  ⟨rfl, rfl⟩

/-- what a consumer observes is the packet-relative events of its own packets, each packet's moved
to that packet's stream offset -/
theorem esAll_is_placed_rel (touch : Bool) (tag : Nat) (pks : List Pk) (evss : List (List PesFilter.Ev)) :
    esAll touch tag pks evss =
      (esAllRel touch tag (pks.map (·.bytes)) evss >>= fun rel => R.ok (placeAt pks rel)) :=
  esAll_eq_rel touch tag pks evss

/-- INDEPENDENCE OF THE INTERLEAVING, MODULO OFFSETS.  Two runs (different tables, contexts, traffic
on other PIDs — so the own packets sit at DIFFERENT stream offsets) in which consumer `τ` sits on
PID `p` in the same filter state and its own unflagged packets carry the same BYTES in the same
order (`hown`; nothing is assumed about their offsets).  Then there is ONE list `rel` of
packet-relative event lists (`esAllRel`: a function of those bytes only, one list per own packet)
such that in each run the consumer observes exactly `rel` with the `k`-th list moved to the stream
offset of the `k`-th own packet of THAT run (`placeAt`, `shiftEv`); both runs leave the handler in
the same state `f'`; with offsets and other arguments erased (`esTrace`) the two runs append the
SAME callback sequence `d`.  Hypotheses as in `projection_independent_of_interleaving` otherwise
(`TagInv`, `Keeps` in both runs, same `touch` setting, 188-byte own packets). -/
theorem projection_independent_modulo_offsets (p τ : Nat) (xs ys : List Pk)
    (t1 t2 : Tab Handler) (c1 c2 : Ctx) (f : PesFilter.F) (t1' t2' : Tab Handler) (c1' c2' : Ctx)
    (hi1 : TagInv (t1, c1)) (hi2 : TagInv (t2, c2))
    (hg1 : t1.get p = some (.pes τ f)) (hg2 : t2.get p = some (.pes τ f))
    (htouch : c1.cfg.touch = c2.cfg.touch)
    (hown : (own p xs).map (·.bytes) = (own p ys).map (·.bytes))
    (hx188 : ∀ pk ∈ xs, pk.pid = p → pk.flagged = false → pk.bytes.length = 188)
    (hK1 : Keeps p τ (t1, c1) xs = true) (hK2 : Keeps p τ (t2, c2) ys = true)
    (hr1 : pushSpec App.sem (t1, c1) xs = .ok (t1', c1'))
    (hr2 : pushSpec App.sem (t2, c2) ys = .ok (t2', c2')) :
    ∃ f' evss rel,
      PesFilter.run f ((own p xs).map (·.bytes)) = .ok (f', evss) ∧
      esAllRel c1.cfg.touch τ ((own p xs).map (·.bytes)) evss = .ok rel ∧
      proj τ c1' = proj τ c1 ++ (placeAt (own p xs) rel).flatten ∧
      proj τ c2' = proj τ c2 ++ (placeAt (own p ys) rel).flatten ∧
      t1'.get p = some (.pes τ f') ∧ t2'.get p = some (.pes τ f') ∧
      ∃ d, esTrace τ c1' = esTrace τ c1 ++ d ∧ esTrace τ c2' = esTrace τ c2 ++ d := by
  have hbx : ∀ b ∈ (own p xs).map (·.bytes), b.length = 188 := by
    intro b hb
    simp only [List.mem_map, own, List.mem_filter] at hb
    obtain ⟨pk, ⟨hm, hp⟩, rfl⟩ := hb
    simp only [Bool.and_eq_true, beq_iff_eq, Bool.not_eq_true'] at hp
    exact hx188 pk hm hp.1 hp.2
  have hy188 : ∀ pk ∈ ys, pk.pid = p → pk.flagged = false → pk.bytes.length = 188 := by
    intro pk hm hp hf
    apply hbx
    rw [hown]
    exact List.mem_map.2 ⟨pk, by simp [own, hm, hp, hf], rfl⟩
  obtain ⟨o1, n1, a1, a2, _, _, a5, a6⟩ := pushSpec_view p τ xs t1 c1 f t1' c1' hi1 hg1 hx188 hK1 hr1
  obtain ⟨o2, n2, b1, b2, _, _, b5, b6⟩ := pushSpec_view p τ ys t2 c2 f t2' c2' hi2 hg2 hy188 hK2 hr2
  rw [← hown, ← htouch] at b1
  rw [← hown] at b2
  have s1 := esAll_shape _ _ _ _ _ a1
  have s2 := esAll_shape _ _ _ _ _ (by rw [← hown]; exact b1)
  rw [← hown] at s2
  rw [esAll_eq_rel] at a1 b1
  rw [← hown] at b1
  obtain ⟨rel, hrel, a1⟩ := R.bind_eq_ok a1
  rw [hrel] at b1
  have e1 : placeAt (own p xs) rel = o1 := R.ok_inj a1
  have e2 : placeAt (own p ys) rel = o2 := R.ok_inj b1
  have p1 : proj τ c1' = proj τ c1 ++ o1.flatten := by rw [proj_of_trace τ c1 c1' n1 a5, a6]
  have p2 : proj τ c2' = proj τ c2 ++ o2.flatten := by rw [proj_of_trace τ c2 c2' n2 b5, b6]
  have q1 : esTrace τ c1' = esTrace τ c1 ++ o1.flatten.filterMap esShape := by
    unfold esTrace; rw [p1, List.filterMap_append]
  have q2 : esTrace τ c2' = esTrace τ c2 ++ o2.flatten.filterMap esShape := by
    unfold esTrace; rw [p2, List.filterMap_append]
  rw [s1] at q1
  rw [s2] at q2
  exact ⟨_, _, rel, Ts.Lemmas.C08.run_eq f _ hbx, hrel, by rw [e1]; exact p1, by rw [e2]; exact p2,
    a2, b2, _, q1, q2⟩

/-! ## 3. corollaries -/

/-- **(a)** every event attributed to `τ` that the run appends was emitted while consuming an
unflagged packet `pk` of PID `p`, and has the shape C19 allows for that packet (`EvInPacket`: an
elementary-stream event of tag `τ` whose exposed slice lies in `[pk.off + 4, pk.off + 188]`) -/
theorem es_consumer_sees_only_its_pid (p τ : Nat) (pks : List Pk) (t : Tab Handler) (c : Ctx)
    (f : PesFilter.F) (t' : Tab Handler) (c' : Ctx)
    (hi : TagInv (t, c)) (hg : t.get p = some (.pes τ f))
    (h188 : ∀ pk ∈ pks, pk.pid = p → pk.flagged = false → pk.bytes.length = 188)
    (hK : Keeps p τ (t, c) pks = true)
    (hrun : pushSpec App.sem (t, c) pks = .ok (t', c')) :
    ∃ new, c'.trace = new ++ c.trace ∧
      ∀ e ∈ new, tagOf e = some τ →
        ∃ pk ∈ pks, pk.pid = p ∧ pk.flagged = false ∧ EvInPacket τ pk.off e := by
  obtain ⟨outs, new, a1, _, _, _, a5, a6⟩ := pushSpec_view p τ pks t c f t' c' hi hg h188 hK hrun
  refine ⟨new, a5, ?_⟩
  intro e he hτ
  have hmem : e ∈ outs.flatten := by
    rw [← a6, List.mem_filter]
    exact ⟨List.mem_reverse.2 he, by simpa using hτ⟩
  have hown : ∀ pk ∈ own p pks, pk ∈ pks ∧ pk.pid = p ∧ pk.flagged = false := by
    intro pk hpk
    simp only [own, List.mem_filter, Bool.and_eq_true, beq_iff_eq, Bool.not_eq_true'] at hpk
    exact ⟨hpk.1, hpk.2.1, hpk.2.2⟩
  obtain ⟨pk, hpk, hin⟩ := esAll_inPacket c.cfg.touch τ (own p pks) f outs
    (fun pk hpk => by obtain ⟨x, y, z⟩ := hown pk hpk; exact h188 pk x y z) a1 e hmem
  obtain ⟨x, y, z⟩ := hown pk hpk
  exact ⟨pk, x, y, z, hin⟩

/-- the same with the hypotheses of `C02.not_attributed_to_other_pid` (`hQ : QuietAlong`, on the
actual run) -/
theorem es_consumer_sees_only_its_pid' (p τ : Nat) (pks : List Pk) (t : Tab Handler) (c : Ctx)
    (f : PesFilter.F) (t' : Tab Handler) (c' : Ctx)
    (hi : TagInv (t, c)) (hg : t.get p = some (.pes τ f))
    (h188 : ∀ pk ∈ pks, pk.pid = p → pk.bytes.length = 188)
    (hQ : QuietAlong App.sem p (t, c) pks)
    (hrun : pushSpec App.sem (t, c) pks = .ok (t', c')) :
    ∃ new, c'.trace = new ++ c.trace ∧
      ∀ e ∈ new, tagOf e = some τ →
        ∃ pk ∈ pks, pk.pid = p ∧ pk.flagged = false ∧ EvInPacket τ pk.off e :=
  es_consumer_sees_only_its_pid p τ pks t c f t' c' hi hg (fun pk hm hp _ => h188 pk hm hp)
    (keeps_of_not_attributed p τ pks t c f hg hQ) hrun

/-- **(b)** CONSERVATION through the dispatcher.  If the unflagged PID-`p` packets of the
interleaving are the packets of a well-formed `PesStream` (C02's independent encoder), then what
consumer `τ` observes is the `esAll` image of C02's expected callbacks `streamEvs` (the images of
the two kinds of packet are given by `es_image_first` / `es_image_cont`), the filter ends in
`streamFinal`, and the bytes handed over per PES packet are exactly `encodePes`. -/
theorem es_consumer_conservation (p τ : Nat) (pks : List Pk) (t : Tab Handler) (c : Ctx)
    (f : PesFilter.F) (t' : Tab Handler) (c' : Ctx) (s : List (PesPkt × Plan))
    (hi : TagInv (t, c)) (hg : t.get p = some (.pes τ f))
    (hsub : (own p pks).map (·.bytes) = streamPackets s) (hs : PesStream f.cc s)
    (hK : Keeps p τ (t, c) pks = true)
    (hrun : pushSpec App.sem (t, c) pks = .ok (t', c')) :
    ∃ outs,
      esAll c.cfg.touch τ (own p pks) (streamEvs f.st (s.map (·.2))) = .ok outs ∧
      proj τ c' = proj τ c ++ outs.flatten ∧
      t'.get p = some (.pes τ (streamFinal f s)) ∧
      (∀ x ∈ s, ∀ st, delivered x.2.packets (planEvs st x.2) = encodePes x.1) ∧
      delivered (streamPackets s) (streamEvs f.st (s.map (·.2)))
        = (s.map (fun x => encodePes x.1)).flatten := by
  obtain ⟨r1, r2, r3⟩ := C02.pes_stream_conservation s f hs
  obtain ⟨q1, q2, _⟩ := Ts.Lemmas.C02.stream_runPure s f hs
  have h188 : ∀ pk ∈ pks, pk.pid = p → pk.flagged = false → pk.bytes.length = 188 := by
    intro pk hm hp hf
    apply q2
    rw [← hsub]
    exact List.mem_map.2 ⟨pk, by simp [own, hm, hp, hf], rfl⟩
  obtain ⟨outs, new, a1, a2, _, _, a5, a6⟩ := pushSpec_view p τ pks t c f t' c' hi hg h188 hK hrun
  rw [hsub, q1] at a1 a2
  exact ⟨outs, a1, by rw [proj_of_trace τ c c' new a5, a6], a2, r2, r3⟩

/-- image of a continuation packet's callbacks: one `esCont` with the GLOBAL range -/
theorem es_image_cont (touch : Bool) (p : Bytes) (base tag : Nat) :
    esEvList touch tag p base (contEvs p) =
      .ok (match tpPayload p with
           | some (o, l) => [.esCont tag (base + o) l]
           | none => []) :=
  esEvList_cont touch p base tag

/-- image of the callbacks of the first packet of a well-formed plan: the opening event
(`esStart` / `esEnd` / nothing), then `esBegin` reporting what was multiplexed
(`C02.begin_reports_header`) -/
theorem es_image_first (touch : Bool) (pes : PesPkt) (hw : pes.WF) (pl : Plan)
    (hpl : WellFormedPlan pes pl) (base tag : Nat) (st : PesFilter.St) :
    ∃ o l, tpPayload pl.first = some (o, l) ∧
      esEvList touch tag pl.first base (firstEvs st pl.first) =
        .ok (esOpen tag st ++ [.esBegin tag (expectedBegin pes base o l)]) := by
  obtain ⟨o, l, hr, _, _, _, hbytes, hk, hle⟩ := Ts.Lemmas.C02.first_facts pes pl hpl
  refine ⟨o, l, hr, ?_⟩
  have : firstEvs st pl.first = openEvs st ++ [PesFilter.Ev.beginPkt o l] := by unfold firstEvs; rw [hr]
  rw [this]
  exact esEvList_first touch pes hw pl.first base o l tag st hk hle hbytes

/-! ### (c) nesting, for every consumer instance, over hostile input -/

/-- the protocol acceptor looks at the constructor of a callback only, so erasing the arguments
(`esShape`) loses nothing -/
theorem acceptor_ignores_arguments (s : PState) (o l o' l' : Nat) :
    protoStep s (.beginPkt o l) = protoStep s (.beginPkt o' l') ∧
    protoStep s (.cont o l) = protoStep s (.cont o' l') := by
  cases s <;> exact ⟨rfl, rfl⟩

theorem esShape_vocabulary (tag off len : Nat) (bi : BeginInfo) :
    esShape (.esStart tag) = some .start ∧ esShape (.esBegin tag bi) = some (.beginPkt 0 0)
    ∧ esShape (.esCont tag off len) = some (.cont 0 0) ∧ esShape (.esEnd tag) = some .endPkt
    ∧ esShape (.esCcErr tag) = some .ccErr ∧ esShape (.pkt tag off) = none :=
  ⟨rfl, rfl, rfl, rfl, rfl, rfl⟩

/-- `esTrace τ c`: the elementary-stream callbacks attributed to `τ`, oldest first, arguments erased -/
theorem esTrace_eq (τ : Nat) (c : Ctx) : esTrace τ c = (proj τ c).filterMap esShape := rfl

theorem nestInv_iff (t : Tab Handler) (c : Ctx) :
    NestInv (t, c) ↔ ∀ τ, ∃ s, accepts .notStarted (esTrace τ c) = some s ∧
      ∀ p f, t.get p = some (.pes τ f) → s = Ts.Lemmas.C08.abs f.st := Iff.rfl

/-- one dispatcher step on a 188-byte packet (ANY content, any PID, any handler) preserves the
nesting invariant -/
theorem nestInv_step (t : Tab Handler) (c : Ctx) (pk : Pk) (t' : Tab Handler) (c' : Ctx)
    (hi : TagInv (t, c)) (hn : NestInv (t, c)) (hlen : pk.bytes.length = 188)
    (h : specStep App.sem (t, c) pk = .ok (t', c')) : NestInv (t', c') :=
  specStep_nest t c pk t' c' hi hn hlen h

theorem nestInv_pushSpec (pks : List Pk) (tc tc' : Tab Handler × Ctx) (hi : TagInv tc)
    (hn : NestInv tc) (hlen : ∀ pk ∈ pks, pk.bytes.length = 188)
    (h : pushSpec App.sem tc pks = .ok tc') : NestInv tc' :=
  pushSpec_nest pks tc tc' hi hn hlen h

theorem nestInv_push (tc : Tab Handler × Ctx) (buf : Bytes) (base : Nat) (tc' : Tab Handler × Ctx)
    (hi : TagInv tc) (hn : NestInv tc) (h : push App.sem tc buf base = .ok tc') : NestInv tc' :=
  push_nest tc buf base tc' hi hn h

/-- **(c)** For EVERY tag `τ`, after ANY sequence of pushed byte strings (hostile input too): the
elementary-stream callbacks attributed to `τ` — all of them, from the construction of the handler
(before which nothing is attributed to `τ`: `unissued_tag_silent`; the handler is constructed as
`.pes τ {}`, i.e. in `begin`: `construct_allocates`) until it is replaced (after which nothing more
is attributed to `τ`: `tag_never_reissued`) — are accepted by the protocol acceptor of C08 from
`notStarted`; while the handler is installed the acceptor state is the abstraction of its filter
state (`C08.abs`). -/
theorem es_consumer_well_nested (cfg : Cfg) (pushes : List Bytes) (t : Tab Handler) (c : Ctx)
    (h : runApp cfg pushes = .ok (t, c)) (τ : Nat) :
    ∃ s, accepts .notStarted (esTrace τ c) = some s ∧
      ∀ p f, t.get p = some (.pes τ f) → s = Ts.Lemmas.C08.abs f.st :=
  (pushAll_nest pushes (App.init cfg) 0 (t, c) (init_tagInv cfg) (init_nest cfg) h).2 τ

/-- `start_stream` is delivered at most once per consumer instance -/
theorem stream_start_at_most_once (cfg : Cfg) (pushes : List Bytes) (t : Tab Handler) (c : Ctx)
    (h : runApp cfg pushes = .ok (t, c)) (τ : Nat) :
    c.trace.countP (isStartOf τ) ≤ 1 := by
  obtain ⟨s, hs, _⟩ := es_consumer_well_nested cfg pushes t c h τ
  rw [← count_start]
  exact Ts.Spec.Protocol.start_at_most_once hs

theorem isStartOf_iff (τ : Nat) (e : Ev) : isStartOf τ e = true ↔ e = .esStart τ := by
  cases e <;> simp [isStartOf]

/-- every `begin_packet` a consumer instance receives is preceded by ITS `start_stream` -/
theorem begin_only_after_start (cfg : Cfg) (pushes : List Bytes) (t : Tab Handler) (c : Ctx)
    (h : runApp cfg pushes = .ok (t, c)) (τ : Nat) (bi : BeginInfo) (pre post : List Ev)
    (hsplit : c.trace.reverse = pre ++ .esBegin τ bi :: post) : .esStart τ ∈ pre := by
  obtain ⟨s, hs, _⟩ := es_consumer_well_nested cfg pushes t c h τ
  have he : esTrace τ c =
      (pre.filter (fun e => decide (tagOf e = some τ))).filterMap esShape
        ++ .beginPkt 0 0 :: (post.filter (fun e => decide (tagOf e = some τ))).filterMap esShape := by
    unfold esTrace proj
    rw [hsplit, List.filter_append, List.filterMap_append]
    simp [tagOf, esShape]
  rw [he] at hs
  have := Ts.Spec.Protocol.start_before_begin hs
  rw [List.mem_filterMap] at this
  obtain ⟨e, hm, hsh⟩ := this
  rw [List.mem_filter] at hm
  have htag : tagOf e = some τ := by simpa using hm.2
  cases e <;> simp [esShape] at hsh
  simp only [tagOf, Option.some.injEq] at htag
  subst htag
  exact hm.1

/-- continuation data and `end_packet` only while a packet opened by `begin_packet` is open; each
packet closed at most once (the clauses of C08, through the acceptor, per consumer instance) -/
theorem data_and_end_only_while_open (cfg : Cfg) (pushes : List Bytes) (t : Tab Handler) (c : Ctx)
    (h : runApp cfg pushes = .ok (t, c)) (τ : Nat) (pre post : List PesFilter.Ev) (e : PesFilter.Ev)
    (hs : esTrace τ c = pre ++ e :: post) (he : (∃ o l, e = .cont o l) ∨ e = .endPkt) :
    ∃ pre' o l mid, pre = pre' ++ .beginPkt o l :: mid ∧ ∀ x ∈ mid, isCont x := by
  obtain ⟨s, hacc, _⟩ := es_consumer_well_nested cfg pushes t c h τ
  rw [hs] at hacc
  exact cont_end_preceded_by_begin hacc (by simp) he

theorem closed_at_most_once (cfg : Cfg) (pushes : List Bytes) (t : Tab Handler) (c : Ctx)
    (h : runApp cfg pushes = .ok (t, c)) (τ : Nat) (pre mid post : List PesFilter.Ev)
    (cl e : PesFilter.Ev) (hs : esTrace τ c = pre ++ cl :: (mid ++ e :: post))
    (hc : cl = .endPkt ∨ cl = .ccErr) (he : (∃ o l, e = .cont o l) ∨ e = .endPkt) :
    ∃ o l, PesFilter.Ev.beginPkt o l ∈ mid := by
  obtain ⟨s, hacc, _⟩ := es_consumer_well_nested cfg pushes t c h τ
  rw [hs] at hacc
  exact Ts.Spec.Protocol.closed_at_most_once hacc hc he

/-! ## 4. non-vacuity -/

/-- helper for the examples: a successful Boolean check on a run yields the run's result -/
theorem ok_of_check {α : Type} (r : R α) (b : α → Bool)
    (h : (match r with | .ok a => b a | .panic _ => false) = true) : ∃ a, r = .ok a ∧ b a = true := by
  cases r with
  | ok a => exact ⟨a, rfl, h⟩
  | panic s => cases h

example : exPat.length = 188 ∧ exPmt2.length = 188 ∧ exEs.length = 5 * 188 := by decide +kernel

/-- the packets `push` frames out of the elementary-stream part (376 bytes pushed before) -/
example : (match frame exEs 376 with | .ok pks => decide (pks = exPks) | .panic _ => false) = true := by
  decide +kernel

/-- END TO END, by evaluation.  PAT, PMT (video on PID 0x21, audio on PID 0x22), then the two
elementary streams interleaved `A B B A A`.  Tags: 0 = PAT request, 1 = PMT request, 2 = PES filter
of PID 0x21, 3 = PES filter of PID 0x22.  The two projections: -/
example : (match runApp { bypassCrc := true } [exBuf] with
    | .ok (t, c) => decide (tagsIn t = [2, 3] ∧ c.nextTag = 4
        ∧ proj 2 c = [.esStart 2, .esBegin 2 (exBi 389), .esCont 2 944 184, .esEnd 2, .esBegin 2 (exBi 1141)]
        ∧ proj 3 c = [.esStart 3, .esBegin 3 (exBi 577), .esCont 3 840 100]
        ∧ proj 0 c = [] ∧ proj 4 c = []
        ∧ esTrace 2 c = [.start, .beginPkt 0 0, .cont 0 0, .endPkt, .beginPkt 0 0]
        ∧ accepts .notStarted (esTrace 2 c) = some .open_
        ∧ accepts .notStarted (esTrace 3 c) = some .open_)
    | .panic _ => false) = true := by decide +kernel

/-- the state after PAT and PMT (`exState = runApp … [exPat ++ exPmt2]`), evaluated once: PAT handler,
PMT handler, PES filters tagged 2 and 3 on PIDs 0x21 and 0x22 -/
theorem exState_eq : exState = .ok (exTab0, exCtx0) := by
  obtain ⟨a, h1, h2⟩ := ok_of_check exState (fun tc => decide (tc = (exTab0, exCtx0)))
    (by decide +kernel)
  rw [h1, of_decide_eq_true h2]

/-- … it satisfies the invariants, as instances of the theorems -/
theorem exState_inv : TagInv (exTab0, exCtx0) ∧ NestInv (exTab0, exCtx0) :=
  ⟨tagInv_runApp _ _ _ _ exState_eq,
   (pushAll_nest _ (App.init _) 0 _ (init_tagInv _) (init_nest _) exState_eq).2⟩

example : tagsIn exTab0 = [2, 3] ∧ exTab0.get 0x21 = some (.pes 2 {}) ∧ exTab0.get 0x22 = some (.pes 3 {}) := by
  decide +kernel

/-- the hypotheses of `pes_trace_is_filter_run_kept` are satisfiable: from the state after PAT and
PMT, PID 0x21 holds the PES filter tagged 2 and over the interleaving `exPks` it is kept; the
theorem then gives its view.  Likewise PID 0x22 / tag 3. -/
example : ∃ t' c', pushSpec App.sem (exTab0, exCtx0) exPks = .ok (t', c') ∧
    (∃ f' evss outs, PesFilter.run {} ((own 0x21 exPks).map (·.bytes)) = .ok (f', evss) ∧
      esAll false 2 (own 0x21 exPks) evss = .ok outs ∧ proj 2 c' = proj 2 exCtx0 ++ outs.flatten ∧
      t'.get 0x21 = some (.pes 2 f')) ∧
    (∃ f' evss outs, PesFilter.run {} ((own 0x22 exPks).map (·.bytes)) = .ok (f', evss) ∧
      esAll false 3 (own 0x22 exPks) evss = .ok outs ∧ proj 3 c' = proj 3 exCtx0 ++ outs.flatten ∧
      t'.get 0x22 = some (.pes 3 f')) := by
  have hK : (Keeps 0x21 2 (exTab0, exCtx0) exPks && Keeps 0x22 3 (exTab0, exCtx0) exPks
      && (pushSpec App.sem (exTab0, exCtx0) exPks).isOk
      && exPks.all (fun pk => pk.bytes.length == 188)) = true := by decide +kernel
  simp only [Bool.and_eq_true, List.all_eq_true, beq_iff_eq] at hK
  obtain ⟨⟨⟨k1, k2⟩, hok⟩, hlen⟩ := hK
  cases hrun : pushSpec App.sem (exTab0, exCtx0) exPks with
  | panic s => rw [hrun] at hok; cases hok
  | ok r =>
    obtain ⟨t', c'⟩ := r
    obtain ⟨f1, e1, o1, a1, a2, a3, a4, _⟩ := pes_trace_is_filter_run_kept 0x21 2 exPks exTab0 exCtx0 {} t' c'
      exState_inv.1 (by decide +kernel) (fun pk hm _ _ => hlen pk hm) k1 hrun
    obtain ⟨f2, e2, o2, b1, b2, b3, b4, _⟩ := pes_trace_is_filter_run_kept 0x22 3 exPks exTab0 exCtx0 {} t' c'
      exState_inv.1 (by decide +kernel) (fun pk hm _ _ => hlen pk hm) k2 hrun
    exact ⟨t', c', rfl, ⟨f1, e1, o1, a1, a2, a3, a4⟩, ⟨f2, e2, o2, b1, b2, b3, b4⟩⟩

open Ts.Lemmas.C02 (exPksRep exPksRep_benign exPat_rep exPmt2_rep) in
/-- NON-VACUITY of the INPUT-LEVEL theorem `pes_trace_is_filter_run_benign`: from the state after PAT
and PMT, over the interleaving `exPksRep` = `A PAT B PMT B null A A` (two elementary-stream PIDs 0x21
and 0x22, a REPEATED PAT packet, a REPEATED PMT packet, a null packet on the unregistered PID
0x1fff) every packet is benign (`exPksRep_benign`: PES handlers on 0x21 / 0x22, PAT and PMT handlers
quiescent at version 0 with `RepPacket 0 exPat`, `RepPacket 0 exPmt2`, empty script), and the
theorem gives — this is the conclusion of `pes_trace_is_filter_run` — the view of consumer 2
(PID 0x21) and of consumer 3 (PID 0x22).  Only the success of the run is evaluated. -/
example : ∃ t' c', pushSpec App.sem (exTab0, exCtx0) exPksRep = .ok (t', c') ∧
    (∃ f' evss outs, PesFilter.run {} ((own 0x21 exPksRep).map (·.bytes)) = .ok (f', evss) ∧
      esAll false 2 (own 0x21 exPksRep) evss = .ok outs ∧ proj 2 c' = proj 2 exCtx0 ++ outs.flatten ∧
      t'.get 0x21 = some (.pes 2 f') ∧ TagInv (t', c')) ∧
    (∃ f' evss outs, PesFilter.run {} ((own 0x22 exPksRep).map (·.bytes)) = .ok (f', evss) ∧
      esAll false 3 (own 0x22 exPksRep) evss = .ok outs ∧ proj 3 c' = proj 3 exCtx0 ++ outs.flatten ∧
      t'.get 0x22 = some (.pes 3 f') ∧ TagInv (t', c')) := by
  have hok : ((pushSpec App.sem (exTab0, exCtx0) exPksRep).isOk
      && exPksRep.all (fun pk => pk.bytes.length == 188)) = true := by decide +kernel
  simp only [Bool.and_eq_true, List.all_eq_true, beq_iff_eq] at hok
  obtain ⟨hok, hlen⟩ := hok
  cases hrun : pushSpec App.sem (exTab0, exCtx0) exPksRep with
  | panic s => rw [hrun] at hok; cases hok
  | ok r =>
    obtain ⟨t', c'⟩ := r
    exact ⟨t', c', rfl,
      pes_trace_is_filter_run_benign (fun _ => 0) 0x21 2 exPksRep exTab0 exCtx0 {} t' c'
        exState_inv.1 (by decide +kernel) (fun pk hm _ _ => hlen pk hm)
        (fun pk hm _ => exPksRep_benign pk hm) hrun,
      pes_trace_is_filter_run_benign (fun _ => 0) 0x22 3 exPksRep exTab0 exCtx0 {} t' c'
        exState_inv.1 (by decide +kernel) (fun pk hm _ _ => hlen pk hm)
        (fun pk hm _ => exPksRep_benign pk hm) hrun⟩

open Ts.Lemmas.C02 (exPksRep exPat_rep exPmt2_rep) in
/-- … and of `keeps_of_es_and_repeated_tables` (hypotheses written out, no recorder clause) on the same
interleaving without the null packet: `A PAT B PMT B A A`.  Nothing is evaluated except table lookups. -/
example : Keeps 0x21 2 (exTab0, exCtx0) (exPksRep.filter (fun pk => pk.pid != 0x1fff)) = true := by
  refine keeps_of_es_and_repeated_tables (fun _ => 0) 0x21 2 _ exTab0 exCtx0 {} (by decide +kernel) ?_
  have g22 : exTab0.get 0x22 = some (.pes 3 {}) := by decide +kernel
  have g0 : exTab0.get 0 = some (.pat { lastVersion := some 0 } [0x20]) := by decide +kernel
  have g20 : exTab0.get 0x20 = some (.pmt 0x20 1 { lastVersion := some 0 } [0x21, 0x22]) := by
    decide +kernel
  intro pk hm hne
  have hm' : pk ∈ [(⟨exA0, 376, 0x21, false, false⟩ : Pk), ⟨exPat, 564, 0, false, false⟩,
      ⟨exB0, 752, 0x22, false, false⟩, ⟨exPmt2, 940, 0x20, false, false⟩,
      ⟨exB1, 1128, 0x22, false, false⟩, ⟨exA1, 1504, 0x21, false, false⟩,
      ⟨exA2, 1692, 0x21, false, false⟩] := hm
  simp only [List.mem_cons, List.not_mem_nil, or_false] at hm'
  rcases hm' with rfl | rfl | rfl | rfl | rfl | rfl | rfl
  · exact absurd rfl hne
  · exact Or.inr ⟨rfl, exPat_rep, _, g0, ⟨rfl, rfl⟩⟩
  · exact Or.inl ⟨_, _, g22⟩
  · exact Or.inr ⟨rfl, exPmt2_rep, _, g20, ⟨rfl, rfl⟩⟩
  · exact Or.inl ⟨_, _, g22⟩
  · exact absurd rfl hne
  · exact absurd rfl hne

open Ts.Lemmas.C02 (exPksRep) in
/-- … concretely (evaluated): with the repeated tables and the null packet in between, consumers 2
and 3 observe what they observe over `exPks` (same events, the offsets of the later packets moved
by the inserted packets); the null packet is attributed to the recorder tagged 4 -/
example : (match pushSpec App.sem (exTab0, exCtx0) exPksRep with
    | .ok (_, c) => decide (
        proj 2 c = [.esStart 2, .esBegin 2 (exBi 389), .esCont 2 1508 184, .esEnd 2, .esBegin 2 (exBi 1705)]
        ∧ proj 3 c = [.esStart 3, .esBegin 3 (exBi 765), .esCont 3 1216 100]
        ∧ proj 4 c = [.pkt 4 1316] ∧ c.nextTag = 5)
    | .panic _ => false) = true := by decide +kernel

open Ts.Lemmas.C02 (exPksRep exPksRep_benign) in
/-- NON-VACUITY of `projection_independent_modulo_offsets` (and of `keeps_of_es_interleaving`): the runs
over `exPks` = `A B B A A` and over `exPksRep` = `A PAT B PMT B null A A` from the same state.  The own
packets of PID 0x21 carry the same bytes but sit at offsets 376, 940, 1128 resp. 376, 1504, 1692, so
`projection_independent_of_interleaving` does not apply; this theorem does. -/
example : ∃ c1' c2' rel d,
    (∃ t1', pushSpec App.sem (exTab0, exCtx0) exPks = .ok (t1', c1')) ∧
    (∃ t2', pushSpec App.sem (exTab0, exCtx0) exPksRep = .ok (t2', c2')) ∧
    proj 2 c1' = proj 2 exCtx0 ++ (placeAt (own 0x21 exPks) rel).flatten ∧
    proj 2 c2' = proj 2 exCtx0 ++ (placeAt (own 0x21 exPksRep) rel).flatten ∧
    esTrace 2 c1' = esTrace 2 exCtx0 ++ d ∧ esTrace 2 c2' = esTrace 2 exCtx0 ++ d := by
  have hok : ((pushSpec App.sem (exTab0, exCtx0) exPks).isOk
      && (pushSpec App.sem (exTab0, exCtx0) exPksRep).isOk
      && exPks.all (fun pk => pk.bytes.length == 188)
      && decide ((own 0x21 exPks).map (·.bytes) = (own 0x21 exPksRep).map (·.bytes))) = true := by
    decide +kernel
  simp only [Bool.and_eq_true, List.all_eq_true, beq_iff_eq, decide_eq_true_eq] at hok
  obtain ⟨⟨⟨ok1, ok2⟩, hlen⟩, hown⟩ := hok
  have hg : exTab0.get 0x21 = some (.pes 2 {}) := by decide +kernel
  have g22 : exTab0.get 0x22 = some (.pes 3 {}) := by decide +kernel
  have hK1 : Keeps 0x21 2 (exTab0, exCtx0) exPks = true := by
    refine keeps_of_es_interleaving 0x21 2 exPks exTab0 exCtx0 {} hg ?_
    intro pk hm hne
    simp only [exPks, List.mem_cons, List.not_mem_nil, or_false] at hm
    rcases hm with rfl | rfl | rfl | rfl | rfl
    · exact absurd rfl hne
    · exact ⟨_, _, g22⟩
    · exact ⟨_, _, g22⟩
    · exact absurd rfl hne
    · exact absurd rfl hne
  have hK2 : Keeps 0x21 2 (exTab0, exCtx0) exPksRep = true :=
    keeps_of_benign_traffic (fun _ => 0) 0x21 2 exPksRep exTab0 exCtx0 {} hg
      (fun pk hm _ => exPksRep_benign pk hm)
  cases hr1 : pushSpec App.sem (exTab0, exCtx0) exPks with
  | panic s => rw [hr1] at ok1; cases ok1
  | ok r1 =>
    cases hr2 : pushSpec App.sem (exTab0, exCtx0) exPksRep with
    | panic s => rw [hr2] at ok2; cases ok2
    | ok r2 =>
      obtain ⟨t1', c1'⟩ := r1
      obtain ⟨t2', c2'⟩ := r2
      obtain ⟨_, _, rel, _, _, a3, a4, _, _, d, a7, a8⟩ :=
        projection_independent_modulo_offsets 0x21 2 exPks exPksRep exTab0 exTab0 exCtx0 exCtx0 {}
          t1' t2' c1' c2' exState_inv.1 exState_inv.1 hg hg rfl hown (fun pk hm _ _ => hlen pk hm)
          hK1 hK2 hr1 hr2
      exact ⟨c1', c2', rel, d, ⟨t1', rfl⟩, ⟨t2', rfl⟩, a3, a4, a7, a8⟩

/-- the interleaving `exPksRep` as raw bytes -/
def exBufRep : Bytes :=
  exA0 ++ exPat ++ exB0 ++ exPmt2 ++ exB1 ++ Ts.Lemmas.C02.exNull ++ exA1 ++ exA2

open Ts.Lemmas.C02 (exPksRep exPksRep_benign) in
/-- NON-VACUITY of `pes_trace_is_filter_run_push_benign`: the same interleaving as raw bytes handed to
`Demultiplex::push` (376 bytes pushed before); `frame` yields exactly `exPksRep` -/
example : ∃ t' c' f' evss outs,
    push App.sem (exTab0, exCtx0) exBufRep 376 = .ok (t', c') ∧
    PesFilter.run {} ((own 0x21 exPksRep).map (·.bytes)) = .ok (f', evss) ∧
    esAll false 2 (own 0x21 exPksRep) evss = .ok outs ∧ proj 2 c' = proj 2 exCtx0 ++ outs.flatten ∧
    t'.get 0x21 = some (.pes 2 f') := by
  have ok1 : (push App.sem (exTab0, exCtx0) exBufRep 376).isOk = true := by decide +kernel
  obtain ⟨pks, hf, hb⟩ := ok_of_check (frame exBufRep 376) (fun pks => decide (pks = exPksRep))
    (by decide +kernel)
  have hpks : pks = exPksRep := of_decide_eq_true hb
  subst hpks
  cases hrun : push App.sem (exTab0, exCtx0) exBufRep 376 with
  | panic s => rw [hrun] at ok1; cases ok1
  | ok r =>
    obtain ⟨t', c'⟩ := r
    obtain ⟨f', evss, outs, a1, a2, a3, a4, _⟩ := pes_trace_is_filter_run_push_benign (fun _ => 0) 0x21 2
      exBufRep 376 _ exTab0 exCtx0 {} t' c' exState_inv.1 (by decide +kernel) hf
      (fun pk hm _ => exPksRep_benign pk hm) hrun
    exact ⟨t', c', f', evss, outs, rfl, a1, a2, a3, a4⟩

/-- the two PES packets the PID-0x21 packets `exA0 exA1 | exA2` carry, as inputs of C02's independent
encoder, with their plans -/
def exStreamA : List (PesPkt × Plan) :=
  [({ sid := 0xE0, len := 0, payload := List.replicate 175 0x11 ++ List.replicate 184 0x12 },
      { first := exA0, conts := [exA1] }),
   ({ sid := 0xE0, len := 0, payload := List.replicate 175 0x13 }, { first := exA2, conts := [] })]

open Ts.Lemmas.C02 (exPksRep exPksRep_benign) in
/-- NON-VACUITY of `es_consumer_conservation`: the unflagged PID-0x21 packets of `exPksRep` are the
packets of the well-formed `PesStream` `exStreamA`; `Keeps` comes from the input-level theorem.  So
through the dispatcher, interleaved with PID 0x22, a repeated PAT, a repeated PMT and a null packet,
consumer 2 observes the `esAll` image of the encoder's expected callbacks and its filter ends in
`streamFinal` = `started`, counter 2. -/
example : ∃ t' c' outs, pushSpec App.sem (exTab0, exCtx0) exPksRep = .ok (t', c') ∧
    esAll false 2 (own 0x21 exPksRep) (streamEvs .begin (exStreamA.map (·.2))) = .ok outs ∧
    proj 2 c' = proj 2 exCtx0 ++ outs.flatten ∧
    t'.get 0x21 = some (.pes 2 ⟨some 2, .started⟩) ∧
    delivered (streamPackets exStreamA) (streamEvs .begin (exStreamA.map (·.2)))
      = (exStreamA.map (fun x => encodePes x.1)).flatten := by
  have hok : ((pushSpec App.sem (exTab0, exCtx0) exPksRep).isOk
      && decide ((own 0x21 exPksRep).map (·.bytes) = streamPackets exStreamA)
      && decide (PesStream none exStreamA)
      && decide (streamFinal {} exStreamA = ⟨some 2, .started⟩)) = true := by decide +kernel
  simp only [Bool.and_eq_true, decide_eq_true_eq] at hok
  obtain ⟨⟨⟨ok1, hsub⟩, hs⟩, hfin⟩ := hok
  have hg : exTab0.get 0x21 = some (.pes 2 {}) := by decide +kernel
  cases hrun : pushSpec App.sem (exTab0, exCtx0) exPksRep with
  | panic s => rw [hrun] at ok1; cases ok1
  | ok r =>
    obtain ⟨t', c'⟩ := r
    obtain ⟨outs, a1, a2, a3, _, a5⟩ := es_consumer_conservation 0x21 2 exPksRep exTab0 exCtx0 {} t' c'
      exStreamA exState_inv.1 hg hsub hs
      (keeps_of_benign_traffic (fun _ => 0) 0x21 2 exPksRep exTab0 exCtx0 {} hg
        (fun pk hm _ => exPksRep_benign pk hm)) hrun
    rw [hfin] at a3
    exact ⟨t', c', outs, rfl, a1, a2, a3, a5⟩

/-- … and concretely (evaluated): the two views, and the callbacks `PesFilter.run` yields on each
PID's own packets alone -/
example : (match pushSpec App.sem (exTab0, exCtx0) exPks with
    | .ok (_, c) => decide (
        proj 2 c = [.esStart 2, .esBegin 2 (exBi 389), .esCont 2 944 184, .esEnd 2, .esBegin 2 (exBi 1141)]
        ∧ proj 3 c = [.esStart 3, .esBegin 3 (exBi 577), .esCont 3 840 100])
    | .panic _ => false) = true := by decide +kernel
open Ts.Lemmas.C08 in
example : PesFilter.run {} ((own 0x21 exPks).map (·.bytes)) =
      .ok (⟨some 2, .started⟩, [[.start, .beginPkt 4 184], [.cont 4 184], [.endPkt, .beginPkt 4 184]])
    ∧ PesFilter.run {} ((own 0x22 exPks).map (·.bytes)) =
      .ok (⟨some 8, .started⟩, [[.start, .beginPkt 4 184], [.cont 88 100]]) := by decide +kernel

/-- INTERLEAVING INDEPENDENCE, by evaluation: consumer 2 (PID 0x21) observes the same events whether
the PID-0x22 packets are interleaved (`exPks`) or absent altogether -/
example : (match pushSpec App.sem (exTab0, exCtx0) exPks,
      pushSpec App.sem (exTab0, exCtx0) (exPks.filter (fun pk => pk.pid == 0x21)) with
    | .ok (_, c1), .ok (_, c2) => decide (proj 2 c1 = proj 2 c2 ∧ proj 3 c2 = [] ∧ proj 3 c1 ≠ [])
    | _, _ => false) = true := by decide +kernel

/-- REPLACEMENT, by evaluation: a second PMT version re-announces both streams, so both PES filters
are replaced by fresh instances (tags 4 and 5); tags 2 and 3 leave the table; the next packet of
PID 0x21 is attributed to tag 4 — starting with ITS OWN `start_stream` — and nothing is added to
what consumer 2 observed.  `Keeps` fails for this run, as it must. -/
example : (match pushSpec App.sem (exTab0, exCtx0) exPks,
      pushSpec App.sem (exTab0, exCtx0) (exPks ++ [⟨exPmt2v1, 1316, 0x20, false, false⟩, ⟨exA3, 1504, 0x21, false, false⟩]) with
    | .ok (_, c), .ok (t', c') => decide (tagsIn t' = [4, 5] ∧ c'.nextTag = 6
        ∧ proj 2 c' = proj 2 c ∧ proj 3 c' = proj 3 c
        ∧ proj 4 c' = [.esStart 4, .esBegin 4 (exBi (1316 + 188 + 13))]
        ∧ proj 5 c' = []
        ∧ Keeps 0x21 2 (exTab0, exCtx0)
            (exPks ++ [⟨exPmt2v1, 1316, 0x20, false, false⟩, ⟨exA3, 1504, 0x21, false, false⟩]) = false)
    | _, _ => false) = true := by decide +kernel

/-- … an instance of `tag_never_reissued`: once tag 2 has left the table it stays out and silent -/
example : ∃ t c, pushSpec App.sem (exTab0, exCtx0) [⟨exPmt2v1, 1316, 0x20, false, false⟩] = .ok (t, c)
    ∧ 2 ∉ tagsIn t ∧ ∀ pks t' c', pushSpec App.sem (t, c) pks = .ok (t', c') →
        2 ∉ tagsIn t' ∧ proj 2 c' = proj 2 c := by
  obtain ⟨⟨t, c⟩, h, hb⟩ := ok_of_check (pushSpec App.sem (exTab0, exCtx0) [⟨exPmt2v1, 1316, 0x20, false, false⟩])
    (fun tc => decide (2 < tc.2.nextTag) && decide (2 ∉ tagsIn tc.1)) (by decide +kernel)
  simp only [Bool.and_eq_true, decide_eq_true_eq] at hb
  obtain ⟨h1, h2⟩ := hb
  refine ⟨t, c, h, h2, fun pks t' c' hrun => ?_⟩
  exact tag_never_reissued 2 pks t c t' c' (tagInv_pushSpec _ _ _ exState_inv.1 h).1 h1 h2 hrun

/-- hostile input on PID 0x21 after the interleaving: a continuity jump, a valid PES start, a unit
start on garbage, a stray continuation; the per-consumer trace is still a legal protocol run
(evaluated; it is an instance of `nestInv_pushSpec`) -/
example : (match frame (exEs ++ exHostile) 376 with
    | .ok pks =>
      (match pushSpec App.sem (exTab0, exCtx0) pks with
       | .ok (_, c) => decide (esTrace 2 c =
            [.start, .beginPkt 0 0, .cont 0 0, .endPkt, .beginPkt 0 0, .ccErr, .beginPkt 0 0, .endPkt]
          ∧ accepts .notStarted (esTrace 2 c) = some .idle)
       | .panic _ => false)
    | .panic _ => false) = true := by decide +kernel

/-! ## 5. the delivered bytes, read from the PUSHED BUFFER -/

open Ts.Lemmas.C02 (sliceOf groupsFrom payloadGroups InBuf)

/-- a range `(o, l)` of a packet that `push` framed out of `buf` IS that window of `buf`: the
packet-relative ranges of the callbacks (C08 / C12) and the global ranges of the application events
(`pk.off + o`) denote bytes of the buffer the caller passed in (`base` = bytes pushed before) -/
theorem frame_range_is_buffer_window (buf : Bytes) (base : Nat) (pks : List Pk)
    (hf : frame buf base = .ok pks) (pk : Pk) (hm : pk ∈ pks) (o l : Nat) (hol : o + l ≤ 188) :
    Packet.rangeBytes pk.bytes (o, l) = (buf.drop (pk.off - base + o)).take l := by
  have h := (Ts.Lemmas.C19.frame_pk_props buf base pks hf pk hm).2.2.2.1
  rw [h]
  exact Ts.Lemmas.C02.rangeBytes_window buf _ o l hol

/-- `InBuf buf base pk`: the packet sits in `buf` at its recorded stream offset; holds for every
packet framed out of `buf` -/
theorem inBuf_iff (buf : Bytes) (base : Nat) (pk : Pk) :
    InBuf buf base pk ↔ base ≤ pk.off ∧ pk.bytes = (buf.drop (pk.off - base)).take 188 := Iff.rfl

theorem inBuf_of_frame (buf : Bytes) (base : Nat) (pks : List Pk) (hf : frame buf base = .ok pks) :
    ∀ pk ∈ pks, InBuf buf base pk :=
  Ts.Lemmas.C02.inBuf_of_frame buf base pks hf

/-- `sliceOf buf base e`: the bytes of the pushed buffer at the global range the event carries -/
theorem sliceOf_vocabulary (buf : Bytes) (base tag off len : Nat) (bi : BeginInfo) :
    sliceOf buf base (.esCont tag off len) = (buf.drop (off - base)).take len
    ∧ (bi.pl = some (off, len) → sliceOf buf base (.esBegin tag bi) = (buf.drop (off - base)).take len)
    ∧ (bi.pl = none → sliceOf buf base (.esBegin tag bi) = [])
    ∧ sliceOf buf base (.esStart tag) = [] ∧ sliceOf buf base (.esEnd tag) = []
    ∧ sliceOf buf base (.esCcErr tag) = [] ∧ sliceOf buf base (.pkt tag off) = [] := by
  refine ⟨rfl, ?_, ?_, rfl, rfl, rfl, rfl⟩
  · intro h; simp only [sliceOf, h]
  · intro h; simp only [sliceOf, h]

/-- `payloadGroups buf base es`: the buffer slices of ONE consumer's events `es`, grouped per PES
packet.  `groupsFrom … cur es` scans `es` with `cur` = the group being collected: `esBegin` closes
`cur` and opens a new group with its exposed payload; `esCont` appends its slice to the open group
(and is dropped when none is open); `esEnd` and `esCcErr` close it; `esStart` (and events that are
not elementary-stream callbacks) are skipped; at the end the open group is closed. -/
theorem payloadGroups_spec (buf : Bytes) (base tag off len : Nat) (bi : BeginInfo) (cur : Option Bytes)
    (b : Bytes) (es : List Ev) :
    payloadGroups buf base es = groupsFrom buf base none es
    ∧ groupsFrom buf base cur [] = cur.toList
    ∧ groupsFrom buf base cur (.esBegin tag bi :: es)
        = cur.toList ++ groupsFrom buf base (some (sliceOf buf base (.esBegin tag bi))) es
    ∧ groupsFrom buf base (some b) (.esCont tag off len :: es)
        = groupsFrom buf base (some (b ++ sliceOf buf base (.esCont tag off len))) es
    ∧ groupsFrom buf base none (.esCont tag off len :: es) = groupsFrom buf base none es
    ∧ groupsFrom buf base cur (.esEnd tag :: es) = cur.toList ++ groupsFrom buf base none es
    ∧ groupsFrom buf base cur (.esCcErr tag :: es) = cur.toList ++ groupsFrom buf base none es
    ∧ groupsFrom buf base cur (.esStart tag :: es) = groupsFrom buf base cur es :=
  ⟨rfl, rfl, rfl, rfl, rfl, rfl, rfl, rfl⟩

/-- **BYTE-LEVEL CONSERVATION against the buffer**, dispatcher level.  Hypotheses of
`es_consumer_conservation` (`TagInv`; slot `p` holds the PES handler tagged `τ` in state `f`; the
unflagged PID-`p` packets of the interleaving `pks` are the packets of a well-formed `PesStream`
`s`; `Keeps`), plus `hin`: those packets sit in `buf` (pushed after `base` bytes) at their recorded
offsets.  Then, for the events `outs.flatten` consumer `τ` newly observes
(`proj τ c' = proj τ c ++ outs.flatten`):
* grouped per PES packet — from each `esBegin` up to, excluding, the next `esBegin` / `esEnd` — the
  bytes OF `buf` at the ranges the events report are exactly the payloads of the PES packets of
  `s`, one group per packet, in order (`payloadGroups`); in particular the `k`-th group is the
  payload of the `k`-th packet;
* all slices together are all payload bytes of the stream. -/
theorem es_payload_bytes_from_buffer (p τ : Nat) (buf : Bytes) (base : Nat) (pks : List Pk)
    (t : Tab Handler) (c : Ctx) (f : PesFilter.F) (t' : Tab Handler) (c' : Ctx) (s : List (PesPkt × Plan))
    (hi : TagInv (t, c)) (hg : t.get p = some (.pes τ f))
    (hin : ∀ pk ∈ own p pks, InBuf buf base pk)
    (hsub : (own p pks).map (·.bytes) = streamPackets s) (hs : PesStream f.cc s)
    (hK : Keeps p τ (t, c) pks = true)
    (hrun : pushSpec App.sem (t, c) pks = .ok (t', c')) :
    ∃ outs,
      esAll c.cfg.touch τ (own p pks) (streamEvs f.st (s.map (·.2))) = .ok outs ∧
      proj τ c' = proj τ c ++ outs.flatten ∧
      payloadGroups buf base outs.flatten = s.map (·.1.payload) ∧
      (∀ (k : Nat) (x : PesPkt × Plan), s[k]? = some x → (payloadGroups buf base outs.flatten)[k]? = some x.1.payload) ∧
      (outs.flatten.map (sliceOf buf base)).flatten = (s.map (·.1.payload)).flatten ∧
      t'.get p = some (.pes τ (streamFinal f s)) := by
  obtain ⟨outs, a1, a2, a3, _, _⟩ := es_consumer_conservation p τ pks t c f t' c' s hi hg hsub hs hK hrun
  obtain ⟨g1, g2⟩ := Ts.Lemmas.C02.stream_groups buf base c.cfg.touch τ s f.st f.cc (own p pks) outs
    hs hsub hin a1
  have g : payloadGroups buf base outs.flatten = s.map (·.1.payload) := by
    have := g1 none
    simpa [payloadGroups] using this
  refine ⟨outs, a1, a2, g, ?_, g2, a3⟩
  intro k x hx
  rw [g, List.getElem?_map, hx]
  rfl

/-- **MAIN, `Demultiplex::push` on raw bytes.**  One call `push buf` (after `base` earlier bytes)
framing the packets `pks`; hypotheses of `es_consumer_conservation` otherwise.  The bytes the
elementary-stream consumer `τ` receives between one `begin_packet` and the next `begin_packet` /
`end_packet` — read FROM THE BUFFER THE CALLER PASSED, at the global ranges the events report — are
exactly the payload of the PES packet that was multiplexed, for every PES packet of the stream. -/
theorem es_payload_bytes_from_pushed_buffer (p τ : Nat) (buf : Bytes) (base : Nat) (pks : List Pk)
    (t : Tab Handler) (c : Ctx) (f : PesFilter.F) (t' : Tab Handler) (c' : Ctx) (s : List (PesPkt × Plan))
    (hi : TagInv (t, c)) (hg : t.get p = some (.pes τ f))
    (hf : frame buf base = .ok pks)
    (hsub : (own p pks).map (·.bytes) = streamPackets s) (hs : PesStream f.cc s)
    (hK : Keeps p τ (t, c) pks = true)
    (hrun : push App.sem (t, c) buf base = .ok (t', c')) :
    ∃ outs,
      esAll c.cfg.touch τ (own p pks) (streamEvs f.st (s.map (·.2))) = .ok outs ∧
      proj τ c' = proj τ c ++ outs.flatten ∧
      payloadGroups buf base outs.flatten = s.map (·.1.payload) ∧
      (∀ (k : Nat) (x : PesPkt × Plan), s[k]? = some x → (payloadGroups buf base outs.flatten)[k]? = some x.1.payload) ∧
      (outs.flatten.map (sliceOf buf base)).flatten = (s.map (·.1.payload)).flatten ∧
      t'.get p = some (.pes τ (streamFinal f s)) := by
  unfold push at hrun
  rw [hf] at hrun
  have hrun : pushModel App.sem (t, c) pks = .ok (t', c') := hrun
  rw [C06.push_refines_spec] at hrun
  refine es_payload_bytes_from_buffer p τ buf base pks t c f t' c' s hi hg ?_ hsub hs hK hrun
  intro pk hm
  simp only [own, List.mem_filter] at hm
  exact inBuf_of_frame buf base pks hf pk hm.1

/-- … with INPUT-LEVEL hypotheses: the other packets framed out of `buf` are `Benign` (other
elementary streams, repetitions of the tables in force, null / recorder packets without scripted
action) for the table and script at the start of the call -/
theorem es_payload_bytes_from_pushed_buffer_benign (ver : Nat → Nat) (p τ : Nat) (buf : Bytes)
    (base : Nat) (pks : List Pk) (t : Tab Handler) (c : Ctx) (f : PesFilter.F) (t' : Tab Handler)
    (c' : Ctx) (s : List (PesPkt × Plan))
    (hi : TagInv (t, c)) (hg : t.get p = some (.pes τ f))
    (hf : frame buf base = .ok pks)
    (hsub : (own p pks).map (·.bytes) = streamPackets s) (hs : PesStream f.cc s)
    (hB : ∀ pk ∈ pks, pk.pid ≠ p → Benign ver c.cfg.script t pk)
    (hrun : push App.sem (t, c) buf base = .ok (t', c')) :
    ∃ outs,
      esAll c.cfg.touch τ (own p pks) (streamEvs f.st (s.map (·.2))) = .ok outs ∧
      proj τ c' = proj τ c ++ outs.flatten ∧
      payloadGroups buf base outs.flatten = s.map (·.1.payload) ∧
      (∀ (k : Nat) (x : PesPkt × Plan), s[k]? = some x → (payloadGroups buf base outs.flatten)[k]? = some x.1.payload) ∧
      (outs.flatten.map (sliceOf buf base)).flatten = (s.map (·.1.payload)).flatten ∧
      t'.get p = some (.pes τ (streamFinal f s)) :=
  es_payload_bytes_from_pushed_buffer p τ buf base pks t c f t' c' s hi hg hf hsub hs
    (keeps_of_benign_traffic ver p τ pks t c f hg hB) hrun

/-! ## 6. END TO END from the initial state -/

/-- PAT on PID 0 (program 1 → PMT PID 0x20), as `exPat` but with a VALID CRC (`a2 c3 29 41`), so it
is accepted by the release build (`bypassCrc = false`) too -/
def e2ePat : Bytes := pad [0x47, 0x40, 0x00, 0x10, 0x00,
  0x00, 0xB0, 0x0D, 0x00, 0x01, 0xC1, 0x00, 0x00, 0x00, 0x01, 0xE0, 0x20, 0xA2, 0xC3, 0x29, 0x41]

/-- PMT on PID 0x20 (H.264 video on PID 0x21, AAC audio on PID 0x22), as `exPmt2` with a valid CRC
(`fa 81 67 0f`) -/
def e2ePmt : Bytes := pad [0x47, 0x40, 0x20, 0x10, 0x00,
  0x02, 0xB0, 0x17, 0x00, 0x01, 0xC1, 0x00, 0x00, 0xE0, 0x21, 0xF0, 0x00,
  0x1B, 0xE0, 0x21, 0xF0, 0x00, 0x0F, 0xE0, 0x22, 0xF0, 0x00, 0xFA, 0x81, 0x67, 0x0F]

/-- the context after the set-up prefix: `exCtx0` (four tags handed out; the trace holds the four
`construct` requests) under the configuration `cfg` -/
def e2eCtx (cfg : Cfg) : Ctx := { exCtx0 with cfg := cfg }

example : e2ePat.length = 188 ∧ e2ePmt.length = 188 ∧ (e2ePat ++ e2ePmt).length = 376 := by decide +kernel

/-- the CRCs are valid: the two sections pass the CRC layer of the release build -/
example : Psi.crcPass false ((e2ePat.drop 5).take 16) = .ok true
    ∧ Psi.crcPass false ((e2ePmt.drop 5).take 26) = .ok true := by decide +kernel

/-- the set-up run for the two builds and the two `touch` settings -/
def e2eRun (b tch : Bool) : R (Tab Handler × Ctx) :=
  runApp { bypassCrc := b, touch := tch, script := [] } [e2ePat ++ e2ePmt]

theorem e2eRun_ff : e2eRun false false = .ok (exTab0, e2eCtx { bypassCrc := false, touch := false }) := by
  obtain ⟨a, h1, h2⟩ := ok_of_check (e2eRun false false)
    (fun tc => decide (tc = (exTab0, e2eCtx { bypassCrc := false, touch := false }))) (by decide +kernel)
  rw [h1, of_decide_eq_true h2]
theorem e2eRun_ft : e2eRun false true = .ok (exTab0, e2eCtx { bypassCrc := false, touch := true }) := by
  obtain ⟨a, h1, h2⟩ := ok_of_check (e2eRun false true)
    (fun tc => decide (tc = (exTab0, e2eCtx { bypassCrc := false, touch := true }))) (by decide +kernel)
  rw [h1, of_decide_eq_true h2]
theorem e2eRun_tf : e2eRun true false = .ok (exTab0, e2eCtx { bypassCrc := true, touch := false }) := by
  obtain ⟨a, h1, h2⟩ := ok_of_check (e2eRun true false)
    (fun tc => decide (tc = (exTab0, e2eCtx { bypassCrc := true, touch := false }))) (by decide +kernel)
  rw [h1, of_decide_eq_true h2]
theorem e2eRun_tt : e2eRun true true = .ok (exTab0, e2eCtx { bypassCrc := true, touch := true }) := by
  obtain ⟨a, h1, h2⟩ := ok_of_check (e2eRun true true)
    (fun tc => decide (tc = (exTab0, e2eCtx { bypassCrc := true, touch := true }))) (by decide +kernel)
  rw [h1, of_decide_eq_true h2]

/-- THE SET-UP PREFIX, evaluated once per build / `touch` setting: from `Demultiplex::new`, pushing
the PAT and PMT packets leaves the table `exTab0` — PAT handler on PID 0, PMT handler on PID 0x20,
PES filters tagged 2 and 3 on PIDs 0x21 and 0x22 — and the context `e2eCtx cfg`.  `hscript`: the
harness script is empty (the default). -/
theorem e2e_setup (cfg : Cfg) (hscript : cfg.script = []) :
    runApp cfg [e2ePat ++ e2ePmt] = .ok (exTab0, e2eCtx cfg) := by
  obtain ⟨b, tch, scr⟩ := cfg
  simp only at hscript
  subst hscript
  cases b <;> cases tch
  · exact e2eRun_ff
  · exact e2eRun_ft
  · exact e2eRun_tf
  · exact e2eRun_tt

theorem exTab0_get_none (q : Nat) (h0 : q ≠ 0) (h1 : q ≠ 0x20) (h2 : q ≠ 0x21) (h3 : q ≠ 0x22) :
    exTab0.get q = none := by
  by_cases hq : q < 35
  · have key : ∀ i : Fin 35, i.val ≠ 0 → i.val ≠ 0x20 → i.val ≠ 0x21 → i.val ≠ 0x22 →
        exTab0.get i.val = none := by decide +kernel
    exact key ⟨q, hq⟩ h0 h1 h2 h3
  · have hl : exTab0.length = 35 := by decide +kernel
    unfold Tab.get
    rw [if_pos (by omega)]

/-- which packets are `Benign` for the table after the set-up prefix and the empty script, written
out: packets of the OTHER elementary stream (PID 0x22); packets on the PAT / PMT PIDs 0 / 0x20 that
are flagged (transport error / scrambled) or repetition packets of the tables in force (C10
`RepPacket 0`: version 0); packets on any PID not in the table (null packets on 0x1fff, …: the
application gives them a recorder, which queues nothing under the empty script) -/
theorem benign_after_setup (pk : Pk)
    (h : pk.pid = 0x22
      ∨ ((pk.pid = 0 ∨ pk.pid = 0x20) ∧ (pk.flagged = true ∨ RepPacket 0 pk.bytes))
      ∨ (pk.pid ≠ 0 ∧ pk.pid ≠ 0x20 ∧ pk.pid ≠ 0x21 ∧ pk.pid ≠ 0x22)) :
    Benign (fun _ => 0) [] exTab0 pk := by
  have g22 : exTab0.get 0x22 = some (.pes 3 {}) := by decide +kernel
  have g0 : exTab0.get 0 = some (.pat { lastVersion := some 0 } [0x20]) := by decide +kernel
  have g20 : exTab0.get 0x20 = some (.pmt 0x20 1 { lastVersion := some 0 } [0x21, 0x22]) := by
    decide +kernel
  rcases h with h | ⟨h | h, x⟩ | ⟨h0, h1, h2, h3⟩
  · exact Or.inl ⟨3, {}, by rw [h]; exact g22⟩
  · exact Or.inr (Or.inl ⟨⟨.pat { lastVersion := some 0 } [0x20], by rw [h]; exact g0, ⟨rfl, rfl⟩⟩, x⟩)
  · exact Or.inr (Or.inl ⟨⟨.pmt 0x20 1 { lastVersion := some 0 } [0x21, 0x22], by rw [h]; exact g20,
      ⟨rfl, rfl⟩⟩, x⟩)
  · exact Or.inr (Or.inr ⟨Or.inr ⟨exTab0_get_none _ h0 h1 h2 h3, h0⟩, Or.inr rfl⟩)

/-- **END TO END, from `Demultiplex::new`.**  ANY configuration `cfg` with the default (empty)
harness script — either build, callbacks touching everything or not.  ONE call of `push` with the
bytes `e2ePat ++ e2ePmt ++ body`: a PAT packet listing program 1 on PMT PID 0x20, a PMT packet
listing H.264 video on PID 0x21 and AAC audio on PID 0x22 (concrete, 376 bytes), then ANY `body`
such that, `pks` being the packets framed out of it (`C07.frame_spec`: the aligned 188-byte chunks
with a sync byte),
* `hsub`, `hs`: the unflagged PID-0x21 packets are, in order, the transport packets of a well-formed
  `PesStream` `s` (C02's independent encoder: any PES packets, header shapes, splits, adaptation-field
  stuffing, payload-less packets),
* `hB`: every other packet is `Benign` — see `benign_after_setup`: the other elementary stream,
  repetitions of the PAT / PMT, flagged packets, null packets and other unregistered PIDs —
  in ANY interleaving.
No hypothesis on any internal state.  Then the run succeeds, and consumer 2 (the tag the PMT's
request for PID 0x21 got) observes, over the WHOLE run, exactly the `esAll` image of the encoder's
expected callbacks `streamEvs` (`es_image_first` / `es_image_cont`); the bytes of the pushed buffer
at the ranges it is handed, grouped per PES packet, are exactly the multiplexed payloads; its
filter ends in `streamFinal`; the trace records that tag 2 was handed out for the PMT's stream
request for PID 0x21 (stream type 0x1B).  (`e2e_two_pushes`: the same for the two pushes
`[e2ePat ++ e2ePmt, body]`.) -/
theorem es_conservation_end_to_end (cfg : Cfg) (hscript : cfg.script = []) (body : Bytes)
    (pks : List Pk) (s : List (PesPkt × Plan))
    (hf : frame body 376 = .ok pks)
    (hsub : (own 0x21 pks).map (·.bytes) = streamPackets s) (hs : PesStream none s)
    (hB : ∀ pk ∈ pks, pk.pid ≠ 0x21 → Benign (fun _ => 0) [] exTab0 pk) :
    ∃ t' c' outs,
      runApp cfg [e2ePat ++ e2ePmt ++ body] = .ok (t', c') ∧
      esAll cfg.touch 2 (own 0x21 pks) (streamEvs .begin (s.map (·.2))) = .ok outs ∧
      proj 2 c' = outs.flatten ∧
      payloadGroups (e2ePat ++ e2ePmt ++ body) 0 (proj 2 c') = s.map (·.1.payload) ∧
      ((proj 2 c').map (sliceOf (e2ePat ++ e2ePmt ++ body) 0)).flatten
        = (s.map (·.1.payload)).flatten ∧
      t'.get 0x21 = some (.pes 2 (streamFinal {} s)) ∧
      Ev.construct (.stream 0x20 0x1B 0x21 0x21 [] []) 2 ∈ c'.trace := by
  have hlen : (e2ePat ++ e2ePmt).length = 376 := by decide +kernel
  obtain ⟨t', c', hrun⟩ := Ts.Props.C01.no_panic cfg [e2ePat ++ e2ePmt ++ body]
  have hsetup := e2e_setup cfg hscript
  have hi : TagInv (exTab0, e2eCtx cfg) := tagInv_runApp _ _ _ _ hsetup
  have hsplit : runApp cfg [e2ePat ++ e2ePmt ++ body] =
      (runApp cfg [e2ePat ++ e2ePmt] >>= fun tc => push App.sem tc body 376) := by
    unfold runApp
    rw [Ts.Props.C07.pushAll_single, Ts.Props.C07.pushAll_single,
      Ts.Props.C07.push_append _ _ _ _ 0 (by rw [hlen]), hlen]
  rw [hsplit, hsetup] at hrun
  simp only [R.ok_bind] at hrun
  unfold push at hrun
  rw [hf] at hrun
  have hrun : pushModel App.sem (exTab0, e2eCtx cfg) pks = .ok (t', c') := hrun
  rw [C06.push_refines_spec] at hrun
  have hg : exTab0.get 0x21 = some (.pes 2 {}) := by decide +kernel
  have hK : Keeps 0x21 2 (exTab0, e2eCtx cfg) pks = true := by
    refine keeps_of_benign_traffic (fun _ => 0) 0x21 2 pks exTab0 (e2eCtx cfg) {} hg ?_
    intro pk hm hne
    have : (e2eCtx cfg).cfg.script = [] := hscript
    rw [this]
    exact hB pk hm hne
  have hin : ∀ pk ∈ own 0x21 pks, InBuf (e2ePat ++ e2ePmt ++ body) 0 pk := by
    intro pk hm
    simp only [own, List.mem_filter] at hm
    refine Ts.Lemmas.C02.inBuf_append ?_
    rw [hlen]
    exact inBuf_of_frame body 376 pks hf pk hm.1
  obtain ⟨outs, a1, a2, a3, _, a5, a6⟩ := es_payload_bytes_from_buffer 0x21 2 (e2ePat ++ e2ePmt ++ body) 0
    pks exTab0 (e2eCtx cfg) {} t' c' s hi hg hin hsub hs hK hrun
  have hp0 : proj 2 (e2eCtx cfg) = [] := rfl
  rw [hp0, List.nil_append] at a2
  obtain ⟨_, _, _, new, htr⟩ := tagInv_pushSpec pks _ _ hi hrun
  refine ⟨t', c', outs, ?_, a1, a2, by rw [a2]; exact a3, by rw [a2]; exact a5, a6, ?_⟩
  · rw [hsplit, hsetup]
    simp only [R.ok_bind]
    unfold push
    rw [hf]
    show pushModel App.sem (exTab0, e2eCtx cfg) pks = _
    rw [C06.push_refines_spec]
    exact hrun
  · have htr : c'.trace = new ++ (e2eCtx cfg).trace := htr
    rw [htr]
    exact List.mem_append_right _ (by simp [e2eCtx, exCtx0])

/-- the same run cut into TWO pushes, the set-up prefix and the body (C07: cutting at a packet
boundary changes nothing) -/
theorem e2e_two_pushes (cfg : Cfg) (body : Bytes) :
    runApp cfg [e2ePat ++ e2ePmt, body] = runApp cfg [e2ePat ++ e2ePmt ++ body] := by
  have hlen : (e2ePat ++ e2ePmt).length = 376 := by decide +kernel
  unfold runApp
  have := Ts.Props.C07.chunking_irrelevant_unaligned_last App.sem (App.init cfg) [e2ePat ++ e2ePmt] body 0
    (by intro c hc; simp only [List.mem_cons, List.not_mem_nil, or_false] at hc; rw [hc, hlen])
  simp only [List.cons_append, List.nil_append, List.flatten_cons, List.flatten_nil,
    List.append_nil] at this
  rw [this, Ts.Props.C07.pushAll_single]

/-! ### non-vacuity of sections 5 and 6 -/

open Ts.Lemmas.C02 (exPksRep exPksRep_benign) in
/-- NON-VACUITY of `frame_range_is_buffer_window`: the payload range `(4, 184)` of the 7th packet
framed out of `exBufRep` (pushed after 376 bytes) is the window of `exBufRep` at `1128 + 4` -/
example : Packet.rangeBytes exA1 (4, 184) = (exBufRep.drop (1504 - 376 + 4)).take 184 := by
  obtain ⟨pks, hf, hb⟩ := ok_of_check (frame exBufRep 376) (fun pks => decide (pks = exPksRep))
    (by decide +kernel)
  have hpks : pks = exPksRep := of_decide_eq_true hb
  subst hpks
  exact frame_range_is_buffer_window exBufRep 376 _ hf ⟨exA1, 1504, 0x21, false, false⟩
    (by simp [exPksRep]) 4 184 (by omega)

open Ts.Lemmas.C02 (exPksRep exPksRep_benign) in
/-- NON-VACUITY of `es_payload_bytes_from_pushed_buffer_benign`: the interleaving
`A PAT B PMT B null A A` as raw bytes handed to `push` after 376 bytes, from the state after PAT and
PMT; the PID-0x21 packets are the packets of the well-formed stream `exStreamA` (two PES packets,
the first spread over two transport packets).  The theorem yields: the buffer bytes handed to
consumer 2, grouped per PES packet, are the two multiplexed payloads. -/
example : ∃ (t' : Tab Handler) (c' : Ctx) (outs : List (List Ev)),
    push App.sem (exTab0, exCtx0) exBufRep 376 = .ok (t', c') ∧
    proj 2 c' = proj 2 exCtx0 ++ outs.flatten ∧
    payloadGroups exBufRep 376 outs.flatten =
      [List.replicate 175 0x11 ++ List.replicate 184 0x12, List.replicate 175 0x13] := by
  have ok1 : ((push App.sem (exTab0, exCtx0) exBufRep 376).isOk
      && decide ((own 0x21 exPksRep).map (·.bytes) = streamPackets exStreamA)
      && decide (PesStream none exStreamA)) = true := by decide +kernel
  simp only [Bool.and_eq_true, decide_eq_true_eq] at ok1
  obtain ⟨⟨ok1, hsub⟩, hs⟩ := ok1
  obtain ⟨pks, hf, hb⟩ := ok_of_check (frame exBufRep 376) (fun pks => decide (pks = exPksRep))
    (by decide +kernel)
  have hpks : pks = exPksRep := of_decide_eq_true hb
  subst hpks
  cases hrun : push App.sem (exTab0, exCtx0) exBufRep 376 with
  | panic s => rw [hrun] at ok1; cases ok1
  | ok r =>
    obtain ⟨t', c'⟩ := r
    obtain ⟨outs, _, a2, a3, _⟩ := es_payload_bytes_from_pushed_buffer_benign (fun _ => 0) 0x21 2
      exBufRep 376 _ exTab0 exCtx0 {} t' c' exStreamA exState_inv.1 (by decide +kernel) hf hsub hs
      (fun pk hm _ => exPksRep_benign pk hm) hrun
    exact ⟨t', c', outs, rfl, a2, a3⟩

section e2eData
open Ts.Spec.SectionMux Ts.Lemmas.C10 Ts.Lemmas.C03

/-- the sections carried by `e2ePat` / `e2ePmt` (valid CRCs) -/
def e2ePatSec : Bytes :=
  [0x00, 0xB0, 0x0D, 0x00, 0x01, 0xC1, 0x00, 0x00, 0x00, 0x01, 0xE0, 0x20, 0xA2, 0xC3, 0x29, 0x41]
def e2ePmtSec : Bytes :=
  [0x02, 0xB0, 0x17, 0x00, 0x01, 0xC1, 0x00, 0x00, 0xE0, 0x21, 0xF0, 0x00,
   0x1B, 0xE0, 0x21, 0xF0, 0x00, 0x0F, 0xE0, 0x22, 0xF0, 0x00, 0xFA, 0x81, 0x67, 0x0F]

theorem e2ePat_rep : RepPacket 0 e2ePat := by
  refine ⟨by decide +kernel, ?_⟩
  intro q hq
  have : plOf e2ePat = some ⟨true, plBytesOf e2ePatSec, 4⟩ := by decide +kernel
  rw [this] at hq
  cases hq
  exact Or.inr ⟨e2ePatSec, muxOf e2ePatSec, by decide +kernel, by decide +kernel, by decide +kernel,
    by decide +kernel, rfl, by decide +kernel⟩

theorem e2ePmt_rep : RepPacket 0 e2ePmt := by
  refine ⟨by decide +kernel, ?_⟩
  intro q hq
  have : plOf e2ePmt = some ⟨true, plBytesOf e2ePmtSec, 4⟩ := by decide +kernel
  rw [this] at hq
  cases hq
  exact Or.inr ⟨e2ePmtSec, muxOf e2ePmtSec, by decide +kernel, by decide +kernel, by decide +kernel,
    by decide +kernel, rfl, by decide +kernel⟩

end e2eData

/-- a body for the end-to-end theorem: `A PAT B PMT B null A A` (the two elementary streams, the PAT
and the PMT REPEATED, a null packet) followed by three stray bytes that do not fill a packet -/
def e2eBody : Bytes :=
  exA0 ++ e2ePat ++ exB0 ++ e2ePmt ++ exB1 ++ Ts.Lemmas.C02.exNull ++ exA1 ++ exA2 ++ [0x47, 0x01, 0x02]

def e2ePks : List Pk :=
  [⟨exA0, 376, 0x21, false, false⟩, ⟨e2ePat, 564, 0, false, false⟩, ⟨exB0, 752, 0x22, false, false⟩,
   ⟨e2ePmt, 940, 0x20, false, false⟩, ⟨exB1, 1128, 0x22, false, false⟩,
   ⟨Ts.Lemmas.C02.exNull, 1316, 0x1fff, false, false⟩, ⟨exA1, 1504, 0x21, false, false⟩,
   ⟨exA2, 1692, 0x21, false, false⟩]

/-- NON-VACUITY of `es_conservation_end_to_end`, RELEASE build (`cfg = {}`: CRCs checked, default
script): `e2eBody` frames to `e2ePks`; its PID-0x21 packets are the packets of the well-formed
stream `exStreamA`; every other packet is benign by `benign_after_setup` (PID 0x22; repetitions
`e2ePat_rep` / `e2ePmt_rep` on PIDs 0 / 0x20; the null packet on the unregistered PID 0x1fff).  The
theorem yields the success of the whole run from `Demultiplex::new` and the two payloads read from
the ONE pushed buffer. -/
example : ∃ t' c', runApp {} [e2ePat ++ e2ePmt ++ e2eBody] = .ok (t', c') ∧
    payloadGroups (e2ePat ++ e2ePmt ++ e2eBody) 0 (proj 2 c') =
      [List.replicate 175 0x11 ++ List.replicate 184 0x12, List.replicate 175 0x13] ∧
    t'.get 0x21 = some (.pes 2 ⟨some 2, .started⟩) := by
  obtain ⟨pks, hf, hb⟩ := ok_of_check (frame e2eBody 376) (fun pks => decide (pks = e2ePks))
    (by decide +kernel)
  have hpks : pks = e2ePks := of_decide_eq_true hb
  subst hpks
  have hd : (decide ((own 0x21 e2ePks).map (·.bytes) = streamPackets exStreamA)
      && decide (PesStream none exStreamA)
      && decide (streamFinal {} exStreamA = ⟨some 2, .started⟩)) = true := by decide +kernel
  simp only [Bool.and_eq_true, decide_eq_true_eq] at hd
  obtain ⟨⟨hsub, hs⟩, hfin⟩ := hd
  have hB : ∀ pk ∈ e2ePks, pk.pid ≠ 0x21 → Benign (fun _ => 0) [] exTab0 pk := by
    intro pk hm hne
    simp only [e2ePks, List.mem_cons, List.not_mem_nil, or_false] at hm
    rcases hm with rfl | rfl | rfl | rfl | rfl | rfl | rfl | rfl
    · exact absurd rfl hne
    · exact benign_after_setup _ (Or.inr (Or.inl ⟨Or.inl rfl, Or.inr e2ePat_rep⟩))
    · exact benign_after_setup _ (Or.inl rfl)
    · exact benign_after_setup _ (Or.inr (Or.inl ⟨Or.inr rfl, Or.inr e2ePmt_rep⟩))
    · exact benign_after_setup _ (Or.inl rfl)
    · exact benign_after_setup _ (Or.inr (Or.inr ⟨by decide, by decide, by decide, by decide⟩))
    · exact absurd rfl hne
    · exact absurd rfl hne
  obtain ⟨t', c', outs, a1, _, _, a4, _, a6, _⟩ :=
    es_conservation_end_to_end {} rfl e2eBody e2ePks exStreamA hf hsub hs hB
  rw [hfin] at a6
  exact ⟨t', c', a1, a4, a6⟩

/-- … and concretely (evaluated, release build): what consumer 2 observes over the whole run; the
ranges are offsets into the one pushed buffer -/
example : (match runApp {} [e2ePat ++ e2ePmt ++ e2eBody] with
    | .ok (_, c) => decide (
        proj 2 c = [.esStart 2, .esBegin 2 (exBi 389), .esCont 2 1508 184, .esEnd 2, .esBegin 2 (exBi 1705)]
        ∧ payloadGroups (e2ePat ++ e2ePmt ++ e2eBody) 0 (proj 2 c) =
            [List.replicate 175 0x11 ++ List.replicate 184 0x12, List.replicate 175 0x13])
    | .panic _ => false) = true := by decide +kernel

/-! ## 7. the reading of C08's "header could not be recognised" clause, on `exSplit` -/

open Ts.Props.C02 (exSplit exPes) in
/-- **C08 reading, on a PES header SPLIT over two transport packets** (`exSplit` of `Props/C02.lean`:
the 19-byte PES header of `exPes` cut after 12 bytes; three 188-byte packets).  The first packet's
payload `(176, 12)` is accepted by `PesHeader::from_bytes` (`00 00 01` prefix, ≥ 6 bytes), its
OPTIONAL header is rejected (`PesHeader::contents` = `Parsed(None)`; the application reports
`kind = 2`, no PTS/DTS, no exposed payload) — and the filter still delivers `start_stream`,
`begin_packet` and BOTH continuation slices; all bytes handed over are the encoded PES packet.
So "could not be recognised" in C08 is read as "`PesHeader::from_bytes` = `None`"
(`C08.unrecognised_header_not_delivered…`), not as "optional header rejected"; cf.
`C08.rejected_optional_header_still_delivered`. -/
theorem rejected_optional_header_still_delivered_split :
    (∀ p ∈ exSplit.packets, p.length = 188) ∧
    PesFilter.run {} exSplit.packets =
      .ok (⟨some 7, .started⟩, [[.start, .beginPkt 176 12], [.cont 6 182], [.cont 163 25]]) ∧
    Pes.headerFromBytes (Packet.rangeBytes exSplit.first (176, 12))
      = .ok (some (Packet.rangeBytes exSplit.first (176, 12))) ∧
    Pes.contents (Packet.rangeBytes exSplit.first (176, 12)) = .ok (.parsed none) ∧
    (∀ base, App.beginInfo exSplit.first base 176 12 = .ok ⟨0xE0, 0, 2, none, none⟩) ∧
    delivered exSplit.packets [[.start, .beginPkt 176 12], [.cont 6 182], [.cont 163 25]]
      = encodePes exPes := by
  refine ⟨by decide +kernel, by decide +kernel, by decide +kernel,
    C08.contents_parsed_none_of_check _ (by decide +kernel), ?_, by decide +kernel⟩
  intro base
  rw [beginInfo_base]
  have : App.beginInfo exSplit.first 0 176 12 = .ok ⟨0xE0, 0, 2, none, none⟩ := by decide +kernel
  rw [this]
  rfl

end Ts.Props.C02Trace
