import Ts.Model.Packet
namespace Ts.Props.C12
theorem placeholder : 1 + 1 = 2 := rfl
end Ts.Props.C12
