import Ts.Model.Packet
import Ts.Spec.Bits
import Ts.Lemmas.BitOps
import Ts.Gen.Consts
/-!
# C12 — transport packet header fields and payload / adaptation-field split are exact

For every 188-byte packet: each fixed-header accessor of the model (byte masks and shifts, as in
`packet.rs:563-616`) equals the `uimsbf` field of ISO/IEC 13818-1 2.4.3.2 at its bit offset, and
`adaptation_field()` / `payload()` equal the table over (adaptation_field_control, length).
All results are `R.ok`: no accessor panics.
-/
namespace Ts.Props.C12
open Ts Ts.Packet Ts.Spec

/-! ### ties to the constants regenerated from `/repo/src/packet.rs` -/
theorem tie_packet_size : Ts.Gen.packetSize = SIZE := by decide
theorem tie_sync_byte : Ts.Gen.syncByte = SYNC_BYTE := by decide
theorem tie_fixed_header : Ts.Gen.fixedHeaderSize = FIXED_HEADER_SIZE := by decide
theorem tie_af_max : Ts.Gen.afMaxWithPayload = 182 := by decide
theorem tie_pid_max : Ts.Gen.pidMax = 0x1fff := by decide

/-! ### fixed header (2.4.3.2): sync 8, TEI 1, PUSI 1, priority 1, PID 13, scrambling 2, afc 2, cc 4 -/

theorem tei_exact (p : Bytes) (h : p.length = 188) : tei p = .ok (readBits p 8 1 == 1) := by
  unfold tei; rw [byteAt_ok p 1 (by omega)]
  have r := readBits_sub p 1 0 1 (by omega)
  simp only [Nat.mul_one, Nat.add_zero] at r
  rw [r]
  have := and_80 (byteD p 1) (byteD_lt p 1)
  simp only [R.ok_bind, R.pure_eq, this]

theorem pusi_exact (p : Bytes) (h : p.length = 188) : pusi p = .ok (readBits p 9 1 == 1) := by
  unfold pusi; rw [byteAt_ok p 1 (by omega)]
  have r := readBits_sub p 1 1 1 (by omega)
  simp only [Nat.mul_one] at r
  rw [r]
  have := and_40 (byteD p 1) (byteD_lt p 1)
  simp only [R.ok_bind, R.pure_eq, this]

theorem prio_exact (p : Bytes) (h : p.length = 188) : prio p = .ok (readBits p 10 1 == 1) := by
  unfold prio; rw [byteAt_ok p 1 (by omega)]
  have r := readBits_sub p 1 2 1 (by omega)
  simp only [Nat.mul_one] at r
  rw [r]
  have := and_20 (byteD p 1) (byteD_lt p 1)
  simp only [R.ok_bind, R.pure_eq, this]

theorem pid_exact (p : Bytes) (h : p.length = 188) : pid p = .ok (readBits p 11 13) := by
  unfold pid; rw [byteAt_ok p 1 (by omega), byteAt_ok p 2 (by omega)]
  have e : readBits p 11 13 = readBits p 11 5 * 2^8 + readBits p (11 + 5) 8 := readBits_add p 11 5 8
  have r1 := readBits_sub p 1 3 5 (by omega)
  have r2 := readBits_byte p 2
  simp only [Nat.mul_one] at r1
  rw [e, r1, r2]
  have m := and_1f (byteD p 1) (byteD_lt p 1)
  have b2 := byteD_lt p 2
  simp only [R.ok_bind, R.pure_eq, m, Nat.shiftLeft_eq]
  rw [or_eq_add 8 (Nat.dvd_mul_left _ _) b2]
  simp

/-- every PID the model yields is a legal 13-bit PID (`Pid` invariant) -/
theorem pid_le_max (p : Bytes) : readBits p 11 13 ≤ 0x1fff := by
  have := readBits_lt p 11 13; omega

theorem scrambling_exact (p : Bytes) (h : p.length = 188) :
    byte3 p = .ok (byteD p 3) ∧ scheme (byteD p 3) = readBits p 24 2
      ∧ isScrambled (byteD p 3) = (readBits p 24 2 != 0) := by
  refine ⟨byteAt_ok p 3 (by omega), ?_, ?_⟩
  · have r := readBits_sub p 3 0 2 (by omega)
    simp only [Nat.add_zero] at r
    rw [r]; unfold scheme
    have := shr6 (byteD p 3) (byteD_lt p 3)
    rw [this]
    have := byteD_lt p 3
    omega
  · have r := readBits_sub p 3 0 2 (by omega)
    simp only [Nat.add_zero] at r
    rw [r]; unfold isScrambled
    rw [and_c0 (byteD p 3) (byteD_lt p 3)]
    have := byteD_lt p 3
    have e : byteD p 3 / 2 ^ (8 - 0 - 2) % 2 ^ 2 = byteD p 3 / 64 := by omega
    rw [e]

/-- `scheme = none ↔ ¬ is_scrambled` -/
theorem scheme_none_iff (b3 : Nat) (h : b3 < 256) : (scheme b3 = 0) ↔ (isScrambled b3 = false) := by
  unfold scheme isScrambled
  rw [shr6 b3 h, and_c0 b3 h]
  simp

theorem afc_exact (p : Bytes) :
    hasAf (byteD p 3) = (readBits p 26 1 == 1) ∧ hasPayload (byteD p 3) = (readBits p 27 1 == 1) := by
  have r1 := readBits_sub p 3 2 1 (by omega)
  have r2 := readBits_sub p 3 3 1 (by omega)
  rw [r1, r2]
  unfold hasAf hasPayload
  rw [and_20 (byteD p 3) (byteD_lt p 3), and_10 (byteD p 3) (byteD_lt p 3)]
  constructor <;> congr 1

theorem cc_exact (p : Bytes) (h : p.length = 188) : cc p = .ok (readBits p 28 4) := by
  unfold cc; rw [byteAt_ok p 3 (by omega)]
  have r := readBits_sub p 3 4 4 (by omega)
  rw [r]
  have m := and_0f (byteD p 3) (byteD_lt p 3)
  have : byteD p 3 % 16 < 16 := Nat.mod_lt _ (by decide)
  simp only [R.ok_bind, R.pure_eq, m, assertR]
  have hlt : (byteD p 3 % 16 < 0b10000) = True := by simp; omega
  simp [hlt]

theorem cc_lt_16 (p : Bytes) : readBits p 28 4 < 16 := readBits_lt p 28 4

/-! ### adaptation field / payload split -/

/-- the split implied by `adaptation_field_control` (`haf`,`hp`) and `adaptation_field_length` `L` -/
def splitSpec (haf hp : Bool) (L : Nat) : Option (Nat × Nat) × Option (Nat × Nat) :=
  match haf, hp with
  | false, false => (none, none)
  | false, true => (none, some (4, 184))
  | true, false => (if L = 183 then some (5, 183) else none, none)
  | true, true => (if 1 ≤ L ∧ L ≤ 182 then some (5, L) else none,
                   if L ≤ 182 then some (5 + L, 183 - L) else none)

theorem mkAf_ok (p : Bytes) (h : p.length = 188) (L : Nat) (h1 : 1 ≤ L) (h2 : L ≤ 183) :
    mkAf p L = .ok (5, L) := by
  unfold mkAf ADAPTATION_FIELD_OFFSET FIXED_HEADER_SIZE
  rw [sliceR_ok p 5 L (by omega)]
  have hne : ¬ (L = 0 ∨ p.length ≤ 5) := by omega
  simp [assertR, hne]

theorem af_exact (p : Bytes) (h : p.length = 188) :
    afRange p = .ok (splitSpec (hasAf (byteD p 3)) (hasPayload (byteD p 3)) (byteD p 4)).1 := by
  unfold afRange byte3 afLen
  rw [byteAt_ok p 3 (by omega)]
  simp only [R.ok_bind]
  cases haf : hasAf (byteD p 3) <;> cases hp : hasPayload (byteD p 3) <;> simp only [splitSpec, if_true, if_false, Bool.false_eq_true, R.pure_eq]
  · rw [byteAt_ok p 4 (by omega)]
    simp only [R.ok_bind, SIZE, ADAPTATION_FIELD_OFFSET, FIXED_HEADER_SIZE]
    by_cases hl : byteD p 4 = 183
    · simp [hl, mkAf_ok p h 183 (by omega) (by omega)]
    · have : (byteD p 4 != 188 - (4 + 1)) = true := by simp; omega
      simp [this, hl]
  · rw [byteAt_ok p 4 (by omega)]
    simp only [R.ok_bind]
    by_cases h1 : byteD p 4 > 182
    · have : ¬ (1 ≤ byteD p 4 ∧ byteD p 4 ≤ 182) := by omega
      simp [h1, this]
    · by_cases h0 : byteD p 4 = 0
      · simp [h0]
      · have hh : (1 ≤ byteD p 4 ∧ byteD p 4 ≤ 182) := by omega
        have hb : (byteD p 4 == 0) = false := by simp [h0]
        simp only [h1, if_false, hb, Bool.false_eq_true, hh, and_self, if_true]
        rw [mkAf_ok p h _ (by omega) (by omega)]
        rfl

theorem payload_exact (p : Bytes) (h : p.length = 188) :
    payloadRange p = .ok (splitSpec (hasAf (byteD p 3)) (hasPayload (byteD p 3)) (byteD p 4)).2 := by
  unfold payloadRange mkPayload contentOffset byte3 afLen
  rw [byteAt_ok p 3 (by omega)]
  simp only [R.ok_bind]
  cases haf : hasAf (byteD p 3) <;> cases hp : hasPayload (byteD p 3) <;> simp only [splitSpec, if_true, if_false, Bool.false_eq_true, R.pure_eq, R.ok_bind]
  · simp [FIXED_HEADER_SIZE, h, sliceFrom_ok p 4 (by omega)]
  · rw [byteAt_ok p 4 (by omega)]
    simp only [R.ok_bind, ADAPTATION_FIELD_OFFSET, FIXED_HEADER_SIZE, h]
    by_cases h1 : byteD p 4 ≤ 182
    · have e1 : (4 + 1 + byteD p 4 == 188) = false := by simp; omega
      have e2 : ¬ (4 + 1 + byteD p 4 > 188) := by omega
      simp only [e1, Bool.false_eq_true, if_false, e2, h1, if_true]
      rw [sliceFrom_ok p _ (by omega)]
      simp only [R.ok_bind]
      congr 3 <;> omega
    · by_cases h2 : byteD p 4 = 183
      · simp [h2]
      · have e1 : (4 + 1 + byteD p 4 == 188) = false := by simp; omega
        have e2 : (4 + 1 + byteD p 4 > 188) := by omega
        simp [e1, e2, h1]

/-- soundness of the split: ranges lie inside the packet, are disjoint, and a payload is never
empty and ends at the packet's last byte -/
theorem split_sound (haf hp : Bool) (L : Nat) :
    let s := splitSpec haf hp L
    (∀ a, s.1 = some a → 5 ≤ a.1 ∧ 1 ≤ a.2 ∧ a.1 + a.2 ≤ 188) ∧
    (∀ b, s.2 = some b → 1 ≤ b.2 ∧ b.1 + b.2 = 188 ∧ 4 ≤ b.1) ∧
    (∀ a b, s.1 = some a → s.2 = some b → a.1 + a.2 ≤ b.1) := by
  cases haf <;> cases hp <;> simp only [splitSpec]
  · simp
  · simp
  · refine ⟨?_, ?_, ?_⟩
    · intro a; split <;> simp <;> intro h <;> subst h <;> omega
    · simp
    · simp
  · refine ⟨?_, ?_, ?_⟩
    · intro a; split <;> simp; rename_i h; intro e; subst e; simp; omega
    · intro b; split <;> simp; rename_i h; intro e; subst e; simp; omega
    · intro a b; split <;> split <;> simp; rename_i h1 h2; intro e1 e2; subst e1 e2; simp

/-! ### non-vacuity -/
example : (List.replicate 188 (0x47 : UInt8)).length = 188 := List.length_replicate ..
example : splitSpec true true 7 = (some (5, 7), some (12, 176)) := by decide
example : splitSpec true false 183 = (some (5, 183), none) := by decide

end Ts.Props.C12
