import Ts.Model.Packet
import Ts.Spec.Bits
import Ts.Lemmas.BitOps
import Ts.Gen.Consts
import Ts.Lemmas.RevC
/-!
# C12 — transport packet header fields and payload / adaptation-field split are exact

For every 188-byte packet: each fixed-header accessor of the model (byte masks and shifts, as in
`packet.rs:563-616`) equals the `uimsbf` field of ISO/IEC 13818-1 2.4.3.2 at its bit offset, and
`adaptation_field()` / `payload()` equal the table over (adaptation_field_control, length).
All results are `R.ok`: no accessor panics.

Readings and scope (review C):
* The model's `afRange` / `payloadRange` return `(offset, length)` pairs; `mkAf_slice` /
  `mkPayload_slice` show each pair denotes exactly the slice the code takes (`&buf[5..5+len]`,
  `&buf[offset..]`), and `af_bytes` / `payload_bytes` restate the split on the byte strings
  `Packet.af` / `Packet.payload` return.
* `splitSpec` (the table below) is the specification of the split; it lives in this file, not under
  `Ts/Spec/`.  Its thresholds 182 / 183 are literals of the model too (`Packet.lean:56,61`);
  `tie_af_max_model` / `tie_af_only_len` relate them to the regenerated constants behaviourally.
* `Packet::try_new` is covered (`tryNew_exact`); `Packet::new` (which *asserts* the sync byte) is
  not modelled.
* adaptation_field_control = '00' is reserved by the standard; the code (and `splitSpec`) yield
  neither an adaptation field nor a payload for it.
-/
namespace Ts.Props.C12
open Ts Ts.Packet Ts.Spec Ts.Lemmas.RevC

/-! ### ties to the constants regenerated from `/repo/src/packet.rs` -/
theorem tie_packet_size : Ts.Gen.packetSize = SIZE := by decide
theorem tie_sync_byte : Ts.Gen.syncByte = SYNC_BYTE := by decide
theorem tie_fixed_header : Ts.Gen.fixedHeaderSize = FIXED_HEADER_SIZE := by decide
theorem tie_af_max : Ts.Gen.afMaxWithPayload = 182 := by decide
theorem tie_pid_max : Ts.Gen.pidMax = 0x1fff := by decide

/-! ### fixed header (2.4.3.2): sync 8, TEI 1, PUSI 1, priority 1, PID 13, scrambling 2, afc 2, cc 4 -/

theorem tei_exact (p : Bytes) (h : p.length = 188) : tei p = .ok (readBits p 8 1 == 1) := by
  unfold tei; rw [byteAt_ok p 1 (by omega)]
  have r := readBits_sub p 1 0 1 (by omega)
  simp only [Nat.mul_one, Nat.add_zero] at r
  rw [r]
  have := and_80 (byteD p 1) (byteD_lt p 1)
  simp only [R.ok_bind, R.pure_eq, this]

theorem pusi_exact (p : Bytes) (h : p.length = 188) : pusi p = .ok (readBits p 9 1 == 1) := by
  unfold pusi; rw [byteAt_ok p 1 (by omega)]
  have r := readBits_sub p 1 1 1 (by omega)
  simp only [Nat.mul_one] at r
  rw [r]
  have := and_40 (byteD p 1) (byteD_lt p 1)
  simp only [R.ok_bind, R.pure_eq, this]

theorem prio_exact (p : Bytes) (h : p.length = 188) : prio p = .ok (readBits p 10 1 == 1) := by
  unfold prio; rw [byteAt_ok p 1 (by omega)]
  have r := readBits_sub p 1 2 1 (by omega)
  simp only [Nat.mul_one] at r
  rw [r]
  have := and_20 (byteD p 1) (byteD_lt p 1)
  simp only [R.ok_bind, R.pure_eq, this]

theorem pid_exact (p : Bytes) (h : p.length = 188) : pid p = .ok (readBits p 11 13) := by
  unfold pid; rw [byteAt_ok p 1 (by omega), byteAt_ok p 2 (by omega)]
  have e : readBits p 11 13 = readBits p 11 5 * 2^8 + readBits p (11 + 5) 8 := readBits_add p 11 5 8
  have r1 := readBits_sub p 1 3 5 (by omega)
  have r2 := readBits_byte p 2
  simp only [Nat.mul_one] at r1
  rw [e, r1, r2]
  have m := and_1f (byteD p 1) (byteD_lt p 1)
  have b2 := byteD_lt p 2
  simp only [R.ok_bind, R.pure_eq, m, Nat.shiftLeft_eq]
  rw [or_eq_add 8 (Nat.dvd_mul_left _ _) b2]
  simp

/-- every PID the model yields is a legal 13-bit PID (`Pid` invariant) -/
theorem pid_le_max (p : Bytes) : readBits p 11 13 ≤ 0x1fff := by
  have := readBits_lt p 11 13; omega

theorem scrambling_exact (p : Bytes) (h : p.length = 188) :
    byte3 p = .ok (byteD p 3) ∧ scheme (byteD p 3) = readBits p 24 2
      ∧ isScrambled (byteD p 3) = (readBits p 24 2 != 0) := by
  refine ⟨byteAt_ok p 3 (by omega), ?_, ?_⟩
  · have r := readBits_sub p 3 0 2 (by omega)
    simp only [Nat.add_zero] at r
    rw [r]; unfold scheme
    have := shr6 (byteD p 3) (byteD_lt p 3)
    rw [this]
    have := byteD_lt p 3
    omega
  · have r := readBits_sub p 3 0 2 (by omega)
    simp only [Nat.add_zero] at r
    rw [r]; unfold isScrambled
    rw [and_c0 (byteD p 3) (byteD_lt p 3)]
    have := byteD_lt p 3
    have e : byteD p 3 / 2 ^ (8 - 0 - 2) % 2 ^ 2 = byteD p 3 / 64 := by omega
    rw [e]

/-- `scheme = none ↔ ¬ is_scrambled` -/
theorem scheme_none_iff (b3 : Nat) (h : b3 < 256) : (scheme b3 = 0) ↔ (isScrambled b3 = false) := by
  unfold scheme isScrambled
  rw [shr6 b3 h, and_c0 b3 h]
  simp

theorem afc_exact (p : Bytes) :
    hasAf (byteD p 3) = (readBits p 26 1 == 1) ∧ hasPayload (byteD p 3) = (readBits p 27 1 == 1) := by
  have r1 := readBits_sub p 3 2 1 (by omega)
  have r2 := readBits_sub p 3 3 1 (by omega)
  rw [r1, r2]
  unfold hasAf hasPayload
  rw [and_20 (byteD p 3) (byteD_lt p 3), and_10 (byteD p 3) (byteD_lt p 3)]
  constructor <;> congr 1

theorem cc_exact (p : Bytes) (h : p.length = 188) : cc p = .ok (readBits p 28 4) := by
  unfold cc; rw [byteAt_ok p 3 (by omega)]
  have r := readBits_sub p 3 4 4 (by omega)
  rw [r]
  have m := and_0f (byteD p 3) (byteD_lt p 3)
  have : byteD p 3 % 16 < 16 := Nat.mod_lt _ (by decide)
  simp only [R.ok_bind, R.pure_eq, m, assertR]
  have hlt : (byteD p 3 % 16 < 0b10000) = True := by simp; omega
  simp [hlt]

theorem cc_lt_16 (p : Bytes) : readBits p 28 4 < 16 := readBits_lt p 28 4

/-! ### adaptation field / payload split -/

/-- the split implied by `adaptation_field_control` (`haf`,`hp`) and `adaptation_field_length` `L` -/
def splitSpec (haf hp : Bool) (L : Nat) : Option (Nat × Nat) × Option (Nat × Nat) :=
  match haf, hp with
  | false, false => (none, none)
  | false, true => (none, some (4, 184))
  | true, false => (if L = 183 then some (5, 183) else none, none)
  | true, true => (if 1 ≤ L ∧ L ≤ 182 then some (5, L) else none,
                   if L ≤ 182 then some (5 + L, 183 - L) else none)

theorem mkAf_ok (p : Bytes) (h : p.length = 188) (L : Nat) (h1 : 1 ≤ L) (h2 : L ≤ 183) :
    mkAf p L = .ok (5, L) := by
  unfold mkAf ADAPTATION_FIELD_OFFSET FIXED_HEADER_SIZE
  rw [sliceR_ok p 5 L (by omega)]
  have hne : ¬ (L = 0 ∨ p.length ≤ 5) := by omega
  simp [assertR, hne]

theorem af_exact (p : Bytes) (h : p.length = 188) :
    afRange p = .ok (splitSpec (hasAf (byteD p 3)) (hasPayload (byteD p 3)) (byteD p 4)).1 := by
  unfold afRange byte3 afLen
  rw [byteAt_ok p 3 (by omega)]
  simp only [R.ok_bind]
  cases haf : hasAf (byteD p 3) <;> cases hp : hasPayload (byteD p 3) <;> simp only [splitSpec, if_true, if_false, Bool.false_eq_true, R.pure_eq]
  · rw [byteAt_ok p 4 (by omega)]
    simp only [R.ok_bind, SIZE, ADAPTATION_FIELD_OFFSET, FIXED_HEADER_SIZE]
    by_cases hl : byteD p 4 = 183
    · simp [hl, mkAf_ok p h 183 (by omega) (by omega)]
    · have : (byteD p 4 != 188 - (4 + 1)) = true := by simp; omega
      simp [this, hl]
  · rw [byteAt_ok p 4 (by omega)]
    simp only [R.ok_bind]
    by_cases h1 : byteD p 4 > 182
    · have : ¬ (1 ≤ byteD p 4 ∧ byteD p 4 ≤ 182) := by omega
      simp [h1, this]
    · by_cases h0 : byteD p 4 = 0
      · simp [h0]
      · have hh : (1 ≤ byteD p 4 ∧ byteD p 4 ≤ 182) := by omega
        have hb : (byteD p 4 == 0) = false := by simp [h0]
        simp only [h1, if_false, hb, Bool.false_eq_true, hh, and_self, if_true]
        rw [mkAf_ok p h _ (by omega) (by omega)]
        rfl

theorem payload_exact (p : Bytes) (h : p.length = 188) :
    payloadRange p = .ok (splitSpec (hasAf (byteD p 3)) (hasPayload (byteD p 3)) (byteD p 4)).2 := by
  unfold payloadRange mkPayload contentOffset byte3 afLen
  rw [byteAt_ok p 3 (by omega)]
  simp only [R.ok_bind]
  cases haf : hasAf (byteD p 3) <;> cases hp : hasPayload (byteD p 3) <;> simp only [splitSpec, if_true, if_false, Bool.false_eq_true, R.pure_eq, R.ok_bind]
  · simp [FIXED_HEADER_SIZE, h, sliceFrom_ok p 4 (by omega)]
  · rw [byteAt_ok p 4 (by omega)]
    simp only [R.ok_bind, ADAPTATION_FIELD_OFFSET, FIXED_HEADER_SIZE, h]
    by_cases h1 : byteD p 4 ≤ 182
    · have e1 : (4 + 1 + byteD p 4 == 188) = false := by simp; omega
      have e2 : ¬ (4 + 1 + byteD p 4 > 188) := by omega
      simp only [e1, Bool.false_eq_true, if_false, e2, h1, if_true]
      rw [sliceFrom_ok p _ (by omega)]
      simp only [R.ok_bind]
      congr 3 <;> omega
    · by_cases h2 : byteD p 4 = 183
      · simp [h2]
      · have e1 : (4 + 1 + byteD p 4 == 188) = false := by simp; omega
        have e2 : (4 + 1 + byteD p 4 > 188) := by omega
        simp [e1, e2, h1]

/-- soundness of the split: ranges lie inside the packet, are disjoint, and a payload is never
empty and ends at the packet's last byte -/
theorem split_sound (haf hp : Bool) (L : Nat) :
    let s := splitSpec haf hp L
    (∀ a, s.1 = some a → 5 ≤ a.1 ∧ 1 ≤ a.2 ∧ a.1 + a.2 ≤ 188) ∧
    (∀ b, s.2 = some b → 1 ≤ b.2 ∧ b.1 + b.2 = 188 ∧ 4 ≤ b.1) ∧
    (∀ a b, s.1 = some a → s.2 = some b → a.1 + a.2 ≤ b.1) := by
  cases haf <;> cases hp <;> simp only [splitSpec]
  · simp
  · simp
  · refine ⟨?_, ?_, ?_⟩
    · intro a; split <;> simp <;> intro h <;> subst h <;> omega
    · simp
    · simp
  · refine ⟨?_, ?_, ?_⟩
    · intro a; split <;> simp; rename_i h; intro e; subst e; simp; omega
    · intro b; split <;> simp; rename_i h; intro e; subst e; simp; omega
    · intro a b; split <;> split <;> simp; rename_i h1 h2; intro e1 e2; subst e1 e2; simp


/-- adjacency (sharper than `split_sound`'s `≤`): when both parts exist the field is bytes
`5 .. 5+L` and the payload starts exactly where it ends and runs to byte 188; a field without payload
is bytes `5 .. 188`; a payload without field starts at byte 4 (no adaptation field) or at byte 5
(adaptation field of length 0, i.e. only its length byte) -/
theorem split_adjacent (haf hp : Bool) (L : Nat) :
    let s := splitSpec haf hp L
    (∀ a b, s.1 = some a → s.2 = some b → a.1 = 5 ∧ a.2 = L ∧ b.1 = a.1 + a.2 ∧ b.1 + b.2 = 188) ∧
    (∀ a, s.1 = some a → s.2 = none → a = (5, 183) ∧ a.1 + a.2 = 188) ∧
    (∀ b, s.1 = none → s.2 = some b → (b = (4, 184) ∧ haf = false) ∨ (b = (5, 183) ∧ haf = true ∧ L = 0)) := by
  cases haf <;> cases hp <;> simp only [splitSpec]
  · simp
  · simp
  · refine ⟨by simp, ?_, by simp⟩
    intro a; split <;> simp; intro e; subst e; simp
  · refine ⟨?_, ?_, ?_⟩
    · intro a b; split <;> split <;> simp
      intro e1 e2; subst e1 e2; simp; omega
    · intro a; split <;> split <;> simp
      omega
    · intro b; split <;> split <;> simp
      rename_i h1 h2
      intro e; subst e
      have : L = 0 := by omega
      subst this; simp

/-! ### `Packet::try_new` -/

/-- `Packet::try_new` on a 188-byte buffer: no panic; `Some` exactly when sync_byte (bits 0..8) is
0x47.  (`Packet::new`, which asserts the sync byte instead, is not modelled.) -/
theorem tryNew_exact (buf : Bytes) (h : buf.length = 188) :
    tryNew buf = .ok (if readBits buf 0 8 = 0x47 then some buf else none) := by
  unfold tryNew assertR SIZE SYNC_BYTE
  have r := readBits_byte buf 0
  simp only [Nat.mul_zero] at r
  rw [r, byteAt_ok buf 0 (by omega)]
  by_cases hs : byteD buf 0 = 0x47 <;> simp [h, hs]

/-- any other length trips `assert_eq!(buf.len(), Self::SIZE)` -/
theorem tryNew_wrong_length (buf : Bytes) (h : buf.length ≠ 188) :
    tryNew buf = .panic "assert_eq!(buf.len(), Self::SIZE)" := by
  unfold tryNew assertR SIZE
  simp [h]

/-! ### the ranges are the slices the code takes

The model's `mkAf` / `mkPayload` evaluate the code's slice expression (for its panics) and then
return an `(offset, length)` pair written by hand.  These two theorems (any `p`, any length) show
the pair denotes exactly that slice. -/

/-- `mk_af`: whenever it returns a range `r`, `r = (5, len)`, the bytes of `r` are the slice
`&buf[5..5+len]` the code passes to `AdaptationField::new`, and they are non-empty -/
theorem mkAf_slice (p : Bytes) (L : Nat) (r : Nat × Nat) (h : mkAf p L = .ok r) :
    r = (5, L) ∧ sliceR p 5 (5 + L) = .ok (rangeBytes p r) ∧ rangeBytes p r ≠ [] := by
  unfold mkAf ADAPTATION_FIELD_OFFSET FIXED_HEADER_SIZE at h
  cases hs : sliceR p (4 + 1) (4 + 1 + L) with
  | panic s => rw [hs] at h; cases h
  | ok s =>
    rw [hs] at h
    simp only [R.ok_bind] at h
    have hs' : s = (p.drop 5).take L := by
      unfold sliceR at hs
      split at hs
      · cases hs
      · split at hs
        · cases hs
        · injection hs with hs; rw [← hs]; congr 1; omega
    cases he : s.isEmpty with
    | true => rw [he] at h; cases h
    | false =>
      rw [he] at h
      simp only [assertR, Bool.not_false, if_true, R.ok_bind, R.pure_eq] at h
      injection h with h
      subst h
      refine ⟨rfl, ?_, ?_⟩
      · rw [hs']; rfl
      · show (p.drop 5).take L ≠ []
        rw [← hs']; intro e; rw [e] at he; cases he

/-- `mk_payload`: whenever it returns a range `r`, `r = (offset, len - offset)` for the
`content_offset()` the code computed, `offset < len`, and the bytes of `r` are the slice
`&buf[offset..]` the code returns -/
theorem mkPayload_slice (p : Bytes) (r : Nat × Nat) (h : mkPayload p = .ok (some r)) :
    ∃ off, contentOffset p = .ok off ∧ off < p.length ∧ r = (off, p.length - off)
      ∧ sliceFrom p off = .ok (rangeBytes p r) ∧ rangeBytes p r = p.drop off := by
  unfold mkPayload at h
  cases ho : contentOffset p with
  | panic s => rw [ho] at h; cases h
  | ok off =>
    rw [ho] at h
    simp only [R.ok_bind] at h
    by_cases h1 : off = p.length
    · simp [h1] at h
    · by_cases h2 : off > p.length
      · have : (off == p.length) = false := by simp [h1]
        simp [this, h2] at h
      · have e1 : (off == p.length) = false := by simp [h1]
        simp only [e1, Bool.false_eq_true, if_false, h2] at h
        rw [sliceFrom_ok p off (by omega)] at h
        simp only [R.ok_bind, R.pure_eq] at h
        injection h with h; injection h with h
        subst h
        have e : rangeBytes p (off, p.length - off) = p.drop off := by
          unfold rangeBytes
          exact List.take_of_length_le (by simp)
        exact ⟨off, rfl, by omega, rfl, by rw [e]; exact sliceFrom_ok p off (by omega), e⟩

/-- the split on byte strings: the table `splitSpec` with the bytes each range denotes -/
def splitBytes (p : Bytes) (haf hp : Bool) (L : Nat) : Option Bytes × Option Bytes :=
  match haf, hp with
  | false, false => (none, none)
  | false, true => (none, some (p.drop 4))
  | true, false => (if L = 183 then some ((p.drop 5).take L) else none, none)
  | true, true => (if 1 ≤ L ∧ L ≤ 182 then some ((p.drop 5).take L) else none,
                   if L ≤ 182 then some (p.drop (5 + L)) else none)

/-- `Packet::adaptation_field()` as bytes, for every 188-byte packet: the `L =
adaptation_field_length` bytes that follow the length byte (byte 4), when the table allows a field -/
theorem af_bytes (p : Bytes) (h : p.length = 188) :
    Packet.af p = .ok (splitBytes p (hasAf (byteD p 3)) (hasPayload (byteD p 3)) (byteD p 4)).1 := by
  unfold Packet.af
  rw [af_exact p h]
  cases hasAf (byteD p 3) <;> cases hasPayload (byteD p 3) <;>
    simp only [splitSpec, splitBytes, R.ok_bind, R.pure_eq]
  · by_cases hl : byteD p 4 = 183
    · simp only [hl, if_true]; rfl
    · simp only [hl, if_false]
  · by_cases hl : 1 ≤ byteD p 4 ∧ byteD p 4 ≤ 182
    · simp only [hl, and_self, if_true]; rfl
    · simp only [hl, if_false]

/-- `Packet::payload()` as bytes, for every 188-byte packet: everything from the content offset
(4, or `5 + L`) to the end of the packet, when the table allows a payload -/
theorem payload_bytes (p : Bytes) (h : p.length = 188) :
    Packet.payload p
      = .ok (splitBytes p (hasAf (byteD p 3)) (hasPayload (byteD p 3)) (byteD p 4)).2 := by
  unfold Packet.payload
  rw [payload_exact p h]
  cases hasAf (byteD p 3) <;> cases hasPayload (byteD p 3) <;>
    simp only [splitSpec, splitBytes, R.ok_bind, R.pure_eq]
  · congr 2
    unfold rangeBytes
    exact List.take_of_length_le (by simp; omega)
  · by_cases hl : byteD p 4 ≤ 182
    · simp only [hl, if_true]
      congr 2
      unfold rangeBytes
      exact List.take_of_length_le (by simp; omega)
    · simp only [hl, if_false]

/-- whatever `adaptation_field()` hands out is non-empty and has exactly
`adaptation_field_length` (1..=183) bytes: this discharges the hypothesis `buf ≠ []` of every C13
theorem for adaptation fields obtained from a packet -/
theorem af_nonempty (p : Bytes) (h : p.length = 188) (a : Bytes) (ha : Packet.af p = .ok (some a)) :
    a ≠ [] ∧ a.length = byteD p 4 ∧ 1 ≤ byteD p 4 ∧ byteD p 4 ≤ 183 := by
  rw [af_bytes p h] at ha
  injection ha with ha
  revert ha
  cases hasAf (byteD p 3) <;> cases hasPayload (byteD p 3) <;> simp only [splitBytes] <;> intro ha
  · cases ha
  · cases ha
  · by_cases hl : byteD p 4 = 183
    · simp only [hl, if_true] at ha
      injection ha with ha
      have hlen : a.length = 183 := by rw [← ha]; simp; omega
      refine ⟨?_, by rw [hlen, hl], by omega, by omega⟩
      intro e; rw [e] at hlen; cases hlen
    · simp only [hl, if_false] at ha; cases ha
  · by_cases hl : 1 ≤ byteD p 4 ∧ byteD p 4 ≤ 182
    · simp only [hl, and_self, if_true] at ha
      injection ha with ha
      have hlen : a.length = byteD p 4 := by rw [← ha]; simp; omega
      refine ⟨?_, hlen, hl.1, by omega⟩
      intro e; rw [e] at hlen; simp at hlen; omega
    · simp only [hl, if_false] at ha; cases ha

/-! ### behavioural ties of the model's literal thresholds to the regenerated constants

`afRange` compares against the literal `182` (`Packet.lean:56`) and against
`SIZE - ADAPTATION_FIELD_OFFSET`; a literal inside a definition cannot be equated with a constant
by `decide`, so the tie is stated on the behaviour: were the model's literal different from
`Ts.Gen.afMaxWithPayload`, one of the clauses below would be false at `L = 182` or `L = 183`. -/

theorem tie_af_only_len :
    Ts.Gen.packetSize - (Ts.Gen.fixedHeaderSize + 1) = 183 ∧ SIZE - ADAPTATION_FIELD_OFFSET = 183 := by
  decide

/-- for adaptation_field_control = '11': lengths above the regenerated `afMaxWithPayload` give
neither part, lengths `1 ..= afMaxWithPayload` give the field, lengths `≤ afMaxWithPayload` give
the payload `5+L .. packetSize` -/
theorem tie_af_max_model (p : Bytes) (h : p.length = 188)
    (haf : hasAf (byteD p 3) = true) (hp : hasPayload (byteD p 3) = true) :
    (byteD p 4 > Ts.Gen.afMaxWithPayload → afRange p = .ok none ∧ payloadRange p = .ok none) ∧
    (1 ≤ byteD p 4 → byteD p 4 ≤ Ts.Gen.afMaxWithPayload → afRange p = .ok (some (5, byteD p 4))) ∧
    (byteD p 4 ≤ Ts.Gen.afMaxWithPayload →
      payloadRange p = .ok (some (5 + byteD p 4, Ts.Gen.packetSize - 5 - byteD p 4))) := by
  rw [af_exact p h, payload_exact p h, haf, hp]
  simp only [splitSpec, Ts.Gen.afMaxWithPayload, Ts.Gen.packetSize]
  refine ⟨?_, ?_, ?_⟩
  · intro hl
    have h2 : ¬ (byteD p 4 ≤ 182) := by omega
    simp [h2]
  · intro h1 h2; simp [h2]; omega
  · intro h2; simp only [h2, if_true]

/-! ### non-vacuity -/
example : (List.replicate 188 (0x47 : UInt8)).length = 188 := List.length_replicate ..
example : splitSpec true true 7 = (some (5, 7), some (12, 176)) := by decide
example : splitSpec true false 183 = (some (5, 183), none) := by decide

/-! #### the MODEL evaluated on concrete 188-byte packets (kernel evaluation), one group per
adaptation_field_control value, with the boundary lengths 0, 1, 182, 183, 184 -/

/-- a 188-byte packet whose byte `i` has the value `i` for `i ≥ 5` (so that a returned byte string
shows where it was taken from): sync 0x47, PUSI set, PID 0x0100, then byte 3 (scrambling /
adaptation_field_control / continuity counter) and byte 4 (adaptation_field_length) as given -/
def exPkt (b3 b4 : UInt8) : Bytes :=
  [0x47, 0x41, 0x00, b3, b4] ++ (List.range 183).map (fun i => UInt8.ofNat (i + 5))

example : (exPkt 0x30 7).length = 188 := by decide +kernel
example : tryNew (exPkt 0x30 7) = .ok (some (exPkt 0x30 7)) := ok_of_okVal (by decide +kernel)
/-- a wrong sync byte is refused without panic; a wrong length panics -/
example : tryNew (0x48 :: (exPkt 0x30 7).drop 1) = .ok none := ok_of_okVal (by decide +kernel)
example : tryNew [0x47, 0x00] = .panic "assert_eq!(buf.len(), Self::SIZE)" := by rfl

/-! adaptation_field_control = '00' (reserved): neither part -/
example : afRange (exPkt 0x00 7) = .ok none ∧ payloadRange (exPkt 0x00 7) = .ok none := ⟨ok_of_okVal (by decide +kernel), ok_of_okVal (by decide +kernel)⟩
/-! '01' payload only: bytes 4..188 (byte 4 is payload, not a length) -/
example : afRange (exPkt 0x10 7) = .ok none ∧ payloadRange (exPkt 0x10 7) = .ok (some (4, 184)) :=
  ⟨ok_of_okVal (by decide +kernel), ok_of_okVal (by decide +kernel)⟩
example : Packet.payload (exPkt 0x10 7) = .ok (some ((exPkt 0x10 7).drop 4)) := ok_of_okVal (by decide +kernel)
/-! '10' adaptation field only: accepted exactly for length 183 -/
example : afRange (exPkt 0x20 183) = .ok (some (5, 183)) ∧ payloadRange (exPkt 0x20 183) = .ok none :=
  ⟨ok_of_okVal (by decide +kernel), ok_of_okVal (by decide +kernel)⟩
example : afRange (exPkt 0x20 182) = .ok none ∧ afRange (exPkt 0x20 184) = .ok none
    ∧ afRange (exPkt 0x20 0) = .ok none := ⟨ok_of_okVal (by decide +kernel), ok_of_okVal (by decide +kernel), ok_of_okVal (by decide +kernel)⟩
/-! '11' both: length 0 (no field, 183 payload bytes), 1, 7, 182 (one payload byte),
183 (neither: the field would leave no payload), 184 (neither) -/
example : afRange (exPkt 0x30 0) = .ok none ∧ payloadRange (exPkt 0x30 0) = .ok (some (5, 183)) :=
  ⟨ok_of_okVal (by decide +kernel), ok_of_okVal (by decide +kernel)⟩
example : afRange (exPkt 0x30 1) = .ok (some (5, 1)) ∧ payloadRange (exPkt 0x30 1) = .ok (some (6, 182)) :=
  ⟨ok_of_okVal (by decide +kernel), ok_of_okVal (by decide +kernel)⟩
example : afRange (exPkt 0x30 7) = .ok (some (5, 7)) ∧ payloadRange (exPkt 0x30 7) = .ok (some (12, 176)) :=
  ⟨ok_of_okVal (by decide +kernel), ok_of_okVal (by decide +kernel)⟩
example : afRange (exPkt 0x30 182) = .ok (some (5, 182))
    ∧ payloadRange (exPkt 0x30 182) = .ok (some (187, 1)) := ⟨ok_of_okVal (by decide +kernel), ok_of_okVal (by decide +kernel)⟩
example : afRange (exPkt 0x30 183) = .ok none ∧ payloadRange (exPkt 0x30 183) = .ok none :=
  ⟨ok_of_okVal (by decide +kernel), ok_of_okVal (by decide +kernel)⟩
example : afRange (exPkt 0x30 184) = .ok none ∧ payloadRange (exPkt 0x30 184) = .ok none :=
  ⟨ok_of_okVal (by decide +kernel), ok_of_okVal (by decide +kernel)⟩
/-! the bytes: the field is bytes 5..5+L, the payload everything after it -/
example : Packet.af (exPkt 0x30 3) = .ok (some [5, 6, 7]) := ok_of_okVal (by decide +kernel)
example : Packet.payload (exPkt 0x30 180) = .ok (some [185, 186, 187]) := ok_of_okVal (by decide +kernel)
example : Packet.payload (exPkt 0x30 182) = .ok (some [187]) := ok_of_okVal (by decide +kernel)
/-! hypotheses of `mkAf_slice`, `mkPayload_slice`, `af_nonempty`, `tie_af_max_model` are satisfiable -/
example : mkAf (exPkt 0x30 7) 7 = .ok (5, 7) ∧ mkPayload (exPkt 0x30 7) = .ok (some (12, 176)) :=
  ⟨ok_of_okVal (by decide +kernel), ok_of_okVal (by decide +kernel)⟩
example : hasAf (byteD (exPkt 0x30 7) 3) = true ∧ hasPayload (byteD (exPkt 0x30 7) 3) = true
    ∧ byteD (exPkt 0x30 7) 4 = 7 := by decide +kernel
/-! the fixed-header accessors on the same packet -/
example : pid (exPkt 0x30 7) = .ok 0x0100 ∧ pusi (exPkt 0x30 7) = .ok true ∧ tei (exPkt 0x30 7) = .ok false
    ∧ cc (exPkt 0x3A 7) = .ok 10 := ⟨ok_of_okVal (by decide +kernel), ok_of_okVal (by decide +kernel), ok_of_okVal (by decide +kernel), ok_of_okVal (by decide +kernel)⟩

/-! ### the VALUES returned for `adaptation_field_control` and `transport_scrambling_control`

`Packet::adaptation_control()` / `transport_scrambling_control()` return small wrapper values that
derive `PartialEq` (and, for the former, `Debug`).  On the pinned tree they stored the WHOLE header
byte 3, so two packets with the same field bits but a different continuity counter (or the other
field) returned values that compared unequal and printed differently: the returned value did not
carry "exactly the bits assigned to that field".  Found by the second adversarial review, repaired
in `/repo` (`fix:` commit, finding F11); the harness compares `==` and `Debug` across packets that
differ in the other bits of byte 3 (`pkt` op: `aceq`, `tsceq`, `acdbg`). -/

/-- the stored byte depends on the two field bits only, and determines them -/
theorem control_values_carry_only_field_bits : ∀ b : Fin 256,
    adaptationControlRepr b.val = 16 * readBits [UInt8.ofNat b.val] 2 2 ∧
    scramblingControlRepr b.val = 64 * readBits [UInt8.ofNat b.val] 0 2 ∧
    (hasAf b.val = hasAf (adaptationControlRepr b.val)) ∧
    (hasPayload b.val = hasPayload (adaptationControlRepr b.val)) ∧
    (isScrambled b.val = isScrambled (scramblingControlRepr b.val)) ∧
    (scheme b.val = scheme (scramblingControlRepr b.val)) := by decide +kernel

/-- bytes that agree on the field agree on the value (what `==` compares), whatever the
continuity counter and the other field are -/
theorem control_values_equal_iff (a b : Fin 256) :
    (adaptationControlRepr a.val = adaptationControlRepr b.val ↔
      readBits [UInt8.ofNat a.val] 2 2 = readBits [UInt8.ofNat b.val] 2 2) ∧
    (scramblingControlRepr a.val = scramblingControlRepr b.val ↔
      readBits [UInt8.ofNat a.val] 0 2 = readBits [UInt8.ofNat b.val] 0 2) := by
  have ha := control_values_carry_only_field_bits a
  have hb := control_values_carry_only_field_bits b
  rw [ha.1, hb.1, ha.2.1, hb.2.1]
  constructor <;> constructor <;> intro h <;> omega

example : adaptationControlRepr 0x32 = 0x30 ∧ adaptationControlRepr 0xFD = 0x30
    ∧ scramblingControlRepr 0x9A = 0x80 := by decide

end Ts.Props.C12
