import Ts.Lemmas.C01c
/-!
# C01 — demultiplexing never panics

For any byte sequence, cut in any way (packet-aligned or not) across successive `push` calls,
demultiplexing with the library's PAT, PMT and PES handling (`App.runApp`: the dispatcher of
`Demux`, `Psi.consume Psi.table` + CRC layer + `patSection` / `pmtSection`, `PesFilter.consume`)
returns `R.ok`, and so does every accessor / `Debug` rendering of every packet, adaptation field,
section, table entry, descriptor and PES header handed to application callbacks along the way
(`touch := true`: `touchPacket`, `touchAf`, `touchPesHeader`, `touchParsed`, `touchPmt`,
`touchDescs`).  The model transcribes every Rust operation that can unwind (index, slice, `unwrap`,
`assert!`, asserting constructors, `usize` underflow, checked arithmetic, `match … => panic!`) as a
checked operation of the panic monad `R`, so `= R.ok _` is panic freedom.

Holds for EVERY configuration: `bypassCrc` (the `cfg(fuzzing)` build, where section bodies are not
CRC-protected) true or false, `touch` true or false, any recorder script of filter insertions /
removals.

Structure: handler invariant `HInv` → `consume_total` (per packet, per handler) → table invariant
`TabInv` → `push_total` (per `push`, any byte string) → `no_panic`.

The dispatcher's own `debug_assert!(changeset.is_empty())` is modelled structurally: `consume`
RETURNS the queued changes and `applyChanges` consumes the whole list.

Partial (as fixed in DESIGN.md): the `Debug` half covers the accessor calls the `Debug` impls make;
`std::fmt` machinery and the allocator are not modelled.
-/
namespace Ts.Props.C01
open Ts Ts.Demux Ts.App Ts.Psi Ts.Spec.SectionMux Ts.Lemmas.C03 Ts.Lemmas.C01

/-! ### 1. the handler invariant -/

/-- `HInv`, spelled out: PAT / PMT handlers hold a section-reassembly state that satisfies the
buffer invariant of C03 (`PsiInvFull .syntax`) and whose buffered header (if any) has the
`section_syntax_indicator` set; PES filters (C08: total in every state, any `cc`) and recorders
need nothing -/
theorem hinv_iff :
    (∀ s reg, HInv (.pat s reg) ↔ (PsiInvFull .syntax s ∧ ∀ n, s.remaining = some n → hdrSyn s.buf = true)) ∧
    (∀ pid prog s reg, HInv (.pmt pid prog s reg) ↔
      (PsiInvFull .syntax s ∧ ∀ n, s.remaining = some n → hdrSyn s.buf = true)) ∧
    (∀ tag f, HInv (.pes tag f)) ∧ (∀ tag, HInv (.recorder tag)) :=
  ⟨fun _ _ => Iff.rfl, fun _ _ _ _ => Iff.rfl, fun _ _ => trivial, fun _ => trivial⟩

theorem hinv_psi :
    (∀ s reg, HInv (.pat s reg) → PsiInvFull .syntax s) ∧
    (∀ pid prog s reg, HInv (.pmt pid prog s reg) → PsiInvFull .syntax s) :=
  ⟨fun _ _ h => h.1, fun _ _ _ _ h => h.1⟩

/-- PAT / PMT section reassembly is total on ARBITRARY 188-byte packets under the invariant, keeps
it, and every section handed to the CRC layer has the syntax bit set and 3..1024 bytes — which
discharges `assert!(header.section_syntax_indicator)` inside `crcPass` (and the hypotheses of C04's
gate theorems) -/
theorem deliveries_syntax (s : St) (hs : PsiInvFull .syntax s)
    (hy : ∀ n, s.remaining = some n → hdrSyn s.buf = true) (p : Bytes) (hp : p.length = 188) :
    ∃ s' ds, Psi.consume Psi.table s p = .ok (s', ds) ∧ PsiInvFull .syntax s'
      ∧ (∀ n, s'.remaining = some n → hdrSyn s'.buf = true)
      ∧ ds.length ≤ 2
      ∧ ∀ d ∈ ds, byteD d.bytes 1 &&& 0x80 ≠ 0 ∧ 3 ≤ d.bytes.length ∧ d.bytes.length ≤ 1024 :=
  consume_table_total s hs hy p hp

/-- the CRC layer never panics on such a section, in EITHER build, and passes only sections of at
least 12 bytes -/
theorem crc_layer_total (bypassCrc : Bool) (data : Bytes) (hs : byteD data 1 &&& 0x80 ≠ 0)
    (hl : 3 ≤ data.length) :
    ∃ b, Psi.crcPass bypassCrc data = .ok b ∧ (b = true → 12 ≤ data.length) :=
  crcPass_total bypassCrc data hs hl

/-! ### 2. every accessor and `Debug` rendering -/

/-- "touch everything" returns `.ok ()`:
* a transport packet (any 188 bytes): header accessors, adaptation field, payload, PES header;
* an adaptation field (any non-empty bytes — what `Packet::adaptation_field` hands out): all 11
  accessors, the extension's accessors;
* a PES header (any ≥ 6 bytes — what `PesHeader::from_bytes` accepts): `stream_id`,
  `pes_packet_length`, `contents`, and every accessor of accepted parsed contents;
* accepted parsed contents: in particular `u64::from(ClockRef)` (`base * 300 + ext < 2^64`) and
  the `u32` multiplication of `EsRate::bytes_per_second` (`v * 50 < 2^32` as `v < 2^22`) never
  overflow;
* a PMT body accepted by `PmtSection::from_bytes`: `pcr_pid`, descriptors, streams + descriptors;
* a descriptor loop (EVERY byte string): iteration and the typed accessors of each item. -/
theorem touch_total :
    (∀ p : Bytes, p.length = 188 → touchPacket p = .ok ()) ∧
    (∀ af : Bytes, af ≠ [] → touchAf af = .ok ()) ∧
    (∀ h : Bytes, 6 ≤ h.length → touchPesHeader h = .ok ()) ∧
    (∀ buf h : Bytes, Pes.headerFromBytes buf = .ok (some h) → touchPesHeader h = .ok ()) ∧
    (∀ c : Bytes, Pes.parsedFromBytes c = .ok (some c) → touchParsed c = .ok ()) ∧
    (∀ body sect : Bytes, Tables.pmtFromBytes body = .ok (some sect) → touchPmt sect = .ok ()) ∧
    (∀ b : Bytes, touchDescs b = .ok ()) := by
  refine ⟨touchPacket_ok, touchAf_ok, touchPesHeader_ok, ?_, ?_, touchPmt_ok', touchDescs_ok⟩
  · intro buf h hh
    rw [Props.C14.header_accept_iff] at hh
    by_cases hc : 6 ≤ buf.length ∧ Spec.readBits buf 0 24 = 1
    · rw [if_pos hc] at hh; cases hh; exact touchPesHeader_ok _ hc.1
    · rw [if_neg hc] at hh; cases hh
  · intro c hc
    exact touchParsed_ok c (Props.C14.pes_fields_exact_accepted c hc).1

/-- the two arithmetic facts behind `touchParsed`, extracted: whatever `escr()` / `es_rate()`
return satisfies the bound that makes the conversion / multiplication safe -/
theorem parsed_arith (c : Bytes) (h3 : 3 ≤ c.length) :
    (∀ cr, Pes.escr c = .ok (.ok cr) → ∃ v, Time.crefTo27MHz cr = .ok v ∧ v < 2 ^ 64) ∧
    (∀ v, Pes.esRate c = .ok (.ok v) → v * 50 < 2 ^ 32) := by
  obtain ⟨_, _, _, _, a5, a6, _⟩ := Props.C14.pes_fields_exact_partial c h3
  constructor
  · intro cr h
    rw [a5] at h; injection h with h
    obtain ⟨hb, he⟩ := escr_bounds c cr h
    exact ⟨_, crefTo27MHz_ok cr hb he, by omega⟩
  · intro v h
    rw [a6] at h; injection h with h
    have := esRate_bound c v h
    omega

/-! ### 3. PAT / PMT section handlers on arbitrary section bytes -/

/-- For every context (so: `touch` true or false, either build), registered set and EVERY section
of at least 12 bytes (what passes the CRC layer — with `bypassCrc` the body is ARBITRARY):
`PatProcessor::section` and `PmtProcessor::section` return without panicking (`data.len() - 4`
does not underflow, `&data[8..len-4]` is in range, all `Pid::new` assertions hold, `Pid::new` on
the `outdated` PIDs holds), and every handler they queue satisfies `HInv`. -/
theorem section_handlers_total (c : Ctx) (reg : List Nat) (data : Bytes) (h12 : 12 ≤ data.length) :
    (∃ c' reg' chg, patSection c reg data = .ok (c', reg', chg)
        ∧ ∀ p g, Change.insert p g ∈ chg → HInv g) ∧
    (∀ pid, ∃ c' reg' chg, pmtSection c pid reg data = .ok (c', reg', chg)
        ∧ ∀ p g, Change.insert p g ∈ chg → HInv g) := by
  constructor
  · obtain ⟨c', reg', chg, h1, h2⟩ := patSection_total c reg data h12
    exact ⟨c', reg', chg, h1, fun p g hm => h2 _ hm⟩
  · intro pid
    obtain ⟨c', reg', chg, h1, h2⟩ := pmtSection_total c pid reg data h12
    exact ⟨c', reg', chg, h1, fun p g hm => h2 _ hm⟩

/-- the form with the upper bound of reassembled sections (`≤ 1024`, C03), as a corollary -/
theorem section_handlers_total_bounded (c : Ctx) (reg : List Nat) (data : Bytes)
    (h12 : 12 ≤ data.length) (_h1024 : data.length ≤ 1024) :
    (∃ r, patSection c reg data = .ok r) ∧ (∀ pid, ∃ r, pmtSection c pid reg data = .ok r) := by
  obtain ⟨⟨c', reg', chg, h1, _⟩, h2⟩ := section_handlers_total c reg data h12
  refine ⟨⟨_, h1⟩, fun pid => ?_⟩
  obtain ⟨c', reg', chg, h3, _⟩ := h2 pid
  exact ⟨_, h3⟩

/-! ### 4. one handler, one packet -/

/-- every handler satisfying the invariant consumes EVERY 188-byte packet without panicking; its
new state, and every handler queued for insertion (by PAT / PMT processing or by the recorder
script), satisfy the invariant -/
theorem consume_total : ∀ (h : Handler) (c : Ctx) (pk : Pk), HInv h → pk.bytes.length = 188 →
    ∃ h' c' chg, App.consume h c pk = .ok (h', c', chg) ∧ HInv h'
      ∧ ∀ p g, Change.insert p g ∈ chg → HInv g := by
  intro h c pk hi hp
  obtain ⟨h', c', chg, h1, h2, h3⟩ := Lemmas.C01.consume_total h c pk hi hp
  exact ⟨h', c', chg, h1, h2, fun p g hm => h3 _ hm⟩

/-- `do_construct` is total (it is a pure function) and yields handlers satisfying the invariant:
fresh PAT / PMT handlers have the empty reassembly state -/
theorem construct_total (c : Ctx) (req : Req) : HInv (construct c req).1 := construct_hinv c req

theorem sem_construct_total (c : Ctx) (pid : Nat) :
    ∃ h c', App.sem.construct c pid = .ok (h, c') ∧ HInv h :=
  Lemmas.C01.sem_construct_total c pid

/-! ### 5. the table invariant -/

theorem tabInv_def (t : Tab Handler) : TabInv t ↔ ∀ p h, t.get p = some h → HInv h := Iff.rfl

/-- `TabInv` is preserved by every operation the dispatcher performs on the filter table -/
theorem table_inv :
    TabInv [] ∧
    (∀ t p h, TabInv t → HInv h → TabInv (Tab.insert t p h)) ∧
    (∀ t p, TabInv t → TabInv (Tab.remove t p)) ∧
    (∀ t (cs : List (Change Handler)), TabInv t → (∀ p g, Change.insert p g ∈ cs → HInv g) →
      TabInv (applyChanges t cs)) ∧
    (∀ t c pid, TabInv t → ∃ t' c', ensure App.sem t c pid = .ok (t', c') ∧ TabInv t') := by
  refine ⟨tabInvG_nil HInv, fun t p h => tabInvG_insert HInv t p h, fun t p => tabInvG_remove HInv t p,
    ?_, fun t c pid ht => ensure_totalG App.sem HInv Lemmas.C01.sem_construct_total t c pid ht⟩
  intro t cs ht hc
  apply tabInvG_applyChanges HInv cs t ht
  intro ch hm
  cases ch with
  | insert p g => exact hc p g hm
  | remove p => trivial

/-! ### 6. `push` and the whole run -/

/-- `Demultiplex::push` on EVERY byte string `buf` — any length, packet-aligned or not
(`chunks_exact` drops the remainder), chunks with a bad sync byte skipped — returns without
panicking and keeps the table invariant -/
theorem push_total : ∀ (t : Tab Handler) (c : Ctx) (buf : Bytes) (base : Nat), TabInv t →
    ∃ t' c', Demux.push App.sem (t, c) buf base = .ok (t', c') ∧ TabInv t' :=
  fun t c buf base ht => push_totalG App.sem HInv Lemmas.C01.sem_construct_total app_hS t c buf base ht

/-- any number of successive `push` calls -/
theorem pushAll_total : ∀ (pushes : List Bytes) (t : Tab Handler) (c : Ctx) (base : Nat), TabInv t →
    ∃ t' c', Demux.pushAll App.sem (t, c) pushes base = .ok (t', c') ∧ TabInv t' :=
  fun pushes t c base ht =>
    pushAll_totalG App.sem HInv Lemmas.C01.sem_construct_total app_hS pushes t c base ht

/-- the table `Demultiplex::new` builds satisfies the invariant -/
theorem init_tabInv (cfg : App.Cfg) : TabInv (App.init cfg).1 := init_inv cfg

/-- **C01.** For every configuration (either build, callbacks touching everything or not, any
recorder script) and EVERY list of byte strings pushed in succession, the whole application run
returns without panicking. -/
theorem no_panic : ∀ (cfg : App.Cfg) (pushes : List Bytes), ∃ t c, App.runApp cfg pushes = .ok (t, c) := by
  intro cfg pushes
  obtain ⟨t, c, h, _⟩ := pushAll_total pushes (App.init cfg).1 (App.init cfg).2 0 (init_tabInv cfg)
  exact ⟨t, c, h⟩

/-- … and the final table still satisfies the invariant (so the run can be continued) -/
theorem no_panic_inv (cfg : App.Cfg) (pushes : List Bytes) :
    ∃ t c, App.runApp cfg pushes = .ok (t, c) ∧ TabInv t :=
  pushAll_total pushes (App.init cfg).1 (App.init cfg).2 0 (init_tabInv cfg)

theorem no_panic_isOk (cfg : App.Cfg) (pushes : List Bytes) : (App.runApp cfg pushes).isOk = true := by
  obtain ⟨t, c, h⟩ := no_panic cfg pushes
  rw [h]; rfl

/-! ### 7. non-vacuity -/

/-- the invariant holds of the initial table, whose PID 0 slot holds the PAT handler -/
example : TabInv (App.init {}).1 := init_tabInv {}
example : ∃ s reg, Tab.get (App.init {}).1 0 = some (Handler.pat s reg) := ⟨_, _, rfl⟩
example : HInv (.pat {} []) := construct_total { cfg := {} } (.byPid 0)
/-- a mid-section PAT state satisfying the invariant: 8 header bytes buffered (syntax bit set,
`section_length = 13`), 8 bytes owed -/
example : HInv (.pat { buf := [0x00, 0xB0, 0x0D, 0x00, 0x01, 0xC1, 0x00, 0x00], remaining := some 8 } []) := by
  refine ⟨⟨?_, ?_⟩, ?_⟩
  · intro n hn; simp only [Option.some.injEq] at hn; subst hn; decide
  · intro n hn; simp only [Option.some.injEq] at hn; subst hn; decide
  · intro n _; decide

def pad (b : Bytes) : Bytes := b ++ List.replicate (188 - b.length) 0xff

/-- PAT on PID 0: program 1 → PMT PID 0x20; the CRC bytes are garbage -/
def exPat : Bytes := pad [0x47, 0x40, 0x00, 0x10, 0x00,
  0x00, 0xB0, 0x0D, 0x00, 0x01, 0xC1, 0x00, 0x00, 0x00, 0x01, 0xE0, 0x20, 0xDE, 0xAD, 0xBE, 0xEF]
/-- PMT on PID 0x20: one H.264 stream on PID 0x21 with a truncated registration descriptor -/
def exPmt : Bytes := pad [0x47, 0x40, 0x20, 0x10, 0x00,
  0x02, 0xB0, 0x15, 0x00, 0x01, 0xC1, 0x00, 0x00, 0xE0, 0x21, 0xF0, 0x00,
  0x1B, 0xE0, 0x21, 0xF0, 0x03, 0x05, 0x01, 0xAA, 0xDE, 0xAD, 0xBE, 0xEF]
/-- PES packet start on PID 0x21 whose optional header has every flag set (C14's `exC`) -/
def exPes : Bytes := pad ([0x47, 0x40, 0x21, 0x10, 0x00, 0x00, 0x01, 0xE0, 0x00, 0x00] ++ Props.C14.exC)
/-- sync byte followed by `0xff`s: PID 0x1fff, transport_error_indicator set -/
def exJunk : Bytes := pad [0x47]
/-- five packets and an unaligned 50-byte tail -/
def exStream : Bytes := exPat ++ exPmt ++ exPes ++ exJunk ++ exJunk ++ List.replicate 50 0xff

example : exStream.length = 5 * 188 + 50 := by decide +kernel

/-- the `cfg(fuzzing)` build with callbacks touching everything: the garbage-CRC PAT and PMT are
acted on (handlers for PIDs 0x20, 0x21 and 0x1fff get registered: the table grows to 8192 slots),
the PES header is walked; evaluated in the kernel -/
example : (App.runApp { bypassCrc := true, touch := true } [exStream]).isOk = true := by decide +kernel
example : (match App.runApp { bypassCrc := true, touch := true } [exStream] with
    | .ok r => r.1.length
    | .panic _ => 0) = 8192 := by decide +kernel
/-- the normal build, hostile cutting: first 100 bytes, then the rest (so the second `push` starts
mid-packet and every chunk of it has a bad sync byte or is the dropped remainder) -/
example : (App.runApp { bypassCrc := false, touch := true }
    [exStream.take 100, exStream.drop 100]).isOk = true := by decide +kernel
/-- three junk packets and an unaligned tail of `0xff`s -/
example : (App.runApp {} [exJunk ++ exJunk ++ exJunk ++ List.replicate 77 0xff]).isOk = true := by
  decide +kernel
/-- with a recorder script: the recorder seeing packet 3 inserts a filter on PID 5 and removes the
PAT filter -/
example : (App.runApp { bypassCrc := true, touch := true, script := [(3, [.ins 5, .rem 0])] }
    [exStream, exStream]).isOk = true := by decide +kernel
/-- … all of which are instances of the theorem -/
example : (App.runApp { bypassCrc := true, touch := true, script := [(3, [.ins 5, .rem 0])] }
    [exStream, exStream]).isOk = true := no_panic_isOk _ _

end Ts.Props.C01
