import Ts.Lemmas.Demux
import Ts.Lemmas.DemuxB
import Ts.Lemmas.C06b
import Ts.Model.App
/-!
# C06 — every clean packet goes exactly once, unmodified and in order, to the handler of its PID

All theorems hold for EVERY handler semantics `sem : Sem H C`.

* `push_refines_spec`: the transcription of the two labelled loops of `Demultiplex::push`
  (`pushModel`) equals, in the panic monad `R`, the one-packet-at-a-time fold `pushSpec`
  (same result; the model panics exactly when the spec does).
* `unwrap_never_panics`: the `get(this_pid).unwrap()` panic arm is unreachable.
* `spec_step_flagged`, `spec_step_consume`, `construct_only_when_absent`: the reading of one step of
  `pushSpec` as the property.
* `interleaving_independent`: what a PID's handler sees does not depend on interleaved packets of
  other PIDs that do not redefine it.
* (added) `delivered_exactly_once_in_order`, `flagged_reach_none`, `delivered_to_registered_handler`
  (+ `_model`, `_push`): the trace-level form, through the logging wrapper `logSem` of ANY `sem`.
* (added) `interleaving_independent_along`, `…_mod_off`: interleaving independence under
  hypotheses about the two actual runs, satisfiable by the concrete application's PES slots.
* (added) "MODEL RESTRICTION" note after `push_refines_spec`.
-/
namespace Ts.Props.C06
open Ts Ts.Demux

variable {H C : Type}

/-- MAIN: the double loop of `Demultiplex::push` = the per-packet fold, for every `Sem`. -/
theorem push_refines_spec (sem : Sem H C) (tc : Tab H × C) (pks : List Pk) :
    pushModel sem tc pks = pushSpec sem tc pks :=
  pushModel_eq_pushSpec sem tc pks

/-!
### MODEL RESTRICTION (not a hypothesis of any theorem — it is built into the model's types)

In the model a handler's `consume` RETURNS the changes it queued, and
`Sem.construct : C → Nat → R (H × C)` returns a handler and a context only.  Consequently

* `construct` cannot queue changes: a `FilterChangeset` filled by the application inside
  `construct(FilterRequest::ByPid(..))` is NOT representable;
* `push`/`pushModel`/`pushSpec` take and return `(Tab H × C)` only: every `push` starts and ends
  with an EMPTY changeset.  A `FilterChangeset` left pending by the application between two calls of
  `push` (or filled before the first) is NOT representable either.

In the Rust code (`demultiplex.rs:621-674`) such a change would stay pending until a later
non-flagged packet has been consumed and could survive the end of `push`.  `push_refines_spec` and
everything below (C06), as well as C07 and C18, say NOTHING about such runs.  This is exact for the
harness application (its `construct` never touches the changeset and it never holds one across
pushes) and is a residual risk for the reading "every handler semantics": "every `sem : Sem H C`"
means every semantics expressible in this interface.
-/

/-- after lookup-or-construct the slot is occupied, so `get(this_pid).unwrap()` cannot panic -/
theorem unwrap_never_panics (sem : Sem H C) (t : Tab H) (c : C) (pid : Nat) (t' : Tab H) (c' : C)
    (h : ensure sem t c pid = .ok (t', c')) : (t'.get pid).isSome = true := by
  rw [← Tab.contains_iff_get]; exact ensure_contains sem t c pid t' c' h

/-- … hence a step of the spec (and so of the model) panics only if `construct` or `consume` do:
the `unwrap` arm of `specStep` is never the source of a panic -/
theorem spec_step_panic_sources (sem : Sem H C) (t : Tab H) (c : C) (pk : Pk) (s : String)
    (hp : specStep sem (t, c) pk = .panic s) :
    (∃ c0, sem.construct c0 pk.pid = .panic s) ∨ (∃ h c0, sem.consume h c0 pk = .panic s) := by
  rw [specStep_eq] at hp
  cases hE : ensure sem t c pk.pid with
  | panic s' =>
    left
    rw [hE] at hp
    have hs : s' = s := by injection hp
    subst hs
    by_cases hc : t.contains pk.pid = true
    · rw [ensure_of_contains sem t c pk.pid hc] at hE; cases hE
    · have hc' : t.contains pk.pid = false := by simpa using hc
      rw [ensure_of_absent sem t c pk.pid hc'] at hE
      refine ⟨c, ?_⟩
      cases hk : sem.construct c pk.pid with
      | panic s'' => rw [hk] at hE; simpa using hE
      | ok r => rw [hk] at hE; cases hE
  | ok r =>
    obtain ⟨t1, c1⟩ := r
    right
    rw [hE] at hp
    simp only [R.ok_bind] at hp
    cases hf : pk.flagged with
    | true => rw [hf] at hp; cases hp
    | false =>
      rw [hf] at hp
      simp only [Bool.false_eq_true, if_false] at hp
      have hs := unwrap_never_panics sem t c pk.pid t1 c1 hE
      obtain ⟨h, hh⟩ := Option.isSome_iff_exists.1 hs
      rw [hh] at hp
      simp only [] at hp
      refine ⟨h, c1, ?_⟩
      cases hk : sem.consume h c1 pk with
      | panic s'' => rw [hk] at hp; simpa using hp
      | ok r => rw [hk] at hp; cases hp

/-- a packet flagged with a transport error or scrambling is passed to NO handler: the step is just
the lookup-or-construct for its PID -/
theorem spec_step_flagged (sem : Sem H C) (t : Tab H) (c : C) (pk : Pk) (hf : pk.flagged = true) :
    specStep sem (t, c) pk = ensure sem t c pk.pid := by
  rw [specStep_eq]
  cases ensure sem t c pk.pid with
  | panic s => rfl
  | ok r => simp only [R.ok_bind, hf, if_true]

/-- flagged packet on a PID that already has a handler: nothing at all happens -/
theorem spec_step_flagged_known (sem : Sem H C) (t : Tab H) (c : C) (pk : Pk)
    (hf : pk.flagged = true) (hc : t.contains pk.pid = true) : specStep sem (t, c) pk = .ok (t, c) :=
  specStep_flagged_of_contains sem t c pk hc hf

/-- an unflagged packet is consumed exactly once, unmodified, by the handler `h` registered for its
PID in the table `t1` obtained by lookup-or-construct, and by no other handler: before the queued
changes are applied every slot `q ≠ pk.pid` still holds what it held before the step. -/
theorem spec_step_consume (sem : Sem H C) (t : Tab H) (c : C) (pk : Pk) (t1 : Tab H) (c1 : C)
    (hf : pk.flagged = false) (hE : ensure sem t c pk.pid = .ok (t1, c1)) :
    ∃ h, t1.get pk.pid = some h ∧
      specStep sem (t, c) pk =
        (sem.consume h c1 pk >>= fun x =>
          R.ok (applyChanges (t1.insert pk.pid x.1) x.2.2, x.2.1)) ∧
      ∀ (h' : H) (q : Nat), q ≠ pk.pid → (t1.insert pk.pid h').get q = t.get q := by
  have hs := unwrap_never_panics sem t c pk.pid t1 c1 hE
  obtain ⟨h, hh⟩ := Option.isSome_iff_exists.1 hs
  refine ⟨h, hh, ?_, ?_⟩
  · rw [specStep_eq, hE]
    simp only [R.ok_bind, hf, Bool.false_eq_true, if_false, hh]
  · intro h' q hq
    rw [Tab.get_insert_ne _ _ _ _ hq, ensure_get_ne sem t c pk.pid t1 c1 hE q hq]

/-- `construct(ByPid pid)` is requested iff the PID has no handler, and then exactly once; the
constructed handler is installed in slot `pid` and every other slot is untouched -/
theorem construct_only_when_absent (sem : Sem H C) (t : Tab H) (c : C) (pid : Nat) :
    (t.contains pid = true → ensure sem t c pid = .ok (t, c)) ∧
    (t.contains pid = false →
      ensure sem t c pid = (sem.construct c pid >>= fun r => R.ok (t.insert pid r.1, r.2))) ∧
    (∀ t' c', ensure sem t c pid = .ok (t', c') → ∀ q, q ≠ pid → t'.get q = t.get q) :=
  ⟨ensure_of_contains sem t c pid, ensure_of_absent sem t c pid,
   fun t' c' h q hq => ensure_get_ne sem t c pid t' c' h q hq⟩

/-- in stream order: the fold processes packet `k` completely before packet `k+1` -/
theorem spec_in_stream_order (sem : Sem H C) (tc : Tab H × C) (pk : Pk) (rest : List Pk) :
    pushSpec sem tc (pk :: rest) = (specStep sem tc pk >>= fun tc' => pushSpec sem tc' rest) := rfl

/-- Interleaving independence.  Hypotheses:
* H1 (`hS`, `hK`): the handlers form a family of independent state machines — what `consume`
  returns as new handler state and queued changes is a pure function `step` of (handler state,
  packet); the context may be read/modified arbitrarily otherwise (e.g. to log callbacks).
  Likewise the handler `construct` returns is a function `mk` of the PID only.
* H2 (`hN`): no packet of another PID queues a change touching PID `p`.
Conclusion: both runs succeed and the handler state finally registered for `p` after pushing `pks`
equals the one after pushing only the packets of PID `p`.  (`p` need not even have a handler
initially.)  As `H` is arbitrary it may record the consumed packets: see
`interleaving_independent_trace`. -/
theorem interleaving_independent (sem : Sem H C)
    (step : H → Pk → H × List (Change H)) (mk : Nat → H)
    (hS : ∀ h c pk, ∃ c', sem.consume h c pk = .ok ((step h pk).1, c', (step h pk).2))
    (hK : ∀ c pid, ∃ c', sem.construct c pid = .ok (mk pid, c'))
    (p : Nat)
    (hN : ∀ h pk, pk.pid ≠ p → ∀ ch ∈ (step h pk).2, ch.pid ≠ p)
    (t : Tab H) (c : C) (pks : List Pk) :
    ∃ t1 c1 t2 c2,
      pushSpec sem (t, c) pks = .ok (t1, c1) ∧
      pushSpec sem (t, c) (pks.filter (fun pk => pk.pid == p)) = .ok (t2, c2) ∧
      t1.get p = t2.get p := by
  obtain ⟨c1, h1⟩ := pushSpec_of_indep sem step mk hS hK pks t c
  obtain ⟨c2, h2⟩ := pushSpec_of_indep sem step mk hS hK (pks.filter (fun pk => pk.pid == p)) t c
  exact ⟨_, c1, _, c2, h1, h2, foldl_stepP_filter step mk p hN pks t t rfl⟩

/-- the same for the real loops (`pushModel`), by `push_refines_spec` -/
theorem interleaving_independent_model (sem : Sem H C)
    (step : H → Pk → H × List (Change H)) (mk : Nat → H)
    (hS : ∀ h c pk, ∃ c', sem.consume h c pk = .ok ((step h pk).1, c', (step h pk).2))
    (hK : ∀ c pid, ∃ c', sem.construct c pid = .ok (mk pid, c'))
    (p : Nat)
    (hN : ∀ h pk, pk.pid ≠ p → ∀ ch ∈ (step h pk).2, ch.pid ≠ p)
    (t : Tab H) (c : C) (pks : List Pk) :
    ∃ t1 c1 t2 c2,
      pushModel sem (t, c) pks = .ok (t1, c1) ∧
      pushModel sem (t, c) (pks.filter (fun pk => pk.pid == p)) = .ok (t2, c2) ∧
      t1.get p = t2.get p := by
  rw [push_refines_spec, push_refines_spec]
  exact interleaving_independent sem step mk hS hK p hN t c pks

/-- Interleaving independence including the SEQUENCE of packets consumed: instantiate the handler
type with `H × List Pk`, where the second component is the list of packets the handler has been
given so far (`step'` appends the packet; handlers created by `construct`/`insert` start with the
trace they are given).  The final (state, consumed packets) at `p` is the same in both runs. -/
theorem interleaving_independent_trace (sem : Sem (H × List Pk) C)
    (step : H → Pk → H × List (Change (H × List Pk))) (mk : Nat → H)
    (hS : ∀ h tr c pk, ∃ c', sem.consume (h, tr) c pk = .ok (((step h pk).1, tr ++ [pk]), c', (step h pk).2))
    (hK : ∀ c pid, ∃ c', sem.construct c pid = .ok ((mk pid, []), c'))
    (p : Nat)
    (hN : ∀ h pk, pk.pid ≠ p → ∀ ch ∈ (step h pk).2, ch.pid ≠ p)
    (t : Tab (H × List Pk)) (c : C) (pks : List Pk) :
    ∃ t1 c1 t2 c2,
      pushSpec sem (t, c) pks = .ok (t1, c1) ∧
      pushSpec sem (t, c) (pks.filter (fun pk => pk.pid == p)) = .ok (t2, c2) ∧
      t1.get p = t2.get p :=
  interleaving_independent sem
    (fun h pk => (((step h.1 pk).1, h.2 ++ [pk]), (step h.1 pk).2)) (fun pid => (mk pid, []))
    (fun h c pk => hS h.1 h.2 c pk) hK p (fun h pk hp => hN h.1 pk hp) t c pks

/-! ### non-vacuity: a concrete run (`exSem`: `H := Nat` counts consumed packets, `C` logs callbacks) -/

/-- PID 5 unannounced → constructed once (9005), consumes two packets in order (500, 501); the
flagged packet on PID 5 reaches no handler; the flagged packet on unannounced PID 6 only
constructs (9006). -/
example : pushModel exSem ([], []) [exPk 5 false false, exPk 5 true false, exPk 6 false true, exPk 5 false false]
    = .ok ([none, none, none, none, none, some 2, some 0], [9005, 500, 9006, 501]) := rfl

example : pushSpec exSem ([], []) [exPk 5 false false, exPk 5 true false, exPk 6 false true, exPk 5 false false]
    = .ok ([none, none, none, none, none, some 2, some 0], [9005, 500, 9006, 501]) := rfl

/-- interleaving: handler state of PID 5 with and without PID 6 traffic -/
example : (pushSpec exSem ([], []) [exPk 5 false false, exPk 6 false false, exPk 5 false false]).isOk = true
    ∧ pushSpec exSem ([], []) [exPk 5 false false, exPk 5 false false] = .ok ([none, none, none, none, none, some 2], [9005, 500, 501]) :=
  ⟨rfl, rfl⟩

/-- the hypotheses of `interleaving_independent` are satisfiable (by `exSem`, for PID 5) -/
example : ∃ (step : Nat → Pk → Nat × List (Change Nat)) (mk : Nat → Nat),
    (∀ h c pk, ∃ c', exSem.consume h c pk = .ok ((step h pk).1, c', (step h pk).2)) ∧
    (∀ c pid, ∃ c', exSem.construct c pid = .ok (mk pid, c')) ∧
    (∀ h pk, pk.pid ≠ 5 → ∀ ch ∈ (step h pk).2, ch.pid ≠ 5) := by
  refine ⟨fun h pk => (h + 1,
      if pk.pid == 1 then [.insert 2 50, .remove 1]
      else if pk.pid == 3 then [.remove 3, .insert 3 70]
      else if pk.pid == 4 then [.remove 7]
      else []), fun _ => 0, ?_, ?_, ?_⟩
  · intro h c pk; exact ⟨_, rfl⟩
  · intro c pid; exact ⟨_, rfl⟩
  · intro h pk hp ch hch
    simp only at hch
    split at hch
    · simp at hch; rcases hch with e | e <;> subst e <;> simp [Change.pid]
    · split at hch
      · simp at hch; rcases hch with e | e <;> subst e <;> simp [Change.pid]
      · split at hch
        · simp at hch; subst hch; simp [Change.pid]
        · simp at hch

/-! ## Trace-level delivery: the logging wrapper `logSem`

`logSem sem : Sem H (C × List (H × Pk))` is `sem` with a log added to the context: every call
`consume h _ pk` appends `(h, pk)` — the handler state the call was made on and the packet it was
given — and otherwise behaves as `sem.consume`; `construct` is passed through and leaves the log
alone (`logSem_consume`, `logSem_construct`).  The log therefore records EVERY `consume` call the
dispatcher makes, in the order they are made. -/

/-- what the wrapper's `consume` does -/
theorem logSem_consume (sem : Sem H C) (h : H) (c : C) (l : List (H × Pk)) (pk : Pk) :
    (logSem sem).consume h (c, l) pk =
      (sem.consume h c pk >>= fun x => R.ok (x.1, (x.2.1, l ++ [(h, pk)]), x.2.2)) := by
  show (match sem.consume h c pk with
    | .panic s => R.panic s
    | .ok (h', c', chg) => R.ok (h', (c', l ++ [(h, pk)]), chg)) = _
  cases sem.consume h c pk <;> rfl

/-- what the wrapper's `construct` does -/
theorem logSem_construct (sem : Sem H C) (c : C) (l : List (H × Pk)) (pid : Nat) :
    (logSem sem).construct (c, l) pid = (sem.construct c pid >>= fun x => R.ok (x.1, (x.2, l))) := by
  show (match sem.construct c pid with
    | .panic s => R.panic s
    | .ok (h, c') => R.ok (h, (c', l))) = _
  cases sem.construct c pid <;> rfl

/-- logging is unobservable: forgetting the log, the wrapped run IS the original run (same table,
same context, a panic in one iff the same panic in the other) -/
theorem logSem_unobservable (sem : Sem H C) (t : Tab H) (c : C) (l : List (H × Pk)) (pks : List Pk) :
    (pushSpec (logSem sem) (t, (c, l)) pks >>= fun r => R.ok (r.1, r.2.1)) = pushSpec sem (t, c) pks := by
  rw [pushSpec_logSem]
  cases pushSpec sem (t, c) pks <;> rfl

/-- every successful run has a logged counterpart (so the theorems below are about ALL successful
runs of `sem`); its log is `deliveries sem (t, c) pks` -/
theorem logged_run_of_run (sem : Sem H C) (t : Tab H) (c : C) (pks : List Pk) (t' : Tab H) (c' : C)
    (h : pushSpec sem (t, c) pks = .ok (t', c')) :
    pushSpec (logSem sem) (t, (c, [])) pks = .ok (t', (c', deliveries sem (t, c) pks)) := by
  rw [pushSpec_logSem, h]; rfl

/-- a successful logged run started with log `l`: same run without logging, log extended by
`deliveries` -/
theorem logged_run_inv (sem : Sem H C) (t : Tab H) (c : C) (l : List (H × Pk)) (pks : List Pk)
    (t' : Tab H) (c' : C) (log : List (H × Pk))
    (h : pushSpec (logSem sem) (t, (c, l)) pks = .ok (t', (c', log))) :
    pushSpec sem (t, c) pks = .ok (t', c') ∧ log = l ++ deliveries sem (t, c) pks := by
  rw [pushSpec_logSem] at h
  cases hr : pushSpec sem (t, c) pks with
  | panic s => rw [hr] at h; cases h
  | ok r =>
    obtain ⟨t1, c1⟩ := r
    rw [hr] at h
    simp only [R.ok_bind] at h
    cases h
    exact ⟨rfl, rfl⟩

/-- **MAIN (trace level).**  For EVERY handler semantics `sem`, every initial table and context and
every packet list: if the logged run succeeds with log `log`, then the packets handed to `consume`
— all handlers together, in call order — are EXACTLY the non-flagged packets of the input, each
once, unmodified, in stream order; and the run without logging succeeds with the same table and
context.  (Hypothesis: the run does not panic; by `logged_run_of_run` every successful run of `sem`
is covered.  Which handler each packet went to: `delivered_to_registered_handler`.) -/
theorem delivered_exactly_once_in_order (sem : Sem H C) (t : Tab H) (c : C) (pks : List Pk)
    (t' : Tab H) (c' : C) (log : List (H × Pk))
    (h : pushSpec (logSem sem) (t, (c, [])) pks = .ok (t', (c', log))) :
    log.map (·.2) = pks.filter (fun pk => !pk.flagged) ∧ pushSpec sem (t, c) pks = .ok (t', c') := by
  obtain ⟨hr, hl⟩ := logged_run_inv sem t c [] pks t' c' log h
  rw [hl, List.nil_append]
  exact ⟨deliveries_packets sem pks (t, c) (t', c') hr, hr⟩

/-- packets flagged with a transport error or scrambling reach NO handler: no `consume` call of the
run was given a flagged packet -/
theorem flagged_reach_none (sem : Sem H C) (t : Tab H) (c : C) (pks : List Pk)
    (t' : Tab H) (c' : C) (log : List (H × Pk))
    (h : pushSpec (logSem sem) (t, (c, [])) pks = .ok (t', (c', log))) :
    ∀ e ∈ log, e.2.flagged = false := by
  intro e he
  have hm : e.2 ∈ log.map (·.2) := List.mem_map_of_mem he
  rw [(delivered_exactly_once_in_order sem t c pks t' c' log h).1, List.mem_filter] at hm
  simpa using hm.2

/-- **"… to the handler registered for that PID at that moment and to no other".**  Split the input
at any non-flagged packet `pk` (`pks = pre ++ pk :: post`).  Then the run over `pre` succeeds, in a
state `(tk, ck)`; lookup-or-construct for `pk.pid` in that state succeeds with a table `t1` whose
slot `pk.pid` holds a handler `hd`; and THE log entry for `pk` — entry number
`#non-flagged packets of pre`, the position of `pk` among the delivered packets — is `(hd, pk)`:
the one `consume` call for `pk` was made on the handler registered for `pk.pid` when `pk` arrived.
(If slot `pk.pid` was already occupied in `tk` then `t1 = tk`, `ensure_of_contains`; otherwise `hd`
is what `construct` returned, `construct_only_when_absent`.)  As the log has exactly one entry per
non-flagged packet (`delivered_exactly_once_in_order`), no other handler was given `pk`. -/
theorem delivered_to_registered_handler (sem : Sem H C) (t : Tab H) (c : C) (pre : List Pk) (pk : Pk)
    (post : List Pk) (t' : Tab H) (c' : C) (log : List (H × Pk)) (hf : pk.flagged = false)
    (h : pushSpec (logSem sem) (t, (c, [])) (pre ++ pk :: post) = .ok (t', (c', log))) :
    ∃ tk ck t1 c1 hd,
      pushSpec sem (t, c) pre = .ok (tk, ck) ∧
      ensure sem tk ck pk.pid = .ok (t1, c1) ∧ t1.get pk.pid = some hd ∧
      log[(pre.filter (fun q => !q.flagged)).length]? = some (hd, pk) := by
  obtain ⟨hr, hl⟩ := logged_run_inv sem t c [] _ t' c' log h
  obtain ⟨⟨tk, ck⟩, tck', hd, h1, h2, _, h4⟩ := deliveries_split sem pre pk post (t, c) (t', c') hf hr
  have hlen : (deliveries sem (t, c) pre).length = (pre.filter (fun q => !q.flagged)).length := by
    rw [← deliveries_packets sem pre (t, c) (tk, ck) h1, List.length_map]
  unfold registeredFor at h2
  cases hE : ensure sem tk ck pk.pid with
  | panic s => rw [hE] at h2; cases h2
  | ok r =>
    obtain ⟨t1, c1⟩ := r
    rw [hE] at h2
    refine ⟨tk, ck, t1, c1, hd, h1, hE, h2, ?_⟩
    rw [hl, List.nil_append, h4, ← hlen, List.getElem?_append_right (Nat.le_refl _), Nat.sub_self]
    rfl

/-- the trace-level theorem for the real double loop (`push_refines_spec`) -/
theorem delivered_exactly_once_in_order_model (sem : Sem H C) (t : Tab H) (c : C) (pks : List Pk)
    (t' : Tab H) (c' : C) (log : List (H × Pk))
    (h : pushModel (logSem sem) (t, (c, [])) pks = .ok (t', (c', log))) :
    log.map (·.2) = pks.filter (fun pk => !pk.flagged) ∧ pushModel sem (t, c) pks = .ok (t', c') := by
  rw [push_refines_spec] at h ⊢
  exact delivered_exactly_once_in_order sem t c pks t' c' log h

theorem flagged_reach_none_model (sem : Sem H C) (t : Tab H) (c : C) (pks : List Pk)
    (t' : Tab H) (c' : C) (log : List (H × Pk))
    (h : pushModel (logSem sem) (t, (c, [])) pks = .ok (t', (c', log))) :
    ∀ e ∈ log, e.2.flagged = false := by
  rw [push_refines_spec] at h
  exact flagged_reach_none sem t c pks t' c' log h

theorem delivered_to_registered_handler_model (sem : Sem H C) (t : Tab H) (c : C) (pre : List Pk)
    (pk : Pk) (post : List Pk) (t' : Tab H) (c' : C) (log : List (H × Pk)) (hf : pk.flagged = false)
    (h : pushModel (logSem sem) (t, (c, [])) (pre ++ pk :: post) = .ok (t', (c', log))) :
    ∃ tk ck t1 c1 hd,
      pushModel sem (t, c) pre = .ok (tk, ck) ∧
      ensure sem tk ck pk.pid = .ok (t1, c1) ∧ t1.get pk.pid = some hd ∧
      log[(pre.filter (fun q => !q.flagged)).length]? = some (hd, pk) := by
  rw [push_refines_spec] at h
  obtain ⟨tk, ck, t1, c1, hd, h1, h2, h3, h4⟩ :=
    delivered_to_registered_handler sem t c pre pk post t' c' log hf h
  exact ⟨tk, ck, t1, c1, hd, by rw [push_refines_spec]; exact h1, h2, h3, h4⟩

/-- … and for `Demultiplex::push` on raw bytes: with `pks` the packets framed out of `buf`
(characterised byte by byte in `C07.frame_spec`), the `consume` calls of one `push` are given
exactly the non-flagged framed packets, once each, in buffer order. -/
theorem delivered_exactly_once_in_order_push (sem : Sem H C) (t : Tab H) (c : C) (buf : Bytes)
    (base : Nat) (t' : Tab H) (c' : C) (log : List (H × Pk))
    (h : push (logSem sem) (t, (c, [])) buf base = .ok (t', (c', log))) :
    ∃ pks, frame buf base = .ok pks ∧
      log.map (·.2) = pks.filter (fun pk => !pk.flagged) ∧
      (∀ e ∈ log, e.2.flagged = false) ∧
      push sem (t, c) buf base = .ok (t', c') := by
  unfold push at h ⊢
  rw [frame_eq_pure] at h ⊢
  simp only [R.ok_bind] at h ⊢
  obtain ⟨h1, h2⟩ := delivered_exactly_once_in_order_model sem t c _ t' c' log h
  exact ⟨_, rfl, h1, flagged_reach_none_model sem t c _ t' c' log h, h2⟩

/-! ### non-vacuity of the trace-level theorems (`exSem`, whose handler state counts the packets
consumed so far) -/

/-- the run of the first example above, logged: PID 5's handler is given the 1st packet in state 0
and the 4th in state 1; the flagged 2nd and 3rd packets appear nowhere -/
example : pushSpec (logSem exSem) ([], ([], []))
      [exPk 5 false false, exPk 5 true false, exPk 6 false true, exPk 5 false false]
    = .ok ([none, none, none, none, none, some 2, some 0], ([9005, 500, 9006, 501],
        [(0, exPk 5 false false), (1, exPk 5 false false)])) := rfl

/-- a handler that removes itself and inserts another (PID 1 → PID 2 in state 50), then a packet for
the inserted handler: the log shows PID 2's packet went to the handler registered by that change -/
example : pushModel (logSem exSem) ([], ([], [])) [exPk 1 false false, exPk 2 false false]
    = .ok ([none, none, some 51], ([9001, 100, 250], [(0, exPk 1 false false), (50, exPk 2 false false)])) := rfl

/-- `delivered_exactly_once_in_order` applied to this run (whose hypothesis holds by the first
example): the log's packets are the two non-flagged ones -/
example : ∀ t' c' log, pushSpec (logSem exSem) ([], ([], []))
      [exPk 5 false false, exPk 5 true false, exPk 6 false true, exPk 5 false false] = .ok (t', (c', log))
    → log.map (·.2) = [exPk 5 false false, exPk 5 false false] :=
  fun t' c' log h => (delivered_exactly_once_in_order exSem [] [] _ t' c' log h).1

/-! ## Interleaving independence under run-relative hypotheses

`interleaving_independent` above asks that `consume` be TOTAL and context-independent for every
handler state, context and packet (`hS`) and that NO handler state whatsoever, on any packet of
another PID, queue a change for `p` (`hN`).  Both are false for the concrete application `App.sem`
(a PAT handler in a non-invariant state panics; what a PAT/PMT handler queues depends on the
context's `bypassCrc` and `nextTag`; a recorder with a suitable script queues an insert for any
PID).  The versions below only speak about the two runs that actually happen. -/

/-- **Interleaving independence, run-relative.**  Two runs of the per-packet fold, from possibly
different tables and contexts, over possibly different packet lists `xs`, `ys`.  Hypotheses:
* `hg`: slot `p` holds the same content in both initial tables;
* `hown`: the packets of PID `p` are the same in both lists (same `Pk` values — including the
  stream offset `off` — in the same order; for offsets see `…_mod_off`);
* `hK1`, `hK2` (`OthersKeep`, a predicate on the ACTUAL run, defined by recursion along it): in each
  run, no step on a packet of another PID changes slot `p`;
* `hM` (`OwnMeets`, likewise on the first run): whenever a packet of PID `p` arrives, slot `p` is
  occupied (so `construct` is not needed), by a handler satisfying `P` if the packet is not flagged;
* `hP`: for handler states satisfying `P` (chosen by the user: e.g. exactly the states met), the
  new handler state and the queued changes returned by `consume` on a non-flagged packet of PID `p`
  do not depend on the context (`CtxIrrelevant`; the returned context may differ);
* `hr1`, `hr2`: both runs succeed.
Conclusion: slot `p` holds the same content after both runs.

For the concrete application: a PES slot satisfies `hP` with `P := (isPesHandler · = true)`
(`pes_ctxIrrelevant`; see the example below, and `C02Trace.projection_independent_of_interleaving`
for the observed callbacks).  Recorder, PAT and PMT slots do NOT satisfy `hP` as stated for all
contexts (script / `bypassCrc` / `nextTag` are read from the context), so nothing is claimed for
them.  The conclusion is about the handler STATE in slot `p`, not about the callbacks received by
the context. -/
theorem interleaving_independent_along (sem : Sem H C) (p : Nat) (P : H → Prop)
    (hP : ∀ h pk, P h → pk.pid = p → pk.flagged = false → CtxIrrelevant sem h pk)
    (xs ys : List Pk) (t1 t2 t1' t2' : Tab H) (c1 c2 c1' c2' : C)
    (hg : t1.get p = t2.get p)
    (hown : xs.filter (fun pk => pk.pid == p) = ys.filter (fun pk => pk.pid == p))
    (hK1 : OthersKeep sem p (t1, c1) xs) (hK2 : OthersKeep sem p (t2, c2) ys)
    (hM : OwnMeets sem p P (t1, c1) xs)
    (hr1 : pushSpec sem (t1, c1) xs = .ok (t1', c1'))
    (hr2 : pushSpec sem (t2, c2) ys = .ok (t2', c2')) :
    t1'.get p = t2'.get p :=
  get_eq_along sem p P id (fun a b e => by cases e; rfl)
    (fun h pk pk' hh hp hf e => by cases e; exact hP h pk hh hp hf)
    xs ys (t1, c1) (t2, c2) (t1', c1') (t2', c2') hg (by simpa using hown) hK1 hK2 hM hr1 hr2

/-- the same for the real double loop -/
theorem interleaving_independent_along_model (sem : Sem H C) (p : Nat) (P : H → Prop)
    (hP : ∀ h pk, P h → pk.pid = p → pk.flagged = false → CtxIrrelevant sem h pk)
    (xs ys : List Pk) (t1 t2 t1' t2' : Tab H) (c1 c2 c1' c2' : C)
    (hg : t1.get p = t2.get p)
    (hown : xs.filter (fun pk => pk.pid == p) = ys.filter (fun pk => pk.pid == p))
    (hK1 : OthersKeep sem p (t1, c1) xs) (hK2 : OthersKeep sem p (t2, c2) ys)
    (hM : OwnMeets sem p P (t1, c1) xs)
    (hr1 : pushModel sem (t1, c1) xs = .ok (t1', c1'))
    (hr2 : pushModel sem (t2, c2) ys = .ok (t2', c2')) :
    t1'.get p = t2'.get p := by
  rw [push_refines_spec] at hr1 hr2
  exact interleaving_independent_along sem p P hP xs ys t1 t2 t1' t2' c1 c2 c1' c2' hg hown hK1 hK2 hM hr1 hr2

/-- **… modulo stream offsets.**  In one stream two different interleavings put the packets of PID
`p` at different offsets, so `hown` above cannot hold.  Here the own packets are compared with the
offset erased (`Pk.noOff`: bytes, PID and flags), and `hP` asks in addition that `consume` not look
at the offset for the handler state and the changes (`ConsumeAgrees h pk pk'` for `pk`, `pk'` equal
up to `off`).  The application's PES slots satisfy this (`pes_consumeAgrees`: the filter state
depends on the packet bytes only). -/
theorem interleaving_independent_along_mod_off (sem : Sem H C) (p : Nat) (P : H → Prop)
    (hP : ∀ h pk pk', P h → pk.pid = p → pk.flagged = false → pk.noOff = pk'.noOff →
      ConsumeAgrees sem h pk pk')
    (xs ys : List Pk) (t1 t2 t1' t2' : Tab H) (c1 c2 c1' c2' : C)
    (hg : t1.get p = t2.get p)
    (hown : (xs.filter (fun pk => pk.pid == p)).map Pk.noOff
          = (ys.filter (fun pk => pk.pid == p)).map Pk.noOff)
    (hK1 : OthersKeep sem p (t1, c1) xs) (hK2 : OthersKeep sem p (t2, c2) ys)
    (hM : OwnMeets sem p P (t1, c1) xs)
    (hr1 : pushSpec sem (t1, c1) xs = .ok (t1', c1'))
    (hr2 : pushSpec sem (t2, c2) ys = .ok (t2', c2')) :
    t1'.get p = t2'.get p :=
  get_eq_along sem p P Pk.noOff Pk.noOff_flagged hP
    xs ys (t1, c1) (t2, c2) (t1', c1') (t2', c2') hg hown hK1 hK2 hM hr1 hr2

/-- what the run-relative predicates say, one step at a time -/
theorem othersKeep_spec (sem : Sem H C) (p : Nat) (tc : Tab H × C) (pk : Pk) (pks : List Pk) :
    OthersKeep sem p tc [] ∧
    (OthersKeep sem p tc (pk :: pks) ↔
      ∀ tc', specStep sem tc pk = .ok tc' →
        (pk.pid ≠ p → tc'.1.get p = tc.1.get p) ∧ OthersKeep sem p tc' pks) := by
  refine ⟨othersKeep_nil sem p tc, ?_⟩
  constructor
  · intro h tc' e; exact othersKeep_cons sem p tc tc' pk pks e h
  · intro h
    rw [othersKeep_cons_iff]
    cases hs : specStep sem tc pk with
    | panic s => trivial
    | ok r => exact h r hs

theorem ownMeets_spec (sem : Sem H C) (p : Nat) (P : H → Prop) (tc : Tab H × C) (pk : Pk)
    (pks : List Pk) :
    OwnMeets sem p P tc [] ∧
    (OwnMeets sem p P tc (pk :: pks) ↔
      (pk.pid = p → ∃ h, tc.1.get p = some h ∧ (pk.flagged = false → P h)) ∧
      ∀ tc', specStep sem tc pk = .ok tc' → OwnMeets sem p P tc' pks) := by
  refine ⟨ownMeets_nil sem p P tc, ?_⟩
  constructor
  · intro h
    exact ⟨((ownMeets_cons_iff sem p P tc pk pks).1 h).1,
      fun tc' e => (ownMeets_cons sem p P tc tc' pk pks e h).2⟩
  · intro h
    rw [ownMeets_cons_iff]
    refine ⟨h.1, ?_⟩
    cases hs : specStep sem tc pk with
    | panic s => trivial
    | ok r => exact h.2 r hs

/-! ### non-vacuity with the CONCRETE application `App.sem`: two PES streams interleaved -/

section app_example
open Ts.App

/-- a transport packet: payload only, `pusi`, PID, continuity counter, 184 payload bytes -/
private def tp (pusi : Bool) (pid cc : Nat) (payload : Bytes) : Bytes :=
  [0x47, UInt8.ofNat ((if pusi then 0x40 else 0) + pid / 256), UInt8.ofNat (pid % 256),
   UInt8.ofNat (0x10 + cc)] ++ payload

/-- PES header `00 00 01 e0 00 00` + optional header `80 00 00` (no PTS) -/
private def pesHead : Bytes := [0, 0, 1, 0xe0, 0, 0, 0x80, 0, 0]

private def a0 : Bytes := tp true 0x21 0 (pesHead ++ List.replicate 175 0x11)
private def a1 : Bytes := tp false 0x21 1 (List.replicate 184 0x12)
private def a2 : Bytes := tp true 0x21 2 (pesHead ++ List.replicate 175 0x13)
private def b0 : Bytes := tp true 0x22 7 (pesHead ++ List.replicate 175 0x21)
private def b1 : Bytes := tp false 0x22 8 (List.replicate 184 0x22)
private def r0 : Bytes := tp false 0x30 0 (List.replicate 184 0x33)

/-- run 1: PES filters tagged 2 and 3 on PIDs 0x21 and 0x22 -/
private def tab1 : Tab Handler := List.replicate 0x21 none ++ [some (.pes 2 {}), some (.pes 3 {})]
private def ctx1 : Ctx := { cfg := {}, nextTag := 4 }
/-- run 2: only the PES filter tagged 2 on PID 0x21; another configuration, tag counter and trace -/
private def tab2 : Tab Handler := List.replicate 0x21 none ++ [some (.pes 2 {})]
private def ctx2 : Ctx := { cfg := { bypassCrc := true }, nextTag := 9, trace := [.scriptRem 5] }

/-- `A B A B A` -/
private def xs1 : List Pk :=
  [⟨a0, 0, 0x21, false, false⟩, ⟨b0, 188, 0x22, false, false⟩, ⟨a1, 376, 0x21, false, false⟩,
   ⟨b1, 564, 0x22, false, false⟩, ⟨a2, 752, 0x21, false, false⟩]
/-- same positions for PID 0x21, the other slots taken by the unannounced PID 0x30 (for which a
recorder is constructed on the fly), the second of them flagged -/
private def ys1 : List Pk :=
  [⟨a0, 0, 0x21, false, false⟩, ⟨r0, 188, 0x30, false, false⟩, ⟨a1, 376, 0x21, false, false⟩,
   ⟨r0, 564, 0x30, true, false⟩, ⟨a2, 752, 0x21, false, false⟩]
/-- another interleaving of the stream of `xs1`: `B B A A A` (PID 0x21 at other offsets) -/
private def ys2 : List Pk :=
  [⟨b0, 0, 0x22, false, false⟩, ⟨b1, 188, 0x22, false, false⟩, ⟨a0, 376, 0x21, false, false⟩,
   ⟨a1, 564, 0x21, false, false⟩, ⟨a2, 752, 0x21, false, false⟩]

private theorem pesP (h : Handler) (hh : isPesHandler h = true) : ∃ tag f, h = .pes tag f := by
  cases h with
  | pes tag f => exact ⟨tag, f, rfl⟩
  | pat s r => cases hh
  | pmt a b s r => cases hh
  | recorder t => cases hh

/-- the hypotheses of `interleaving_independent_along` are satisfiable by `App.sem`: PID 0x21,
`P := PES handler`, runs `xs1` from `(tab1, ctx1)` and `ys1` from `(tab2, ctx2)`.  All run-relative
hypotheses are established by evaluation; the conclusion is then an instance of the theorem (and is
also shown evaluated: the filter has seen counter 2 and is inside a PES packet). -/
example : ∃ t1' c1' t2' c2',
    pushSpec App.sem (tab1, ctx1) xs1 = .ok (t1', c1') ∧
    pushSpec App.sem (tab2, ctx2) ys1 = .ok (t2', c2') ∧
    OthersKeep App.sem 0x21 (tab1, ctx1) xs1 ∧ OthersKeep App.sem 0x21 (tab2, ctx2) ys1 ∧
    OwnMeets App.sem 0x21 (fun h => isPesHandler h = true) (tab1, ctx1) xs1 ∧
    t1'.get 0x21 = t2'.get 0x21 ∧ t1'.get 0x21 = some (.pes 2 ⟨some 2, .started⟩) := by
  have k1 : othersKeepB App.sem slotEqb 0x21 (tab1, ctx1) xs1 = true := by decide +kernel
  have k2 : othersKeepB App.sem slotEqb 0x21 (tab2, ctx2) ys1 = true := by decide +kernel
  have m : ownMeetsB App.sem isPesHandler 0x21 (tab1, ctx1) xs1 = true := by decide +kernel
  have hown : xs1.filter (fun pk => pk.pid == 0x21) = ys1.filter (fun pk => pk.pid == 0x21) := by
    decide +kernel
  have hg : slotEqb (tab1.get 0x21) (tab2.get 0x21) = true := by decide +kernel
  have hv : (match pushSpec App.sem (tab1, ctx1) xs1 with
      | .ok (t, _) => slotEqb (t.get 0x21) (some (.pes 2 ⟨some 2, .started⟩))
      | .panic _ => false) = true := by decide +kernel
  have ok2 : (pushSpec App.sem (tab2, ctx2) ys1).isOk = true := by decide +kernel
  have hK1 := othersKeep_of_check App.sem slotEqb slotEqb_sound 0x21 xs1 (tab1, ctx1) k1
  have hK2 := othersKeep_of_check App.sem slotEqb slotEqb_sound 0x21 ys1 (tab2, ctx2) k2
  have hM := ownMeets_of_check App.sem isPesHandler (fun h => isPesHandler h = true) (fun _ h => h)
    0x21 xs1 (tab1, ctx1) m
  cases hr1 : pushSpec App.sem (tab1, ctx1) xs1 with
  | panic s => rw [hr1] at hv; cases hv
  | ok r1 =>
    cases hr2 : pushSpec App.sem (tab2, ctx2) ys1 with
    | panic s => rw [hr2] at ok2; cases ok2
    | ok r2 =>
      obtain ⟨t1', c1'⟩ := r1
      obtain ⟨t2', c2'⟩ := r2
      rw [hr1] at hv
      refine ⟨t1', c1', t2', c2', rfl, rfl, hK1, hK2, hM, ?_, slotEqb_sound _ _ hv⟩
      refine interleaving_independent_along App.sem 0x21 (fun h => isPesHandler h = true) ?_
        xs1 ys1 tab1 tab2 t1' t2' ctx1 ctx2 c1' c2' (slotEqb_sound _ _ hg) hown hK1 hK2 hM hr1 hr2
      intro h pk hh _ _
      obtain ⟨tag, f, e⟩ := pesP h hh
      subst e
      exact pes_ctxIrrelevant tag f pk

/-- … and of `interleaving_independent_along_mod_off`: `xs1` (`A B A B A`) against `ys2`
(`B B A A A`), both from `(tab1, ctx1)`; the PID-0x21 packets sit at different offsets. -/
example : ∃ t1' c1' t2' c2',
    pushSpec App.sem (tab1, ctx1) xs1 = .ok (t1', c1') ∧
    pushSpec App.sem (tab1, ctx1) ys2 = .ok (t2', c2') ∧
    xs1.filter (fun pk => pk.pid == 0x21) ≠ ys2.filter (fun pk => pk.pid == 0x21) ∧
    t1'.get 0x21 = t2'.get 0x21 := by
  have k1 : othersKeepB App.sem slotEqb 0x21 (tab1, ctx1) xs1 = true := by decide +kernel
  have k2 : othersKeepB App.sem slotEqb 0x21 (tab1, ctx1) ys2 = true := by decide +kernel
  have m : ownMeetsB App.sem isPesHandler 0x21 (tab1, ctx1) xs1 = true := by decide +kernel
  have hown : (xs1.filter (fun pk => pk.pid == 0x21)).map Pk.noOff
      = (ys2.filter (fun pk => pk.pid == 0x21)).map Pk.noOff := by decide +kernel
  have hne : xs1.filter (fun pk => pk.pid == 0x21) ≠ ys2.filter (fun pk => pk.pid == 0x21) := by
    decide +kernel
  have ok1 : (pushSpec App.sem (tab1, ctx1) xs1).isOk = true := by decide +kernel
  have ok2 : (pushSpec App.sem (tab1, ctx1) ys2).isOk = true := by decide +kernel
  have hK1 := othersKeep_of_check App.sem slotEqb slotEqb_sound 0x21 xs1 (tab1, ctx1) k1
  have hK2 := othersKeep_of_check App.sem slotEqb slotEqb_sound 0x21 ys2 (tab1, ctx1) k2
  have hM := ownMeets_of_check App.sem isPesHandler (fun h => isPesHandler h = true) (fun _ h => h)
    0x21 xs1 (tab1, ctx1) m
  cases hr1 : pushSpec App.sem (tab1, ctx1) xs1 with
  | panic s => rw [hr1] at ok1; cases ok1
  | ok r1 =>
    cases hr2 : pushSpec App.sem (tab1, ctx1) ys2 with
    | panic s => rw [hr2] at ok2; cases ok2
    | ok r2 =>
      obtain ⟨t1', c1'⟩ := r1
      obtain ⟨t2', c2'⟩ := r2
      refine ⟨t1', c1', t2', c2', rfl, rfl, hne, ?_⟩
      refine interleaving_independent_along_mod_off App.sem 0x21 (fun h => isPesHandler h = true) ?_
        xs1 ys2 tab1 tab1 t1' t2' ctx1 ctx1 c1' c2' rfl hown hK1 hK2 hM hr1 hr2
      intro h pk pk' hh _ _ e
      obtain ⟨tag, f, e'⟩ := pesP h hh
      subst e'
      refine pes_consumeAgrees tag f pk pk' ?_
      unfold Pk.noOff at e
      injection e

end app_example

end Ts.Props.C06
