import Ts.Lemmas.Demux
import Ts.Lemmas.DemuxB
/-!
# C06 — every clean packet goes exactly once, unmodified and in order, to the handler of its PID

All theorems hold for EVERY handler semantics `sem : Sem H C`.

* `push_refines_spec`: the transcription of the two labelled loops of `Demultiplex::push`
  (`pushModel`) equals, in the panic monad `R`, the one-packet-at-a-time fold `pushSpec`
  (same result; the model panics exactly when the spec does).
* `unwrap_never_panics`: the `get(this_pid).unwrap()` panic arm is unreachable.
* `spec_step_flagged`, `spec_step_consume`, `construct_only_when_absent`: the reading of one step of
  `pushSpec` as the property.
* `interleaving_independent`: what a PID's handler sees does not depend on interleaved packets of
  other PIDs that do not redefine it.
-/
namespace Ts.Props.C06
open Ts Ts.Demux

variable {H C : Type}

/-- MAIN: the double loop of `Demultiplex::push` = the per-packet fold, for every `Sem`. -/
theorem push_refines_spec (sem : Sem H C) (tc : Tab H × C) (pks : List Pk) :
    pushModel sem tc pks = pushSpec sem tc pks :=
  pushModel_eq_pushSpec sem tc pks

/-- after lookup-or-construct the slot is occupied, so `get(this_pid).unwrap()` cannot panic -/
theorem unwrap_never_panics (sem : Sem H C) (t : Tab H) (c : C) (pid : Nat) (t' : Tab H) (c' : C)
    (h : ensure sem t c pid = .ok (t', c')) : (t'.get pid).isSome = true := by
  rw [← Tab.contains_iff_get]; exact ensure_contains sem t c pid t' c' h

/-- … hence a step of the spec (and so of the model) panics only if `construct` or `consume` do:
the `unwrap` arm of `specStep` is never the source of a panic -/
theorem spec_step_panic_sources (sem : Sem H C) (t : Tab H) (c : C) (pk : Pk) (s : String)
    (hp : specStep sem (t, c) pk = .panic s) :
    (∃ c0, sem.construct c0 pk.pid = .panic s) ∨ (∃ h c0, sem.consume h c0 pk = .panic s) := by
  rw [specStep_eq] at hp
  cases hE : ensure sem t c pk.pid with
  | panic s' =>
    left
    rw [hE] at hp
    have hs : s' = s := by injection hp
    subst hs
    by_cases hc : t.contains pk.pid = true
    · rw [ensure_of_contains sem t c pk.pid hc] at hE; cases hE
    · have hc' : t.contains pk.pid = false := by simpa using hc
      rw [ensure_of_absent sem t c pk.pid hc'] at hE
      refine ⟨c, ?_⟩
      cases hk : sem.construct c pk.pid with
      | panic s'' => rw [hk] at hE; simpa using hE
      | ok r => rw [hk] at hE; cases hE
  | ok r =>
    obtain ⟨t1, c1⟩ := r
    right
    rw [hE] at hp
    simp only [R.ok_bind] at hp
    cases hf : pk.flagged with
    | true => rw [hf] at hp; cases hp
    | false =>
      rw [hf] at hp
      simp only [Bool.false_eq_true, if_false] at hp
      have hs := unwrap_never_panics sem t c pk.pid t1 c1 hE
      obtain ⟨h, hh⟩ := Option.isSome_iff_exists.1 hs
      rw [hh] at hp
      simp only [] at hp
      refine ⟨h, c1, ?_⟩
      cases hk : sem.consume h c1 pk with
      | panic s'' => rw [hk] at hp; simpa using hp
      | ok r => rw [hk] at hp; cases hp

/-- a packet flagged with a transport error or scrambling is passed to NO handler: the step is just
the lookup-or-construct for its PID -/
theorem spec_step_flagged (sem : Sem H C) (t : Tab H) (c : C) (pk : Pk) (hf : pk.flagged = true) :
    specStep sem (t, c) pk = ensure sem t c pk.pid := by
  rw [specStep_eq]
  cases ensure sem t c pk.pid with
  | panic s => rfl
  | ok r => simp only [R.ok_bind, hf, if_true]

/-- flagged packet on a PID that already has a handler: nothing at all happens -/
theorem spec_step_flagged_known (sem : Sem H C) (t : Tab H) (c : C) (pk : Pk)
    (hf : pk.flagged = true) (hc : t.contains pk.pid = true) : specStep sem (t, c) pk = .ok (t, c) :=
  specStep_flagged_of_contains sem t c pk hc hf

/-- an unflagged packet is consumed exactly once, unmodified, by the handler `h` registered for its
PID in the table `t1` obtained by lookup-or-construct, and by no other handler: before the queued
changes are applied every slot `q ≠ pk.pid` still holds what it held before the step. -/
theorem spec_step_consume (sem : Sem H C) (t : Tab H) (c : C) (pk : Pk) (t1 : Tab H) (c1 : C)
    (hf : pk.flagged = false) (hE : ensure sem t c pk.pid = .ok (t1, c1)) :
    ∃ h, t1.get pk.pid = some h ∧
      specStep sem (t, c) pk =
        (sem.consume h c1 pk >>= fun x =>
          R.ok (applyChanges (t1.insert pk.pid x.1) x.2.2, x.2.1)) ∧
      ∀ (h' : H) (q : Nat), q ≠ pk.pid → (t1.insert pk.pid h').get q = t.get q := by
  have hs := unwrap_never_panics sem t c pk.pid t1 c1 hE
  obtain ⟨h, hh⟩ := Option.isSome_iff_exists.1 hs
  refine ⟨h, hh, ?_, ?_⟩
  · rw [specStep_eq, hE]
    simp only [R.ok_bind, hf, Bool.false_eq_true, if_false, hh]
  · intro h' q hq
    rw [Tab.get_insert_ne _ _ _ _ hq, ensure_get_ne sem t c pk.pid t1 c1 hE q hq]

/-- `construct(ByPid pid)` is requested iff the PID has no handler, and then exactly once; the
constructed handler is installed in slot `pid` and every other slot is untouched -/
theorem construct_only_when_absent (sem : Sem H C) (t : Tab H) (c : C) (pid : Nat) :
    (t.contains pid = true → ensure sem t c pid = .ok (t, c)) ∧
    (t.contains pid = false →
      ensure sem t c pid = (sem.construct c pid >>= fun r => R.ok (t.insert pid r.1, r.2))) ∧
    (∀ t' c', ensure sem t c pid = .ok (t', c') → ∀ q, q ≠ pid → t'.get q = t.get q) :=
  ⟨ensure_of_contains sem t c pid, ensure_of_absent sem t c pid,
   fun t' c' h q hq => ensure_get_ne sem t c pid t' c' h q hq⟩

/-- in stream order: the fold processes packet `k` completely before packet `k+1` -/
theorem spec_in_stream_order (sem : Sem H C) (tc : Tab H × C) (pk : Pk) (rest : List Pk) :
    pushSpec sem tc (pk :: rest) = (specStep sem tc pk >>= fun tc' => pushSpec sem tc' rest) := rfl

/-- Interleaving independence.  Hypotheses:
* H1 (`hS`, `hK`): the handlers form a family of independent state machines — what `consume`
  returns as new handler state and queued changes is a pure function `step` of (handler state,
  packet); the context may be read/modified arbitrarily otherwise (e.g. to log callbacks).
  Likewise the handler `construct` returns is a function `mk` of the PID only.
* H2 (`hN`): no packet of another PID queues a change touching PID `p`.
Conclusion: both runs succeed and the handler state finally registered for `p` after pushing `pks`
equals the one after pushing only the packets of PID `p`.  (`p` need not even have a handler
initially.)  As `H` is arbitrary it may record the consumed packets: see
`interleaving_independent_trace`. -/
theorem interleaving_independent (sem : Sem H C)
    (step : H → Pk → H × List (Change H)) (mk : Nat → H)
    (hS : ∀ h c pk, ∃ c', sem.consume h c pk = .ok ((step h pk).1, c', (step h pk).2))
    (hK : ∀ c pid, ∃ c', sem.construct c pid = .ok (mk pid, c'))
    (p : Nat)
    (hN : ∀ h pk, pk.pid ≠ p → ∀ ch ∈ (step h pk).2, ch.pid ≠ p)
    (t : Tab H) (c : C) (pks : List Pk) :
    ∃ t1 c1 t2 c2,
      pushSpec sem (t, c) pks = .ok (t1, c1) ∧
      pushSpec sem (t, c) (pks.filter (fun pk => pk.pid == p)) = .ok (t2, c2) ∧
      t1.get p = t2.get p := by
  obtain ⟨c1, h1⟩ := pushSpec_of_indep sem step mk hS hK pks t c
  obtain ⟨c2, h2⟩ := pushSpec_of_indep sem step mk hS hK (pks.filter (fun pk => pk.pid == p)) t c
  exact ⟨_, c1, _, c2, h1, h2, foldl_stepP_filter step mk p hN pks t t rfl⟩

/-- the same for the real loops (`pushModel`), by `push_refines_spec` -/
theorem interleaving_independent_model (sem : Sem H C)
    (step : H → Pk → H × List (Change H)) (mk : Nat → H)
    (hS : ∀ h c pk, ∃ c', sem.consume h c pk = .ok ((step h pk).1, c', (step h pk).2))
    (hK : ∀ c pid, ∃ c', sem.construct c pid = .ok (mk pid, c'))
    (p : Nat)
    (hN : ∀ h pk, pk.pid ≠ p → ∀ ch ∈ (step h pk).2, ch.pid ≠ p)
    (t : Tab H) (c : C) (pks : List Pk) :
    ∃ t1 c1 t2 c2,
      pushModel sem (t, c) pks = .ok (t1, c1) ∧
      pushModel sem (t, c) (pks.filter (fun pk => pk.pid == p)) = .ok (t2, c2) ∧
      t1.get p = t2.get p := by
  rw [push_refines_spec, push_refines_spec]
  exact interleaving_independent sem step mk hS hK p hN t c pks

/-- Interleaving independence including the SEQUENCE of packets consumed: instantiate the handler
type with `H × List Pk`, where the second component is the list of packets the handler has been
given so far (`step'` appends the packet; handlers created by `construct`/`insert` start with the
trace they are given).  The final (state, consumed packets) at `p` is the same in both runs. -/
theorem interleaving_independent_trace (sem : Sem (H × List Pk) C)
    (step : H → Pk → H × List (Change (H × List Pk))) (mk : Nat → H)
    (hS : ∀ h tr c pk, ∃ c', sem.consume (h, tr) c pk = .ok (((step h pk).1, tr ++ [pk]), c', (step h pk).2))
    (hK : ∀ c pid, ∃ c', sem.construct c pid = .ok ((mk pid, []), c'))
    (p : Nat)
    (hN : ∀ h pk, pk.pid ≠ p → ∀ ch ∈ (step h pk).2, ch.pid ≠ p)
    (t : Tab (H × List Pk)) (c : C) (pks : List Pk) :
    ∃ t1 c1 t2 c2,
      pushSpec sem (t, c) pks = .ok (t1, c1) ∧
      pushSpec sem (t, c) (pks.filter (fun pk => pk.pid == p)) = .ok (t2, c2) ∧
      t1.get p = t2.get p :=
  interleaving_independent sem
    (fun h pk => (((step h.1 pk).1, h.2 ++ [pk]), (step h.1 pk).2)) (fun pid => (mk pid, []))
    (fun h c pk => hS h.1 h.2 c pk) hK p (fun h pk hp => hN h.1 pk hp) t c pks

/-! ### non-vacuity: a concrete run (`exSem`: `H := Nat` counts consumed packets, `C` logs callbacks) -/

/-- PID 5 unannounced → constructed once (9005), consumes two packets in order (500, 501); the
flagged packet on PID 5 reaches no handler; the flagged packet on unannounced PID 6 only
constructs (9006). -/
example : pushModel exSem ([], []) [exPk 5 false false, exPk 5 true false, exPk 6 false true, exPk 5 false false]
    = .ok ([none, none, none, none, none, some 2, some 0], [9005, 500, 9006, 501]) := rfl

example : pushSpec exSem ([], []) [exPk 5 false false, exPk 5 true false, exPk 6 false true, exPk 5 false false]
    = .ok ([none, none, none, none, none, some 2, some 0], [9005, 500, 9006, 501]) := rfl

/-- interleaving: handler state of PID 5 with and without PID 6 traffic -/
example : (pushSpec exSem ([], []) [exPk 5 false false, exPk 6 false false, exPk 5 false false]).isOk = true
    ∧ pushSpec exSem ([], []) [exPk 5 false false, exPk 5 false false] = .ok ([none, none, none, none, none, some 2], [9005, 500, 501]) :=
  ⟨rfl, rfl⟩

/-- the hypotheses of `interleaving_independent` are satisfiable (by `exSem`, for PID 5) -/
example : ∃ (step : Nat → Pk → Nat × List (Change Nat)) (mk : Nat → Nat),
    (∀ h c pk, ∃ c', exSem.consume h c pk = .ok ((step h pk).1, c', (step h pk).2)) ∧
    (∀ c pid, ∃ c', exSem.construct c pid = .ok (mk pid, c')) ∧
    (∀ h pk, pk.pid ≠ 5 → ∀ ch ∈ (step h pk).2, ch.pid ≠ 5) := by
  refine ⟨fun h pk => (h + 1,
      if pk.pid == 1 then [.insert 2 50, .remove 1]
      else if pk.pid == 3 then [.remove 3, .insert 3 70]
      else if pk.pid == 4 then [.remove 7]
      else []), fun _ => 0, ?_, ?_, ?_⟩
  · intro h c pk; exact ⟨_, rfl⟩
  · intro c pid; exact ⟨_, rfl⟩
  · intro h pk hp ch hch
    simp only at hch
    split at hch
    · simp at hch; rcases hch with e | e <;> subst e <;> simp [Change.pid]
    · split at hch
      · simp at hch; rcases hch with e | e <;> subst e <;> simp [Change.pid]
      · split at hch
        · simp at hch; subst hch; simp [Change.pid]
        · simp at hch

end Ts.Props.C06
