import Ts.Lemmas.C10
import Ts.Lemmas.C10b
import Ts.Props.C06
/-!
# C10 — re-transmission of an already applied PAT / PMT version is a no-op

Observation points: the `Psi.table` chain (`SectionSyntaxSectionProcessor` → `DedupSection…` →
`BufferSectionSyntaxParser`; its deliveries are what reaches the CRC layer), the application's
PAT / PMT handlers (`App.consume`: context = trace of `construct` requests and consumer events +
tag counter; change list = queued insertions / removals), and the dispatcher (`Demux.specStep` /
`pushSpec`, which the real loops equal by C06 `push_refines_spec`).

* `versionOf S = readBits S 42 5` is the standard's `version_number`; `version_exact` ties it to the
  model's `tshVersion`.
* `Quiescent v s`: the dedup layer remembers `v` and the buffer layer is `Complete` — the state
  right after version `v` was delivered (`applied_sets_version`), preserved by repetitions.
* `dedup_blocks_equal_version` (+ `_n`, `dedup_blocks_repetition_payloads`): NO delivery at all.
* `pat_handler_noop`, `pmt_handler_noop`, `no_payload_packet_noop`: context unchanged, no change.
* `repetition_block_noop`, `repetition_run_noop`, `es_handlers_untouched`,
  `pes_straddles_repetition`: dispatcher level.
-/
namespace Ts.Props.C10
open Ts Ts.Psi Ts.Spec Ts.Spec.SectionMux Ts.Lemmas.C03 Ts.Lemmas.C10 Ts.App Ts.Demux

/-! ### vocabulary, spelled out -/

/-- `version_number` is the 5-bit field at bit offset 42, i.e. `(byte 5 >> 1) & 0x1f` -/
theorem versionOf_iff (S : Bytes) :
    versionOf S = readBits S 42 5 ∧ versionOf S = (byteD S 5 >>> 1) &&& 0b0001_1111 :=
  ⟨rfl, versionOf_eq S⟩

/-- the model reads exactly this field: `TableSyntaxHeader::new(&data[3..]).version()` -/
theorem version_exact (d : Bytes) (h : 8 ≤ d.length) : Psi.tshVersion (d.drop 3) = .ok (versionOf d) :=
  tshVersion_eq d h

theorem quiescent_iff (v : Nat) (s : St) :
    Quiescent v s ↔ s.lastVersion = some v ∧ s.remaining = none := Iff.rfl

theorem repPayload_iff (v : Nat) (q : Pl) :
    RepPayload v q ↔
      (q.us = false ∨
       ∃ S m, WellFormedSection .syntax S ∧ 8 ≤ S.length ∧ versionOf S = v ∧ WellFormedMux .syntax S m
        ∧ q.us = true ∧ q.bytes = m.first S) := Iff.rfl

theorem repPacket_iff (v : Nat) (p : Bytes) :
    RepPacket v p ↔ (p.length = 188 ∧ ∀ q, plOf p = some q → RepPayload v q) := Iff.rfl

theorem quiescentH_iff (v : Nat) :
    (∀ s reg, QuiescentH v (.pat s reg) ↔ Quiescent v s)
    ∧ (∀ pid prog s reg, QuiescentH v (.pmt pid prog s reg) ↔ Quiescent v s)
    ∧ (∀ tag f, ¬ QuiescentH v (.pes tag f)) ∧ (∀ tag, ¬ QuiescentH v (.recorder tag)) :=
  ⟨fun _ _ => Iff.rfl, fun _ _ _ _ => Iff.rfl, fun _ _ h => h, fun _ h => h⟩

theorem repRel_iff (v : Nat) (h' : Handler) :
    (∀ s reg, RepRel v (.pat s reg) h' ↔ ∃ s', h' = .pat s' reg ∧ Quiescent v s' ∧ s'.buf = s.buf)
    ∧ (∀ pid prog s reg, RepRel v (.pmt pid prog s reg) h' ↔
        ∃ s', h' = .pmt pid prog s' reg ∧ Quiescent v s' ∧ s'.buf = s.buf)
    ∧ (∀ tag f, ¬ RepRel v (.pes tag f) h') ∧ (∀ tag, ¬ RepRel v (.recorder tag) h') := by
  refine ⟨?_, ?_, ?_, ?_⟩
  · intro s reg
    cases h' with
    | pat s' reg' =>
      constructor
      · rintro ⟨e, a, b⟩; subst e; exact ⟨s', rfl, a, b⟩
      · rintro ⟨s'', e, a, b⟩; cases e; exact ⟨rfl, a, b⟩
    | pmt _ _ _ _ => exact ⟨fun h => h.elim, fun ⟨_, e, _⟩ => by cases e⟩
    | pes _ _ => exact ⟨fun h => h.elim, fun ⟨_, e, _⟩ => by cases e⟩
    | recorder _ => exact ⟨fun h => h.elim, fun ⟨_, e, _⟩ => by cases e⟩
  · intro pid prog s reg
    cases h' with
    | pmt pid' prog' s' reg' =>
      constructor
      · rintro ⟨e1, e2, e3, a, b⟩; subst e1 e2 e3; exact ⟨s', rfl, a, b⟩
      · rintro ⟨s'', e, a, b⟩; cases e; exact ⟨rfl, rfl, rfl, a, b⟩
    | pat _ _ => exact ⟨fun h => h.elim, fun ⟨_, e, _⟩ => by cases e⟩
    | pes _ _ => exact ⟨fun h => h.elim, fun ⟨_, e, _⟩ => by cases e⟩
    | recorder _ => exact ⟨fun h => h.elim, fun ⟨_, e, _⟩ => by cases e⟩
  · intro tag f h; cases h' <;> exact h
  · intro tag h; cases h' <;> exact h

/-! ### the section filter -/

/-- **C10, section filter.**  In every quiescent state (version `v` remembered, buffer
`Complete`; the flags `ignoreRest` / `dedupIgnore` and the buffer contents arbitrary), every
well-formed section-syntax section with `version_number = v`, in every well-formed packetisation
(any `pointer_field` bytes, any first share, any number of continuation payloads, trailing
stuffing, extra continuation payloads) at any payload offsets: the `Psi.table` chain does not panic
and delivers NOTHING; the state is quiescent again, the inner buffer untouched. -/
theorem dedup_blocks_equal_version (v : Nat) (s : St) (hq : Quiescent v s)
    (S : Bytes) (hS : WellFormedSection .syntax S) (h8 : 8 ≤ S.length) (hv : versionOf S = v)
    (m : Mux) (hm : WellFormedMux .syntax S m)
    (off : Nat) (rest : List Pl) (hus : ∀ q ∈ rest, q.us = false)
    (hrest : rest.map (·.bytes) = m.rest) :
    ∃ s', runPl Psi.table s (⟨true, m.first S, off⟩ :: rest) = .ok (s', [])
      ∧ Quiescent v s' ∧ s'.buf = s.buf := by
  subst hv
  exact rep_run (versionOf S) _ s hq (mux_payloads_rep S hS h8 m hm off rest hus hrest)

/-- the same for any sequence of repetition payloads: unit-start payloads of any well-formed
packetisations of any version-`v` sections, and continuation payloads, in ANY order and number
(this also covers repetitions truncated by the next repetition's start) -/
theorem dedup_blocks_repetition_payloads (v : Nat) (s : St) (hq : Quiescent v s) (qs : List Pl)
    (h : ∀ q ∈ qs, RepPayload v q ∧ 1 ≤ q.bytes.length) :
    ∃ s', runPl Psi.table s qs = .ok (s', []) ∧ Quiescent v s' ∧ s'.buf = s.buf :=
  rep_run v qs s hq h

/-- any number of consecutive complete repetitions (each with its own section bytes,
packetisation and offsets) -/
theorem dedup_blocks_equal_version_n (v : Nat) (s : St) (hq : Quiescent v s)
    (txs : List (Bytes × Mux × Nat × List Pl))
    (h : ∀ tx ∈ txs, WellFormedSection .syntax tx.1 ∧ 8 ≤ tx.1.length ∧ versionOf tx.1 = v
      ∧ WellFormedMux .syntax tx.1 tx.2.1 ∧ (∀ q ∈ tx.2.2.2, q.us = false)
      ∧ tx.2.2.2.map (·.bytes) = tx.2.1.rest) :
    ∃ s', runPl Psi.table s
        (txs.flatMap (fun tx => (⟨true, tx.2.1.first tx.1, tx.2.2.1⟩ : Pl) :: tx.2.2.2)) = .ok (s', [])
      ∧ Quiescent v s' ∧ s'.buf = s.buf := by
  apply rep_run v _ s hq
  intro q hq'
  obtain ⟨tx, htx, hmem⟩ := List.mem_flatMap.1 hq'
  obtain ⟨h1, h2, h3, h4, h5, h6⟩ := h tx htx
  have := mux_payloads_rep tx.1 h1 h2 tx.2.1 h4 tx.2.2.1 tx.2.2.2 h5 h6 q hmem
  rw [h3] at this
  exact this

/-- one 188-byte repetition packet through `Psi.consume` -/
theorem dedup_blocks_packet (v : Nat) (s : St) (hq : Quiescent v s) (p : Bytes) (hp : RepPacket v p) :
    ∃ s', Psi.consume Psi.table s p = .ok (s', []) ∧ Quiescent v s' ∧ s'.buf = s.buf :=
  psi_rep_packet v s hq p hp

/-- **how a filter becomes quiescent** (C03's `section_reassembled` through the dedup layer):
from any state satisfying the buffer invariant `PsiInv` (C03; holds in every reachable state) whose
remembered version differs from `versionOf S`, an intact well-formed transmission of `S` is
delivered exactly once — the deliveries are what the pointer bytes completed of the previous
buffer (at most one) followed by `S` — and the final state is quiescent at `versionOf S`. -/
theorem applied_sets_version (S : Bytes) (hS : WellFormedSection .syntax S) (h8 : 8 ≤ S.length)
    (m : Mux) (hm : WellFormedMux .syntax S m)
    (s : St) (hs : PsiInv .syntax s) (hv : s.lastVersion ≠ some (versionOf S))
    (off : Nat) (rest : List Pl) (hus : ∀ q ∈ rest, q.us = false)
    (hrest : rest.map (·.bytes) = m.rest) :
    ∃ sfin,
      runPl Psi.table s (⟨true, m.first S, off⟩ :: rest)
        = .ok (sfin, (preSpec Psi.table s m.pre).2
                      ++ [⟨S, if m.k = S.length then some (off + 1 + m.pre.length) else none⟩])
      ∧ (preSpec Psi.table s m.pre).2.length ≤ 1
      ∧ Quiescent (versionOf S) sfin ∧ sfin.ignoreRest = false ∧ sfin.dedupIgnore = false := by
  obtain ⟨sfin, h1, h2, h3, h4⟩ := table_applied S hS h8 m hm s hs hv off rest hus hrest
  exact ⟨sfin, h1, preSpec_at_most_one_table s hs m.pre, h2, h3, h4⟩

/-- applied once, then repeated any number of times: from a state that does not remember the
version, a transmission of `S` followed by ANY sequence of repetition payloads of that version
delivers `S` exactly once in total -/
theorem applied_once_then_repeated (S : Bytes) (hS : WellFormedSection .syntax S) (h8 : 8 ≤ S.length)
    (m : Mux) (hm : WellFormedMux .syntax S m)
    (s : St) (hs : PsiInv .syntax s) (hv : s.lastVersion ≠ some (versionOf S))
    (off : Nat) (rest : List Pl) (hus : ∀ q ∈ rest, q.us = false)
    (hrest : rest.map (·.bytes) = m.rest)
    (reps : List Pl) (hreps : ∀ q ∈ reps, RepPayload (versionOf S) q ∧ 1 ≤ q.bytes.length) :
    ∃ sfin,
      runPl Psi.table s ((⟨true, m.first S, off⟩ :: rest) ++ reps)
        = .ok (sfin, (preSpec Psi.table s m.pre).2
                      ++ [⟨S, if m.k = S.length then some (off + 1 + m.pre.length) else none⟩])
      ∧ Quiescent (versionOf S) sfin := by
  obtain ⟨s1, h1, hq1, _⟩ := table_applied S hS h8 m hm s hs hv off rest hus hrest
  obtain ⟨s2, h2, hq2, _⟩ := rep_run (versionOf S) reps s1 hq1 hreps
  refine ⟨s2, ?_, hq2⟩
  rw [runPl_append, h1]
  simp only [R.ok_bind, h2, List.append_nil]

/-! ### the application's PAT / PMT handlers -/

/-- **C10, PAT handler.**  A quiescent PAT handler given a repetition packet (any 188-byte packet
whose payload view is a repetition payload, or that has no payload): `consume` returns the context
`c` UNCHANGED (no `construct` request, no trace event, no tag consumed) and an EMPTY change list
(nothing inserted, replaced or removed); the handler is again a PAT handler with the same
registered set and a quiescent filter. -/
theorem pat_handler_noop (v : Nat) (s : St) (reg : List Nat) (hq : Quiescent v s) (c : Ctx) (pk : Pk)
    (hp : RepPacket v pk.bytes) :
    ∃ s', App.consume (.pat s reg) c pk = .ok (.pat s' reg, c, [])
      ∧ Quiescent v s' ∧ s'.buf = s.buf := by
  obtain ⟨s', h1, h2, h3⟩ := psi_rep_packet v s hq pk.bytes hp
  refine ⟨s', ?_, h2, h3⟩
  rw [consume_pat_eq s s' reg c pk [] h1]; rfl

/-- **C10, PMT handler** -/
theorem pmt_handler_noop (v : Nat) (pid prog : Nat) (s : St) (reg : List Nat) (hq : Quiescent v s)
    (c : Ctx) (pk : Pk) (hp : RepPacket v pk.bytes) :
    ∃ s', App.consume (.pmt pid prog s reg) c pk = .ok (.pmt pid prog s' reg, c, [])
      ∧ Quiescent v s' ∧ s'.buf = s.buf := by
  obtain ⟨s', h1, h2, h3⟩ := psi_rep_packet v s hq pk.bytes hp
  refine ⟨s', ?_, h2, h3⟩
  rw [consume_pmt_eq pid prog s s' reg c pk [] h1]; rfl

/-- both at once, with the handler relation `RepRel` -/
theorem table_handler_noop (v : Nat) (h : Handler) (hq : QuiescentH v h) (c : Ctx) (pk : Pk)
    (hp : RepPacket v pk.bytes) :
    ∃ h', App.consume h c pk = .ok (h', c, []) ∧ RepRel v h h' :=
  app_rep_noop v h hq c pk hp

/-- packets on a table PID that carry no payload (adaptation field only, or reserved
`adaptation_field_control = 00`): nothing at all happens, in ANY filter state -/
theorem no_payload_packet_noop (s : St) (reg : List Nat) (pid prog : Nat) (c : Ctx) (pk : Pk)
    (hl : pk.bytes.length = 188) (hn : plOf pk.bytes = none) :
    App.consume (.pat s reg) c pk = .ok (.pat s reg, c, [])
      ∧ App.consume (.pmt pid prog s reg) c pk = .ok (.pmt pid prog s reg, c, []) := by
  have h1 : Psi.consume Psi.table s pk.bytes = .ok (s, []) := by
    rw [consume_eq_plOf Psi.table s pk.bytes hl, hn]
  exact ⟨by rw [consume_pat_eq s s reg c pk [] h1]; rfl,
         by rw [consume_pmt_eq pid prog s s reg c pk [] h1]; rfl⟩

/-- a payload-less packet is a repetition packet of every version -/
theorem no_payload_is_repPacket (v : Nat) (p : Bytes) (hl : p.length = 188) (hn : plOf p = none) :
    RepPacket v p := ⟨hl, fun q hq => by rw [hn] at hq; cases hq⟩

/-! ### the dispatcher -/

/-- **C10, dispatcher.**  `t` holds a quiescent PAT / PMT handler `h` in the slot of `pk.pid`; `pk`
is an unflagged repetition packet.  One step of the dispatcher returns the SAME context and the
table `t` with that one slot rewritten by an equivalent handler `h'` (`RepRel`: same kind,
parameters and registered set, quiescent, buffer untouched). -/
theorem repetition_block_noop (v : Nat) (t : Tab Handler) (c : Ctx) (pk : Pk) (h : Handler)
    (hg : t.get pk.pid = some h) (hq : QuiescentH v h) (hf : pk.flagged = false)
    (hp : RepPacket v pk.bytes) :
    ∃ h', RepRel v h h' ∧ Demux.specStep App.sem (t, c) pk = .ok (t.insert pk.pid h', c)
      ∧ ∀ q, q ≠ pk.pid → (t.insert pk.pid h').get q = t.get q := by
  obtain ⟨h', h1, h2⟩ := step_rep_noop v t c pk h hg hq hf hp
  exact ⟨h', h1, h2, fun q hq' => Tab.get_insert_ne _ _ _ _ hq'⟩

/-- the same for the real loops of `Demultiplex::push` on a whole buffer of repetition packets
of possibly several table PIDs (`ver pid` = the version the handler of `pid` is quiescent at):
same context; every slot not addressed by the packets is exactly as before; every quiescent table
handler is at most replaced by an equivalent one -/
theorem repetition_run_noop (ver : Nat → Nat) (t : Tab Handler) (c : Ctx) (pks : List Pk)
    (h : ∀ pk ∈ pks, pk.flagged = false ∧ RepPacket (ver pk.pid) pk.bytes
      ∧ ∃ h, t.get pk.pid = some h ∧ QuiescentH (ver pk.pid) h) :
    ∃ t', Demux.pushSpec App.sem (t, c) pks = .ok (t', c)
      ∧ Demux.pushModel App.sem (t, c) pks = .ok (t', c)
      ∧ (∀ q, (∀ pk ∈ pks, pk.pid ≠ q) → t'.get q = t.get q)
      ∧ (∀ q h, t.get q = some h → QuiescentH (ver q) h →
           ∃ h', t'.get q = some h' ∧ RepRel (ver q) h h') := by
  obtain ⟨t', h1, h2, h3⟩ := run_rep_noop ver c pks t h
  exact ⟨t', h1, by rw [Ts.Props.C06.push_refines_spec]; exact h1, h2, h3⟩

/-- in particular every elementary-stream handler — its `PesFilter.F` state with the stored
continuity counter and the open/closed phase — is exactly as before, as are recorder handlers -/
theorem es_handlers_untouched (ver : Nat → Nat) (t : Tab Handler) (c : Ctx) (pks : List Pk)
    (h : ∀ pk ∈ pks, pk.flagged = false ∧ RepPacket (ver pk.pid) pk.bytes
      ∧ ∃ h, t.get pk.pid = some h ∧ QuiescentH (ver pk.pid) h) :
    ∃ t', Demux.pushSpec App.sem (t, c) pks = .ok (t', c) ∧
      (∀ q tag f, t.get q = some (.pes tag f) → t'.get q = some (.pes tag f)) ∧
      (∀ q tag, t.get q = some (.recorder tag) → t'.get q = some (.recorder tag)) := by
  obtain ⟨t', h1, h2, _⟩ := run_rep_noop ver c pks t h
  have key : ∀ q h0, t.get q = some h0 → ¬ (∃ v, QuiescentH v h0) → t'.get q = some h0 := by
    intro q h0 hg hn
    rw [h2 q]; exact hg
    intro pk hm e
    obtain ⟨_, _, h', hg', hq'⟩ := h pk hm
    rw [e, hg] at hg'
    cases hg'
    exact hn ⟨_, hq'⟩
  exact ⟨t', h1,
    fun q tag f hg => key q _ hg (by rintro ⟨v, hv⟩; exact hv),
    fun q tag hg => key q _ hg (by rintro ⟨v, hv⟩; exact hv)⟩

/-- **C10, straddling.**  `pk1`, `pk2`: two packets of an elementary-stream PID (slot holds
`.pes tag f`), e.g. two consecutive parts of one PES packet; `reps`: any run of table repetition
packets between them.  If the run WITHOUT the repetitions succeeds with context `cB`, the run WITH
them succeeds with exactly the same context — the trace of `start_stream` / `begin_packet` /
`continue_packet` / `end_packet` / `continuity_error` events is identical: no second stream start,
no spurious packet end or continuity error — and the stream handler ends in the same state. -/
theorem pes_straddles_repetition (ver : Nat → Nat) (t : Tab Handler) (c : Ctx) (pk1 pk2 : Pk)
    (reps : List Pk) (tag : Nat) (f : PesFilter.F) (hpid : pk2.pid = pk1.pid)
    (hg : t.get pk1.pid = some (.pes tag f))
    (hreps : ∀ pk ∈ reps, pk.pid ≠ pk1.pid ∧ pk.flagged = false ∧ RepPacket (ver pk.pid) pk.bytes
      ∧ ∃ h, t.get pk.pid = some h ∧ QuiescentH (ver pk.pid) h)
    (tB : Tab Handler) (cB : Ctx)
    (hB : Demux.pushSpec App.sem (t, c) [pk1, pk2] = .ok (tB, cB)) :
    ∃ tA, Demux.pushSpec App.sem (t, c) (pk1 :: (reps ++ [pk2])) = .ok (tA, cB)
      ∧ tA.get pk1.pid = tB.get pk1.pid
      ∧ (∀ r, (∀ pk ∈ reps, pk.pid ≠ r) → tA.get r = tB.get r) :=
  es_straddle ver t c pk1 pk2 reps tag f hpid hg hreps tB cB hB

/-! ### non-vacuity -/

/-- the PAT section of C04: well-formed, 16 bytes, `version_number = 0` -/
example : WellFormedSection .syntax patGood ∧ patGood.length = 16 ∧ versionOf patGood = 0 := by
  decide +kernel

/-- a one-packet packetisation with stuffing, and a three-payload packetisation (8 + 3 + 5 bytes,
trailing stuffing, one extra stuffing payload) behind two `pointer_field` bytes -/
example : WellFormedMux .syntax patGood (muxOf patGood) := by decide +kernel
example : WellFormedMux .syntax patGood
    ⟨[0xaa, 0xbb], 8, [], [[0x00, 0x01, 0xe1], [0xe0, 0x2d, 0x50, 0x78, 0x04, 0xff]], [[0xff, 0xff]]⟩ := by
  decide +kernel

example : Quiescent 0 { lastVersion := some 0 } := ⟨rfl, rfl⟩
example : Quiescent 0 { lastVersion := some 0, ignoreRest := true, dedupIgnore := true, buf := patGood } :=
  ⟨rfl, rfl⟩

/-- `dedup_blocks_equal_version` on the three-payload packetisation -/
example : ∃ s', runPl Psi.table { lastVersion := some 0, buf := patGood }
      [⟨true, [0x02, 0xaa, 0xbb] ++ patGood.take 8, 177⟩,
       ⟨false, [0x00, 0x01, 0xe1], 185⟩,
       ⟨false, [0xe0, 0x2d, 0x50, 0x78, 0x04, 0xff], 182⟩,
       ⟨false, [0xff, 0xff], 186⟩] = .ok (s', [])
    ∧ Quiescent 0 s' ∧ s'.buf = patGood :=
  dedup_blocks_equal_version 0 _ ⟨rfl, rfl⟩ patGood (by decide +kernel) (by decide +kernel)
    (by decide +kernel)
    ⟨[0xaa, 0xbb], 8, [], [[0x00, 0x01, 0xe1], [0xe0, 0x2d, 0x50, 0x78, 0x04, 0xff]], [[0xff, 0xff]]⟩
    (by decide +kernel) 177 _ (by decide) rfl

/-- `applied_sets_version` from the initial state, then the model's own run agrees -/
example : ∃ sfin, runPl Psi.table {} [⟨true, plBytesOf patGood, 4⟩] = .ok (sfin, [⟨patGood, some 5⟩])
    ∧ Quiescent 0 sfin := by
  obtain ⟨sfin, h1, _, h2, _⟩ := applied_sets_version patGood (by decide +kernel) (by decide +kernel)
    (muxOf patGood) (by decide +kernel) {} (psiInv_of_none _ _ rfl) (by decide +kernel) 4 [] (by simp) rfl
  exact ⟨sfin, h1, h2⟩
example : Psi.consume Psi.table {} (pktOf patGood) = .ok ({ lastVersion := some 0 }, [⟨patGood, some 5⟩]) := by
  decide +kernel

/-- real 188-byte repetition packets: a unit-start packet with the whole PAT, a continuation
packet, an adaptation-field-only packet -/
theorem pktOf_patGood_rep : RepPacket 0 (pktOf patGood) := by
  refine ⟨by decide +kernel, ?_⟩
  intro q hq
  have : plOf (pktOf patGood) = some ⟨true, plBytesOf patGood, 4⟩ := by decide +kernel
  rw [this] at hq
  cases hq
  exact Or.inr ⟨patGood, muxOf patGood, by decide +kernel, by decide +kernel, by decide +kernel,
    by decide +kernel, rfl, by decide +kernel⟩

example : RepPacket 0 contPkt := by
  refine ⟨by decide +kernel, ?_⟩
  intro q hq
  have : plOf contPkt = some ⟨false, List.replicate 184 0xff, 4⟩ := by decide +kernel
  rw [this] at hq
  cases hq
  exact Or.inl rfl

example : RepPacket 0 afOnlyPkt :=
  no_payload_is_repPacket 0 afOnlyPkt (by decide +kernel) (by decide +kernel)

/-- the handler theorem's conclusion on the model itself (PAT handler that has applied version 0
and registered PMT PID 0x1e0) -/
example : ∃ s', App.consume (.pat { lastVersion := some 0 } [0x1e0]) { cfg := {} } (pk0 (pktOf patGood) 188)
    = .ok (.pat s' [0x1e0], { cfg := {} }, []) ∧ Quiescent 0 s' ∧ s'.buf = [] :=
  pat_handler_noop 0 _ _ ⟨rfl, rfl⟩ _ _ pktOf_patGood_rep

/-- the dispatcher hypotheses are satisfiable: PAT handler in slot 0, an ES handler in slot 0x100 -/
example : ∃ (t : Tab Handler) (pk : Pk) (h : Handler),
    t.get pk.pid = some h ∧ QuiescentH 0 h ∧ pk.flagged = false ∧ RepPacket 0 pk.bytes
      ∧ t.get 0x100 = some (.pes 7 { cc := some 3, st := .started }) :=
  ⟨(Tab.insert [] 0 (.pat { lastVersion := some 0 } [0x1e0])).insert 0x100 (.pes 7 { cc := some 3, st := .started }),
   pk0 (pktOf patGood) 0, .pat { lastVersion := some 0 } [0x1e0],
   by rw [show (pk0 (pktOf patGood) 0).pid = 0 from rfl, Tab.get_insert_ne _ _ _ _ (by decide),
        Tab.get_insert_self],
   ⟨rfl, rfl⟩, rfl, pktOf_patGood_rep, Tab.get_insert_self _ _ _⟩

/-- whole application: PAT applied once; two further copies change neither the table size, the
tag counter nor the trace -/
example : summary (runApp {} [pktOf patGood]) = some (481, 2, 2)
    ∧ summary (runApp {} [pktOf patGood ++ pktOf patGood ++ contPkt ++ pktOf patGood]) = some (481, 2, 2) := by
  decide +kernel

end Ts.Props.C10
