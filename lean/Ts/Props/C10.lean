import Ts.Lemmas.C10
import Ts.Lemmas.C10b
import Ts.Lemmas.C10c
import Ts.Lemmas.C10d
import Ts.Props.C06
import Ts.Props.C05History
import Ts.Props.C11
/-!
# C10 — re-transmission of an already applied PAT / PMT version is a no-op

**Status: the property as written is FALSE of the pinned code in two ways (known findings F8, F9);
what is proved is the property per handler INSTANCE and per packetisation that puts at least the
8-byte fixed header into the starting packet.**

Observation points: the `Psi.table` chain (`SectionSyntaxSectionProcessor` → `DedupSection…` →
`BufferSectionSyntaxParser`; its deliveries are what reaches the CRC layer), the application's
PAT / PMT handlers (`App.consume`: context = trace of `construct` requests and consumer events +
tag counter; change list = queued insertions / removals), and the dispatcher (`Demux.specStep` /
`pushSpec`, which the real loops equal by C06 `push_refines_spec`).

* `versionOf S = readBits S 42 5` is the standard's `version_number`; `version_exact` ties it to the
  model's `tshVersion`.
* `Quiescent v s`: the dedup layer remembers `v` and the buffer layer is `Complete` — the state
  right after version `v` was delivered (`applied_sets_version`), preserved by repetitions.
  NOTE: this is a statement about the INTERNAL field `lastVersion` of ONE handler instance.
* `dedup_blocks_equal_version` (+ `_n`, `dedup_blocks_repetition_payloads`): NO delivery at all.
* `pat_handler_noop`, `pmt_handler_noop`, `no_payload_packet_noop`: context unchanged, no change.
* `repetition_block_noop`, `repetition_run_noop`, `es_handlers_untouched`,
  `pes_straddles_repetition`, `repetitions_deletable`: dispatcher level.

The full-strength statement and its gaps:

* `C10_full` — the property over whole HISTORIES (`Spec.RoutingHistory` events realised by packets,
  from `Demultiplex::new`), "last applied on that PID" read off the history (`lastAppliedOn`).
* `C10_full_false`, `C10_F9_counterexample` — **F9**: PAT v0, PMT v0, PAT v1 (same program), PMT v0
  again: the PAT version change rebuilt the PMT handler, the rebuilt filter has forgotten version 0,
  the PMT is re-applied, the elementary-stream handler is replaced (tag 2 → tag 4) mid-PES-packet.
* `C10_partial`, `C10_partial'`, `C10_gap_is_F9` — true with the extra hypothesis "no PAT version
  listing `p` was applied since the last table applied on `p`"; that is the ONLY gap at history level.
* `short_start_resets`, `short_start_then_repeat_reapplied`, `C10_any_cut_false`,
  `C10_straddle_counterexample` — **F8**: a unit-start packet with fewer than 3 section bytes after
  the pointer bytes resets the dedup layer; the next ordinary repetition is re-applied.  Such
  packetisations are excluded from every theorem here by `RepPayload` → `WellFormedMux`'s clause
  `minHeader kind ≤ (S.take m.k ++ m.tailBytes).length` (`minHeader .syntax = 8`: the starting packet
  carries the whole 8-byte FIXED header, not just the 3-byte `table_id` / `section_length` part — so
  first shares of 3..7 bytes are excluded as well; those set `ignore_rest` and are known finding F13's
  shape, `Ts.Props.C11.short_first_share_never_applied`), and from `C10_full` by `Realises`.
* `unapplied_start_records_version`, `unapplied_start_then_repeat_reapplied` — the general
  "UNAPPLIED START" mechanism: in a filter quiescent at `v`, ANY accepted section start with another
  `version_number` moves the version memory — also when that section is never applied (foreign
  `table_id`, CRC failure, never completed) — and the next unchanged version-`v` table is re-applied.
  Witnesses on the whole application: `foreign_table_between_repeats` (a private table on the PMT
  PID between two PMT repetitions: SCOPE OBSERVATION, DESIGN 8.1b — C10's quantifier speaks of
  repetitions of tables, not of foreign tables in between) and `damaged_copy_between_repeats` (a
  damaged copy in between: known finding F12 of C04, outside C10's fault-free quantifier).  Both
  shapes are outside `RepPacket` and outside `Realises`, like F8.
-/
namespace Ts.Props.C10
open Ts Ts.Psi Ts.Spec Ts.Spec.SectionMux Ts.Lemmas.C03 Ts.Lemmas.C10 Ts.App Ts.Demux
open Ts.Tables Ts.Spec.RoutingHistory Ts.Lemmas.C05H Ts.Lemmas.C05Run

/-! ### vocabulary, spelled out -/

/-- `version_number` is the 5-bit field at bit offset 42, i.e. `(byte 5 >> 1) & 0x1f` -/
theorem versionOf_iff (S : Bytes) :
    versionOf S = readBits S 42 5 ∧ versionOf S = (byteD S 5 >>> 1) &&& 0b0001_1111 :=
  ⟨rfl, versionOf_eq S⟩

/-- the model reads exactly this field: `TableSyntaxHeader::new(&data[3..]).version()` -/
theorem version_exact (d : Bytes) (h : 8 ≤ d.length) : Psi.tshVersion (d.drop 3) = .ok (versionOf d) :=
  tshVersion_eq d h

theorem quiescent_iff (v : Nat) (s : St) :
    Quiescent v s ↔ s.lastVersion = some v ∧ s.remaining = none := Iff.rfl

theorem repPayload_iff (v : Nat) (q : Pl) :
    RepPayload v q ↔
      (q.us = false ∨
       ∃ S m, WellFormedSection .syntax S ∧ 8 ≤ S.length ∧ versionOf S = v ∧ WellFormedMux .syntax S m
        ∧ q.us = true ∧ q.bytes = m.first S) := Iff.rfl

theorem repPacket_iff (v : Nat) (p : Bytes) :
    RepPacket v p ↔ (p.length = 188 ∧ ∀ q, plOf p = some q → RepPayload v q) := Iff.rfl

theorem quiescentH_iff (v : Nat) :
    (∀ s reg, QuiescentH v (.pat s reg) ↔ Quiescent v s)
    ∧ (∀ pid prog s reg, QuiescentH v (.pmt pid prog s reg) ↔ Quiescent v s)
    ∧ (∀ tag f, ¬ QuiescentH v (.pes tag f)) ∧ (∀ tag, ¬ QuiescentH v (.recorder tag)) :=
  ⟨fun _ _ => Iff.rfl, fun _ _ _ _ => Iff.rfl, fun _ _ h => h, fun _ h => h⟩

theorem repRel_iff (v : Nat) (h' : Handler) :
    (∀ s reg, RepRel v (.pat s reg) h' ↔ ∃ s', h' = .pat s' reg ∧ Quiescent v s' ∧ s'.buf = s.buf)
    ∧ (∀ pid prog s reg, RepRel v (.pmt pid prog s reg) h' ↔
        ∃ s', h' = .pmt pid prog s' reg ∧ Quiescent v s' ∧ s'.buf = s.buf)
    ∧ (∀ tag f, ¬ RepRel v (.pes tag f) h') ∧ (∀ tag, ¬ RepRel v (.recorder tag) h') := by
  refine ⟨?_, ?_, ?_, ?_⟩
  · intro s reg
    cases h' with
    | pat s' reg' =>
      constructor
      · rintro ⟨e, a, b⟩; subst e; exact ⟨s', rfl, a, b⟩
      · rintro ⟨s'', e, a, b⟩; cases e; exact ⟨rfl, a, b⟩
    | pmt _ _ _ _ => exact ⟨fun h => h.elim, fun ⟨_, e, _⟩ => by cases e⟩
    | pes _ _ => exact ⟨fun h => h.elim, fun ⟨_, e, _⟩ => by cases e⟩
    | recorder _ => exact ⟨fun h => h.elim, fun ⟨_, e, _⟩ => by cases e⟩
  · intro pid prog s reg
    cases h' with
    | pmt pid' prog' s' reg' =>
      constructor
      · rintro ⟨e1, e2, e3, a, b⟩; subst e1 e2 e3; exact ⟨s', rfl, a, b⟩
      · rintro ⟨s'', e, a, b⟩; cases e; exact ⟨rfl, rfl, rfl, a, b⟩
    | pat _ _ => exact ⟨fun h => h.elim, fun ⟨_, e, _⟩ => by cases e⟩
    | pes _ _ => exact ⟨fun h => h.elim, fun ⟨_, e, _⟩ => by cases e⟩
    | recorder _ => exact ⟨fun h => h.elim, fun ⟨_, e, _⟩ => by cases e⟩
  · intro tag f h; cases h' <;> exact h
  · intro tag h; cases h' <;> exact h

/-! ### the section filter -/

/-- **C10, section filter.**  In every quiescent state (version `v` remembered, buffer
`Complete`; the flags `ignoreRest` / `dedupIgnore` and the buffer contents arbitrary), every
well-formed section-syntax section with `version_number = v`, in every well-formed packetisation
(any `pointer_field` bytes, any first share OF AT LEAST 8 BYTES, any number of continuation
payloads, trailing stuffing, extra continuation payloads) at any payload offsets: the `Psi.table`
chain does not panic and delivers NOTHING; the state is quiescent again, the inner buffer untouched.

Scope, precisely.  (1) `hm : WellFormedMux .syntax S m` contains `8 ≤ (S.take m.k ++ m.tailBytes).length`:
the starting packet carries the whole 8-byte fixed header (`minHeader .syntax = 8`; NOT merely the
3-byte `table_id` / `section_length` part).  A start carrying 0–2 section bytes is NOT covered and is
NOT a no-op: it resets the chain (`short_start_resets`, known finding F8); a start carrying 3–7 bytes
is not covered either: it sets `ignoreRest` and leaves the version memory alone — a no-op for a
REPETITION, but the shape on which a NEW version is never applied (known finding F13,
`Ts.Props.C11.short_first_share_never_applied`).
(2) `hq : Quiescent v s` is about the field `lastVersion` of THIS filter instance; it says nothing about
what was last applied on the PID by an earlier instance (known finding F9, `C10_full_false`). -/
theorem dedup_blocks_equal_version (v : Nat) (s : St) (hq : Quiescent v s)
    (S : Bytes) (hS : WellFormedSection .syntax S) (h8 : 8 ≤ S.length) (hv : versionOf S = v)
    (m : Mux) (hm : WellFormedMux .syntax S m)
    (off : Nat) (rest : List Pl) (hus : ∀ q ∈ rest, q.us = false)
    (hrest : rest.map (·.bytes) = m.rest) :
    ∃ s', runPl Psi.table s (⟨true, m.first S, off⟩ :: rest) = .ok (s', [])
      ∧ Quiescent v s' ∧ s'.buf = s.buf := by
  subst hv
  exact rep_run (versionOf S) _ s hq (mux_payloads_rep S hS h8 m hm off rest hus hrest)

/-- the same for any sequence of repetition payloads: unit-start payloads of any well-formed
packetisations of any version-`v` sections, and continuation payloads, in ANY order and number
(this also covers repetitions truncated by the next repetition's start) -/
theorem dedup_blocks_repetition_payloads (v : Nat) (s : St) (hq : Quiescent v s) (qs : List Pl)
    (h : ∀ q ∈ qs, RepPayload v q ∧ 1 ≤ q.bytes.length) :
    ∃ s', runPl Psi.table s qs = .ok (s', []) ∧ Quiescent v s' ∧ s'.buf = s.buf :=
  rep_run v qs s hq h

/-- any number of consecutive complete repetitions (each with its own section bytes,
packetisation and offsets) -/
theorem dedup_blocks_equal_version_n (v : Nat) (s : St) (hq : Quiescent v s)
    (txs : List (Bytes × Mux × Nat × List Pl))
    (h : ∀ tx ∈ txs, WellFormedSection .syntax tx.1 ∧ 8 ≤ tx.1.length ∧ versionOf tx.1 = v
      ∧ WellFormedMux .syntax tx.1 tx.2.1 ∧ (∀ q ∈ tx.2.2.2, q.us = false)
      ∧ tx.2.2.2.map (·.bytes) = tx.2.1.rest) :
    ∃ s', runPl Psi.table s
        (txs.flatMap (fun tx => (⟨true, tx.2.1.first tx.1, tx.2.2.1⟩ : Pl) :: tx.2.2.2)) = .ok (s', [])
      ∧ Quiescent v s' ∧ s'.buf = s.buf := by
  apply rep_run v _ s hq
  intro q hq'
  obtain ⟨tx, htx, hmem⟩ := List.mem_flatMap.1 hq'
  obtain ⟨h1, h2, h3, h4, h5, h6⟩ := h tx htx
  have := mux_payloads_rep tx.1 h1 h2 tx.2.1 h4 tx.2.2.1 tx.2.2.2 h5 h6 q hmem
  rw [h3] at this
  exact this

/-- one 188-byte repetition packet through `Psi.consume` -/
theorem dedup_blocks_packet (v : Nat) (s : St) (hq : Quiescent v s) (p : Bytes) (hp : RepPacket v p) :
    ∃ s', Psi.consume Psi.table s p = .ok (s', []) ∧ Quiescent v s' ∧ s'.buf = s.buf :=
  psi_rep_packet v s hq p hp

/-- **how a filter becomes quiescent** (C03's `section_reassembled` through the dedup layer):
from any state satisfying the buffer invariant `PsiInv` (C03; holds in every reachable state) whose
remembered version differs from `versionOf S`, an intact well-formed transmission of `S` is
delivered exactly once — the deliveries are what the pointer bytes completed of the previous
buffer (at most one) followed by `S` — and the final state is quiescent at `versionOf S`. -/
theorem applied_sets_version (S : Bytes) (hS : WellFormedSection .syntax S) (h8 : 8 ≤ S.length)
    (m : Mux) (hm : WellFormedMux .syntax S m)
    (s : St) (hs : PsiInv .syntax s) (hv : s.lastVersion ≠ some (versionOf S))
    (off : Nat) (rest : List Pl) (hus : ∀ q ∈ rest, q.us = false)
    (hrest : rest.map (·.bytes) = m.rest) :
    ∃ sfin,
      runPl Psi.table s (⟨true, m.first S, off⟩ :: rest)
        = .ok (sfin, (preSpec Psi.table s m.pre).2
                      ++ [⟨S, if m.k = S.length then some (off + 1 + m.pre.length) else none⟩])
      ∧ (preSpec Psi.table s m.pre).2.length ≤ 1
      ∧ Quiescent (versionOf S) sfin ∧ sfin.ignoreRest = false ∧ sfin.dedupIgnore = false := by
  obtain ⟨sfin, h1, h2, h3, h4⟩ := table_applied S hS h8 m hm s hs hv off rest hus hrest
  exact ⟨sfin, h1, preSpec_at_most_one_table s hs m.pre, h2, h3, h4⟩

/-- applied once, then repeated any number of times: from a state that does not remember the
version, a transmission of `S` followed by ANY sequence of repetition payloads of that version
delivers `S` exactly once in total -/
theorem applied_once_then_repeated (S : Bytes) (hS : WellFormedSection .syntax S) (h8 : 8 ≤ S.length)
    (m : Mux) (hm : WellFormedMux .syntax S m)
    (s : St) (hs : PsiInv .syntax s) (hv : s.lastVersion ≠ some (versionOf S))
    (off : Nat) (rest : List Pl) (hus : ∀ q ∈ rest, q.us = false)
    (hrest : rest.map (·.bytes) = m.rest)
    (reps : List Pl) (hreps : ∀ q ∈ reps, RepPayload (versionOf S) q ∧ 1 ≤ q.bytes.length) :
    ∃ sfin,
      runPl Psi.table s ((⟨true, m.first S, off⟩ :: rest) ++ reps)
        = .ok (sfin, (preSpec Psi.table s m.pre).2
                      ++ [⟨S, if m.k = S.length then some (off + 1 + m.pre.length) else none⟩])
      ∧ Quiescent (versionOf S) sfin := by
  obtain ⟨s1, h1, hq1, _⟩ := table_applied S hS h8 m hm s hs hv off rest hus hrest
  obtain ⟨s2, h2, hq2, _⟩ := rep_run (versionOf S) reps s1 hq1 hreps
  refine ⟨s2, ?_, hq2⟩
  rw [runPl_append, h1]
  simp only [R.ok_bind, h2, List.append_nil]

/-! ### the application's PAT / PMT handlers -/

/-- **C10, PAT handler.**  A quiescent PAT handler given a repetition packet (any 188-byte packet
whose payload view is a repetition payload, or that has no payload): `consume` returns the context
`c` UNCHANGED (no `construct` request, no trace event, no tag consumed) and an EMPTY change list
(nothing inserted, replaced or removed); the handler is again a PAT handler with the same
registered set and a quiescent filter.

Scope: per handler instance (`hq` speaks of this instance's `lastVersion`); `hp : RepPacket` admits
only unit starts with at least 8 section bytes — the 8-byte fixed header — in the starting packet
(`RepPayload` → `WellFormedMux`), which excludes the resetting short start of F8 (0..2 bytes) and the
3..7-byte first shares of F13's shape. -/
theorem pat_handler_noop (v : Nat) (s : St) (reg : List Nat) (hq : Quiescent v s) (c : Ctx) (pk : Pk)
    (hp : RepPacket v pk.bytes) :
    ∃ s', App.consume (.pat s reg) c pk = .ok (.pat s' reg, c, [])
      ∧ Quiescent v s' ∧ s'.buf = s.buf := by
  obtain ⟨s', h1, h2, h3⟩ := psi_rep_packet v s hq pk.bytes hp
  refine ⟨s', ?_, h2, h3⟩
  rw [consume_pat_eq s s' reg c pk [] h1]; rfl

/-- **C10, PMT handler** — same statement and same scope as `pat_handler_noop`.  "Per handler
instance" matters here: every applied PAT version builds a FRESH PMT handler (`lastVersion = none`)
for every program it lists, so after a PAT version change the new instance is not `Quiescent` at the
PMT version its predecessor applied (F9). -/
theorem pmt_handler_noop (v : Nat) (pid prog : Nat) (s : St) (reg : List Nat) (hq : Quiescent v s)
    (c : Ctx) (pk : Pk) (hp : RepPacket v pk.bytes) :
    ∃ s', App.consume (.pmt pid prog s reg) c pk = .ok (.pmt pid prog s' reg, c, [])
      ∧ Quiescent v s' ∧ s'.buf = s.buf := by
  obtain ⟨s', h1, h2, h3⟩ := psi_rep_packet v s hq pk.bytes hp
  refine ⟨s', ?_, h2, h3⟩
  rw [consume_pmt_eq pid prog s s' reg c pk [] h1]; rfl

/-- both at once, with the handler relation `RepRel` -/
theorem table_handler_noop (v : Nat) (h : Handler) (hq : QuiescentH v h) (c : Ctx) (pk : Pk)
    (hp : RepPacket v pk.bytes) :
    ∃ h', App.consume h c pk = .ok (h', c, []) ∧ RepRel v h h' :=
  app_rep_noop v h hq c pk hp

/-- packets on a table PID that carry no payload (adaptation field only, or reserved
`adaptation_field_control = 00`): nothing at all happens, in ANY filter state -/
theorem no_payload_packet_noop (s : St) (reg : List Nat) (pid prog : Nat) (c : Ctx) (pk : Pk)
    (hl : pk.bytes.length = 188) (hn : plOf pk.bytes = none) :
    App.consume (.pat s reg) c pk = .ok (.pat s reg, c, [])
      ∧ App.consume (.pmt pid prog s reg) c pk = .ok (.pmt pid prog s reg, c, []) := by
  have h1 : Psi.consume Psi.table s pk.bytes = .ok (s, []) := by
    rw [consume_eq_plOf Psi.table s pk.bytes hl, hn]
  exact ⟨by rw [consume_pat_eq s s reg c pk [] h1]; rfl,
         by rw [consume_pmt_eq pid prog s s reg c pk [] h1]; rfl⟩

/-- a payload-less packet is a repetition packet of every version -/
theorem no_payload_is_repPacket (v : Nat) (p : Bytes) (hl : p.length = 188) (hn : plOf p = none) :
    RepPacket v p := ⟨hl, fun q hq => by rw [hn] at hq; cases hq⟩

/-! ### the dispatcher -/

/-- **C10, dispatcher.**  `t` holds a quiescent PAT / PMT handler `h` in the slot of `pk.pid`; `pk`
is an unflagged repetition packet.  One step of the dispatcher returns the SAME context and the
table `t` with that one slot rewritten by an equivalent handler `h'` (`RepRel`: same kind,
parameters and registered set, quiescent, buffer untouched).
Scope as for `pat_handler_noop`: `hq` is per handler instance (excludes F9), `hp` excludes short
starts (F8).  `C10_partial` derives both hypotheses from a history. -/
theorem repetition_block_noop (v : Nat) (t : Tab Handler) (c : Ctx) (pk : Pk) (h : Handler)
    (hg : t.get pk.pid = some h) (hq : QuiescentH v h) (hf : pk.flagged = false)
    (hp : RepPacket v pk.bytes) :
    ∃ h', RepRel v h h' ∧ Demux.specStep App.sem (t, c) pk = .ok (t.insert pk.pid h', c)
      ∧ ∀ q, q ≠ pk.pid → (t.insert pk.pid h').get q = t.get q := by
  obtain ⟨h', h1, h2⟩ := step_rep_noop v t c pk h hg hq hf hp
  exact ⟨h', h1, h2, fun q hq' => Tab.get_insert_ne _ _ _ _ hq'⟩

/-- the same for the real loops of `Demultiplex::push` on a whole buffer of repetition packets
of possibly several table PIDs (`ver pid` = the version the handler INSTANCE of `pid` is quiescent
at): same context; every slot not addressed by the packets is exactly as before; every quiescent
table handler is at most replaced by an equivalent one.  This is the n-fold, multi-packet form
("however often it repeats and however many packets it spans") — for packetisations whose starting
packets carry at least 8 section bytes (`RepPacket`; see F8) and per handler instance (see F9). -/
theorem repetition_run_noop (ver : Nat → Nat) (t : Tab Handler) (c : Ctx) (pks : List Pk)
    (h : ∀ pk ∈ pks, pk.flagged = false ∧ RepPacket (ver pk.pid) pk.bytes
      ∧ ∃ h, t.get pk.pid = some h ∧ QuiescentH (ver pk.pid) h) :
    ∃ t', Demux.pushSpec App.sem (t, c) pks = .ok (t', c)
      ∧ Demux.pushModel App.sem (t, c) pks = .ok (t', c)
      ∧ (∀ q, (∀ pk ∈ pks, pk.pid ≠ q) → t'.get q = t.get q)
      ∧ (∀ q h, t.get q = some h → QuiescentH (ver q) h →
           ∃ h', t'.get q = some h' ∧ RepRel (ver q) h h') := by
  obtain ⟨t', h1, h2, h3⟩ := run_rep_noop ver c pks t h
  exact ⟨t', h1, by rw [Ts.Props.C06.push_refines_spec]; exact h1, h2, h3⟩

/-- in particular every elementary-stream handler — its `PesFilter.F` state with the stored
continuity counter and the open/closed phase — is exactly as before, as are recorder handlers -/
theorem es_handlers_untouched (ver : Nat → Nat) (t : Tab Handler) (c : Ctx) (pks : List Pk)
    (h : ∀ pk ∈ pks, pk.flagged = false ∧ RepPacket (ver pk.pid) pk.bytes
      ∧ ∃ h, t.get pk.pid = some h ∧ QuiescentH (ver pk.pid) h) :
    ∃ t', Demux.pushSpec App.sem (t, c) pks = .ok (t', c) ∧
      (∀ q tag f, t.get q = some (.pes tag f) → t'.get q = some (.pes tag f)) ∧
      (∀ q tag, t.get q = some (.recorder tag) → t'.get q = some (.recorder tag)) := by
  obtain ⟨t', h1, h2, _⟩ := run_rep_noop ver c pks t h
  have key : ∀ q h0, t.get q = some h0 → ¬ (∃ v, QuiescentH v h0) → t'.get q = some h0 := by
    intro q h0 hg hn
    rw [h2 q]; exact hg
    intro pk hm e
    obtain ⟨_, _, h', hg', hq'⟩ := h pk hm
    rw [e, hg] at hg'
    cases hg'
    exact hn ⟨_, hq'⟩
  exact ⟨t', h1,
    fun q tag f hg => key q _ hg (by rintro ⟨v, hv⟩; exact hv),
    fun q tag hg => key q _ hg (by rintro ⟨v, hv⟩; exact hv)⟩

/-- **C10, straddling.**  `pk1`, `pk2`: two packets of an elementary-stream PID (slot holds
`.pes tag f`), e.g. two consecutive parts of one PES packet; `reps`: any run of table repetition
packets between them.  If the run WITHOUT the repetitions succeeds with context `cB`, the run WITH
them succeeds with exactly the same context — the trace of `start_stream` / `begin_packet` /
`continue_packet` / `end_packet` / `continuity_error` events is identical: no second stream start,
no spurious packet end or continuity error — and the stream handler ends in the same state.
Scope: every packet of `reps` must be a repetition on a handler instance quiescent at that version
(`hreps`; F8 and F9 are exactly the situations where this fails and the ES handler IS replaced
mid-packet).  `repetitions_deletable` generalises the shape `[pk1] ++ reps ++ [pk2]` to arbitrary
interleavings with the packets of any number of elementary-stream PIDs. -/
theorem pes_straddles_repetition (ver : Nat → Nat) (t : Tab Handler) (c : Ctx) (pk1 pk2 : Pk)
    (reps : List Pk) (tag : Nat) (f : PesFilter.F) (hpid : pk2.pid = pk1.pid)
    (hg : t.get pk1.pid = some (.pes tag f))
    (hreps : ∀ pk ∈ reps, pk.pid ≠ pk1.pid ∧ pk.flagged = false ∧ RepPacket (ver pk.pid) pk.bytes
      ∧ ∃ h, t.get pk.pid = some h ∧ QuiescentH (ver pk.pid) h)
    (tB : Tab Handler) (cB : Ctx)
    (hB : Demux.pushSpec App.sem (t, c) [pk1, pk2] = .ok (tB, cB)) :
    ∃ tA, Demux.pushSpec App.sem (t, c) (pk1 :: (reps ++ [pk2])) = .ok (tA, cB)
      ∧ tA.get pk1.pid = tB.get pk1.pid
      ∧ (∀ r, (∀ pk ∈ reps, pk.pid ≠ r) → tA.get r = tB.get r) :=
  es_straddle ver t c pk1 pk2 reps tag f hpid hg hreps tB cB hB

/-! ### non-vacuity -/

/-- the PAT section of C04: well-formed, 16 bytes, `version_number = 0` -/
example : WellFormedSection .syntax patGood ∧ patGood.length = 16 ∧ versionOf patGood = 0 := by
  decide +kernel

/-- a one-packet packetisation with stuffing, and a three-payload packetisation (8 + 3 + 5 bytes,
trailing stuffing, one extra stuffing payload) behind two `pointer_field` bytes -/
example : WellFormedMux .syntax patGood (muxOf patGood) := by decide +kernel
example : WellFormedMux .syntax patGood
    ⟨[0xaa, 0xbb], 8, [], [[0x00, 0x01, 0xe1], [0xe0, 0x2d, 0x50, 0x78, 0x04, 0xff]], [[0xff, 0xff]]⟩ := by
  decide +kernel

example : Quiescent 0 { lastVersion := some 0 } := ⟨rfl, rfl⟩
example : Quiescent 0 { lastVersion := some 0, ignoreRest := true, dedupIgnore := true, buf := patGood } :=
  ⟨rfl, rfl⟩

/-- `dedup_blocks_equal_version` on the three-payload packetisation -/
example : ∃ s', runPl Psi.table { lastVersion := some 0, buf := patGood }
      [⟨true, [0x02, 0xaa, 0xbb] ++ patGood.take 8, 177⟩,
       ⟨false, [0x00, 0x01, 0xe1], 185⟩,
       ⟨false, [0xe0, 0x2d, 0x50, 0x78, 0x04, 0xff], 182⟩,
       ⟨false, [0xff, 0xff], 186⟩] = .ok (s', [])
    ∧ Quiescent 0 s' ∧ s'.buf = patGood :=
  dedup_blocks_equal_version 0 _ ⟨rfl, rfl⟩ patGood (by decide +kernel) (by decide +kernel)
    (by decide +kernel)
    ⟨[0xaa, 0xbb], 8, [], [[0x00, 0x01, 0xe1], [0xe0, 0x2d, 0x50, 0x78, 0x04, 0xff]], [[0xff, 0xff]]⟩
    (by decide +kernel) 177 _ (by decide) rfl

/-- `applied_sets_version` from the initial state, then the model's own run agrees -/
example : ∃ sfin, runPl Psi.table {} [⟨true, plBytesOf patGood, 4⟩] = .ok (sfin, [⟨patGood, some 5⟩])
    ∧ Quiescent 0 sfin := by
  obtain ⟨sfin, h1, _, h2, _⟩ := applied_sets_version patGood (by decide +kernel) (by decide +kernel)
    (muxOf patGood) (by decide +kernel) {} (psiInv_of_none _ _ rfl) (by decide +kernel) 4 [] (by simp) rfl
  exact ⟨sfin, h1, h2⟩
example : Psi.consume Psi.table {} (pktOf patGood) = .ok ({ lastVersion := some 0 }, [⟨patGood, some 5⟩]) := by
  decide +kernel

/-- real 188-byte repetition packets: a unit-start packet with the whole PAT, a continuation
packet, an adaptation-field-only packet -/
theorem pktOf_patGood_rep : RepPacket 0 (pktOf patGood) := by
  refine ⟨by decide +kernel, ?_⟩
  intro q hq
  have : plOf (pktOf patGood) = some ⟨true, plBytesOf patGood, 4⟩ := by decide +kernel
  rw [this] at hq
  cases hq
  exact Or.inr ⟨patGood, muxOf patGood, by decide +kernel, by decide +kernel, by decide +kernel,
    by decide +kernel, rfl, by decide +kernel⟩

example : RepPacket 0 contPkt := by
  refine ⟨by decide +kernel, ?_⟩
  intro q hq
  have : plOf contPkt = some ⟨false, List.replicate 184 0xff, 4⟩ := by decide +kernel
  rw [this] at hq
  cases hq
  exact Or.inl rfl

example : RepPacket 0 afOnlyPkt :=
  no_payload_is_repPacket 0 afOnlyPkt (by decide +kernel) (by decide +kernel)

/-- the handler theorem's conclusion on the model itself (PAT handler that has applied version 0
and registered PMT PID 0x1e0) -/
example : ∃ s', App.consume (.pat { lastVersion := some 0 } [0x1e0]) { cfg := {} } (pk0 (pktOf patGood) 188)
    = .ok (.pat s' [0x1e0], { cfg := {} }, []) ∧ Quiescent 0 s' ∧ s'.buf = [] :=
  pat_handler_noop 0 _ _ ⟨rfl, rfl⟩ _ _ pktOf_patGood_rep

/-- the dispatcher hypotheses are satisfiable: PAT handler in slot 0, an ES handler in slot 0x100 -/
example : ∃ (t : Tab Handler) (pk : Pk) (h : Handler),
    t.get pk.pid = some h ∧ QuiescentH 0 h ∧ pk.flagged = false ∧ RepPacket 0 pk.bytes
      ∧ t.get 0x100 = some (.pes 7 { cc := some 3, st := .started }) :=
  ⟨(Tab.insert [] 0 (.pat { lastVersion := some 0 } [0x1e0])).insert 0x100 (.pes 7 { cc := some 3, st := .started }),
   pk0 (pktOf patGood) 0, .pat { lastVersion := some 0 } [0x1e0],
   by rw [show (pk0 (pktOf patGood) 0).pid = 0 from rfl, Tab.get_insert_ne _ _ _ _ (by decide),
        Tab.get_insert_self],
   ⟨rfl, rfl⟩, rfl, pktOf_patGood_rep, Tab.get_insert_self _ _ _⟩

/-- whole application: PAT applied once; two further copies change neither the table size, the
tag counter nor the trace -/
example : summary (runApp {} [pktOf patGood]) = some (481, 2, 2)
    ∧ summary (runApp {} [pktOf patGood ++ pktOf patGood ++ contPkt ++ pktOf patGood]) = some (481, 2, 2) := by
  decide +kernel

/-! ## The property at full strength, its two gaps (F8, F9), and the strongest true statement -/

/-! ### vocabulary, spelled out -/

/-- a unit-start payload `b` (`b[0]` = `pointer_field`) with fewer than 3 bytes after the pointer bytes -/
theorem shortStart_iff (b : Bytes) : ShortStart b ↔ (1 ≤ b.length ∧ b.length < byteD b 0 + 4) := Iff.rfl

/-- the version an event applies on PID `p`: a PAT on PID 0, a PMT on its own PID `p ≠ 0` -/
theorem appliedOn_iff (p : Nat) :
    (∀ v es, appliedOn p (.patApplied v es) = if p = 0 then some v else none)
    ∧ (∀ q v b, appliedOn p (.pmtApplied q v b) = if p ≠ 0 ∧ q = p then some v else none)
    ∧ (∀ q, appliedOn p (.esPacket q) = none) ∧ (∀ q, appliedOn p (.repetition q) = none) :=
  ⟨fun _ _ => rfl, fun _ _ _ => rfl, fun _ => rfl, fun _ => rfl⟩

/-- "the version of the section last applied on PID `p`": the last event of the HISTORY that applies
a table on `p` -/
theorem lastAppliedOn_iff (p v : Nat) (evs : List Event) :
    lastAppliedOn p evs = some v ↔
      ∃ pre ev post, evs = pre ++ ev :: post ∧ appliedOn p ev = some v ∧ ∀ e ∈ post, appliedOn p e = none :=
  ⟨lastAppliedOn_split p v evs,
   fun ⟨pre, ev, post, e, h1, h2⟩ => by rw [e]; exact lastAppliedOn_of_split p v pre post ev h1 h2⟩

theorem tablePid_iff (r : Route) (p : Nat) :
    tablePid r p = true ↔
      ((p = 0 ∧ ∃ tag, r.slots 0 = some (.byPid 0, tag)) ∨ (p ≠ 0 ∧ ∃ prog tag, r.slots p = some (.pmt p prog, tag))) := by
  unfold tablePid
  by_cases hp : p = 0
  · subst hp; rw [if_pos rfl, patRouted_iff]; simp
  · rw [if_neg hp, pmtRouted_iff]; simp [hp]

theorem rebuiltSinceLast_iff (p : Nat) (evs : List Event) :
    RebuiltSinceLast p evs ↔
      ∃ pre ev post, evs = pre ++ ev :: post ∧ (appliedOn p ev).isSome = true
        ∧ (∀ e ∈ post, appliedOn p e = none)
        ∧ ∃ e ∈ post, ∃ v es, e = .patApplied v es ∧ p ∈ es.map PatEntry.pid := Iff.rfl

theorem legalMux_iff (kind : Kind) (S : Bytes) (m : Mux) :
    WellFormedMux kind S m ↔ (LegalMux S m ∧ minHeader kind ≤ (S.take m.k ++ m.tailBytes).length) :=
  wellFormedMux_iff_legal kind S m

/-! ### F8: a short start resets the de-duplication -/

/-- **F8 mechanism.**  `q`: the payload of a unit-start packet with fewer than 3 bytes after its
pointer bytes (the 3-byte `table_id` / `section_length` part of the section header straddles two
packets, or the pointer reaches the end of the payload).  From ANY state satisfying the buffer invariant (C03; in particular every quiescent
state), `SectionPacketConsumer::consume` on the `table` chain does not panic, delivers at most the one
section its pointer bytes completed — nothing at all when the buffer layer was `Complete` — and
leaves the chain RESET: `lastVersion = none`, buffer empty and `Complete`.  The dedup layer has
forgotten the version it applied. -/
theorem short_start_resets (s : St) (hs : PsiInv .syntax s) (q : Pl) (hus : q.us = true)
    (hshort : ShortStart q.bytes) :
    ∃ s' ds, consumePayload Psi.table s q.us q.bytes q.off = .ok (s', ds)
      ∧ s'.lastVersion = none ∧ s'.remaining = none ∧ s'.buf = [] ∧ s'.dedupIgnore = false
      ∧ ds.length ≤ 1 ∧ (s.remaining = none → ds = []) := by
  rw [hus]
  obtain ⟨s', ds, h, a, b, c, d, _, e, f⟩ := short_start_consume s hs q.bytes q.off hshort
  exact ⟨s', ds, h, a, b, c, d, e, f⟩

/-- the same for a quiescent filter and a whole 188-byte packet: NO delivery, version forgotten -/
theorem short_start_resets_packet (v : Nat) (s : St) (hq : Quiescent v s) (p : Bytes) (hl : p.length = 188)
    (q : Pl) (hpl : plOf p = some q) (hus : q.us = true) (hshort : ShortStart q.bytes) :
    ∃ s', Psi.consume Psi.table s p = .ok (s', []) ∧ s'.lastVersion = none ∧ s'.remaining = none := by
  obtain ⟨s', ds, h, a, b, c⟩ := short_start_packet s (quiescent_inv v s hq) p hl q hpl hus hshort
  rw [c hq.2] at h
  exact ⟨s', h, a, b⟩

/-- **F8, filter level, in general.**  A filter quiescent at `v`; one short-start payload; then ANY
well-formed transmission of ANY well-formed section `S` with the SAME `version_number = v`: `S` is
DELIVERED (to the CRC layer and, if its CRC verifies, applied again). -/
theorem short_start_then_repeat_reapplied (v : Nat) (s : St) (hq : Quiescent v s)
    (b : Bytes) (off0 : Nat) (hshort : ShortStart b)
    (S : Bytes) (hS : WellFormedSection .syntax S) (h8 : 8 ≤ S.length) (hv : versionOf S = v)
    (m : Mux) (hm : WellFormedMux .syntax S m) (off : Nat) (rest : List Pl)
    (hus : ∀ q ∈ rest, q.us = false) (hrest : rest.map (·.bytes) = m.rest) :
    ∃ sfin, runPl Psi.table s (⟨true, b, off0⟩ :: ⟨true, m.first S, off⟩ :: rest)
        = .ok (sfin, [⟨S, if m.k = S.length then some (off + 1 + m.pre.length) else none⟩])
      ∧ Quiescent v sfin := by
  obtain ⟨s1, ds, h1, a, b1, _, _, _, _, c⟩ := short_start_consume s (quiescent_inv v s hq) b off0 hshort
  rw [c hq.2] at h1
  obtain ⟨sfin, h2, _, h3, _⟩ := applied_sets_version S hS h8 m hm s1 (psiInv_of_none _ _ b1)
    (by rw [a]; exact fun e => by cases e) off rest hus hrest
  rw [preSpec_idle _ _ _ b1] at h2
  refine ⟨sfin, ?_, by rw [← hv]; exact h3⟩
  have e : runPl Psi.table s (⟨true, b, off0⟩ :: ⟨true, m.first S, off⟩ :: rest)
      = (consumePayload Psi.table s true b off0 >>= fun r1 =>
          runPl Psi.table r1.1 (⟨true, m.first S, off⟩ :: rest) >>= fun r2 => R.ok (r2.1, r1.2 ++ r2.2)) := by
    cases hc : consumePayload Psi.table s true b off0 with
    | panic msg => simp only [runPl, hc]; rfl
    | ok r1 =>
      obtain ⟨sa, da⟩ := r1
      simp only [runPl, hc, R.ok_bind]
      rfl
  rw [e, h1]
  simp only [R.ok_bind, h2, List.nil_append]

/-- **which hypothesis excludes F8.**  A short start is never a repetition payload: `RepPayload`
demands a `WellFormedMux`, whose clause `minHeader .syntax = 8 ≤ (S.take m.k ++ m.tailBytes).length`
puts at least 8 section bytes — the whole 8-byte fixed header — behind the pointer bytes.  (The same
clause excludes first shares of 3..7 bytes, which do not reset but set `ignore_rest`: F13's shape.)
Hence no theorem of this file whose hypothesis is `RepPayload` / `RepPacket` (and no history admitted
by `Realises`) says anything about a stream containing such a packet. -/
theorem short_start_not_repPayload (v : Nat) (q : Pl) (hus : q.us = true) (hshort : ShortStart q.bytes) :
    ¬ RepPayload v q := by
  rintro (h | ⟨S, m, _, _, _, hm, _, hb⟩)
  · rw [hus] at h; cases h
  · obtain ⟨_, hmin, hsz, _, _⟩ := hm
    have hmin' : 8 ≤ (S.take m.k ++ m.tailBytes).length := hmin
    have hfl := first_length S m
    have hlt : m.pre.length < 256 := by have := hsz.2; omega
    have hb0 : byteD (m.first S) 0 = m.pre.length := by
      unfold Mux.first
      rw [byteD_cons_zero, UInt8.toNat_ofNat']
      exact Nat.mod_eq_of_lt hlt
    obtain ⟨_, h2⟩ := hshort
    rw [hb, hb0, hfl] at h2
    omega

/-- `short_start_resets_packet` and `short_start_then_repeat_reapplied` on the packets of probe F8:
the straddling packet on a PAT filter that has applied version 0, then the ordinary PAT v0 packet -/
example : ∃ s', Psi.consume Psi.table { lastVersion := some 0 } straddlePkt = .ok (s', [])
    ∧ s'.lastVersion = none ∧ s'.remaining = none :=
  short_start_resets_packet 0 _ ⟨rfl, rfl⟩ straddlePkt straddle_plOf.2.2.1 _ straddle_plOf.1 rfl straddle_short

example : ∃ sfin, runPl Psi.table { lastVersion := some 0 }
      [⟨true, straddleMux.first patSecV0, 4⟩, ⟨true, (muxOf patSecV0).first patSecV0, 4⟩]
      = .ok (sfin, [⟨patSecV0, some 5⟩]) ∧ Quiescent 0 sfin := by
  obtain ⟨_, _, a3, a4, a5, a6⟩ := straddleMux_legal
  obtain ⟨sfin, h1, h2⟩ := short_start_then_repeat_reapplied 0 { lastVersion := some 0 } ⟨rfl, rfl⟩
    (straddleMux.first patSecV0) 4 straddle_short patSecV0 a4 (by rw [a5]; decide) a6
    (muxOf patSecV0) (by decide +kernel) 4 [] (by simp) rfl
  exact ⟨sfin, h1, h2⟩

example : ¬ RepPacket 0 straddlePkt := fun h =>
  short_start_not_repPayload 0 _ rfl straddle_short (h.2 _ straddle_plOf.1)

/-- **the property for packetisations that may cut the section ANYWHERE** (filter level): in a
quiescent state, any sequence of complete transmissions of well-formed version-`v` sections, each in
any `LegalMux` packetisation (= `WellFormedMux` minus "the starting packet carries the 8-byte fixed
header"), delivers nothing -/
def C10_any_cut : Prop :=
  ∀ (v : Nat) (s : St), Quiescent v s → ∀ (txs : List (Bytes × Mux)),
    (∀ tx ∈ txs, WellFormedSection .syntax tx.1 ∧ 8 ≤ tx.1.length ∧ versionOf tx.1 = v ∧ LegalMux tx.1 tx.2) →
    ∃ s', runPl Psi.table s (txs.flatMap (fun tx => muxPayloads tx.1 tx.2)) = .ok (s', [])

/-- **F8: FALSE.**  Witness: the filter quiescent at version 0; PAT v0 transmitted with
`pointer_field = 181` so that only its first 2 bytes are in the starting payload (`straddleMux`);
then PAT v0 in one packet: the second copy is delivered. -/
theorem C10_any_cut_false : ¬ C10_any_cut := by
  intro h
  obtain ⟨a1, _, a3, a4, a5, a6⟩ := straddleMux_legal
  obtain ⟨s', hs'⟩ := h 0 { lastVersion := some 0 } ⟨rfl, rfl⟩
    [(patSecV0, straddleMux), (patSecV0, muxOf patSecV0)] (by
      intro tx hm
      simp only [List.mem_cons, List.not_mem_nil, or_false] at hm
      rcases hm with rfl | rfl
      · exact ⟨a4, by rw [a5]; decide, a6, a1⟩
      · exact ⟨a4, by rw [a5]; decide, a6, a3⟩)
  have e : [(patSecV0, straddleMux), (patSecV0, muxOf patSecV0)].flatMap (fun tx => muxPayloads tx.1 tx.2)
      = muxPayloads patSecV0 straddleMux ++ muxPayloads patSecV0 (muxOf patSecV0) := by
    simp [List.flatMap_cons]
  rw [e, straddle_then_repeat_delivered.2] at hs'
  cases hs'

/-- **F8 on the whole application, on the exact probe bytes** (`F8 demux b0t0 …`, `F8c …` of
`/verif/known_findings.json`; `runApp {}` = harness mode `b0t0`).  `observe10` = (`construct`
requests with their tags, elementary-stream callbacks as (tag, kind), slot 0x100, slot 0x101).

* control `f8cBytes` (PAT v0, PMT v0, ES start, then PAT v0 / PMT v0 twice more): the requests are
  `ByPid(0)`→0, `Pmt(0x100, 1)`→1, `Stream(0x100, 0x1b, 0x101, …)`→2 and nothing else; the ES
  consumer 2 saw `start`, `begin`; slot 0x101 holds the PES filter tagged 2.
* `f8PrefixBytes` (… PAT v0, PMT v0, then PAT v0 with its header straddling two packets): still
  nothing — the straddling transmission itself is not applied.
* `f8Bytes` (… then PAT v0 and PMT v0 once more): the PAT is RE-APPLIED — `Pmt(0x100, 1)`→3 — and so
  is the PMT by the rebuilt handler — `Stream(0x100, 0x1b, 0x101, …)`→4; slot 0x101 now holds the
  fresh PES filter tagged 4: the open PES packet of consumer 2 is orphaned.
Identical to the output of the real code on these bytes. -/
theorem C10_straddle_counterexample :
    observe10 (runApp {} [f8cBytes])
      = some ([(.byPid 0, 0), (.pmt 0x100 1, 1), (.stream 0x100 0x1b 0x101 0x101 [] [], 2)],
          [(2, 0), (2, 1)], .pmt 0x100 1 [0x101], .pes 2)
    ∧ observe10 (runApp {} [f8PrefixBytes])
      = some ([(.byPid 0, 0), (.pmt 0x100 1, 1), (.stream 0x100 0x1b 0x101 0x101 [] [], 2)],
          [(2, 0), (2, 1)], .pmt 0x100 1 [0x101], .pes 2)
    ∧ observe10 (runApp {} [f8Bytes])
      = some ([(.byPid 0, 0), (.pmt 0x100 1, 1), (.stream 0x100 0x1b 0x101 0x101 [] [], 2),
           (.pmt 0x100 1, 3), (.stream 0x100 0x1b 0x101 0x101 [] [], 4)],
          [(2, 0), (2, 1)], .pmt 0x100 1 [0x101], .pes 4) :=
  ⟨f8c_run, f8_prefix_run, f8_run⟩

/-- the same read as statements about the final table and trace; and the sixth packet of the probe
IS a short start on a PAT filter that has applied version 0 (`short_start_resets_packet` applies) -/
theorem C10_straddle_counterexample' :
    (∃ t c, runApp {} [f8Bytes] = .ok (t, c)
      ∧ requests (runApp {} [f8Bytes]) = [.byPid 0, .pmt 0x100 1, .stream 0x100 0x1b 0x101 0x101 [] [],
          .pmt 0x100 1, .stream 0x100 0x1b 0x101 0x101 [] []]
      ∧ Ev.construct (.stream 0x100 0x1b 0x101 0x101 [] []) 4 ∈ c.trace
      ∧ ∃ f, t.get 0x101 = some (.pes 4 f))
    ∧ requests (runApp {} [f8cBytes]) = [.byPid 0, .pmt 0x100 1, .stream 0x100 0x1b 0x101 0x101 [] []]
    ∧ (∃ q, plOf straddlePkt = some q ∧ q.us = true ∧ ShortStart q.bytes ∧ straddlePkt.length = 188) := by
  have hreq : ∀ (t : Tab Handler) (c : Ctx), requests (.ok (t, c)) = (constructs c).map (·.1) := by
    intro t c
    simp only [requests, constructs, List.map_filterMap]
    congr 1; funext e; cases e <;> rfl
  refine ⟨?_, ?_, ⟨_, straddle_plOf.1, rfl, straddle_short, straddle_plOf.2.2.1⟩⟩
  · obtain ⟨t, c, hr, hc, _, _, h101⟩ := observe10_some _ _ f8_run
    refine ⟨t, c, hr, (congrArg requests hr).trans ((hreq t c).trans ?_), ?_, slot_pes _ _ h101⟩
    · rw [hc]; decide +kernel
    · rw [← mem_constructs, hc]; decide +kernel
  · obtain ⟨t, c, hr, hc, _⟩ := observe10_some _ _ f8c_run
    refine (congrArg requests hr).trans ((hreq t c).trans ?_)
    rw [hc]; decide +kernel

/-! ### F9: the statement over whole histories is false -/

/-- **C10 at full strength, over whole histories.**  `evs`: any well-formed history of applied PAT /
PMT versions, elementary-stream packets and table repetitions (`Spec.RoutingHistory`); `pks`: any
packets realising it (`Realises`: every table transmission intact, in a well-formed packetisation —
at least the 8-byte fixed header in the starting packet, which excludes F8's short starts; no damaged
copies and no foreign tables on table PIDs), run from `Demultiplex::new` to `(t, c)`.  If the table LAST APPLIED
on PID `p` IN THE HISTORY had version `v` (`lastAppliedOn`: the last `patApplied` if `p = 0`, the last
`pmtApplied p` otherwise — no reference to any handler's state) and `p` still carries tables
(`tablePid`), then any run `reps` of repetition packets of version `v` on `p` (any number, each a
piece of any well-formed packetisation of any version-`v` section): the real loops do not panic, NO
`construct` event is appended, and every slot other than `p` is as before. -/
def C10_full : Prop :=
  ∀ (cfg : App.Cfg) (evs : List Event) (pks : List Pk) (p v : Nat) (reps : List Pk) (t : Tab Handler) (c : Ctx),
    cfg.script = [] → WF initRoute evs → Realises initRoute evs pks →
    lastAppliedOn p evs = some v → tablePid (run initRoute evs) p = true →
    pushModel App.sem (App.init cfg) pks = .ok (t, c) →
    (∀ pk ∈ reps, pk.pid = p ∧ pk.flagged = false ∧ RepPacket v pk.bytes) →
    ∃ t' c', pushModel App.sem (t, c) reps = .ok (t', c') ∧ constructs c' = constructs c
      ∧ ∀ q, q ≠ p → t'.get q = t.get q

/-- **known finding F9: `C10_full` is FALSE of the pinned code.**  Witness (the first four packets
of probe F9 as the history, its fifth as the repetition): PAT v0 {1 → 0x100}, PMT v0 {0x1b on 0x101},
a packet on 0x101, PAT v1 with the SAME program loop; then PMT v0 again on 0x100.  The last table
applied on 0x100 had version 0 and the packet is a repetition packet of version 0, yet it appends a
`construct` event (the stream handler is re-requested, tag 4): PAT v1 rebuilt the PMT handler of the
unchanged program, and the new instance's `lastVersion` is `none`. -/
theorem C10_full_false : ¬ C10_full := by
  intro h
  obtain ⟨t, c, -, hrun, -, -, -, hlog, -⟩ :=
    Ts.Props.C05History.routing_refines {} rfl f9Hist f9Pks f9_wf f9_realises
  obtain ⟨t', c', hrep, hcs, -⟩ := h {} f9Hist f9Pks 0x100 0 [f9Rep] t c rfl f9_wf f9_realises
    (by decide +kernel) (by decide +kernel) hrun
    (by intro pk hm; rw [List.mem_singleton] at hm; subst hm; exact ⟨rfl, rfl, pmtPkt_rep 1 (by decide)⟩)
  have hall : pushModel App.sem (App.init {}) (f9Pks ++ [f9Rep]) = .ok (t', c') := by
    rw [Ts.Props.C06.push_refines_spec] at hrun hrep ⊢
    rw [pushSpec_append_aux, hrun]
    exact hrep
  obtain ⟨t2, c2, hr2, hc2, -⟩ := observe10_some _ _ f9_run
  rw [Ts.Props.C05History.runApp_one {} f9Bytes _ f9_frame, hall] at hr2
  cases hr2
  rw [hcs, hlog, f9_requests] at hc2
  exact absurd hc2 (by decide)

/-- **F9 on the exact probe bytes** (`F9 demux b0t0 …`).  After PAT v0, PMT v0, ES start, PAT v1 the
requests are `ByPid(0)`→0, `Pmt(0x100,1)`→1, `Stream(…0x101…)`→2, `Pmt(0x100,1)`→3 (the rebuilt PMT
handler, nothing registered); slot 0x101 still holds the PES filter tagged 2, which saw `start`,
`begin`.  The repeated PMT v0 then adds `Stream(…0x101…)`→4 and REPLACES slot 0x101 by the fresh PES
filter tagged 4.  Identical to the output of the real code. -/
theorem C10_F9_counterexample :
    observe10 (runApp {} [f9PrefixBytes])
      = some ([(.byPid 0, 0), (.pmt 0x100 1, 1), (.stream 0x100 0x1b 0x101 0x101 [] [], 2), (.pmt 0x100 1, 3)],
          [(2, 0), (2, 1)], .pmt 0x100 1 [], .pes 2)
    ∧ observe10 (runApp {} [f9Bytes])
      = some ([(.byPid 0, 0), (.pmt 0x100 1, 1), (.stream 0x100 0x1b 0x101 0x101 [] [], 2), (.pmt 0x100 1, 3),
           (.stream 0x100 0x1b 0x101 0x101 [] [], 4)],
          [(2, 0), (2, 1)], .pmt 0x100 1 [0x101], .pes 4) :=
  ⟨f9_prefix_run, f9_run⟩

/-! ### the strongest true statement at history level -/

/-- **C10, partial (history level).**  The history splits as `pre ++ ev :: post` where `ev` is the
LAST table applied on `p` (version `v`; nothing in `post` applies a table on `p`) and — the extra
hypothesis — no PAT version in `post` lists `p` in its program loop (vacuous for `p = 0`).  Then, for
the packets of any realisation run from `Demultiplex::new` (either build, no recorder script), any
run of repetition packets of version `v` on `p`: the real loops return the SAME context (no request,
no elementary-stream event, no tag consumed), every other slot — every elementary-stream handler with
its continuity counter and open/closed PES state — is untouched, slot `p` holds an equivalent handler.

What `Realises` contributes (and hides): between the applications, every packet on a table PID is a
repetition packet in the sense of `RepPacket` (or carries no payload / a continuation), so no short
start (F8; fewer than the 8 fixed header bytes in the starting packet), no damaged copy (F12) and no
foreign table (DESIGN 8.1b; `unapplied_start_then_repeat_reapplied`) occurs.  What the extra hypothesis contributes: the handler instance that applied `ev` is
still the one in slot `p` (F9). -/
theorem C10_partial (cfg : App.Cfg) (hscript : cfg.script = []) (pre post : List Event) (ev : Event)
    (pks : List Pk) (p v : Nat) (reps : List Pk) (t : Tab Handler) (c : Ctx)
    (hwf : WF initRoute (pre ++ ev :: post)) (hre : Realises initRoute (pre ++ ev :: post) pks)
    (hev : appliedOn p ev = some v)
    (hpost : ∀ e ∈ post, appliedOn p e = none ∧ ∀ v' es, e = .patApplied v' es → p ∉ es.map PatEntry.pid)
    (hrt : tablePid (run initRoute (pre ++ ev :: post)) p = true)
    (hrun : pushModel App.sem (App.init cfg) pks = .ok (t, c))
    (hreps : ∀ pk ∈ reps, pk.pid = p ∧ pk.flagged = false ∧ RepPacket v pk.bytes) :
    lastAppliedOn p (pre ++ ev :: post) = some v ∧
    ∃ t' h h', pushModel App.sem (t, c) reps = .ok (t', c)
      ∧ (∀ q, q ≠ p → t'.get q = t.get q)
      ∧ t.get p = some h ∧ t'.get p = some h' ∧ RepRel v h h' := by
  refine ⟨lastAppliedOn_of_split p v pre post ev hev (fun e he => (hpost e he).1), ?_⟩
  obtain ⟨t0, c0, -, h2, hsim⟩ := Ts.Props.C05History.routing_refines_from initRoute _ _ _ pks
    (sim_init cfg hscript) hwf hre
  rw [show ((App.init cfg).1, (App.init cfg).2) = App.init cfg from rfl, hrun] at h2
  cases h2
  have htv := tableVersion_of_last initRoute pre post ev p v hev hpost hrt
  obtain ⟨t', h, h', -, a, b, d, e, f⟩ := rep_noop_of_sim _ t c hsim p v hrt htv reps hreps
  exact ⟨t', h, h', a, b, d, e, f⟩

/-- the same in the shape of `C10_full`: its hypotheses plus `¬ RebuiltSinceLast p evs`, with the
stronger conclusion (the whole context is unchanged) -/
theorem C10_partial' (cfg : App.Cfg) (evs : List Event) (pks : List Pk) (p v : Nat) (reps : List Pk)
    (t : Tab Handler) (c : Ctx) (hscript : cfg.script = []) (hwf : WF initRoute evs)
    (hre : Realises initRoute evs pks) (hlast : lastAppliedOn p evs = some v)
    (hrt : tablePid (run initRoute evs) p = true)
    (hrun : pushModel App.sem (App.init cfg) pks = .ok (t, c))
    (hreps : ∀ pk ∈ reps, pk.pid = p ∧ pk.flagged = false ∧ RepPacket v pk.bytes)
    (hno : ¬ RebuiltSinceLast p evs) :
    ∃ t', pushModel App.sem (t, c) reps = .ok (t', c) ∧ ∀ q, q ≠ p → t'.get q = t.get q := by
  obtain ⟨pre, ev, post, rfl, hev, hpost⟩ := lastAppliedOn_split p v evs hlast
  have hpost' : ∀ e ∈ post, appliedOn p e = none ∧
      ∀ v' es, e = .patApplied v' es → p ∉ es.map PatEntry.pid := by
    intro e he
    refine ⟨hpost e he, ?_⟩
    intro v' es heq hmem
    exact hno ⟨pre, ev, post, rfl, by rw [hev]; rfl, hpost, e, he, v', es, heq, hmem⟩
  obtain ⟨-, t', _, _, a, b, -⟩ := C10_partial cfg hscript pre post ev pks p v reps t c hwf hre hev hpost'
    hrt hrun hreps
  exact ⟨t', a, b⟩

/-- **the gap at history level is EXACTLY F9**: whenever the conclusion of `C10_full` fails under its
hypotheses, a PAT version listing `p` was applied after the last table applied on `p`.

"Exactly" is RELATIVE to the hypotheses `hre : Realises …` and `hreps : … RepPacket …`.  `Realises`
admits on table PIDs only intact transmissions of the history's tables and their repetitions, every
one in a `WellFormedMux` packetisation.  Outside it — and therefore NOT covered by "the only gap" —
lie: starting packets with fewer than 8 section bytes (F8 for 0..2 bytes); DAMAGED copies between
repetitions (`damaged_copy_between_repeats`, known finding F12 of C04); FOREIGN tables (another
`table_id` with its own version) between repetitions (`foreign_table_between_repeats`, scope
observation DESIGN 8.1b).  On each of these the unchanged table IS re-applied
(`short_start_then_repeat_reapplied`, `unapplied_start_then_repeat_reapplied`). -/
theorem C10_gap_is_F9 (cfg : App.Cfg) (evs : List Event) (pks : List Pk) (p v : Nat) (reps : List Pk)
    (t : Tab Handler) (c : Ctx) (hscript : cfg.script = []) (hwf : WF initRoute evs)
    (hre : Realises initRoute evs pks) (hlast : lastAppliedOn p evs = some v)
    (hrt : tablePid (run initRoute evs) p = true)
    (hrun : pushModel App.sem (App.init cfg) pks = .ok (t, c))
    (hreps : ∀ pk ∈ reps, pk.pid = p ∧ pk.flagged = false ∧ RepPacket v pk.bytes)
    (hfail : ¬ ∃ t' c', pushModel App.sem (t, c) reps = .ok (t', c') ∧ constructs c' = constructs c
      ∧ ∀ q, q ≠ p → t'.get q = t.get q) :
    RebuiltSinceLast p evs := by
  apply Classical.byContradiction
  intro hno
  obtain ⟨t', a, b⟩ := C10_partial' cfg evs pks p v reps t c hscript hwf hre hlast hrt hrun hreps hno
  exact hfail ⟨t', c, a, rfl, b⟩

/-- the F9 history does have the PAT in between -/
example : RebuiltSinceLast 0x100 f9Hist :=
  ⟨[.patApplied 0 [.program 1 0x100]], .pmtApplied 0x100 0 pmtBodyV0,
   [.esPacket 0x101, .patApplied 1 [.program 1 0x100]], rfl, by decide, by decide +kernel,
   .patApplied 1 [.program 1 0x100], by simp, 1, [.program 1 0x100], rfl, by decide⟩

/-! ### repetitions can be deleted from any interleaving -/

/-- **C10, arbitrary interleavings ("placed anywhere relative to elementary-stream packets").**
`pks`: any packet sequence in which every packet marked `isRep` is an unflagged repetition packet on
a PID whose slot (in `t`) holds a table handler quiescent at that version, and every other packet
goes to a PID whose slot holds an elementary-stream handler (any number of elementary PIDs, flagged
packets allowed).  If the run over `pks` WITH ALL REPETITION PACKETS DELETED succeeds with context
`cB`, the run over `pks` succeeds with EXACTLY the same context — so every consumer's trace of
`start_stream` / `begin_packet` / `continue_packet` / `end_packet` / `continuity_error` events is the
one it would have seen without the repetitions — and the final tables agree slot by slot, except
that on repetition PIDs the table handler may have been rewritten by an equivalent one (`RepRel`);
in particular every elementary-stream handler ends in the same state.
Scope: per handler instance and per `RepPacket`, as for `repetition_run_noop`. -/
theorem repetitions_deletable (ver : Nat → Nat) (isRep : Pk → Bool) (t : Tab Handler) (c : Ctx)
    (pks : List Pk)
    (hrep : ∀ pk ∈ pks, isRep pk = true → pk.flagged = false ∧ RepPacket (ver pk.pid) pk.bytes
      ∧ ∃ h, t.get pk.pid = some h ∧ QuiescentH (ver pk.pid) h)
    (hoth : ∀ pk ∈ pks, isRep pk = false → ∃ tag f, t.get pk.pid = some (.pes tag f))
    (tB : Tab Handler) (cB : Ctx)
    (hB : pushSpec App.sem (t, c) (pks.filter (fun pk => !isRep pk)) = .ok (tB, cB)) :
    ∃ tA, pushSpec App.sem (t, c) pks = .ok (tA, cB) ∧ pushModel App.sem (t, c) pks = .ok (tA, cB)
      ∧ (∀ q, tA.get q = tB.get q ∨
          ((∃ pk ∈ pks, isRep pk = true ∧ pk.pid = q) ∧
            ∃ hA hB, tA.get q = some hA ∧ tB.get q = some hB ∧ RepRel (ver q) hB hA))
      ∧ (∀ q tag f, tB.get q = some (.pes tag f) → tA.get q = some (.pes tag f)) := by
  obtain ⟨tA, h1, h2⟩ := reps_deletable_aux ver isRep (fun q => ∃ pk ∈ pks, isRep pk = true ∧ pk.pid = q)
    pks t t c (fun q => Or.inl rfl)
    (fun pk hm hr => by
      obtain ⟨a, b, d⟩ := hrep pk hm hr
      exact ⟨⟨pk, hm, hr, rfl⟩, a, b, d⟩) hoth tB cB hB
  refine ⟨tA, h1, by rw [Ts.Props.C06.push_refines_spec]; exact h1, h2, ?_⟩
  intro q tag f hg
  rcases h2 q with e | ⟨_, hA, hB', e1, e2, e3⟩
  · rw [e]; exact hg
  · rw [hg] at e2; cases e2; exact e3.elim

/-! ### non-vacuity of the main theorems, on the packets of the probes -/

/-- `pmt_handler_noop` on the repeated PMT packet of probe F8c: the instance that applied it -/
example : ∃ s', App.consume (.pmt 0x100 1 { lastVersion := some 0 } [0x101]) exCtx (pkAt (pmtPkt 1 pmtSecV0) 4 0x100)
    = .ok (.pmt 0x100 1 s' [0x101], exCtx, []) ∧ Quiescent 0 s' ∧ s'.buf = [] :=
  pmt_handler_noop 0 _ _ _ _ ⟨rfl, rfl⟩ _ _ (pmtPkt_rep 1 (by decide))

/-- `dedup_blocks_equal_version` on a MULTI-PACKET repetition: the 201-byte PMT, 183 bytes in the
unit-start payload, 18 (+ stuffing) in a continuation payload, one extra stuffing payload -/
example : ∃ s', runPl Psi.table { lastVersion := some 0 }
      [⟨true, bigMux.first bigPmt, 4⟩, ⟨false, bigPmt.drop 183 ++ List.replicate 166 0xff, 4⟩] = .ok (s', [])
    ∧ Quiescent 0 s' ∧ s'.buf = [] :=
  dedup_blocks_equal_version 0 _ ⟨rfl, rfl⟩ bigPmt bigPmt_facts.1 (by rw [bigPmt_facts.2.1]; decide)
    bigPmt_facts.2.2.1 bigMux bigPmt_facts.2.2.2.2 4 _ (by decide) rfl

/-- `dedup_blocks_equal_version_n`: two consecutive repetitions, the second in three payloads -/
example : ∃ s', runPl Psi.table { lastVersion := some 0 }
      ([⟨true, (muxOf patGood).first patGood, 4⟩] ++
       [⟨true, [0x02, 0xaa, 0xbb] ++ patGood.take 8, 177⟩, ⟨false, [0x00, 0x01, 0xe1], 185⟩,
        ⟨false, [0xe0, 0x2d, 0x50, 0x78, 0x04, 0xff], 182⟩]) = .ok (s', [])
    ∧ Quiescent 0 s' ∧ s'.buf = [] :=
  dedup_blocks_equal_version_n 0 _ ⟨rfl, rfl⟩
    [(patGood, muxOf patGood, 4, []),
     (patGood, ⟨[0xaa, 0xbb], 8, [], [[0x00, 0x01, 0xe1], [0xe0, 0x2d, 0x50, 0x78, 0x04, 0xff]], []⟩, 177,
       [⟨false, [0x00, 0x01, 0xe1], 185⟩, ⟨false, [0xe0, 0x2d, 0x50, 0x78, 0x04, 0xff], 182⟩])]
    (by
      intro tx hm
      simp only [List.mem_cons, List.not_mem_nil, or_false] at hm
      rcases hm with rfl | rfl
      · exact ⟨by decide +kernel, by decide +kernel, by decide +kernel, by decide +kernel, by simp, rfl⟩
      · exact ⟨by decide +kernel, by decide +kernel, by decide +kernel, by decide +kernel, by decide, rfl⟩)

/-- `applied_once_then_repeated`: from the fresh filter, PAT v0 once, then a continuation payload and
another copy: delivered exactly once -/
example : ∃ sfin, runPl Psi.table {}
      ([⟨true, (muxOf patGood).first patGood, 4⟩] ++
       [⟨false, List.replicate 184 0xff, 4⟩, ⟨true, (muxOf patGood).first patGood, 4⟩])
      = .ok (sfin, [⟨patGood, some 5⟩]) ∧ Quiescent 0 sfin := by
  obtain ⟨sfin, h1, h2⟩ := applied_once_then_repeated patGood (by decide +kernel) (by decide +kernel)
    (muxOf patGood) (by decide +kernel) {} (psiInv_of_none _ _ rfl) (by decide +kernel) 4 [] (by simp) rfl
    [⟨false, List.replicate 184 0xff, 4⟩, ⟨true, (muxOf patGood).first patGood, 4⟩]
    (by
      intro q hm
      simp only [List.mem_cons, List.not_mem_nil, or_false] at hm
      rcases hm with rfl | rfl
      · exact ⟨Or.inl rfl, by decide +kernel⟩
      · exact ⟨Or.inr ⟨patGood, muxOf patGood, by decide +kernel, by decide +kernel, rfl,
          by decide +kernel, rfl, rfl⟩, by decide +kernel⟩)
  exact ⟨sfin, h1, h2⟩

/-- the repetition packets used below, with `ver := fun _ => 0`: PAT v0 on PID 0 (one packet), the
201-byte PMT v0 on PID 0x100 (two packets) -/
theorem exReps_ok : ∀ pk ∈ [pkAt (patPkt 1 patSecV0) 1 0, pkAt (bigPkt1 1) 2 0x100, pkAt (bigPkt2 2) 3 0x100],
    pk.pid ≠ 0x101 ∧ pk.flagged = false ∧ RepPacket 0 pk.bytes
      ∧ ∃ h, exTab.get pk.pid = some h ∧ QuiescentH 0 h := by
  intro pk hm
  simp only [List.mem_cons, List.not_mem_nil, or_false] at hm
  rcases hm with rfl | rfl | rfl
  · exact ⟨by decide, rfl, patPkt_rep 1 (by decide), _, exTab_get.1, ⟨rfl, rfl⟩⟩
  · exact ⟨by decide, rfl, bigPkt1_rep 1 bigPkt_plOf.1 bigPkt_plOf.2.1, _, exTab_get.2.1, ⟨rfl, rfl⟩⟩
  · exact ⟨by decide, rfl, bigPkt2_rep 2 _ bigPkt_plOf.2.2.1 bigPkt_plOf.2.2.2.1, _, exTab_get.2.1, ⟨rfl, rfl⟩⟩

/-- `repetition_block_noop` -/
example : ∃ h', RepRel 0 (.pat { lastVersion := some 0 } [0x100]) h'
    ∧ Demux.specStep App.sem (exTab, exCtx) (pkAt (patPkt 1 patSecV0) 1 0) = .ok (exTab.insert 0 h', exCtx) := by
  obtain ⟨h', a, b, _⟩ := repetition_block_noop 0 exTab exCtx (pkAt (patPkt 1 patSecV0) 1 0) _ exTab_get.1
    ⟨rfl, rfl⟩ rfl (patPkt_rep 1 (by decide))
  exact ⟨h', a, b⟩

/-- `repetition_run_noop` and `es_handlers_untouched` on PAT repeat + two-packet PMT repeat: the real
loops return the same context; the PES filter on 0x101 is exactly as before -/
example : ∃ t', Demux.pushModel App.sem (exTab, exCtx)
      [pkAt (patPkt 1 patSecV0) 1 0, pkAt (bigPkt1 1) 2 0x100, pkAt (bigPkt2 2) 3 0x100] = .ok (t', exCtx)
    ∧ t'.get 0x101 = some (.pes 2 {}) := by
  have hyp := fun pk hm => (exReps_ok pk hm).2
  obtain ⟨t', _, h2, _, _⟩ := repetition_run_noop (fun _ => 0) exTab exCtx _ hyp
  obtain ⟨t'', h1', h3, _⟩ := es_handlers_untouched (fun _ => 0) exTab exCtx _ hyp
  rw [Ts.Props.C06.push_refines_spec] at h2
  rw [h2] at h1'
  cases h1'
  exact ⟨t', by rw [Ts.Props.C06.push_refines_spec]; exact h2, h3 _ _ _ exTab_get.2.2⟩

/-- `pes_straddles_repetition`: the PES packet opened by `esStartPkt` and continued by `esContPkt`
straddles a PAT repetition and a two-packet PMT repetition -/
example : ∃ tA tB cB,
    Demux.pushSpec App.sem (exTab, exCtx) [pkAt esStartPkt 0 0x101, pkAt esContPkt 4 0x101] = .ok (tB, cB)
    ∧ Demux.pushSpec App.sem (exTab, exCtx)
        (pkAt esStartPkt 0 0x101 :: ([pkAt (patPkt 1 patSecV0) 1 0, pkAt (bigPkt1 1) 2 0x100,
          pkAt (bigPkt2 2) 3 0x100] ++ [pkAt esContPkt 4 0x101])) = .ok (tA, cB)
    ∧ tA.get 0x101 = tB.get 0x101 := by
  obtain ⟨⟨tB, cB⟩, hB⟩ := exists_of_isOk
    (Demux.pushSpec App.sem (exTab, exCtx) [pkAt esStartPkt 0 0x101, pkAt esContPkt 4 0x101])
    (by decide +kernel)
  obtain ⟨tA, h1, h2, _⟩ := pes_straddles_repetition (fun _ => 0) exTab exCtx (pkAt esStartPkt 0 0x101)
    (pkAt esContPkt 4 0x101) _ 2 {} rfl exTab_get.2.2 exReps_ok tB cB hB
  exact ⟨tA, tB, cB, hB, h1, h2⟩

/-- `repetitions_deletable`: repetitions before, between and after the two elementary-stream
packets, the ES continuation packet BETWEEN the two packets of the PMT repetition -/
example : ∃ tA tB cB,
    Demux.pushSpec App.sem (exTab, exCtx) [pkAt esStartPkt 1 0x101, pkAt esContPkt 3 0x101] = .ok (tB, cB)
    ∧ Demux.pushModel App.sem (exTab, exCtx)
        [pkAt (patPkt 1 patSecV0) 0 0, pkAt esStartPkt 1 0x101, pkAt (bigPkt1 1) 2 0x100,
         pkAt esContPkt 3 0x101, pkAt (bigPkt2 2) 4 0x100, pkAt (patPkt 2 patSecV0) 5 0] = .ok (tA, cB)
    ∧ tA.get 0x101 = tB.get 0x101 := by
  obtain ⟨⟨tB, cB⟩, hB⟩ := exists_of_isOk
    (Demux.pushSpec App.sem (exTab, exCtx) [pkAt esStartPkt 1 0x101, pkAt esContPkt 3 0x101])
    (by decide +kernel)
  obtain ⟨tA, _, h2, h3, _⟩ := repetitions_deletable (fun _ => 0) (fun pk => pk.pid != 0x101) exTab exCtx
    [pkAt (patPkt 1 patSecV0) 0 0, pkAt esStartPkt 1 0x101, pkAt (bigPkt1 1) 2 0x100,
     pkAt esContPkt 3 0x101, pkAt (bigPkt2 2) 4 0x100, pkAt (patPkt 2 patSecV0) 5 0]
    (by
      intro pk hm hr
      simp only [List.mem_cons, List.not_mem_nil, or_false] at hm
      rcases hm with rfl | rfl | rfl | rfl | rfl | rfl
      · exact ⟨rfl, patPkt_rep 1 (by decide), _, exTab_get.1, ⟨rfl, rfl⟩⟩
      · cases hr
      · exact ⟨rfl, bigPkt1_rep 1 bigPkt_plOf.1 bigPkt_plOf.2.1, _, exTab_get.2.1, ⟨rfl, rfl⟩⟩
      · cases hr
      · exact ⟨rfl, bigPkt2_rep 2 _ bigPkt_plOf.2.2.1 bigPkt_plOf.2.2.2.1, _, exTab_get.2.1, ⟨rfl, rfl⟩⟩
      · exact ⟨rfl, patPkt_rep 2 (by decide), _, exTab_get.1, ⟨rfl, rfl⟩⟩)
    (by
      intro pk hm hr
      simp only [List.mem_cons, List.not_mem_nil, or_false] at hm
      rcases hm with rfl | rfl | rfl | rfl | rfl | rfl
      · cases hr
      · exact ⟨2, {}, exTab_get.2.2⟩
      · cases hr
      · exact ⟨2, {}, exTab_get.2.2⟩
      · cases hr
      · cases hr)
    tB cB hB
  refine ⟨tA, tB, cB, hB, h2, ?_⟩
  rcases h3 0x101 with e | ⟨⟨pk, _, hr, hp⟩, _⟩
  · exact e
  · rw [hp] at hr; cases hr

/-- `C10_partial` on the common prefix of the probes (PAT v0, PMT v0, ES start): the PMT repetition
(last applied on 0x100: the PMT, then an ES packet) and the PAT repetition (last applied on 0: the
PAT, then a PMT and an ES packet) are no-ops -/
example : ∃ t c t1 t2, pushModel App.sem (App.init {}) basePks = .ok (t, c)
    ∧ lastAppliedOn 0x100 baseHist = some 0 ∧ lastAppliedOn 0 baseHist = some 0
    ∧ pushModel App.sem (t, c) [pkAt (pmtPkt 1 pmtSecV0) 3 0x100] = .ok (t1, c)
    ∧ pushModel App.sem (t, c) [pkAt (patPkt 1 patSecV0) 3 0, pkAt (patPkt 2 patSecV0) 4 0] = .ok (t2, c) := by
  obtain ⟨t, c, -, hrun, -⟩ := Ts.Props.C05History.routing_refines {} rfl baseHist basePks base_wf base_realises
  obtain ⟨l1, t1, _, _, a1, _⟩ := C10_partial {} rfl [.patApplied 0 [.program 1 0x100]] [.esPacket 0x101]
    (.pmtApplied 0x100 0 pmtBodyV0) basePks 0x100 0 [pkAt (pmtPkt 1 pmtSecV0) 3 0x100] t c base_wf
    base_realises (by decide) (by
      intro e he
      simp only [List.mem_cons, List.not_mem_nil, or_false] at he
      subst he
      exact ⟨rfl, fun v' es h => by cases h⟩)
    (by decide +kernel) hrun
    (by intro pk hm; rw [List.mem_singleton] at hm; subst hm; exact ⟨rfl, rfl, pmtPkt_rep 1 (by decide)⟩)
  obtain ⟨l2, t2, _, _, a2, _⟩ := C10_partial {} rfl [] [.pmtApplied 0x100 0 pmtBodyV0, .esPacket 0x101]
    (.patApplied 0 [.program 1 0x100]) basePks 0 0
    [pkAt (patPkt 1 patSecV0) 3 0, pkAt (patPkt 2 patSecV0) 4 0] t c base_wf
    base_realises (by decide) (by
      intro e he
      simp only [List.mem_cons, List.not_mem_nil, or_false] at he
      rcases he with rfl | rfl
      · exact ⟨by decide, fun v' es h => by cases h⟩
      · exact ⟨rfl, fun v' es h => by cases h⟩)
    (by decide +kernel) hrun
    (by
      intro pk hm
      simp only [List.mem_cons, List.not_mem_nil, or_false] at hm
      rcases hm with rfl | rfl
      · exact ⟨rfl, rfl, patPkt_rep 1 (by decide)⟩
      · exact ⟨rfl, rfl, patPkt_rep 2 (by decide)⟩)
  exact ⟨t, c, t1, t2, hrun, l1, l2, a1, a2⟩

/-- the multi-packet repetition through the whole model: applied once (3 requests), then repeated
twice, the second time with an ES continuation packet between its two packets: same requests, the
ES consumer 2 sees start, begin, continue and nothing else, and keeps its slot -/
example :
    observe10 (runApp {} [patPkt 0 patSecV0 ++ bigPkt1 0 ++ bigPkt2 1 ++ esStartPkt])
      = some (bigConstructs, [(2, 0), (2, 1)], .pmt 0x100 1 [0x101], .pes 2)
    ∧ observe10 (runApp {} [patPkt 0 patSecV0 ++ bigPkt1 0 ++ bigPkt2 1 ++ esStartPkt ++ bigPkt1 2
          ++ bigPkt2 3 ++ bigPkt1 4 ++ esContPkt ++ bigPkt2 5])
      = some (bigConstructs, [(2, 0), (2, 1), (2, 2)], .pmt 0x100 1 [0x101], .pes 2) :=
  ⟨bigPmt_run, bigPmt_rep_run⟩

/-! ## Unapplied starts between repetitions (second review round)

The de-duplication layer records `version_number` when a section STARTS
(`Ts.Props.C11.start_records_version`), and keys on nothing else.  So ANY accepted start with another
version on the PID moves the version memory of a quiescent filter, whether or not that section is ever
applied, and the next transmission of the unchanged table is applied again. -/

/-- **Unapplied start, mechanism.**  `s`: a filter quiescent at `v` (version `v` applied, buffer
`Complete`).  One unit-start payload `pointer_field :: pre ++ D` whose section start `D` is ACCEPTED
(`hok : startOk Psi.table D`: section-syntax indicator set, at least the 8 fixed header bytes in this
packet, `section_length ≤ 1021` — `Ts.Props.C11.accepted_start_iff`; nothing about `table_id`,
completeness or CRC) and whose `version_number` differs from `v` (`hver`); then ANY continuation
payloads `conts` (none, the right ones, wrong ones).  The run does not panic, and afterwards the
filter remembers `versionOf D` and no longer `v`; the buffer invariant holds.

Nothing is assumed or concluded about whether `D`'s section is APPLIED: the statement holds in
particular when it is not — the section has another `table_id` (it passes the CRC layer and is
ignored by the table processor: `Ts.Props.C11.crc_gate_pat_other_table_ignored`), its CRC fails
(`Ts.Props.C04`: gate blocks), or it is never completed.  The deliveries `ds` are whatever `D` and
`conts` complete; `pre` completes nothing because `s.remaining = none`. -/
theorem unapplied_start_records_version (v : Nat) (s : St) (hq : Quiescent v s)
    (pre D : Bytes) (off0 : Nat) (hp : pre.length < 256) (hok : startOk Psi.table D = true)
    (hver : versionOf D ≠ v)
    (conts : List Pl) (husc : ∀ q ∈ conts, q.us = false) (hnec : ∀ q ∈ conts, 1 ≤ q.bytes.length) :
    ∃ s1 ds,
      runPl Psi.table s (⟨true, UInt8.ofNat pre.length :: (pre ++ D), off0⟩ :: conts) = .ok (s1, ds)
      ∧ s1.lastVersion = some (versionOf D) ∧ s1.lastVersion ≠ some v ∧ PsiInv .syntax s1 := by
  obtain ⟨sa, da, ha, hva, hia⟩ :=
    Ts.Props.C11.start_records_version_payload s (quiescent_inv v s hq) pre D off0 hp hok
  obtain ⟨s1, dc, hc, hvc, hic⟩ := Ts.Props.C11.continuation_keeps_version conts sa hia husc hnec
  refine ⟨s1, da ++ dc, ?_, by rw [hvc, hva], ?_, hic⟩
  · simp only [runPl, ha, R.ok_bind, hc]; rfl
  · rw [hvc, hva]
    intro e
    injection e with e
    exact hver e

/-- **Unapplied start, then the unchanged table: RE-APPLIED.**  Setting of
`unapplied_start_records_version`; then an intact well-formed transmission (`hm : WellFormedMux`: at
least the 8 fixed header bytes in the starting packet) of ANY well-formed section `S` with
`version_number = v` — the version the filter was quiescent at —, at least 12 bytes, valid CRC.
Then `S` IS delivered, exactly once, after at most what its pointer bytes complete of the buffer
the in-between start may have left (`(preSpec … s1 m.pre).2`, empty when that section was completed
or `pointer_field = 0`); `S` passes the CRC layer in both builds, i.e. it reaches
`PatProcessor::section` / `PmtProcessor::section` and is applied again although the table did not
change; the filter is quiescent at `v` again.  Contrast `dedup_blocks_equal_version`: without the
in-between start the same transmission delivers NOTHING. -/
theorem unapplied_start_then_repeat_reapplied (v : Nat) (s : St) (hq : Quiescent v s)
    (pre D : Bytes) (off0 : Nat) (hp : pre.length < 256) (hok : startOk Psi.table D = true)
    (hver : versionOf D ≠ v)
    (conts : List Pl) (husc : ∀ q ∈ conts, q.us = false) (hnec : ∀ q ∈ conts, 1 ≤ q.bytes.length)
    (S : Bytes) (hS : WellFormedSection .syntax S) (h12 : 12 ≤ S.length)
    (hcrc : Ts.CrcSpec.crc S = 0) (hv : versionOf S = v)
    (m : Mux) (hm : WellFormedMux .syntax S m) (off : Nat) (rest : List Pl)
    (hus : ∀ q ∈ rest, q.us = false) (hrest : rest.map (·.bytes) = m.rest) :
    ∃ s1 ds sfin,
      runPl Psi.table s (⟨true, UInt8.ofNat pre.length :: (pre ++ D), off0⟩ :: conts) = .ok (s1, ds)
      ∧ s1.lastVersion = some (versionOf D)
      ∧ runPl Psi.table s1 (⟨true, m.first S, off⟩ :: rest)
          = .ok (sfin, (preSpec Psi.table s1 m.pre).2
              ++ [⟨S, if m.k = S.length then some (off + 1 + m.pre.length) else none⟩])
      ∧ (preSpec Psi.table s1 m.pre).2.length ≤ 1
      ∧ runPl Psi.table s ((⟨true, UInt8.ofNat pre.length :: (pre ++ D), off0⟩ :: conts)
            ++ (⟨true, m.first S, off⟩ :: rest))
          = .ok (sfin, ds ++ ((preSpec Psi.table s1 m.pre).2
              ++ [⟨S, if m.k = S.length then some (off + 1 + m.pre.length) else none⟩]))
      ∧ (∀ b, Psi.crcPass b S = .ok true)
      ∧ Quiescent v sfin := by
  obtain ⟨s1, ds, h1, hv1, hne1, hi1⟩ :=
    unapplied_start_records_version v s hq pre D off0 hp hok hver conts husc hnec
  obtain ⟨sfin, h2, h3, h4, h5⟩ := Ts.Props.C11.damage_then_new_version_applied_partial S hS h12 hcrc m hm
    s1 hi1 (by rw [hv]; exact hne1) off rest hus hrest
  refine ⟨s1, ds, sfin, h1, hv1, h2, h3, ?_, h4, by rw [← hv]; exact h5⟩
  rw [runPl_append, h1]
  simp only [R.ok_bind, h2]

/-- hypotheses of the two theorems are satisfiable, on the filter-level content of the witnesses
below: a PMT filter that has applied version 0; (a) the private `table_id = 0x80` section, version 5,
valid CRC, complete in its packet — delivered, passes the CRC layer, has another `table_id`;
(b) the PMT copy with one flipped version bit — delivered, FAILS the CRC layer; (c) only the first 8
bytes of a version-1 section, never completed — nothing delivered.  In all three cases the next
intact PMT v0 (`pmtSecV0`, `pointer_field = 0`, one packet) is delivered again. -/
example :
    (∃ s1 sfin, runPl Psi.table { lastVersion := some 0 }
          [⟨true, 0x00 :: (privSecV5 ++ List.replicate 167 0xff), 4⟩] = .ok (s1, [⟨privSecV5, some 5⟩])
        ∧ s1.lastVersion = some 5 ∧ Psi.crcPass false privSecV5 = .ok true ∧ byteD privSecV5 0 ≠ 2
        ∧ runPl Psi.table s1 [⟨true, (muxOf pmtSecV0).first pmtSecV0, 4⟩] = .ok (sfin, [⟨pmtSecV0, some 5⟩])
        ∧ Quiescent 0 sfin)
    ∧ (∃ s1 sfin, runPl Psi.table { lastVersion := some 0 }
          [⟨true, 0x00 :: (pmtSecV0Damaged ++ List.replicate 162 0xff), 4⟩]
            = .ok (s1, [⟨pmtSecV0Damaged, some 5⟩])
        ∧ s1.lastVersion = some 1 ∧ Psi.crcPass false pmtSecV0Damaged = .ok false
        ∧ runPl Psi.table s1 [⟨true, (muxOf pmtSecV0).first pmtSecV0, 4⟩] = .ok (sfin, [⟨pmtSecV0, some 5⟩])
        ∧ Quiescent 0 sfin)
    ∧ (∃ s1 sfin, runPl Psi.table { lastVersion := some 0 }
          [⟨true, 0x00 :: pmtSecV0Damaged.take 8, 4⟩] = .ok (s1, [])
        ∧ s1.lastVersion = some 1
        ∧ runPl Psi.table s1 [⟨true, (muxOf pmtSecV0).first pmtSecV0, 4⟩] = .ok (sfin, [⟨pmtSecV0, some 5⟩])
        ∧ Quiescent 0 sfin) := by
  obtain ⟨w1, w2, w3, w4, w5⟩ := pmtSecV0_facts
  have key : ∀ (D : Bytes) (vD : Nat), startOk Psi.table D = true → versionOf D = vD → vD ≠ 0 →
      ∃ s1 ds sfin, runPl Psi.table { lastVersion := some 0 } [⟨true, 0x00 :: D, 4⟩] = .ok (s1, ds)
        ∧ s1.lastVersion = some vD
        ∧ runPl Psi.table s1 [⟨true, (muxOf pmtSecV0).first pmtSecV0, 4⟩] = .ok (sfin, [⟨pmtSecV0, some 5⟩])
        ∧ Quiescent 0 sfin := by
    intro D vD hok hvD hne
    obtain ⟨s1, ds, sfin, a1, a2, a3, _, _, _, a7⟩ := unapplied_start_then_repeat_reapplied 0
      { lastVersion := some 0 } ⟨rfl, rfl⟩ [] D 4 (by decide) hok (by rw [hvD]; exact hne) [] (by simp)
      (by simp) pmtSecV0 w1 (by rw [w2]; decide) w3 w4 (muxOf pmtSecV0) w5 4 [] (by simp) rfl
    refine ⟨s1, ds, sfin, a1, by rw [a2, hvD], ?_, a7⟩
    rw [a3]
    have e1 : (muxOf pmtSecV0).pre = [] := rfl
    have e2 : (muxOf pmtSecV0).k = pmtSecV0.length := rfl
    rw [e1, e2]
    simp [preSpec]
  refine ⟨?_, ?_, ?_⟩
  · obtain ⟨s1, ds, sfin, a1, a2, a3, a4⟩ := key _ 5 between_startOk.1 between_startOk.2.2.1 (by decide)
    have e : runPl Psi.table { lastVersion := some 0 }
        [⟨true, 0x00 :: (privSecV5 ++ List.replicate 167 0xff), 4⟩]
        = .ok ({ lastVersion := some 5 }, [⟨privSecV5, some 5⟩]) := by decide +kernel
    rw [e] at a1
    cases a1
    exact ⟨_, sfin, e, a2, by decide +kernel, by decide +kernel, a3, a4⟩
  · obtain ⟨s1, ds, sfin, a1, a2, a3, a4⟩ := key _ 1 between_startOk.2.1 between_startOk.2.2.2 (by decide)
    have e : runPl Psi.table { lastVersion := some 0 }
        [⟨true, 0x00 :: (pmtSecV0Damaged ++ List.replicate 162 0xff), 4⟩]
        = .ok ({ lastVersion := some 1 }, [⟨pmtSecV0Damaged, some 5⟩]) := by decide +kernel
    rw [e] at a1
    cases a1
    exact ⟨_, sfin, e, a2, pmtSecV0Damaged_facts.2.2.2.2.2, a3, a4⟩
  · obtain ⟨s1, ds, sfin, a1, a2, a3, a4⟩ := key (pmtSecV0Damaged.take 8) 1 (by decide +kernel)
      (by decide +kernel) (by decide)
    have e : runPl Psi.table { lastVersion := some 0 } [⟨true, 0x00 :: pmtSecV0Damaged.take 8, 4⟩]
        = .ok ({ lastVersion := some 1, buf := pmtSecV0Damaged.take 8, remaining := some 13 }, []) := by
      decide +kernel
    rw [e] at a1
    cases a1
    exact ⟨_, sfin, e, a2, a3, a4⟩

/-- **Witness (a): a FOREIGN table between two repetitions** — reviewer case `N1`
(`/tmp/pr/rev2e_cases.txt`, `observations/`), whole application (`runApp {}` = `demux b0t0`), on
byte lists.  `observe10` = (`construct` requests with tags, ES callbacks as (tag, kind), slot 0x100,
slot 0x101).

* control `foreignCtlBytes` (PAT v0, PMT v0 on 0x100, ES unit start on 0x101, PMT v0, PMT v0, ES
  continuation): three requests `ByPid(0)`→0, `Pmt(0x100,1)`→1, `Stream(…0x101…)`→2; consumer 2 sees
  `start`, `begin`, `continue`; slot 0x101 keeps the PES filter tagged 2.
* `foreignPrefixBytes` (… ES unit start, then the private section `privSecV5` — `table_id = 0x80`,
  section syntax, version 5, VALID CRC — on 0x100): nothing requested; the private table itself is
  ignored by the PMT processor.
* `foreignBytes` (… then PMT v0 again, ES continuation): the unchanged PMT is RE-APPLIED — the
  stream request is issued a second time, `Stream(…0x101…)`→3 — and slot 0x101 now holds the fresh PES
  filter tagged 3: the open PES packet of consumer 2 is orphaned, its continuation goes to a consumer
  that has not started.
Identical to the output of the real code on these bytes.

SCOPE OBSERVATION (DESIGN.md 8.1b), NOT a known finding: C10's quantifier speaks of "any number of
repetitions of any table … across version changes back and forth", not of a foreign table on the
same PID between them; every theorem of this file excludes the shape through `RepPacket` /
`Realises` (the private section has version 5 ≠ 0, so its packet is not a `RepPacket 0`).  The
mechanism is `unapplied_start_then_repeat_reapplied`. -/
theorem foreign_table_between_repeats :
    observe10 (runApp {} [foreignCtlBytes])
      = some ([(.byPid 0, 0), (.pmt 0x100 1, 1), (.stream 0x100 0x1b 0x101 0x101 [] [], 2)],
          [(2, 0), (2, 1), (2, 2)], .pmt 0x100 1 [0x101], .pes 2)
    ∧ observe10 (runApp {} [foreignPrefixBytes])
      = some ([(.byPid 0, 0), (.pmt 0x100 1, 1), (.stream 0x100 0x1b 0x101 0x101 [] [], 2)],
          [(2, 0), (2, 1)], .pmt 0x100 1 [0x101], .pes 2)
    ∧ observe10 (runApp {} [foreignBytes])
      = some ([(.byPid 0, 0), (.pmt 0x100 1, 1), (.stream 0x100 0x1b 0x101 0x101 [] [], 2),
           (.stream 0x100 0x1b 0x101 0x101 [] [], 3)],
          [(2, 0), (2, 1)], .pmt 0x100 1 [0x101], .pes 3)
    ∧ (WellFormedSection .syntax privSecV5 ∧ Ts.CrcSpec.crc privSecV5 = 0 ∧ versionOf privSecV5 = 5
        ∧ byteD privSecV5 0 = 0x80)
    ∧ ¬ RepPacket 0 (pmtPkt 1 privSecV5) := by
  refine ⟨foreign_ctl_run, foreign_prefix_run, foreign_run,
    ⟨privSecV5_facts.1, privSecV5_facts.2.2.1, privSecV5_facts.2.2.2.1, privSecV5_facts.2.2.2.2⟩, ?_⟩
  rintro ⟨_, h⟩
  rcases h _ between_plOf.1 with h | ⟨S, m, hS, h8, hv, hm, _, hb⟩
  · cases h
  · -- the first share of a well-formed packetisation has the section's version
    obtain ⟨hk, hmin, hcase⟩ := mux_case S m hm
    have hver := share_version S m.k m.tailBytes h8 hk hmin hcase
    have hfl := first_length S m
    have hlt : m.pre.length < 256 := by have := hm.2.2.1.2; omega
    have hb0 : byteD (m.first S) 0 = m.pre.length := by
      unfold Mux.first
      rw [byteD_cons_zero, UInt8.toNat_ofNat']
      exact Nat.mod_eq_of_lt hlt
    have hp0 : m.pre = [] := by
      have : byteD (m.first S) 0 = 0 := by rw [← hb]; rfl
      rw [hb0] at this
      exact List.eq_nil_of_length_eq_zero this
    have hsh : S.take m.k ++ m.tailBytes = privSecV5 ++ List.replicate 167 0xff := by
      have : m.first S = 0x00 :: (privSecV5 ++ List.replicate 167 0xff) := hb.symm
      unfold Mux.first at this
      rw [hp0] at this
      simpa using this
    rw [hsh, ← versionOf_eq, between_startOk.2.2.1, hv] at hver
    exact absurd hver (by decide)

/-- **Witness (b): a DAMAGED copy between two repetitions** — known finding **F12** (C04) on the PMT
PID (reviewer case `N1b`; F12's probe has the same shape on the PAT PID), whole application, on byte
lists.  `pmtSecV0Damaged` = `pmtSecV0` with ONE flipped bit of `version_number` (bit 46), CRC bytes
unchanged, so its CRC fails and the gate (C04) keeps it from the PMT processor:

* `damagedPrefixBytes` (PAT v0, PMT v0, ES unit start, the damaged copy): nothing requested;
* `damagedBytes` (… then the intact PMT v0, ES continuation): the intact, UNCHANGED PMT is
  re-applied — `Stream(…0x101…)`→3, slot 0x101 replaced by the PES filter tagged 3 mid-packet;
* control `foreignCtlBytes` (an undamaged copy in its place): nothing re-requested
  (`foreign_table_between_repeats`, first conjunct).
Identical to the output of the real code on these bytes.

This is KNOWN FINDING F12, recorded against C04 ("no section whose CRC fails ever causes a handler
to be requested, replaced or removed"): it needs a fault, and C10 quantifies over fault-free
histories ("histories, inputs": repetitions of tables), so it is outside C10's quantifier and outside
`Realises`.  The mechanism is `unapplied_start_then_repeat_reapplied`. -/
theorem damaged_copy_between_repeats :
    pmtSecV0Damaged = Ts.CrcSpec.flipBit pmtSecV0 46
    ∧ Psi.crcPass false pmtSecV0Damaged = .ok false
    ∧ observe10 (runApp {} [damagedPrefixBytes])
      = some ([(.byPid 0, 0), (.pmt 0x100 1, 1), (.stream 0x100 0x1b 0x101 0x101 [] [], 2)],
          [(2, 0), (2, 1)], .pmt 0x100 1 [0x101], .pes 2)
    ∧ observe10 (runApp {} [damagedBytes])
      = some ([(.byPid 0, 0), (.pmt 0x100 1, 1), (.stream 0x100 0x1b 0x101 0x101 [] [], 2),
           (.stream 0x100 0x1b 0x101 0x101 [] [], 3)],
          [(2, 0), (2, 1)], .pmt 0x100 1 [0x101], .pes 3) :=
  ⟨pmtSecV0Damaged_facts.1, pmtSecV0Damaged_facts.2.2.2.2.2, damaged_prefix_run, damaged_run⟩

/-! ### non-vacuity of `C10_gap_is_F9` -/

/-- `C10_gap_is_F9` APPLIED to probe F9 (history = its first four packets, repetition = the fifth):
all hypotheses hold — in particular `hfail`, the conclusion of `C10_full` fails there (the repeated
PMT v0 appends a `construct` event) — and the theorem produces the PAT in between. -/
example : RebuiltSinceLast 0x100 f9Hist := by
  obtain ⟨t, c, -, hrun, -, -, -, hlog, -⟩ :=
    Ts.Props.C05History.routing_refines {} rfl f9Hist f9Pks f9_wf f9_realises
  refine C10_gap_is_F9 {} f9Hist f9Pks 0x100 0 [f9Rep] t c rfl f9_wf f9_realises
    (by decide +kernel) (by decide +kernel) hrun
    (by intro pk hm; rw [List.mem_singleton] at hm; subst hm; exact ⟨rfl, rfl, pmtPkt_rep 1 (by decide)⟩) ?_
  rintro ⟨t', c', hrep, hcs, -⟩
  have hall : pushModel App.sem (App.init {}) (f9Pks ++ [f9Rep]) = .ok (t', c') := by
    rw [Ts.Props.C06.push_refines_spec] at hrun hrep ⊢
    rw [pushSpec_append_aux, hrun]
    exact hrep
  obtain ⟨t2, c2, hr2, hc2, -⟩ := observe10_some _ _ f9_run
  rw [Ts.Props.C05History.runApp_one {} f9Bytes _ f9_frame, hall] at hr2
  cases hr2
  rw [hcs, hlog, f9_requests] at hc2
  exact absurd hc2 (by decide)

end Ts.Props.C10
