import Ts.Model.Time
import Ts.Spec.Bits
import Ts.Spec.TimeSpec
import Ts.Lemmas.BitOps
import Ts.Lemmas.C15
import Ts.Gen.Consts
/-!
# C15 — timestamps and clock references: range, refusal, layout round trip, 27 MHz value, wrap

`Timestamp` (`pes.rs:877-955`) and `ClockRef` (`packet.rs:86-139`).  The model decodes with the
code's byte masks and shifts; the statements below are in terms of the `uimsbf` fields of
ISO/IEC 13818-1 2.4.3.7 / 2.4.3.5 (`readBits`) and of the independent encoder
`Ts.Spec.TimeSpec.encodeTs`.  Every `= R.ok …` carries panic freedom.
-/
namespace Ts.Props.C15
open Ts Ts.Spec Ts.Spec.TimeSpec

/-! ### ties to the constants regenerated from `/repo/src/pes.rs` and `/repo/src/packet.rs`

The first four are PINS (`Gen.x = number`, no model definition in the statement; second review).
They are kept because the `*_gen` theorems below rewrite with them.  The statements that put the
regenerated constants into the model's own equations are `tie_model_max_gen` (the model constant
`Time.MAX`), `ts_range_gen`, `fromU64_refuses_iff_gen`, `crefFromSlice_range`,
`crefFromParts_refuses_iff_gen` below, and `Ts.Props.Ties.tie_cref_from_parts`,
`tie_ts_max_wrap`, `tie_from_u64_accepts_to_max`. -/
theorem tie_ts_from_u64_bound : Ts.Gen.tsFromU64Bound = 2^33 := by decide
theorem tie_ts_max : Ts.Gen.tsMax = 2^33 - 1 := by decide
theorem tie_cref_base_bound : Ts.Gen.crefBaseBound = 2^33 := by decide
theorem tie_cref_ext_bound : Ts.Gen.crefExtBound = 2^9 := by decide
theorem tie_model_max : Time.MAX = 2^33 - 1 := by decide
theorem tie_model_max_gen : Time.MAX = Ts.Gen.tsMax := by decide

/-! ### `Timestamp::from_bytes` -/

/-- On any buffer of at least 5 bytes `from_bytes` does not panic; it reports the *first* cleared
marker bit in the order 7, 23, 39, and otherwise yields the value of the three `uimsbf` fields
TS[32..30] (3 bits at bit 4), TS[29..15] (15 bits at bit 8), TS[14..0] (15 bits at bit 24). -/
theorem fromBytes_exact (buf : Bytes) (h : 5 ≤ buf.length) :
    Time.fromBytes buf = .ok (
      if readBits buf 7 1 = 0 then .error (.markerBitNotSet 7)
      else if readBits buf 23 1 = 0 then .error (.markerBitNotSet 23)
      else if readBits buf 39 1 = 0 then .error (.markerBitNotSet 39)
      else .ok (readBits buf 4 3 * 2^30 + readBits buf 8 15 * 2^15 + readBits buf 24 15)) :=
  Ts.Lemmas.C15.fromBytes_exact buf h

/-- the same statement through the named field positions of `Ts.Spec.TimeSpec` -/
theorem fromBytes_exact_spec (buf : Bytes) (h : 5 ≤ buf.length) :
    Time.fromBytes buf = .ok (
      if tsMarker buf 7 = 0 then .error (.markerBitNotSet 7)
      else if tsMarker buf 23 = 0 then .error (.markerBitNotSet 23)
      else if tsMarker buf 39 = 0 then .error (.markerBitNotSet 39)
      else .ok (tsValue buf)) :=
  Ts.Lemmas.C15.fromBytes_exact buf h

/-- Every timestamp obtainable from the parsing constructors (any buffer, any length) and from
`from_u64` lies in `0 ..= 2^33 - 1`. -/
theorem ts_range :
    (∀ (buf : Bytes) (v : Nat), Time.fromBytes buf = .ok (.ok v) → v < 2^33) ∧
    (∀ (buf : Bytes) (v : Nat), Time.fromPtsBytes buf = .ok (.ok v) → v < 2^33) ∧
    (∀ (buf : Bytes) (v : Nat), Time.fromDtsBytes buf = .ok (.ok v) → v < 2^33) ∧
    (∀ (v w : Nat), Time.fromU64 (2^33) v = .ok w → w < 2^33) := by
  refine ⟨?_, ?_, ?_, ?_⟩
  · exact Ts.Lemmas.C15.fromBytes_range
  · intro buf v h
    exact Ts.Lemmas.C15.fromBytes_range buf v (Ts.Lemmas.C15.fromPts_ok_imp buf v h)
  · intro buf v h
    exact Ts.Lemmas.C15.fromBytes_range buf v (Ts.Lemmas.C15.fromDts_ok_imp buf v h)
  · intro v w h
    unfold Time.fromU64 assertR at h
    by_cases c : v < 2^33
    · simp only [c, decide_true, if_true, R.ok_bind, R.pure_eq] at h
      injection h with h
      omega
    · simp only [c, decide_false, Bool.false_eq_true, if_false, R.panic_bind] at h
      cases h

/-- `ts_range` against the regenerated `Timestamp::MAX` and `from_u64` bound -/
theorem ts_range_gen :
    (∀ (buf : Bytes) (v : Nat), Time.fromBytes buf = .ok (.ok v) → v ≤ Ts.Gen.tsMax) ∧
    (∀ (buf : Bytes) (v : Nat), Time.fromPtsBytes buf = .ok (.ok v) → v ≤ Ts.Gen.tsMax) ∧
    (∀ (buf : Bytes) (v : Nat), Time.fromDtsBytes buf = .ok (.ok v) → v ≤ Ts.Gen.tsMax) ∧
    (∀ (v w : Nat), Time.fromU64 Ts.Gen.tsFromU64Bound v = .ok w → w ≤ Ts.Gen.tsMax) := by
  rw [tie_ts_max, tie_ts_from_u64_bound]
  obtain ⟨h1, h2, h3, h4⟩ := ts_range
  refine ⟨?_, ?_, ?_, ?_⟩
  · intro buf v h; have := h1 buf v h; omega
  · intro buf v h; have := h2 buf v h; omega
  · intro buf v h; have := h3 buf v h; omega
  · intro v w h; have := h4 v w h; omega

/-- `from_u64` refuses (panics on) exactly the integers `≥ 2^33`, and returns its argument
otherwise. -/
theorem fromU64_refuses_iff (v : Nat) :
    ((Time.fromU64 (2^33) v).isOk = true ↔ v < 2^33) ∧
    (v < 2^33 → Time.fromU64 (2^33) v = .ok v) := by
  by_cases c : v < 2^33
  · have e : Time.fromU64 (2^33) v = .ok v := by
      unfold Time.fromU64 assertR
      simp only [c, decide_true, if_true, R.ok_bind, R.pure_eq]
    rw [e]
    exact ⟨⟨fun _ => c, fun _ => rfl⟩, fun _ => rfl⟩
  · have e : Time.fromU64 (2^33) v = .panic "assert!(val < 1 << 33)" := by
      unfold Time.fromU64 assertR
      simp only [c, decide_false, Bool.false_eq_true, if_false, R.panic_bind]
    rw [e]
    exact ⟨⟨fun h => (by cases h), fun h => absurd h c⟩, fun h => absurd h c⟩

theorem fromU64_refuses_iff_gen (v : Nat) :
    (Time.fromU64 Ts.Gen.tsFromU64Bound v).isOk = true ↔ v < 2^33 := by
  rw [tie_ts_from_u64_bound]
  exact (fromU64_refuses_iff v).1

/-- `from_pts_bytes` / `from_dts_bytes`: an `IncorrectPrefix` error carrying the 4-bit prefix field
exactly when that field differs from `'0010'` / `'0001'`, otherwise the result of `from_bytes`. -/
theorem prefix_exact (buf : Bytes) (h : 5 ≤ buf.length) :
    Time.fromPtsBytes buf =
      (if readBits buf 0 4 = 2 then Time.fromBytes buf
       else .ok (.error (.incorrectPrefix 2 (readBits buf 0 4)))) ∧
    Time.fromDtsBytes buf =
      (if readBits buf 0 4 = 1 then Time.fromBytes buf
       else .ok (.error (.incorrectPrefix 1 (readBits buf 0 4)))) :=
  ⟨Ts.Lemmas.C15.fromPts_unfold buf (by omega), Ts.Lemmas.C15.fromDts_unfold buf (by omega)⟩

/-- the prefix error occurs exactly when the prefix field is wrong (`from_bytes` never produces it) -/
theorem prefix_error_iff (buf : Bytes) (h : 5 ≤ buf.length) :
    (Time.fromPtsBytes buf = .ok (.error (.incorrectPrefix 2 (readBits buf 0 4))) ↔ readBits buf 0 4 ≠ 2) ∧
    (Time.fromDtsBytes buf = .ok (.error (.incorrectPrefix 1 (readBits buf 0 4))) ↔ readBits buf 0 4 ≠ 1) := by
  obtain ⟨hp, hd⟩ := prefix_exact buf h
  rw [hp, hd, fromBytes_exact buf h]
  constructor
  · by_cases c : readBits buf 0 4 = 2
    · simp only [c, if_true, ne_eq, not_true_eq_false, iff_false]
      split
      · intro e; cases e
      · split
        · intro e; cases e
        · split
          · intro e; cases e
          · intro e; cases e
    · simp only [c, if_false, ne_eq, not_false_eq_true]
  · by_cases c : readBits buf 0 4 = 1
    · simp only [c, if_true, ne_eq, not_true_eq_false, iff_false]
      split
      · intro e; cases e
      · split
        · intro e; cases e
        · split
          · intro e; cases e
          · intro e; cases e
    · simp only [c, if_false, ne_eq, not_false_eq_true]

/-- Encoding any 33-bit value in the PTS/DTS layout (any 4-bit prefix) and decoding it yields that
value; trailing bytes do not matter; `'0010'` passes `from_pts_bytes`, `'0001'` passes
`from_dts_bytes`. -/
theorem ts_roundtrip (v : Nat) (hv : v < 2^33) :
    (∀ pfx, pfx < 16 → Time.fromBytes (encodeTs pfx v) = .ok (.ok v)) ∧
    (∀ pfx rest, pfx < 16 → Time.fromBytes (encodeTs pfx v ++ rest) = .ok (.ok v)) ∧
    Time.fromPtsBytes (encodeTs 2 v) = .ok (.ok v) ∧
    Time.fromDtsBytes (encodeTs 1 v) = .ok (.ok v) ∧
    (∀ rest, Time.fromPtsBytes (encodeTs 2 v ++ rest) = .ok (.ok v)) ∧
    (∀ rest, Time.fromDtsBytes (encodeTs 1 v ++ rest) = .ok (.ok v)) := by
  have hb : ∀ pfx rest, pfx < 16 → Time.fromBytes (encodeTs pfx v ++ rest) = .ok (.ok v) :=
    fun pfx rest hp => Ts.Lemmas.C15.fromBytes_encode pfx v rest hp hv
  have hpts : ∀ rest, Time.fromPtsBytes (encodeTs 2 v ++ rest) = .ok (.ok v) := by
    intro rest
    have hl : 1 ≤ (encodeTs 2 v ++ rest).length := by
      rw [List.length_append, Ts.Lemmas.C15.encodeTs_length]; omega
    obtain ⟨_, _, _, hp, _⟩ := Ts.Lemmas.C15.encodeTs_fields 2 v rest (by omega) hv
    rw [Ts.Lemmas.C15.fromPts_unfold _ hl, hp, if_pos rfl]
    exact hb 2 rest (by omega)
  have hdts : ∀ rest, Time.fromDtsBytes (encodeTs 1 v ++ rest) = .ok (.ok v) := by
    intro rest
    have hl : 1 ≤ (encodeTs 1 v ++ rest).length := by
      rw [List.length_append, Ts.Lemmas.C15.encodeTs_length]; omega
    obtain ⟨_, _, _, hp, _⟩ := Ts.Lemmas.C15.encodeTs_fields 1 v rest (by omega) hv
    rw [Ts.Lemmas.C15.fromDts_unfold _ hl, hp, if_pos rfl]
    exact hb 1 rest (by omega)
  refine ⟨?_, hb, ?_, ?_, hpts, hdts⟩
  · intro pfx hp
    have := hb pfx [] hp
    rwa [List.append_nil] at this
  · have := hpts []
    rwa [List.append_nil] at this
  · have := hdts []
    rwa [List.append_nil] at this

/-- the encoder really produces the layout: 5 bytes, the three markers set, the prefix in place -/
theorem encodeTs_layout (pfx v : Nat) (hp : pfx < 16) (hv : v < 2^33) :
    (encodeTs pfx v).length = 5 ∧ tsMarker (encodeTs pfx v) 7 = 1 ∧ tsMarker (encodeTs pfx v) 23 = 1 ∧
    tsMarker (encodeTs pfx v) 39 = 1 ∧ tsPrefix (encodeTs pfx v) = pfx ∧ tsValue (encodeTs pfx v) = v := by
  have := Ts.Lemmas.C15.encodeTs_fields pfx v [] hp hv
  rw [List.append_nil] at this
  exact ⟨rfl, this⟩

/-! ### `ClockRef` -/

/-- `ClockRef::from_slice` on at least 6 bytes: the PCR layout of 2.4.3.5 (33-bit base, 6 reserved
bits, 9-bit extension); hence `base < 2^33` and `extension < 2^9`. -/
theorem crefFromSlice_exact (d : Bytes) (h : 6 ≤ d.length) :
    Time.crefFromSlice d = .ok ⟨readBits d 0 33, readBits d 39 9⟩ ∧
    readBits d 0 33 < 2^33 ∧ readBits d 39 9 < 2^9 :=
  ⟨Ts.Lemmas.C15.crefFromSlice_ok d h, readBits_lt d 0 33, readBits_lt d 39 9⟩

/-- every clock reference `from_slice` can return (any buffer) is in range -/
theorem crefFromSlice_range (d : Bytes) (c : Time.ClockRef) (h : Time.crefFromSlice d = .ok c) :
    c.base < Ts.Gen.crefBaseBound ∧ c.ext < Ts.Gen.crefExtBound := by
  rw [tie_cref_base_bound, tie_cref_ext_bound]
  by_cases hl : 6 ≤ d.length
  · rw [Ts.Lemmas.C15.crefFromSlice_ok d hl] at h
    injection h with h
    subst h
    exact ⟨readBits_lt d 0 33, readBits_lt d 39 9⟩
  · exfalso
    have h5 := Ts.Lemmas.C15.byteAt_short d 5 (by omega)
    unfold Time.crefFromSlice at h
    rw [h5] at h
    rcases h0 : byteAt d 0 with a0 | s <;> rw [h0] at h <;> simp only [R.ok_bind, R.panic_bind] at h
    · rcases h1 : byteAt d 1 with a1 | s <;> rw [h1] at h <;> simp only [R.ok_bind, R.panic_bind] at h
      · rcases h2 : byteAt d 2 with a2 | s <;> rw [h2] at h <;> simp only [R.ok_bind, R.panic_bind] at h
        · rcases h3 : byteAt d 3 with a3 | s <;> rw [h3] at h <;> simp only [R.ok_bind, R.panic_bind] at h
          · rcases h4 : byteAt d 4 with a4 | s <;> rw [h4] at h <;> simp only [R.ok_bind, R.panic_bind] at h
            · cases h
            · cases h
          · cases h
        · cases h
      · cases h
    · cases h

/-- `ClockRef::from_parts` refuses exactly the out-of-range pairs and otherwise stores its
arguments. -/
theorem crefFromParts_refuses_iff (b e : Nat) :
    ((Time.crefFromParts b e).isOk = true ↔ b < 2^33 ∧ e < 2^9) ∧
    (b < 2^33 ∧ e < 2^9 → Time.crefFromParts b e = .ok ⟨b, e⟩) := by
  have e33 : (1 <<< 33 : Nat) = 2^33 := by decide
  have e9 : (1 <<< 9 : Nat) = 2^9 := by decide
  by_cases cb : b < 2^33
  · by_cases ce : e < 2^9
    · have r : Time.crefFromParts b e = .ok ⟨b, e⟩ := by
        unfold Time.crefFromParts assertR
        rw [e33, e9]
        simp only [cb, ce, decide_true, if_true, R.ok_bind, R.pure_eq]
      rw [r]
      exact ⟨⟨fun _ => ⟨cb, ce⟩, fun _ => rfl⟩, fun _ => rfl⟩
    · have r : Time.crefFromParts b e = .panic "assert!(extension < (1 << 9))" := by
        unfold Time.crefFromParts assertR
        rw [e33, e9]
        simp only [cb, ce, decide_true, decide_false, Bool.false_eq_true, if_true, if_false,
          R.ok_bind, R.panic_bind]
      rw [r]
      exact ⟨⟨fun h => (by cases h), fun h => absurd h.2 ce⟩, fun h => absurd h.2 ce⟩
  · have r : Time.crefFromParts b e = .panic "assert!(base < (1 << 33))" := by
      unfold Time.crefFromParts assertR
      rw [e33]
      simp only [cb, decide_false, Bool.false_eq_true, if_false, R.panic_bind]
    rw [r]
    exact ⟨⟨fun h => (by cases h), fun h => absurd h.1 cb⟩, fun h => absurd h.1 cb⟩

theorem crefFromParts_refuses_iff_gen (b e : Nat) :
    (Time.crefFromParts b e).isOk = true ↔ b < Ts.Gen.crefBaseBound ∧ e < Ts.Gen.crefExtBound := by
  rw [tie_cref_base_bound, tie_cref_ext_bound]
  exact (crefFromParts_refuses_iff b e).1

/-- the 27 MHz value of an in-range clock reference is `base * 300 + extension`; the `u64`
arithmetic cannot overflow -/
theorem cref_27mhz (c : Time.ClockRef) (hb : c.base < 2^33) (he : c.ext < 2^9) :
    Time.crefTo27MHz c = .ok (c.base * 300 + c.ext) := by
  unfold Time.crefTo27MHz assertR
  have : c.base * 300 + c.ext < 2^64 := by omega
  simp only [this, decide_true, if_true, R.ok_bind, R.pure_eq]

/-! ### wrap detection -/

/-- For an earlier timestamp `e` and a later one `d ≤ 2^32` ticks (half the range) ahead, taken
modulo `2^33`: `likely_wrapped_since` answers true exactly when the later value has numerically
wrapped. -/
theorem wrapped_iff (e d : Nat) (he : e < 2^33) (hd : d ≤ 2^32) :
    Time.likelyWrappedSince ((e + d) % 2^33) e = true ↔ e + d ≥ 2^33 := by
  unfold Time.likelyWrappedSince
  rw [tie_model_max]
  simp only [Bool.and_eq_true, decide_eq_true_eq]
  omega

/-! ### non-vacuity -/

-- a 33-bit value and prefixes satisfying the hypotheses of `ts_roundtrip`; the encoder's bytes
example : (0x1FFFFFFFF : Nat) < 2^33 ∧ (2 : Nat) < 16 := by decide
example : encodeTs 2 0x1FFFFFFFF = [0x2F, 0xFF, 0xFF, 0xFF, 0xFF] := by decide
example : encodeTs 1 0 = [0x11, 0x00, 0x01, 0x00, 0x01] := by decide
example : encodeTs 3 0x123456789 = [0x39, 0x8D, 0x15, 0xCF, 0x13] := by decide
example : Time.fromPtsBytes (encodeTs 2 0x1FFFFFFFF) = .ok (.ok 0x1FFFFFFFF) := (ts_roundtrip _ (by decide)).2.2.1
-- `fromBytes_exact` / `prefix_exact`: buffers of length ≥ 5 with a cleared marker / a wrong prefix
example : 5 ≤ ([0x21, 0x00, 0x00, 0x00, 0x01] : Bytes).length ∧
    readBits [0x21, 0x00, 0x00, 0x00, 0x01] 7 1 = 1 ∧ readBits [0x21, 0x00, 0x00, 0x00, 0x01] 23 1 = 0 := by decide
example : Time.fromBytes [0x21, 0x00, 0x00, 0x00, 0x01] = .ok (.error (.markerBitNotSet 23)) := by rfl
example : Time.fromBytes [0x20, 0x00, 0x00, 0x00, 0x00] = .ok (.error (.markerBitNotSet 7)) := by rfl
example : Time.fromBytes [0x21, 0x00, 0x01, 0x00, 0x00] = .ok (.error (.markerBitNotSet 39)) := by rfl
example : Time.fromPtsBytes [0x31, 0x00, 0x01, 0x00, 0x01] = .ok (.error (.incorrectPrefix 2 3)) := by rfl
example : Time.fromDtsBytes [0x31, 0x00, 0x01, 0x00, 0x01] = .ok (.error (.incorrectPrefix 1 3)) := by rfl
-- refusal really happens, and acceptance really happens
example : (Time.fromU64 (2^33) (2^33)).isOk = false ∧ (Time.fromU64 (2^33) (2^33 - 1)).isOk = true := by decide
example : (Time.crefFromParts (2^33) 0).isOk = false ∧ (Time.crefFromParts 0 (2^9)).isOk = false ∧
    (Time.crefFromParts (2^33 - 1) (2^9 - 1)).isOk = true := by decide
-- `crefFromSlice_exact`: a 6-byte PCR with all base and extension bits set, reserved bits clear
example : Time.crefFromSlice [0xFF, 0xFF, 0xFF, 0xFF, 0x81, 0xFF] = .ok ⟨2^33 - 1, 2^9 - 1⟩ := by rfl
-- `cref_27mhz`: the largest in-range clock reference
example : Time.crefTo27MHz ⟨2^33 - 1, 2^9 - 1⟩ = .ok ((2^33 - 1) * 300 + 511) := by rfl
-- `wrapped_iff`: both sides of the equivalence occur within the hypotheses
example : Time.likelyWrappedSince ((8589934000 + 1000) % 2^33) 8589934000 = true := by decide
example : Time.likelyWrappedSince ((1000 + 2^32) % 2^33) 1000 = false := by decide
example : Time.likelyWrappedSince ((2^33 - 1 + 2^32) % 2^33) (2^33 - 1) = true := by decide

end Ts.Props.C15
