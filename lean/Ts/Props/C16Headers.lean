import Ts.Model.Values
import Ts.Spec.Bits
import Ts.Lemmas.BitOps
/-!
# C16 (headers) and C12 (value types): section header field extraction, `Pid` / `ContinuityCounter`

`SectionCommonHeader::new` and the `TableSyntaxHeader` accessors equal the `uimsbf` fields of
ISO/IEC 13818-1 2.4.4.11 (table_id 8, section_syntax_indicator 1, private_indicator 1, reserved 2,
section_length 12; table_id_extension 16, reserved 2, version_number 5, current_next_indicator 1,
section_number 8, last_section_number 8); the constructors' assertions fire exactly on the
documented conditions and `CurrentNext::from` never reaches its panic arm.
-/
namespace Ts.Props.C16Headers
open Ts Ts.Spec Ts.Values

/-- `SectionCommonHeader::new` is total exactly on 3-byte slices (it asserts the length) and
extracts the four fields -/
theorem common_header_exact (b : Bytes) (h : b.length = 3) :
    Psi.headerNew b = .ok ⟨readBits b 0 8, readBits b 8 1 == 1, readBits b 9 1 == 1, readBits b 12 12⟩ := by
  unfold Psi.headerNew
  have hl : (b.length == Psi.COMMON) = true := by simp [h, Psi.COMMON]
  simp only [assertR, hl, if_true, R.ok_bind]
  rw [byteAt_ok b 0 (by omega), byteAt_ok b 1 (by omega), byteAt_ok b 2 (by omega)]
  simp only [R.ok_bind, R.pure_eq]
  have r0 := readBits_byte b 0
  have r1 := readBits_sub b 1 0 1 (by omega)
  have r2 := readBits_sub b 1 1 1 (by omega)
  have e : readBits b 12 12 = readBits b 12 4 * 2^8 + readBits b (12 + 4) 8 := readBits_add b 12 4 8
  have r3 := readBits_sub b 1 4 4 (by omega)
  have r4 := readBits_byte b 2
  simp only [Nat.mul_zero, Nat.mul_one, Nat.add_zero] at r0 r1 r2 r3 r4
  rw [e, r0, r1, r2, r3, r4]
  have m1 := and_80 (byteD b 1) (byteD_lt b 1)
  have m2 := and_40 (byteD b 1) (byteD_lt b 1)
  have m3 := and_0f (byteD b 1) (byteD_lt b 1)
  have b2 := byteD_lt b 2
  rw [m1, m2, m3]
  simp only [Nat.shiftLeft_eq]
  rw [or_eq_add 8 (Nat.dvd_mul_left _ _) b2]
  simp

theorem common_header_wrong_length_panics (b : Bytes) (h : b.length ≠ 3) :
    (Psi.headerNew b).isOk = false := by
  unfold Psi.headerNew
  have hl : (b.length == Psi.COMMON) = false := by simp [Psi.COMMON, h]
  simp [assertR, hl, R.isOk]

theorem section_length_lt (b : Bytes) : readBits b 12 12 < 4096 := readBits_lt b 12 12

/-- `current_next_indicator`: the panic arm of `CurrentNext::from` is unreachable for a 1-bit value -/
theorem current_next_total (v : Nat) (h : v < 2) : currentNextFrom v = .ok (v == 1) := by
  have : v = 0 ∨ v = 1 := by omega
  rcases this with rfl | rfl <;> rfl

/-- `TableSyntaxHeader::new` + all accessors: total on every slice of at least 5 bytes, fields by
`uimsbf` -/
theorem table_syntax_header_exact (b : Bytes) (h : 5 ≤ b.length) :
    tshFields b = .ok ⟨readBits b 0 16, readBits b 18 5, readBits b 23 1 == 1, readBits b 24 8, readBits b 32 8⟩ := by
  unfold tshFields
  have hl : decide (b.length ≥ 5) = true := by simp; omega
  simp only [assertR, hl, if_true, R.ok_bind]
  rw [byteAt_ok b 0 (by omega), byteAt_ok b 1 (by omega), byteAt_ok b 2 (by omega),
    byteAt_ok b 3 (by omega), byteAt_ok b 4 (by omega)]
  simp only [R.ok_bind]
  have e : readBits b 0 16 = readBits b 0 8 * 2^8 + readBits b (0 + 8) 8 := readBits_add b 0 8 8
  have r0 := readBits_byte b 0
  have r1 := readBits_byte b 1
  have r2 := readBits_sub b 2 2 5 (by omega)
  have r3 := readBits_sub b 2 7 1 (by omega)
  have r4 := readBits_byte b 3
  have r5 := readBits_byte b 4
  simp only [Nat.mul_zero, Nat.mul_one] at r0 r1 r2 r3 r4 r5
  rw [e, r0, r1, r2, r3, r4, r5]
  have b1 := byteD_lt b 1
  have b2 := byteD_lt b 2
  have hc : currentNextFrom (byteD b 2 &&& 1) = .ok (byteD b 2 % 2 == 1) := by
    have hm : byteD b 2 &&& 1 = byteD b 2 % 2 := by
      simp
    rw [hm, current_next_total _ (Nat.mod_lt _ (by decide))]
  rw [hc]
  simp only [R.ok_bind, R.pure_eq, Nat.shiftLeft_eq]
  rw [or_eq_add 8 (Nat.dvd_mul_left _ _) b1]
  have hv : (byteD b 2 >>> 1) &&& 0b0001_1111 = byteD b 2 / 2 ^ (8 - 2 - 5) % 2 ^ 5 := by
    have := Nat.and_two_pow_sub_one_eq_mod (byteD b 2 >>> 1) 5
    rw [Nat.shiftRight_eq_div_pow]
    rw [Nat.shiftRight_eq_div_pow] at this
    simpa using this
  rw [hv]
  simp

theorem table_syntax_header_short_panics (b : Bytes) (h : b.length < 5) : (tshFields b).isOk = false := by
  unfold tshFields
  have hl : decide (b.length ≥ 5) = false := by simp; omega
  simp [assertR, hl, R.isOk]

theorem version_lt_32 (b : Bytes) : readBits b 18 5 < 32 := readBits_lt b 18 5

/-! ### `Pid` and `ContinuityCounter` (anchors of C12) -/

theorem pid_try_from_iff (v : Nat) : (pidTryFrom v).isSome = true ↔ v ≤ 0x1fff := by
  unfold pidTryFrom; split <;> simp_all

theorem pid_try_from_value (v : Nat) (h : v ≤ 0x1fff) : pidTryFrom v = some v := by
  unfold pidTryFrom; simp [h]

theorem pid_new_refuses_iff (v : Nat) : (pidNew v).isOk = true ↔ v ≤ 0x1fff := by
  unfold pidNew assertR
  by_cases h : v ≤ 0x1fff <;> simp [h, R.isOk]

theorem cc_new_refuses_iff (v : Nat) : (ccNew v).isOk = true ↔ v < 16 := by
  unfold ccNew assertR
  by_cases h : v < 0b10000 <;> simp [h, R.isOk] <;> omega

/-! ### non-vacuity -/
example : Psi.headerNew [0x02, 0xb0, 0x17] = .ok ⟨2, true, false, 23⟩ := by rfl
example : tshFields [0x00, 0x01, 0xc1, 0x00, 0x00] = .ok ⟨1, 0, true, 0, 0⟩ := by rfl
example : tshFields [0xab, 0xcd, 0x3e, 0x05, 0x09] = .ok ⟨0xabcd, 31, false, 5, 9⟩ := by rfl
example : (pidNew 0x2000).isOk = false ∧ (pidNew 0x1fff).isOk = true := by decide
example : (ccNew 16).isOk = false ∧ (ccNew 15).isOk = true := by decide

end Ts.Props.C16Headers
