import Ts.Lemmas.Demux
import Ts.Lemmas.DemuxB
import Ts.Props.C06
import Ts.Model.App
/-!
# C07 — cutting the stream at packet boundaries into successive `push` calls is irrelevant

For every handler semantics `sem`, every list of buffers whose lengths (except possibly the last)
are multiples of 188 — including empty and single-packet buffers — `pushAll` (one `push` per
buffer) equals one `push` of the concatenation: same final filter table and context (the context
carries every application callback), and a panic in one run iff the same panic in the other.
-/
namespace Ts.Props.C07
open Ts Ts.Demux

variable {H C : Type}

/-- framing never panics: every chunk of `chunks_exact(188)` has 188 bytes, so `try_new`'s length
assertion holds and the header accessors are in bounds (C12) -/
theorem frame_total (buf : Bytes) (base : Nat) : ∃ pks, frame buf base = .ok pks :=
  ⟨_, frame_eq_pure buf base⟩

theorem frame_isOk (buf : Bytes) (base : Nat) : (frame buf base).isOk = true := by
  rw [frame_eq_pure]; rfl

/-- every chunk handed to `Packet::try_new` is exactly 188 bytes long -/
theorem chunks_len (buf : Bytes) : ∀ ch ∈ chunksExact 188 (buf.length / 188 + 1) buf, ch.length = 188 :=
  chunks_all_188 buf

/-- every framed packet carries its 188 bytes unmodified and has the sync byte -/
theorem frame_packets_wellformed (buf : Bytes) (base : Nat) (pks : List Pk) (h : frame buf base = .ok pks) :
    ∀ pk ∈ pks, pk.bytes.length = 188 ∧ byteD pk.bytes 0 = 0x47 := by
  rw [frame_eq_pure] at h
  injection h with h
  subst h
  have : ∀ (chs : List Bytes) (off : Nat), (∀ ch ∈ chs, ch.length = 188) →
      ∀ pk ∈ framePure chs off, pk.bytes.length = 188 ∧ byteD pk.bytes 0 = 0x47 := by
    intro chs
    induction chs with
    | nil => intro off _ pk hpk; simp [framePure] at hpk
    | cons ch chs ih =>
      intro off hl pk hpk
      have ihh := ih (off + 188) (fun x hx => hl x (List.mem_cons_of_mem _ hx))
      unfold framePure at hpk
      cases hk : pkOf ch off with
      | none => rw [hk] at hpk; exact ihh pk hpk
      | some pk0 =>
        rw [hk] at hpk
        have hpk' : pk = pk0 ∨ pk ∈ framePure chs (off + 188) := by simpa using hpk
        cases hpk' with
        | inr e => exact ihh pk e
        | inl e =>
          subst e
          unfold pkOf at hk
          split at hk
          · rename_i hs
            injection hk with hk
            subst hk
            exact ⟨hl ch List.mem_cons_self, hs⟩
          · cases hk
  exact this _ base (chunks_all_188 buf)

/-- framing distributes over an aligned cut (`base` = bytes pushed before) -/
theorem frame_append (a b : Bytes) (base : Nat) (ha : a.length % 188 = 0) :
    frame (a ++ b) base =
      (do let x ← frame a base; let y ← frame b (base + a.length); pure (x ++ y)) := by
  rw [frame_eq_pure, frame_eq_pure, frame_eq_pure, frame_append_pure a b base ha]
  rfl

/-- the per-packet fold distributes over `++` -/
theorem pushSpec_append (sem : Sem H C) (tc : Tab H × C) (a b : List Pk) :
    pushSpec sem tc (a ++ b) = (pushSpec sem tc a >>= fun tc' => pushSpec sem tc' b) :=
  pushSpec_append_aux sem a b tc

/-- … hence so do the real loops: stopping the double loop after `a` and restarting it on `b`
(losing the cached `this_proc`, re-running `contains`) changes nothing -/
theorem pushModel_append (sem : Sem H C) (tc : Tab H × C) (a b : List Pk) :
    pushModel sem tc (a ++ b) = (pushModel sem tc a >>= fun tc' => pushModel sem tc' b) := by
  rw [C06.push_refines_spec, C06.push_refines_spec, pushSpec_append]
  cases pushSpec sem tc a with
  | panic s => rfl
  | ok tc' => simp only [R.ok_bind, C06.push_refines_spec]

/-- two successive pushes, the first one aligned = one push of the concatenation -/
theorem push_append (sem : Sem H C) (tc : Tab H × C) (a b : Bytes) (base : Nat)
    (ha : a.length % 188 = 0) :
    push sem tc (a ++ b) base = (push sem tc a base >>= fun tc' => push sem tc' b (base + a.length)) := by
  unfold push
  rw [frame_append a b base ha, frame_eq_pure a, frame_eq_pure b]
  simp only [R.ok_bind, R.pure_eq]
  rw [pushModel_append]

theorem push_nil (sem : Sem H C) (tc : Tab H × C) (base : Nat) : push sem tc [] base = .ok tc := rfl

/-- General form: only the LAST buffer may have a length that is not a multiple of 188 (its
remainder is dropped by `chunks_exact` in both runs). -/
theorem chunking_irrelevant_dropLast (sem : Sem H C) :
    ∀ (chunks : List Bytes) (tc : Tab H × C) (base : Nat),
      (∀ c ∈ chunks.dropLast, c.length % 188 = 0) →
      pushAll sem tc chunks base = push sem tc chunks.flatten base := by
  intro chunks
  induction chunks with
  | nil => intro tc base _; rfl
  | cons b bs ih =>
    intro tc base h
    rw [pushAll, List.flatten_cons]
    cases bs with
    | nil =>
      simp only [List.flatten_nil, List.append_nil]
      cases push sem tc b base with
      | panic s => rfl
      | ok tc' => rfl
    | cons b2 bs' =>
      have hb : b.length % 188 = 0 := h b (by simp [List.dropLast])
      have hrest : ∀ c ∈ (b2 :: bs').dropLast, c.length % 188 = 0 := by
        intro c hc
        apply h c
        rw [List.dropLast_cons_cons]
        exact List.mem_cons_of_mem _ hc
      rw [push_append sem tc b _ base hb]
      cases push sem tc b base with
      | panic s => rfl
      | ok tc' =>
        simp only [R.ok_bind]
        exact ih tc' (base + b.length) hrest

/-- MAIN: any cutting at transport-packet boundaries (incl. empty and single-packet buffers) gives
the same result as one call. -/
theorem chunking_irrelevant (sem : Sem H C) (tc : Tab H × C) (chunks : List Bytes) (base : Nat)
    (h : ∀ c ∈ chunks, c.length % 188 = 0) :
    pushAll sem tc chunks base = push sem tc chunks.flatten base :=
  chunking_irrelevant_dropLast sem chunks tc base
    (fun c hc => h c (List.dropLast_subset chunks hc))

/-- only the last buffer may be unaligned -/
theorem chunking_irrelevant_unaligned_last (sem : Sem H C) (tc : Tab H × C)
    (init : List Bytes) (last : Bytes) (base : Nat)
    (h : ∀ c ∈ init, c.length % 188 = 0) :
    pushAll sem tc (init ++ [last]) base = push sem tc (init.flatten ++ last) base := by
  have := chunking_irrelevant_dropLast sem (init ++ [last]) tc base
    (by rw [List.dropLast_concat]; exact h)
  rw [this]
  simp

/-- two arbitrary aligned cuttings of the same stream agree -/
theorem any_two_cuttings_agree (sem : Sem H C) (tc : Tab H × C) (cs1 cs2 : List Bytes) (base : Nat)
    (h1 : ∀ c ∈ cs1, c.length % 188 = 0) (h2 : ∀ c ∈ cs2, c.length % 188 = 0)
    (he : cs1.flatten = cs2.flatten) :
    pushAll sem tc cs1 base = pushAll sem tc cs2 base := by
  rw [chunking_irrelevant sem tc cs1 base h1, chunking_irrelevant sem tc cs2 base h2, he]

/-! ### non-vacuity -/

/-- a 188-byte packet: sync byte, PID 5, not scrambled -/
private def pkt5 : Bytes := [0x47, 0x00, 0x05, 0x10] ++ List.replicate 184 0
/-- a 188-byte packet on PID 1 (whose `exSem` handler queues changes) -/
private def pkt1 : Bytes := [0x47, 0x00, 0x01, 0x10] ++ List.replicate 184 0

private theorem pkt5_len : pkt5.length = 188 := by
  unfold pkt5; rw [List.length_append, List.length_replicate]; rfl
private theorem pkt1_len : pkt1.length = 188 := by
  unfold pkt1; rw [List.length_append, List.length_replicate]; rfl

example : (frame (pkt5 ++ pkt1) 0).isOk = true := frame_isOk _ _

/-- the hypothesis of `chunking_irrelevant` is satisfiable with empty, single-packet and
multi-packet buffers -/
private theorem ex_aligned : ∀ c ∈ [[], pkt5, [], pkt1 ++ pkt5, pkt1], c.length % 188 = 0 := by
  intro c hc
  simp only [List.mem_cons, List.not_mem_nil, or_false] at hc
  rcases hc with e | e | e | e | e <;> subst e <;>
    simp only [List.length_append, pkt5_len, pkt1_len, List.length_nil]

example : pushAll exSem ([], []) [[], pkt5, [], pkt1 ++ pkt5, pkt1] 0
    = push exSem ([], []) (pkt5 ++ pkt1 ++ pkt5 ++ pkt1) 0 := by
  have := chunking_irrelevant exSem ([], []) [[], pkt5, [], pkt1 ++ pkt5, pkt1] 0 ex_aligned
  rw [this]
  simp only [List.flatten_cons, List.flatten_nil, List.nil_append, List.append_nil, List.append_assoc]

/-! ### the concrete application (library PAT / PMT / PES filters + harness application) -/

theorem pushAll_single (sem : Sem H C) (tc : Tab H × C) (b : Bytes) (base : Nat) :
    pushAll sem tc [b] base = push sem tc b base := by
  simp only [pushAll]
  cases push sem tc b base with
  | ok v => rfl
  | panic s => rfl

/-- **C07 for the real filters**: for every configuration and every way of cutting a stream at
packet boundaries into pushes, the whole run — final handler table AND application context, hence
the complete ordered callback trace (`Ctx.trace`: handler requests, packets handed to recorders,
elementary-stream notifications with their ranges) — equals that of pushing the stream in one call -/
theorem app_chunking_irrelevant (cfg : Ts.App.Cfg) (chunks : List Bytes)
    (h : ∀ c ∈ chunks, c.length % 188 = 0) :
    Ts.App.runApp cfg chunks = Ts.App.runApp cfg [chunks.flatten] := by
  unfold Ts.App.runApp
  rw [chunking_irrelevant Ts.App.sem _ chunks 0 h, pushAll_single]

theorem app_trace_chunking_irrelevant (cfg : Ts.App.Cfg) (chunks : List Bytes)
    (h : ∀ c ∈ chunks, c.length % 188 = 0) (t : Tab Ts.App.Handler) (c : Ts.App.Ctx)
    (hr : Ts.App.runApp cfg [chunks.flatten] = .ok (t, c)) :
    ∃ t' c', Ts.App.runApp cfg chunks = .ok (t', c') ∧ c'.trace = c.trace :=
  ⟨t, c, by rw [app_chunking_irrelevant cfg chunks h, hr], rfl⟩

/-! ## The framing, characterised exactly (byte level)

`Props.C07.frame_packets_wellformed` above is soundness only.  The theorems below say exactly which
packets `push(buf)` iterates over, in terms of the bytes of `buf`:
`chunkAt buf k = buf[188k .. 188k+188)` and `pktAt buf base k` = the packet made of that chunk if its
first byte is `0x47` (definitions in `Ts/Lemmas/C06b.lean`, read back by `chunkAt_spec`,
`pktAt_spec`). -/

open Ts.Spec in
/-- **FRAMING.**  `frame buf base` never panics and yields exactly, in buffer order, for
`k = 0, 1, …, buf.length / 188 - 1`, the packet `pktAt buf base k` of every 188-byte chunk
`buf[188k .. 188k+188)` whose first byte is the sync byte `0x47` — each such chunk exactly once, no
other packet.  The trailing `buf.length % 188` bytes are not looked at (`frame_ignores_tail`). -/
theorem frame_spec (buf : Bytes) (base : Nat) :
    frame buf base = .ok ((List.range (buf.length / 188)).filterMap (pktAt buf base)) := by
  rw [frame_eq_pure, framePure_chunks_eq]

/-- the `k`-th chunk: 188 bytes, byte `i` of it is byte `188k + i` of the buffer -/
theorem chunkAt_spec (buf : Bytes) (k : Nat) (hk : k < buf.length / 188) :
    chunkAt buf k = (buf.drop (188 * k)).take 188 ∧ (chunkAt buf k).length = 188 ∧
    ∀ i, i < 188 → byteD (chunkAt buf k) i = byteD buf (188 * k + i) := by
  refine ⟨rfl, chunkAt_length buf k hk, fun i hi => ?_⟩
  unfold chunkAt
  rw [byteD_take _ _ _ hi, byteD_drop]

open Ts.Spec in
/-- the packet made of the `k`-th chunk: none unless the chunk starts with the sync byte; otherwise
the chunk's bytes unmodified, `off = base + 188k`, and the header fields read bit by bit as in
ISO/IEC 13818-1 2.4.3.2: `transport_error_indicator` = bit 8, `PID` = the 13 bits from bit 11,
`transport_scrambling_control` = the 2 bits from bit 24 (scrambled iff non-zero) -/
theorem pktAt_spec (buf : Bytes) (base k : Nat) :
    (byteD (chunkAt buf k) 0 ≠ 0x47 → pktAt buf base k = none) ∧
    (byteD (chunkAt buf k) 0 = 0x47 →
      ∃ pk, pktAt buf base k = some pk ∧ pk.bytes = chunkAt buf k ∧ pk.off = base + 188 * k ∧
        pk.pid = readBits pk.bytes 11 13 ∧ pk.tei = (readBits pk.bytes 8 1 == 1) ∧
        pk.scrambled = (readBits pk.bytes 24 2 != 0)) := by
  unfold pktAt
  constructor
  · intro h; simp only [h, if_false]
  · intro h; simp only [h, if_true]; exact ⟨_, rfl, rfl, rfl, rfl, rfl, rfl⟩

open Ts.Spec in
/-- the same three fields in byte arithmetic: `PID = (b1 mod 32)·256 + b2`, TEI = top bit of `b1`,
scrambling control = top two bits of `b3` -/
theorem header_fields_arith (p : Bytes) :
    readBits p 11 13 = (byteD p 1 % 32) * 256 + byteD p 2 ∧
    readBits p 8 1 = byteD p 1 / 128 ∧
    readBits p 24 2 = byteD p 3 / 64 := by
  have e : readBits p 11 13 = readBits p 11 5 * 2^8 + readBits p (11 + 5) 8 := readBits_add p 11 5 8
  have r1 := readBits_sub p 1 3 5 (by omega)
  have r2 := readBits_byte p 2
  have r3 := readBits_sub p 1 0 1 (by omega)
  have r4 := readBits_sub p 3 0 2 (by omega)
  simp only [Nat.mul_one, Nat.add_zero] at r1 r3 r4
  have b1 := byteD_lt p 1
  have b3 := byteD_lt p 3
  refine ⟨?_, ?_, ?_⟩
  · rw [e, r1, r2]; omega
  · rw [r3]; omega
  · rw [r4]; omega

/-- COMPLETENESS: every whole chunk with a valid sync byte IS passed, as the packet `pktAt` -/
theorem frame_complete (buf : Bytes) (base k : Nat) (hk : k < buf.length / 188)
    (hs : byteD buf (188 * k) = 0x47) :
    ∃ pks pk, frame buf base = .ok pks ∧ pk ∈ pks ∧ pktAt buf base k = some pk ∧
      pk.bytes = chunkAt buf k ∧ pk.off = base + 188 * k := by
  have h0 : byteD (chunkAt buf k) 0 = 0x47 := by
    rw [(chunkAt_spec buf k hk).2.2 0 (by omega)]; exact hs
  obtain ⟨pk, h1, h2, h3, _⟩ := (pktAt_spec buf base k).2 h0
  refine ⟨_, pk, frame_spec buf base, ?_, h1, h2, h3⟩
  rw [List.mem_filterMap]
  exact ⟨k, List.mem_range.2 hk, h1⟩

/-- SOUNDNESS: every packet passed is `pktAt` of a whole chunk, which starts with the sync byte -/
theorem frame_sound (buf : Bytes) (base : Nat) (pks : List Pk) (h : frame buf base = .ok pks) :
    ∀ pk ∈ pks, ∃ k, k < buf.length / 188 ∧ pktAt buf base k = some pk ∧
      byteD buf (188 * k) = 0x47 ∧ pk.bytes = chunkAt buf k ∧ pk.off = base + 188 * k := by
  rw [frame_spec] at h
  injection h with h
  subst h
  intro pk hpk
  rw [List.mem_filterMap] at hpk
  obtain ⟨k, hk, hp⟩ := hpk
  have hk' := List.mem_range.1 hk
  refine ⟨k, hk', hp, ?_⟩
  by_cases h0 : byteD (chunkAt buf k) 0 = 0x47
  · obtain ⟨pk', h1, h2, h3, _⟩ := (pktAt_spec buf base k).2 h0
    rw [hp] at h1
    injection h1 with h1
    subst h1
    refine ⟨?_, h2, h3⟩
    have hb := (chunkAt_spec buf k hk').2.2 0 (by omega)
    rw [Nat.add_zero] at hb
    rw [← hb]; exact h0
  · rw [(pktAt_spec buf base k).1 h0] at hp; cases hp

/-- IN ORDER, each chunk at most once: the stream offsets of the framed packets strictly increase -/
theorem frame_offsets_increasing (buf : Bytes) (base : Nat) (pks : List Pk)
    (h : frame buf base = .ok pks) : (pks.map (·.off)).Pairwise (· < ·) := by
  rw [frame_spec] at h
  injection h with h
  subst h
  rw [List.pairwise_map, List.pairwise_filterMap]
  refine List.Pairwise.imp ?_ (List.pairwise_lt_range (n := buf.length / 188))
  intro a b hab pa ha pb hb
  have offOf : ∀ k pk, pktAt buf base k = some pk → pk.off = base + 188 * k := by
    intro k pk hp
    unfold pktAt at hp
    simp only [] at hp
    split at hp
    · injection hp with hp; rw [← hp]
    · cases hp
  rw [offOf a pa ha, offOf b pb hb]
  omega

/-- the trailing `buf.length % 188` bytes are ignored: framing the buffer = framing its longest
prefix made of whole chunks -/
theorem frame_ignores_tail (buf : Bytes) (base : Nat) :
    frame buf base = frame (buf.take (188 * (buf.length / 188))) base := by
  rw [frame_spec, frame_spec]
  have hl : (buf.take (188 * (buf.length / 188))).length / 188 = buf.length / 188 := by
    rw [List.length_take, Nat.min_eq_left (Nat.mul_div_le _ _), Nat.mul_div_cancel_left _ (by omega)]
  rw [hl]
  congr 1
  apply filterMap_congr'
  intro k hk
  have hk' := List.mem_range.1 hk
  unfold pktAt
  rw [chunkAt_take buf k hk']

/-- … and more generally any two buffers that agree on their whole chunks frame alike -/
theorem frame_tail_irrelevant (buf tail tail' : Bytes) (base : Nat) (hb : buf.length % 188 = 0)
    (h1 : tail.length < 188) (h2 : tail'.length < 188) :
    frame (buf ++ tail) base = frame (buf ++ tail') base := by
  rw [frame_append buf tail base hb, frame_append buf tail' base hb]
  have e1 : frame tail (base + buf.length) = .ok [] := by
    rw [frame_eq_pure, chunks_short tail h1]; rfl
  have e2 : frame tail' (base + buf.length) = .ok [] := by
    rw [frame_eq_pure, chunks_short tail' h2]; rfl
  rw [e1, e2]

/-- **C06 + C07 on raw bytes**, for every handler semantics: if one `push` of `buf` under the logging
wrapper (`C06.logSem`) succeeds, the packets handed to `consume` during that `push` — all handlers
together, in call order — are exactly the non-flagged ones among the chunks of `buf` that start with
the sync byte, in buffer order, each once and unmodified; and the `push` without logging gives the
same table and context. -/
theorem push_delivers_framed (sem : Sem H C) (t : Tab H) (c : C) (buf : Bytes) (base : Nat)
    (t' : Tab H) (c' : C) (log : List (H × Pk))
    (h : push (logSem sem) (t, (c, [])) buf base = .ok (t', (c', log))) :
    log.map (·.2) =
      ((List.range (buf.length / 188)).filterMap (pktAt buf base)).filter (fun pk => !pk.flagged) ∧
    push sem (t, c) buf base = .ok (t', c') := by
  obtain ⟨pks, hf, h1, _, h3⟩ := C06.delivered_exactly_once_in_order_push sem t c buf base t' c' log h
  rw [frame_spec] at hf
  injection hf with hf
  subst hf
  exact ⟨h1, h3⟩

/-! ### non-vacuity of the framing theorems -/

/-- a buffer of two valid packets (PID 5; PID 1 with TEI set and scrambling `01`), one chunk without
sync byte between them, and 3 trailing bytes: exactly the two valid chunks are framed, at offsets
`base` and `base + 376`, with the fields of bytes 1-3 -/
private def pktBad : Bytes := List.replicate 188 0
private def pkt1f : Bytes := [0x47, 0x80, 0x01, 0x50] ++ List.replicate 184 0

example : frame (pkt5 ++ pktBad ++ pkt1f ++ [0x47, 1, 2]) 1000 =
    .ok [⟨pkt5, 1000, 5, false, false⟩, ⟨pkt1f, 1376, 1, true, true⟩] := by
  rw [frame_spec]; exact congrArg R.ok (by decide +kernel)

/-- `frame_complete` applies to chunk 2 of that buffer -/
example : ∃ pks pk, frame (pkt5 ++ pktBad ++ pkt1f ++ [0x47, 1, 2]) 1000 = .ok pks ∧ pk ∈ pks ∧
    pk.off = 1376 := by
  obtain ⟨pks, pk, h1, h2, _, _, h5⟩ :=
    frame_complete (pkt5 ++ pktBad ++ pkt1f ++ [0x47, 1, 2]) 1000 2 (by decide +kernel) (by decide +kernel)
  exact ⟨pks, pk, h1, h2, h5⟩

/-- `push_delivers_framed` on that buffer with `exSem`: the scrambled/TEI packet reaches no handler -/
example : push (logSem exSem) ([], ([], [])) (pkt5 ++ pktBad ++ pkt1f ++ [0x47, 1, 2]) 1000 =
    .ok ([none, some 0, none, none, none, some 1],
      ([9005, 500, 9001], [(0, ⟨pkt5, 1000, 5, false, false⟩)])) := by
  have hc : (match push (logSem exSem) ([], ([], [])) (pkt5 ++ pktBad ++ pkt1f ++ [0x47, 1, 2]) 1000 with
      | .ok r => decide (r = ([none, some 0, none, none, none, some 1],
          ([9005, 500, 9001], [(0, ⟨pkt5, 1000, 5, false, false⟩)])))
      | .panic _ => false) = true := by decide +kernel
  cases hr : push (logSem exSem) ([], ([], [])) (pkt5 ++ pktBad ++ pkt1f ++ [0x47, 1, 2]) 1000 with
  | panic s => rw [hr] at hc; cases hc
  | ok r => rw [hr] at hc; rw [of_decide_eq_true hc]

end Ts.Props.C07
