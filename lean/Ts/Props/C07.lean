import Ts.Lemmas.Demux
import Ts.Lemmas.DemuxB
import Ts.Props.C06
import Ts.Model.App
/-!
# C07 — cutting the stream at packet boundaries into successive `push` calls is irrelevant

For every handler semantics `sem`, every list of buffers whose lengths (except possibly the last)
are multiples of 188 — including empty and single-packet buffers — `pushAll` (one `push` per
buffer) equals one `push` of the concatenation: same final filter table and context (the context
carries every application callback), and a panic in one run iff the same panic in the other.
-/
namespace Ts.Props.C07
open Ts Ts.Demux

variable {H C : Type}

/-- framing never panics: every chunk of `chunks_exact(188)` has 188 bytes, so `try_new`'s length
assertion holds and the header accessors are in bounds (C12) -/
theorem frame_total (buf : Bytes) (base : Nat) : ∃ pks, frame buf base = .ok pks :=
  ⟨_, frame_eq_pure buf base⟩

theorem frame_isOk (buf : Bytes) (base : Nat) : (frame buf base).isOk = true := by
  rw [frame_eq_pure]; rfl

/-- every chunk handed to `Packet::try_new` is exactly 188 bytes long -/
theorem chunks_len (buf : Bytes) : ∀ ch ∈ chunksExact 188 (buf.length / 188 + 1) buf, ch.length = 188 :=
  chunks_all_188 buf

/-- every framed packet carries its 188 bytes unmodified and has the sync byte -/
theorem frame_packets_wellformed (buf : Bytes) (base : Nat) (pks : List Pk) (h : frame buf base = .ok pks) :
    ∀ pk ∈ pks, pk.bytes.length = 188 ∧ byteD pk.bytes 0 = 0x47 := by
  rw [frame_eq_pure] at h
  injection h with h
  subst h
  have : ∀ (chs : List Bytes) (off : Nat), (∀ ch ∈ chs, ch.length = 188) →
      ∀ pk ∈ framePure chs off, pk.bytes.length = 188 ∧ byteD pk.bytes 0 = 0x47 := by
    intro chs
    induction chs with
    | nil => intro off _ pk hpk; simp [framePure] at hpk
    | cons ch chs ih =>
      intro off hl pk hpk
      have ihh := ih (off + 188) (fun x hx => hl x (List.mem_cons_of_mem _ hx))
      unfold framePure at hpk
      cases hk : pkOf ch off with
      | none => rw [hk] at hpk; exact ihh pk hpk
      | some pk0 =>
        rw [hk] at hpk
        have hpk' : pk = pk0 ∨ pk ∈ framePure chs (off + 188) := by simpa using hpk
        cases hpk' with
        | inr e => exact ihh pk e
        | inl e =>
          subst e
          unfold pkOf at hk
          split at hk
          · rename_i hs
            injection hk with hk
            subst hk
            exact ⟨hl ch List.mem_cons_self, hs⟩
          · cases hk
  exact this _ base (chunks_all_188 buf)

/-- framing distributes over an aligned cut (`base` = bytes pushed before) -/
theorem frame_append (a b : Bytes) (base : Nat) (ha : a.length % 188 = 0) :
    frame (a ++ b) base =
      (do let x ← frame a base; let y ← frame b (base + a.length); pure (x ++ y)) := by
  rw [frame_eq_pure, frame_eq_pure, frame_eq_pure, frame_append_pure a b base ha]
  rfl

/-- the per-packet fold distributes over `++` -/
theorem pushSpec_append (sem : Sem H C) (tc : Tab H × C) (a b : List Pk) :
    pushSpec sem tc (a ++ b) = (pushSpec sem tc a >>= fun tc' => pushSpec sem tc' b) :=
  pushSpec_append_aux sem a b tc

/-- … hence so do the real loops: stopping the double loop after `a` and restarting it on `b`
(losing the cached `this_proc`, re-running `contains`) changes nothing -/
theorem pushModel_append (sem : Sem H C) (tc : Tab H × C) (a b : List Pk) :
    pushModel sem tc (a ++ b) = (pushModel sem tc a >>= fun tc' => pushModel sem tc' b) := by
  rw [C06.push_refines_spec, C06.push_refines_spec, pushSpec_append]
  cases pushSpec sem tc a with
  | panic s => rfl
  | ok tc' => simp only [R.ok_bind, C06.push_refines_spec]

/-- two successive pushes, the first one aligned = one push of the concatenation -/
theorem push_append (sem : Sem H C) (tc : Tab H × C) (a b : Bytes) (base : Nat)
    (ha : a.length % 188 = 0) :
    push sem tc (a ++ b) base = (push sem tc a base >>= fun tc' => push sem tc' b (base + a.length)) := by
  unfold push
  rw [frame_append a b base ha, frame_eq_pure a, frame_eq_pure b]
  simp only [R.ok_bind, R.pure_eq]
  rw [pushModel_append]

theorem push_nil (sem : Sem H C) (tc : Tab H × C) (base : Nat) : push sem tc [] base = .ok tc := rfl

/-- General form: only the LAST buffer may have a length that is not a multiple of 188 (its
remainder is dropped by `chunks_exact` in both runs). -/
theorem chunking_irrelevant_dropLast (sem : Sem H C) :
    ∀ (chunks : List Bytes) (tc : Tab H × C) (base : Nat),
      (∀ c ∈ chunks.dropLast, c.length % 188 = 0) →
      pushAll sem tc chunks base = push sem tc chunks.flatten base := by
  intro chunks
  induction chunks with
  | nil => intro tc base _; rfl
  | cons b bs ih =>
    intro tc base h
    rw [pushAll, List.flatten_cons]
    cases bs with
    | nil =>
      simp only [List.flatten_nil, List.append_nil]
      cases push sem tc b base with
      | panic s => rfl
      | ok tc' => rfl
    | cons b2 bs' =>
      have hb : b.length % 188 = 0 := h b (by simp [List.dropLast])
      have hrest : ∀ c ∈ (b2 :: bs').dropLast, c.length % 188 = 0 := by
        intro c hc
        apply h c
        rw [List.dropLast_cons_cons]
        exact List.mem_cons_of_mem _ hc
      rw [push_append sem tc b _ base hb]
      cases push sem tc b base with
      | panic s => rfl
      | ok tc' =>
        simp only [R.ok_bind]
        exact ih tc' (base + b.length) hrest

/-- MAIN: any cutting at transport-packet boundaries (incl. empty and single-packet buffers) gives
the same result as one call. -/
theorem chunking_irrelevant (sem : Sem H C) (tc : Tab H × C) (chunks : List Bytes) (base : Nat)
    (h : ∀ c ∈ chunks, c.length % 188 = 0) :
    pushAll sem tc chunks base = push sem tc chunks.flatten base :=
  chunking_irrelevant_dropLast sem chunks tc base
    (fun c hc => h c (List.dropLast_subset chunks hc))

/-- only the last buffer may be unaligned -/
theorem chunking_irrelevant_unaligned_last (sem : Sem H C) (tc : Tab H × C)
    (init : List Bytes) (last : Bytes) (base : Nat)
    (h : ∀ c ∈ init, c.length % 188 = 0) :
    pushAll sem tc (init ++ [last]) base = push sem tc (init.flatten ++ last) base := by
  have := chunking_irrelevant_dropLast sem (init ++ [last]) tc base
    (by rw [List.dropLast_concat]; exact h)
  rw [this]
  simp

/-- two arbitrary aligned cuttings of the same stream agree -/
theorem any_two_cuttings_agree (sem : Sem H C) (tc : Tab H × C) (cs1 cs2 : List Bytes) (base : Nat)
    (h1 : ∀ c ∈ cs1, c.length % 188 = 0) (h2 : ∀ c ∈ cs2, c.length % 188 = 0)
    (he : cs1.flatten = cs2.flatten) :
    pushAll sem tc cs1 base = pushAll sem tc cs2 base := by
  rw [chunking_irrelevant sem tc cs1 base h1, chunking_irrelevant sem tc cs2 base h2, he]

/-! ### non-vacuity -/

/-- a 188-byte packet: sync byte, PID 5, not scrambled -/
private def pkt5 : Bytes := [0x47, 0x00, 0x05, 0x10] ++ List.replicate 184 0
/-- a 188-byte packet on PID 1 (whose `exSem` handler queues changes) -/
private def pkt1 : Bytes := [0x47, 0x00, 0x01, 0x10] ++ List.replicate 184 0

private theorem pkt5_len : pkt5.length = 188 := by
  unfold pkt5; rw [List.length_append, List.length_replicate]; rfl
private theorem pkt1_len : pkt1.length = 188 := by
  unfold pkt1; rw [List.length_append, List.length_replicate]; rfl

example : (frame (pkt5 ++ pkt1) 0).isOk = true := frame_isOk _ _

/-- the hypothesis of `chunking_irrelevant` is satisfiable with empty, single-packet and
multi-packet buffers -/
private theorem ex_aligned : ∀ c ∈ [[], pkt5, [], pkt1 ++ pkt5, pkt1], c.length % 188 = 0 := by
  intro c hc
  simp only [List.mem_cons, List.not_mem_nil, or_false] at hc
  rcases hc with e | e | e | e | e <;> subst e <;>
    simp only [List.length_append, pkt5_len, pkt1_len, List.length_nil]

example : pushAll exSem ([], []) [[], pkt5, [], pkt1 ++ pkt5, pkt1] 0
    = push exSem ([], []) (pkt5 ++ pkt1 ++ pkt5 ++ pkt1) 0 := by
  have := chunking_irrelevant exSem ([], []) [[], pkt5, [], pkt1 ++ pkt5, pkt1] 0 ex_aligned
  rw [this]
  simp only [List.flatten_cons, List.flatten_nil, List.nil_append, List.append_nil, List.append_assoc]

/-! ### the concrete application (library PAT / PMT / PES filters + harness application) -/

theorem pushAll_single (sem : Sem H C) (tc : Tab H × C) (b : Bytes) (base : Nat) :
    pushAll sem tc [b] base = push sem tc b base := by
  simp only [pushAll]
  cases push sem tc b base with
  | ok v => rfl
  | panic s => rfl

/-- **C07 for the real filters**: for every configuration and every way of cutting a stream at
packet boundaries into pushes, the whole run — final handler table AND application context, hence
the complete ordered callback trace (`Ctx.trace`: handler requests, packets handed to recorders,
elementary-stream notifications with their ranges) — equals that of pushing the stream in one call -/
theorem app_chunking_irrelevant (cfg : Ts.App.Cfg) (chunks : List Bytes)
    (h : ∀ c ∈ chunks, c.length % 188 = 0) :
    Ts.App.runApp cfg chunks = Ts.App.runApp cfg [chunks.flatten] := by
  unfold Ts.App.runApp
  rw [chunking_irrelevant Ts.App.sem _ chunks 0 h, pushAll_single]

theorem app_trace_chunking_irrelevant (cfg : Ts.App.Cfg) (chunks : List Bytes)
    (h : ∀ c ∈ chunks, c.length % 188 = 0) (t : Tab Ts.App.Handler) (c : Ts.App.Ctx)
    (hr : Ts.App.runApp cfg [chunks.flatten] = .ok (t, c)) :
    ∃ t' c', Ts.App.runApp cfg chunks = .ok (t', c') ∧ c'.trace = c.trace :=
  ⟨t, c, by rw [app_chunking_irrelevant cfg chunks h, hr], rfl⟩

end Ts.Props.C07
