import Ts.Model.Pes
import Ts.Model.Tables
import Ts.Gen.Consts
/-!
# Further ties between the model's literals and constants regenerated from `/repo/src`

`tools/gen_lean.py` re-extracts these numbers from the Rust source on every run.  Each theorem below
restates one defining equation of the model with the regenerated constant in the place of the
model's literal and holds by unfolding; when the Rust constant changes the theorem stops checking,
which the owning property's check reports as a broken proof obligation (and then looks for a
failing input through the correspondence run).
-/
namespace Ts.Props.Ties
open Ts Ts.Pes Ts.Tables

/-- `dsm_trick_mode_end` adds `DSM_TRICK_MODE_SIZE` -/
theorem tie_trick_mode_size (f : Nat) :
    trickEnd f = (esRateEnd f >>= fun e => pure (e + if trickFlag f then Gen.pesTrickModeSize else 0)) := rfl

/-- `additional_copy_info_end` adds `ADDITIONAL_COPY_INFO_SIZE` -/
theorem tie_copy_info_size (f : Nat) :
    aciEnd f = (trickEnd f >>= fun e => pure (e + if aciFlag f then Gen.pesCopyInfoSize else 0)) := rfl

/-- `previous_pes_packet_crc_end` adds `PREVIOUS_PES_PACKET_CRC_SIZE` -/
theorem tie_prev_crc_size (f : Nat) :
    crcEnd f = (aciEnd f >>= fun e => pure (e + if crcFlag f then Gen.pesPrevCrcSize else 0)) := rfl

/-- `EsRate::bytes_per_second` multiplies by `RATE_BYTES_PER_SECOND` -/
theorem tie_bytes_per_second (v : Nat) : bytesPerSecond v = v * Gen.esRateBytesPerSecond := rfl

/-- the `u32` product cannot overflow for any value `EsRate::new` accepts (`es_rate < 1 << 22`) -/
theorem bytes_per_second_no_overflow (v : Nat) (h : v < Gen.esRateBound) : bytesPerSecond v < 2 ^ 32 := by
  unfold bytesPerSecond
  have : Gen.esRateBound = 4194304 := rfl
  omega

/-- minimum payload sizes demanded by the typed descriptors' constructors (`descriptor_len(buf, tag, n)`) -/
theorem tie_typed_descriptor_min_len (p : Bytes) :
    typedNew 5 p = .ok (descriptorLen p Gen.registrationMinLen) ∧
    typedNew 14 p = .ok (descriptorLen p Gen.maxBitrateMinLen) ∧
    typedNew 40 p = .ok (descriptorLen p Gen.avcVideoMinLen) := ⟨rfl, rfl, rfl⟩

/-- `ProgramIter::next` splits off `4` bytes per PAT entry -/
theorem tie_pat_entry_size (fuel : Nat) (buf : Bytes) :
    patPrograms (fuel + 1) buf =
      (if buf.isEmpty then .ok []
       else if buf.length < Gen.patEntrySize then .ok []
       else do
         let e ← patEntryFromBytes (buf.take Gen.patEntrySize)
         let rest ← patPrograms fuel (buf.drop Gen.patEntrySize)
         pure (e :: rest)) := rfl

/-- `LanguageIterator::next` splits off `4` bytes per language item -/
theorem tie_language_item_size (fuel : Nat) (buf : Bytes) :
    languages (fuel + 1) buf =
      (if buf.isEmpty then .ok []
       else if buf.length < Gen.languageItemSize then .ok [.tooShort buf.length]
       else do
         let head := buf.take Gen.languageItemSize
         assertR (head.length == 4) "assert_eq!(buf.len(), 4)"
         let code ← sliceR head 0 3
         let at_ ← byteAt head 3
         let rest ← languages fuel (buf.drop Gen.languageItemSize)
         pure (.lang code at_ :: rest)) := rfl

/-- `AudioType::from`: the four named values, everything else `Reserved(v)` with the value kept -/
theorem audio_type_exact (v : Nat) :
    audioTypeOf v = (if v = 0 then .undefined else if v = 1 then .cleanEffects
      else if v = 2 then .hearingImpaired else if v = 3 then .visualImpairedCommentary else .reserved v) := by
  match v with
  | 0 => rfl
  | 1 => rfl
  | 2 => rfl
  | 3 => rfl
  | n + 4 => simp [audioTypeOf]

/-- READING.  ISO/IEC 13818-1 (2007 and later) Table 2-60 calls `0x04..0x7F` "user private" and
`0x80..0xFF` "reserved"; the crate follows the first edition, where all of `0x04..0xFF` is reserved,
and names the variant `Reserved` for both ranges.  The raw value is carried by the variant, so no
information the standard defines is lost (C17: "expose exactly the bit fields the standard
defines"); the naming is recorded here, not counted as a defect. -/
theorem audio_type_keeps_value (v w : Nat) (hv : 4 ≤ v) (hw : 4 ≤ w) (h : audioTypeOf v = audioTypeOf w) :
    v = w := by
  rw [audio_type_exact, audio_type_exact] at h
  have hv' : ¬ v = 0 ∧ ¬ v = 1 ∧ ¬ v = 2 ∧ ¬ v = 3 := by omega
  have hw' : ¬ w = 0 ∧ ¬ w = 1 ∧ ¬ w = 2 ∧ ¬ w = 3 := by omega
  simp only [hv'.1, hv'.2.1, hv'.2.2.1, hv'.2.2.2, hw'.1, hw'.2.1, hw'.2.2.1, hw'.2.2.2, if_false] at h
  injection h

/-- `Language::code`: latin1 decoding is byte ↦ code point of the same number; three code points
below 256 for a three-byte code -/
theorem lang_code_points (code : Bytes) :
    (langCodePoints code).length = code.length ∧ ∀ n ∈ langCodePoints code, n < 256 := by
  refine ⟨by simp [langCodePoints], ?_⟩
  intro n hn
  simp only [langCodePoints, List.mem_map] at hn
  obtain ⟨b, _, rfl⟩ := hn
  exact UInt8.toNat_lt b

end Ts.Props.Ties
