import Ts.Props.Ties.Pes
import Ts.Props.Ties.Desc
import Ts.Props.Ties.Tables
import Ts.Props.Ties.Time
import Ts.Props.Ties.Packet
import Ts.Props.Ties.Af
import Ts.Props.Ties.Psi
import Ts.Props.Ties.Bounds
/-!
# Further ties between the model's literals and constants regenerated from `/repo/src`

`tools/gen_lean.py` re-extracts these numbers from the Rust source on every run.  Each theorem below
restates one defining equation of the model with the regenerated constant in the place of the
model's literal and holds by unfolding; when the Rust constant changes the theorem stops checking,
which the owning property's check reports as a broken proof obligation (and then looks for a
failing input through the correspondence run).

Second review round: every constant of `Ts/Gen/Consts.lean` now occurs in at least one theorem whose
statement contains a MODEL definition (a bare `Gen.x = literal` pin says nothing about the model).
Where the model uses a named constant of its own (`Psi.COMMON`, `Pes.FIXED`, `Packet.SIZE`, …) the
tie `Gen.x = Model.X` in the owning property file is kept; the theorems added here cover the places
where the model text has a bare literal.  The section "consistency with literals of the source"
uses a regenerated constant in a place where the RUST text has a bare literal as well (e.g.
`data.len() - 4` in `demultiplex.rs:388,526`, where the crate does not use `CRC_SIZE`): those
theorems break when the constant changes although the literal did not, which is the intended alarm
for an inconsistency inside the crate, not evidence of a model defect.
-/
