import Ts.Lemmas.C19
import Ts.Lemmas.C19b
import Ts.Lemmas.C19c
import Ts.Lemmas.C19d
import Ts.Props.C03
import Ts.Props.C06
/-!
# C19 — zero-copy delivery, bounded retained state, allocation-free steady state (model level)

The library's only heap-backed state is `Filters::filters_by_pid` (model: `Tab`), each PSI filter's
reassembly `Vec<u8>` (model: `Psi.St.buf`), the `FilterChangeset` (model: the change list returned
by `consume`, applied and dropped after each packet) and the two fixed-size `FixedBitSet`s of each
PAT/PMT processor.  The allocator itself is observed at run time by the harness; here we prove the
model-level facts that make its behaviour predictable.

* `frame_packets_in_buffer`, `es_payload_in_packet`, `es_payload_in_buffer`: every slice an
  elementary-stream consumer is handed is a window of the packet being consumed, hence of the
  buffer passed to `push`.  SCOPE: in the model an elementary-stream event carries a RANGE
  `(offset, length)` computed from `pk.off`; the model has no "copied payload" alternative, so these
  theorems cannot fail for the reason the property cares about.  They are range arithmetic: the
  reported ranges lie inside the packet / the pushed buffer and denote the same bytes in both.  The
  zero-copy clause for ES payloads (the slice handed to the consumer IS memory of the caller's
  buffer) is carried by the harness's slice-address check, not by a theorem.
* `single_packet_section_in_place` (+ `inplace_iff_started_here`, `buffered_iff_completed`,
  `section_fitting_first_packet_delivered_in_place`, `wellformed_in_place_iff_fits_first`):
  a whole-section delivery is flagged `inplace = some off` exactly when the section starts in this
  packet with all its `3 + section_length` bytes present; it then IS the window of the packet at
  `off`.  Deliveries from the reassembly buffer are exactly those completed by a continuation.
  READING of the property's "every section … that fits in one transport packet": proved for
  sections that LIE WHOLLY IN THE PACKET THAT STARTS THEM (all `3 + section_length` bytes present
  after the `pointer_field` bytes of one packet).  It is NOT proved — and false of code and model —
  for the other reading "every section of at most 183 bytes": a short section that the multiplexer
  splits over two packets is reassembled in the filter's `Vec` and delivered from there
  (`section_split_over_two_packets_is_copied`: a 16-byte PAT cut 13 + 3).
* `bounded_init`, `bounded_push`, `retained_bounded`: for ARBITRARY pushed bytes the filter table
  never exceeds 8192 slots and no reassembly buffer exceeds 1024 bytes, so the retained-memory
  measure stays below the constant `RETAINED_MAX`.
* `quiescent_step`, `steady_step_alloc_free`, `steady_state_no_alloc`
  (= `steady_state_no_alloc_partial`), `steady_state_all_pushes`: under the STATE-level hypothesis
  `Steady` (every packet's PID has a handler; every packet on a PAT/PMT PID is a `RepeatPkt v` for
  the version `v` its quiescent handler remembers: no unit start, or ≥ 8 section bytes after the
  pointer bytes carrying `version_number = v` — the de-duplication layer's own test), no dispatcher
  step constructs a handler, grows the table, writes a reassembly buffer or queues a change.  These
  are statements about the DIFFERENCE between the state before and after a step (`stepAllocFree`).
  PARTIAL with respect to the property's quantifier "any packetisation, any table repetition
  pattern": see §7.
* §7, input level: `C19_steady_full` states the property over INPUTS (warm-up realising a history;
  then, on every table PID, only complete transmissions of copies of the table last applied there,
  in ANY packetisation).  `C19_steady_full_false`: it is FALSE of code and model (known finding
  F14: a repetition whose 3-byte header straddles two packets resets the de-duplication layer, the
  next ordinary repetitions are re-applied, handlers are constructed).  `C19_steady_gap`,
  `C19_steady_gap_transmissions`, `C19_steady_partial`: what IS proved from input-level hypotheses —
  packetisations whose first share has ≥ 8 bytes (`WellFormedMux`), and the handler instance in each
  table slot being the one that applied the current table.
* `section_in_pushed_buffer`: an in-place section delivery is a window of the buffer passed to
  `push` (composition of `single_packet_section_in_place` with `frame`).
* `changes_per_step_bounded`, `chg_high_water_bounded`, `retained'_bounded`: no packet queues more
  than `CHG_MAX = 1012` changes, so the measure `retained'` that also counts the `FilterChangeset`
  is bounded by a constant.
* `mayAlloc`, `mayAlloc_false_step`, `steady_state_no_mayAlloc`: an operation-level predicate on
  the INPUTS of a step (does it reach construct / a buffer-layer write / a section callback / a
  scripted change?), its meaning in the model, and: it is `false` for every step of a steady push.
* §6 restates every definition a reader has to trust (`Bounded`, `retained`, `SteadyPk`,
  `RepeatPkt`, `StartedHere`, …) as plain statements, and relates `Quiescent`/`RepeatPkt` to the
  C10 versions.
* evaluated instances with a BUFFERED delivery (`pat_in_place_instance`, `pat_split_instance`,
  the examples after `splitMid_inv`) and of `es_payload_in_buffer` through `frame` (`pesBuf_frame`).
* `steady_state_instance`: the hypotheses of `steady_state_no_alloc`, `steady_state_all_pushes`,
  `retained_bounded` hold on a concrete run (PES packet + PAT repetition + PMT repetition in one
  push), checked by kernel evaluation.

What is NOT proved here (declared partial): addresses and the allocator.  `inplace`, event ranges
and "no buffer write" are properties of the MODEL; that the Rust code copies nothing and calls
the allocator only where the model has one of the operations above is observed by the harness
(slice-address check, counting `#[global_allocator]`), not proved.
-/
namespace Ts.Props.C19
open Ts Ts.Demux Ts.Lemmas.C19
open Ts.Lemmas.C03 (PsiInv CfgOk kindOf plOf hdrLen startOk cfgOf preSpec runPl cfgOk_cfgOf cfgOk_table)
open Ts.Spec.SectionMux (Kind WellFormedSection WellFormedMux Mux)

/-! ## 1. elementary-stream payloads are sub-slices of the pushed buffer -/

/-- every packet `push(buf)` iterates over (`base` = bytes pushed before this call) lies inside
`buf`, packet-aligned, and its bytes are literally that 188-byte window of `buf` -/
theorem frame_packets_in_buffer (buf : Bytes) (base : Nat) (pks : List Pk)
    (h : frame buf base = .ok pks) :
    ∀ pk ∈ pks, base ≤ pk.off ∧ pk.off + 188 ≤ base + buf.length ∧ (pk.off - base) % 188 = 0
      ∧ pk.bytes = (buf.drop (pk.off - base)).take 188 ∧ pk.bytes.length = 188
      ∧ pk.pid ≤ 0x1fff :=
  fun pk hpk =>
    let r := frame_pk_props buf base pks h pk hpk
    ⟨r.1, r.2.1, r.2.2.1, r.2.2.2.1, r.2.2.2.2.1, r.2.2.2.2.2.1⟩

/-- For a `.pes tag f` handler and every 188-byte packet: the events `App.consume` appends to the
context trace (`out`, most recent first) are `esStart`/`esEnd`/`esCcErr`, or `esCont tag off len`
with `pk.off + 4 ≤ off ∧ off + len = pk.off + 188 ∧ 0 < len`, or `esBegin tag bi` whose exposed
payload range `bi.pl = some (o, l)` satisfies `pk.off + 4 ≤ o ∧ o + l ≤ pk.off + 188`
(`EvInPacket`).  The handler queues no change and constructs nothing. -/
theorem es_payload_in_packet (tag : Nat) (f : PesFilter.F) (c : App.Ctx) (pk : Pk)
    (h' : App.Handler) (c' : App.Ctx) (chg : List (Change App.Handler))
    (hlen : pk.bytes.length = 188)
    (h : App.consume (.pes tag f) c pk = .ok (h', c', chg)) :
    ∃ out, c'.trace = out ++ c.trace ∧ (∀ e ∈ out, EvInPacket tag pk.off e) ∧ chg = []
      ∧ c'.nextTag = c.nextTag := by
  obtain ⟨out, _, _, e2, e3, e4, e5, _⟩ := pes_consume_events tag f c pk h' c' chg hlen h
  exact ⟨out, e3, e4, e2, e5⟩

/-- the shape predicate, spelled out for the two slice-carrying events -/
theorem evInPacket_cont (tag pkoff t off len : Nat) :
    EvInPacket tag pkoff (.esCont t off len) ↔
      (t = tag ∧ pkoff + 4 ≤ off ∧ off + len = pkoff + 188 ∧ 0 < len) := Iff.rfl

theorem evInPacket_begin (tag pkoff t : Nat) (bi : App.BeginInfo) :
    EvInPacket tag pkoff (.esBegin t bi) ↔
      (t = tag ∧ ∀ o l, bi.pl = some (o, l) → pkoff + 4 ≤ o ∧ o + l ≤ pkoff + 188) := Iff.rfl

/-- only elementary-stream events of this handler appear -/
theorem evInPacket_kinds (tag pkoff : Nat) (e : App.Ev) (h : EvInPacket tag pkoff e) :
    e = .esStart tag ∨ e = .esEnd tag ∨ e = .esCcErr tag ∨ (∃ off len, e = .esCont tag off len)
      ∨ (∃ bi, e = .esBegin tag bi) := by
  cases e with
  | esStart t => simp only [EvInPacket] at h; subst h; exact Or.inl rfl
  | esEnd t => simp only [EvInPacket] at h; subst h; exact Or.inr (Or.inl rfl)
  | esCcErr t => simp only [EvInPacket] at h; subst h; exact Or.inr (Or.inr (Or.inl rfl))
  | esCont t off len =>
    simp only [EvInPacket] at h; obtain ⟨h, _⟩ := h; subst h
    exact Or.inr (Or.inr (Or.inr (Or.inl ⟨_, _, rfl⟩)))
  | esBegin t bi =>
    simp only [EvInPacket] at h; obtain ⟨h, _⟩ := h; subst h
    exact Or.inr (Or.inr (Or.inr (Or.inr ⟨_, rfl⟩)))
  | construct _ _ => exact absurd h id
  | scriptIns _ _ => exact absurd h id
  | scriptRem _ => exact absurd h id
  | pkt _ _ => exact absurd h id

/-- the slice exposed by an event of the packet at `pkoff` lies in that packet's payload area -/
theorem evRange_in_packet (tag pkoff : Nat) (e : App.Ev) (h : EvInPacket tag pkoff e) (o l : Nat)
    (hr : evRange e = some (o, l)) : pkoff + 4 ≤ o ∧ o + l ≤ pkoff + 188 := by
  cases e with
  | esCont t off len =>
    simp only [evRange, Option.some.injEq, Prod.mk.injEq] at hr
    simp only [EvInPacket] at h
    omega
  | esBegin t bi => exact h.2 o l hr
  | esStart _ => cases hr
  | esEnd _ => cases hr
  | esCcErr _ => cases hr
  | construct _ _ => cases hr
  | scriptIns _ _ => cases hr
  | scriptRem _ => cases hr
  | pkt _ _ => cases hr

/-- **C19 (a).** For every packet `pk` of `push(buf)` consumed by a `.pes` handler: every event
appended to the trace has the shape above, and every slice `(o, l)` it exposes (`evRange`) is a
sub-slice of the buffer the caller passed to `push` — `base ≤ o`, `o + l ≤ base + buf.length` —
with the same bytes whether read from the packet or from the caller's buffer.

SCOPE (what this does NOT show).  The model's `esCont` / `esBegin` events carry ranges computed from
`pk.off`; there is no "copied" alternative for an ES payload in the model (unlike
`Psi.Delivery.inplace` for sections), so this theorem cannot fail for the reason the property cares
about: a Rust change that copies the payload into a scratch buffer before calling the consumer
would leave the model, and this theorem, unchanged.  It is range arithmetic: the ranges the model
reports lie inside the packet, inside the pushed buffer, and denote the same bytes in both.  The
zero-copy clause itself is carried by the harness's address check (the slice a consumer receives
lies inside the pushed buffer at exactly the range the model reports). -/
theorem es_payload_in_buffer (buf : Bytes) (base : Nat) (pks : List Pk)
    (hf : frame buf base = .ok pks) (pk : Pk) (hpk : pk ∈ pks)
    (tag : Nat) (f : PesFilter.F) (c : App.Ctx) (h' : App.Handler) (c' : App.Ctx)
    (chg : List (Change App.Handler))
    (h : App.consume (.pes tag f) c pk = .ok (h', c', chg)) :
    ∃ out, c'.trace = out ++ c.trace ∧ ∀ e ∈ out, EvInPacket tag pk.off e ∧
      ∀ o l, evRange e = some (o, l) →
        base ≤ pk.off ∧ pk.off + 188 ≤ base + buf.length
        ∧ pk.off + 4 ≤ o ∧ o + l ≤ pk.off + 188
        ∧ base ≤ o ∧ o + l ≤ base + buf.length
        ∧ (pk.bytes.drop (o - pk.off)).take l = (buf.drop (o - base)).take l := by
  obtain ⟨h1, h2, _, h4, h5, _⟩ := frame_pk_props buf base pks hf pk hpk
  obtain ⟨out, e1, e2, _⟩ := es_payload_in_packet tag f c pk h' c' chg h5 h
  refine ⟨out, e1, fun e he => ⟨e2 e he, ?_⟩⟩
  intro o l hr
  obtain ⟨a1, a2⟩ := evRange_in_packet tag pk.off e (e2 e he) o l hr
  refine ⟨h1, h2, a1, a2, by omega, by omega, ?_⟩
  rw [h4, window_of_window buf (pk.off - base) (o - pk.off) l (by omega)]
  congr 2
  omega

/-! ## 2. single-packet sections are delivered in place -/

/-- **C19 (b).** READING: "fits in one transport packet" is proved as "lies wholly in the packet that
starts it"; a section of ≤ 183 bytes that is split over two packets falls under the second
alternative (delivered from the buffer, `section_split_over_two_packets_is_copied`).
For the whole-section chains (`CfgOk`: `Psi.rawSection`, `Psi.rawCompact`,
`Psi.table`), every 188-byte packet `p`, every state satisfying the C03 invariant: each delivery
`d` of `Psi.consume` is either
* produced by the section START in this packet (`StartedHere`: unit start, the start passes the
  processor's checks, and `3 + section_length ≤` bytes present after the `pointer_field` bytes);
  then `d.inplace = some off` with `off = payload offset + 1 + pointer_field`, and
  `d.bytes = (p.drop off).take d.bytes.length`, `off + d.bytes.length ≤ 188`: the delivered
  section IS a sub-slice of the packet, not a copy; or
* completed by continuation bytes of a section being reassembled (`CompletedBy`: the buffer
  `s.buf` followed by the `n` owed bytes); then `d.inplace = none` (delivered from `St.buf`). -/
theorem single_packet_section_in_place (cfg : Psi.Cfg) (hc : CfgOk cfg) (s : Psi.St)
    (hs : PsiInv (kindOf cfg) s) (p : Bytes) (hp : p.length = 188) (s' : Psi.St)
    (ds : List Psi.Delivery) (h : Psi.consume cfg s p = .ok (s', ds)) :
    ∀ d ∈ ds, ∃ q, plOf p = some q ∧
      ((q.us = true ∧ StartedHere cfg q.bytes q.off d
          ∧ d.inplace = some (q.off + 1 + byteD q.bytes 0)
          ∧ d.bytes = (p.drop (q.off + 1 + byteD q.bytes 0)).take d.bytes.length
          ∧ q.off + 1 + byteD q.bytes 0 + d.bytes.length ≤ 188
          ∧ d.bytes.length = 3 + hdrLen d.bytes)
       ∨ (CompletedBy s (contBytes q.us q.bytes) d ∧ d.inplace = none)) := by
  rw [Lemmas.C03.consume_eq_plOf cfg s p hp] at h
  cases hq : plOf p with
  | none =>
    rw [hq] at h
    have := R.ok_inj h
    simp only [Prod.mk.injEq] at this
    rw [← this.2]
    intro d hd; cases hd
  | some q =>
    rw [hq] at h
    have hsz := Lemmas.C03.plOf_size p hp q hq
    change Lemmas.C03.consumePayload cfg s q.us q.bytes q.off = _ at h
    rw [Lemmas.C03.consumePayload_eq cfg hc s q.us q.bytes q.off hsz.1 hs] at h
    have := R.ok_inj h
    have e : ds = (Lemmas.C03.consumeSpec cfg s q.us q.bytes q.off).2 := by rw [this]
    intro d hd
    rw [e] at hd
    refine ⟨q, rfl, ?_⟩
    rcases consumeSpec_origin cfg s q.us q.bytes q.off d hd with ⟨hus, hst⟩ | hcb
    · obtain ⟨a1, a2, a3, a4⟩ := startedHere_window cfg p hp q hq d hst
      exact Or.inl ⟨hus, hst, a1, a2, a3, a4⟩
    · have ⟨n, _, _, hd'⟩ := hcb
      exact Or.inr ⟨hcb, by rw [hd']⟩

/-- `inplace = some _` exactly for deliveries started (and completed) in this packet -/
theorem inplace_iff_started_here (cfg : Psi.Cfg) (hc : CfgOk cfg) (s : Psi.St)
    (hs : PsiInv (kindOf cfg) s) (p : Bytes) (hp : p.length = 188) (s' : Psi.St)
    (ds : List Psi.Delivery) (h : Psi.consume cfg s p = .ok (s', ds)) (d : Psi.Delivery) (hd : d ∈ ds) :
    d.inplace.isSome = true ↔ ∃ q, plOf p = some q ∧ q.us = true ∧ StartedHere cfg q.bytes q.off d := by
  obtain ⟨q, hq, hcase⟩ := single_packet_section_in_place cfg hc s hs p hp s' ds h d hd
  constructor
  · intro hi
    rcases hcase with ⟨hus, hst, _⟩ | ⟨_, hn⟩
    · exact ⟨q, hq, hus, hst⟩
    · rw [hn] at hi; cases hi
  · rintro ⟨q', _, _, _, _, hd'⟩
    rw [hd']; rfl

/-- `inplace = none` exactly for deliveries completed by a continuation (multi-packet sections:
under the C03 invariant the buffered part is at least the fixed header, so not empty) -/
theorem buffered_iff_completed (cfg : Psi.Cfg) (hc : CfgOk cfg) (s : Psi.St)
    (hs : PsiInv (kindOf cfg) s) (p : Bytes) (hp : p.length = 188) (s' : Psi.St)
    (ds : List Psi.Delivery) (h : Psi.consume cfg s p = .ok (s', ds)) (d : Psi.Delivery) (hd : d ∈ ds) :
    d.inplace = none ↔
      ∃ q, plOf p = some q ∧ CompletedBy s (contBytes q.us q.bytes) d ∧ 3 ≤ s.buf.length := by
  obtain ⟨q, hq, hcase⟩ := single_packet_section_in_place cfg hc s hs p hp s' ds h d hd
  constructor
  · intro hi
    rcases hcase with ⟨_, _, hsome, _⟩ | ⟨hcb, _⟩
    · rw [hsome] at hi; cases hi
    · have ⟨n, hn, _⟩ := hcb
      have := (hs n hn).2.1
      have := Lemmas.C03.minHeader_ge (kindOf cfg)
      exact ⟨q, hq, hcb, by omega⟩
  · rintro ⟨q', _, ⟨n, _, _, hd'⟩, _⟩
    rw [hd']

/-- the three chains of the crate satisfy `CfgOk` and their kinds are as expected, so
`single_packet_section_in_place` applies to each -/
theorem chains_cfgOk :
    (CfgOk Psi.rawSection ∧ kindOf Psi.rawSection = .syntax)
    ∧ (CfgOk Psi.rawCompact ∧ kindOf Psi.rawCompact = .compact)
    ∧ (CfgOk Psi.table ∧ kindOf Psi.table = .syntax) :=
  ⟨⟨cfgOk_cfgOf .syntax, rfl⟩, ⟨cfgOk_cfgOf .compact, rfl⟩, ⟨cfgOk_table, rfl⟩⟩

/-- Converse: a unit-start packet whose section start passes the processor's checks (`startOk`)
and has all `3 + section_length` bytes present IS delivered in place, as the window of the packet
at `payload offset + 1 + pointer_field` — unless the dedup layer (only in `Psi.table`) recognises
the current version. -/
theorem section_fitting_first_packet_delivered_in_place (cfg : Psi.Cfg) (hc : CfgOk cfg) (s : Psi.St)
    (hs : PsiInv (kindOf cfg) s) (p : Bytes) (hp : p.length = 188) (q : Lemmas.C03.Pl)
    (hq : plOf p = some q) (hus : q.us = true)
    (hok : startOk cfg ((q.bytes.drop 1).drop (byteD q.bytes 0)) = true)
    (hfit : 3 + hdrLen ((q.bytes.drop 1).drop (byteD q.bytes 0))
      ≤ ((q.bytes.drop 1).drop (byteD q.bytes 0)).length)
    (hdd : cfg.dedup = true →
      s.lastVersion ≠ some (versionOf ((q.bytes.drop 1).drop (byteD q.bytes 0)))) :
    ∃ s' ds d, Psi.consume cfg s p = .ok (s', ds) ∧ d ∈ ds
      ∧ d.inplace = some (q.off + 1 + byteD q.bytes 0)
      ∧ d.bytes = (p.drop (q.off + 1 + byteD q.bytes 0)).take (3 + hdrLen (p.drop (q.off + 1 + byteD q.bytes 0)))
      ∧ d.bytes.length = 3 + hdrLen (p.drop (q.off + 1 + byteD q.bytes 0)) := by
  have hsz := Lemmas.C03.plOf_size p hp q hq
  have hmem := consumeSpec_started_delivered cfg s q.bytes q.off hok hfit hdd
  have hb := plOf_bytes p hp q hq
  have hns : (q.bytes.drop 1).drop (byteD q.bytes 0) = p.drop (q.off + 1 + byteD q.bytes 0) := by
    rw [hb, List.drop_drop, List.drop_drop, Nat.add_assoc]
  refine ⟨(Lemmas.C03.consumeSpec cfg s true q.bytes q.off).1,
    (Lemmas.C03.consumeSpec cfg s true q.bytes q.off).2, _, ?_, hmem, rfl, ?_, ?_⟩
  · rw [Lemmas.C03.consume_eq_plOf cfg s p hp, hq]
    show Lemmas.C03.consumePayload cfg s q.us q.bytes q.off = _
    rw [Lemmas.C03.consumePayload_eq cfg hc s q.us q.bytes q.off hsz.1 hs, hus]
  · show List.take _ _ = _
    rw [hns]
  · show (List.take _ _).length = _
    rw [hns] at hfit ⊢
    rw [List.length_take]
    omega

/-- Instantiating C03 `section_reassembled`: for a well-formed section `S` in a well-formed
packetisation `m`, `S` is delivered exactly once, and in place iff the packet that starts it carries
ALL of it (`m.k = S.length`); otherwise (`m.k < S.length`: the multiplexer cut it, however short `S`
is) it comes from the buffer.  "Fits the first packet" here means "is wholly in the first packet",
not "`S.length ≤ 183`"; instances of both cases on the same 16-byte PAT: `pat_in_place_instance`,
`pat_split_instance`. -/
theorem wellformed_in_place_iff_fits_first (kind : Kind) (S : Bytes) (hS : WellFormedSection kind S)
    (m : Mux) (hm : WellFormedMux kind S m) (st : Psi.St) (hst : PsiInv kind st)
    (off : Nat) (rest : List Lemmas.C03.Pl) (hus : ∀ q ∈ rest, q.us = false)
    (hrest : rest.map (·.bytes) = m.rest) :
    ∃ sfin d,
      runPl (cfgOf kind) st (⟨true, m.first S, off⟩ :: rest)
        = .ok (sfin, (preSpec (cfgOf kind) st m.pre).2 ++ [d])
      ∧ d.bytes = S
      ∧ (d.inplace = some (off + 1 + m.pre.length) ↔ m.k = S.length)
      ∧ (d.inplace = none ↔ m.k < S.length) := by
  obtain ⟨sfin, h1, _⟩ := Props.C03.section_reassembled kind S hS m hm st hst off rest hus hrest
  have hk : m.k ≤ S.length := hm.1
  refine ⟨sfin, _, h1, rfl, ?_, ?_⟩
  · by_cases e : m.k = S.length
    · simp [e]
    · simp [e]
  · by_cases e : m.k = S.length
    · simp [e]
    · simp only [e, if_false, true_iff]; omega

/-- **C19 (b), lifted to the pushed buffer.**  For every packet `pk` that `push(buf)` iterates
over (`frame buf base = .ok pks`, `pk ∈ pks`; `base` = bytes pushed before this call), every
whole-section chain (`CfgOk`), every state satisfying the C03 invariant: each delivery `d` of
`Psi.consume cfg s pk.bytes` that is flagged in place (`d.inplace = some o`) satisfies, with
`pk.off = base + 188 * k`: `5 ≤ o`, `o + d.bytes.length ≤ 188` (inside the packet),
`d.bytes.length = 3 + section_length`, the global range `[pk.off + o, pk.off + o + d.bytes.length)`
lies in `[base, base + buf.length)`, and the delivered bytes ARE the window of the caller's
buffer at `188 * k + o` (and of the packet at `o`).  Which deliveries are in place is characterised
by `inplace_iff_started_here` / `section_fitting_first_packet_delivered_in_place`. -/
theorem section_in_pushed_buffer (buf : Bytes) (base : Nat) (pks : List Pk)
    (hf : frame buf base = .ok pks) (pk : Pk) (hpk : pk ∈ pks)
    (cfg : Psi.Cfg) (hc : CfgOk cfg) (s : Psi.St) (hs : PsiInv (kindOf cfg) s)
    (s' : Psi.St) (ds : List Psi.Delivery) (h : Psi.consume cfg s pk.bytes = .ok (s', ds)) :
    ∀ d ∈ ds, ∀ o, d.inplace = some o →
      ∃ k, pk.off = base + 188 * k
        ∧ 5 ≤ o ∧ o + d.bytes.length ≤ 188 ∧ d.bytes.length = 3 + hdrLen d.bytes
        ∧ base ≤ pk.off + o ∧ pk.off + o + d.bytes.length ≤ base + buf.length
        ∧ d.bytes = (pk.bytes.drop o).take d.bytes.length
        ∧ d.bytes = (buf.drop (188 * k + o)).take d.bytes.length := by
  obtain ⟨h1, h2, h3, h4, h5, _⟩ := frame_pk_props buf base pks hf pk hpk
  intro d hd o ho
  obtain ⟨q, hq, hcase⟩ := single_packet_section_in_place cfg hc s hs pk.bytes h5 s' ds h d hd
  have hsz := Lemmas.C03.plOf_size pk.bytes h5 q hq
  rcases hcase with ⟨_, _, hin, hb, hle, hlen⟩ | ⟨_, hn⟩
  · rw [hin] at ho
    injection ho with ho
    subst ho
    refine ⟨(pk.off - base) / 188, by omega, by omega, hle, hlen, by omega, by omega, hb, ?_⟩
    have e : 188 * ((pk.off - base) / 188) = pk.off - base := by omega
    rw [e]
    have hb' := hb
    rw [h4, window_of_window buf (pk.off - base) _ _ hle] at hb'
    exact hb'
  · rw [hn] at ho; cases ho

/-- … and the converse direction composed the same way: a unit-start packet of `push(buf)` whose
section start passes the processor's checks, has all `3 + section_length` bytes present and is not
suppressed by the dedup layer yields a delivery whose bytes are the window of the caller's buffer
at `188 * k + payload offset + 1 + pointer_field`. -/
theorem section_fitting_first_packet_in_pushed_buffer (buf : Bytes) (base : Nat) (pks : List Pk)
    (hf : frame buf base = .ok pks) (pk : Pk) (hpk : pk ∈ pks)
    (cfg : Psi.Cfg) (hc : CfgOk cfg) (s : Psi.St) (hs : PsiInv (kindOf cfg) s)
    (q : Lemmas.C03.Pl) (hq : plOf pk.bytes = some q) (hus : q.us = true)
    (hok : startOk cfg ((q.bytes.drop 1).drop (byteD q.bytes 0)) = true)
    (hfit : 3 + hdrLen ((q.bytes.drop 1).drop (byteD q.bytes 0))
      ≤ ((q.bytes.drop 1).drop (byteD q.bytes 0)).length)
    (hdd : cfg.dedup = true →
      s.lastVersion ≠ some (versionOf ((q.bytes.drop 1).drop (byteD q.bytes 0)))) :
    ∃ s' ds d k, Psi.consume cfg s pk.bytes = .ok (s', ds) ∧ d ∈ ds
      ∧ pk.off = base + 188 * k
      ∧ d.inplace = some (q.off + 1 + byteD q.bytes 0)
      ∧ base ≤ pk.off + (q.off + 1 + byteD q.bytes 0)
      ∧ pk.off + (q.off + 1 + byteD q.bytes 0) + d.bytes.length ≤ base + buf.length
      ∧ d.bytes = (buf.drop (188 * k + (q.off + 1 + byteD q.bytes 0))).take d.bytes.length := by
  obtain ⟨_, _, _, _, h5, _⟩ := frame_pk_props buf base pks hf pk hpk
  obtain ⟨s', ds, d, h1, h2, h3, _, _⟩ :=
    section_fitting_first_packet_delivered_in_place cfg hc s hs pk.bytes h5 q hq hus hok hfit hdd
  obtain ⟨k, k1, _, _, _, k5, k6, _, k8⟩ :=
    section_in_pushed_buffer buf base pks hf pk hpk cfg hc s hs s' ds h1 d h2 _ h3
  exact ⟨s', ds, d, k, h1, h2, k1, h3, k5, k6, k8⟩

/-! ## 3. retained state is bounded for arbitrary hostile input -/

/-- the invariant, spelled out: at most 8192 table slots, and every PAT/PMT handler's reassembly
state satisfies the C03 buffer invariant with `buf.length ≤ 1024` -/
theorem bounded_iff (t : Tab App.Handler) :
    Bounded t ↔ t.length ≤ 8192 ∧ ∀ p h, t.get p = some h →
      (∀ s reg, h = .pat s reg → PsiInv .syntax s ∧ s.buf.length ≤ 1024) ∧
      (∀ pid prog s reg, h = .pmt pid prog s reg → PsiInv .syntax s ∧ s.buf.length ≤ 1024) := by
  unfold Bounded HOk
  constructor
  · rintro ⟨h1, h2⟩
    refine ⟨h1, fun p h hg => ⟨?_, ?_⟩⟩
    · intro s reg e; subst e; exact h2 p _ hg s rfl
    · intro pid prog s reg e; subst e; exact h2 p _ hg s rfl
  · rintro ⟨h1, h2⟩
    refine ⟨h1, fun p h hg s hs => ?_⟩
    cases h with
    | pat s0 reg => injection hs with hs; subst hs; exact (h2 p _ hg).1 _ _ rfl
    | pmt a b s0 reg => injection hs with hs; subst hs; exact (h2 p _ hg).2 _ _ _ _ rfl
    | pes _ _ => cases hs
    | recorder _ => cases hs

/-- the script hypothesis, spelled out: recorder scripts (harness input, not stream bytes) only
name PIDs below 8192 -/
theorem scriptOk_iff (cfg : App.Cfg) :
    ScriptOk cfg ↔ ∀ k ops, (k, ops) ∈ cfg.script → ∀ op ∈ ops,
      (match op with | .ins p => p | .rem p => p) < 8192 := by
  unfold ScriptOk
  constructor
  · intro h k ops hm op ho
    have := h k ops hm op ho
    cases op <;> exact this
  · intro h k ops hm op ho
    have := h k ops hm op ho
    cases op <;> exact this

theorem bounded_init (cfg : App.Cfg) (h : ScriptOk cfg) : Bounded (App.init cfg).1 :=
  (init_inv cfg h).1

/-- `Demux.push App.sem` preserves the invariant for EVERY byte string `buf` -/
theorem bounded_push (t : Tab App.Handler) (c : App.Ctx) (buf : Bytes) (base : Nat)
    (t' : Tab App.Handler) (c' : App.Ctx) (hb : Bounded t) (hs : ScriptOk c.cfg)
    (h : push App.sem (t, c) buf base = .ok (t', c')) : Bounded t' ∧ ScriptOk c'.cfg :=
  push_inv (t, c) buf base (t', c') ⟨hb, hs⟩ h

/-- one dispatcher step on a framed packet (188 bytes, 13-bit PID) preserves the invariant -/
theorem bounded_step (t : Tab App.Handler) (c : App.Ctx) (pk : Pk) (t' : Tab App.Handler) (c' : App.Ctx)
    (hb : Bounded t) (hs : ScriptOk c.cfg) (hlen : pk.bytes.length = 188) (hpid : pk.pid ≤ 0x1fff)
    (h : specStep App.sem (t, c) pk = .ok (t', c')) : Bounded t' ∧ ScriptOk c'.cfg :=
  specStep_inv (t, c) pk (t', c') ⟨hb, hs⟩ ⟨hlen, by omega⟩ h

/-- the measure never exceeds the constant under the invariant -/
theorem retained_le_const (t : Tab App.Handler) (hb : Bounded t) : retained t ≤ RETAINED_MAX :=
  retained_le t hb

theorem retained_max_value : RETAINED_MAX = 8192 * (1 + 1024 + 2 * 1024) ∧ RETAINED_MAX = 25174016 :=
  ⟨rfl, by decide⟩

/-- **C19 (c).** For every configuration whose recorder scripts name only 13-bit PIDs and EVERY
sequence of pushed byte strings (any number, any lengths, any contents): if the run completes,
the filter table has at most 8192 slots, every reassembly buffer holds at most 1024 bytes, and the
retained-memory measure (slots + buffer bytes + 2 KiB of fixed bitsets per PAT/PMT handler) is at
most the constant `RETAINED_MAX`, independent of the input.  The measure `retained` OMITS the
`FilterChangeset`: its `Vec` is empty between packets but keeps its capacity; see
`retained'_bounded` below for the measure that includes it. -/
theorem retained_bounded (cfg : App.Cfg) (pushes : List Bytes) (t : Tab App.Handler) (c : App.Ctx)
    (hs : ScriptOk cfg) (h : App.runApp cfg pushes = .ok (t, c)) :
    Bounded t ∧ retained t ≤ RETAINED_MAX := by
  have hi := pushAll_inv pushes (App.init cfg) 0 (t, c) (init_inv cfg hs) h
  exact ⟨hi.1, retained_le t hi.1⟩

/-- … and the same after every prefix of the pushes (the bound holds BETWEEN pushes) -/
theorem retained_bounded_between_pushes (cfg : App.Cfg) (pushes : List Bytes)
    (t : Tab App.Handler) (c : App.Ctx) (hs : ScriptOk cfg)
    (h : App.runApp cfg pushes = .ok (t, c)) (buf : Bytes) (base : Nat) (t' : Tab App.Handler)
    (c' : App.Ctx) (h' : push App.sem (t, c) buf base = .ok (t', c')) :
    retained t ≤ RETAINED_MAX ∧ retained t' ≤ RETAINED_MAX := by
  have hi := pushAll_inv pushes (App.init cfg) 0 (t, c) (init_inv cfg hs) h
  have hi' := push_inv (t, c) buf base (t', c') hi h'
  exact ⟨retained_le t hi.1, retained_le t' hi'.1⟩

/-! ### 3b. the `FilterChangeset`

`retained` above leaves out the `FilterChangeset` (`Vec<FilterChange>`; `apply` drains it but keeps
its capacity).  The model has no capacity; what it has is the LENGTH of the change list each packet
queues (`stepChg`).  We bound that length for every packet of every run and add the resulting
high-water mark to the measure. -/

/-- `stepChg tc pk` is the change list `specStep` applies: the same `ensure`, the same `consume`,
returning the queued changes instead of applying them (compare `Lemmas.Demux.specStep_eq`) -/
theorem stepChg_eq (tc : Tab App.Handler × App.Ctx) (pk : Pk) :
    stepChg tc pk =
      (ensure App.sem tc.1 tc.2 pk.pid >>= fun r =>
        if pk.flagged then R.ok []
        else match r.1.get pk.pid with
          | none => R.panic "called `Option::unwrap()` on a `None` value"
          | some h => App.consume h r.2 pk >>= fun x => R.ok x.2.2) := rfl

theorem chg_max_value : MAX_ENTRIES = 253 ∧ CHG_MAX = 2 * (2 * MAX_ENTRIES) ∧ CHG_MAX = 1012 :=
  ⟨rfl, rfl, rfl⟩

/-- the extra invariants, spelled out: every PAT/PMT handler in the table remembers at most 253
registered PIDs; recorder scripts (harness input) queue at most `CHG_MAX` changes per packet -/
theorem regInv_iff (t : Tab App.Handler) :
    RegInv t ↔ ∀ p h, t.get p = some h →
      (∀ s reg, h = .pat s reg → reg.length ≤ 253) ∧
      (∀ pid prog s reg, h = .pmt pid prog s reg → reg.length ≤ 253) := by
  unfold RegInv RegOk MAX_ENTRIES
  constructor
  · intro h p hd hg
    refine ⟨?_, ?_⟩
    · intro s reg e; subst e; exact h p _ hg
    · intro pid prog s reg e; subst e; exact h p _ hg
  · intro h p hd hg
    cases hd with
    | pat s reg => exact (h p _ hg).1 s reg rfl
    | pmt a b s reg => exact (h p _ hg).2 a b s reg rfl
    | pes _ _ => exact Nat.zero_le _
    | recorder _ => exact Nat.zero_le _

theorem scriptLenOk_iff (cfg : App.Cfg) :
    ScriptLenOk cfg ↔ ∀ k ops, (k, ops) ∈ cfg.script → ops.length ≤ 1012 := Iff.rfl

/-- one section of at most 1024 bytes handed to `PatProcessor::section` queues at most
`253 + reg.length` changes (at most `(1024 - 12) / 4 = 253` inserts, at most one removal per
previously registered PID) and leaves at most 253 PIDs registered (or `reg` unchanged) -/
theorem pat_section_changes (c : App.Ctx) (reg : List Nat) (data : Bytes) (c' : App.Ctx)
    (reg' : List Nat) (chg : List (Change App.Handler)) (hd : data.length ≤ 1024)
    (h : App.patSection c reg data = .ok (c', reg', chg)) :
    chg.length ≤ 253 + reg.length ∧ (reg' = reg ∨ reg'.length ≤ 253) :=
  let r := patSection_len c reg data c' reg' chg hd h
  ⟨r.1, r.2.1⟩

/-- the same for `PmtProcessor::section` (a PMT in fact carries at most `(1024 - 16) / 5 = 201`
streams; the uniform constant 253 is used) -/
theorem pmt_section_changes (c : App.Ctx) (pmtPid : Nat) (reg : List Nat) (data : Bytes) (c' : App.Ctx)
    (reg' : List Nat) (chg : List (Change App.Handler)) (hd : data.length ≤ 1024)
    (h : App.pmtSection c pmtPid reg data = .ok (c', reg', chg)) :
    chg.length ≤ 253 + reg.length ∧ (reg' = reg ∨ reg'.length ≤ 253) :=
  let r := pmtSection_len c pmtPid reg data c' reg' chg hd h
  ⟨r.1, r.2.1⟩

/-- **Changeset bound, one step.**  From a state satisfying `Bounded`, `RegInv`, `ScriptOk` and
`ScriptLenOk`, the handler of a framed packet (188 bytes, 13-bit PID) queues at most
`CHG_MAX = 1012` changes (at most two whole sections per packet, each at most 253 inserts and 253
removals).  The bound is not claimed tight: the second section of a packet is delivered in place,
hence shorter than 184 bytes (at most 42 entries), so about 800 is the true maximum. -/
theorem changes_per_step_bounded (t : Tab App.Handler) (c : App.Ctx) (pk : Pk)
    (chg : List (Change App.Handler)) (hb : Bounded t) (hr : RegInv t) (hs : ScriptOk c.cfg)
    (hl : ScriptLenOk c.cfg) (hlen : pk.bytes.length = 188) (hpid : pk.pid ≤ 0x1fff)
    (h : stepChg (t, c) pk = .ok chg) : chg.length ≤ CHG_MAX :=
  stepChg_le (t, c) pk chg ⟨⟨hb, hs⟩, hr, hl⟩ ⟨hlen, by omega⟩ h

/-- the extra invariants hold in every state reached by `runApp` (for configurations whose
recorder scripts name 13-bit PIDs and queue at most `CHG_MAX` changes per packet) -/
theorem regInv_reachable (cfg : App.Cfg) (pushes : List Bytes) (t : Tab App.Handler) (c : App.Ctx)
    (hs : ScriptOk cfg) (hl : ScriptLenOk cfg) (h : App.runApp cfg pushes = .ok (t, c)) :
    Bounded t ∧ RegInv t ∧ ScriptOk c.cfg ∧ ScriptLenOk c.cfg :=
  let r := pushAll_inv2 pushes (App.init cfg) 0 (t, c) (init_inv2 cfg hs hl) h
  ⟨r.1.1, r.2.1, r.1.2, r.2.2⟩

/-- … so in every reachable state, every framed packet queues at most `CHG_MAX` changes -/
theorem changes_per_packet_bounded (cfg : App.Cfg) (pushes : List Bytes) (t : Tab App.Handler)
    (c : App.Ctx) (hs : ScriptOk cfg) (hl : ScriptLenOk cfg)
    (h : App.runApp cfg pushes = .ok (t, c)) (pk : Pk) (chg : List (Change App.Handler))
    (hlen : pk.bytes.length = 188) (hpid : pk.pid ≤ 0x1fff) (hc : stepChg (t, c) pk = .ok chg) :
    chg.length ≤ CHG_MAX :=
  let r := regInv_reachable cfg pushes t c hs hl h
  changes_per_step_bounded t c pk chg r.1 r.2.1 r.2.2.1 r.2.2.2 hlen hpid hc

/-- the changeset high-water mark, spelled out: the largest `stepChg` length over the steps of the
run (steps after a panic do not exist and count 0) -/
theorem chgHigh_nil (tc : Tab App.Handler × App.Ctx) : chgHigh tc [] = 0 := rfl

theorem chgHigh_cons (tc : Tab App.Handler × App.Ctx) (pk : Pk) (rest : List Pk) :
    chgHigh tc (pk :: rest) =
      max (match stepChg tc pk with | .ok chg => chg.length | .panic _ => 0)
        (match specStep App.sem tc pk with | .ok tc' => chgHigh tc' rest | .panic _ => 0) := rfl

theorem chgHighAll_nil (tc : Tab App.Handler × App.Ctx) (base : Nat) : chgHighAll tc [] base = 0 := rfl

theorem chgHighAll_cons (tc : Tab App.Handler × App.Ctx) (b : Bytes) (bs : List Bytes) (base : Nat) :
    chgHighAll tc (b :: bs) base =
      max (match frame b base with | .ok pks => chgHigh tc pks | .panic _ => 0)
        (match push App.sem tc b base with
         | .ok tc' => chgHighAll tc' bs (base + b.length)
         | .panic _ => 0) := rfl

/-- **Changeset bound, whole run.**  For every configuration as above and EVERY sequence of pushed
byte strings, the high-water mark of the changeset length over all packets of all pushes
(`chgHighAll`, which follows `push`/`specStep` packet by packet) is at most `CHG_MAX`. -/
theorem chg_high_water_bounded (cfg : App.Cfg) (pushes : List Bytes) (hs : ScriptOk cfg)
    (hl : ScriptLenOk cfg) : chgHighAll (App.init cfg) pushes 0 ≤ CHG_MAX :=
  chgHighAll_le pushes (App.init cfg) 0 (init_inv2 cfg hs hl)

/-- `retained` (which omits the `FilterChangeset`) plus `hw` entries of the changeset `Vec`:
`hw` is to be read as the high-water mark of its length.  One unit of `t.length` / `hw` stands for
one table slot / one queued `FilterChange`; buffer and bitset contributions are bytes, as in
`retained`.  The `Vec`'s CAPACITY is within the allocator's growth policy of the high-water mark
of its length; that policy is outside the model. -/
def retained' (t : Tab App.Handler) (hw : Nat) : Nat := retained t + hw

theorem retained'_eq (t : Tab App.Handler) (hw : Nat) :
    retained' t hw = t.length + (t.map slotBytes).sum + hw := rfl

/-- **C19 (c'), with the changeset.**  For every configuration whose recorder scripts name only
13-bit PIDs and queue at most `CHG_MAX` changes per packet, and EVERY sequence of pushed byte
strings: if the run completes in `(t, c)`, the measure `retained'` taken with the changeset
high-water mark of the whole run is at most `RETAINED_MAX + CHG_MAX`, independent of the input. -/
theorem retained'_bounded (cfg : App.Cfg) (pushes : List Bytes) (t : Tab App.Handler) (c : App.Ctx)
    (hs : ScriptOk cfg) (hl : ScriptLenOk cfg) (h : App.runApp cfg pushes = .ok (t, c)) :
    retained' t (chgHighAll (App.init cfg) pushes 0) ≤ RETAINED_MAX + CHG_MAX
      ∧ RETAINED_MAX + CHG_MAX = 25175028 := by
  have h1 := (retained_bounded cfg pushes t c hs h).2
  have h2 := chg_high_water_bounded cfg pushes hs hl
  refine ⟨?_, by decide⟩
  unfold retained'
  omega

/-! ## 4. steady state performs no allocation-relevant operation -/

/-- a repetition packet leaves `buf`, `remaining`, `lastVersion` of a quiescent PAT/PMT filter
unchanged, yields no delivery, and does not panic -/
theorem quiescent_step (s : Psi.St) (v : Nat) (p : Bytes) (hp : p.length = 188)
    (hq : s.lastVersion = some v ∧ s.remaining = none) (hr : RepeatPkt v p) :
    ∃ s', Psi.consume Psi.table s p = .ok (s', []) ∧ s'.buf = s.buf ∧ s'.remaining = s.remaining
      ∧ s'.lastVersion = s.lastVersion :=
  Lemmas.C19.quiescent_step s v p hp hq hr

/-- the same through the pure C03 specification function -/
theorem quiescent_step_spec (s : Psi.St) (v : Nat) (q : Lemmas.C03.Pl)
    (hq : s.lastVersion = some v ∧ s.remaining = none) (hr : RepeatPayload v q) :
    (Lemmas.C03.consumeSpec Psi.table s q.us q.bytes q.off).2 = []
      ∧ (Lemmas.C03.consumeSpec Psi.table s q.us q.bytes q.off).1.buf = s.buf
      ∧ (Lemmas.C03.consumeSpec Psi.table s q.us q.bytes q.off).1.remaining = s.remaining
      ∧ (Lemmas.C03.consumeSpec Psi.table s q.us q.bytes q.off).1.lastVersion = s.lastVersion :=
  quiescent_spec s v q hq hr

/-- `stepAllocFree`, spelled out.  It is a statement about the STATE before and after the step plus
the change list: the table has the same number of slots, no tag was handed out (`nextTag`, bumped
by every `construct`), every slot's PSI reassembly buffer has the same CONTENTS and `Buffering`
state, and the handler queued no change.  It is not an operation trace: an operation that leaves
these unchanged (re-writing identical bytes into `buf`, a `FixedBitSet::with_capacity` that is
dropped again) would not falsify it.  The operation-level statement is `mayAlloc` (§5); transient
allocations of the real code are observed only by the harness's counting allocator. -/
theorem stepAllocFree_iff (tc : Tab App.Handler × App.Ctx) (pk : Pk) (tc' : Tab App.Handler × App.Ctx) :
    stepAllocFree tc pk tc' ↔
      (tc'.1.length = tc.1.length ∧ tc'.2.nextTag = tc.2.nextTag
        ∧ (∀ p, psiBuf tc'.1 p = psiBuf tc.1 p) ∧ stepChg tc pk = .ok []) := Iff.rfl

/-- a repetition packet for table version `v`, spelled out: no payload; or a payload without unit
start; or a unit-start payload with `pointer_field + 1 + 8 ≤` payload bytes whose section start
(after the `pointer_field` bytes) has the syntax bit set, `section_length ≤ 1021` and
`version_number = v` -/
theorem repeatPkt_iff (v : Nat) (p : Bytes) :
    RepeatPkt v p ↔ ∀ q, plOf p = some q →
      (q.us = false ∨
        (byteD q.bytes 0 + 9 ≤ q.bytes.length ∧
          Lemmas.C03.hdrSyn ((q.bytes.drop 1).drop (byteD q.bytes 0)) = true ∧
          hdrLen ((q.bytes.drop 1).drop (byteD q.bytes 0)) ≤ 1021 ∧
          versionOf ((q.bytes.drop 1).drop (byteD q.bytes 0)) = v)) := Iff.rfl

/-- steady state for one packet, spelled out -/
theorem steadyPk_iff (t : Tab App.Handler) (pk : Pk) :
    SteadyPk t pk ↔
      (pk.bytes.length = 188 ∧ t.contains pk.pid = true ∧
        ∀ h s, t.get pk.pid = some h → psiOf h = some s →
          ∃ v, (s.lastVersion = some v ∧ s.remaining = none) ∧ RepeatPkt v pk.bytes) := Iff.rfl

/-- every steady-state dispatcher step is allocation-free, and keeps every slot's kind, buffer,
`Buffering` state and table version (ES handlers stay, tables stay) -/
theorem steady_step_alloc_free (t : Tab App.Handler) (c : App.Ctx) (pk : Pk)
    (tc' : Tab App.Handler × App.Ctx) (hsc : c.cfg.script = []) (hst : SteadyPk t pk)
    (h : specStep App.sem (t, c) pk = .ok tc') :
    stepAllocFree (t, c) pk tc' ∧ (∀ p, slotKey tc'.1 p = slotKey t p) ∧ tc'.2.cfg = c.cfg :=
  steady_step t c pk tc' hsc hst h

/-- steady state is a property of the slots' keys only, hence preserved by steady steps -/
theorem steady_preserved (t t' : Tab App.Handler) (pks : List Pk)
    (h : ∀ p, slotKey t' p = slotKey t p) (hs : Steady t pks) : Steady t' pks :=
  fun pk hpk => steadyPk_congr t t' pk h (hs pk hpk)

/-- **C19 (d).** Steady state (every packet's PID has a handler; every packet routed to a PAT/PMT
handler is a repetition packet for a quiescent handler; no recorder script): over a whole `push`
every step is `stepAllocFree` — EXACTLY: after each step the table has the same length, `nextTag`
is unchanged (no handler constructed), every slot's PSI buffer contents and `Buffering` state are
unchanged, and the step's change list is `[]` — and the table is again in the same steady state
(`slotKey`: same slot kinds, buffers, `Buffering` states and table versions).  This is a
state-shape equality, see `stepAllocFree_iff`; that no step even REACHES an allocating operation of
the model is `steady_state_no_mayAlloc` (§5).  Neither says anything about the allocator itself
(transient allocations, `Vec` growth policy): that is what the harness's counting
`#[global_allocator]` observes.
PARTIAL: `Steady` is a state-level hypothesis, not "tables are stable, any packetisation"; see
`steady_state_no_alloc_partial` and §7 (`C19_steady_full_false`, known finding F14). -/
theorem steady_state_no_alloc (t : Tab App.Handler) (c : App.Ctx) (buf : Bytes) (base : Nat)
    (pks : List Pk) (tcf : Tab App.Handler × App.Ctx) (hsc : c.cfg.script = [])
    (hf : frame buf base = .ok pks) (hst : Steady t pks)
    (h : push App.sem (t, c) buf base = .ok tcf) :
    runAllocFree (t, c) pks ∧ tcf.1.length = t.length ∧ tcf.2.nextTag = c.nextTag
      ∧ (∀ p, psiBuf tcf.1 p = psiBuf t p) ∧ (∀ p, slotKey tcf.1 p = slotKey t p)
      ∧ Steady tcf.1 pks ∧ tcf.2.cfg.script = [] := by
  unfold push at h
  rw [hf] at h
  have h : pushModel App.sem (t, c) pks = .ok tcf := h
  rw [C06.push_refines_spec] at h
  obtain ⟨a1, a2, a3, a4, a5⟩ := steady_run pks t c tcf hsc hst h
  refine ⟨a1, a3, a4, ?_, a2, steady_preserved t tcf.1 pks a2 hst, by rw [a5]; exact hsc⟩
  intro p; unfold psiBuf; rw [a2 p]

/-- … and so do any number of successive pushes whose packets are all steady for `t` -/
theorem steady_state_all_pushes : ∀ (bufs : List Bytes) (t : Tab App.Handler) (c : App.Ctx)
    (base : Nat) (tcf : Tab App.Handler × App.Ctx), c.cfg.script = [] →
    (∀ b ∈ bufs, ∀ bs pks, frame b bs = .ok pks → Steady t pks) →
    pushAll App.sem (t, c) bufs base = .ok tcf →
    tcf.1.length = t.length ∧ tcf.2.nextTag = c.nextTag ∧ (∀ p, slotKey tcf.1 p = slotKey t p)
      ∧ (∀ p, psiBuf tcf.1 p = psiBuf t p) := by
  intro bufs
  induction bufs with
  | nil =>
    intro t c base tcf _ _ h
    have := R.ok_inj h
    subst this
    exact ⟨rfl, rfl, fun _ => rfl, fun _ => rfl⟩
  | cons b bs ih =>
    intro t c base tcf hsc hst h
    unfold pushAll at h
    obtain ⟨tc1, h1, h⟩ := R.bind_eq_ok h
    obtain ⟨pks, hf⟩ : ∃ pks, frame b base = .ok pks := ⟨_, frame_eq_pure b base⟩
    obtain ⟨_, a2, a3, _, a5, _, a7⟩ :=
      steady_state_no_alloc t c b base pks tc1 hsc hf (hst b List.mem_cons_self _ _ hf) h1
    obtain ⟨t1, c1⟩ := tc1
    have hst1 : ∀ b' ∈ bs, ∀ bs' pks', frame b' bs' = .ok pks' → Steady t1 pks' :=
      fun b' hb' bs' pks' hf' =>
        steady_preserved t t1 pks' a5 (hst b' (List.mem_cons_of_mem _ hb') bs' pks' hf')
    obtain ⟨b1, b2, b3, _⟩ := ih t1 c1 _ tcf a7 hst1 h
    refine ⟨by rw [b1]; exact a2, by rw [b2]; exact a3, fun p => by rw [b3 p]; exact a5 p, ?_⟩
    intro p; unfold psiBuf; rw [b3 p, a5 p]

/-! ## 5. operation level: no step of a steady push reaches an allocating operation

`mayAlloc tc pk : Bool` is a function of the INPUTS of a dispatcher step (table, context, packet),
not of its result.  It over-approximates "the step executes one of the model's operations behind
which the Rust code allocates":
(i) `add_pid_filter` (`construct` + `Filters::insert`) — the PID has no handler;
(ii) a recorder with a script entry for this packet (queues changes; harness only);
(iii) bytes reach the buffer layer of a PAT/PMT section consumer: continuation bytes while it is
`Buffering` (`extend_from_slice`), or a section start that passes the processor and dedup layers
(`start_*_section`: in-place delivery, or `clear` + `extend_from_slice`);
(iv) a whole section is delivered to `PatProcessor/PmtProcessor::section`
(`FixedBitSet::with_capacity`, `construct`, `FilterChangeset::insert/remove`) — every delivery
passes through (iii), so (iii) covers it.
`mayAlloc_false_step` says what `mayAlloc = false` means in the model; `steady_state_no_mayAlloc`
that it is `false` on every step of a steady push. -/

/-- `mayAlloc`, spelled out -/
theorem mayAlloc_eq (t : Tab App.Handler) (c : App.Ctx) (pk : Pk) :
    mayAlloc (t, c) pk =
      (!t.contains pk.pid ||
        (!pk.flagged &&
          match t.get pk.pid with
          | some (.pat s _) => psiMayAlloc s pk.bytes
          | some (.pmt _ _ s _) => psiMayAlloc s pk.bytes
          | some (.pes _ _) => false
          | some (.recorder _) => (c.cfg.script.lookup (pk.off / 188)).isSome
          | none => false)) := by
  unfold mayAlloc
  cases hg : t.get pk.pid with
  | none => rfl
  | some h => cases h <;> rfl

theorem psiMayAlloc_eq (s : Psi.St) (p : Bytes) :
    psiMayAlloc s p = (match plOf p with | none => false | some q => psiTouches s q) := rfl

theorem contReaches_eq (s : Psi.St) :
    contReaches s = (!s.ignoreRest && !s.dedupIgnore && s.remaining.isSome) := rfl

/-- `psiTouches`, spelled out: for a payload without unit start, continuation bytes reach a
`Buffering` buffer; for a unit start (whose `pointer_field` does not point past the payload),
the `pointer_field` bytes do, or the section start after them (at least 3 bytes) passes the
processor's checks and carries a `version_number` different from the remembered one -/
theorem psiTouches_eq (s : Psi.St) (q : Lemmas.C03.Pl) :
    psiTouches s q =
      (if q.us then
        if 0 < byteD q.bytes 0 ∧ (q.bytes.drop 1).length ≤ byteD q.bytes 0 then false
        else
          (decide (0 < byteD q.bytes 0) && contReaches s)
          || (decide (3 ≤ ((q.bytes.drop 1).drop (byteD q.bytes 0)).length)
              && startOk Psi.table ((q.bytes.drop 1).drop (byteD q.bytes 0))
              && (s.lastVersion != some (versionOf ((q.bytes.drop 1).drop (byteD q.bytes 0)))))
      else contReaches s) := rfl

theorem psiQuiet_iff (s s' : Psi.St) :
    PsiQuiet s s' ↔
      ((s'.buf = s.buf ∧ s'.remaining = s.remaining ∧ s'.lastVersion = s.lastVersion)
        ∨ (s'.buf = [] ∧ s'.remaining = none ∧ s'.lastVersion = none)) := Iff.rfl

/-- meaning of `psiMayAlloc = false` for a PAT/PMT section consumer (state satisfying the C03
invariant, 188-byte packet): `consume` does not panic, delivers NO section — so
`PatProcessor/PmtProcessor::section`, the only place where a `FixedBitSet` is built, handlers are
constructed and changes are queued, is not called — and the consumer's buffer, `Buffering` state
and remembered version are unchanged, or it was reset (`Vec::clear`) -/
theorem psiMayAlloc_false_consume (s : Psi.St) (p : Bytes) (hs : PsiInv .syntax s)
    (hp : p.length = 188) (h : psiMayAlloc s p = false) :
    ∃ s', Psi.consume Psi.table s p = .ok (s', []) ∧ PsiQuiet s s' :=
  psi_quiet_consume s p hs hp h

/-- `StepQuiet`, spelled out -/
theorem stepQuiet_iff (tc : Tab App.Handler × App.Ctx) (pk : Pk) (tc' : Tab App.Handler × App.Ctx) :
    StepQuiet tc pk tc' ↔
      (tc.1.contains pk.pid = true ∧ stepChg tc pk = .ok [] ∧ tc'.2.nextTag = tc.2.nextTag
        ∧ tc'.2.cfg = tc.2.cfg ∧ tc'.1.length = tc.1.length
        ∧ ((pk.flagged = true ∧ tc' = tc) ∨
           (pk.flagged = false ∧ ∃ h h', tc.1.get pk.pid = some h ∧ tc'.1 = tc.1.insert pk.pid h'
              ∧ HandlerQuiet pk h h'))) := Iff.rfl

theorem handlerQuiet_iff (pk : Pk) (h h' : App.Handler) :
    HandlerQuiet pk h h' ↔
      (match h with
       | .pat s reg =>
         ∃ s', h' = .pat s' reg ∧ Psi.consume Psi.table s pk.bytes = .ok (s', []) ∧ PsiQuiet s s'
       | .pmt pid prog s reg =>
         ∃ s', h' = .pmt pid prog s' reg ∧ Psi.consume Psi.table s pk.bytes = .ok (s', [])
           ∧ PsiQuiet s s'
       | .pes tag _ => ∃ f', h' = .pes tag f'
       | .recorder tag => h' = .recorder tag) := by
  cases h <;> exact Iff.rfl

/-- **Meaning of `mayAlloc = false`.**  From a `Bounded` table, on a 188-byte packet, a successful
step with `mayAlloc = false`: the PID already had a handler (no `construct`, no table growth);
the change list is `[]`; no tag was handed out; a flagged packet leaves the state untouched;
otherwise only the slot of `pk.pid` is rewritten, with a handler of the same kind and parameters
whose section consumer (PAT/PMT) delivered no section and is `PsiQuiet`. -/
theorem mayAlloc_false_step (t : Tab App.Handler) (c : App.Ctx) (pk : Pk)
    (tc' : Tab App.Handler × App.Ctx) (hb : Bounded t) (hlen : pk.bytes.length = 188)
    (hm : mayAlloc (t, c) pk = false) (h : specStep App.sem (t, c) pk = .ok tc') :
    StepQuiet (t, c) pk tc' :=
  Lemmas.C19.mayAlloc_false_step t c pk tc' hb hlen hm h

/-- `runMayAlloc`, spelled out: some step of the run `pushSpec App.sem tc pks` has `mayAlloc` -/
theorem runMayAlloc_nil (tc : Tab App.Handler × App.Ctx) : runMayAlloc tc [] = false := rfl

theorem runMayAlloc_cons (tc : Tab App.Handler × App.Ctx) (pk : Pk) (rest : List Pk) :
    runMayAlloc tc (pk :: rest) =
      (mayAlloc tc pk ||
        (match specStep App.sem tc pk with
         | .ok tc' => runMayAlloc tc' rest
         | .panic _ => false)) := rfl

/-- one steady-state step -/
theorem steady_step_no_mayAlloc (t : Tab App.Handler) (c : App.Ctx) (pk : Pk)
    (hsc : c.cfg.script = []) (hst : SteadyPk t pk) : mayAlloc (t, c) pk = false :=
  steady_mayAlloc_false t c pk hsc hst

/-- **C19 (d), operation level.**  Steady state as in `steady_state_no_alloc`: for the packets
`push(buf)` iterates over, NO step has `mayAlloc` — no step constructs a handler, is a scripted
recorder, hands bytes to a `Buffering` buffer, lets a section start through to the buffer layer,
or delivers a section to a table processor.  (`push` runs exactly these steps:
`C06.push_refines_spec`.)  `mayAlloc` is a predicate on the model's operations; that the Rust code
allocates nowhere else is the harness's observation, not a theorem. -/
theorem steady_state_no_mayAlloc (t : Tab App.Handler) (c : App.Ctx) (buf : Bytes) (base : Nat)
    (pks : List Pk) (hsc : c.cfg.script = []) (_hf : frame buf base = .ok pks)
    (hst : Steady t pks) : runMayAlloc (t, c) pks = false :=
  steady_run_mayAlloc_false pks t c hsc hst

/-! ## 6. the definitions a reader has to trust, restated

The predicates used above are defined in `Ts/Lemmas/C19*.lean`; each is restated here as a plain
statement (`bounded_iff`, `scriptOk_iff`, `regInv_iff`, `scriptLenOk_iff`, `stepAllocFree_iff`,
`repeatPkt_iff`, `steadyPk_iff`, `evInPacket_cont`, `evInPacket_begin`, `mayAlloc_eq`, … above;
the remaining ones below). -/

/-- heap bytes owned by a slot: reassembly buffer + two 1 KiB bitsets for PAT/PMT, else 0 -/
theorem slotBytes_eq :
    slotBytes none = 0
    ∧ (∀ s reg, slotBytes (some (.pat s reg)) = s.buf.length + 2 * 1024)
    ∧ (∀ pid prog s reg, slotBytes (some (.pmt pid prog s reg)) = s.buf.length + 2 * 1024)
    ∧ (∀ tag f, slotBytes (some (.pes tag f)) = 0)
    ∧ (∀ tag, slotBytes (some (.recorder tag)) = 0) :=
  ⟨rfl, fun _ _ => rfl, fun _ _ _ _ => rfl, fun _ _ => rfl, fun _ => rfl⟩

theorem retained_eq (t : Tab App.Handler) : retained t = t.length + (t.map slotBytes).sum := rfl

theorem steady_iff (t : Tab App.Handler) (pks : List Pk) :
    Steady t pks ↔ ∀ pk ∈ pks, SteadyPk t pk := Iff.rfl

theorem quiescent_iff (s : Psi.St) (v : Nat) :
    Quiescent s v ↔ (s.lastVersion = some v ∧ s.remaining = none) := Iff.rfl

/-- `version_number` as the dedup layer reads it -/
theorem versionOf_eq (ns : Bytes) : versionOf ns = (byteD ns 5 >>> 1) &&& 0b0001_1111 := rfl

theorem startedHere_iff (cfg : Psi.Cfg) (pk : Bytes) (off : Nat) (d : Psi.Delivery) :
    StartedHere cfg pk off d ↔
      (startOk cfg ((pk.drop 1).drop (byteD pk 0)) = true
        ∧ 3 + hdrLen ((pk.drop 1).drop (byteD pk 0)) ≤ ((pk.drop 1).drop (byteD pk 0)).length
        ∧ d = ⟨((pk.drop 1).drop (byteD pk 0)).take (3 + hdrLen ((pk.drop 1).drop (byteD pk 0))),
               some (off + 1 + byteD pk 0)⟩) := Iff.rfl

theorem completedBy_iff (s : Psi.St) (data : Bytes) (d : Psi.Delivery) :
    CompletedBy s data d ↔
      ∃ n, s.remaining = some n ∧ n ≤ data.length ∧ d = ⟨s.buf ++ data.take n, none⟩ := Iff.rfl

theorem contBytes_eq (us : Bool) (pk : Bytes) :
    contBytes us pk = if us then (pk.drop 1).take (byteD pk 0) else pk := rfl

theorem evRange_eq :
    (∀ t bi, evRange (.esBegin t bi) = bi.pl) ∧ (∀ t off len, evRange (.esCont t off len) = some (off, len))
    ∧ (∀ t, evRange (.esStart t) = none) ∧ (∀ t, evRange (.esEnd t) = none)
    ∧ (∀ t, evRange (.esCcErr t) = none) :=
  ⟨fun _ _ => rfl, fun _ _ _ => rfl, fun _ => rfl, fun _ => rfl, fun _ => rfl⟩

/-- per-slot views used in the steady-state conclusions -/
theorem slotKey_eq (t : Tab App.Handler) (p : Nat) :
    slotKey t p = (t.get p).map fun h => (psiOf h).map fun s => (s.buf, s.remaining, s.lastVersion) := rfl

theorem psiBuf_eq (t : Tab App.Handler) (p : Nat) :
    psiBuf t p = (t.get p).map fun h => (psiOf h).map fun s => (s.buf, s.remaining) := by
  unfold psiBuf slotKey psiKey
  cases t.get p with
  | none => rfl
  | some h =>
    cases hp : psiOf h with
    | none => simp [hp]
    | some s => simp [hp]

theorem psiOf_eq :
    (∀ s reg, psiOf (.pat s reg) = some s) ∧ (∀ pid prog s reg, psiOf (.pmt pid prog s reg) = some s)
    ∧ (∀ tag f, psiOf (.pes tag f) = none) ∧ (∀ tag, psiOf (.recorder tag) = none) :=
  ⟨fun _ _ => rfl, fun _ _ _ _ => rfl, fun _ _ => rfl, fun _ => rfl⟩

theorem runAllocFree_nil (tc : Tab App.Handler × App.Ctx) : runAllocFree tc [] ↔ True := Iff.rfl

theorem runAllocFree_cons (tc : Tab App.Handler × App.Ctx) (pk : Pk) (rest : List Pk) :
    runAllocFree tc (pk :: rest) ↔
      ∃ tc', specStep App.sem tc pk = .ok tc' ∧ stepAllocFree tc pk tc' ∧ runAllocFree tc' rest :=
  Iff.rfl

/-! ### relation to the C10 vocabulary

C10 (`Ts/Lemmas/C10.lean`, `Ts/Props/C10.lean`) states its repetition hypotheses through the
specification of a section transmission; C19's `RepeatPkt` only constrains the bytes the dedup
layer reads.  The two `Quiescent` are the same predicate (argument order swapped), the two
`versionOf` the same number, and every C10 repetition packet is a C19 repetition packet — so the
steady-state theorems above apply to all traffic C10 speaks about.  (The converse fails in
general: `RepeatPkt` does not ask for a complete well-formed transmission.) -/

theorem quiescent_iff_c10 (s : Psi.St) (v : Nat) : Quiescent s v ↔ Lemmas.C10.Quiescent v s :=
  Iff.rfl

theorem versionOf_eq_c10 (ns : Bytes) : versionOf ns = Lemmas.C10.versionOf ns :=
  Lemmas.C19.versionOf_eq_c10 ns

theorem repeatPkt_of_c10 (v : Nat) (p : Bytes) (h : Lemmas.C10.RepPacket v p) : RepeatPkt v p :=
  Lemmas.C19.repeatPkt_of_c10 v p h

/-- C10's per-packet hypotheses (`Props.C10`: handler of the PID is a PAT/PMT handler quiescent at
`v`, packet is a C10 repetition packet of version `v`) imply C19's `SteadyPk` -/
theorem steadyPk_of_c10 (t : Tab App.Handler) (pk : Pk) (v : Nat) (h : App.Handler)
    (hg : t.get pk.pid = some h) (hq : Lemmas.C10.QuiescentH v h)
    (hp : Lemmas.C10.RepPacket v pk.bytes) : SteadyPk t pk :=
  Lemmas.C19.steadyPk_of_c10 t pk v h hg hq hp

/-! ## non-vacuity -/

example : ScriptOk {} := by intro k ops h; cases h

/-- the invariant holds initially (default configuration) -/
example : Bounded (App.init {}).1 := bounded_init {} (by intro k ops h; cases h)

example : retained (App.init {}).1 = 1 + 2 * 1024 := by decide

/-- the concrete step exists, does not panic, and is allocation-free -/
example : ∃ tc', specStep App.sem (steadyTab, { cfg := {} }) patPk = .ok tc'
    ∧ stepAllocFree (steadyTab, { cfg := {} }) patPk tc' := by
  obtain ⟨s', hs'⟩ := pat_quiescent_specStep steadyTab { cfg := {} } patPk { lastVersion := some 0 }
    [0x1e0] 0 rfl rfl patPkt_len ⟨rfl, rfl⟩ patPkt_repeat
  exact ⟨_, hs', (steady_step_alloc_free steadyTab _ patPk _ rfl steadyTab_steady hs').1⟩

/-- the same packet on a FRESH PAT filter is delivered in place: 16 bytes at packet offset 5 -/
example : ∃ s' ds d, Psi.consume Psi.table {} patPkt = .ok (s', ds) ∧ d ∈ ds
    ∧ d.inplace = some 5 ∧ d.bytes = (patPkt.drop 5).take 16 ∧ d.bytes.length = 16 := by
  obtain ⟨s', ds, d, h1, h2, h3, h4, h5⟩ :=
    section_fitting_first_packet_delivered_in_place Psi.table cfgOk_table {}
      (Lemmas.C03.psiInv_of_none _ _ rfl) patPkt patPkt_len _ patPkt_plOf rfl
      (by decide +kernel) (by decide +kernel) (by intro _; decide)
  have e : hdrLen (patPkt.drop 5) = 13 := by decide +kernel
  have e0 : byteD (patPkt.drop 4) 0 = 0 := by decide +kernel
  simp only [e0, Nat.add_zero] at h3 h4 h5
  rw [e] at h4 h5
  exact ⟨s', ds, d, h1, h2, h3, h4, h5⟩

set_option maxRecDepth 20000 in
/-- a PES packet (unit start, PES header `00 00 01 e0 00 00`, parsed contents `80 00 00`) at global
offset 376: `begin_packet` exposes the payload range (389, 175) — inside the packet, ending at
its last byte -/
example : ∃ h' c' bi, App.consume (.pes 7 {}) { cfg := {} } pesPk = .ok (h', c', [])
    ∧ c'.trace = [.esBegin 7 bi, .esStart 7] ∧ bi.pl = some (389, 175) :=
  ⟨_, _, _, rfl, rfl, rfl⟩

example : EvInPacket 7 376 (.esCont 7 380 184) := ⟨rfl, by omega, by omega, by omega⟩

set_option maxRecDepth 20000 in
/-- The script hypothesis of `retained_bounded` is necessary (it concerns test-harness input, not
stream bytes): a recorder scripted to insert a handler for the non-PID 9000 grows the table to
9001 slots. -/
theorem script_hypothesis_needed :
    ∃ cfg pushes t c, App.runApp cfg pushes = .ok (t, c) ∧ ¬ Bounded t := by
  refine ⟨{ script := [(0, [.ins 9000])] }, [pid5Pkt], _, _, rfl, ?_⟩
  intro h
  have : (9001 : Nat) ≤ 8192 := h.1
  omega


/-! ### non-vacuity: in-place section in the pushed buffer -/

set_option maxRecDepth 20000 in
/-- `twoPkBuf` (a PID-5 packet, the PAT packet, 3 stray bytes) pushed after 1880 earlier bytes
frames into two packets at global offsets 1880 and 2068 -/
theorem twoPkBuf_frame : frame twoPkBuf 1880 =
    .ok [⟨pid5Pkt, 1880, 5, false, false⟩, ⟨patPkt, 2068, 0, false, false⟩] := rfl

/-- `section_in_pushed_buffer` applies: the PAT packet is the second packet of the push; a fresh
PAT filter delivers its 16-byte section in place at packet offset 5, and the delivered bytes are
the window `[193, 209)` of the caller's buffer (global range `[2073, 2089)`, inside
`[1880, 1880 + 379)`) -/
example : ∃ s' ds d, Psi.consume Psi.table {} patPkt = .ok (s', ds) ∧ d ∈ ds
    ∧ d.inplace = some 5 ∧ d.bytes.length = 16
    ∧ d.bytes = (twoPkBuf.drop (188 * 1 + 5)).take 16
    ∧ 1880 ≤ 2068 + 5 ∧ 2068 + 5 + 16 ≤ 1880 + twoPkBuf.length := by
  obtain ⟨s', ds, d, h1, h2, h3, h4, h5⟩ :=
    section_fitting_first_packet_delivered_in_place Psi.table cfgOk_table {}
      (Lemmas.C03.psiInv_of_none _ _ rfl) patPkt patPkt_len _ patPkt_plOf rfl
      (by decide +kernel) (by decide +kernel) (by intro _; decide)
  have e : hdrLen (patPkt.drop 5) = 13 := by decide +kernel
  have e0 : byteD (patPkt.drop 4) 0 = 0 := by decide +kernel
  simp only [e0, Nat.add_zero] at h3 h4 h5
  rw [e] at h4 h5
  obtain ⟨k, k1, _, _, _, k5, k6, _, k8⟩ :=
    section_in_pushed_buffer twoPkBuf 1880 _ twoPkBuf_frame ⟨patPkt, 2068, 0, false, false⟩
      (by simp) Psi.table cfgOk_table {} (Lemmas.C03.psiInv_of_none _ _ rfl) s' ds h1 d h2 5 h3
  have hk : k = 1 := by
    have : (2068 : Nat) = 1880 + 188 * k := k1
    omega
  subst hk
  rw [h5] at k6 k8
  exact ⟨s', ds, d, h1, h2, h3, h5, k8, k5, k6⟩

/-! ### non-vacuity: a concrete run reaching steady state

`nvSetup` = PAT (program 1 → PMT PID 0x1e0) + PMT (video PID 0x21, audio PID 0x22) + start of a PES
packet on PID 0x21 (valid CRCs, default configuration).  `nvSteady` = PES continuation on 0x21 +
PAT repetition + PMT repetition + start of the next PES packet on 0x21, all in ONE push. -/

/-- `match r with | .ok a => f a | .panic _ => false` -/
def chk {α : Type} (r : R α) (f : α → Bool) : Bool :=
  match r with
  | .ok a => f a
  | .panic _ => false

theorem chk_ok {α : Type} (r : R α) (f : α → Bool) (h : chk r f = true) :
    ∃ a, r = .ok a ∧ f a = true := by
  cases r with
  | ok a => exact ⟨a, rfl, h⟩
  | panic s => cases h

/-- everything the non-vacuity theorem needs about the concrete run, as one Boolean -/
def nvCheck : Bool :=
  chk (App.runApp {} [nvSetup]) fun tc =>
  chk (frame nvSetup 0) fun pks0 =>
  chk (frame nvSteady 564) fun pks =>
  chk (push App.sem tc nvSteady 564) fun tcf =>
  chk (pushAll App.sem tc [nvSteady, nvSteady, nvSteady] 564) fun _ =>
    tc.2.cfg.script.isEmpty && steadyB tc.1 pks
    && pks.map (·.pid) == [0x21, 0, 0x1e0, 0x21]
    && (tc.1.get 0).map handlerKind == some 0
    && (tc.1.get 0x1e0).map handlerKind == some 1
    && (tc.1.get 0x21).map handlerKind == some 2
    && retained tcf.1 == 0x1e1 + 2 * (2 * 1024)
    && chgHighAll (App.init {}) [nvSetup, nvSteady] 0 == 2
    && runMayAlloc (App.init {}) pks0
    && !steadyB (App.init {}).1 pks0

set_option maxRecDepth 100000 in
theorem nvCheck_true : nvCheck = true := by decide +kernel

theorem nvSetup_length : nvSetup.length = 564 := by decide +kernel

/-- **The steady-state theorems are not vacuous.**  After the push `nvSetup` (state `(t, c)`: PAT
handler in slot 0, PMT handler in slot 0x1e0, PES handler in slot 0x21), the push `nvSteady` frames
into four packets on PIDs `0x21, 0, 0x1e0, 0x21` — a PES continuation, a PAT repetition, a PMT
repetition and a PES packet start in the same push — which satisfy `Steady t pks`; the push
succeeds; hence (by `steady_state_no_alloc`, `steady_state_no_mayAlloc`, `steady_state_all_pushes`,
`retained_bounded`, `retained'_bounded`) the listed conclusions hold for it.  By contrast the
first push is not steady and has `mayAlloc` steps, and the two-push run has changeset high-water
mark 2 (the PMT queues two inserts). -/
theorem steady_state_instance :
    ∃ t c pks0 pks tcf tcf3,
      App.runApp {} [nvSetup] = .ok (t, c)
      ∧ frame nvSteady 564 = .ok pks
      ∧ pks.map (·.pid) = [0x21, 0, 0x1e0, 0x21]
      ∧ (t.get 0).map handlerKind = some 0 ∧ (t.get 0x1e0).map handlerKind = some 1
      ∧ (t.get 0x21).map handlerKind = some 2
      -- the hypotheses of `steady_state_no_alloc`
      ∧ c.cfg.script = [] ∧ Steady t pks
      ∧ push App.sem (t, c) nvSteady 564 = .ok tcf
      -- its conclusion
      ∧ runAllocFree (t, c) pks ∧ tcf.1.length = t.length ∧ tcf.2.nextTag = c.nextTag
      ∧ (∀ p, psiBuf tcf.1 p = psiBuf t p) ∧ (∀ p, slotKey tcf.1 p = slotKey t p)
      ∧ Steady tcf.1 pks
      -- `steady_state_no_mayAlloc`
      ∧ runMayAlloc (t, c) pks = false
      -- `steady_state_all_pushes` on three further steady pushes
      ∧ pushAll App.sem (t, c) [nvSteady, nvSteady, nvSteady] 564 = .ok tcf3
      ∧ tcf3.1.length = t.length ∧ tcf3.2.nextTag = c.nextTag
      ∧ (∀ p, slotKey tcf3.1 p = slotKey t p) ∧ (∀ p, psiBuf tcf3.1 p = psiBuf t p)
      -- `retained_bounded` / `retained'_bounded` on the two-push run
      ∧ App.runApp {} [nvSetup, nvSteady] = .ok tcf
      ∧ Bounded tcf.1 ∧ retained tcf.1 ≤ RETAINED_MAX ∧ retained tcf.1 = 0x1e1 + 2 * (2 * 1024)
      ∧ chgHighAll (App.init {}) [nvSetup, nvSteady] 0 = 2
      ∧ retained' tcf.1 (chgHighAll (App.init {}) [nvSetup, nvSteady] 0) ≤ RETAINED_MAX + CHG_MAX
      -- the predicates discriminate: the first push is not steady and has `mayAlloc` steps
      ∧ frame nvSetup 0 = .ok pks0 ∧ runMayAlloc (App.init {}) pks0 = true
      ∧ steadyB (App.init {}).1 pks0 = false := by
  obtain ⟨⟨t, c⟩, h1, h⟩ := chk_ok _ _ nvCheck_true
  obtain ⟨pks0, h0, h⟩ := chk_ok _ _ h
  obtain ⟨pks, h2, h⟩ := chk_ok _ _ h
  obtain ⟨tcf, h3, h⟩ := chk_ok _ _ h
  obtain ⟨tcf3, h4, h⟩ := chk_ok _ _ h
  simp only [Bool.and_eq_true, beq_iff_eq, List.isEmpty_iff, Bool.not_eq_true'] at h
  obtain ⟨⟨⟨⟨⟨⟨⟨⟨⟨b1, b2⟩, b3⟩, b4⟩, b5⟩, b6⟩, b7⟩, b8⟩, b9⟩, b10⟩ := h
  have hst := steadyB_sound t pks b2
  obtain ⟨a1, a2, a3, a4, a5, a6, _⟩ := steady_state_no_alloc t c nvSteady 564 pks tcf b1 h2 hst h3
  have hma := steady_state_no_mayAlloc t c nvSteady 564 pks b1 h2 hst
  have hall : ∀ b ∈ [nvSteady, nvSteady, nvSteady], ∀ bs pks', frame b bs = .ok pks' → Steady t pks' := by
    intro b hb bs pks' hf
    have : b = nvSteady := by simpa using hb
    subst this
    exact steady_of_frame_base t nvSteady 564 pks h2 hst bs pks' hf
  obtain ⟨c1, c2, c3, c4⟩ := steady_state_all_pushes _ t c 564 tcf3 b1 hall h4
  have hrun : App.runApp {} [nvSetup, nvSteady] = .ok tcf := by
    have h1' : push App.sem (App.init {}) nvSetup 0 = .ok (t, c) := by
      unfold App.runApp pushAll at h1
      obtain ⟨tc1, e1, e2⟩ := R.bind_eq_ok h1
      have := R.ok_inj e2
      rw [e1, this]
    unfold App.runApp pushAll
    rw [h1']
    simp only [R.ok_bind]
    unfold pushAll
    rw [nvSetup_length, Nat.zero_add, h3]
    rfl
  have hs0 : ScriptOk ({} : App.Cfg) := by intro k ops hm; cases hm
  have hl0 : ScriptLenOk ({} : App.Cfg) := by intro k ops hm; cases hm
  obtain ⟨d1, d2⟩ := retained_bounded {} _ tcf.1 tcf.2 hs0 hrun
  have d3 := (retained'_bounded {} _ tcf.1 tcf.2 hs0 hl0 hrun).1
  exact ⟨t, c, pks0, pks, tcf, tcf3, h1, h2, b3, b4, b5, b6, b1, hst, h3, a1, a2, a3, a4, a5, a6,
    hma, h4, c1, c2, c3, c4, hrun, d1, d2, b7, b8, d3, h0, b9, b10⟩

/-! ### non-vacuity: the remaining new theorems -/

/-- `section_fitting_first_packet_in_pushed_buffer` applies to the same packet -/
example : ∃ s' ds d k, Psi.consume Psi.table {} patPkt = .ok (s', ds) ∧ d ∈ ds
    ∧ (2068 : Nat) = 1880 + 188 * k ∧ d.inplace = some (4 + 1 + byteD (patPkt.drop 4) 0)
    ∧ d.bytes = (twoPkBuf.drop (188 * k + (4 + 1 + byteD (patPkt.drop 4) 0))).take d.bytes.length := by
  obtain ⟨s', ds, d, k, h1, h2, h3, h4, _, _, h7⟩ :=
    section_fitting_first_packet_in_pushed_buffer twoPkBuf 1880 _ twoPkBuf_frame
      ⟨patPkt, 2068, 0, false, false⟩ (by simp) Psi.table cfgOk_table {}
      (Lemmas.C03.psiInv_of_none _ _ rfl) _ patPkt_plOf rfl
      (by decide +kernel) (by decide +kernel) (by intro _; decide)
  exact ⟨s', ds, d, k, h1, h2, h3, h4, h7⟩

/-- `changes_per_step_bounded` applies to the first PAT packet from the initial state (all four
invariants hold there); that step queues exactly one change (the PMT handler for PID 0x1e0) -/
example : ∃ chg, stepChg (App.init {}) patPk = .ok chg ∧ chg.length = 1 ∧ chg.length ≤ CHG_MAX := by
  have hs0 : ScriptOk ({} : App.Cfg) := by intro k ops hm; cases hm
  have hl0 : ScriptLenOk ({} : App.Cfg) := by intro k ops hm; cases hm
  obtain ⟨chg, h1, h2⟩ := chk_ok (stepChg (App.init {}) patPk) (fun chg => chg.length == 1)
    (by decide +kernel)
  have hi := init_inv2 {} hs0 hl0
  exact ⟨chg, h1, by simpa using h2,
    changes_per_step_bounded (App.init {}).1 (App.init {}).2 patPk chg hi.1.1 hi.2.1 hi.1.2 hi.2.2
      patPkt_len (by decide) h1⟩

theorem steadyTab_bounded : Bounded steadyTab := by
  rw [bounded_iff]
  refine ⟨by decide, ?_⟩
  intro p h hg
  have hp : p = 0 := by
    have := Tab.lt_of_get_some steadyTab p h hg
    have : steadyTab.length = 1 := rfl
    omega
  subst hp
  have e : steadyTab.get 0 = some (.pat { lastVersion := some 0 } [0x1e0]) := rfl
  rw [e] at hg
  injection hg with hg
  subst hg
  refine ⟨?_, ?_⟩
  · intro s reg e
    injection e with e1 _
    subst e1
    exact ⟨Lemmas.C03.psiInv_of_none _ _ rfl, by decide⟩
  · intro pid prog s reg e; cases e

/-- `mayAlloc_false_step` applies to the repetition step on `steadyTab`: `mayAlloc = false`, the
step succeeds, and it is `StepQuiet` -/
example : mayAlloc (steadyTab, { cfg := {} }) patPk = false
    ∧ ∃ tc', specStep App.sem (steadyTab, { cfg := {} }) patPk = .ok tc'
      ∧ StepQuiet (steadyTab, { cfg := {} }) patPk tc' := by
  have hm := steady_step_no_mayAlloc steadyTab { cfg := {} } patPk rfl steadyTab_steady
  obtain ⟨s', hs'⟩ := pat_quiescent_specStep steadyTab { cfg := {} } patPk { lastVersion := some 0 }
    [0x1e0] 0 rfl rfl patPkt_len ⟨rfl, rfl⟩ patPkt_repeat
  exact ⟨hm, _, hs', mayAlloc_false_step steadyTab _ patPk _ steadyTab_bounded patPkt_len hm hs'⟩

/-- `mayAlloc` is not trivially `false`: the same packet on a FRESH PAT handler (the initial
state) reaches the buffer layer, and a packet on an unknown PID constructs a handler -/
example : mayAlloc (App.init {}) patPk = true
    ∧ mayAlloc (App.init {}) ⟨pid5Pkt, 0, 5, false, false⟩ = true := by
  constructor <;> decide +kernel


/-! ### the reading of "fits in one transport packet"; instances with a BUFFERED delivery -/

section SplitSection
open Ts.Lemmas.C19d (patSecV0 splitPkt1 splitPkt2 splitMux splitMid split_facts split_consume)

/-- **Counter-reading of "every section … that fits in one transport packet".**  The 16-byte PAT
`patSecV0` (16 ≤ 183: it fits a packet, and IS delivered in place when a packet carries it whole,
`pat_in_place_instance`) transmitted with `pointer_field = 170`: the unit-start packet `splitPkt1` has
room for only its first 13 bytes, the continuation packet `splitPkt2` carries the last 3.  From a fresh
filter — the PAT/PMT chain `Psi.table` as well as the raw section-syntax chain — the first packet
delivers nothing (13 bytes are COPIED into the reassembly buffer, 3 owed) and the second delivers the
section with `inplace = none`: from the filter's buffer, not as a sub-slice of the pushed buffer.
So the in-place theorems are about sections that LIE WHOLLY IN THE PACKET THAT STARTS THEM, not about
all sections of at most 183 bytes. -/
theorem section_split_over_two_packets_is_copied :
    patSecV0.length = 16 ∧ WellFormedSection .syntax patSecV0
    ∧ splitPkt1.length = 188 ∧ splitPkt2.length = 188
    ∧ plOf splitPkt1 = some ⟨true, splitMux.first patSecV0, 4⟩
    ∧ byteD (splitMux.first patSecV0) 0 = 170
    ∧ ((splitMux.first patSecV0).drop 1).drop 170 = patSecV0.take 13
    ∧ plOf splitPkt2 = some ⟨false, patSecV0.drop 13 ++ List.replicate 181 0xff, 4⟩
    ∧ (∃ s1 s2, Psi.consume Psi.table {} splitPkt1 = .ok (s1, [])
        ∧ s1.buf = patSecV0.take 13 ∧ s1.remaining = some 3
        ∧ Psi.consume Psi.table s1 splitPkt2 = .ok (s2, [⟨patSecV0, none⟩]))
    ∧ (∃ s1 s2, Psi.consume Psi.rawSection {} splitPkt1 = .ok (s1, [])
        ∧ s1.buf = patSecV0.take 13 ∧ s1.remaining = some 3
        ∧ Psi.consume Psi.rawSection s1 splitPkt2 = .ok (s2, [⟨patSecV0, none⟩])) := by
  obtain ⟨a1, a2, a3, a4, a5, a6, _, _⟩ := split_facts
  obtain ⟨c1, c2, c3, c4⟩ := split_consume
  exact ⟨a6, a5, a1, a2, a3, by decide +kernel, by decide +kernel, a4,
    ⟨_, _, c1, rfl, rfl, c2⟩, ⟨_, _, c3, rfl, rfl, c4⟩⟩

/-- `wellformed_in_place_iff_fits_first`, case `m.k = S.length`: PAT v0 whole in one unit-start payload
(`pointer_field = 0`) is delivered in place at packet offset `4 + 1 + 0` -/
theorem pat_in_place_instance :
    ∃ sfin d, runPl (cfgOf .syntax) {} [⟨true, (Lemmas.C10.muxOf patSecV0).first patSecV0, 4⟩]
        = .ok (sfin, [d]) ∧ d.bytes = patSecV0 ∧ d.inplace = some 5 := by
  obtain ⟨_, _, _, _, hS, _, _, hm⟩ := split_facts
  obtain ⟨sfin, d, h1, h2, h3, _⟩ := wellformed_in_place_iff_fits_first .syntax patSecV0 hS
    (Lemmas.C10.muxOf patSecV0) hm {} (Lemmas.C03.psiInv_of_none _ _ rfl) 4 [] (by simp) rfl
  rw [Lemmas.C10.preSpec_idle _ _ _ rfl] at h1
  exact ⟨sfin, d, h1, h2, h3.2 (by decide +kernel)⟩

/-- `wellformed_in_place_iff_fits_first`, case `m.k < S.length`: the SAME 16-byte section in the
well-formed packetisation `splitMux` (13 + 3) is delivered once, from the buffer -/
theorem pat_split_instance :
    ∃ sfin d, runPl (cfgOf .syntax) {}
        [⟨true, splitMux.first patSecV0, 4⟩, ⟨false, patSecV0.drop 13 ++ List.replicate 181 0xff, 4⟩]
        = .ok (sfin, [d]) ∧ d.bytes = patSecV0 ∧ d.inplace = none ∧ splitMux.k < patSecV0.length := by
  obtain ⟨_, _, _, _, hS, _, hm, _⟩ := split_facts
  obtain ⟨sfin, d, h1, h2, _, h4⟩ := wellformed_in_place_iff_fits_first .syntax patSecV0 hS
    splitMux hm {} (Lemmas.C03.psiInv_of_none _ _ rfl) 4
    [⟨false, patSecV0.drop 13 ++ List.replicate 181 0xff, 4⟩] (by simp) rfl
  rw [Lemmas.C10.preSpec_idle _ _ _ rfl] at h1
  exact ⟨sfin, d, h1, h2, h4.2 (by decide +kernel), by decide +kernel⟩

/-- the filter state between the two packets satisfies the C03 invariant -/
theorem splitMid_inv : PsiInv (kindOf Psi.table) splitMid := by
  intro n hn
  cases hn
  decide

/-- `buffered_iff_completed` on a delivery with `inplace = none`: the delivery of the second packet
is `CompletedBy` the state's buffer (13 bytes ≥ 3) plus the 3 owed bytes of the continuation payload -/
example : ∃ q, plOf splitPkt2 = some q
    ∧ CompletedBy splitMid (contBytes q.us q.bytes) ⟨patSecV0, none⟩ ∧ 3 ≤ splitMid.buf.length :=
  (buffered_iff_completed Psi.table cfgOk_table splitMid splitMid_inv splitPkt2 split_facts.2.1 _ _
    split_consume.2.1 ⟨patSecV0, none⟩ (List.mem_singleton.2 rfl)).1 rfl

/-- `inplace_iff_started_here` on the same delivery: it is NOT flagged in place, so it was not started
in this packet -/
example : ¬ ∃ q, plOf splitPkt2 = some q ∧ q.us = true
    ∧ StartedHere Psi.table q.bytes q.off ⟨patSecV0, none⟩ := by
  intro hx
  have := (inplace_iff_started_here Psi.table cfgOk_table splitMid splitMid_inv splitPkt2
    split_facts.2.1 _ _ split_consume.2.1 ⟨patSecV0, none⟩ (List.mem_singleton.2 rfl)).2 hx
  cases this

/-- `single_packet_section_in_place` on the same delivery takes its SECOND alternative -/
example : ∃ q, plOf splitPkt2 = some q
    ∧ CompletedBy splitMid (contBytes q.us q.bytes) ⟨patSecV0, none⟩ := by
  obtain ⟨q, hq, hcase⟩ := single_packet_section_in_place Psi.table cfgOk_table splitMid splitMid_inv
    splitPkt2 split_facts.2.1 _ _ split_consume.2.1 ⟨patSecV0, none⟩ (List.mem_singleton.2 rfl)
  rcases hcase with ⟨_, _, hin, _⟩ | ⟨hc, _⟩
  · cases hin
  · exact ⟨q, hq, hc⟩

end SplitSection

/-! ### `es_payload_in_buffer` through `frame` -/

/-- a PES packet start on PID 0x100 as `frame` produces it at global offset 376 (`pesPk` of the
examples above with the PID bits set in the header bytes): unit start, PES header `00 00 01 e0 00 00`,
parsed contents `80 00 00`, stuffing -/
def pesPkF : Pk :=
  ⟨Lemmas.C08.mkPkt 0x41 0x10 (Lemmas.C08.pesStart ++ [0x80, 0x00, 0x00]), 376, 0x100, false, false⟩

/-- a push of two packets: the PID-5 packet, then the bytes of `pesPkF` -/
def pesBuf : Bytes := pid5Pkt ++ pesPkF.bytes

set_option maxRecDepth 20000 in
theorem pesBuf_frame : frame pesBuf 188 = .ok [⟨pid5Pkt, 188, 5, false, false⟩, pesPkF] := by
  decide +kernel

set_option maxRecDepth 20000 in
/-- `es_payload_in_buffer` applies to the second packet of `push(pesBuf)` (188 bytes pushed before):
the `begin_packet` event exposes the range (389, 175); it lies inside the packet `[376, 564)` and
inside the pushed buffer `[188, 188 + 376)`, and denotes the same 175 bytes in the packet (from offset
13) and in the caller's buffer (from offset 201) -/
example : ∃ h' c' bi, App.consume (.pes 7 {}) { cfg := {} } pesPkF = .ok (h', c', [])
    ∧ c'.trace = [.esBegin 7 bi, .esStart 7] ∧ bi.pl = some (389, 175)
    ∧ 188 ≤ 389 ∧ 389 + 175 ≤ 188 + pesBuf.length
    ∧ (pesPkF.bytes.drop 13).take 175 = (pesBuf.drop 201).take 175 := by
  have hc : ∃ h' c' bi, App.consume (.pes 7 {}) { cfg := {} } pesPkF = .ok (h', c', [])
      ∧ c'.trace = [.esBegin 7 bi, .esStart 7] ∧ bi.pl = some (389, 175) := ⟨_, _, _, rfl, rfl, rfl⟩
  obtain ⟨h', c', bi, h1, h2, h3⟩ := hc
  obtain ⟨out, e1, e2⟩ := es_payload_in_buffer pesBuf 188 _ pesBuf_frame pesPkF (by simp) 7 {}
    { cfg := {} } h' c' [] h1
  have hout : out = [.esBegin 7 bi, .esStart 7] := by
    have : c'.trace = out ++ [] := e1
    rw [List.append_nil] at this
    rw [← this, h2]
  subst hout
  obtain ⟨_, hr⟩ := e2 (.esBegin 7 bi) (by simp)
  obtain ⟨_, _, _, _, r5, r6, r7⟩ := hr 389 175 h3
  exact ⟨h', c', bi, h1, h2, h3, r5, r6, r7⟩

/-! ## 7. the steady state at INPUT level (known finding F14)

`Steady` (§4, §5) is a hypothesis on the STATE and on the bytes the de-duplication layer reads.  The
property's quantifier is over inputs: "all well-formed steady-state streams (any packetisation, any
table repetition pattern)".  `C19_steady_full` states that; it is false (`C19_steady_full_false`).
`C19_steady_gap*` / `C19_steady_partial` say which input-level hypotheses DO give `Steady`. -/

section InputLevel
open Ts.Lemmas.C19d (LegalMux TransmitsWith TransmitsAnyCut StableInputWith StableInput frameAll
  LastTableOn CopyOf tablePid)
open Ts.Spec.RoutingHistory (Event initRoute WF Realises run)

/-- **C19 (d), partial** — `steady_state_no_alloc` under its other name.  What makes it PARTIAL with
respect to the property ("once all PIDs have been seen and the tables are stable … any packetisation,
any table repetition pattern") is the hypothesis `hst : Steady t pks`: for every packet of the push,
1. its PID has a handler in `t` (`t.contains pk.pid`), and
2. if that handler is a PAT/PMT filter with section state `s`: `s` is quiescent at some version `v`
   (`s.lastVersion = some v ∧ s.remaining = none`) and the packet is a `RepeatPkt v`: it has no
   payload, or no unit start, or its unit-start payload carries AT LEAST 8 SECTION BYTES after the
   `pointer_field` bytes, with the syntax bit set, `section_length ≤ 1021` and `version_number = v`.
Clause 2 is the de-duplication layer's own version test, copied into the hypothesis: it is a
condition on the filter's state and on where the multiplexer cut the section, not "the table is
unchanged".  OUTSIDE it: a repetition whose first share has fewer than 8 bytes.  With fewer than 3
(known finding F14, `C19_steady_full_false`) the filter chain is reset, the NEXT ordinary repetition
is re-applied, and handlers are constructed in steady state.  `C19_steady_gap_transmissions` derives
`Steady` from an input-level hypothesis that includes the 8-byte clause. -/
theorem steady_state_no_alloc_partial (t : Tab App.Handler) (c : App.Ctx) (buf : Bytes) (base : Nat)
    (pks : List Pk) (tcf : Tab App.Handler × App.Ctx) (hsc : c.cfg.script = [])
    (hf : frame buf base = .ok pks) (hst : Steady t pks)
    (h : push App.sem (t, c) buf base = .ok tcf) :
    runAllocFree (t, c) pks ∧ tcf.1.length = t.length ∧ tcf.2.nextTag = c.nextTag
      ∧ (∀ p, psiBuf tcf.1 p = psiBuf t p) ∧ (∀ p, slotKey tcf.1 p = slotKey t p)
      ∧ Steady tcf.1 pks ∧ tcf.2.cfg.script = [] :=
  steady_state_no_alloc t c buf base pks tcf hsc hf hst h

/-- **C19 (d) at full strength, over inputs.**  For every configuration without recorder script,
every history `evs` of applied PAT/PMT versions, elementary-stream packets and repetitions
(`Spec.RoutingHistory`), every list of warm-up pushes `warm` whose packets `pks0` realise it
(`Realises`), run from `Demultiplex::new` to `(t, c)`; every list of further pushes `steady` with
packets `pks`, such that (`StableInput`)
* every PID occurring in `pks` has a handler after the warm-up, and
* for every PID `p` occurring in `pks` that carries tables after the history, the packets of PID `p`
  are, in order, the packets of COMPLETE transmissions — any number, each in ANY packetisation
  (`LegalMux` = `WellFormedMux` without the minimum first share), with anything interleaved on other
  PIDs — of one section `tbl p` that is a copy (`CopyOf`: intact, same `table_id`,
  `version_number` and contents) of the table LAST applied on `p` in the history:
if the whole run completes, NO HANDLER IS CONSTRUCTED during the steady pushes (`nextTag`, bumped by
every `construct`, is unchanged).  This is the weakest of the conclusions of
`steady_state_all_pushes`; the statement is false already for it. -/
def C19_steady_full : Prop :=
  ∀ (cfg : App.Cfg) (evs : List Event) (tbl : Nat → Bytes) (warm steady : List Bytes)
    (pks0 pks : List Pk) (t : Tab App.Handler) (c : App.Ctx) (tcf : Tab App.Handler × App.Ctx),
    cfg.script = [] →
    frameAll warm 0 = .ok pks0 → WF initRoute evs → Realises initRoute evs pks0 →
    App.runApp cfg warm = .ok (t, c) →
    frameAll (warm ++ steady) 0 = .ok (pks0 ++ pks) →
    StableInput evs tbl t pks →
    App.runApp cfg (warm ++ steady) = .ok tcf →
    tcf.2.nextTag = c.nextTag

/-- **Known finding F14: `C19_steady_full` is FALSE of the pinned code (the model agrees).**
Witness = the probe `F14 steady b0t0 …` (`/verif/known_findings.json`), as byte lists
(`Lemmas.C19d.f14Warm`, `f14St1`, `f14St2`, `f14St3`):
warm-up PAT v0 {1 → 0x100}, PMT v0 {H.264 on 0x101}, start of a PES packet on 0x101 — it realises the
history `f14Hist` and constructs the handlers 0, 1, 2; then three pushes that carry, on PID 0, only
complete transmissions of the SAME PAT v0 and, on PID 0x100, only the SAME PMT v0, between
elementary-stream packets.  The second PAT transmission is cut after 2 bytes (`pointer_field = 181`;
`straddleMux`, a `LegalMux` that is not a `WellFormedMux`).  That start resets the PAT filter's
chain — remembered version forgotten —, the next ordinary PAT v0 is RE-APPLIED (`Pmt(0x100, 1)`
constructed again, tag 3), the rebuilt PMT filter re-applies PMT v0 (`Stream(…0x101…)` constructed
again, tag 4): `nextTag` is 3 after the warm-up and 5 at the end.  Real code on the same bytes:
`constructs = 0, 2, 0`, `allocs = 0, 3, 0` per steady push. -/
theorem C19_steady_full_false : ¬ C19_steady_full := by
  intro h
  obtain ⟨pks0, h0, hk⟩ := Lemmas.C19d.chk_ok _ _ Lemmas.C19d.f14Check_true
  obtain ⟨pall, h1, hk⟩ := Lemmas.C19d.chk_ok _ _ hk
  obtain ⟨tc0, h2, hk⟩ := Lemmas.C19d.chk_ok _ _ hk
  obtain ⟨tc1, _, hk⟩ := Lemmas.C19d.chk_ok _ _ hk
  obtain ⟨tc2, _, hk⟩ := Lemmas.C19d.chk_ok _ _ hk
  obtain ⟨tc3, h5, hk⟩ := Lemmas.C19d.chk_ok _ _ hk
  simp only [Bool.and_eq_true, beq_iff_eq, List.all_eq_true, Bool.not_eq_true'] at hk
  obtain ⟨⟨⟨⟨⟨⟨⟨⟨⟨b1, b2⟩, b3⟩, _⟩, _⟩, b6⟩, b7⟩, _⟩, _⟩, _⟩ := hk
  subst b1
  subst b2
  have hfin := h {} Lemmas.C19d.f14Hist Lemmas.C19d.f14Tbl [Lemmas.C19d.f14Warm]
    [Lemmas.C19d.f14St1, Lemmas.C19d.f14St2, Lemmas.C19d.f14St3] _ _ tc0.1 tc0.2 tc3 rfl h0
    Lemmas.C19d.f14_wf Lemmas.C19d.f14_realises h2 h1 (Lemmas.C19d.f14_stable tc0.1 b7) h5
  have e0 : tc0.2.nextTag = 3 := congrArg Prod.fst b3
  have e3 : tc3.2.nextTag = 5 := congrArg Prod.fst b6
  omega

/-- `pushMayAlloc tc buf base`: some step of `push(buf)` from `tc` has `mayAlloc` -/
theorem pushMayAlloc_eq (tc : Tab App.Handler × App.Ctx) (buf : Bytes) (base : Nat) :
    Lemmas.C19d.pushMayAlloc tc buf base =
      (match frame buf base with
       | .ok pks => runMayAlloc tc pks
       | .panic _ => false) := by
  unfold Lemmas.C19d.pushMayAlloc Lemmas.C19d.chk
  cases frame buf base <;> rfl

/-- **F14 and its control on the exact probe bytes, push by push** (`runApp {}` = harness mode
`b0t0`).  Probe: after the warm-up 3 handlers have been constructed and the table has 258 slots; the
first steady push constructs nothing and has no `mayAlloc` step; the second (the one containing the
straddling PAT v0 and then an ordinary PAT v0 / PMT v0) constructs 2 handlers and has `mayAlloc`
steps; the third again nothing — the model's `constructs = 0, 2, 0`, as the real code.  Control
(`f14cSt2`: the straddling transmission replaced by two ordinary ones): nothing in any push. -/
theorem F14_steady_counterexample :
    (∃ tc0 tc1 tc2 tc3,
      App.runApp {} [Lemmas.C19d.f14Warm] = .ok tc0
      ∧ App.runApp {} [Lemmas.C19d.f14Warm, Lemmas.C19d.f14St1] = .ok tc1
      ∧ App.runApp {} [Lemmas.C19d.f14Warm, Lemmas.C19d.f14St1, Lemmas.C19d.f14St2] = .ok tc2
      ∧ App.runApp {} [Lemmas.C19d.f14Warm, Lemmas.C19d.f14St1, Lemmas.C19d.f14St2, Lemmas.C19d.f14St3]
          = .ok tc3
      ∧ (tc0.2.nextTag, tc0.1.length) = (3, 258) ∧ (tc1.2.nextTag, tc1.1.length) = (3, 258)
      ∧ (tc2.2.nextTag, tc2.1.length) = (5, 258) ∧ (tc3.2.nextTag, tc3.1.length) = (5, 258)
      ∧ Lemmas.C19d.pushMayAlloc tc0 Lemmas.C19d.f14St1 564 = false
      ∧ Lemmas.C19d.pushMayAlloc tc1 Lemmas.C19d.f14St2 1128 = true
      ∧ Lemmas.C19d.pushMayAlloc tc2 Lemmas.C19d.f14St3 2256 = false)
    ∧ (∃ tc0 tc1 tc2 tc3,
      App.runApp {} [Lemmas.C19d.f14Warm] = .ok tc0
      ∧ App.runApp {} [Lemmas.C19d.f14Warm, Lemmas.C19d.f14St1] = .ok tc1
      ∧ App.runApp {} [Lemmas.C19d.f14Warm, Lemmas.C19d.f14St1, Lemmas.C19d.f14cSt2] = .ok tc2
      ∧ App.runApp {} [Lemmas.C19d.f14Warm, Lemmas.C19d.f14St1, Lemmas.C19d.f14cSt2, Lemmas.C19d.f14St3]
          = .ok tc3
      ∧ (tc0.2.nextTag, tc0.1.length) = (3, 258) ∧ (tc1.2.nextTag, tc1.1.length) = (3, 258)
      ∧ (tc2.2.nextTag, tc2.1.length) = (3, 258) ∧ (tc3.2.nextTag, tc3.1.length) = (3, 258)
      ∧ Lemmas.C19d.pushMayAlloc tc0 Lemmas.C19d.f14St1 564 = false
      ∧ Lemmas.C19d.pushMayAlloc tc1 Lemmas.C19d.f14cSt2 1128 = false
      ∧ Lemmas.C19d.pushMayAlloc tc2 Lemmas.C19d.f14St3 2256 = false) := by
  constructor
  · obtain ⟨pks0, _, hk⟩ := Lemmas.C19d.chk_ok _ _ Lemmas.C19d.f14Check_true
    obtain ⟨pall, _, hk⟩ := Lemmas.C19d.chk_ok _ _ hk
    obtain ⟨tc0, h2, hk⟩ := Lemmas.C19d.chk_ok _ _ hk
    obtain ⟨tc1, h3, hk⟩ := Lemmas.C19d.chk_ok _ _ hk
    obtain ⟨tc2, h4, hk⟩ := Lemmas.C19d.chk_ok _ _ hk
    obtain ⟨tc3, h5, hk⟩ := Lemmas.C19d.chk_ok _ _ hk
    simp only [Bool.and_eq_true, beq_iff_eq, Bool.not_eq_true'] at hk
    obtain ⟨⟨⟨⟨⟨⟨⟨⟨⟨_, _⟩, b3⟩, b4⟩, b5⟩, b6⟩, _⟩, b8⟩, b9⟩, b10⟩ := hk
    exact ⟨tc0, tc1, tc2, tc3, h2, h3, h4, h5, b3, b4, b5, b6, b8, b9, b10⟩
  · obtain ⟨pall, _, hk⟩ := Lemmas.C19d.chk_ok _ _ Lemmas.C19d.f14cCheck_true
    obtain ⟨tc0, h2, hk⟩ := Lemmas.C19d.chk_ok _ _ hk
    obtain ⟨tc1, h3, hk⟩ := Lemmas.C19d.chk_ok _ _ hk
    obtain ⟨tc2, h4, hk⟩ := Lemmas.C19d.chk_ok _ _ hk
    obtain ⟨tc3, h5, hk⟩ := Lemmas.C19d.chk_ok _ _ hk
    simp only [Bool.and_eq_true, beq_iff_eq, Bool.not_eq_true'] at hk
    obtain ⟨⟨⟨⟨⟨⟨⟨⟨⟨_, b3⟩, b4⟩, b5⟩, b6⟩, b8⟩, b9⟩, b10⟩, _⟩, _⟩ := hk
    exact ⟨tc0, tc1, tc2, tc3, h2, h3, h4, h5, b3, b4, b5, b6, b8, b9, b10⟩

/-- the witness's packetisation: legal, NOT well-formed (its first share has 2 < 8 bytes); every
other packetisation of the probe is well-formed -/
theorem F14_only_straddle_is_short :
    LegalMux Lemmas.C19d.patSecV0 Lemmas.C19d.straddleMux
    ∧ ¬ WellFormedMux .syntax Lemmas.C19d.patSecV0 Lemmas.C19d.straddleMux
    ∧ WellFormedMux .syntax Lemmas.C19d.patSecV0 (Lemmas.C10.muxOf Lemmas.C19d.patSecV0)
    ∧ WellFormedMux .syntax Lemmas.C19d.pmtSecV0 (Lemmas.C10.muxOf Lemmas.C19d.pmtSecV0) :=
  Lemmas.C19d.straddleMux_legal

/-! ### what IS proved from input-level hypotheses -/

/-- **Gap, packet level.**  If every packet of the list is either
* on a PID holding a PAT/PMT handler quiescent at some version `v` and is a C10 repetition packet of
  version `v` (`Lemmas.C10.RepPacket`: a 188-byte packet without payload, or with a continuation
  payload, or whose unit-start payload is the first payload of a `WellFormedMux` packetisation — first
  share ≥ 8 bytes — of a well-formed version-`v` section), or
* a 188-byte packet on a PID holding a handler without section filter (PES filter or recorder),
then `Steady t pks`; hence (no recorder script) no step of the run has `mayAlloc`. -/
theorem C19_steady_gap (t : Tab App.Handler) (pks : List Pk)
    (h : ∀ pk ∈ pks,
      (∃ hd v, t.get pk.pid = some hd ∧ Lemmas.C10.QuiescentH v hd ∧ Lemmas.C10.RepPacket v pk.bytes)
      ∨ (pk.bytes.length = 188 ∧ ∃ hd, t.get pk.pid = some hd ∧ psiOf hd = none)) :
    Steady t pks ∧ ∀ c : App.Ctx, c.cfg.script = [] → runMayAlloc (t, c) pks = false := by
  have hst : Steady t pks := by
    intro pk hpk
    rcases h pk hpk with ⟨hd, v, hg, hq, hr⟩ | ⟨hl, hd, hg, hn⟩
    · exact steadyPk_of_c10 t pk v hd hg hq hr
    · refine ⟨hl, (Tab.contains_eq_true_iff t pk.pid).2 ⟨hd, hg⟩, ?_⟩
      intro h' s hg' hs
      rw [hg] at hg'
      injection hg' with hg'
      subst hg'
      rw [hn] at hs
      cases hs
  exact ⟨hst, fun c hsc => steady_run_mayAlloc_false pks t c hsc hst⟩

/-- `C19_steady_gap` is not vacuous: the hand-built table `steadyTab` (a PAT filter quiescent at
version 0 on PID 0) and an ordinary one-packet transmission of PAT v0 -/
example : Steady steadyTab [Lemmas.C19d.pkAt (Lemmas.C19d.patPktCc 1 Lemmas.C19d.patSecV0) 4 0]
    ∧ ∀ c : App.Ctx, c.cfg.script = [] →
        runMayAlloc (steadyTab, c) [Lemmas.C19d.pkAt (Lemmas.C19d.patPktCc 1 Lemmas.C19d.patSecV0) 4 0]
          = false := by
  obtain ⟨_, a1, _⟩ := Lemmas.C19d.f14_transmissions
  obtain ⟨_, _, w0, _⟩ := Lemmas.C19d.straddleMux_legal
  obtain ⟨_, _, _, _, hS, hl, _, _⟩ := Lemmas.C19d.split_facts
  have hrep := Lemmas.C19d.repPacket_of_transmits 0 Lemmas.C19d.patSecV0 _ hS (by rw [hl]; decide)
    (Lemmas.C19d.txCheck_sound_with _ _ _ _ w0 a1) _ (List.mem_singleton.2 rfl)
  rw [Lemmas.C19d.f14_versions.1] at hrep
  refine C19_steady_gap steadyTab _ ?_
  intro pk hpk
  rw [List.mem_singleton] at hpk
  subst hpk
  exact Or.inl ⟨_, 0, rfl, ⟨rfl, rfl⟩, hrep⟩

/-- **Gap, transmission level: input-level hypothesis ⇒ `Steady`.**  `StableInputWith
(WellFormedMux .syntax)` is the hypothesis of `C19_steady_full` PLUS "the first share of every
transmission has at least 8 bytes".  Together with
* `hlen`: the packets have 188 bytes (true of framed packets), and
* `hagree`: on the steady PIDs the table after the warm-up agrees with the history — a PID that
  carries tables holds a PAT/PMT handler quiescent at the version of the current table (i.e. the
  handler INSTANCE in the slot is the one that applied it; fails after known findings F8/F14 and F9),
  any other PID holds a handler without section filter —
it gives `Steady t pks`.  `hagree` is a hypothesis here because the theorems that derive it from a
realised history (`Props.C05History.routing_refines`, `Props.C10.C10_partial`) are downstream of this
file in the import order. -/
theorem C19_steady_gap_transmissions (evs : List Event) (tbl : Nat → Bytes) (t : Tab App.Handler)
    (pks : List Pk) (hin : StableInputWith (WellFormedMux .syntax) evs tbl t pks)
    (hlen : ∀ pk ∈ pks, pk.bytes.length = 188)
    (hagree : ∀ pk ∈ pks,
      (tablePid (run initRoute evs) pk.pid = true
        ∧ ∃ h, t.get pk.pid = some h ∧ Lemmas.C10.QuiescentH (Lemmas.C10.versionOf (tbl pk.pid)) h)
      ∨ (tablePid (run initRoute evs) pk.pid = false ∧ ∃ h, t.get pk.pid = some h ∧ psiOf h = none)) :
    Steady t pks :=
  Lemmas.C19d.steady_of_stable evs tbl t pks hin hlen hagree

/-- the hypothesis of `C19_steady_gap_transmissions` is that of `C19_steady_full` plus the 8-byte
clause, nothing else -/
theorem stableInput_of_wellFormed (evs : List Event) (tbl : Nat → Bytes) (t : Tab App.Handler)
    (pks : List Pk) (h : StableInputWith (WellFormedMux .syntax) evs tbl t pks) :
    StableInput evs tbl t pks :=
  h.mono fun S m hm => ((Lemmas.C19d.wellFormedMux_iff_legal .syntax S m).1 hm).1

/-- **C19 (d), partial, in the shape of `C19_steady_full`.**  Its hypotheses on the steady pushes with
`WellFormedMux .syntax` in place of `LegalMux` (first share of every transmission ≥ 8 bytes), plus
`hagree` (see `C19_steady_gap_transmissions`), plus "no recorder script" read off the context after
the warm-up.  Conclusion: the packets of the steady pushes are `Steady`; if the whole run completes,
no handler was constructed, the table has the same number of slots, every slot has the same kind,
PSI buffer contents, `Buffering` state and table version as after the warm-up; and no step over the
steady packets has `mayAlloc`.  (`WF`/`Realises` of the warm-up are not needed once `hagree` is
assumed.) -/
theorem C19_steady_partial (cfg : App.Cfg) (evs : List Event) (tbl : Nat → Bytes) (warm steady : List Bytes)
    (pks0 pks : List Pk) (t : Tab App.Handler) (c : App.Ctx) (tcf : Tab App.Handler × App.Ctx)
    (hsc : c.cfg.script = [])
    (hf0 : frameAll warm 0 = .ok pks0)
    (hrun : App.runApp cfg warm = .ok (t, c))
    (hf : frameAll (warm ++ steady) 0 = .ok (pks0 ++ pks))
    (hin : StableInputWith (WellFormedMux .syntax) evs tbl t pks)
    (hagree : ∀ pk ∈ pks,
      (tablePid (run initRoute evs) pk.pid = true
        ∧ ∃ h, t.get pk.pid = some h ∧ Lemmas.C10.QuiescentH (Lemmas.C10.versionOf (tbl pk.pid)) h)
      ∨ (tablePid (run initRoute evs) pk.pid = false ∧ ∃ h, t.get pk.pid = some h ∧ psiOf h = none))
    (hfin : App.runApp cfg (warm ++ steady) = .ok tcf) :
    Steady t pks ∧ tcf.2.nextTag = c.nextTag ∧ tcf.1.length = t.length
      ∧ (∀ p, slotKey tcf.1 p = slotKey t p) ∧ (∀ p, psiBuf tcf.1 p = psiBuf t p)
      ∧ runMayAlloc (t, c) pks = false := by
  -- the packets of the steady pushes alone
  obtain ⟨pb, hpb⟩ := Lemmas.C19d.frameAll_total steady (0 + (warm.map List.length).sum)
  have happ := Lemmas.C19d.frameAll_append warm steady 0 pks0 pb hf0 hpb
  rw [hf] at happ
  have hpks : pks = pb := List.append_cancel_left (R.ok_inj happ)
  subst hpks
  have hlen := Lemmas.C19d.frameAll_len steady _ pks hpb
  have hst : Steady t pks := C19_steady_gap_transmissions evs tbl t pks hin hlen hagree
  -- the steady pushes, run from the state after the warm-up
  unfold App.runApp at hrun hfin
  rw [Lemmas.C19d.pushAll_append, hrun, R.ok_bind] at hfin
  have hall : ∀ b ∈ steady, ∀ bs pks', frame b bs = .ok pks' → Steady t pks' := by
    intro b hb bs pks' hf'
    obtain ⟨base', a, ha, hsub⟩ := Lemmas.C19d.frameAll_mem steady _ pks hpb b hb
    exact steady_of_frame_base t b base' a ha (fun pk hm => hst pk (hsub pk hm)) bs pks' hf'
  obtain ⟨a1, a2, a3, a4⟩ := steady_state_all_pushes steady t c _ tcf hsc hall hfin
  exact ⟨hst, a2, a1, a3, a4, steady_run_mayAlloc_false pks t c hsc hst⟩

/-- **`C19_steady_partial` is not vacuous**: its hypotheses hold on the control probe F14c (warm-up
`f14Warm`; steady pushes `f14St1`, `f14cSt2`, `f14St3`: twelve packets — five ordinary PAT v0
repetitions, three PMT v0 repetitions, four elementary-stream continuations), so its conclusion holds
there; in particular `nextTag` stays 3. -/
theorem C19_steady_partial_instance :
    ∃ t c tcf, App.runApp {} [Lemmas.C19d.f14Warm] = .ok (t, c)
      ∧ App.runApp {} ([Lemmas.C19d.f14Warm]
          ++ [Lemmas.C19d.f14St1, Lemmas.C19d.f14cSt2, Lemmas.C19d.f14St3]) = .ok tcf
      ∧ StableInputWith (WellFormedMux .syntax) Lemmas.C19d.f14Hist Lemmas.C19d.f14Tbl t
          Lemmas.C19d.f14cSteadyPks
      ∧ StableInput Lemmas.C19d.f14Hist Lemmas.C19d.f14Tbl t Lemmas.C19d.f14cSteadyPks
      ∧ Steady t Lemmas.C19d.f14cSteadyPks ∧ tcf.2.nextTag = c.nextTag ∧ c.nextTag = 3
      ∧ tcf.1.length = t.length ∧ (∀ p, slotKey tcf.1 p = slotKey t p)
      ∧ runMayAlloc (t, c) Lemmas.C19d.f14cSteadyPks = false := by
  have h0 : frameAll [Lemmas.C19d.f14Warm] 0 = .ok Lemmas.C19d.f14WarmPks := by decide +kernel
  obtain ⟨pall, h1, hk⟩ := Lemmas.C19d.chk_ok _ _ Lemmas.C19d.f14cCheck_true
  obtain ⟨tc0, h2, hk⟩ := Lemmas.C19d.chk_ok _ _ hk
  obtain ⟨tc1, _, hk⟩ := Lemmas.C19d.chk_ok _ _ hk
  obtain ⟨tc2, _, hk⟩ := Lemmas.C19d.chk_ok _ _ hk
  obtain ⟨tc3, h5, hk⟩ := Lemmas.C19d.chk_ok _ _ hk
  simp only [Bool.and_eq_true, beq_iff_eq, Bool.not_eq_true', List.isEmpty_iff] at hk
  obtain ⟨⟨⟨⟨⟨⟨⟨⟨⟨b1, b3⟩, _⟩, _⟩, _⟩, _⟩, _⟩, _⟩, b9⟩, b10⟩ := hk
  subst b1
  obtain ⟨q0, q1, q2⟩ := Lemmas.C19d.f14AgreeB_sound tc0.1 b9
  obtain ⟨_, _, _, _, _, _, _, hp⟩ := Lemmas.C19d.f14c_transmissions
  obtain ⟨v0, v1⟩ := Lemmas.C19d.f14_versions
  obtain ⟨tp0, tp1, tp2⟩ := Lemmas.C19d.f14_tablePids
  have hcont : ∀ pk ∈ Lemmas.C19d.f14cSteadyPks, tc0.1.contains pk.pid = true := by
    intro pk hpk
    rcases hp pk hpk with e | e | e <;> rw [e]
    · obtain ⟨hd, hg, _⟩ := q0; exact (Tab.contains_eq_true_iff _ _).2 ⟨hd, hg⟩
    · obtain ⟨hd, hg, _⟩ := q1; exact (Tab.contains_eq_true_iff _ _).2 ⟨hd, hg⟩
    · obtain ⟨hd, hg, _⟩ := q2; exact (Tab.contains_eq_true_iff _ _).2 ⟨hd, hg⟩
  have hin := Lemmas.C19d.f14c_stable tc0.1 hcont
  have hagree : ∀ pk ∈ Lemmas.C19d.f14cSteadyPks,
      (tablePid (run initRoute Lemmas.C19d.f14Hist) pk.pid = true
        ∧ ∃ h, tc0.1.get pk.pid = some h
            ∧ Lemmas.C10.QuiescentH (Lemmas.C10.versionOf (Lemmas.C19d.f14Tbl pk.pid)) h)
      ∨ (tablePid (run initRoute Lemmas.C19d.f14Hist) pk.pid = false
        ∧ ∃ h, tc0.1.get pk.pid = some h ∧ psiOf h = none) := by
    intro pk hpk
    rcases hp pk hpk with e | e | e <;> rw [e]
    · exact Or.inl ⟨tp0, by
        have : Lemmas.C19d.f14Tbl 0 = Lemmas.C19d.patSecV0 := rfl
        rw [this, v0]; exact q0⟩
    · exact Or.inl ⟨tp1, by
        have : Lemmas.C19d.f14Tbl 0x100 = Lemmas.C19d.pmtSecV0 := rfl
        rw [this, v1]; exact q1⟩
    · exact Or.inr ⟨tp2, q2⟩
  obtain ⟨c1, c2, c3, c4, _, c6⟩ := C19_steady_partial {} Lemmas.C19d.f14Hist Lemmas.C19d.f14Tbl
    [Lemmas.C19d.f14Warm] [Lemmas.C19d.f14St1, Lemmas.C19d.f14cSt2, Lemmas.C19d.f14St3] _ _ tc0.1 tc0.2
    tc3 b10 h0 h2 h1 hin hagree h5
  exact ⟨tc0.1, tc0.2, tc3, h2, h5, hin, stableInput_of_wellFormed _ _ _ _ hin, c1, c2,
    congrArg Prod.fst b3, c3, c4, c6⟩

end InputLevel


end Ts.Props.C19
