import Ts.Lemmas.C19
import Ts.Lemmas.C19b
import Ts.Props.C03
import Ts.Props.C06
/-!
# C19 — zero-copy delivery, bounded retained state, allocation-free steady state (model level)

The library's only heap-backed state is `Filters::filters_by_pid` (model: `Tab`), each PSI filter's
reassembly `Vec<u8>` (model: `Psi.St.buf`), the `FilterChangeset` (model: the change list returned
by `consume`, applied and dropped after each packet) and the two fixed-size `FixedBitSet`s of each
PAT/PMT processor.  The allocator itself is observed at run time by the harness; here we prove the
model-level facts that make its behaviour predictable.

* `frame_packets_in_buffer`, `es_payload_in_packet`, `es_payload_in_buffer`: every slice an
  elementary-stream consumer is handed is a window of the packet being consumed, hence of the
  buffer passed to `push` (slices are ranges `(offset, length)` in the model; nothing is copied).
* `single_packet_section_in_place` (+ `inplace_iff_started_here`, `buffered_iff_completed`,
  `section_fitting_first_packet_delivered_in_place`, `wellformed_in_place_iff_fits_first`):
  a whole-section delivery is flagged `inplace = some off` exactly when the section starts in this
  packet with all its `3 + section_length` bytes present; it then IS the window of the packet at
  `off`.  Deliveries from the reassembly buffer are exactly those completed by a continuation.
* `bounded_init`, `bounded_push`, `retained_bounded`: for ARBITRARY pushed bytes the filter table
  never exceeds 8192 slots and no reassembly buffer exceeds 1024 bytes, so the retained-memory
  measure stays below the constant `RETAINED_MAX`.
* `quiescent_step`, `steady_step_alloc_free`, `steady_state_no_alloc`, `steady_state_all_pushes`:
  once every PID has a handler and the tables are stable, no dispatcher step constructs a handler,
  grows the table, writes a reassembly buffer or queues a change.
-/
namespace Ts.Props.C19
open Ts Ts.Demux Ts.Lemmas.C19
open Ts.Lemmas.C03 (PsiInv CfgOk kindOf plOf hdrLen startOk cfgOf preSpec runPl cfgOk_cfgOf cfgOk_table)
open Ts.Spec.SectionMux (Kind WellFormedSection WellFormedMux Mux)

/-! ## 1. elementary-stream payloads are sub-slices of the pushed buffer -/

/-- every packet `push(buf)` iterates over (`base` = bytes pushed before this call) lies inside
`buf`, packet-aligned, and its bytes are literally that 188-byte window of `buf` -/
theorem frame_packets_in_buffer (buf : Bytes) (base : Nat) (pks : List Pk)
    (h : frame buf base = .ok pks) :
    ∀ pk ∈ pks, base ≤ pk.off ∧ pk.off + 188 ≤ base + buf.length ∧ (pk.off - base) % 188 = 0
      ∧ pk.bytes = (buf.drop (pk.off - base)).take 188 ∧ pk.bytes.length = 188
      ∧ pk.pid ≤ 0x1fff :=
  fun pk hpk =>
    let r := frame_pk_props buf base pks h pk hpk
    ⟨r.1, r.2.1, r.2.2.1, r.2.2.2.1, r.2.2.2.2.1, r.2.2.2.2.2.1⟩

/-- For a `.pes tag f` handler and every 188-byte packet: the events `App.consume` appends to the
context trace (`out`, most recent first) are `esStart`/`esEnd`/`esCcErr`, or `esCont tag off len`
with `pk.off + 4 ≤ off ∧ off + len = pk.off + 188 ∧ 0 < len`, or `esBegin tag bi` whose exposed
payload range `bi.pl = some (o, l)` satisfies `pk.off + 4 ≤ o ∧ o + l ≤ pk.off + 188`
(`EvInPacket`).  The handler queues no change and constructs nothing. -/
theorem es_payload_in_packet (tag : Nat) (f : PesFilter.F) (c : App.Ctx) (pk : Pk)
    (h' : App.Handler) (c' : App.Ctx) (chg : List (Change App.Handler))
    (hlen : pk.bytes.length = 188)
    (h : App.consume (.pes tag f) c pk = .ok (h', c', chg)) :
    ∃ out, c'.trace = out ++ c.trace ∧ (∀ e ∈ out, EvInPacket tag pk.off e) ∧ chg = []
      ∧ c'.nextTag = c.nextTag := by
  obtain ⟨out, _, _, e2, e3, e4, e5, _⟩ := pes_consume_events tag f c pk h' c' chg hlen h
  exact ⟨out, e3, e4, e2, e5⟩

/-- the shape predicate, spelled out for the two slice-carrying events -/
theorem evInPacket_cont (tag pkoff t off len : Nat) :
    EvInPacket tag pkoff (.esCont t off len) ↔
      (t = tag ∧ pkoff + 4 ≤ off ∧ off + len = pkoff + 188 ∧ 0 < len) := Iff.rfl

theorem evInPacket_begin (tag pkoff t : Nat) (bi : App.BeginInfo) :
    EvInPacket tag pkoff (.esBegin t bi) ↔
      (t = tag ∧ ∀ o l, bi.pl = some (o, l) → pkoff + 4 ≤ o ∧ o + l ≤ pkoff + 188) := Iff.rfl

/-- only elementary-stream events of this handler appear -/
theorem evInPacket_kinds (tag pkoff : Nat) (e : App.Ev) (h : EvInPacket tag pkoff e) :
    e = .esStart tag ∨ e = .esEnd tag ∨ e = .esCcErr tag ∨ (∃ off len, e = .esCont tag off len)
      ∨ (∃ bi, e = .esBegin tag bi) := by
  cases e with
  | esStart t => simp only [EvInPacket] at h; subst h; exact Or.inl rfl
  | esEnd t => simp only [EvInPacket] at h; subst h; exact Or.inr (Or.inl rfl)
  | esCcErr t => simp only [EvInPacket] at h; subst h; exact Or.inr (Or.inr (Or.inl rfl))
  | esCont t off len =>
    simp only [EvInPacket] at h; obtain ⟨h, _⟩ := h; subst h
    exact Or.inr (Or.inr (Or.inr (Or.inl ⟨_, _, rfl⟩)))
  | esBegin t bi =>
    simp only [EvInPacket] at h; obtain ⟨h, _⟩ := h; subst h
    exact Or.inr (Or.inr (Or.inr (Or.inr ⟨_, rfl⟩)))
  | construct _ _ => exact absurd h id
  | scriptIns _ _ => exact absurd h id
  | scriptRem _ => exact absurd h id
  | pkt _ _ => exact absurd h id

/-- the slice exposed by an event of the packet at `pkoff` lies in that packet's payload area -/
theorem evRange_in_packet (tag pkoff : Nat) (e : App.Ev) (h : EvInPacket tag pkoff e) (o l : Nat)
    (hr : evRange e = some (o, l)) : pkoff + 4 ≤ o ∧ o + l ≤ pkoff + 188 := by
  cases e with
  | esCont t off len =>
    simp only [evRange, Option.some.injEq, Prod.mk.injEq] at hr
    simp only [EvInPacket] at h
    omega
  | esBegin t bi => exact h.2 o l hr
  | esStart _ => cases hr
  | esEnd _ => cases hr
  | esCcErr _ => cases hr
  | construct _ _ => cases hr
  | scriptIns _ _ => cases hr
  | scriptRem _ => cases hr
  | pkt _ _ => cases hr

/-- **C19 (a).** For every packet `pk` of `push(buf)` consumed by a `.pes` handler: every event
appended to the trace has the shape above, and every slice `(o, l)` it exposes (`evRange`) is a
sub-slice of the buffer the caller passed to `push` — `base ≤ o`, `o + l ≤ base + buf.length` —
with the same bytes whether read from the packet or from the caller's buffer. -/
theorem es_payload_in_buffer (buf : Bytes) (base : Nat) (pks : List Pk)
    (hf : frame buf base = .ok pks) (pk : Pk) (hpk : pk ∈ pks)
    (tag : Nat) (f : PesFilter.F) (c : App.Ctx) (h' : App.Handler) (c' : App.Ctx)
    (chg : List (Change App.Handler))
    (h : App.consume (.pes tag f) c pk = .ok (h', c', chg)) :
    ∃ out, c'.trace = out ++ c.trace ∧ ∀ e ∈ out, EvInPacket tag pk.off e ∧
      ∀ o l, evRange e = some (o, l) →
        base ≤ pk.off ∧ pk.off + 188 ≤ base + buf.length
        ∧ pk.off + 4 ≤ o ∧ o + l ≤ pk.off + 188
        ∧ base ≤ o ∧ o + l ≤ base + buf.length
        ∧ (pk.bytes.drop (o - pk.off)).take l = (buf.drop (o - base)).take l := by
  obtain ⟨h1, h2, _, h4, h5, _⟩ := frame_pk_props buf base pks hf pk hpk
  obtain ⟨out, e1, e2, _⟩ := es_payload_in_packet tag f c pk h' c' chg h5 h
  refine ⟨out, e1, fun e he => ⟨e2 e he, ?_⟩⟩
  intro o l hr
  obtain ⟨a1, a2⟩ := evRange_in_packet tag pk.off e (e2 e he) o l hr
  refine ⟨h1, h2, a1, a2, by omega, by omega, ?_⟩
  rw [h4, window_of_window buf (pk.off - base) (o - pk.off) l (by omega)]
  congr 2
  omega

/-! ## 2. single-packet sections are delivered in place -/

/-- **C19 (b).** For the whole-section chains (`CfgOk`: `Psi.rawSection`, `Psi.rawCompact`,
`Psi.table`), every 188-byte packet `p`, every state satisfying the C03 invariant: each delivery
`d` of `Psi.consume` is either
* produced by the section START in this packet (`StartedHere`: unit start, the start passes the
  processor's checks, and `3 + section_length ≤` bytes present after the `pointer_field` bytes);
  then `d.inplace = some off` with `off = payload offset + 1 + pointer_field`, and
  `d.bytes = (p.drop off).take d.bytes.length`, `off + d.bytes.length ≤ 188`: the delivered
  section IS a sub-slice of the packet, not a copy; or
* completed by continuation bytes of a section being reassembled (`CompletedBy`: the buffer
  `s.buf` followed by the `n` owed bytes); then `d.inplace = none` (delivered from `St.buf`). -/
theorem single_packet_section_in_place (cfg : Psi.Cfg) (hc : CfgOk cfg) (s : Psi.St)
    (hs : PsiInv (kindOf cfg) s) (p : Bytes) (hp : p.length = 188) (s' : Psi.St)
    (ds : List Psi.Delivery) (h : Psi.consume cfg s p = .ok (s', ds)) :
    ∀ d ∈ ds, ∃ q, plOf p = some q ∧
      ((q.us = true ∧ StartedHere cfg q.bytes q.off d
          ∧ d.inplace = some (q.off + 1 + byteD q.bytes 0)
          ∧ d.bytes = (p.drop (q.off + 1 + byteD q.bytes 0)).take d.bytes.length
          ∧ q.off + 1 + byteD q.bytes 0 + d.bytes.length ≤ 188
          ∧ d.bytes.length = 3 + hdrLen d.bytes)
       ∨ (CompletedBy s (contBytes q.us q.bytes) d ∧ d.inplace = none)) := by
  rw [Lemmas.C03.consume_eq_plOf cfg s p hp] at h
  cases hq : plOf p with
  | none =>
    rw [hq] at h
    have := R.ok_inj h
    simp only [Prod.mk.injEq] at this
    rw [← this.2]
    intro d hd; cases hd
  | some q =>
    rw [hq] at h
    have hsz := Lemmas.C03.plOf_size p hp q hq
    change Lemmas.C03.consumePayload cfg s q.us q.bytes q.off = _ at h
    rw [Lemmas.C03.consumePayload_eq cfg hc s q.us q.bytes q.off hsz.1 hs] at h
    have := R.ok_inj h
    have e : ds = (Lemmas.C03.consumeSpec cfg s q.us q.bytes q.off).2 := by rw [this]
    intro d hd
    rw [e] at hd
    refine ⟨q, rfl, ?_⟩
    rcases consumeSpec_origin cfg s q.us q.bytes q.off d hd with ⟨hus, hst⟩ | hcb
    · obtain ⟨a1, a2, a3, a4⟩ := startedHere_window cfg p hp q hq d hst
      exact Or.inl ⟨hus, hst, a1, a2, a3, a4⟩
    · have ⟨n, _, _, hd'⟩ := hcb
      exact Or.inr ⟨hcb, by rw [hd']⟩

/-- `inplace = some _` exactly for deliveries started (and completed) in this packet -/
theorem inplace_iff_started_here (cfg : Psi.Cfg) (hc : CfgOk cfg) (s : Psi.St)
    (hs : PsiInv (kindOf cfg) s) (p : Bytes) (hp : p.length = 188) (s' : Psi.St)
    (ds : List Psi.Delivery) (h : Psi.consume cfg s p = .ok (s', ds)) (d : Psi.Delivery) (hd : d ∈ ds) :
    d.inplace.isSome = true ↔ ∃ q, plOf p = some q ∧ q.us = true ∧ StartedHere cfg q.bytes q.off d := by
  obtain ⟨q, hq, hcase⟩ := single_packet_section_in_place cfg hc s hs p hp s' ds h d hd
  constructor
  · intro hi
    rcases hcase with ⟨hus, hst, _⟩ | ⟨_, hn⟩
    · exact ⟨q, hq, hus, hst⟩
    · rw [hn] at hi; cases hi
  · rintro ⟨q', _, _, _, _, hd'⟩
    rw [hd']; rfl

/-- `inplace = none` exactly for deliveries completed by a continuation (multi-packet sections:
under the C03 invariant the buffered part is at least the fixed header, so not empty) -/
theorem buffered_iff_completed (cfg : Psi.Cfg) (hc : CfgOk cfg) (s : Psi.St)
    (hs : PsiInv (kindOf cfg) s) (p : Bytes) (hp : p.length = 188) (s' : Psi.St)
    (ds : List Psi.Delivery) (h : Psi.consume cfg s p = .ok (s', ds)) (d : Psi.Delivery) (hd : d ∈ ds) :
    d.inplace = none ↔
      ∃ q, plOf p = some q ∧ CompletedBy s (contBytes q.us q.bytes) d ∧ 3 ≤ s.buf.length := by
  obtain ⟨q, hq, hcase⟩ := single_packet_section_in_place cfg hc s hs p hp s' ds h d hd
  constructor
  · intro hi
    rcases hcase with ⟨_, _, hsome, _⟩ | ⟨hcb, _⟩
    · rw [hsome] at hi; cases hi
    · have ⟨n, hn, _⟩ := hcb
      have := (hs n hn).2.1
      have := Lemmas.C03.minHeader_ge (kindOf cfg)
      exact ⟨q, hq, hcb, by omega⟩
  · rintro ⟨q', _, ⟨n, _, _, hd'⟩, _⟩
    rw [hd']

/-- the three chains of the crate satisfy `CfgOk` and their kinds are as expected, so
`single_packet_section_in_place` applies to each -/
theorem chains_cfgOk :
    (CfgOk Psi.rawSection ∧ kindOf Psi.rawSection = .syntax)
    ∧ (CfgOk Psi.rawCompact ∧ kindOf Psi.rawCompact = .compact)
    ∧ (CfgOk Psi.table ∧ kindOf Psi.table = .syntax) :=
  ⟨⟨cfgOk_cfgOf .syntax, rfl⟩, ⟨cfgOk_cfgOf .compact, rfl⟩, ⟨cfgOk_table, rfl⟩⟩

/-- Converse: a unit-start packet whose section start passes the processor's checks (`startOk`)
and has all `3 + section_length` bytes present IS delivered in place, as the window of the packet
at `payload offset + 1 + pointer_field` — unless the dedup layer (only in `Psi.table`) recognises
the current version. -/
theorem section_fitting_first_packet_delivered_in_place (cfg : Psi.Cfg) (hc : CfgOk cfg) (s : Psi.St)
    (hs : PsiInv (kindOf cfg) s) (p : Bytes) (hp : p.length = 188) (q : Lemmas.C03.Pl)
    (hq : plOf p = some q) (hus : q.us = true)
    (hok : startOk cfg ((q.bytes.drop 1).drop (byteD q.bytes 0)) = true)
    (hfit : 3 + hdrLen ((q.bytes.drop 1).drop (byteD q.bytes 0))
      ≤ ((q.bytes.drop 1).drop (byteD q.bytes 0)).length)
    (hdd : cfg.dedup = true →
      s.lastVersion ≠ some (versionOf ((q.bytes.drop 1).drop (byteD q.bytes 0)))) :
    ∃ s' ds d, Psi.consume cfg s p = .ok (s', ds) ∧ d ∈ ds
      ∧ d.inplace = some (q.off + 1 + byteD q.bytes 0)
      ∧ d.bytes = (p.drop (q.off + 1 + byteD q.bytes 0)).take (3 + hdrLen (p.drop (q.off + 1 + byteD q.bytes 0)))
      ∧ d.bytes.length = 3 + hdrLen (p.drop (q.off + 1 + byteD q.bytes 0)) := by
  have hsz := Lemmas.C03.plOf_size p hp q hq
  have hmem := consumeSpec_started_delivered cfg s q.bytes q.off hok hfit hdd
  have hb := plOf_bytes p hp q hq
  have hns : (q.bytes.drop 1).drop (byteD q.bytes 0) = p.drop (q.off + 1 + byteD q.bytes 0) := by
    rw [hb, List.drop_drop, List.drop_drop, Nat.add_assoc]
  refine ⟨(Lemmas.C03.consumeSpec cfg s true q.bytes q.off).1,
    (Lemmas.C03.consumeSpec cfg s true q.bytes q.off).2, _, ?_, hmem, rfl, ?_, ?_⟩
  · rw [Lemmas.C03.consume_eq_plOf cfg s p hp, hq]
    show Lemmas.C03.consumePayload cfg s q.us q.bytes q.off = _
    rw [Lemmas.C03.consumePayload_eq cfg hc s q.us q.bytes q.off hsz.1 hs, hus]
  · show List.take _ _ = _
    rw [hns]
  · show (List.take _ _).length = _
    rw [hns] at hfit ⊢
    rw [List.length_take]
    omega

/-- Instantiating C03 `section_reassembled`: for a well-formed section `S` in a well-formed
packetisation `m`, `S` is delivered exactly once, and in place iff it fits the first packet
(`m.k = S.length`); otherwise (`m.k < S.length`, multi-packet) it comes from the buffer. -/
theorem wellformed_in_place_iff_fits_first (kind : Kind) (S : Bytes) (hS : WellFormedSection kind S)
    (m : Mux) (hm : WellFormedMux kind S m) (st : Psi.St) (hst : PsiInv kind st)
    (off : Nat) (rest : List Lemmas.C03.Pl) (hus : ∀ q ∈ rest, q.us = false)
    (hrest : rest.map (·.bytes) = m.rest) :
    ∃ sfin d,
      runPl (cfgOf kind) st (⟨true, m.first S, off⟩ :: rest)
        = .ok (sfin, (preSpec (cfgOf kind) st m.pre).2 ++ [d])
      ∧ d.bytes = S
      ∧ (d.inplace = some (off + 1 + m.pre.length) ↔ m.k = S.length)
      ∧ (d.inplace = none ↔ m.k < S.length) := by
  obtain ⟨sfin, h1, _⟩ := Props.C03.section_reassembled kind S hS m hm st hst off rest hus hrest
  have hk : m.k ≤ S.length := hm.1
  refine ⟨sfin, _, h1, rfl, ?_, ?_⟩
  · by_cases e : m.k = S.length
    · simp [e]
    · simp [e]
  · by_cases e : m.k = S.length
    · simp [e]
    · simp only [e, if_false, true_iff]; omega

/-! ## 3. retained state is bounded for arbitrary hostile input -/

/-- the invariant, spelled out: at most 8192 table slots, and every PAT/PMT handler's reassembly
state satisfies the C03 buffer invariant with `buf.length ≤ 1024` -/
theorem bounded_iff (t : Tab App.Handler) :
    Bounded t ↔ t.length ≤ 8192 ∧ ∀ p h, t.get p = some h →
      (∀ s reg, h = .pat s reg → PsiInv .syntax s ∧ s.buf.length ≤ 1024) ∧
      (∀ pid prog s reg, h = .pmt pid prog s reg → PsiInv .syntax s ∧ s.buf.length ≤ 1024) := by
  unfold Bounded HOk
  constructor
  · rintro ⟨h1, h2⟩
    refine ⟨h1, fun p h hg => ⟨?_, ?_⟩⟩
    · intro s reg e; subst e; exact h2 p _ hg s rfl
    · intro pid prog s reg e; subst e; exact h2 p _ hg s rfl
  · rintro ⟨h1, h2⟩
    refine ⟨h1, fun p h hg s hs => ?_⟩
    cases h with
    | pat s0 reg => injection hs with hs; subst hs; exact (h2 p _ hg).1 _ _ rfl
    | pmt a b s0 reg => injection hs with hs; subst hs; exact (h2 p _ hg).2 _ _ _ _ rfl
    | pes _ _ => cases hs
    | recorder _ => cases hs

/-- the script hypothesis, spelled out: recorder scripts (harness input, not stream bytes) only
name PIDs below 8192 -/
theorem scriptOk_iff (cfg : App.Cfg) :
    ScriptOk cfg ↔ ∀ k ops, (k, ops) ∈ cfg.script → ∀ op ∈ ops,
      (match op with | .ins p => p | .rem p => p) < 8192 := by
  unfold ScriptOk
  constructor
  · intro h k ops hm op ho
    have := h k ops hm op ho
    cases op <;> exact this
  · intro h k ops hm op ho
    have := h k ops hm op ho
    cases op <;> exact this

theorem bounded_init (cfg : App.Cfg) (h : ScriptOk cfg) : Bounded (App.init cfg).1 :=
  (init_inv cfg h).1

/-- `Demux.push App.sem` preserves the invariant for EVERY byte string `buf` -/
theorem bounded_push (t : Tab App.Handler) (c : App.Ctx) (buf : Bytes) (base : Nat)
    (t' : Tab App.Handler) (c' : App.Ctx) (hb : Bounded t) (hs : ScriptOk c.cfg)
    (h : push App.sem (t, c) buf base = .ok (t', c')) : Bounded t' ∧ ScriptOk c'.cfg :=
  push_inv (t, c) buf base (t', c') ⟨hb, hs⟩ h

/-- one dispatcher step on a framed packet (188 bytes, 13-bit PID) preserves the invariant -/
theorem bounded_step (t : Tab App.Handler) (c : App.Ctx) (pk : Pk) (t' : Tab App.Handler) (c' : App.Ctx)
    (hb : Bounded t) (hs : ScriptOk c.cfg) (hlen : pk.bytes.length = 188) (hpid : pk.pid ≤ 0x1fff)
    (h : specStep App.sem (t, c) pk = .ok (t', c')) : Bounded t' ∧ ScriptOk c'.cfg :=
  specStep_inv (t, c) pk (t', c') ⟨hb, hs⟩ ⟨hlen, by omega⟩ h

/-- the measure never exceeds the constant under the invariant -/
theorem retained_le_const (t : Tab App.Handler) (hb : Bounded t) : retained t ≤ RETAINED_MAX :=
  retained_le t hb

theorem retained_max_value : RETAINED_MAX = 8192 * (1 + 1024 + 2 * 1024) ∧ RETAINED_MAX = 25174016 :=
  ⟨rfl, by decide⟩

/-- **C19 (c).** For every configuration whose recorder scripts name only 13-bit PIDs and EVERY
sequence of pushed byte strings (any number, any lengths, any contents): if the run completes,
the filter table has at most 8192 slots, every reassembly buffer holds at most 1024 bytes, and the
retained-memory measure (slots + buffer bytes + 2 KiB of fixed bitsets per PAT/PMT handler; the
changeset is empty between packets) is at most the constant `RETAINED_MAX`, independent of the
input. -/
theorem retained_bounded (cfg : App.Cfg) (pushes : List Bytes) (t : Tab App.Handler) (c : App.Ctx)
    (hs : ScriptOk cfg) (h : App.runApp cfg pushes = .ok (t, c)) :
    Bounded t ∧ retained t ≤ RETAINED_MAX := by
  have hi := pushAll_inv pushes (App.init cfg) 0 (t, c) (init_inv cfg hs) h
  exact ⟨hi.1, retained_le t hi.1⟩

/-- … and the same after every prefix of the pushes (the bound holds BETWEEN pushes) -/
theorem retained_bounded_between_pushes (cfg : App.Cfg) (pushes : List Bytes)
    (t : Tab App.Handler) (c : App.Ctx) (hs : ScriptOk cfg)
    (h : App.runApp cfg pushes = .ok (t, c)) (buf : Bytes) (base : Nat) (t' : Tab App.Handler)
    (c' : App.Ctx) (h' : push App.sem (t, c) buf base = .ok (t', c')) :
    retained t ≤ RETAINED_MAX ∧ retained t' ≤ RETAINED_MAX := by
  have hi := pushAll_inv pushes (App.init cfg) 0 (t, c) (init_inv cfg hs) h
  have hi' := push_inv (t, c) buf base (t', c') hi h'
  exact ⟨retained_le t hi.1, retained_le t' hi'.1⟩

/-! ## 4. steady state performs no allocation-relevant operation -/

/-- a repetition packet leaves `buf`, `remaining`, `lastVersion` of a quiescent PAT/PMT filter
unchanged, yields no delivery, and does not panic -/
theorem quiescent_step (s : Psi.St) (v : Nat) (p : Bytes) (hp : p.length = 188)
    (hq : s.lastVersion = some v ∧ s.remaining = none) (hr : RepeatPkt v p) :
    ∃ s', Psi.consume Psi.table s p = .ok (s', []) ∧ s'.buf = s.buf ∧ s'.remaining = s.remaining
      ∧ s'.lastVersion = s.lastVersion :=
  Lemmas.C19.quiescent_step s v p hp hq hr

/-- the same through the pure C03 specification function -/
theorem quiescent_step_spec (s : Psi.St) (v : Nat) (q : Lemmas.C03.Pl)
    (hq : s.lastVersion = some v ∧ s.remaining = none) (hr : RepeatPayload v q) :
    (Lemmas.C03.consumeSpec Psi.table s q.us q.bytes q.off).2 = []
      ∧ (Lemmas.C03.consumeSpec Psi.table s q.us q.bytes q.off).1.buf = s.buf
      ∧ (Lemmas.C03.consumeSpec Psi.table s q.us q.bytes q.off).1.remaining = s.remaining
      ∧ (Lemmas.C03.consumeSpec Psi.table s q.us q.bytes q.off).1.lastVersion = s.lastVersion :=
  quiescent_spec s v q hq hr

/-- `stepAllocFree`, spelled out -/
theorem stepAllocFree_iff (tc : Tab App.Handler × App.Ctx) (pk : Pk) (tc' : Tab App.Handler × App.Ctx) :
    stepAllocFree tc pk tc' ↔
      (tc'.1.length = tc.1.length ∧ tc'.2.nextTag = tc.2.nextTag
        ∧ (∀ p, psiBuf tc'.1 p = psiBuf tc.1 p) ∧ stepChg tc pk = .ok []) := Iff.rfl

/-- a repetition packet for table version `v`, spelled out: no payload; or a payload without unit
start; or a unit-start payload with `pointer_field + 1 + 8 ≤` payload bytes whose section start
(after the `pointer_field` bytes) has the syntax bit set, `section_length ≤ 1021` and
`version_number = v` -/
theorem repeatPkt_iff (v : Nat) (p : Bytes) :
    RepeatPkt v p ↔ ∀ q, plOf p = some q →
      (q.us = false ∨
        (byteD q.bytes 0 + 9 ≤ q.bytes.length ∧
          Lemmas.C03.hdrSyn ((q.bytes.drop 1).drop (byteD q.bytes 0)) = true ∧
          hdrLen ((q.bytes.drop 1).drop (byteD q.bytes 0)) ≤ 1021 ∧
          versionOf ((q.bytes.drop 1).drop (byteD q.bytes 0)) = v)) := Iff.rfl

/-- steady state for one packet, spelled out -/
theorem steadyPk_iff (t : Tab App.Handler) (pk : Pk) :
    SteadyPk t pk ↔
      (pk.bytes.length = 188 ∧ t.contains pk.pid = true ∧
        ∀ h s, t.get pk.pid = some h → psiOf h = some s →
          ∃ v, (s.lastVersion = some v ∧ s.remaining = none) ∧ RepeatPkt v pk.bytes) := Iff.rfl

/-- every steady-state dispatcher step is allocation-free, and keeps every slot's kind, buffer,
`Buffering` state and table version (ES handlers stay, tables stay) -/
theorem steady_step_alloc_free (t : Tab App.Handler) (c : App.Ctx) (pk : Pk)
    (tc' : Tab App.Handler × App.Ctx) (hsc : c.cfg.script = []) (hst : SteadyPk t pk)
    (h : specStep App.sem (t, c) pk = .ok tc') :
    stepAllocFree (t, c) pk tc' ∧ (∀ p, slotKey tc'.1 p = slotKey t p) ∧ tc'.2.cfg = c.cfg :=
  steady_step t c pk tc' hsc hst h

/-- steady state is a property of the slots' keys only, hence preserved by steady steps -/
theorem steady_preserved (t t' : Tab App.Handler) (pks : List Pk)
    (h : ∀ p, slotKey t' p = slotKey t p) (hs : Steady t pks) : Steady t' pks :=
  fun pk hpk => steadyPk_congr t t' pk h (hs pk hpk)

/-- **C19 (d).** Steady state (every packet's PID has a handler; every packet routed to a PAT/PMT
handler is a repetition packet for a quiescent handler; no recorder script): a whole `push`
performs no allocation-relevant operation — every step is `stepAllocFree` (no construct, no table
growth, no buffer write, no queued change) — and the table is again in the same steady state. -/
theorem steady_state_no_alloc (t : Tab App.Handler) (c : App.Ctx) (buf : Bytes) (base : Nat)
    (pks : List Pk) (tcf : Tab App.Handler × App.Ctx) (hsc : c.cfg.script = [])
    (hf : frame buf base = .ok pks) (hst : Steady t pks)
    (h : push App.sem (t, c) buf base = .ok tcf) :
    runAllocFree (t, c) pks ∧ tcf.1.length = t.length ∧ tcf.2.nextTag = c.nextTag
      ∧ (∀ p, psiBuf tcf.1 p = psiBuf t p) ∧ (∀ p, slotKey tcf.1 p = slotKey t p)
      ∧ Steady tcf.1 pks ∧ tcf.2.cfg.script = [] := by
  unfold push at h
  rw [hf] at h
  have h : pushModel App.sem (t, c) pks = .ok tcf := h
  rw [C06.push_refines_spec] at h
  obtain ⟨a1, a2, a3, a4, a5⟩ := steady_run pks t c tcf hsc hst h
  refine ⟨a1, a3, a4, ?_, a2, steady_preserved t tcf.1 pks a2 hst, by rw [a5]; exact hsc⟩
  intro p; unfold psiBuf; rw [a2 p]

/-- … and so do any number of successive pushes whose packets are all steady for `t` -/
theorem steady_state_all_pushes : ∀ (bufs : List Bytes) (t : Tab App.Handler) (c : App.Ctx)
    (base : Nat) (tcf : Tab App.Handler × App.Ctx), c.cfg.script = [] →
    (∀ b ∈ bufs, ∀ bs pks, frame b bs = .ok pks → Steady t pks) →
    pushAll App.sem (t, c) bufs base = .ok tcf →
    tcf.1.length = t.length ∧ tcf.2.nextTag = c.nextTag ∧ (∀ p, slotKey tcf.1 p = slotKey t p)
      ∧ (∀ p, psiBuf tcf.1 p = psiBuf t p) := by
  intro bufs
  induction bufs with
  | nil =>
    intro t c base tcf _ _ h
    have := R.ok_inj h
    subst this
    exact ⟨rfl, rfl, fun _ => rfl, fun _ => rfl⟩
  | cons b bs ih =>
    intro t c base tcf hsc hst h
    unfold pushAll at h
    obtain ⟨tc1, h1, h⟩ := R.bind_eq_ok h
    obtain ⟨pks, hf⟩ : ∃ pks, frame b base = .ok pks := ⟨_, frame_eq_pure b base⟩
    obtain ⟨_, a2, a3, _, a5, _, a7⟩ :=
      steady_state_no_alloc t c b base pks tc1 hsc hf (hst b List.mem_cons_self _ _ hf) h1
    obtain ⟨t1, c1⟩ := tc1
    have hst1 : ∀ b' ∈ bs, ∀ bs' pks', frame b' bs' = .ok pks' → Steady t1 pks' :=
      fun b' hb' bs' pks' hf' =>
        steady_preserved t t1 pks' a5 (hst b' (List.mem_cons_of_mem _ hb') bs' pks' hf')
    obtain ⟨b1, b2, b3, _⟩ := ih t1 c1 _ tcf a7 hst1 h
    refine ⟨by rw [b1]; exact a2, by rw [b2]; exact a3, fun p => by rw [b3 p]; exact a5 p, ?_⟩
    intro p; unfold psiBuf; rw [b3 p, a5 p]

/-! ## non-vacuity -/

example : ScriptOk {} := by intro k ops h; cases h

/-- the invariant holds initially (default configuration) -/
example : Bounded (App.init {}).1 := bounded_init {} (by intro k ops h; cases h)

example : retained (App.init {}).1 = 1 + 2 * 1024 := by decide

/-- the concrete step exists, does not panic, and is allocation-free -/
example : ∃ tc', specStep App.sem (steadyTab, { cfg := {} }) patPk = .ok tc'
    ∧ stepAllocFree (steadyTab, { cfg := {} }) patPk tc' := by
  obtain ⟨s', hs'⟩ := pat_quiescent_specStep steadyTab { cfg := {} } patPk { lastVersion := some 0 }
    [0x1e0] 0 rfl rfl patPkt_len ⟨rfl, rfl⟩ patPkt_repeat
  exact ⟨_, hs', (steady_step_alloc_free steadyTab _ patPk _ rfl steadyTab_steady hs').1⟩

/-- the same packet on a FRESH PAT filter is delivered in place: 16 bytes at packet offset 5 -/
example : ∃ s' ds d, Psi.consume Psi.table {} patPkt = .ok (s', ds) ∧ d ∈ ds
    ∧ d.inplace = some 5 ∧ d.bytes = (patPkt.drop 5).take 16 ∧ d.bytes.length = 16 := by
  obtain ⟨s', ds, d, h1, h2, h3, h4, h5⟩ :=
    section_fitting_first_packet_delivered_in_place Psi.table cfgOk_table {}
      (Lemmas.C03.psiInv_of_none _ _ rfl) patPkt patPkt_len _ patPkt_plOf rfl
      (by decide +kernel) (by decide +kernel) (by intro _; decide)
  have e : hdrLen (patPkt.drop 5) = 13 := by decide +kernel
  have e0 : byteD (patPkt.drop 4) 0 = 0 := by decide +kernel
  simp only [e0, Nat.add_zero] at h3 h4 h5
  rw [e] at h4 h5
  exact ⟨s', ds, d, h1, h2, h3, h4, h5⟩

set_option maxRecDepth 20000 in
/-- a PES packet (unit start, PES header `00 00 01 e0 00 00`, parsed contents `80 00 00`) at global
offset 376: `begin_packet` exposes the payload range (389, 175) — inside the packet, ending at
its last byte -/
example : ∃ h' c' bi, App.consume (.pes 7 {}) { cfg := {} } pesPk = .ok (h', c', [])
    ∧ c'.trace = [.esBegin 7 bi, .esStart 7] ∧ bi.pl = some (389, 175) :=
  ⟨_, _, _, rfl, rfl, rfl⟩

example : EvInPacket 7 376 (.esCont 7 380 184) := ⟨rfl, by omega, by omega, by omega⟩

set_option maxRecDepth 20000 in
/-- The script hypothesis of `retained_bounded` is necessary (it concerns test-harness input, not
stream bytes): a recorder scripted to insert a handler for the non-PID 9000 grows the table to
9001 slots. -/
theorem script_hypothesis_needed :
    ∃ cfg pushes t c, App.runApp cfg pushes = .ok (t, c) ∧ ¬ Bounded t := by
  refine ⟨{ script := [(0, [.ins 9000])] }, [pid5Pkt], _, _, rfl, ?_⟩
  intro h
  have : (9001 : Nat) ≤ 8192 := h.1
  omega

end Ts.Props.C19
