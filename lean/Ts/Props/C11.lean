import Ts.Lemmas.C10
import Ts.Lemmas.C10b
import Ts.Props.C06
import Ts.Lemmas.C11c
import Ts.Lemmas.C11d
/-!
# C11 — after a damaged PAT / PMT transmission the next intact one is applied … PARTIALLY

**Known finding F2** (`/verif/DESIGN.md` §8): `DedupSectionSyntaxPayloadParser` records
`last_version` when a section STARTS — before it is known whether the section will be complete and
whether its CRC verifies.  A damaged transmission of version `v` therefore blocks every later
intact transmission of the same version `v`.  The model mirrors the pinned behaviour, so C11 as
stated is FALSE of the code.  This file proves

* `start_records_version`: the mechanism, for every accepted start on every state;
* `damage_then_new_version_applied_partial` (+ `_pat`, `_pmt`): the part that HOLDS — after any
  history, an intact transmission whose version differs from the last STARTED version
  (`s.lastVersion`) is delivered exactly once, passes the CRC layer and reaches the table processor;
* `damage_same_version_blocked` (+ `damaged_start_then_same_version_blocked`): the part that FAILS,
  for every state and section; `C11_counterexample` (+ `_app`, `first_copy_corrupt_never_demuxed`)
  on real bytes;
* `C11_full` / `C11_full_false`: the full-strength statement and its refutation;
* `C11_characterisation` (+ `C11_deliveries_exact`, `C11_characterisation_requests_pat`): WITHIN
  `WellFormedMux` packetisations an intact transmission is delivered to the table processor IFF its
  version differs from the last STARTED one — relative to that hypothesis F2 is the only gap
  (`C11_gap_is_F2` is the contrapositive of the "if" direction);
* `short_first_share_never_applied` (+ `_reset`, `_ignored`, `_section`,
  `short_first_share_counterexample`): **known finding F13** (`/verif/known_findings.json`, DESIGN §8)
  — a SECOND gap, OUTSIDE `WellFormedMux`: an intact transmission whose starting packet carries fewer
  than 8 bytes of the section (a legal packetisation) is never applied, at any version (the library's
  documented `TODO: implement buffering`; C03 states "the packet carries at least the section's fixed
  header" as a hypothesis, C11's text does not); `straddle_rescues_F2` /
  `short_share_reset_then_applied`: its `< 3`-byte variant resets the filter and thereby un-blocks F2;
* `duplicate_start_blocks_section`, `duplicate_start_blocks_table`: F2 needs NO DAMAGE — a legal
  duplicate (same continuity counter) of the first packet of a multi-packet table makes the table
  never applied (reviewer case N5; scope observation DESIGN 8.1b: duplicates are outside the
  multiplex specs);
* `damage_then_new_version_requests_pat` / `_pmt` / `_runApp`, `damage_same_version_no_requests`:
  the partial theorem and F2 through the DISPATCHER (`pushModel App.sem`, changes applied between
  packets), in terms of `Ev.construct` events and `Tab.get`;
* `lastApplied_is_crc_gate`, `crc_gate_pat_applied`, `crc_gate_not_application`: what "last applied"
  in `C11_full` means precisely.
-/
namespace Ts.Props.C11
open Ts Ts.Psi Ts.Spec Ts.Spec.SectionMux Ts.Lemmas.C03 Ts.Lemmas.C10 Ts.App Ts.Demux
open Ts.Tables Ts.Spec.TableSpec Ts.Spec.Routing Ts.Lemmas.C11c

/-! ### the mechanism: the version is recorded at section start -/

/-- what "accepted start" means: syntax indicator set, at least the 8 fixed header bytes present
in the starting packet, `section_length ≤ 1021` — nothing about completeness or CRC -/
theorem accepted_start_iff (D : Bytes) :
    startOk Psi.table D = true ↔
      syntaxBit D = 1 ∧ 8 ≤ D.length ∧ sectionLength D ≤ 1021 := by
  rw [startOk_iff, syntaxBit_iff, sectionLength_eq]
  exact Iff.rfl

/-- **F2, mechanism.**  Every accepted section start, on ANY state `s` whatsoever, leaves
`lastVersion = some (version_number of the starting section)` — whether or not the section is
complete in this packet (`ds` may be empty and `s'.remaining` pending), whatever its CRC. -/
theorem start_records_version (s : St) (D : Bytes) (off : Nat) (hok : startOk Psi.table D = true) :
    ∃ s' ds, Psi.headerNew (D.take 3) = .ok (hdrOf D)
      ∧ Psi.procStart Psi.table s (hdrOf D) D off = .ok (s', ds)
      ∧ s'.lastVersion = some (versionOf D) := by
  have h8 : 8 ≤ D.length := ((startOk_iff Psi.table D).1 hok).2.1
  refine ⟨(startSpec Psi.table s D off).1, (startSpec Psi.table s D off).2,
    headerNew_eq D (by omega), procStart_eq Psi.table cfgOk_table s D off, ?_⟩
  rw [startSpec_records s D off hok, versionOf_eq]

/-- the same through `SectionPacketConsumer::consume`'s payload path: a unit-start payload
`pointer_field :: pre ++ D` -/
theorem start_records_version_payload (s : St) (hs : PsiInv .syntax s) (pre D : Bytes) (off : Nat)
    (hp : pre.length < 256) (hok : startOk Psi.table D = true) :
    ∃ s' ds, consumePayload Psi.table s true (UInt8.ofNat pre.length :: (pre ++ D)) off = .ok (s', ds)
      ∧ s'.lastVersion = some (versionOf D) ∧ PsiInv .syntax s' :=
  start_payload_records s hs pre D off hp hok

/-- continuation payloads (complete, short, missing, surplus — any) never change the recorded
version: it stays until the next accepted start or a `reset` -/
theorem continuation_keeps_version (conts : List Pl) (s : St) (hs : PsiInv .syntax s)
    (hus : ∀ q ∈ conts, q.us = false) (hne : ∀ q ∈ conts, 1 ≤ q.bytes.length) :
    ∃ s' ds, runPl Psi.table s conts = .ok (s', ds) ∧ s'.lastVersion = s.lastVersion
      ∧ PsiInv .syntax s' :=
  runPl_conts_lastVersion conts s hs hus hne

/-! ### the part of C11 that holds -/

/-- **C11 (partial).**  For ANY state `s` satisfying the buffer invariant (i.e. after any damaged
history: a stale `Buffering`, `ignoreRest` / `dedupIgnore` set or not) and any intact well-formed
transmission of a section `S` of at least 12 bytes with a valid CRC whose version differs from the
last STARTED version `s.lastVersion`: the model does not panic, `S` is delivered exactly once —
after at most one delivery completed by the pointer bytes —, passes the CRC layer (normal and
`cfg(fuzzing)` build), and the filter ends quiescent at `versionOf S`. -/
theorem damage_then_new_version_applied_partial (S : Bytes) (hS : WellFormedSection .syntax S)
    (h12 : 12 ≤ S.length) (hcrc : Ts.CrcSpec.crc S = 0)
    (m : Mux) (hm : WellFormedMux .syntax S m)
    (s : St) (hs : PsiInv .syntax s) (hv : s.lastVersion ≠ some (versionOf S))
    (off : Nat) (rest : List Pl) (hus : ∀ q ∈ rest, q.us = false)
    (hrest : rest.map (·.bytes) = m.rest) :
    ∃ sfin,
      runPl Psi.table s (⟨true, m.first S, off⟩ :: rest)
        = .ok (sfin, (preSpec Psi.table s m.pre).2
                      ++ [⟨S, if m.k = S.length then some (off + 1 + m.pre.length) else none⟩])
      ∧ (preSpec Psi.table s m.pre).2.length ≤ 1
      ∧ (∀ b, Psi.crcPass b S = .ok true)
      ∧ Quiescent (versionOf S) sfin := by
  obtain ⟨sfin, h1, h2, _, _⟩ := table_applied S hS (by omega) m hm s hs hv off rest hus hrest
  exact ⟨sfin, h1, preSpec_at_most_one_table s hs m.pre,
    fun b => crcPass_valid b S hS h12 hcrc, h2⟩

/-- … lifted to the PAT handler: over the packets `pks` of the transmission (188 bytes each, payload
views = the packetisation), the successive `App.consume` calls amount to: the table processor run
over what the pointer bytes completed, then `patSection` invoked on exactly `S` -/
theorem damage_then_new_version_applied_partial_pat (S : Bytes) (hS : WellFormedSection .syntax S)
    (h12 : 12 ≤ S.length) (hcrc : Ts.CrcSpec.crc S = 0)
    (m : Mux) (hm : WellFormedMux .syntax S m)
    (s : St) (hs : PsiInv .syntax s) (hv : s.lastVersion ≠ some (versionOf S))
    (reg : List Nat) (c : Ctx) (pks : List Pk) (hlen : ∀ pk ∈ pks, pk.bytes.length = 188)
    (off : Nat) (rest : List Pl)
    (hview : (pks.map (·.bytes)).filterMap plOf = ⟨true, m.first S, off⟩ :: rest)
    (hus : ∀ q ∈ rest, q.us = false) (hrest : rest.map (·.bytes) = m.rest) :
    ∃ sfin, Quiescent (versionOf S) sfin ∧
      consumeAll (.pat s reg) c pks =
        (runDeliveries patSection c reg (preSpec Psi.table s m.pre).2 >>= fun r1 =>
          patSection r1.1 r1.2.1 S >>= fun r2 => R.ok (.pat sfin r2.2.1, r2.1, r1.2.2 ++ r2.2.2)) :=
  table_applied_consumeAll patSection (fun s reg => .pat s reg)
    (fun s s' reg c pk ds h => consume_pat_eq s s' reg c pk ds h)
    S hS h12 hcrc m hm s hs hv reg c pks hlen off rest hview hus hrest

/-- … and to the PMT handler -/
theorem damage_then_new_version_applied_partial_pmt (pid prog : Nat)
    (S : Bytes) (hS : WellFormedSection .syntax S)
    (h12 : 12 ≤ S.length) (hcrc : Ts.CrcSpec.crc S = 0)
    (m : Mux) (hm : WellFormedMux .syntax S m)
    (s : St) (hs : PsiInv .syntax s) (hv : s.lastVersion ≠ some (versionOf S))
    (reg : List Nat) (c : Ctx) (pks : List Pk) (hlen : ∀ pk ∈ pks, pk.bytes.length = 188)
    (off : Nat) (rest : List Pl)
    (hview : (pks.map (·.bytes)).filterMap plOf = ⟨true, m.first S, off⟩ :: rest)
    (hus : ∀ q ∈ rest, q.us = false) (hrest : rest.map (·.bytes) = m.rest) :
    ∃ sfin, Quiescent (versionOf S) sfin ∧
      consumeAll (.pmt pid prog s reg) c pks =
        (runDeliveries (fun c r d => pmtSection c pid r d) c reg (preSpec Psi.table s m.pre).2 >>= fun r1 =>
          pmtSection r1.1 pid r1.2.1 S >>= fun r2 =>
            R.ok (.pmt pid prog sfin r2.2.1, r2.1, r1.2.2 ++ r2.2.2)) :=
  table_applied_consumeAll (fun c r d => pmtSection c pid r d) (fun s reg => .pmt pid prog s reg)
    (fun s s' reg c pk ds h => consume_pmt_eq pid prog s s' reg c pk ds h)
    S hS h12 hcrc m hm s hs hv reg c pks hlen off rest hview hus hrest

/-- `consumeAll` is the sequence of `App.consume` calls, spelled out -/
theorem consumeAll_iff (h : Handler) (c : Ctx) (pk : Pk) (pks : List Pk) :
    consumeAll h c [] = .ok (h, c, []) ∧
    consumeAll h c (pk :: pks) =
      (App.consume h c pk >>= fun r1 => consumeAll r1.1 r1.2.1 pks >>= fun r2 =>
        R.ok (r2.1, r2.2.1, r1.2.2 ++ r2.2.2)) := by
  refine ⟨rfl, ?_⟩
  simp only [consumeAll]
  cases App.consume h c pk with
  | panic m => rfl
  | ok r1 =>
    simp only [R.ok_bind]
    cases consumeAll r1.1 r1.2.1 pks with
    | panic m => rfl
    | ok r2 => rfl

/-- single-packet case with `pointer_field = 0`: `App.consume` on the one packet IS the table
processor on `S` -/
theorem damage_then_new_version_applied_partial_pat_1 (S : Bytes) (hS : WellFormedSection .syntax S)
    (h12 : 12 ≤ S.length) (hcrc : Ts.CrcSpec.crc S = 0)
    (m : Mux) (hm : WellFormedMux .syntax S m) (hpre : m.pre = []) (hrest0 : m.rest = [])
    (s : St) (hs : PsiInv .syntax s) (hv : s.lastVersion ≠ some (versionOf S))
    (reg : List Nat) (c : Ctx) (pk : Pk) (hlen : pk.bytes.length = 188) (off : Nat)
    (hview : plOf pk.bytes = some ⟨true, m.first S, off⟩) :
    ∃ sfin, Quiescent (versionOf S) sfin ∧
      App.consume (.pat s reg) c pk =
        (patSection c reg S >>= fun r2 => R.ok (.pat sfin r2.2.1, r2.1, r2.2.2)) := by
  obtain ⟨sfin, hq, h⟩ := damage_then_new_version_applied_partial_pat S hS h12 hcrc m hm s hs hv reg c
    [pk] (by simpa using hlen) off [] (by simp [hview]) (by simp) (by simp [hrest0])
  refine ⟨sfin, hq, ?_⟩
  rw [hpre] at h
  simp only [consumeAll, preSpec, if_true, runDeliveries, R.ok_bind, List.nil_append] at h
  cases hc : App.consume (.pat s reg) c pk with
  | panic msg =>
    rw [hc] at h
    cases hp : patSection c reg S with
    | panic m2 => rw [hp] at h; exact h
    | ok r2 => rw [hp] at h; cases h
  | ok r =>
    obtain ⟨h1, c1, chg1⟩ := r
    rw [hc] at h
    simp only [R.ok_bind, R.pure_eq, List.append_nil] at h
    exact h

/-! ### the part of C11 that fails (F2) -/

/-- **F2, general.**  From EVERY state that remembers version `v` — in particular after a damaged
start of a version-`v` section, with its buffer abandoned half-way, completed with a bad CRC, or
cut short — an intact well-formed transmission of ANY section with the same `version_number`
never delivers that section: the only deliveries are what its pointer bytes complete of the OLD
buffer, and with `pointer_field = 0` there is NO delivery at all.  The version stays recorded, so
this repeats for every later copy. -/
theorem damage_same_version_blocked (S : Bytes) (hS : WellFormedSection .syntax S) (h8 : 8 ≤ S.length)
    (m : Mux) (hm : WellFormedMux .syntax S m)
    (s : St) (hs : PsiInv .syntax s) (hv : s.lastVersion = some (versionOf S))
    (off : Nat) (rest : List Pl) (hus : ∀ q ∈ rest, q.us = false)
    (hrest : rest.map (·.bytes) = m.rest) :
    ∃ sfin,
      runPl Psi.table s (⟨true, m.first S, off⟩ :: rest) = .ok (sfin, (preSpec Psi.table s m.pre).2)
      ∧ (m.pre = [] → runPl Psi.table s (⟨true, m.first S, off⟩ :: rest) = .ok (sfin, []))
      ∧ sfin.lastVersion = some (versionOf S) ∧ PsiInv .syntax sfin := by
  obtain ⟨sfin, h1, h2, _⟩ := table_blocked S hS h8 m hm s hs hv off rest hus hrest
  have hsizes := fun q hq => (mux_payloads_rep S hS h8 m hm off rest hus hrest q hq).2
  obtain ⟨s', ds', h', hi⟩ := runPl_total_inv _ s hs hsizes
  rw [h1] at h'
  cases h'
  refine ⟨sfin, h1, ?_, h2, hi⟩
  intro hpre
  rw [h1, hpre]; rfl

/-- **F2, the whole scenario.**  Any state `s0`; a unit-start payload whose section start `D` is
accepted (this is all a "damaged transmission of version v" needs: its continuation may be lost,
truncated or corrupt); ANY continuation payloads `conts` (none, some, wrong ones); then an intact
transmission of a section `S` with the same `version_number`, `pointer_field = 0`, valid or not.
Then the run over everything delivers exactly what the damaged part alone delivers: the intact
copy contributes NOTHING. -/
theorem damaged_start_then_same_version_blocked (s0 : St) (hs0 : PsiInv .syntax s0)
    (pre D : Bytes) (off0 : Nat) (hp : pre.length < 256) (hok : startOk Psi.table D = true)
    (conts : List Pl) (husc : ∀ q ∈ conts, q.us = false) (hnec : ∀ q ∈ conts, 1 ≤ q.bytes.length)
    (S : Bytes) (hS : WellFormedSection .syntax S) (h8 : 8 ≤ S.length)
    (hver : versionOf S = versionOf D)
    (m : Mux) (hm : WellFormedMux .syntax S m) (hpre : m.pre = [])
    (off : Nat) (rest : List Pl) (hus : ∀ q ∈ rest, q.us = false)
    (hrest : rest.map (·.bytes) = m.rest) :
    ∃ s1 dsDamaged sfin,
      runPl Psi.table s0 (⟨true, UInt8.ofNat pre.length :: (pre ++ D), off0⟩ :: conts) = .ok (s1, dsDamaged)
      ∧ s1.lastVersion = some (versionOf D)
      ∧ runPl Psi.table s1 (⟨true, m.first S, off⟩ :: rest) = .ok (sfin, [])
      ∧ runPl Psi.table s0 ((⟨true, UInt8.ofNat pre.length :: (pre ++ D), off0⟩ :: conts)
            ++ (⟨true, m.first S, off⟩ :: rest)) = .ok (sfin, dsDamaged)
      ∧ sfin.lastVersion = some (versionOf D) := by
  obtain ⟨sa, da, ha, hva, hia⟩ := start_payload_records s0 hs0 pre D off0 hp hok
  obtain ⟨s1, dc, hc, hvc, hic⟩ := runPl_conts_lastVersion conts sa hia husc hnec
  have hv1 : s1.lastVersion = some (versionOf S) := by rw [hvc, hva, hver]
  obtain ⟨sfin, _, hb, hvf, _⟩ := damage_same_version_blocked S hS h8 m hm s1 hic hv1 off rest hus hrest
  have hb' := hb hpre
  have hrun1 : runPl Psi.table s0 (⟨true, UInt8.ofNat pre.length :: (pre ++ D), off0⟩ :: conts)
      = .ok (s1, da ++ dc) := by
    simp only [runPl, ha, R.ok_bind, hc]; rfl
  refine ⟨s1, da ++ dc, sfin, hrun1, by rw [hvc, hva], hb', ?_, by rw [hvf, hver]⟩
  rw [runPl_append, hrun1]
  simp only [R.ok_bind, hb', List.append_nil]

/-- **C11 counter-example on real bytes** (model level, 188-byte packets on PID 0).
`patGood`: the 16-byte PAT of C04 (version 0, valid CRC); `patBad`: the same with the last CRC bit
inverted.  First packet: the damaged copy — it IS delivered by the reassembly chain and FAILS the
CRC layer, so nothing is applied.  Second packet: the intact copy — NOTHING is delivered.  (On a
fresh filter the intact copy is delivered and passes.) -/
theorem C11_counterexample :
    patBad = Ts.CrcSpec.flipBit patGood 127
    ∧ WellFormedSection .syntax patGood ∧ Ts.CrcSpec.crc patGood = 0
    ∧ Psi.consume Psi.table {} (pktOf patBad) = .ok ({ lastVersion := some 0 }, [⟨patBad, some 5⟩])
    ∧ Psi.crcPass false patBad = .ok false
    ∧ Psi.consume Psi.table { lastVersion := some 0 } (pktOf patGood)
        = .ok ({ lastVersion := some 0, dedupIgnore := true }, [])
    ∧ Psi.consume Psi.table { lastVersion := some 0, dedupIgnore := true } (pktOf patGood)
        = .ok ({ lastVersion := some 0, dedupIgnore := true }, [])
    ∧ Psi.consume Psi.table {} (pktOf patGood) = .ok ({ lastVersion := some 0 }, [⟨patGood, some 5⟩])
    ∧ Psi.crcPass false patGood = .ok true := by
  decide +kernel

/-- the same through the whole application (`Demultiplex::new` + `push`): corrupt first copy, then
two intact copies — the only handler request ever made is the initial `ByPid(0)`; with the intact
copy alone, or with a corrupt copy followed by an intact copy of a DIFFERENT version, the PMT
handler for program 1 is requested -/
theorem C11_counterexample_app :
    requests (runApp {} [pktOf patBad ++ pktOf patGood ++ pktOf patGood]) = [.byPid 0]
    ∧ summary (runApp {} [pktOf patBad ++ pktOf patGood ++ pktOf patGood]) = some (1, 1, 1)
    ∧ requests (runApp {} [pktOf patGood]) = [.byPid 0, .pmt 0x1e0 1]
    ∧ requests (runApp {} [pktOf patBad ++ pktOf patV1]) = [.byPid 0, .pmt 0x1e0 1] := by
  decide +kernel

/-- **a stream whose first PAT copy is corrupt is NEVER demultiplexed**, however many intact
copies of that version follow (any repetition packets of version 0 on PID 0, any packetisation):
the context stays the initial one (no PMT handler is ever requested) and no slot other than the
PAT's exists. -/
theorem first_copy_corrupt_never_demuxed (pks : List Pk)
    (h : ∀ pk ∈ pks, pk.pid = 0 ∧ pk.flagged = false ∧ RepPacket 0 pk.bytes) :
    ∃ t' s', Demux.pushModel App.sem (App.init {}) (pk0 (pktOf patBad) 0 :: pks)
        = .ok (t', (App.init {}).2)
      ∧ t'.get 0 = some (.pat s' []) ∧ Quiescent 0 s' ∧ ∀ q, q ≠ 0 → t'.get q = none := by
  rw [Ts.Props.C06.push_refines_spec]
  obtain ⟨t0, c0, hinit, hg0, hb0⟩ : ∃ t0 c0, App.init {} = (t0, c0)
      ∧ t0.get 0 = some (.pat {} []) ∧ (c0.cfg.bypassCrc = false ∧ ∀ q, q ≠ 0 → t0.get q = none) :=
    ⟨_, _, rfl, Tab.get_insert_self _ _ _, rfl, fun q hq => by
      rw [Tab.get_insert_ne _ _ _ _ hq]; exact Tab.get_of_ge _ _ (by simp)⟩
  obtain ⟨pkb, hpkb, hpid, hfl, hpsi⟩ : ∃ pkb, pkb = pk0 (pktOf patBad) 0 ∧ pkb.pid = 0
      ∧ pkb.flagged = false
      ∧ Psi.consume Psi.table {} pkb.bytes = .ok ({ lastVersion := some 0 }, [⟨patBad, some 5⟩]) :=
    ⟨_, rfl, rfl, rfl, by decide +kernel⟩
  rw [← hpkb, hinit]
  have hgate : runDeliveries patSection c0 [] [⟨patBad, some 5⟩] = .ok (c0, [], []) :=
    Ts.Props.C04.gate_blocks patSection c0 [] hb0.1 _ (by
      intro d hd
      rw [List.mem_singleton] at hd
      subst hd
      decide +kernel)
  have hstep := step_pat_gated t0 c0 pkb {} _ [] _ (by rw [hpid]; exact hg0) hfl hpsi hgate
  rw [hpid] at hstep
  have hall : ∀ pk ∈ pks, pk.flagged = false ∧ RepPacket ((fun _ => 0) pk.pid) pk.bytes
      ∧ ∃ h, (t0.insert 0 (.pat { lastVersion := some 0 } [])).get pk.pid = some h
          ∧ QuiescentH ((fun _ => 0) pk.pid) h := by
    intro pk hm
    obtain ⟨a, b, d⟩ := h pk hm
    refine ⟨b, d, .pat { lastVersion := some 0 } [], by rw [a]; exact Tab.get_insert_self _ _ _, ?_⟩
    exact (⟨rfl, rfl⟩ : Quiescent 0 { lastVersion := some 0 })
  obtain ⟨t', hrun, ha, hb⟩ := run_rep_noop (fun _ => 0) c0 pks _ hall
  obtain ⟨h', hg', hr'⟩ := hb 0 (.pat { lastVersion := some 0 } []) (Tab.get_insert_self _ _ _)
    (⟨rfl, rfl⟩ : Quiescent 0 { lastVersion := some 0 })
  obtain ⟨s', e, hq', _⟩ := repRel_pat_inv hr'
  refine ⟨t', s', ?_, by rw [hg', e], hq', ?_⟩
  · rw [pushSpec_cons, hstep]; exact hrun
  · intro q hq
    rw [ha q (fun pk hm e => hq (by rw [← e]; exact (h pk hm).1)),
      Tab.get_insert_ne _ _ _ _ hq]
    exact hb0.2 q hq

/-! ### the full-strength statement and its refutation -/

/-- **C11 at full strength.**  A section filter starts fresh (`{}`) and is fed an arbitrary
history `hist` of non-empty payloads (damaged transmissions included), ending in state `s` with
deliveries `dsH`.  "Last applied" is the `version_number` of the last delivery that passed the CRC
layer (`lastApplied dsH`; `none` if nothing was ever applied — e.g. the first copy was corrupt;
precisely "passed the CRC gate", which a `table_id` mismatch or a rejected PMT body can still follow:
`lastApplied_is_crc_gate`, `crc_gate_not_application`).
Then any intact well-formed transmission of a section `S` (≥ 12 bytes, valid CRC) whose version
differs from the last APPLIED one is delivered. -/
def C11_full : Prop :=
  ∀ (hist : List Pl) (s : St) (dsH : List Delivery),
    (∀ q ∈ hist, 1 ≤ q.bytes.length) →
    runPl Psi.table {} hist = .ok (s, dsH) →
    ∀ (S : Bytes) (m : Mux) (off : Nat) (rest : List Pl),
      WellFormedSection .syntax S → 12 ≤ S.length → Ts.CrcSpec.crc S = 0 →
      WellFormedMux .syntax S m →
      (∀ q ∈ rest, q.us = false) → rest.map (·.bytes) = m.rest →
      lastApplied dsH ≠ some (versionOf S) →
      ∃ sfin ds, runPl Psi.table s (⟨true, m.first S, off⟩ :: rest) = .ok (sfin, ds)
        ∧ S ∈ ds.map (·.bytes)

/-- "last applied", spelled out -/
theorem lastApplied_iff (ds : List Delivery) :
    lastApplied ds =
      ((ds.filter (fun d => match Psi.crcPass false d.bytes with | .ok true => true | _ => false)).getLast?).map
        (fun d => versionOf d.bytes) := rfl

/-- **C11 as stated is false** (known finding F2).  Witness: a first-copy-corrupt stream — history
= the one payload carrying `patBad` (nothing was ever applied: `lastApplied = none`), then the
intact `patGood`. -/
theorem C11_full_false : ¬ C11_full := by
  intro hfull
  have hhist : runPl Psi.table {} [⟨true, plBytesOf patBad, 4⟩]
      = .ok ({ lastVersion := some 0 }, [⟨patBad, some 5⟩]) := by decide +kernel
  obtain ⟨sfin, ds, hrun, hmem⟩ := hfull [⟨true, plBytesOf patBad, 4⟩] _ _ (by decide +kernel) hhist
    patGood (muxOf patGood) 4 [] (by decide +kernel) (by decide +kernel) (by decide +kernel)
    (by decide +kernel) (by simp) rfl (by decide +kernel)
  obtain ⟨sfin', _, hb, _⟩ := damage_same_version_blocked patGood (by decide +kernel) (by decide +kernel)
    (muxOf patGood) (by decide +kernel) { lastVersion := some 0 } (psiInv_of_none _ _ rfl)
    (by decide +kernel) 4 [] (by simp) rfl
  rw [hb rfl] at hrun
  cases hrun
  simp at hmem

/-- CONTRAPOSITIVE of `damage_then_new_version_applied_partial` (nothing more; `lastApplied` is not
used): under the hypotheses of `C11_full` — in particular `hm : WellFormedMux`, which excludes the
short-first-share gap of `short_first_share_never_applied` — the conclusion can only fail when the
last STARTED version (`s.lastVersion`) equals the version of `S`.  The two-sided statement is
`C11_characterisation`. -/
theorem C11_gap_is_F2 (hist : List Pl) (s : St) (dsH : List Delivery)
    (hne : ∀ q ∈ hist, 1 ≤ q.bytes.length) (hrun : runPl Psi.table {} hist = .ok (s, dsH))
    (S : Bytes) (m : Mux) (off : Nat) (rest : List Pl)
    (hS : WellFormedSection .syntax S) (h12 : 12 ≤ S.length) (hcrc : Ts.CrcSpec.crc S = 0)
    (hm : WellFormedMux .syntax S m)
    (hus : ∀ q ∈ rest, q.us = false) (hrest : rest.map (·.bytes) = m.rest)
    (hfail : ¬ ∃ sfin ds, runPl Psi.table s (⟨true, m.first S, off⟩ :: rest) = .ok (sfin, ds)
        ∧ S ∈ ds.map (·.bytes)) :
    s.lastVersion = some (versionOf S) := by
  apply Classical.byContradiction
  intro hv
  obtain ⟨s', ds', h', hi⟩ := runPl_total_inv hist {} (psiInv_of_none _ _ rfl) hne
  rw [hrun] at h'
  cases h'
  obtain ⟨sfin, h1, _⟩ := damage_then_new_version_applied_partial S hS h12 hcrc m hm s hi hv off rest hus hrest
  exact hfail ⟨sfin, _, h1, by simp⟩

/-! ### the characterisation within `WellFormedMux`: delivered IFF version ≠ last STARTED version -/

/-- **Exact deliveries of an intact well-formed transmission, in every state.**  Hypotheses: `S` a
well-formed section-syntax section of at least 12 bytes with a valid CRC; `hm : WellFormedMux` (in
particular the starting packet carries at least the 8 fixed header bytes — see
`short_first_share_never_applied` for what happens otherwise); `s` ANY state satisfying the buffer
invariant.  Then the run never panics, its deliveries are what the pointer bytes complete of the
old buffer followed by `S` itself EXACTLY when `s.lastVersion ≠ some (versionOf S)`, and afterwards
`versionOf S` is the recorded version either way.  (`S` passes the CRC layer whenever delivered.) -/
theorem C11_deliveries_exact (S : Bytes) (hS : WellFormedSection .syntax S)
    (h12 : 12 ≤ S.length) (hcrc : Ts.CrcSpec.crc S = 0)
    (m : Mux) (hm : WellFormedMux .syntax S m)
    (s : St) (hs : PsiInv .syntax s)
    (off : Nat) (rest : List Pl) (hus : ∀ q ∈ rest, q.us = false)
    (hrest : rest.map (·.bytes) = m.rest) :
    ∃ sfin,
      runPl Psi.table s (⟨true, m.first S, off⟩ :: rest)
        = .ok (sfin, (preSpec Psi.table s m.pre).2 ++
            (if s.lastVersion = some (versionOf S) then []
             else [⟨S, if m.k = S.length then some (off + 1 + m.pre.length) else none⟩]))
      ∧ sfin.lastVersion = some (versionOf S)
      ∧ (∀ b, Psi.crcPass b S = .ok true) := by
  by_cases hv : s.lastVersion = some (versionOf S)
  · obtain ⟨sfin, h1, _, h2, _⟩ :=
      damage_same_version_blocked S hS (by omega) m hm s hs hv off rest hus hrest
    exact ⟨sfin, by rw [h1, if_pos hv, List.append_nil], h2, fun b => crcPass_valid b S hS h12 hcrc⟩
  · obtain ⟨sfin, h1, _, h3, h4⟩ :=
      damage_then_new_version_applied_partial S hS h12 hcrc m hm s hs hv off rest hus hrest
    exact ⟨sfin, by rw [h1, if_neg hv], h4.1, h3⟩

/-- **C11, characterisation (relative to `WellFormedMux`).**  Same hypotheses as
`C11_deliveries_exact` (`S` intact: well-formed, ≥ 12 bytes, valid CRC; `hm : WellFormedMux`; `s` any
state with the buffer invariant).  `S` passes the CRC layer in both builds, so "delivered" means
"handed to the table processor", and:

* the transmission delivers `S` (after what its pointer bytes completed) **iff**
  `s.lastVersion ≠ some (versionOf S)`;
* with `pointer_field = 0`: `S` occurs among the deliveries at all **iff** the same.

`damage_then_new_version_applied_partial` is "⇐", `damage_same_version_blocked` is "⇒".  So WITHIN
`WellFormedMux` the gap between `C11_full` and the code is exactly F2 ("version recorded at
start"): `s.lastVersion` is the last STARTED version where C11 wants the last applied one.  This
says nothing about packetisations outside `WellFormedMux` — `short_first_share_never_applied`. -/
theorem C11_characterisation (S : Bytes) (hS : WellFormedSection .syntax S)
    (h12 : 12 ≤ S.length) (hcrc : Ts.CrcSpec.crc S = 0)
    (m : Mux) (hm : WellFormedMux .syntax S m)
    (s : St) (hs : PsiInv .syntax s)
    (off : Nat) (rest : List Pl) (hus : ∀ q ∈ rest, q.us = false)
    (hrest : rest.map (·.bytes) = m.rest) :
    (∀ b, Psi.crcPass b S = .ok true)
    ∧ ((∃ sfin, runPl Psi.table s (⟨true, m.first S, off⟩ :: rest)
          = .ok (sfin, (preSpec Psi.table s m.pre).2
              ++ [⟨S, if m.k = S.length then some (off + 1 + m.pre.length) else none⟩]))
        ↔ s.lastVersion ≠ some (versionOf S))
    ∧ (m.pre = [] →
        ((∃ sfin ds, runPl Psi.table s (⟨true, m.first S, off⟩ :: rest) = .ok (sfin, ds)
            ∧ S ∈ ds.map (·.bytes))
          ↔ s.lastVersion ≠ some (versionOf S))) := by
  refine ⟨fun b => crcPass_valid b S hS h12 hcrc, ⟨?_, ?_⟩, ?_⟩
  · rintro ⟨sfin, h⟩ hv
    obtain ⟨sfin', h1, _⟩ :=
      damage_same_version_blocked S hS (by omega) m hm s hs hv off rest hus hrest
    rw [h1] at h
    have := congrArg (fun r => match r with | .ok x => x.2.length | .panic _ => 0) h
    simp at this
  · intro hv
    obtain ⟨sfin, h1, _⟩ :=
      damage_then_new_version_applied_partial S hS h12 hcrc m hm s hs hv off rest hus hrest
    exact ⟨sfin, h1⟩
  · intro hpre
    constructor
    · rintro ⟨sfin, ds, h, hmem⟩ hv
      obtain ⟨sfin', _, hb, _⟩ :=
        damage_same_version_blocked S hS (by omega) m hm s hs hv off rest hus hrest
      rw [hb hpre] at h
      cases h
      simp at hmem
    · intro hv
      obtain ⟨sfin, h1, _⟩ :=
        damage_then_new_version_applied_partial S hS h12 hcrc m hm s hs hv off rest hus hrest
      exact ⟨sfin, _, h1, by simp⟩

/-! ### the SECOND gap — known finding F13: a first share shorter than the fixed header (outside `WellFormedMux`) -/

/-- **First share of 1..2 bytes ⇒ `reset`.**  Any state `s` (buffer invariant); a unit-start payload
`pointer_field :: pre ++ D` where `D` — the bytes of the new section present in this payload, at its
very end — has 1 or 2 bytes (`SectionPacketConsumer::consume`: "TODO: not enough bytes to read section
header - implement buffering"); ANY continuation payloads `rest` (e.g. the intact remainder of the
section).  Then nothing is delivered but what `pre` completes of the OLD buffer, the state after
the first payload and after all of `rest` is exactly `reset()` applied after the pointer bytes —
buffer dropped, `lastVersion = none` —, whatever `s.lastVersion` was. -/
theorem short_first_share_reset (s : St) (hs : PsiInv .syntax s) (pre D : Bytes) (off : Nat)
    (hD1 : 1 ≤ D.length) (hD3 : D.length < 3) (hsz : 1 + pre.length + D.length ≤ 184)
    (rest : List Pl) (hus : ∀ q ∈ rest, q.us = false) (hne : ∀ q ∈ rest, 1 ≤ q.bytes.length) :
    ∃ sfin, sfin = procReset Psi.table (preSpec Psi.table s pre).1
      ∧ sfin.lastVersion = none ∧ sfin.remaining = none
      ∧ consumePayload Psi.table s true (UInt8.ofNat pre.length :: (pre ++ D)) off
          = .ok (sfin, (preSpec Psi.table s pre).2)
      ∧ runPl Psi.table sfin rest = .ok (sfin, [])
      ∧ runPl Psi.table s (⟨true, UInt8.ofNat pre.length :: (pre ++ D), off⟩ :: rest)
          = .ok (sfin, (preSpec Psi.table s pre).2) := by
  have h1 : consumePayload Psi.table s true (UInt8.ofNat pre.length :: (pre ++ D)) off
      = .ok (procReset Psi.table (preSpec Psi.table s pre).1, (preSpec Psi.table s pre).2) := by
    rw [consumePayload_eq Psi.table cfgOk_table s true _ off (by simp) hs,
      consumeSpec_short_reset Psi.table s pre D off (by omega) hD3 (Or.inr hD1)]
  have hinv : PsiInv .syntax (procReset Psi.table (preSpec Psi.table s pre).1) :=
    psiInv_of_none _ _ rfl
  have h2 : runPl Psi.table (procReset Psi.table (preSpec Psi.table s pre).1) rest
      = .ok (procReset Psi.table (preSpec Psi.table s pre).1, []) := by
    rw [runPl_eq Psi.table cfgOk_table rest _ hinv hne, runSpec_cont Psi.table rest _ hus,
      runCont_idle _ _ _ (Or.inl rfl)]
  refine ⟨_, rfl, rfl, rfl, h1, h2, ?_⟩
  simp only [runPl, h1, R.ok_bind, h2]
  simp

/-- **First share of 3..7 bytes ⇒ `ignore_rest`.**  As above with `3 ≤ D.length < 8`
(`SectionSyntaxSectionProcessor::start_section`: "data … too short for header … (TODO: implement
buffering)"): nothing is delivered but what `pre` completes of the old buffer; the state is the one
after the pointer bytes with `ignoreRest := true` — in particular `lastVersion` is NOT touched —
and every continuation payload leaves it unchanged. -/
theorem short_first_share_ignored (s : St) (hs : PsiInv .syntax s) (pre D : Bytes) (off : Nat)
    (hD3 : 3 ≤ D.length) (hD8 : D.length < 8) (hsz : 1 + pre.length + D.length ≤ 184)
    (rest : List Pl) (hus : ∀ q ∈ rest, q.us = false) (hne : ∀ q ∈ rest, 1 ≤ q.bytes.length) :
    ∃ sfin, sfin = { (preSpec Psi.table s pre).1 with ignoreRest := true }
      ∧ sfin.lastVersion = s.lastVersion
      ∧ consumePayload Psi.table s true (UInt8.ofNat pre.length :: (pre ++ D)) off
          = .ok (sfin, (preSpec Psi.table s pre).2)
      ∧ runPl Psi.table sfin rest = .ok (sfin, [])
      ∧ runPl Psi.table s (⟨true, UInt8.ofNat pre.length :: (pre ++ D), off⟩ :: rest)
          = .ok (sfin, (preSpec Psi.table s pre).2) := by
  have hnok : startOk Psi.table D = false := by
    apply Bool.eq_false_iff.2
    intro h
    have := ((startOk_iff Psi.table D).1 h).2.1
    have e : minHeader (kindOf Psi.table) = 8 := rfl
    omega
  have hf := consumeSpec_first Psi.table s pre D off (by omega) hD3
  have hstart : ∀ s' o, startSpec Psi.table s' D o = ({ s' with ignoreRest := true }, []) := by
    intro s' o; unfold startSpec; simp [hnok]
  rw [hstart] at hf
  have h1 : consumePayload Psi.table s true (UInt8.ofNat pre.length :: (pre ++ D)) off
      = .ok ({ (preSpec Psi.table s pre).1 with ignoreRest := true }, (preSpec Psi.table s pre).2) := by
    rw [consumePayload_eq Psi.table cfgOk_table s true _ off (by simp) hs, hf]
    simp
  have hinv : PsiInv .syntax { (preSpec Psi.table s pre).1 with ignoreRest := true } :=
    psiInv_congr _ _ _ rfl rfl (preSpec_inv Psi.table _ s pre hs)
  have h2 : runPl Psi.table { (preSpec Psi.table s pre).1 with ignoreRest := true } rest
      = .ok ({ (preSpec Psi.table s pre).1 with ignoreRest := true }, []) := by
    rw [runPl_eq Psi.table cfgOk_table rest _ hinv hne, runSpec_cont Psi.table rest _ hus,
      runCont_idle _ _ _ (Or.inr rfl)]
  refine ⟨_, rfl, preSpec_lastVersion Psi.table s pre, h1, h2, ?_⟩
  simp only [runPl, h1, R.ok_bind, h2]
  simp

/-- **The second gap (known finding F13), both cases.**  Any state `s` with the buffer invariant — ANY remembered
version, so this is independent of F2; a unit-start payload `pointer_field :: pre ++ D` whose new
section share `D` has 1..7 bytes; ANY continuation payloads `rest` up to the next unit start.  Then
the only deliveries are those the pointer bytes `pre` complete of the OLD buffer: the section that
starts here is never delivered, although nothing of it is damaged.  Resulting state: `reset` for
1..2 bytes, `ignoreRest` (version memory untouched) for 3..7 bytes.

**KNOWN FINDING F13** (`/verif/known_findings.json`; DESIGN.md §8): such a packetisation is legal
(a section may start anywhere in a payload), nothing is damaged, and C11's text ("the next intact
transmission … is applied") does not exclude it, so the property as written fails here; byte-level
witness `short_first_share_counterexample` (F13's probe has the same shape: a damaged PAT v0, then
the intact PAT v1 with a 5-byte first share).  The root is the library's documented
`TODO: implement buffering` (`psi/mod.rs`, `SectionPacketConsumer::consume` and
`SectionSyntaxSectionProcessor::start_section`), the same as F8's.  Every `…_partial` theorem of this
file excludes the shape through `hm : WellFormedMux` (which demands `8 ≤` first share), and it is why
C03's `section_reassembled` carries the hypothesis "that packet carries at least the section's fixed
header" (`Ts.Props.C03.header_straddling_dropped`).  (An earlier version of this docstring called it
"not a new finding"; the second review corrected that.) -/
theorem short_first_share_never_applied (s : St) (hs : PsiInv .syntax s) (pre D : Bytes) (off : Nat)
    (hD1 : 1 ≤ D.length) (hD8 : D.length < 8) (hsz : 1 + pre.length + D.length ≤ 184)
    (rest : List Pl) (hus : ∀ q ∈ rest, q.us = false) (hne : ∀ q ∈ rest, 1 ≤ q.bytes.length) :
    ∃ sfin,
      runPl Psi.table s (⟨true, UInt8.ofNat pre.length :: (pre ++ D), off⟩ :: rest)
          = .ok (sfin, (preSpec Psi.table s pre).2)
      ∧ (pre = [] → runPl Psi.table s (⟨true, UInt8.ofNat pre.length :: (pre ++ D), off⟩ :: rest)
          = .ok (sfin, []))
      ∧ (D.length < 3 → sfin = procReset Psi.table (preSpec Psi.table s pre).1
            ∧ sfin.lastVersion = none)
      ∧ (3 ≤ D.length → sfin = { (preSpec Psi.table s pre).1 with ignoreRest := true }
            ∧ sfin.lastVersion = s.lastVersion) := by
  by_cases h3 : D.length < 3
  · obtain ⟨sfin, e, hl, _, _, _, hr⟩ := short_first_share_reset s hs pre D off hD1 h3 hsz rest hus hne
    refine ⟨sfin, hr, ?_, fun _ => ⟨e, hl⟩, fun h => absurd h (by omega)⟩
    intro hpre; rw [hr, hpre]; rfl
  · obtain ⟨sfin, e, hl, _, _, hr⟩ :=
      short_first_share_ignored s hs pre D off (by omega) hD8 hsz rest hus hne
    refine ⟨sfin, hr, ?_, fun h => absurd h h3, fun _ => ⟨e, hl⟩⟩
    intro hpre; rw [hr, hpre]; rfl

/-- the same for the first `k` bytes (`1 ≤ k < 8`) of ANY section `S`, at the end of a unit-start
payload with `pointer_field = 0`, followed by any continuation payloads (in particular ones that
carry `S.drop k` intact): NO delivery at all -/
theorem short_first_share_never_applied_section (S : Bytes) (k : Nat) (hk1 : 1 ≤ k) (hk8 : k < 8)
    (hkS : k ≤ S.length) (s : St) (hs : PsiInv .syntax s) (off : Nat)
    (rest : List Pl) (hus : ∀ q ∈ rest, q.us = false) (hne : ∀ q ∈ rest, 1 ≤ q.bytes.length) :
    ∃ sfin, runPl Psi.table s (⟨true, 0 :: S.take k, off⟩ :: rest) = .ok (sfin, []) := by
  have hl : (S.take k).length = k := by simp; omega
  obtain ⟨sfin, _, h, _⟩ := short_first_share_never_applied s hs [] (S.take k) off
    (by omega) (by omega) (by simp; omega) rest hus hne
  exact ⟨sfin, h rfl⟩

/-- `pointer_field` at or beyond the end of the payload ("PSI pointer beyond end of packet
payload"): `reset` at once, nothing delivered, not even from the pointer bytes -/
theorem pointer_beyond_payload_reset (s : St) (hs : PsiInv .syntax s) (pre : Bytes) (off : Nat)
    (hpre : pre ≠ []) (hp : pre.length < 256) :
    consumePayload Psi.table s true (UInt8.ofNat pre.length :: pre) off
      = .ok (procReset Psi.table s, []) := by
  rw [consumePayload_eq Psi.table cfgOk_table s true _ off (by simp) hs,
    consumeSpec_pointer_beyond Psi.table s pre off hp hpre]

/-- **The reset path rescues F2.**  From ANY state `s` (e.g. one that remembers the version of a
damaged copy): a unit-start payload with a 1..2-byte first share, any continuation payloads, and
then an intact well-formed transmission of `S` — of ANY version, also the remembered one — is
delivered, because the `reset` cleared `lastVersion`. -/
theorem short_share_reset_then_applied (s : St) (hs : PsiInv .syntax s) (pre D : Bytes) (off0 : Nat)
    (hD1 : 1 ≤ D.length) (hD3 : D.length < 3) (hsz : 1 + pre.length + D.length ≤ 184)
    (conts : List Pl) (husc : ∀ q ∈ conts, q.us = false) (hnec : ∀ q ∈ conts, 1 ≤ q.bytes.length)
    (S : Bytes) (hS : WellFormedSection .syntax S) (h12 : 12 ≤ S.length)
    (hcrc : Ts.CrcSpec.crc S = 0) (m : Mux) (hm : WellFormedMux .syntax S m)
    (off : Nat) (rest : List Pl) (hus : ∀ q ∈ rest, q.us = false)
    (hrest : rest.map (·.bytes) = m.rest) :
    ∃ s1 sfin,
      runPl Psi.table s (⟨true, UInt8.ofNat pre.length :: (pre ++ D), off0⟩ :: conts)
        = .ok (s1, (preSpec Psi.table s pre).2)
      ∧ s1.lastVersion = none
      ∧ runPl Psi.table s1 (⟨true, m.first S, off⟩ :: rest)
          = .ok (sfin, [⟨S, if m.k = S.length then some (off + 1 + m.pre.length) else none⟩])
      ∧ Quiescent (versionOf S) sfin := by
  obtain ⟨s1, _, hl, hr, _, _, hrun⟩ :=
    short_first_share_reset s hs pre D off0 hD1 hD3 hsz conts husc hnec
  obtain ⟨sfin, h1, _, _, hq⟩ := damage_then_new_version_applied_partial S hS h12 hcrc m hm s1
    (psiInv_of_none _ _ hr) (by rw [hl]; simp) off rest hus hrest
  rw [preSpec_idle _ _ _ hr, List.nil_append] at h1
  exact ⟨s1, sfin, hrun, hl, h1, hq⟩

/-- **Known finding F13 on real bytes, whole application** (`runApp` = `Demultiplex::new` + `push`).
`splitTx patGood k`: the intact 16-byte PAT `patGood` (valid CRC, version 0) sent on PID 0 as a
unit-start packet carrying `pointer_field = 183 - k`, `183 - k` stuffing bytes `0xff`, and the first
`k` section bytes, followed by a continuation packet with the other `16 - k` bytes.

* `k = 5`: NO handler request beyond the initial `ByPid(0)`; the PAT filter ends with
  `ignoreRest = true` and still no version; the same transmission sent twice more, and then a
  version-1 PAT with a 7-byte first share, change nothing — no PMT is ever requested;
* `k = 2`: no request either; the filter ends in the reset state;
* control, `k = 8`, and `pktOf patGood` (everything in one packet): the PMT handler of program 1 on
  PID `0x1e0` IS requested. -/
theorem short_first_share_counterexample :
    (splitTx patGood 5).length = 2 * 188
    ∧ requests (runApp {} [splitTx patGood 5]) = [.byPid 0]
    ∧ patSlot (runApp {} [splitTx patGood 5]) = some ({ ignoreRest := true }, [])
    ∧ requests (runApp {} [splitTx patGood 5 ++ splitTx patGood 5 ++ splitTx patGood 5
        ++ splitTx patV1 7]) = [.byPid 0]
    ∧ requests (runApp {} [splitTx patGood 2]) = [.byPid 0]
    ∧ patSlot (runApp {} [splitTx patGood 2]) = some ({}, [])
    ∧ requests (runApp {} [splitTx patGood 8]) = [.byPid 0, .pmt 0x1e0 1]
    ∧ requests (runApp {} [pktOf patGood]) = [.byPid 0, .pmt 0x1e0 1] := by
  decide +kernel

/-- **Interplay of the two gaps on real bytes.**  Corrupt copy `patBad`, then …

* the intact copy: blocked (F2);
* a transmission of the intact copy whose first share is 2 bytes: not applied itself, but it resets
  the filter (`lastVersion = none`) …
* … so that the NEXT ordinary intact copy IS applied (PMT requested): the straddling start rescues F2;
* with a 5-byte first share instead (`ignoreRest`, version memory kept) the next intact copy
  stays blocked. -/
theorem straddle_rescues_F2 :
    requests (runApp {} [pktOf patBad ++ pktOf patGood]) = [.byPid 0]
    ∧ requests (runApp {} [pktOf patBad ++ splitTx patGood 2]) = [.byPid 0]
    ∧ patSlot (runApp {} [pktOf patBad ++ splitTx patGood 2]) = some ({}, [])
    ∧ requests (runApp {} [pktOf patBad ++ splitTx patGood 2 ++ pktOf patGood])
        = [.byPid 0, .pmt 0x1e0 1]
    ∧ requests (runApp {} [pktOf patBad ++ splitTx patGood 5 ++ pktOf patGood]) = [.byPid 0] := by
  decide +kernel

/-! ### through the dispatcher: `construct` requests and handler slots -/

/-- **C11 (partial), observable form, PAT.**  ANY dispatcher state `(t, c)` — i.e. after any history
— in which slot `p` holds a PAT handler `.pat s reg` with
`hs`: the buffer invariant, `hv`: `s.lastVersion ≠ some (versionOf S)` (the version last STARTED
differs), `hquiet`: `pointer_field = 0` or no section in progress (so the pointer bytes complete
nothing), `hself`: neither the PIDs registered by the previous version nor the new PAT's entries
name `p` itself.  `pks`: the packets of a `WellFormedMux` transmission of an intact PAT section `S`
(well-formed, ≥ 12 bytes, CRC valid, `table_id = 0`), all on PID `p`, none flagged (TEI /
scrambled), 188 bytes each, `hview`: their payload views are the packetisation.

Then the real `push` loops (`pushModel App.sem`, which apply each packet's changes before the next
packet) do not panic and end with

* the context `ctxAfter c reqs`, `reqs` = one request per PAT entry of `S` in order (`.pmt pid pn`
  for a program, `.nit pid` for program 0): the trace grew by exactly these `Ev.construct` events
  with consecutive tags from `c.nextTag`, nothing else; the request list grew by exactly
  `entries.map patRequest`;
* slot `p` = the PAT handler, quiescent at `versionOf S`, remembering the listed PIDs;
* every other slot `q` as the routing spec `applied` says: the handler built for the LAST entry
  listing `q`; empty if registered before and no longer listed; unchanged otherwise. -/
theorem damage_then_new_version_requests_pat (S : Bytes) (hS : WellFormedSection .syntax S)
    (h12 : 12 ≤ S.length) (hcrc : Ts.CrcSpec.crc S = 0) (htid : byteD S 0 = 0)
    (m : Mux) (hm : WellFormedMux .syntax S m)
    (s : St) (hs : PsiInv .syntax s) (hv : s.lastVersion ≠ some (versionOf S))
    (hquiet : m.pre = [] ∨ s.remaining = none)
    (p : Nat) (t : Tab Handler) (c : Ctx) (reg : List Nat) (hg : t.get p = some (.pat s reg))
    (hself : p ∉ reg ∧ ∀ e ∈ specPat (sectionBody S), e.pid ≠ p)
    (pks : List Pk) (hpk : ∀ pk ∈ pks, pk.pid = p ∧ pk.flagged = false ∧ pk.bytes.length = 188)
    (off : Nat) (rest : List Pl)
    (hview : (pks.map (·.bytes)).filterMap plOf = ⟨true, m.first S, off⟩ :: rest)
    (hus : ∀ q ∈ rest, q.us = false) (hrest : rest.map (·.bytes) = m.rest) :
    ∃ t' sfin,
      pushModel App.sem (t, c) pks = .ok (t', ctxAfter c (patRequests (specPat (sectionBody S))))
      ∧ (ctxAfter c (patRequests (specPat (sectionBody S)))).trace
          = (constructEvents c.nextTag (patRequests (specPat (sectionBody S)))).reverse ++ c.trace
      ∧ requests (.ok (t', ctxAfter c (patRequests (specPat (sectionBody S)))))
          = requests (.ok (t, c)) ++ (specPat (sectionBody S)).map patRequest
      ∧ t'.get p = some (.pat sfin ((specPat (sectionBody S)).map PatEntry.pid))
      ∧ Quiescent (versionOf S) sfin
      ∧ ∀ q, q ≠ p → t'.get q
          = applied t.get (built c.nextTag (patRequests (specPat (sectionBody S)))) reg q := by
  rw [Ts.Props.C06.push_refines_spec]
  have hchg : ∀ ch ∈ patChanges c reg (sectionBody S), ch.pid ≠ p := by
    apply tableChanges_not_self _ _ _ _ _ hself.1
    intro x hx
    obtain ⟨e, he, rfl⟩ := List.mem_map.1 hx
    exact hself.2 e he
  obtain ⟨t', sfin, hr, hgp, hq, hne⟩ := table_applied_pushSpec patSection _ isTableHandler_pat
    S hS h12 hcrc m hm s hs hv hquiet p t c reg hg pks hpk off rest hview hus hrest _ _ _
    (Ts.Lemmas.C05.patSection_tid0 c reg S h12 htid) hchg
  refine ⟨t', sfin, hr, rfl, ?_, hgp, hq, ?_⟩
  · rw [requests_ctxAfter t t' c]
    simp [patRequests]
  · intro q hqp
    rw [hne q hqp]
    exact (Ts.Props.C05.routing_after_pat t c reg (sectionBody S)).1 q

/-- **C11 (partial), observable form, PMT.**  As `damage_then_new_version_requests_pat` for a slot
holding a PMT handler `.pmt pid prog s reg` and an intact PMT section `S` (`table_id = 2`, body
accepted by `PmtSection::from_bytes`: `hacc`): the trace grows by exactly one `Ev.construct` with a
`Req.stream pid stream_type elementary_pid pcr_pid descriptors program_descriptors` per stream entry,
in order; slot `p` keeps the SAME PMT handler instance, quiescent at `versionOf S`; other slots per
`applied`. -/
theorem damage_then_new_version_requests_pmt (pid prog : Nat)
    (S : Bytes) (hS : WellFormedSection .syntax S)
    (h12 : 12 ≤ S.length) (hcrc : Ts.CrcSpec.crc S = 0) (htid : byteD S 0 = 2)
    (hacc : specPmtAccept (sectionBody S))
    (m : Mux) (hm : WellFormedMux .syntax S m)
    (s : St) (hs : PsiInv .syntax s) (hv : s.lastVersion ≠ some (versionOf S))
    (hquiet : m.pre = [] ∨ s.remaining = none)
    (p : Nat) (t : Tab Handler) (c : Ctx) (reg : List Nat)
    (hg : t.get p = some (.pmt pid prog s reg))
    (hself : p ∉ reg ∧ ∀ e ∈ streamsOf (sectionBody S), e.pid ≠ p)
    (pks : List Pk) (hpk : ∀ pk ∈ pks, pk.pid = p ∧ pk.flagged = false ∧ pk.bytes.length = 188)
    (off : Nat) (rest : List Pl)
    (hview : (pks.map (·.bytes)).filterMap plOf = ⟨true, m.first S, off⟩ :: rest)
    (hus : ∀ q ∈ rest, q.us = false) (hrest : rest.map (·.bytes) = m.rest) :
    let reqs := pmtRequests pid (specPcrPid (sectionBody S)) (specProgramDescBytes (sectionBody S))
      (streamsOf (sectionBody S))
    ∃ t' sfin,
      pushModel App.sem (t, c) pks = .ok (t', ctxAfter c reqs)
      ∧ (ctxAfter c reqs).trace = (constructEvents c.nextTag reqs).reverse ++ c.trace
      ∧ requests (.ok (t', ctxAfter c reqs)) = requests (.ok (t, c)) ++ reqs.map (·.2)
      ∧ t'.get p = some (.pmt pid prog sfin ((streamsOf (sectionBody S)).map StreamInfo.pid))
      ∧ Quiescent (versionOf S) sfin
      ∧ ∀ q, q ≠ p → t'.get q = applied t.get (built c.nextTag reqs) reg q := by
  intro reqs
  rw [Ts.Props.C06.push_refines_spec]
  have hchg : ∀ ch ∈ pmtChanges c pid reg (sectionBody S), ch.pid ≠ p := by
    apply tableChanges_not_self _ _ _ _ _ hself.1
    intro x hx
    obtain ⟨e, he, rfl⟩ := List.mem_map.1 hx
    exact hself.2 e he
  obtain ⟨t', sfin, hr, hgp, hq, hne⟩ := table_applied_pushSpec (fun c r d => pmtSection c pid r d) _
    (isTableHandler_pmt pid prog)
    S hS h12 hcrc m hm s hs hv hquiet p t c reg hg pks hpk off rest hview hus hrest _ _ _
    (Ts.Lemmas.C05.pmtSection_tid2 c pid reg S h12 hacc htid) hchg
  refine ⟨t', sfin, hr, rfl, requests_ctxAfter t t' c reqs, hgp, hq, ?_⟩
  intro q hqp
  rw [hne q hqp]
  exact (Ts.Props.C05.routing_after_pmt t c pid reg (sectionBody S)).1 q

/-- **F2, observable form** (PAT or PMT handler).  Same setting, but the version of `S` EQUALS the
last started one (`hv`), and `S` need not even be intact: the `push` loops end with the context
UNCHANGED — not a single event, in particular no `Ev.construct` —, every other slot unchanged, and
slot `p` the same handler (same registered PIDs) still remembering that version. -/
theorem damage_same_version_no_requests (S : Bytes) (hS : WellFormedSection .syntax S)
    (h8 : 8 ≤ S.length) (m : Mux) (hm : WellFormedMux .syntax S m)
    (s : St) (hs : PsiInv .syntax s) (hv : s.lastVersion = some (versionOf S))
    (hquiet : m.pre = [] ∨ s.remaining = none)
    (p : Nat) (t : Tab Handler) (c : Ctx) (reg : List Nat)
    (pks : List Pk) (hpk : ∀ pk ∈ pks, pk.pid = p ∧ pk.flagged = false ∧ pk.bytes.length = 188)
    (off : Nat) (rest : List Pl)
    (hview : (pks.map (·.bytes)).filterMap plOf = ⟨true, m.first S, off⟩ :: rest)
    (hus : ∀ q ∈ rest, q.us = false) (hrest : rest.map (·.bytes) = m.rest) :
    (t.get p = some (.pat s reg) →
      ∃ t' sfin, pushModel App.sem (t, c) pks = .ok (t', c) ∧ t'.get p = some (.pat sfin reg)
        ∧ sfin.lastVersion = some (versionOf S) ∧ ∀ q, q ≠ p → t'.get q = t.get q)
    ∧ (∀ pid prog, t.get p = some (.pmt pid prog s reg) →
      ∃ t' sfin, pushModel App.sem (t, c) pks = .ok (t', c) ∧ t'.get p = some (.pmt pid prog sfin reg)
        ∧ sfin.lastVersion = some (versionOf S) ∧ ∀ q, q ≠ p → t'.get q = t.get q) := by
  rw [Ts.Props.C06.push_refines_spec]
  constructor
  · intro hg
    exact table_blocked_pushSpec patSection _ isTableHandler_pat S hS h8 m hm s hs hv hquiet p t c
      reg hg pks hpk off rest hview hus hrest
  · intro pid prog hg
    exact table_blocked_pushSpec _ _ (isTableHandler_pmt pid prog) S hS h8 m hm s hs hv hquiet p t c
      reg hg pks hpk off rest hview hus hrest

/-- **C11 characterisation, observable form (PAT).**  Hypotheses of
`damage_then_new_version_requests_pat` WITHOUT `hv`: the context after the transmission is
`ctxAfter c (one request per PAT entry)` if `s.lastVersion ≠ some (versionOf S)`, and `c` itself —
nothing requested — if `s.lastVersion = some (versionOf S)`.  Within `WellFormedMux`, whether the
intact PAT takes effect is decided by the last STARTED version alone. -/
theorem C11_characterisation_requests_pat (S : Bytes) (hS : WellFormedSection .syntax S)
    (h12 : 12 ≤ S.length) (hcrc : Ts.CrcSpec.crc S = 0) (htid : byteD S 0 = 0)
    (m : Mux) (hm : WellFormedMux .syntax S m)
    (s : St) (hs : PsiInv .syntax s) (hquiet : m.pre = [] ∨ s.remaining = none)
    (p : Nat) (t : Tab Handler) (c : Ctx) (reg : List Nat) (hg : t.get p = some (.pat s reg))
    (hself : p ∉ reg ∧ ∀ e ∈ specPat (sectionBody S), e.pid ≠ p)
    (pks : List Pk) (hpk : ∀ pk ∈ pks, pk.pid = p ∧ pk.flagged = false ∧ pk.bytes.length = 188)
    (off : Nat) (rest : List Pl)
    (hview : (pks.map (·.bytes)).filterMap plOf = ⟨true, m.first S, off⟩ :: rest)
    (hus : ∀ q ∈ rest, q.us = false) (hrest : rest.map (·.bytes) = m.rest) :
    ∃ t' sfin reg',
      pushModel App.sem (t, c) pks
        = .ok (t', if s.lastVersion = some (versionOf S) then c
                   else ctxAfter c (patRequests (specPat (sectionBody S))))
      ∧ t'.get p = some (.pat sfin reg') ∧ sfin.lastVersion = some (versionOf S) := by
  by_cases hv : s.lastVersion = some (versionOf S)
  · obtain ⟨t', sfin, h1, h2, h3, _⟩ := (damage_same_version_no_requests S hS (by omega) m hm s hs hv
      hquiet p t c reg pks hpk off rest hview hus hrest).1 hg
    exact ⟨t', sfin, reg, by rw [h1, if_pos hv], h2, h3⟩
  · obtain ⟨t', sfin, h1, _, _, h2, h3, _⟩ := damage_then_new_version_requests_pat S hS h12 hcrc htid
      m hm s hs hv hquiet p t c reg hg hself pks hpk off rest hview hus hrest
    exact ⟨t', sfin, _, by rw [h1, if_neg hv], h2, h3.1⟩

/-- **… at `runApp` level.**  After ANY history of pushes `pushes` that did not panic and left
`(t, c)` with slot 0 holding `.pat s reg`, no section in progress (`s.remaining = none`) and
`s.lastVersion ≠ some (versionOf S)`: one more `push(buf)`, where `buf` frames (`frame`, at the byte
offset reached) to the packets `pks` of a `WellFormedMux` transmission of the intact PAT `S` on
PID 0, makes the application's request list grow by exactly one request per PAT entry of `S`, and
installs the handlers as in `damage_then_new_version_requests_pat`. -/
theorem damage_then_new_version_requests_runApp (cfg : App.Cfg) (pushes : List Bytes)
    (t : Tab Handler) (c : Ctx) (hhist : runApp cfg pushes = .ok (t, c))
    (s : St) (reg : List Nat) (hg : t.get 0 = some (.pat s reg)) (hidle : s.remaining = none)
    (S : Bytes) (hS : WellFormedSection .syntax S)
    (h12 : 12 ≤ S.length) (hcrc : Ts.CrcSpec.crc S = 0) (htid : byteD S 0 = 0)
    (m : Mux) (hm : WellFormedMux .syntax S m) (hv : s.lastVersion ≠ some (versionOf S))
    (hself : 0 ∉ reg ∧ ∀ e ∈ specPat (sectionBody S), e.pid ≠ 0)
    (buf : Bytes) (pks : List Pk) (hframe : frame buf (pushes.map List.length).sum = .ok pks)
    (hpk : ∀ pk ∈ pks, pk.pid = 0 ∧ pk.flagged = false ∧ pk.bytes.length = 188)
    (off : Nat) (rest : List Pl)
    (hview : (pks.map (·.bytes)).filterMap plOf = ⟨true, m.first S, off⟩ :: rest)
    (hus : ∀ q ∈ rest, q.us = false) (hrest : rest.map (·.bytes) = m.rest) :
    ∃ t' sfin,
      runApp cfg (pushes ++ [buf]) = .ok (t', ctxAfter c (patRequests (specPat (sectionBody S))))
      ∧ requests (runApp cfg (pushes ++ [buf]))
          = requests (runApp cfg pushes) ++ (specPat (sectionBody S)).map patRequest
      ∧ t'.get 0 = some (.pat sfin ((specPat (sectionBody S)).map PatEntry.pid))
      ∧ Quiescent (versionOf S) sfin
      ∧ ∀ q, q ≠ 0 → t'.get q
          = applied t.get (built c.nextTag (patRequests (specPat (sectionBody S)))) reg q := by
  obtain ⟨t', sfin, h1, _, h3, h4, h5, h6⟩ := damage_then_new_version_requests_pat S hS h12 hcrc htid
    m hm s (psiInv_of_none _ _ hidle) hv (Or.inr hidle) 0 t c reg hg hself pks hpk off rest hview
    hus hrest
  have hrun : runApp cfg (pushes ++ [buf])
      = .ok (t', ctxAfter c (patRequests (specPat (sectionBody S)))) := by
    unfold runApp at hhist ⊢
    rw [pushAll_append, hhist]
    simp only [R.ok_bind, Nat.zero_add, Ts.Props.C07.pushAll_single, push, hframe]
    exact h1
  exact ⟨t', sfin, hrun, by rw [hrun, hhist]; exact h3, h4, h5, h6⟩

/-! ### what "last applied" in `C11_full` means precisely -/

/-- **Remark on `lastApplied`.**  `lastApplied ds = some v` says exactly: the LAST delivery of `ds`
that passes the CRC gate of the normal build (`Psi.crcPass false … = .ok true`, i.e. reaches
`PatProcessor::section` / `PmtProcessor::section`) has `version_number = v`.  It does NOT say that
this section took effect: the table processor may still ignore it (`table_id` mismatch; a PMT body
rejected by `from_bytes`) — see `crc_gate_not_application`.  So the hypothesis
`lastApplied dsH ≠ some (versionOf S)` of `C11_full` reads "the last section that passed the CRC
gate had another version"; the refutation `C11_full_false` is unaffected (there NOTHING passed the
gate). -/
theorem lastApplied_is_crc_gate (ds : List Delivery) (v : Nat) :
    lastApplied ds = some v ↔
      ∃ pre d post, ds = pre ++ d :: post ∧ Psi.crcPass false d.bytes = .ok true
        ∧ (∀ x ∈ post, Psi.crcPass false x.bytes ≠ .ok true) ∧ versionOf d.bytes = v := by
  unfold lastApplied
  rw [Option.map_eq_some_iff]
  constructor
  · rintro ⟨d, hd, hv⟩
    obtain ⟨pre, post, e, hp, hpost⟩ := (getLast?_filter_eq_some passes ds d).1 hd
    refine ⟨pre, d, post, e, (passes_iff d).1 hp, ?_, hv⟩
    intro x hx hpass
    have := hpost x hx
    rw [(passes_iff x).2 hpass] at this
    cases this
  · rintro ⟨pre, d, post, e, hp, hpost, hv⟩
    refine ⟨d, (getLast?_filter_eq_some passes ds d).2 ⟨pre, post, e, (passes_iff d).2 hp, ?_⟩, hv⟩
    intro x hx
    cases hx' : passes x with
    | false => rfl
    | true => exact absurd ((passes_iff x).1 hx') (hpost x hx)

/-- for a PAT filter and `table_id = 0` the CRC gate IS application: a section that passes the gate
makes `PatProcessor::section` request one handler per entry and queue the PAT's changes -/
theorem crc_gate_pat_applied (b : Bool) (d : Bytes) (hp : Psi.crcPass b d = .ok true)
    (ht : byteD d 0 = 0) (c : Ctx) (reg : List Nat) :
    patSection c reg d = .ok (ctxAfter c (patRequests (specPat (sectionBody d))),
      (specPat (sectionBody d)).map PatEntry.pid, patChanges c reg (sectionBody d)) :=
  Ts.Lemmas.C05.patSection_tid0 c reg d (Ts.Lemmas.C05.crcPass_true_len b d hp) ht

/-- … for any other `table_id` the section passes the gate and is then ignored: nothing requested,
nothing queued, `filters_registered` unchanged -/
theorem crc_gate_pat_other_table_ignored (b : Bool) (d : Bytes) (hp : Psi.crcPass b d = .ok true)
    (ht : byteD d 0 ≠ 0) (c : Ctx) (reg : List Nat) :
    patSection c reg d = .ok (c, reg, []) := by
  rw [Ts.Lemmas.C05.patSection_eq c reg d (Ts.Lemmas.C05.crcPass_true_len b d hp), if_pos ht]

/-- a section with `table_id = 2` and a valid CRC (the bytes of `patV1` relabelled) -/
def otherTable : Bytes :=
  [0x02, 0xb0, 0x0d, 0x00, 0x01, 0xc3, 0x00, 0x00, 0x00, 0x01, 0xe1, 0xe0] ++
    Ts.CrcSpec.be32 (Ts.CrcSpec.crc [0x02, 0xb0, 0x0d, 0x00, 0x01, 0xc3, 0x00, 0x00, 0x00, 0x01, 0xe1, 0xe0])

/-- **`lastApplied` over-approximates "applied"** (witness): `otherTable` delivered on the PAT PID
counts as "last applied, version 1", yet the PAT processor ignores it; through the application:
no request beyond `ByPid(0)` — and, by F2, the intact version-1 PAT that follows is blocked although
no version-1 PAT was ever applied. -/
theorem crc_gate_not_application :
    WellFormedSection .syntax otherTable ∧ Ts.CrcSpec.crc otherTable = 0
    ∧ lastApplied [⟨otherTable, some 5⟩] = some 1
    ∧ (∀ c reg, patSection c reg otherTable = .ok (c, reg, []))
    ∧ requests (runApp {} [pktOf otherTable]) = [.byPid 0]
    ∧ requests (runApp {} [pktOf otherTable ++ pktOf patV1]) = [.byPid 0]
    ∧ requests (runApp {} [pktOf patV1]) = [.byPid 0, .pmt 0x1e0 1] := by
  refine ⟨by decide +kernel, by decide +kernel, by decide +kernel, ?_, by decide +kernel,
    by decide +kernel, by decide +kernel⟩
  intro c reg
  exact crc_gate_pat_other_table_ignored false otherTable (by decide +kernel) (by decide +kernel) c reg

/-! ### non-vacuity -/

/-- the concrete sections: well-formed, valid CRC / one flipped bit, versions 0 and 1 -/
example : WellFormedSection .syntax patGood ∧ 12 ≤ patGood.length ∧ Ts.CrcSpec.crc patGood = 0
    ∧ versionOf patGood = 0 := by decide +kernel
example : WellFormedSection .syntax patBad ∧ Ts.CrcSpec.crc patBad ≠ 0 ∧ versionOf patBad = 0 := by
  decide +kernel
example : WellFormedSection .syntax patV1 ∧ 12 ≤ patV1.length ∧ Ts.CrcSpec.crc patV1 = 0
    ∧ versionOf patV1 = 1 := by decide +kernel
example : WellFormedMux .syntax patGood (muxOf patGood) ∧ (muxOf patGood).pre = [] := by decide +kernel
example : WellFormedMux .syntax patV1 (muxOf patV1) := by decide +kernel

/-- accepted starts exist: the first 8 bytes of a section suffice (complete or not) -/
example : startOk Psi.table patGood = true ∧ startOk Psi.table (patGood.take 8) = true := by
  decide +kernel

/-- `start_records_version` on a truncated start (only 8 of 16 bytes arrive: nothing is delivered,
8 bytes are still owed — yet version 0 is already recorded) -/
example : Psi.procStart Psi.table {} (hdrOf (patGood.take 8)) (patGood.take 8) 5
    = .ok ({ lastVersion := some 0, buf := patGood.take 8, remaining := some 8 }, []) := by
  decide +kernel

/-- states after damage satisfy the invariant: stale `Buffering` after a lost continuation -/
example : PsiInv .syntax { lastVersion := some 0, buf := patGood.take 8, remaining := some 8 } := by
  intro n hn
  simp only [Option.some.injEq] at hn
  subst hn
  decide +kernel

/-- the partial theorem applied: lost continuation of version 0, then intact version 1 -/
example : ∃ sfin, runPl Psi.table { lastVersion := some 0, buf := patGood.take 8, remaining := some 8 }
      [⟨true, plBytesOf patV1, 4⟩] = .ok (sfin, [⟨patV1, some 5⟩]) ∧ Quiescent 1 sfin := by
  have hinv : PsiInv .syntax { lastVersion := some 0, buf := patGood.take 8, remaining := some 8 } := by
    intro n hn
    simp only [Option.some.injEq] at hn
    subst hn
    decide +kernel
  obtain ⟨sfin, h1, _, _, h2⟩ := damage_then_new_version_applied_partial patV1 (by decide +kernel)
    (by decide +kernel) (by decide +kernel) (muxOf patV1) (by decide +kernel) _ hinv (by decide +kernel)
    4 [] (by simp) rfl
  exact ⟨sfin, h1, h2⟩

/-- … and the blocked case on the same damaged state: intact version 0 is dropped -/
example : ∃ sfin, runPl Psi.table { lastVersion := some 0, buf := patGood.take 8, remaining := some 8 }
      [⟨true, plBytesOf patGood, 4⟩] = .ok (sfin, []) := by
  have hinv : PsiInv .syntax { lastVersion := some 0, buf := patGood.take 8, remaining := some 8 } := by
    intro n hn
    simp only [Option.some.injEq] at hn
    subst hn
    decide +kernel
  obtain ⟨sfin, _, h1, _⟩ := damage_same_version_blocked patGood (by decide +kernel) (by decide +kernel)
    (muxOf patGood) (by decide +kernel) _ hinv (by decide +kernel) 4 [] (by simp) rfl
  exact ⟨sfin, h1 rfl⟩

/-- the packet-level hypotheses of the handler lift are satisfiable -/
example : (pktOf patV1).length = 188
    ∧ ([pk0 (pktOf patV1) 0].map (·.bytes)).filterMap plOf
        = [⟨true, (muxOf patV1).first patV1, 4⟩] := by decide +kernel

/-- hypotheses of `first_copy_corrupt_never_demuxed`: intact copies are repetition packets -/
example : ∀ pk ∈ [pk0 (pktOf patGood) 188, pk0 (pktOf patGood) 376],
    pk.pid = 0 ∧ pk.flagged = false ∧ RepPacket 0 pk.bytes := by
  have hrep : RepPacket 0 (pktOf patGood) := by
    refine ⟨by decide +kernel, ?_⟩
    intro q hq
    have : plOf (pktOf patGood) = some ⟨true, plBytesOf patGood, 4⟩ := by decide +kernel
    rw [this] at hq
    cases hq
    exact Or.inr ⟨patGood, muxOf patGood, by decide +kernel, by decide +kernel, by decide +kernel,
      by decide +kernel, rfl, by decide +kernel⟩
  intro pk hm
  simp only [List.mem_cons, List.not_mem_nil, or_false] at hm
  rcases hm with e | e <;> subst e <;> exact ⟨rfl, rfl, hrep⟩

/-! ### non-vacuity of the second-gap, characterisation and dispatcher-level theorems -/

/-- the packets of `short_first_share_counterexample` are what the docstring says: unit start,
`pointer_field = 178`, 178 stuffing bytes, 5 section bytes; then a continuation carrying the other
11 bytes; the shares concatenate to the intact section -/
example : plOf ((splitTx patGood 5).take 188)
      = some ⟨true, UInt8.ofNat 178 :: (List.replicate 178 0xff ++ patGood.take 5), 4⟩
    ∧ plOf ((splitTx patGood 5).drop 188)
      = some ⟨false, patGood.drop 5 ++ List.replicate 173 0xff, 4⟩
    ∧ patGood.take 5 ++ patGood.drop 5 = patGood ∧ Ts.CrcSpec.crc patGood = 0 := by decide +kernel

/-- `short_first_share_never_applied` applied to those payloads, on a state that remembers ANOTHER
version (1): hypotheses satisfiable, nothing delivered, `ignoreRest` set, version memory kept -/
example : ∃ sfin, runPl Psi.table { lastVersion := some 1 }
      [⟨true, UInt8.ofNat 178 :: (List.replicate 178 0xff ++ patGood.take 5), 4⟩,
       ⟨false, patGood.drop 5 ++ List.replicate 173 0xff, 4⟩] = .ok (sfin, [])
    ∧ sfin.ignoreRest = true ∧ sfin.lastVersion = some 1 := by
  obtain ⟨sfin, h1, _, _, h3⟩ := short_first_share_never_applied { lastVersion := some 1 }
    (psiInv_of_none _ _ rfl) (List.replicate 178 0xff) (patGood.take 5) 4 (by decide +kernel)
    (by decide +kernel) (by decide +kernel) [⟨false, patGood.drop 5 ++ List.replicate 173 0xff, 4⟩]
    (by decide +kernel) (by decide +kernel)
  obtain ⟨e, hl⟩ := h3 (by decide +kernel)
  refine ⟨sfin, ?_, by rw [e], hl⟩
  rw [preSpec_idle _ _ _ rfl] at h1
  exact h1

/-- `short_first_share_reset` / `short_share_reset_then_applied` applied: a state blocked by F2
(remembers version 0), a 2-byte first share + its continuation, then the intact `patGood` -/
example : ∃ s1 sfin, runPl Psi.table { lastVersion := some 0, dedupIgnore := true }
      [⟨true, UInt8.ofNat 181 :: (List.replicate 181 0xff ++ patGood.take 2), 4⟩,
       ⟨false, patGood.drop 2 ++ List.replicate 170 0xff, 4⟩] = .ok (s1, [])
    ∧ s1.lastVersion = none
    ∧ runPl Psi.table s1 [⟨true, plBytesOf patGood, 4⟩] = .ok (sfin, [⟨patGood, some 5⟩]) := by
  obtain ⟨s1, sfin, h1, h2, h3, _⟩ := short_share_reset_then_applied
    { lastVersion := some 0, dedupIgnore := true } (psiInv_of_none _ _ rfl)
    (List.replicate 181 0xff) (patGood.take 2) 4 (by decide +kernel) (by decide +kernel)
    (by decide +kernel) [⟨false, patGood.drop 2 ++ List.replicate 170 0xff, 4⟩] (by decide +kernel)
    (by decide +kernel)
    patGood (by decide +kernel) (by decide +kernel) (by decide +kernel) (muxOf patGood)
    (by decide +kernel) 4 [] (by simp) rfl
  rw [preSpec_idle _ _ _ rfl] at h1
  exact ⟨s1, sfin, h1, h2, h3⟩

/-- `C11_characterisation`: both sides of the "iff" occur — on the F2-blocked state the intact
`patGood` (version 0) is not delivered, `patV1` is -/
example :
    (¬ ∃ sfin ds, runPl Psi.table { lastVersion := some 0 } [⟨true, (muxOf patGood).first patGood, 4⟩]
        = .ok (sfin, ds) ∧ patGood ∈ ds.map (·.bytes))
    ∧ (∃ sfin ds, runPl Psi.table { lastVersion := some 0 } [⟨true, (muxOf patV1).first patV1, 4⟩]
        = .ok (sfin, ds) ∧ patV1 ∈ ds.map (·.bytes)) := by
  have h0 := (C11_characterisation patGood (by decide +kernel) (by decide +kernel) (by decide +kernel)
    (muxOf patGood) (by decide +kernel) { lastVersion := some 0 } (psiInv_of_none _ _ rfl) 4 []
    (by simp) rfl).2.2 rfl
  have h1 := (C11_characterisation patV1 (by decide +kernel) (by decide +kernel) (by decide +kernel)
    (muxOf patV1) (by decide +kernel) { lastVersion := some 0 } (psiInv_of_none _ _ rfl) 4 []
    (by simp) rfl).2.2 rfl
  exact ⟨fun h => (h0.1 h) (by decide +kernel), h1.2 (by decide +kernel)⟩

/-- `damage_then_new_version_requests_runApp` applied: history = the corrupt version-0 PAT (slot 0
then remembers version 0, nothing applied); then the intact version-1 PAT in one packet: the
request list grows by exactly `Pmt(0x1e0, program 1)`, and slot `0x1e0` holds a fresh PMT handler -/
example : ∃ t' sfin,
    requests (runApp {} ([pktOf patBad] ++ [pktOf patV1]))
      = requests (runApp {} [pktOf patBad]) ++ [.pmt 0x1e0 1]
    ∧ (∃ c', runApp {} ([pktOf patBad] ++ [pktOf patV1]) = .ok (t', c'))
    ∧ t'.get 0 = some (.pat sfin [0x1e0]) ∧ Quiescent 1 sfin
    ∧ t'.get 0x1e0 = some (.pmt 0x1e0 1 {} []) := by
  obtain ⟨t, c, hhist, hg⟩ := patSlot_eq_some (runApp {} [pktOf patBad]) { lastVersion := some 0 } []
    (by decide +kernel)
  have hc : c.nextTag = 1 := by
    have : summary (runApp {} [pktOf patBad]) = some (1, 1, 1) := by decide +kernel
    rw [hhist] at this
    simp only [summary, Option.some.injEq, Prod.mk.injEq] at this
    exact this.2.1
  have ht : t.get 0x1e0 = none := by
    have : summary (runApp {} [pktOf patBad]) = some (1, 1, 1) := by decide +kernel
    rw [hhist] at this
    simp only [summary, Option.some.injEq, Prod.mk.injEq] at this
    exact Tab.get_of_ge _ _ (by omega)
  obtain ⟨t', sfin, h1, h2, h3, h4, h5⟩ := damage_then_new_version_requests_runApp {} [pktOf patBad]
    t c hhist { lastVersion := some 0 } [] hg rfl patV1 (by decide +kernel) (by decide +kernel)
    (by decide +kernel) (by decide +kernel) (muxOf patV1) (by decide +kernel) (by decide +kernel)
    (by decide +kernel) (pktOf patV1) [pk0 (pktOf patV1) 188] (by decide +kernel)
    (by decide +kernel) 4 [] (by decide +kernel) (by simp) rfl
  have hsp : specPat (sectionBody patV1) = [.program 1 0x1e0] := by decide +kernel
  rw [hsp] at h1 h2 h3 h5
  refine ⟨t', sfin, h2, ⟨_, h1⟩, h3, h4, ?_⟩
  rw [h5 0x1e0 (by decide), hc]
  simp only [applied, patRequests, List.map_cons, List.map_nil, built, lastFor, List.reverse_cons,
    List.reverse_nil, List.nil_append, List.find?_cons, PatEntry.pid, beq_self_eq_true,
    Option.map_some, patRequest, handlerFor]

/-- `damage_then_new_version_requests_pat` on a TWO-packet transmission through the dispatcher
(`splitTx patV1 8`: 175 stuffing bytes after a non-zero `pointer_field`, 8 + 8 section bytes), from
`Demultiplex::new`'s state: the changes are queued by the second packet -/
example : ∃ t' sfin, pushModel App.sem (App.init {})
      [pk0 (startPkt 0 175 (patV1.take 8)) 0, pk0 (contPktOf 1 (patV1.drop 8)) 188]
      = .ok (t', ctxAfter (App.init {}).2 [(0x1e0, .pmt 0x1e0 1)])
    ∧ t'.get 0 = some (.pat sfin [0x1e0]) ∧ Quiescent 1 sfin := by
  have hsp : specPat (sectionBody patV1) = [.program 1 0x1e0] := by decide +kernel
  obtain ⟨t', sfin, h1, _, _, h3, h4, _⟩ := damage_then_new_version_requests_pat patV1
    (by decide +kernel) (by decide +kernel) (by decide +kernel) (by decide +kernel)
    ⟨List.replicate 175 0xff, 8, [], [patV1.drop 8 ++ List.replicate 176 0xff], []⟩
    (by decide +kernel) {} (psiInv_of_none _ _ rfl) (by decide +kernel) (Or.inr rfl)
    0 (App.init {}).1 (App.init {}).2 [] (Tab.get_insert_self _ _ _) (by decide +kernel)
    [pk0 (startPkt 0 175 (patV1.take 8)) 0, pk0 (contPktOf 1 (patV1.drop 8)) 188]
    (by decide +kernel) 4 [⟨false, patV1.drop 8 ++ List.replicate 176 0xff, 4⟩]
    (by decide +kernel) (by decide +kernel) rfl
  rw [hsp] at h1 h3
  exact ⟨t', sfin, h1, h3, h4⟩

/-- `damage_same_version_no_requests` / `C11_characterisation_requests_pat` applied: after the
corrupt copy (`{ lastVersion := some 0 }`) the intact `patGood` leaves the context unchanged -/
example (t : Tab Handler) (c : Ctx) (hg : t.get 0 = some (.pat { lastVersion := some 0 } [])) :
    ∃ t' sfin, pushModel App.sem (t, c) [pk0 (pktOf patGood) 188] = .ok (t', c)
      ∧ t'.get 0 = some (.pat sfin []) ∧ ∀ q, q ≠ 0 → t'.get q = t.get q := by
  obtain ⟨t', sfin, h1, h2, _, h3⟩ := (damage_same_version_no_requests patGood (by decide +kernel)
    (by decide +kernel) (muxOf patGood) (by decide +kernel) { lastVersion := some 0 }
    (psiInv_of_none _ _ rfl) (by decide +kernel) (Or.inl rfl) 0 t c []
    [pk0 (pktOf patGood) 188] (by decide +kernel) 4 [] (by decide +kernel) (by simp) rfl).1 hg
  exact ⟨t', sfin, h1, h2, h3⟩

/-- `damage_then_new_version_requests_pmt` applied: a fresh PMT handler on PID 0x20 and the intact
PMT `pmtGood` (one H.264 stream on PID 0x100): exactly one `Req.stream` is appended, slot 0x100
gets the PES filter built for it (tag = `c.nextTag`) -/
example : WellFormedSection .syntax pmtGood ∧ Ts.CrcSpec.crc pmtGood = 0 ∧
    ∀ (c : Ctx), ∃ t' sfin,
      pushModel App.sem (Tab.insert [] 0x20 (.pmt 0x20 1 {} []), c)
          [⟨pktOn32 pmtGood, 0, 0x20, false, false⟩]
        = .ok (t', ctxAfter c [(0x100, .stream 0x20 0x1b 0x100 0x100 [] [])])
      ∧ t'.get 0x20 = some (.pmt 0x20 1 sfin [0x100]) ∧ Quiescent 0 sfin
      ∧ t'.get 0x100 = some (.pes c.nextTag {}) := by
  refine ⟨by decide +kernel, by decide +kernel, fun c => ?_⟩
  have hst : streamsOf (sectionBody pmtGood) = [⟨0x1b, 0x100, []⟩] := by decide +kernel
  have hpcr : specPcrPid (sectionBody pmtGood) = 0x100 := by decide +kernel
  have hpd : specProgramDescBytes (sectionBody pmtGood) = [] := by decide +kernel
  obtain ⟨t', sfin, h1, _, _, h3, h4, h5⟩ := damage_then_new_version_requests_pmt 0x20 1 pmtGood
    (by decide +kernel) (by decide +kernel) (by decide +kernel) (by decide +kernel)
    (by decide +kernel) (muxOf pmtGood) (by decide +kernel) {} (psiInv_of_none _ _ rfl)
    (by decide +kernel) (Or.inl rfl) 0x20 (Tab.insert [] 0x20 (.pmt 0x20 1 {} [])) c []
    (Tab.get_insert_self _ _ _) (by decide +kernel) [⟨pktOn32 pmtGood, 0, 0x20, false, false⟩]
    (by decide +kernel) 4 [] (by decide +kernel) (by simp) rfl
  have hv0 : versionOf pmtGood = 0 := by decide +kernel
  rw [hv0] at h4
  simp only [hst, hpcr, hpd] at h1 h3 h5
  refine ⟨t', sfin, h1, h3, h4, ?_⟩
  rw [h5 0x100 (by decide)]
  simp only [applied, pmtRequests, List.map_cons, List.map_nil, built, lastFor, List.reverse_cons,
    List.reverse_nil, List.nil_append, List.find?_cons, beq_self_eq_true, Option.map_some,
    streamRequest, handlerFor]
  rfl

/-- `lastApplied_is_crc_gate`: both directions occur -/
example : lastApplied [⟨patBad, some 5⟩] = none ∧ lastApplied [⟨patV1, some 5⟩, ⟨patBad, some 5⟩] = some 1 := by
  decide +kernel

/-! ### F2 without damage: a legal duplicate of a multi-packet table's first packet (reviewer N5) -/

/-- **A duplicated start blocks its own table.**  `S`: a well-formed section in a `WellFormedMux`
packetisation `m` that needs MORE than one packet (`hk : m.k < S.length`) with `pointer_field = 0`
(`hpre`); `s`: ANY state with the buffer invariant (e.g. a fresh filter, or one that applied another
version).  The starting payload `m.first S` arrives TWICE (a duplicate transport packet: same bytes,
same continuity counter — the section layer never looks at the counter), then the continuation
payloads `rest`.  Then the whole run delivers NOTHING: the first copy starts buffering and records
`versionOf S`; the second copy is taken for a repetition of that version (`dedupIgnore`), and the
continuations are dropped.  The version stays recorded, so every later intact transmission of `S` is
blocked as well (`damage_same_version_blocked`).  No byte of the table was damaged or lost. -/
theorem duplicate_start_blocks_section (S : Bytes) (hS : WellFormedSection .syntax S) (h8 : 8 ≤ S.length)
    (m : Mux) (hm : WellFormedMux .syntax S m) (hk : m.k < S.length) (hpre : m.pre = [])
    (s : St) (hs : PsiInv .syntax s) (off off' : Nat) (rest : List Pl)
    (hus : ∀ q ∈ rest, q.us = false) (hrest : rest.map (·.bytes) = m.rest) :
    ∃ s1 sfin,
      consumePayload Psi.table s true (m.first S) off = .ok (s1, [])
      ∧ s1.lastVersion = some (versionOf S)
      ∧ runPl Psi.table s1 (⟨true, m.first S, off'⟩ :: rest) = .ok (sfin, [])
      ∧ runPl Psi.table s (⟨true, m.first S, off⟩ :: ⟨true, m.first S, off'⟩ :: rest) = .ok (sfin, [])
      ∧ sfin.lastVersion = some (versionOf S) ∧ PsiInv .syntax sfin := by
  obtain ⟨s1, h1, hv1, hi1⟩ := first_payload_incomplete S hS h8 m hm hk s hs off
  rw [hpre] at h1
  have h1' : consumePayload Psi.table s true (m.first S) off = .ok (s1, []) := by
    rw [h1]; simp [preSpec]
  obtain ⟨sfin, _, h2, hv2, hi2⟩ := damage_same_version_blocked S hS h8 m hm s1 hi1 hv1 off' rest hus hrest
  refine ⟨s1, sfin, h1', hv1, h2 hpre, ?_, hv2, hi2⟩
  have := h2 hpre
  simp only [runPl, h1', R.ok_bind] at this ⊢
  rw [this]
  rfl

/-- **Reviewer case N5 on real bytes, whole application** (`runApp {}` = harness `demux b0t0`; byte
lists `Ts.Lemmas.C11c.n5Bytes` / `n5CtlBytes` = case lines `N5` / `N5ctl` of
`/tmp/pr/rev2e_cases.txt`).  `pmtN5`: an intact PMT, version 1, 40 streams, 216 bytes, valid CRC,
sent on PID 0x100 as two packets `a` (unit start, counter 0, 183 section bytes) and `b`
(continuation, counter 1).

* `PAT, a, a, b` — the first packet DUPLICATED (identical bytes, same continuity counter): only
  `ByPid(0)` and `Pmt(0x100, 1)` are ever requested, NO stream request; the PMT filter is left
  buffering 183 bytes with `dedupIgnore` set and version 1 recorded; two further intact
  transmissions `a, b` change nothing;
* control `PAT, a, b`: the 40 stream requests are issued.
Identical to the output of the real code on these bytes.

SCOPE OBSERVATION (DESIGN.md 8.1b), NOT a known finding.  Duplicate packets are legal (ISO/IEC
13818-1 2.4.3.3: a packet may be sent twice with the same continuity_counter), and nothing is damaged
or lost, so this shows that F2 ("version recorded at section start") needs no damage.  But it is
outside what C11 quantifies over (damaged transmissions followed by intact ones) and outside the
multiplex specifications used here (`WellFormedMux` / `Transmits` have no duplicate case; `Conts`
requires `cc + 1`); C09's text treats a duplicate as a continuity error.  The mechanism is
`duplicate_start_blocks_section`. -/
theorem duplicate_start_blocks_table :
    (WellFormedSection .syntax pmtN5 ∧ pmtN5.length = 216 ∧ Ts.CrcSpec.crc pmtN5 = 0
      ∧ versionOf pmtN5 = 1 ∧ byteD pmtN5 0 = 2)
    ∧ n5Bytes = pktOf patN5 ++ n5a ++ n5a ++ n5b ∧ n5CtlBytes = pktOf patN5 ++ n5a ++ n5b
    ∧ (plOf n5a = some ⟨true, n5Mux.first pmtN5, 4⟩ ∧ readBits n5a 28 4 = 0 ∧ readBits n5b 28 4 = 1)
    ∧ requests (runApp {} [n5Bytes]) = [.byPid 0, .pmt 0x100 1]
    ∧ pmtSlot100 (runApp {} [n5Bytes])
        = some ({ lastVersion := some 1, dedupIgnore := true, buf := pmtN5.take 183, remaining := some 33 }, [])
    ∧ requests (runApp {} [n5Bytes ++ n5a ++ n5b ++ n5a ++ n5b]) = [.byPid 0, .pmt 0x100 1]
    ∧ requests (runApp {} [n5CtlBytes])
        = .byPid 0 :: .pmt 0x100 1 ::
            (List.range 40).map (fun i => Req.stream 0x100 0x1b (0x101 + i) 0x101 [] []) :=
  ⟨⟨pmtN5_facts.1, pmtN5_facts.2.1, pmtN5_facts.2.2.1, pmtN5_facts.2.2.2.1, pmtN5_facts.2.2.2.2.1⟩,
   rfl, rfl, ⟨n5_plOf.2.2.1, n5_plOf.2.2.2.2.1, n5_plOf.2.2.2.2.2⟩, n5_run, n5_slot, n5_run_more, n5_ctl_run⟩

/-- `duplicate_start_blocks_section` applied to the payloads of `a`, `a`, `b` on a fresh filter -/
example : ∃ s1 sfin,
    consumePayload Psi.table {} true (n5Mux.first pmtN5) 4 = .ok (s1, [])
    ∧ s1.lastVersion = some 1
    ∧ runPl Psi.table {} [⟨true, n5Mux.first pmtN5, 4⟩, ⟨true, n5Mux.first pmtN5, 4⟩,
        ⟨false, pmtN5.drop 183 ++ List.replicate 151 0xff, 4⟩] = .ok (sfin, [])
    ∧ sfin.lastVersion = some 1 := by
  obtain ⟨w1, w2, _, w4, _, w6, w7, w8⟩ := pmtN5_facts
  obtain ⟨s1, sfin, a1, a2, _, a4, a5, _⟩ := duplicate_start_blocks_section pmtN5 w1 (by rw [w2]; decide)
    n5Mux w6 w7 w8 {} (psiInv_of_none _ _ rfl) 4 4 [⟨false, pmtN5.drop 183 ++ List.replicate 151 0xff, 4⟩]
    (by simp) rfl
  rw [w4] at a2 a5
  exact ⟨s1, sfin, a1, a2, a4, a5⟩

/-! ### non-vacuity (second review round): evaluated instances of the remaining general theorems -/

/-- `C11_gap_is_F2` APPLIED: history = the corrupt copy `patBad`; the intact `patGood` in one packet is
not delivered (`hfail`, from `damage_same_version_blocked`); all other hypotheses evaluated.  The
theorem then returns the cause: the last STARTED version is that of `patGood`. -/
example : ({ lastVersion := some 0 } : St).lastVersion = some (versionOf patGood) := by
  have hhist : runPl Psi.table {} [⟨true, plBytesOf patBad, 4⟩]
      = .ok ({ lastVersion := some 0 }, [⟨patBad, some 5⟩]) := by decide +kernel
  refine C11_gap_is_F2 [⟨true, plBytesOf patBad, 4⟩] _ _ (by decide +kernel) hhist
    patGood (muxOf patGood) 4 [] (by decide +kernel) (by decide +kernel) (by decide +kernel)
    (by decide +kernel) (by simp) rfl ?_
  rintro ⟨sfin, ds, hrun, hmem⟩
  obtain ⟨sfin', _, hb, _⟩ := damage_same_version_blocked patGood (by decide +kernel) (by decide +kernel)
    (muxOf patGood) (by decide +kernel) { lastVersion := some 0 } (psiInv_of_none _ _ rfl)
    (by decide +kernel) 4 [] (by simp) rfl
  rw [hb rfl] at hrun
  cases hrun
  simp at hmem

/-- `C11_deliveries_exact` APPLIED on the F2-blocked state, both branches of its `if`: `patGood`
(version 0 = the recorded one) contributes nothing, `patV1` is delivered -/
example :
    (∃ sfin, runPl Psi.table { lastVersion := some 0 } [⟨true, (muxOf patGood).first patGood, 4⟩]
        = .ok (sfin, []) ∧ sfin.lastVersion = some 0)
    ∧ (∃ sfin, runPl Psi.table { lastVersion := some 0 } [⟨true, (muxOf patV1).first patV1, 4⟩]
        = .ok (sfin, [⟨patV1, some 5⟩]) ∧ sfin.lastVersion = some 1) := by
  obtain ⟨s0, h0, v0, _⟩ := C11_deliveries_exact patGood (by decide +kernel) (by decide +kernel)
    (by decide +kernel) (muxOf patGood) (by decide +kernel) { lastVersion := some 0 }
    (psiInv_of_none _ _ rfl) 4 [] (by simp) rfl
  obtain ⟨s1, h1, v1, _⟩ := C11_deliveries_exact patV1 (by decide +kernel) (by decide +kernel)
    (by decide +kernel) (muxOf patV1) (by decide +kernel) { lastVersion := some 0 }
    (psiInv_of_none _ _ rfl) 4 [] (by simp) rfl
  have e0 : versionOf patGood = 0 := by decide +kernel
  have e1 : versionOf patV1 = 1 := by decide +kernel
  have k1 : (muxOf patV1).k = patV1.length := rfl
  rw [e0] at h0 v0
  rw [e1, k1] at h1
  rw [e1] at v1
  rw [preSpec_idle _ _ _ rfl] at h0 h1
  simp only [if_true, List.append_nil] at h0
  rw [if_neg (by decide)] at h1
  refine ⟨⟨s0, h0, v0⟩, ⟨s1, ?_, v1⟩⟩
  rw [h1]
  rfl

/-- `damaged_start_then_same_version_blocked` APPLIED: a fresh filter; a TRUNCATED start (only the
first 8 bytes of `patGood` arrive, `pointer_field = 0`); a wrong continuation payload (3 bytes);
then the intact `patGood` in one packet: nothing is ever delivered -/
example : ∃ s1 sfin,
    runPl Psi.table {} [⟨true, 0x00 :: patGood.take 8, 4⟩, ⟨false, [0xaa, 0xbb, 0xcc], 4⟩] = .ok (s1, [])
    ∧ s1.lastVersion = some 0
    ∧ runPl Psi.table {} ([⟨true, 0x00 :: patGood.take 8, 4⟩, ⟨false, [0xaa, 0xbb, 0xcc], 4⟩]
        ++ [⟨true, (muxOf patGood).first patGood, 4⟩]) = .ok (sfin, []) := by
  obtain ⟨s1, ds, sfin, a1, a2, _, a4, _⟩ := damaged_start_then_same_version_blocked {}
    (psiInv_of_none _ _ rfl) [] (patGood.take 8) 4 (by decide) (by decide +kernel)
    [⟨false, [0xaa, 0xbb, 0xcc], 4⟩] (by simp) (by simp)
    patGood (by decide +kernel) (by decide +kernel) (by decide +kernel) (muxOf patGood) (by decide +kernel)
    rfl 4 [] (by simp) rfl
  have e : runPl Psi.table {} [⟨true, 0x00 :: patGood.take 8, 4⟩, ⟨false, [0xaa, 0xbb, 0xcc], 4⟩]
      = .ok ({ lastVersion := some 0, buf := patGood.take 8 ++ [0xaa, 0xbb, 0xcc], remaining := some 5 }, []) := by
    decide +kernel
  have a1' : runPl Psi.table {} [⟨true, 0x00 :: patGood.take 8, 4⟩, ⟨false, [0xaa, 0xbb, 0xcc], 4⟩]
      = .ok (s1, ds) := a1
  rw [e] at a1'
  cases a1'
  exact ⟨_, sfin, e, rfl, a4⟩

/-- `pointer_beyond_payload_reset` APPLIED: a filter that has applied version 0; a unit-start payload
`02 ff ff` (`pointer_field = 2`, only two bytes follow): reset at once — the version is forgotten —
and the model's own evaluation agrees -/
example :
    consumePayload Psi.table { lastVersion := some 0 } true [0x02, 0xff, 0xff] 4
      = .ok (procReset Psi.table { lastVersion := some 0 }, [])
    ∧ (procReset Psi.table { lastVersion := some 0 }).lastVersion = none
    ∧ consumePayload Psi.table { lastVersion := some 0 } true [0x02, 0xff, 0xff] 4 = .ok ({}, []) :=
  ⟨pointer_beyond_payload_reset { lastVersion := some 0 } (psiInv_of_none _ _ rfl) [0xff, 0xff] 4
      (by simp) (by decide),
   rfl, by decide +kernel⟩

/-- `short_first_share_never_applied_section` APPLIED: the first 5 bytes of the intact `patV1` at the
end of a unit-start payload (`pointer_field = 0`), the other 11 in a continuation payload, on a filter
that remembers version 0: nothing is delivered (F13's shape) -/
example : ∃ sfin, runPl Psi.table { lastVersion := some 0 }
    [⟨true, 0 :: patV1.take 5, 4⟩, ⟨false, patV1.drop 5 ++ List.replicate 173 0xff, 4⟩] = .ok (sfin, []) :=
  short_first_share_never_applied_section patV1 5 (by decide) (by decide) (by decide +kernel)
    { lastVersion := some 0 } (psiInv_of_none _ _ rfl) 4
    [⟨false, patV1.drop 5 ++ List.replicate 173 0xff, 4⟩] (by simp) (by decide +kernel)

end Ts.Props.C11
