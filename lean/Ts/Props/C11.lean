import Ts.Lemmas.C10
import Ts.Lemmas.C10b
import Ts.Props.C06
/-!
# C11 — after a damaged PAT / PMT transmission the next intact one is applied … PARTIALLY

**Known finding F2** (`/verif/DESIGN.md` §8): `DedupSectionSyntaxPayloadParser` records
`last_version` when a section STARTS — before it is known whether the section will be complete and
whether its CRC verifies.  A damaged transmission of version `v` therefore blocks every later
intact transmission of the same version `v`.  The model mirrors the pinned behaviour, so C11 as
stated is FALSE of the code.  This file proves

* `start_records_version`: the mechanism, for every accepted start on every state;
* `damage_then_new_version_applied_partial` (+ `_pat`, `_pmt`): the part that HOLDS — after any
  history, an intact transmission whose version differs from the last STARTED version
  (`s.lastVersion`) is delivered exactly once, passes the CRC layer and reaches the table processor;
* `damage_same_version_blocked` (+ `damaged_start_then_same_version_blocked`): the part that FAILS,
  for every state and section; `C11_counterexample` (+ `_app`, `first_copy_corrupt_never_demuxed`)
  on real bytes;
* `C11_full` / `C11_full_false`: the full-strength statement and its refutation;
  `C11_gap_is_F2`: the ONLY way `C11_full` fails is "last started version ≠ last applied version".
-/
namespace Ts.Props.C11
open Ts Ts.Psi Ts.Spec Ts.Spec.SectionMux Ts.Lemmas.C03 Ts.Lemmas.C10 Ts.App Ts.Demux

/-! ### the mechanism: the version is recorded at section start -/

/-- what "accepted start" means: syntax indicator set, at least the 8 fixed header bytes present
in the starting packet, `section_length ≤ 1021` — nothing about completeness or CRC -/
theorem accepted_start_iff (D : Bytes) :
    startOk Psi.table D = true ↔
      syntaxBit D = 1 ∧ 8 ≤ D.length ∧ sectionLength D ≤ 1021 := by
  rw [startOk_iff, syntaxBit_iff, sectionLength_eq]
  exact Iff.rfl

/-- **F2, mechanism.**  Every accepted section start, on ANY state `s` whatsoever, leaves
`lastVersion = some (version_number of the starting section)` — whether or not the section is
complete in this packet (`ds` may be empty and `s'.remaining` pending), whatever its CRC. -/
theorem start_records_version (s : St) (D : Bytes) (off : Nat) (hok : startOk Psi.table D = true) :
    ∃ s' ds, Psi.headerNew (D.take 3) = .ok (hdrOf D)
      ∧ Psi.procStart Psi.table s (hdrOf D) D off = .ok (s', ds)
      ∧ s'.lastVersion = some (versionOf D) := by
  have h8 : 8 ≤ D.length := ((startOk_iff Psi.table D).1 hok).2.1
  refine ⟨(startSpec Psi.table s D off).1, (startSpec Psi.table s D off).2,
    headerNew_eq D (by omega), procStart_eq Psi.table cfgOk_table s D off, ?_⟩
  rw [startSpec_records s D off hok, versionOf_eq]

/-- the same through `SectionPacketConsumer::consume`'s payload path: a unit-start payload
`pointer_field :: pre ++ D` -/
theorem start_records_version_payload (s : St) (hs : PsiInv .syntax s) (pre D : Bytes) (off : Nat)
    (hp : pre.length < 256) (hok : startOk Psi.table D = true) :
    ∃ s' ds, consumePayload Psi.table s true (UInt8.ofNat pre.length :: (pre ++ D)) off = .ok (s', ds)
      ∧ s'.lastVersion = some (versionOf D) ∧ PsiInv .syntax s' :=
  start_payload_records s hs pre D off hp hok

/-- continuation payloads (complete, short, missing, surplus — any) never change the recorded
version: it stays until the next accepted start or a `reset` -/
theorem continuation_keeps_version (conts : List Pl) (s : St) (hs : PsiInv .syntax s)
    (hus : ∀ q ∈ conts, q.us = false) (hne : ∀ q ∈ conts, 1 ≤ q.bytes.length) :
    ∃ s' ds, runPl Psi.table s conts = .ok (s', ds) ∧ s'.lastVersion = s.lastVersion
      ∧ PsiInv .syntax s' :=
  runPl_conts_lastVersion conts s hs hus hne

/-! ### the part of C11 that holds -/

/-- **C11 (partial).**  For ANY state `s` satisfying the buffer invariant (i.e. after any damaged
history: a stale `Buffering`, `ignoreRest` / `dedupIgnore` set or not) and any intact well-formed
transmission of a section `S` of at least 12 bytes with a valid CRC whose version differs from the
last STARTED version `s.lastVersion`: the model does not panic, `S` is delivered exactly once —
after at most one delivery completed by the pointer bytes —, passes the CRC layer (normal and
`cfg(fuzzing)` build), and the filter ends quiescent at `versionOf S`. -/
theorem damage_then_new_version_applied_partial (S : Bytes) (hS : WellFormedSection .syntax S)
    (h12 : 12 ≤ S.length) (hcrc : Ts.CrcSpec.crc S = 0)
    (m : Mux) (hm : WellFormedMux .syntax S m)
    (s : St) (hs : PsiInv .syntax s) (hv : s.lastVersion ≠ some (versionOf S))
    (off : Nat) (rest : List Pl) (hus : ∀ q ∈ rest, q.us = false)
    (hrest : rest.map (·.bytes) = m.rest) :
    ∃ sfin,
      runPl Psi.table s (⟨true, m.first S, off⟩ :: rest)
        = .ok (sfin, (preSpec Psi.table s m.pre).2
                      ++ [⟨S, if m.k = S.length then some (off + 1 + m.pre.length) else none⟩])
      ∧ (preSpec Psi.table s m.pre).2.length ≤ 1
      ∧ (∀ b, Psi.crcPass b S = .ok true)
      ∧ Quiescent (versionOf S) sfin := by
  obtain ⟨sfin, h1, h2, _, _⟩ := table_applied S hS (by omega) m hm s hs hv off rest hus hrest
  exact ⟨sfin, h1, preSpec_at_most_one_table s hs m.pre,
    fun b => crcPass_valid b S hS h12 hcrc, h2⟩

/-- … lifted to the PAT handler: over the packets `pks` of the transmission (188 bytes each, payload
views = the packetisation), the successive `App.consume` calls amount to: the table processor run
over what the pointer bytes completed, then `patSection` invoked on exactly `S` -/
theorem damage_then_new_version_applied_partial_pat (S : Bytes) (hS : WellFormedSection .syntax S)
    (h12 : 12 ≤ S.length) (hcrc : Ts.CrcSpec.crc S = 0)
    (m : Mux) (hm : WellFormedMux .syntax S m)
    (s : St) (hs : PsiInv .syntax s) (hv : s.lastVersion ≠ some (versionOf S))
    (reg : List Nat) (c : Ctx) (pks : List Pk) (hlen : ∀ pk ∈ pks, pk.bytes.length = 188)
    (off : Nat) (rest : List Pl)
    (hview : (pks.map (·.bytes)).filterMap plOf = ⟨true, m.first S, off⟩ :: rest)
    (hus : ∀ q ∈ rest, q.us = false) (hrest : rest.map (·.bytes) = m.rest) :
    ∃ sfin, Quiescent (versionOf S) sfin ∧
      consumeAll (.pat s reg) c pks =
        (runDeliveries patSection c reg (preSpec Psi.table s m.pre).2 >>= fun r1 =>
          patSection r1.1 r1.2.1 S >>= fun r2 => R.ok (.pat sfin r2.2.1, r2.1, r1.2.2 ++ r2.2.2)) :=
  table_applied_consumeAll patSection (fun s reg => .pat s reg)
    (fun s s' reg c pk ds h => consume_pat_eq s s' reg c pk ds h)
    S hS h12 hcrc m hm s hs hv reg c pks hlen off rest hview hus hrest

/-- … and to the PMT handler -/
theorem damage_then_new_version_applied_partial_pmt (pid prog : Nat)
    (S : Bytes) (hS : WellFormedSection .syntax S)
    (h12 : 12 ≤ S.length) (hcrc : Ts.CrcSpec.crc S = 0)
    (m : Mux) (hm : WellFormedMux .syntax S m)
    (s : St) (hs : PsiInv .syntax s) (hv : s.lastVersion ≠ some (versionOf S))
    (reg : List Nat) (c : Ctx) (pks : List Pk) (hlen : ∀ pk ∈ pks, pk.bytes.length = 188)
    (off : Nat) (rest : List Pl)
    (hview : (pks.map (·.bytes)).filterMap plOf = ⟨true, m.first S, off⟩ :: rest)
    (hus : ∀ q ∈ rest, q.us = false) (hrest : rest.map (·.bytes) = m.rest) :
    ∃ sfin, Quiescent (versionOf S) sfin ∧
      consumeAll (.pmt pid prog s reg) c pks =
        (runDeliveries (fun c r d => pmtSection c pid r d) c reg (preSpec Psi.table s m.pre).2 >>= fun r1 =>
          pmtSection r1.1 pid r1.2.1 S >>= fun r2 =>
            R.ok (.pmt pid prog sfin r2.2.1, r2.1, r1.2.2 ++ r2.2.2)) :=
  table_applied_consumeAll (fun c r d => pmtSection c pid r d) (fun s reg => .pmt pid prog s reg)
    (fun s s' reg c pk ds h => consume_pmt_eq pid prog s s' reg c pk ds h)
    S hS h12 hcrc m hm s hs hv reg c pks hlen off rest hview hus hrest

/-- `consumeAll` is the sequence of `App.consume` calls, spelled out -/
theorem consumeAll_iff (h : Handler) (c : Ctx) (pk : Pk) (pks : List Pk) :
    consumeAll h c [] = .ok (h, c, []) ∧
    consumeAll h c (pk :: pks) =
      (App.consume h c pk >>= fun r1 => consumeAll r1.1 r1.2.1 pks >>= fun r2 =>
        R.ok (r2.1, r2.2.1, r1.2.2 ++ r2.2.2)) := by
  refine ⟨rfl, ?_⟩
  simp only [consumeAll]
  cases App.consume h c pk with
  | panic m => rfl
  | ok r1 =>
    simp only [R.ok_bind]
    cases consumeAll r1.1 r1.2.1 pks with
    | panic m => rfl
    | ok r2 => rfl

/-- single-packet case with `pointer_field = 0`: `App.consume` on the one packet IS the table
processor on `S` -/
theorem damage_then_new_version_applied_partial_pat_1 (S : Bytes) (hS : WellFormedSection .syntax S)
    (h12 : 12 ≤ S.length) (hcrc : Ts.CrcSpec.crc S = 0)
    (m : Mux) (hm : WellFormedMux .syntax S m) (hpre : m.pre = []) (hrest0 : m.rest = [])
    (s : St) (hs : PsiInv .syntax s) (hv : s.lastVersion ≠ some (versionOf S))
    (reg : List Nat) (c : Ctx) (pk : Pk) (hlen : pk.bytes.length = 188) (off : Nat)
    (hview : plOf pk.bytes = some ⟨true, m.first S, off⟩) :
    ∃ sfin, Quiescent (versionOf S) sfin ∧
      App.consume (.pat s reg) c pk =
        (patSection c reg S >>= fun r2 => R.ok (.pat sfin r2.2.1, r2.1, r2.2.2)) := by
  obtain ⟨sfin, hq, h⟩ := damage_then_new_version_applied_partial_pat S hS h12 hcrc m hm s hs hv reg c
    [pk] (by simpa using hlen) off [] (by simp [hview]) (by simp) (by simp [hrest0])
  refine ⟨sfin, hq, ?_⟩
  rw [hpre] at h
  simp only [consumeAll, preSpec, if_true, runDeliveries, R.ok_bind, List.nil_append] at h
  cases hc : App.consume (.pat s reg) c pk with
  | panic msg =>
    rw [hc] at h
    cases hp : patSection c reg S with
    | panic m2 => rw [hp] at h; exact h
    | ok r2 => rw [hp] at h; cases h
  | ok r =>
    obtain ⟨h1, c1, chg1⟩ := r
    rw [hc] at h
    simp only [R.ok_bind, R.pure_eq, List.append_nil] at h
    exact h

/-! ### the part of C11 that fails (F2) -/

/-- **F2, general.**  From EVERY state that remembers version `v` — in particular after a damaged
start of a version-`v` section, with its buffer abandoned half-way, completed with a bad CRC, or
cut short — an intact well-formed transmission of ANY section with the same `version_number`
never delivers that section: the only deliveries are what its pointer bytes complete of the OLD
buffer, and with `pointer_field = 0` there is NO delivery at all.  The version stays recorded, so
this repeats for every later copy. -/
theorem damage_same_version_blocked (S : Bytes) (hS : WellFormedSection .syntax S) (h8 : 8 ≤ S.length)
    (m : Mux) (hm : WellFormedMux .syntax S m)
    (s : St) (hs : PsiInv .syntax s) (hv : s.lastVersion = some (versionOf S))
    (off : Nat) (rest : List Pl) (hus : ∀ q ∈ rest, q.us = false)
    (hrest : rest.map (·.bytes) = m.rest) :
    ∃ sfin,
      runPl Psi.table s (⟨true, m.first S, off⟩ :: rest) = .ok (sfin, (preSpec Psi.table s m.pre).2)
      ∧ (m.pre = [] → runPl Psi.table s (⟨true, m.first S, off⟩ :: rest) = .ok (sfin, []))
      ∧ sfin.lastVersion = some (versionOf S) ∧ PsiInv .syntax sfin := by
  obtain ⟨sfin, h1, h2, _⟩ := table_blocked S hS h8 m hm s hs hv off rest hus hrest
  have hsizes := fun q hq => (mux_payloads_rep S hS h8 m hm off rest hus hrest q hq).2
  obtain ⟨s', ds', h', hi⟩ := runPl_total_inv _ s hs hsizes
  rw [h1] at h'
  cases h'
  refine ⟨sfin, h1, ?_, h2, hi⟩
  intro hpre
  rw [h1, hpre]; rfl

/-- **F2, the whole scenario.**  Any state `s0`; a unit-start payload whose section start `D` is
accepted (this is all a "damaged transmission of version v" needs: its continuation may be lost,
truncated or corrupt); ANY continuation payloads `conts` (none, some, wrong ones); then an intact
transmission of a section `S` with the same `version_number`, `pointer_field = 0`, valid or not.
Then the run over everything delivers exactly what the damaged part alone delivers: the intact
copy contributes NOTHING. -/
theorem damaged_start_then_same_version_blocked (s0 : St) (hs0 : PsiInv .syntax s0)
    (pre D : Bytes) (off0 : Nat) (hp : pre.length < 256) (hok : startOk Psi.table D = true)
    (conts : List Pl) (husc : ∀ q ∈ conts, q.us = false) (hnec : ∀ q ∈ conts, 1 ≤ q.bytes.length)
    (S : Bytes) (hS : WellFormedSection .syntax S) (h8 : 8 ≤ S.length)
    (hver : versionOf S = versionOf D)
    (m : Mux) (hm : WellFormedMux .syntax S m) (hpre : m.pre = [])
    (off : Nat) (rest : List Pl) (hus : ∀ q ∈ rest, q.us = false)
    (hrest : rest.map (·.bytes) = m.rest) :
    ∃ s1 dsDamaged sfin,
      runPl Psi.table s0 (⟨true, UInt8.ofNat pre.length :: (pre ++ D), off0⟩ :: conts) = .ok (s1, dsDamaged)
      ∧ s1.lastVersion = some (versionOf D)
      ∧ runPl Psi.table s1 (⟨true, m.first S, off⟩ :: rest) = .ok (sfin, [])
      ∧ runPl Psi.table s0 ((⟨true, UInt8.ofNat pre.length :: (pre ++ D), off0⟩ :: conts)
            ++ (⟨true, m.first S, off⟩ :: rest)) = .ok (sfin, dsDamaged)
      ∧ sfin.lastVersion = some (versionOf D) := by
  obtain ⟨sa, da, ha, hva, hia⟩ := start_payload_records s0 hs0 pre D off0 hp hok
  obtain ⟨s1, dc, hc, hvc, hic⟩ := runPl_conts_lastVersion conts sa hia husc hnec
  have hv1 : s1.lastVersion = some (versionOf S) := by rw [hvc, hva, hver]
  obtain ⟨sfin, _, hb, hvf, _⟩ := damage_same_version_blocked S hS h8 m hm s1 hic hv1 off rest hus hrest
  have hb' := hb hpre
  have hrun1 : runPl Psi.table s0 (⟨true, UInt8.ofNat pre.length :: (pre ++ D), off0⟩ :: conts)
      = .ok (s1, da ++ dc) := by
    simp only [runPl, ha, R.ok_bind, hc]; rfl
  refine ⟨s1, da ++ dc, sfin, hrun1, by rw [hvc, hva], hb', ?_, by rw [hvf, hver]⟩
  rw [runPl_append, hrun1]
  simp only [R.ok_bind, hb', List.append_nil]

/-- **C11 counter-example on real bytes** (model level, 188-byte packets on PID 0).
`patGood`: the 16-byte PAT of C04 (version 0, valid CRC); `patBad`: the same with the last CRC bit
inverted.  First packet: the damaged copy — it IS delivered by the reassembly chain and FAILS the
CRC layer, so nothing is applied.  Second packet: the intact copy — NOTHING is delivered.  (On a
fresh filter the intact copy is delivered and passes.) -/
theorem C11_counterexample :
    patBad = Ts.CrcSpec.flipBit patGood 127
    ∧ WellFormedSection .syntax patGood ∧ Ts.CrcSpec.crc patGood = 0
    ∧ Psi.consume Psi.table {} (pktOf patBad) = .ok ({ lastVersion := some 0 }, [⟨patBad, some 5⟩])
    ∧ Psi.crcPass false patBad = .ok false
    ∧ Psi.consume Psi.table { lastVersion := some 0 } (pktOf patGood)
        = .ok ({ lastVersion := some 0, dedupIgnore := true }, [])
    ∧ Psi.consume Psi.table { lastVersion := some 0, dedupIgnore := true } (pktOf patGood)
        = .ok ({ lastVersion := some 0, dedupIgnore := true }, [])
    ∧ Psi.consume Psi.table {} (pktOf patGood) = .ok ({ lastVersion := some 0 }, [⟨patGood, some 5⟩])
    ∧ Psi.crcPass false patGood = .ok true := by
  decide +kernel

/-- the same through the whole application (`Demultiplex::new` + `push`): corrupt first copy, then
two intact copies — the only handler request ever made is the initial `ByPid(0)`; with the intact
copy alone, or with a corrupt copy followed by an intact copy of a DIFFERENT version, the PMT
handler for program 1 is requested -/
theorem C11_counterexample_app :
    requests (runApp {} [pktOf patBad ++ pktOf patGood ++ pktOf patGood]) = [.byPid 0]
    ∧ summary (runApp {} [pktOf patBad ++ pktOf patGood ++ pktOf patGood]) = some (1, 1, 1)
    ∧ requests (runApp {} [pktOf patGood]) = [.byPid 0, .pmt 0x1e0 1]
    ∧ requests (runApp {} [pktOf patBad ++ pktOf patV1]) = [.byPid 0, .pmt 0x1e0 1] := by
  decide +kernel

/-- **a stream whose first PAT copy is corrupt is NEVER demultiplexed**, however many intact
copies of that version follow (any repetition packets of version 0 on PID 0, any packetisation):
the context stays the initial one (no PMT handler is ever requested) and no slot other than the
PAT's exists. -/
theorem first_copy_corrupt_never_demuxed (pks : List Pk)
    (h : ∀ pk ∈ pks, pk.pid = 0 ∧ pk.flagged = false ∧ RepPacket 0 pk.bytes) :
    ∃ t' s', Demux.pushModel App.sem (App.init {}) (pk0 (pktOf patBad) 0 :: pks)
        = .ok (t', (App.init {}).2)
      ∧ t'.get 0 = some (.pat s' []) ∧ Quiescent 0 s' ∧ ∀ q, q ≠ 0 → t'.get q = none := by
  rw [Ts.Props.C06.push_refines_spec]
  obtain ⟨t0, c0, hinit, hg0, hb0⟩ : ∃ t0 c0, App.init {} = (t0, c0)
      ∧ t0.get 0 = some (.pat {} []) ∧ (c0.cfg.bypassCrc = false ∧ ∀ q, q ≠ 0 → t0.get q = none) :=
    ⟨_, _, rfl, Tab.get_insert_self _ _ _, rfl, fun q hq => by
      rw [Tab.get_insert_ne _ _ _ _ hq]; exact Tab.get_of_ge _ _ (by simp)⟩
  obtain ⟨pkb, hpkb, hpid, hfl, hpsi⟩ : ∃ pkb, pkb = pk0 (pktOf patBad) 0 ∧ pkb.pid = 0
      ∧ pkb.flagged = false
      ∧ Psi.consume Psi.table {} pkb.bytes = .ok ({ lastVersion := some 0 }, [⟨patBad, some 5⟩]) :=
    ⟨_, rfl, rfl, rfl, by decide +kernel⟩
  rw [← hpkb, hinit]
  have hgate : runDeliveries patSection c0 [] [⟨patBad, some 5⟩] = .ok (c0, [], []) :=
    Ts.Props.C04.gate_blocks patSection c0 [] hb0.1 _ (by
      intro d hd
      rw [List.mem_singleton] at hd
      subst hd
      decide +kernel)
  have hstep := step_pat_gated t0 c0 pkb {} _ [] _ (by rw [hpid]; exact hg0) hfl hpsi hgate
  rw [hpid] at hstep
  have hall : ∀ pk ∈ pks, pk.flagged = false ∧ RepPacket ((fun _ => 0) pk.pid) pk.bytes
      ∧ ∃ h, (t0.insert 0 (.pat { lastVersion := some 0 } [])).get pk.pid = some h
          ∧ QuiescentH ((fun _ => 0) pk.pid) h := by
    intro pk hm
    obtain ⟨a, b, d⟩ := h pk hm
    refine ⟨b, d, .pat { lastVersion := some 0 } [], by rw [a]; exact Tab.get_insert_self _ _ _, ?_⟩
    exact (⟨rfl, rfl⟩ : Quiescent 0 { lastVersion := some 0 })
  obtain ⟨t', hrun, ha, hb⟩ := run_rep_noop (fun _ => 0) c0 pks _ hall
  obtain ⟨h', hg', hr'⟩ := hb 0 (.pat { lastVersion := some 0 } []) (Tab.get_insert_self _ _ _)
    (⟨rfl, rfl⟩ : Quiescent 0 { lastVersion := some 0 })
  obtain ⟨s', e, hq', _⟩ := repRel_pat_inv hr'
  refine ⟨t', s', ?_, by rw [hg', e], hq', ?_⟩
  · rw [pushSpec_cons, hstep]; exact hrun
  · intro q hq
    rw [ha q (fun pk hm e => hq (by rw [← e]; exact (h pk hm).1)),
      Tab.get_insert_ne _ _ _ _ hq]
    exact hb0.2 q hq

/-! ### the full-strength statement and its refutation -/

/-- **C11 at full strength.**  A section filter starts fresh (`{}`) and is fed an arbitrary
history `hist` of non-empty payloads (damaged transmissions included), ending in state `s` with
deliveries `dsH`.  "Last applied" is the `version_number` of the last delivery that passed the CRC
layer (`lastApplied dsH`; `none` if nothing was ever applied — e.g. the first copy was corrupt).
Then any intact well-formed transmission of a section `S` (≥ 12 bytes, valid CRC) whose version
differs from the last APPLIED one is delivered. -/
def C11_full : Prop :=
  ∀ (hist : List Pl) (s : St) (dsH : List Delivery),
    (∀ q ∈ hist, 1 ≤ q.bytes.length) →
    runPl Psi.table {} hist = .ok (s, dsH) →
    ∀ (S : Bytes) (m : Mux) (off : Nat) (rest : List Pl),
      WellFormedSection .syntax S → 12 ≤ S.length → Ts.CrcSpec.crc S = 0 →
      WellFormedMux .syntax S m →
      (∀ q ∈ rest, q.us = false) → rest.map (·.bytes) = m.rest →
      lastApplied dsH ≠ some (versionOf S) →
      ∃ sfin ds, runPl Psi.table s (⟨true, m.first S, off⟩ :: rest) = .ok (sfin, ds)
        ∧ S ∈ ds.map (·.bytes)

/-- "last applied", spelled out -/
theorem lastApplied_iff (ds : List Delivery) :
    lastApplied ds =
      ((ds.filter (fun d => match Psi.crcPass false d.bytes with | .ok true => true | _ => false)).getLast?).map
        (fun d => versionOf d.bytes) := rfl

/-- **C11 as stated is false** (known finding F2).  Witness: a first-copy-corrupt stream — history
= the one payload carrying `patBad` (nothing was ever applied: `lastApplied = none`), then the
intact `patGood`. -/
theorem C11_full_false : ¬ C11_full := by
  intro hfull
  have hhist : runPl Psi.table {} [⟨true, plBytesOf patBad, 4⟩]
      = .ok ({ lastVersion := some 0 }, [⟨patBad, some 5⟩]) := by decide +kernel
  obtain ⟨sfin, ds, hrun, hmem⟩ := hfull [⟨true, plBytesOf patBad, 4⟩] _ _ (by decide +kernel) hhist
    patGood (muxOf patGood) 4 [] (by decide +kernel) (by decide +kernel) (by decide +kernel)
    (by decide +kernel) (by simp) rfl (by decide +kernel)
  obtain ⟨sfin', _, hb, _⟩ := damage_same_version_blocked patGood (by decide +kernel) (by decide +kernel)
    (muxOf patGood) (by decide +kernel) { lastVersion := some 0 } (psiInv_of_none _ _ rfl)
    (by decide +kernel) 4 [] (by simp) rfl
  rw [hb rfl] at hrun
  cases hrun
  simp at hmem

/-- the gap between `C11_full` and the partial theorem is EXACTLY F2: under the hypotheses of
`C11_full`, the conclusion can only fail when the last STARTED version (`s.lastVersion`) equals the
version of `S` — i.e. when a start of that version was recorded but (since it is not the last
applied one) never applied, or superseded -/
theorem C11_gap_is_F2 (hist : List Pl) (s : St) (dsH : List Delivery)
    (hne : ∀ q ∈ hist, 1 ≤ q.bytes.length) (hrun : runPl Psi.table {} hist = .ok (s, dsH))
    (S : Bytes) (m : Mux) (off : Nat) (rest : List Pl)
    (hS : WellFormedSection .syntax S) (h12 : 12 ≤ S.length) (hcrc : Ts.CrcSpec.crc S = 0)
    (hm : WellFormedMux .syntax S m)
    (hus : ∀ q ∈ rest, q.us = false) (hrest : rest.map (·.bytes) = m.rest)
    (hfail : ¬ ∃ sfin ds, runPl Psi.table s (⟨true, m.first S, off⟩ :: rest) = .ok (sfin, ds)
        ∧ S ∈ ds.map (·.bytes)) :
    s.lastVersion = some (versionOf S) := by
  apply Classical.byContradiction
  intro hv
  obtain ⟨s', ds', h', hi⟩ := runPl_total_inv hist {} (psiInv_of_none _ _ rfl) hne
  rw [hrun] at h'
  cases h'
  obtain ⟨sfin, h1, _⟩ := damage_then_new_version_applied_partial S hS h12 hcrc m hm s hi hv off rest hus hrest
  exact hfail ⟨sfin, _, h1, by simp⟩

/-! ### non-vacuity -/

/-- the concrete sections: well-formed, valid CRC / one flipped bit, versions 0 and 1 -/
example : WellFormedSection .syntax patGood ∧ 12 ≤ patGood.length ∧ Ts.CrcSpec.crc patGood = 0
    ∧ versionOf patGood = 0 := by decide +kernel
example : WellFormedSection .syntax patBad ∧ Ts.CrcSpec.crc patBad ≠ 0 ∧ versionOf patBad = 0 := by
  decide +kernel
example : WellFormedSection .syntax patV1 ∧ 12 ≤ patV1.length ∧ Ts.CrcSpec.crc patV1 = 0
    ∧ versionOf patV1 = 1 := by decide +kernel
example : WellFormedMux .syntax patGood (muxOf patGood) ∧ (muxOf patGood).pre = [] := by decide +kernel
example : WellFormedMux .syntax patV1 (muxOf patV1) := by decide +kernel

/-- accepted starts exist: the first 8 bytes of a section suffice (complete or not) -/
example : startOk Psi.table patGood = true ∧ startOk Psi.table (patGood.take 8) = true := by
  decide +kernel

/-- `start_records_version` on a truncated start (only 8 of 16 bytes arrive: nothing is delivered,
8 bytes are still owed — yet version 0 is already recorded) -/
example : Psi.procStart Psi.table {} (hdrOf (patGood.take 8)) (patGood.take 8) 5
    = .ok ({ lastVersion := some 0, buf := patGood.take 8, remaining := some 8 }, []) := by
  decide +kernel

/-- states after damage satisfy the invariant: stale `Buffering` after a lost continuation -/
example : PsiInv .syntax { lastVersion := some 0, buf := patGood.take 8, remaining := some 8 } := by
  intro n hn
  simp only [Option.some.injEq] at hn
  subst hn
  decide +kernel

/-- the partial theorem applied: lost continuation of version 0, then intact version 1 -/
example : ∃ sfin, runPl Psi.table { lastVersion := some 0, buf := patGood.take 8, remaining := some 8 }
      [⟨true, plBytesOf patV1, 4⟩] = .ok (sfin, [⟨patV1, some 5⟩]) ∧ Quiescent 1 sfin := by
  have hinv : PsiInv .syntax { lastVersion := some 0, buf := patGood.take 8, remaining := some 8 } := by
    intro n hn
    simp only [Option.some.injEq] at hn
    subst hn
    decide +kernel
  obtain ⟨sfin, h1, _, _, h2⟩ := damage_then_new_version_applied_partial patV1 (by decide +kernel)
    (by decide +kernel) (by decide +kernel) (muxOf patV1) (by decide +kernel) _ hinv (by decide +kernel)
    4 [] (by simp) rfl
  exact ⟨sfin, h1, h2⟩

/-- … and the blocked case on the same damaged state: intact version 0 is dropped -/
example : ∃ sfin, runPl Psi.table { lastVersion := some 0, buf := patGood.take 8, remaining := some 8 }
      [⟨true, plBytesOf patGood, 4⟩] = .ok (sfin, []) := by
  have hinv : PsiInv .syntax { lastVersion := some 0, buf := patGood.take 8, remaining := some 8 } := by
    intro n hn
    simp only [Option.some.injEq] at hn
    subst hn
    decide +kernel
  obtain ⟨sfin, _, h1, _⟩ := damage_same_version_blocked patGood (by decide +kernel) (by decide +kernel)
    (muxOf patGood) (by decide +kernel) _ hinv (by decide +kernel) 4 [] (by simp) rfl
  exact ⟨sfin, h1 rfl⟩

/-- the packet-level hypotheses of the handler lift are satisfiable -/
example : (pktOf patV1).length = 188
    ∧ ([pk0 (pktOf patV1) 0].map (·.bytes)).filterMap plOf
        = [⟨true, (muxOf patV1).first patV1, 4⟩] := by decide +kernel

/-- hypotheses of `first_copy_corrupt_never_demuxed`: intact copies are repetition packets -/
example : ∀ pk ∈ [pk0 (pktOf patGood) 188, pk0 (pktOf patGood) 376],
    pk.pid = 0 ∧ pk.flagged = false ∧ RepPacket 0 pk.bytes := by
  have hrep : RepPacket 0 (pktOf patGood) := by
    refine ⟨by decide +kernel, ?_⟩
    intro q hq
    have : plOf (pktOf patGood) = some ⟨true, plBytesOf patGood, 4⟩ := by decide +kernel
    rw [this] at hq
    cases hq
    exact Or.inr ⟨patGood, muxOf patGood, by decide +kernel, by decide +kernel, by decide +kernel,
      by decide +kernel, rfl, by decide +kernel⟩
  intro pk hm
  simp only [List.mem_cons, List.not_mem_nil, or_false] at hm
  rcases hm with e | e <;> subst e <;> exact ⟨rfl, rfl, hrep⟩

end Ts.Props.C11
