import Ts.Model.Af
import Ts.Spec.Bits
import Ts.Spec.AfSpec
import Ts.Lemmas.C13
import Ts.Lemmas.RevC
import Ts.Gen.Consts
/-!
# C13 — adaptation-field and extension accessors are bit-exact and never read outside the field

For every non-empty adaptation-field byte string `buf` (what `AdaptationField::new` asserts) each
accessor of the model (`packet.rs:158-389`: offsets *computed from the flags*) equals the field the
sequential cursor parser `specAf` / `specExt` (`Ts/Spec/AfSpec.lean`: ISO/IEC 13818-1 2.4.3.4 /
2.4.3.5 read top to bottom) finds:

* flag clear           ⇒ `FieldNotPresent`      (`Field.absent`)
* does not fit inside  ⇒ `NotEnoughData`        (`Field.truncated`)
* otherwise            ⇒ the `uimsbf` value of the bytes at the cursor (`Field.present`)

All results are `R.ok`: no accessor panics.  `never_outside*` make explicit that a reported value
is always decoded from `readN buf cur n` with `cur + n ≤ buf.length`; `never_outside_model_at` /
`never_outside_ext_model_at` name the position `cur` of every element in closed form
(`posOpcr` … `posSeamless` of `Ts/Spec/AfSpec.lean`).

Readings (review C) — places where the specification follows the code rather than the letter of the
standard, stated here so that nobody has to discover them:
* **`splice_countdown` is unsigned.**  The standard declares it `8 tcimsbf` (two's complement); the
  crate returns the raw `u8`.  `splice_countdown_is_raw_byte` says the API value is the byte read
  as `0..=255`; `splice_countdown_signed_reading` gives the conversion `spliceSigned` to the
  standard's value (byte `0xFF` ↦ API 255, standard −1).
* **An extension of length 0 is `NotEnoughData`** (`nonEmpty` in the spec): this follows
  `AdaptationFieldExtension::new`; the standard makes the extension's flags byte mandatory, so a
  zero length is malformed, but the choice of *which* error is the crate's.
* **Marker bits** of the seamless-splice DTS_next_AU are checked (first cleared one reported);
  the 6 reserved bits of PCR/OPCR, the reserved bits of the extension and of piecewise_rate are
  ignored, as the standard requires of decoders.
* Every theorem assumes `buf ≠ []` (what `AdaptationField::new` asserts); for adaptation fields
  taken from a packet this is `Ts.Props.C12.af_nonempty`.
* Not tied to regenerated constants (no constant exists in `Ts/Gen/Consts.lean`): the element sizes
  1 (splice_countdown), 2 (ltw), 3 (piecewise_rate), 5 (seamless splice) and the flag masks.
-/
namespace Ts.Props.C13
open Ts Ts.Spec Ts.Spec.AfSpec Ts.Time Ts.Af Ts.Lemmas.C13 Ts.Lemmas.RevC

/-! ### tie to the constant regenerated from `/repo/src/packet.rs` -/
/-- `AdaptationField::PCR_SIZE`: the regenerated value, the model's constant, and the `6` the
specification (`specAf`) uses for PCR and OPCR -/
theorem tie_pcr_size : Ts.Gen.pcrSize = Af.PCR_SIZE ∧ Ts.Gen.pcrSize = 6 := by decide

/-! ### `AdaptationField::new` -/

theorem af_new_iff (buf : Bytes) : (Af.new buf).isOk = true ↔ buf ≠ [] := by
  unfold Af.new assertR
  cases buf <;> simp [R.isOk, bind]

theorem af_new_ok (buf : Bytes) (hne : buf ≠ []) : Af.new buf = .ok buf := by
  cases buf with
  | nil => exact absurd rfl hne
  | cons a t => rfl

/-! ### indicators (2.4.3.4, bits 0..2 of the first byte) -/

theorem indicators_exact (buf : Bytes) (hne : buf ≠ []) :
    Af.discontinuity buf = .ok (readBits buf 0 1 == 1)
      ∧ Af.randomAccess buf = .ok (readBits buf 1 1 == 1)
      ∧ Af.esPriority buf = .ok (readBits buf 2 1) := by
  unfold Af.discontinuity Af.randomAccess Af.esPriority
  rw [flags_ok buf hne, disc_flag, rai_flag, espi_val]
  exact ⟨rfl, rfl, rfl⟩

theorem indicators_spec (buf : Bytes) (hne : buf ≠ []) :
    Af.discontinuity buf = .ok (specAf buf).discontinuity
      ∧ Af.randomAccess buf = .ok (specAf buf).randomAccess
      ∧ Af.esPriority buf = .ok (specAf buf).esPriority :=
  indicators_exact buf hne

/-! ### optional elements of the adaptation field -/

theorem pcr_exact (buf : Bytes) (hne : buf ≠ []) : Af.pcr buf = .ok (toRes (specAf buf).pcr) := by
  unfold Af.pcr
  rw [flags_ok buf hne, spec_pcr, pcr_flag]
  exact clock_field buf _ 1

theorem opcr_exact (buf : Bytes) (hne : buf ≠ []) : Af.opcr buf = .ok (toRes (specAf buf).opcr) := by
  unfold Af.opcr
  rw [flags_ok buf hne, spec_opcr, opcr_flag, cur1_eq]
  exact clock_field buf _ _

theorem splice_exact (buf : Bytes) (hne : buf ≠ []) :
    Af.spliceCountdown buf = .ok (toRes (specAf buf).splice) := by
  unfold Af.spliceCountdown
  rw [flags_ok buf hne, spec_splice, splice_flag, cur2_eq]
  exact byte_field buf _ _

theorem private_exact (buf : Bytes) (hne : buf ≠ []) :
    Af.privateData buf = .ok (toRes (specAf buf).priv) := by
  unfold Af.privateData
  rw [flags_ok buf hne, spec_priv, priv_flag, cur3_eq]
  exact priv_field buf _ _

theorem extension_exact (buf : Bytes) (hne : buf ≠ []) :
    Af.extension buf = .ok (toRes (specAf buf).ext) := by
  unfold Af.extension
  rw [flags_ok buf hne, spec_ext, ext_flag]
  unfold cur4
  rw [priv_flag, cur3_eq]
  simp only [R.ok_bind]
  generalize byteD buf 0 = f
  cases h5 : extFlag f
  · rfl
  · rw [if_pos rfl, optLenPrefixed_true]
    exact ext_from buf (privFlag f) (privOffset f)

/-! ### adaptation field extension (2.4.3.5) -/

theorem ltw_exact (e : Bytes) (hne : e ≠ []) : Af.ltwOffset e = .ok (toRes (specExt e).ltw) := by
  unfold Af.ltwOffset
  rw [flags_ok e hne, spec_ltw, ltw_flag]
  exact ltw_field e _

theorem piecewise_exact (e : Bytes) (hne : e ≠ []) :
    Af.piecewiseRate e = .ok (toRes (specExt e).piecewise) := by
  unfold Af.piecewiseRate
  rw [flags_ok e hne, spec_piecewise, piecewise_flag, ecur1_eq]
  exact pw_field e _ _

theorem seamless_exact (e : Bytes) (hne : e ≠ []) :
    Af.seamlessSplice e = .ok (toResSplice (specExt e).seamless) := by
  unfold Af.seamlessSplice
  rw [flags_ok e hne, spec_seamless, seamless_flag, ecur2_eq]
  exact ss_field e _ _

/-- whatever `adaptation_field_extension()` hands out is non-empty, so the three extension theorems
apply to it -/
theorem extension_nonempty (buf : Bytes) (hne : buf ≠ []) (e : Bytes)
    (h : Af.extension buf = .ok (.ok e)) : e ≠ [] := by
  rw [extension_exact buf hne] at h
  injection h with h
  have := toRes_ok _ _ h
  rw [spec_ext] at this
  exact (nonEmpty_present _ _ this).2

/-! ### no panics -/

theorem no_panic (buf : Bytes) (hne : buf ≠ []) :
    (Af.discontinuity buf).isOk ∧ (Af.randomAccess buf).isOk ∧ (Af.esPriority buf).isOk
      ∧ (Af.pcr buf).isOk ∧ (Af.opcr buf).isOk ∧ (Af.spliceCountdown buf).isOk
      ∧ (Af.privateData buf).isOk ∧ (Af.extension buf).isOk
      ∧ (Af.ltwOffset buf).isOk ∧ (Af.piecewiseRate buf).isOk ∧ (Af.seamlessSplice buf).isOk := by
  obtain ⟨h1, h2, h3⟩ := indicators_exact buf hne
  rw [h1, h2, h3, pcr_exact buf hne, opcr_exact buf hne, splice_exact buf hne, private_exact buf hne,
    extension_exact buf hne, ltw_exact buf hne, piecewise_exact buf hne, seamless_exact buf hne]
  simp [R.isOk]

/-! ### clear flag ⇒ not present; overrun ⇒ not enough data (the spec's reading, made explicit) -/

/-- an optional fixed-size element: absent iff its flag is clear, truncated iff its flag is set and
it does not fit, present (with exactly the `n` bytes at the cursor) iff it is set and fits -/
theorem optElem_cases (flag : Bool) (buf : Bytes) (cur n : Nat) :
    (flag = false → (optElem flag buf cur n).1 = .absent)
      ∧ (flag = true → ¬ cur + n ≤ buf.length → (optElem flag buf cur n).1 = .truncated)
      ∧ (flag = true → cur + n ≤ buf.length →
          (optElem flag buf cur n).1 = .present ((buf.drop cur).take n)) := by
  refine ⟨?_, ?_, ?_⟩
  · intro h; subst h; rfl
  · intro h hl; subst h; unfold optElem; rw [if_pos rfl, readN_short _ _ _ hl]; rfl
  · intro h hl; subst h; unfold optElem; rw [if_pos rfl, readN_ok _ _ _ hl]; rfl

theorem pcr_flag_clear (buf : Bytes) (hne : buf ≠ []) (h : readBits buf 3 1 = 0) :
    Af.pcr buf = .ok (.error .fieldNotPresent) := by
  rw [pcr_exact buf hne, spec_pcr, h]; rfl

theorem pcr_overrun (buf : Bytes) (hne : buf ≠ []) (h : readBits buf 3 1 = 1) (hl : buf.length < 7) :
    Af.pcr buf = .ok (.error .notEnoughData) := by
  rw [pcr_exact buf hne, spec_pcr, h]
  have := (optElem_cases true buf 1 6).2.1 rfl (by omega)
  simp only [beq_self_eq_true, this]; rfl

theorem pcr_value (buf : Bytes) (hne : buf ≠ []) (h : readBits buf 3 1 = 1) (hl : 7 ≤ buf.length) :
    Af.pcr buf = .ok (.ok ⟨readBits ((buf.drop 1).take 6) 0 33, readBits ((buf.drop 1).take 6) 39 9⟩) := by
  rw [pcr_exact buf hne, spec_pcr, h]
  have := (optElem_cases true buf 1 6).2.2 rfl (by omega)
  simp only [beq_self_eq_true, this]; rfl

/-! ### never assembled from bytes outside the field

The accessors receive only `buf`, so trivially no byte outside it can influence a result.  The
content of the clause is that a *reported value* is decoded from a window `readN buf cur n` that
lies inside `buf` (`readN_inside`: `cur + n ≤ buf.length`, and byte `i` of the window is byte
`cur + i` of `buf`).  First for the specification, then (via the exactness theorems) for the model. -/

/-- what `readN` returns is a window inside `buf` -/
theorem readN_window (buf : Bytes) (cur n : Nat) (d : Bytes) (h : readN buf cur n = some d) :
    cur + n ≤ buf.length ∧ d = (buf.drop cur).take n ∧ d.length = n ∧
      ∀ i, i < n → byteD d i = byteD buf (cur + i) :=
  readN_inside buf cur n d h

theorem never_outside (buf : Bytes) :
    (∀ v, (specAf buf).pcr = .present v → ∃ cur d, readN buf cur 6 = some d ∧ v = clockOf d)
      ∧ (∀ v, (specAf buf).opcr = .present v → ∃ cur d, readN buf cur 6 = some d ∧ v = clockOf d)
      ∧ (∀ v, (specAf buf).splice = .present v → ∃ cur d, readN buf cur 1 = some d ∧ v = readBits d 0 8)
      ∧ (∀ v, (specAf buf).priv = .present v →
          ∃ cur, cur + 1 ≤ buf.length ∧ readN buf (cur + 1) (byteD buf cur) = some v)
      ∧ (∀ v, (specAf buf).ext = .present v →
          ∃ cur, cur + 1 ≤ buf.length ∧ readN buf (cur + 1) (byteD buf cur) = some v) := by
  refine ⟨?_, ?_, ?_, ?_, ?_⟩
  · intro v h
    rw [spec_pcr] at h
    obtain ⟨d, hd, hv⟩ := map_present _ _ _ h
    exact ⟨_, d, (optElem_present _ _ _ _ _ hd).2, hv⟩
  · intro v h
    rw [spec_opcr] at h
    obtain ⟨d, hd, hv⟩ := map_present _ _ _ h
    exact ⟨_, d, (optElem_present _ _ _ _ _ hd).2, hv⟩
  · intro v h
    rw [spec_splice] at h
    obtain ⟨d, hd, hv⟩ := map_present _ _ _ h
    exact ⟨_, d, (optElem_present _ _ _ _ _ hd).2, hv⟩
  · intro v h
    rw [spec_priv] at h
    exact ⟨_, (optLenPrefixed_present _ _ _ _ h).2⟩
  · intro v h
    rw [spec_ext] at h
    exact ⟨_, (optLenPrefixed_present _ _ _ _ (nonEmpty_present _ _ h).1).2⟩

theorem never_outside_ext (e : Bytes) :
    (∀ v, (specExt e).ltw = .present v → ∃ cur d, readN e cur 2 = some d ∧ v = ltwOf d)
      ∧ (∀ v, (specExt e).piecewise = .present v → ∃ cur d, readN e cur 3 = some d ∧ v = piecewiseOf d)
      ∧ (∀ v, (specExt e).seamless = .present v → ∃ cur d, readN e cur 5 = some d ∧ v = seamlessOf d) := by
  refine ⟨?_, ?_, ?_⟩
  · intro v h
    rw [spec_ltw] at h
    obtain ⟨d, hd, hv⟩ := map_present _ _ _ h
    exact ⟨_, d, (optElem_present _ _ _ _ _ hd).2, hv⟩
  · intro v h
    rw [spec_piecewise] at h
    obtain ⟨d, hd, hv⟩ := map_present _ _ _ h
    exact ⟨_, d, (optElem_present _ _ _ _ _ hd).2, hv⟩
  · intro v h
    rw [spec_seamless] at h
    obtain ⟨d, hd, hv⟩ := map_present _ _ _ h
    exact ⟨_, d, (optElem_present _ _ _ _ _ hd).2, hv⟩

/-- the model: every value an accessor returns is decoded from *some* window inside `buf`.
WEAK: the window offset `cur` is existentially quantified and otherwise unconstrained; the sharp
version, which names `cur`, is `never_outside_model_at` below. -/
theorem never_outside_model (buf : Bytes) (hne : buf ≠ []) :
    (∀ v, Af.pcr buf = .ok (.ok v) →
        ∃ cur d, cur + 6 ≤ buf.length ∧ d = (buf.drop cur).take 6 ∧ v = clockOf d)
      ∧ (∀ v, Af.opcr buf = .ok (.ok v) →
        ∃ cur d, cur + 6 ≤ buf.length ∧ d = (buf.drop cur).take 6 ∧ v = clockOf d)
      ∧ (∀ v, Af.spliceCountdown buf = .ok (.ok v) → ∃ cur, cur + 1 ≤ buf.length ∧ v = byteD buf cur)
      ∧ (∀ v, Af.privateData buf = .ok (.ok v) →
        ∃ cur n, cur + n ≤ buf.length ∧ v = (buf.drop cur).take n)
      ∧ (∀ v, Af.extension buf = .ok (.ok v) →
        ∃ cur n, cur + n ≤ buf.length ∧ v = (buf.drop cur).take n) := by
  obtain ⟨s1, s2, s3, s4, s5⟩ := never_outside buf
  refine ⟨?_, ?_, ?_, ?_, ?_⟩
  · intro v h
    rw [pcr_exact buf hne] at h; injection h with h
    obtain ⟨cur, d, hr, hv⟩ := s1 v (toRes_ok _ _ h)
    obtain ⟨h1, h2, _, _⟩ := readN_inside _ _ _ _ hr
    exact ⟨cur, d, h1, h2, hv⟩
  · intro v h
    rw [opcr_exact buf hne] at h; injection h with h
    obtain ⟨cur, d, hr, hv⟩ := s2 v (toRes_ok _ _ h)
    obtain ⟨h1, h2, _, _⟩ := readN_inside _ _ _ _ hr
    exact ⟨cur, d, h1, h2, hv⟩
  · intro v h
    rw [splice_exact buf hne] at h; injection h with h
    obtain ⟨cur, d, hr, hv⟩ := s3 v (toRes_ok _ _ h)
    obtain ⟨h1, _, _, h4⟩ := readN_inside _ _ _ _ hr
    refine ⟨cur, h1, ?_⟩
    have := readBits_byte d 0
    simp only [Nat.mul_zero] at this
    rw [hv, this, h4 0 (by omega)]; rfl
  · intro v h
    rw [private_exact buf hne] at h; injection h with h
    obtain ⟨cur, _, hr⟩ := s4 v (toRes_ok _ _ h)
    obtain ⟨h1, h2, _, _⟩ := readN_inside _ _ _ _ hr
    exact ⟨_, _, h1, h2⟩
  · intro v h
    rw [extension_exact buf hne] at h; injection h with h
    obtain ⟨cur, _, hr⟩ := s5 v (toRes_ok _ _ h)
    obtain ⟨h1, h2, _, _⟩ := readN_inside _ _ _ _ hr
    exact ⟨_, _, h1, h2⟩

theorem never_outside_ext_model (e : Bytes) (hne : e ≠ []) :
    (∀ v, Af.ltwOffset e = .ok (.ok v) →
        ∃ cur d, cur + 2 ≤ e.length ∧ d = (e.drop cur).take 2 ∧ v = ltwOf d)
      ∧ (∀ v, Af.piecewiseRate e = .ok (.ok v) →
        ∃ cur d, cur + 3 ≤ e.length ∧ d = (e.drop cur).take 3 ∧ v = piecewiseOf d)
      ∧ (∀ v, Af.seamlessSplice e = .ok (.ok v) →
        ∃ cur d, cur + 5 ≤ e.length ∧ d = (e.drop cur).take 5 ∧ seamlessOf d = .ok v) := by
  obtain ⟨s1, s2, s3⟩ := never_outside_ext e
  refine ⟨?_, ?_, ?_⟩
  · intro v h
    rw [ltw_exact e hne] at h; injection h with h
    obtain ⟨cur, d, hr, hv⟩ := s1 v (toRes_ok _ _ h)
    obtain ⟨h1, h2, _, _⟩ := readN_inside _ _ _ _ hr
    exact ⟨cur, d, h1, h2, hv⟩
  · intro v h
    rw [piecewise_exact e hne] at h; injection h with h
    obtain ⟨cur, d, hr, hv⟩ := s2 v (toRes_ok _ _ h)
    obtain ⟨h1, h2, _, _⟩ := readN_inside _ _ _ _ hr
    exact ⟨cur, d, h1, h2, hv⟩
  · intro v h
    rw [seamless_exact e hne] at h; injection h with h
    have hp : (specExt e).seamless = .present (.ok v) := by
      cases hs : (specExt e).seamless with
      | absent => rw [hs] at h; cases h
      | truncated => rw [hs] at h; cases h
      | present w =>
        rw [hs] at h
        cases w with
        | error n => cases h
        | ok u => injection h with h; rw [h]
    obtain ⟨cur, d, hr, hv⟩ := s3 _ hp
    obtain ⟨h1, h2, _, _⟩ := readN_inside _ _ _ _ hr
    exact ⟨cur, d, h1, h2, hv.symm⟩

/-! ### the sharp form: each value comes from the window at its element's position

Stronger than `never_outside_model`: the flag is set, the window starts at the closed-form position
of the element (`posOpcr`, `posSplice`, `posPriv`, `posExt` of `Ts/Spec/AfSpec.lean`, written from
the flag bits and — for `posExt` — the private-data length byte), it lies inside `buf`, and the value
is the decode of exactly those bytes.  Hypothesis: `buf ≠ []`. -/
theorem never_outside_model_at (buf : Bytes) (hne : buf ≠ []) :
    (∀ v, Af.pcr buf = .ok (.ok v) →
        readBits buf 3 1 = 1 ∧ 1 + 6 ≤ buf.length ∧ v = clockOf ((buf.drop 1).take 6))
      ∧ (∀ v, Af.opcr buf = .ok (.ok v) →
        readBits buf 4 1 = 1 ∧ posOpcr buf + 6 ≤ buf.length
          ∧ v = clockOf ((buf.drop (posOpcr buf)).take 6))
      ∧ (∀ v, Af.spliceCountdown buf = .ok (.ok v) →
        readBits buf 5 1 = 1 ∧ posSplice buf + 1 ≤ buf.length ∧ v = byteD buf (posSplice buf))
      ∧ (∀ v, Af.privateData buf = .ok (.ok v) →
        readBits buf 6 1 = 1 ∧ posPriv buf + 1 + byteD buf (posPriv buf) ≤ buf.length
          ∧ v = (buf.drop (posPriv buf + 1)).take (byteD buf (posPriv buf)))
      ∧ (∀ v, Af.extension buf = .ok (.ok v) →
        readBits buf 7 1 = 1 ∧ posExt buf + 1 + byteD buf (posExt buf) ≤ buf.length
          ∧ v = (buf.drop (posExt buf + 1)).take (byteD buf (posExt buf)) ∧ v ≠ []) := by
  refine ⟨?_, ?_, ?_, ?_, ?_⟩
  · intro v h
    rw [pcr_exact buf hne] at h; injection h with h
    have h := toRes_ok _ _ h
    rw [spec_pcr] at h
    obtain ⟨d, hd, hv⟩ := map_present _ _ _ h
    obtain ⟨hf, hr⟩ := optElem_present _ _ _ _ _ hd
    obtain ⟨h1, h2, _, _⟩ := readN_inside _ _ _ _ hr
    exact ⟨by simpa using hf, h1, by rw [hv, h2]⟩
  · intro v h
    rw [opcr_exact buf hne] at h; injection h with h
    have h := toRes_ok _ _ h
    rw [spec_opcr, cur1_pos] at h
    obtain ⟨d, hd, hv⟩ := map_present _ _ _ h
    obtain ⟨hf, hr⟩ := optElem_present _ _ _ _ _ hd
    obtain ⟨h1, h2, _, _⟩ := readN_inside _ _ _ _ hr
    exact ⟨by simpa using hf, h1, by rw [hv, h2]⟩
  · intro v h
    rw [splice_exact buf hne] at h; injection h with h
    have h := toRes_ok _ _ h
    rw [spec_splice, cur2_pos] at h
    obtain ⟨d, hd, hv⟩ := map_present _ _ _ h
    obtain ⟨hf, hr⟩ := optElem_present _ _ _ _ _ hd
    obtain ⟨h1, _, _, h4⟩ := readN_inside _ _ _ _ hr
    refine ⟨by simpa using hf, h1, ?_⟩
    have := readBits_byte d 0
    simp only [Nat.mul_zero] at this
    rw [hv, this, h4 0 (by omega)]; rfl
  · intro v h
    rw [private_exact buf hne] at h; injection h with h
    have h := toRes_ok _ _ h
    rw [spec_priv, cur3_pos] at h
    obtain ⟨hf, hl, hr⟩ := optLenPrefixed_present _ _ _ _ h
    obtain ⟨h1, h2, _, _⟩ := readN_inside _ _ _ _ hr
    exact ⟨by simpa using hf, h1, h2⟩
  · intro v h
    rw [extension_exact buf hne] at h; injection h with h
    have h := toRes_ok _ _ h
    rw [spec_ext, cur4_pos] at h
    obtain ⟨hp, hnv⟩ := nonEmpty_present _ _ h
    obtain ⟨hf, hl, hr⟩ := optLenPrefixed_present _ _ _ _ hp
    obtain ⟨h1, h2, _, _⟩ := readN_inside _ _ _ _ hr
    exact ⟨by simpa using hf, h1, h2, hnv⟩

/-- the same for the extension (`e ≠ []`, which `extension_nonempty` provides) -/
theorem never_outside_ext_model_at (e : Bytes) (hne : e ≠ []) :
    (∀ v, Af.ltwOffset e = .ok (.ok v) →
        readBits e 0 1 = 1 ∧ 1 + 2 ≤ e.length ∧ v = ltwOf ((e.drop 1).take 2))
      ∧ (∀ v, Af.piecewiseRate e = .ok (.ok v) →
        readBits e 1 1 = 1 ∧ posPiecewise e + 3 ≤ e.length
          ∧ v = piecewiseOf ((e.drop (posPiecewise e)).take 3))
      ∧ (∀ v, Af.seamlessSplice e = .ok (.ok v) →
        readBits e 2 1 = 1 ∧ posSeamless e + 5 ≤ e.length
          ∧ seamlessOf ((e.drop (posSeamless e)).take 5) = .ok v) := by
  refine ⟨?_, ?_, ?_⟩
  · intro v h
    rw [ltw_exact e hne] at h; injection h with h
    have h := toRes_ok _ _ h
    rw [spec_ltw] at h
    obtain ⟨d, hd, hv⟩ := map_present _ _ _ h
    obtain ⟨hf, hr⟩ := optElem_present _ _ _ _ _ hd
    obtain ⟨h1, h2, _, _⟩ := readN_inside _ _ _ _ hr
    exact ⟨by simpa using hf, h1, by rw [hv, h2]⟩
  · intro v h
    rw [piecewise_exact e hne] at h; injection h with h
    have h := toRes_ok _ _ h
    rw [spec_piecewise, ecur1_pos] at h
    obtain ⟨d, hd, hv⟩ := map_present _ _ _ h
    obtain ⟨hf, hr⟩ := optElem_present _ _ _ _ _ hd
    obtain ⟨h1, h2, _, _⟩ := readN_inside _ _ _ _ hr
    exact ⟨by simpa using hf, h1, by rw [hv, h2]⟩
  · intro v h
    rw [seamless_exact e hne] at h; injection h with h
    have hp : (specExt e).seamless = .present (.ok v) := by
      cases hs : (specExt e).seamless with
      | absent => rw [hs] at h; cases h
      | truncated => rw [hs] at h; cases h
      | present w =>
        rw [hs] at h
        cases w with
        | error n => cases h
        | ok u => injection h with h; rw [h]
    rw [spec_seamless, ecur2_pos] at hp
    obtain ⟨d, hd, hv⟩ := map_present _ _ _ hp
    obtain ⟨hf, hr⟩ := optElem_present _ _ _ _ _ hd
    obtain ⟨h1, h2, _, _⟩ := readN_inside _ _ _ _ hr
    exact ⟨by simpa using hf, h1, by rw [← h2]; exact hv.symm⟩

/-! ### splice_countdown: raw byte, and its signed reading -/

/-- When splicing_point_flag is set and the byte at `posSplice buf` lies inside the field,
`splice_countdown()` returns exactly that byte as an UNSIGNED number `0..=255` (the `uimsbf` reading
of the 8 bits).  The standard's reading of the same 8 bits is signed: see
`splice_countdown_signed_reading`. -/
theorem splice_countdown_is_raw_byte (buf : Bytes) (hne : buf ≠ [])
    (hf : readBits buf 5 1 = 1) (hfit : posSplice buf + 1 ≤ buf.length) :
    Af.spliceCountdown buf = .ok (.ok (byteD buf (posSplice buf)))
      ∧ byteD buf (posSplice buf) = readBits buf (8 * posSplice buf) 8
      ∧ byteD buf (posSplice buf) < 256 := by
  refine ⟨?_, (readBits_byte buf _).symm, byteD_lt buf _⟩
  rw [splice_exact buf hne, spec_splice, cur2_pos, hf]
  have := (optElem_cases true buf (posSplice buf) 1).2.2 rfl hfit
  simp only [beq_self_eq_true, this, Field.map, toRes]
  have r := readBits_byte ((buf.drop (posSplice buf)).take 1) 0
  simp only [Nat.mul_zero] at r
  rw [r, byteD_take_drop _ _ _ _ (by omega)]; rfl

/-- Conversion to the standard's value: for every `v` the accessor returns, `spliceSigned v`
(`v` if `v < 128`, else `v − 256`) is the `tcimsbf` (two's complement) reading `readSigned` of the
8 bits at the element's position, and lies in `−128..=127`.  A caller that wants ISO/IEC 13818-1's
`splice_countdown` must apply `spliceSigned` (in Rust: `as i8`) to the returned `u8`. -/
theorem splice_countdown_signed_reading (buf : Bytes) (hne : buf ≠ []) (v : Nat)
    (h : Af.spliceCountdown buf = .ok (.ok v)) :
    spliceSigned v = readSigned buf (8 * posSplice buf) 8
      ∧ -128 ≤ spliceSigned v ∧ spliceSigned v ≤ 127
      ∧ (v < 128 → spliceSigned v = v) ∧ (128 ≤ v → spliceSigned v = (v : Int) - 256) := by
  obtain ⟨_, hl, hv⟩ := (never_outside_model_at buf hne).2.2.1 v h
  have hlt : v < 256 := by rw [hv]; exact byteD_lt _ _
  refine ⟨?_, ?_, ?_, ?_, ?_⟩
  · rw [hv, ← readBits_byte buf (posSplice buf)]
    exact spliceSigned_eq_readSigned buf _
  all_goals (unfold spliceSigned; split <;> omega)

/-! ### non-vacuity -/

/-- all five flags (and the three indicators) set, every element fits:
PCR, OPCR, splice_countdown, 2 private bytes, an 11-byte extension with ltw + piecewise + seamless -/
def exFull : Bytes :=
  [0xFF, 0x12, 0x34, 0x56, 0x78, 0x80, 0x2A, 0x00, 0x00, 0x00, 0x01, 0x7F, 0x05, 0xFE,
   0x02, 0xAA, 0xBB, 0x0B, 0xE0, 0x81, 0x23, 0xC1, 0x02, 0x03, 0x5B, 0x22, 0x45, 0x66, 0x89]

def exExt : Bytes := [0xE0, 0x81, 0x23, 0xC1, 0x02, 0x03, 0x5B, 0x22, 0x45, 0x66, 0x89]

example : (specAf exFull).pcr = .present ⟨0x2468ACF1, 42⟩ := by decide +kernel
example : (specAf exFull).opcr = .present ⟨2, 261⟩ := by decide +kernel
example : (specAf exFull).splice = .present 0xFE := by decide +kernel
example : (specAf exFull).priv = .present [0xAA, 0xBB] := by decide +kernel
example : (specAf exFull).ext = .present exExt := by decide +kernel
example : Af.pcr exFull = .ok (.ok ⟨0x2468ACF1, 42⟩) := by
  rw [pcr_exact exFull (by decide), show (specAf exFull).pcr = .present ⟨0x2468ACF1, 42⟩ by decide +kernel]; rfl
example : Af.extension exFull = .ok (.ok exExt) := by
  rw [extension_exact exFull (by decide), show (specAf exFull).ext = .present exExt by decide +kernel]; rfl

example : (specExt exExt).ltw = .present (some 0x0123) := by decide +kernel
example : (specExt exExt).piecewise = .present 0x010203 := by decide +kernel
example : (specExt exExt).seamless = .present (.ok (5, 5512442692)) := by rfl
/-- marker bit 23 cleared -/
example : (specExt [0xE0, 0x81, 0x23, 0xC1, 0x02, 0x03, 0x5B, 0x22, 0x44, 0x66, 0x89]).seamless
    = .present (.error 23) := by rfl
example : Af.seamlessSplice exExt = .ok (.ok (5, 5512442692)) := by
  rw [seamless_exact exExt (by decide),
    show (specExt exExt).seamless = .present (.ok (5, 5512442692)) by rfl]; rfl
example : Af.seamlessSplice [0xE0, 0x81, 0x23, 0xC1, 0x02, 0x03, 0x5B, 0x22, 0x44, 0x66, 0x89]
    = .ok (.error (.spliceTimestampError (.markerBitNotSet 23))) := by
  rw [seamless_exact _ (by decide),
    show (specExt [0xE0, 0x81, 0x23, 0xC1, 0x02, 0x03, 0x5B, 0x22, 0x44, 0x66, 0x89]).seamless
      = .present (.error 23) by rfl]; rfl
/-- one byte short: seamless_splice is truncated, the elements before it are unaffected -/
example : (specExt (exExt.take 10)).seamless = .truncated
    ∧ (specExt (exExt.take 10)).piecewise = .present 0x010203 := ⟨by rfl, by decide +kernel⟩

/-- cut in the middle of OPCR: PCR still present, OPCR and everything after it truncated -/
example : (specAf (exFull.take 10)).pcr = .present ⟨0x2468ACF1, 42⟩
    ∧ (specAf (exFull.take 10)).opcr = .truncated
    ∧ (specAf (exFull.take 10)).splice = .truncated
    ∧ (specAf (exFull.take 10)).priv = .truncated
    ∧ (specAf (exFull.take 10)).ext = .truncated := by decide +kernel
example : Af.opcr (exFull.take 10) = .ok (.error .notEnoughData) := by
  rw [opcr_exact _ (by decide), show (specAf (exFull.take 10)).opcr = .truncated by decide +kernel]; rfl

/-- transport_private_data_length = 5 but only two bytes follow: private data and the extension
behind it are not-enough-data -/
def exOver : Bytes := [0x03, 0x05, 0xAA, 0xBB]
example : (specAf exOver).priv = .truncated ∧ (specAf exOver).ext = .truncated
    ∧ (specAf exOver).pcr = .absent := by decide +kernel
example : Af.privateData exOver = .ok (.error .notEnoughData) := by
  rw [private_exact _ (by decide), show (specAf exOver).priv = .truncated by decide +kernel]; rfl

/-- an extension of length 0 is reported as not-enough-data (`AdaptationFieldExtension::new`) -/
example : (specAf [0x01, 0x00]).ext = .truncated := by decide +kernel

/-! #### further examples (review C) -/

/-- OPCR without PCR (flags 0x08): the OPCR starts right after the flags byte -/
def exOpcrOnly : Bytes := [0x08, 0xFF, 0xFF, 0xFF, 0xFF, 0x81, 0xFF]
example : posOpcr exOpcrOnly = 1 ∧ (specAf exOpcrOnly).pcr = .absent
    ∧ (specAf exOpcrOnly).opcr = .present ⟨2 ^ 33 - 1, 511⟩ := by decide +kernel
example : Af.opcr exOpcrOnly = .ok (.ok ⟨2 ^ 33 - 1, 511⟩) ∧ Af.pcr exOpcrOnly = .ok (.error .fieldNotPresent) :=
  ⟨by rfl, by rfl⟩
/-- PCR and OPCR: the OPCR starts at byte 7 -/
example : posOpcr exFull = 7 ∧ posSplice exFull = 13 ∧ posPriv exFull = 14 ∧ posExt exFull = 17 := by
  decide +kernel
/-- ltw_flag set but ltw_valid_flag = 0: `Ok(None)` -/
example : (specExt [0x80, 0x01, 0x23]).ltw = .present none
    ∧ Af.ltwOffset [0x80, 0x01, 0x23] = .ok (.ok none) := ⟨by decide +kernel, by rfl⟩
/-- splice_countdown byte 0xFF: the API value is 255, the standard's (`tcimsbf`) value is −1;
byte 0x7F is +127 in both readings, byte 0x80 is 128 resp. −128 -/
example : Af.spliceCountdown [0x04, 0xFF] = .ok (.ok 255) ∧ spliceSigned 255 = -1
    ∧ readSigned [0x04, 0xFF] 8 8 = -1 := ⟨by rfl, by decide, by decide +kernel⟩
example : spliceSigned 127 = 127 ∧ spliceSigned 128 = -128 ∧ spliceSigned 0 = 0 := by decide
/-- hypotheses of `splice_countdown_is_raw_byte` on `exFull` -/
example : exFull ≠ [] ∧ readBits exFull 5 1 = 1 ∧ posSplice exFull + 1 ≤ exFull.length
    ∧ byteD exFull (posSplice exFull) = 0xFE := by decide +kernel

/-! #### evaluated instances of `never_outside_model_at` / `never_outside_ext_model_at` (second review)

Each accessor's hypothesis `Af.… = .ok (.ok v)` holds on `exFull` / `exExt` (all flags set, everything
fits), so each of the five (three) conjuncts is APPLIED, and what it returns — flag set, window at the
closed-form position inside the field, value decoded from exactly those bytes — is compared with the
evaluated positions `posOpcr exFull = 7`, `posSplice = 13`, `posPriv = 14`, `posExt = 17`. -/

example : readBits exFull 3 1 = 1 ∧ 1 + 6 ≤ exFull.length
    ∧ (⟨0x2468ACF1, 42⟩ : ClockRef) = clockOf ((exFull.drop 1).take 6) :=
  (never_outside_model_at exFull (by decide)).1 ⟨0x2468ACF1, 42⟩ (by
    rw [pcr_exact exFull (by decide), show (specAf exFull).pcr = .present ⟨0x2468ACF1, 42⟩ by decide +kernel]; rfl)

example : readBits exFull 4 1 = 1 ∧ posOpcr exFull + 6 ≤ exFull.length
    ∧ (⟨2, 261⟩ : ClockRef) = clockOf ((exFull.drop (posOpcr exFull)).take 6) :=
  (never_outside_model_at exFull (by decide)).2.1 ⟨2, 261⟩ (by
    rw [opcr_exact exFull (by decide), show (specAf exFull).opcr = .present ⟨2, 261⟩ by decide +kernel]; rfl)

example : readBits exFull 5 1 = 1 ∧ posSplice exFull + 1 ≤ exFull.length
    ∧ 0xFE = byteD exFull (posSplice exFull) :=
  (never_outside_model_at exFull (by decide)).2.2.1 0xFE (by
    rw [splice_exact exFull (by decide), show (specAf exFull).splice = .present 0xFE by decide +kernel]; rfl)

example : readBits exFull 6 1 = 1 ∧ posPriv exFull + 1 + byteD exFull (posPriv exFull) ≤ exFull.length
    ∧ [0xAA, 0xBB] = (exFull.drop (posPriv exFull + 1)).take (byteD exFull (posPriv exFull)) :=
  (never_outside_model_at exFull (by decide)).2.2.2.1 [0xAA, 0xBB] (by
    rw [private_exact exFull (by decide), show (specAf exFull).priv = .present [0xAA, 0xBB] by decide +kernel]; rfl)

example : readBits exFull 7 1 = 1 ∧ posExt exFull + 1 + byteD exFull (posExt exFull) ≤ exFull.length
    ∧ exExt = (exFull.drop (posExt exFull + 1)).take (byteD exFull (posExt exFull)) ∧ exExt ≠ [] :=
  (never_outside_model_at exFull (by decide)).2.2.2.2 exExt (by
    rw [extension_exact exFull (by decide), show (specAf exFull).ext = .present exExt by decide +kernel]; rfl)

/-- the windows named above are where the docstring says: bytes 1..6, 7..12, 13, 15..16 (after the
length byte at 14), 18..28 (after the length byte at 17) of the 29-byte field -/
example : exFull.length = 29 ∧ posOpcr exFull = 7 ∧ posSplice exFull = 13 ∧ posPriv exFull = 14
    ∧ byteD exFull 14 = 2 ∧ posExt exFull = 17 ∧ byteD exFull 17 = 11 := by decide +kernel

example : readBits exExt 0 1 = 1 ∧ 1 + 2 ≤ exExt.length
    ∧ (some 0x0123 : Option Nat) = ltwOf ((exExt.drop 1).take 2) :=
  (never_outside_ext_model_at exExt (by decide)).1 (some 0x0123) (by
    rw [ltw_exact exExt (by decide), show (specExt exExt).ltw = .present (some 0x0123) by decide +kernel]; rfl)

example : readBits exExt 1 1 = 1 ∧ posPiecewise exExt + 3 ≤ exExt.length
    ∧ 0x010203 = piecewiseOf ((exExt.drop (posPiecewise exExt)).take 3) :=
  (never_outside_ext_model_at exExt (by decide)).2.1 0x010203 (by
    rw [piecewise_exact exExt (by decide), show (specExt exExt).piecewise = .present 0x010203 by decide +kernel]; rfl)

example : readBits exExt 2 1 = 1 ∧ posSeamless exExt + 5 ≤ exExt.length
    ∧ seamlessOf ((exExt.drop (posSeamless exExt)).take 5) = .ok (5, 5512442692) :=
  (never_outside_ext_model_at exExt (by decide)).2.2 (5, 5512442692) (by
    rw [seamless_exact exExt (by decide),
      show (specExt exExt).seamless = .present (.ok (5, 5512442692)) by rfl]; rfl)

example : exExt.length = 11 ∧ posPiecewise exExt = 3 ∧ posSeamless exExt = 6 := by decide +kernel

end Ts.Props.C13
