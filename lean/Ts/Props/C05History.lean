import Ts.Spec.RoutingHistory
import Ts.Lemmas.C05Hd
import Ts.Lemmas.C05HRun
import Ts.Props.C05
import Ts.Props.C06
import Ts.Lemmas.C05He
import Ts.Props.C02Trace
import Ts.Lemmas.C05Hf
/-!
# C05 over whole histories — routing follows the latest valid PAT and PMTs

`Ts/Props/C05.lean` proves C05 per applied table.  This file composes those theorems into ONE
theorem over whole histories of PAT / PMT versions, elementary-stream packets and repetitions.

* Spec: `Ts/Spec/RoutingHistory.lean` — abstract state `Route`, `routeOf`, `Event`, `stepRoute`
  (with the pinned quirks), `WF`, `CollisionFree`, `Realises`, the agreement relation `SlotRel`.
* `route_step_sound` — ONE `stepRoute` = the table change of the packets of one event (all four kinds).
* `routing_refines` (+ `_from`) — the induction over histories, from `Demultiplex::new`: the real
  dispatcher loops do not panic; EVERY slot of the final table agrees with the abstract route
  (`SlotRel`, spelled out by `handler_of_route` / `route_of_handler`); every routed PID's request
  names that PID and is in the trace with the handler's tag; tags are pairwise distinct and below the
  tag counter; the `construct` requests in the trace are exactly `ByPid(0)` followed by the
  concatenation of the per-event request lists (`historyRequests`), tagged 0, 1, 2, ….
* `takes_effect_next_packet` — the packet right after the packets of any history prefix is
  dispatched on exactly the table that agrees with the route after that prefix.
* `routed_by_latest_pat`, `routed_by_latest_pmt`, `handled_by_latest_pmt` — the positive clause of C05
  (needs `CollisionFree`; NOT `WF`).
* `dropped_by_next_pat`, `dropped_by_same_pmt_instance` — the "dropped PIDs" clause; for PMTs with the
  exact extra hypothesis "no PAT version listing that PMT PID was applied in between".
* `dropped_clause_pmt_false`, `dropped_clause_gap_is_F7` — known finding F7: the clause at full
  strength is FALSE of the code; the gap is exactly a PAT version in between.
  `dropped_program_streams_survive` — second pinned quirk.
* non-vacuity: the generator's `F7control` / `F7` probes.
* Additions after review B (second half of the file): known finding F10 (`shared_es_pid_unrouted`,
  `shared_es_pid_counterexample`); the positive clause under collision-freedom of the tables IN FORCE
  only (`routed_by_current_pmt`, `routed_by_latest_pmt'`, `handled_by_latest_pmt'`); the dropped clause
  with TAGS (`DroppedClausePmt'`, false: F7); callbacks of the next packet
  (`next_packet_callbacks_tagged`, `latest_pmt_stream_callbacks_tagged`); elementary-stream packets
  interleaved with the packets of one table (`RealisesI`, `routing_refines_interleaved`).
* Additions after the second review (last part of the file): the PAT clause under collision-freedom of
  the tables in force (`routed_by_current_pat`, `routed_by_latest_pat'`, `handled_by_latest_pat'`,
  `handled_by_latest_pat_nit'`); SCOPE BOUNDARIES (DESIGN 8.1b, legal inputs outside the spec's vocabulary,
  not findings): two programs sharing one PMT PID (`shared_pmt_pid_same_version_unrouted`,
  `shared_pmt_pid_alternating`), next tables (`next_table_applied_at_once`), multi-section tables
  (`second_section_deduplicated`); the positive clause read per PROGRAM under `DistinctPmtPidsAll`
  (`routed_by_latest_pmt_of_program`, `handled_by_latest_pmt_of_program`).
-/
namespace Ts.Props.C05History
open Ts Ts.Tables Ts.App Ts.Demux Ts.Spec Ts.Spec.TableSpec Ts.Spec.Routing Ts.Spec.RoutingHistory
open Ts.Lemmas.C10 Ts.Lemmas.C05Run Ts.Lemmas.C05H Ts.Lemmas.C05HRun

/-! ### vocabulary, spelled out -/

theorem routeOf_iff (r : Route) (pid : Nat) :
    (routeOf r pid = none ↔ r.slots pid = none) ∧
    (∀ k, routeOf r pid = some k ↔ ∃ req tag, r.slots pid = some (req, tag) ∧ kindOf req = k) := by
  unfold routeOf
  cases h : r.slots pid with
  | none => simp
  | some x => obtain ⟨req, tag⟩ := x; simp

/-- the agreement relation, clause by clause -/
theorem slotRel_iff (r : Route) (p : Nat) (o : Option Handler) :
    (SlotRel r p none o ↔ o = none) ∧
    (∀ tag, SlotRel r p (some (.byPid 0, tag)) o ↔
      p = 0 ∧ ∃ s, o = some (.pat s (r.patEntries.map PatEntry.pid)) ∧
        s.lastVersion = r.patVersion ∧ s.remaining = none) ∧
    (∀ n tag, SlotRel r p (some (.byPid (n + 1), tag)) o ↔ o = some (.recorder tag)) ∧
    (∀ a b tag, SlotRel r p (some (.pmt a b, tag)) o ↔
      ∃ s, o = some (.pmt a b s ((r.pmt p).streams.map StreamInfo.pid)) ∧
        s.lastVersion = (r.pmt p).ver ∧ s.remaining = none) ∧
    (∀ a tag, SlotRel r p (some (.nit a, tag)) o ↔ o = some (.recorder tag)) ∧
    (∀ pp st a pcr d1 d2 tag, SlotRel r p (some (.stream pp st a pcr d1 d2, tag)) o ↔
      if isPes st then ∃ f, o = some (.pes tag f) else o = some (.recorder tag)) :=
  ⟨Iff.rfl, fun _ => Iff.rfl, fun _ _ => Iff.rfl, fun _ _ _ => Iff.rfl, fun _ _ => Iff.rfl,
    fun _ _ _ _ _ _ _ => Iff.rfl⟩

/-- the simulation relation between an abstract route and (table, context), spelled out -/
theorem sim_iff (r : Route) (t : Tab Handler) (c : Ctx) :
    Sim r t c ↔
      (c.cfg.script = [] ∧ c.nextTag = r.reqs.length ∧ constructs c = r.reqs.zipIdx ∧
       (∀ p, SlotRel r p (r.slots p) (t.get p)) ∧ (∀ e ∈ r.patEntries, e.pid ≠ 0) ∧
       ∀ p, ∀ s ∈ (r.pmt p).streams, s.pid ≠ p) :=
  ⟨fun h => ⟨h.script, h.tag, h.log, h.slots, h.pat0, h.pmtSelf⟩,
   fun ⟨a, b, c', d, e, f⟩ => ⟨a, b, c', d, e, f⟩⟩

theorem wfEv_iff (r : Route) :
    (∀ ver es, wfEv r (.patApplied ver es) ↔
      ((∃ tag, r.slots 0 = some (.byPid 0, tag)) ∧ r.patVersion ≠ some ver ∧
        ∀ e ∈ es, e.pid ≤ 0x1fff ∧ e.pid ≠ 0)) ∧
    (∀ p ver body, wfEv r (.pmtApplied p ver body) ↔
      ((∃ prog tag, r.slots p = some (.pmt p prog, tag)) ∧ (r.pmt p).ver ≠ some ver ∧
        ∀ s ∈ streamsOf body, s.pid ≤ 0x1fff ∧ s.pid ≠ p)) ∧
    (∀ p, wfEv r (.esPacket p) ↔ (p ≠ 0 ∧ tableRouted r p = false)) ∧
    (∀ p, wfEv r (.repetition p) ↔ tableRouted r p = true) := by
  refine ⟨fun ver es => ?_, fun p ver body => ?_, fun _ => Iff.rfl, fun _ => Iff.rfl⟩
  · unfold wfEv; rw [patRouted_iff]
  · simp only [wfEv]; rw [pmtRouted_iff]

/-! ### (1) one event -/

/-- **One `stepRoute` = the table change of the corresponding packets**, for each of the four event
kinds: from any (table, context) that agrees with route `r`, the packets of a well-formed event run
through the dispatcher without panic and end in a (table, context) that agrees with
`stepRoute r ev`. -/
theorem route_step_sound (r : Route) (t : Tab Handler) (c : Ctx) (ev : Event) (pks : List Pk)
    (hsim : Sim r t c) (hwf : wfEv r ev) (hre : RealisesEv r ev pks) :
    ∃ t' c', pushSpec App.sem (t, c) pks = .ok (t', c') ∧ Sim (stepRoute r ev) t' c' :=
  sim_step r t c ev pks hsim hwf hre

/-- the four kinds separately -/
theorem route_step_sound_pat (r : Route) (t : Tab Handler) (c : Ctx) (ver : Nat) (es : List PatEntry)
    (pks : List Pk) (hsim : Sim r t c) (hwf : wfEv r (.patApplied ver es))
    (hre : RealisesEv r (.patApplied ver es) pks) :
    ∃ t' c', pushSpec App.sem (t, c) pks = .ok (t', c') ∧ Sim (stepRoute r (.patApplied ver es)) t' c' :=
  sim_pat r t c ver es pks hsim hwf hre

theorem route_step_sound_pmt (r : Route) (t : Tab Handler) (c : Ctx) (p ver : Nat) (body : Bytes)
    (pks : List Pk) (hsim : Sim r t c) (hwf : wfEv r (.pmtApplied p ver body))
    (hre : RealisesEv r (.pmtApplied p ver body) pks) :
    ∃ t' c', pushSpec App.sem (t, c) pks = .ok (t', c') ∧ Sim (stepRoute r (.pmtApplied p ver body)) t' c' :=
  sim_pmt r t c p ver body pks hsim hwf hre

theorem route_step_sound_es (r : Route) (t : Tab Handler) (c : Ctx) (p : Nat) (pks : List Pk)
    (hsim : Sim r t c) (hwf : wfEv r (.esPacket p)) (hre : RealisesEv r (.esPacket p) pks) :
    ∃ t' c', pushSpec App.sem (t, c) pks = .ok (t', c') ∧ Sim (stepRoute r (.esPacket p)) t' c' :=
  sim_es r t c p pks hsim hwf hre

theorem route_step_sound_rep (r : Route) (t : Tab Handler) (c : Ctx) (p : Nat) (pks : List Pk)
    (hsim : Sim r t c) (hwf : wfEv r (.repetition p)) (hre : RealisesEv r (.repetition p) pks) :
    ∃ t' c', pushSpec App.sem (t, c) pks = .ok (t', c') ∧ Sim r t' c' :=
  sim_rep r t c p pks hsim hwf hre

/-- `Demultiplex::new` agrees with the initial route (no recorder script) -/
theorem init_refines (cfg : Cfg) (hscript : cfg.script = []) :
    Sim initRoute (App.init cfg).1 (App.init cfg).2 := sim_init cfg hscript

/-! ### (2) whole histories -/

/-- the induction, from any agreeing start -/
theorem routing_refines_from (r : Route) (t : Tab Handler) (c : Ctx) (evs : List Event) (pks : List Pk)
    (hsim : Sim r t c) (hwf : WF r evs) (hre : Realises r evs pks) :
    ∃ t' c', pushSpec App.sem (t, c) pks = .ok (t', c') ∧ pushModel App.sem (t, c) pks = .ok (t', c') ∧
      Sim (run r evs) t' c' := by
  obtain ⟨t', c', h1, h2⟩ := sim_run hre t c hsim hwf
  exact ⟨t', c', h1, by rw [Ts.Props.C06.push_refines_spec]; exact h1, h2⟩

/-- **C05 over whole histories.**  `cfg`: any configuration without recorder script (either build,
callbacks touching everything or not).  `evs`: any well-formed history; `pks`: any packet list
realising it.  Starting from `Demultiplex::new`, the real dispatcher loops (`pushModel`, equal to the
packet-by-packet `pushSpec`) run without panic and, with `r := run initRoute evs`:

1. for EVERY pid the handler in slot `pid` agrees with the route (`SlotRel`, spelled out kind by kind
   in `handler_of_route` / `route_of_handler`): the PAT filter on PID 0; PMT filters with the
   announced program number exactly on the PIDs routed by a `Pmt` request; PES filters / recorders
   carrying the tag of the `Stream` request that routes the PID; recorders for `Nit` and `ByPid`
   requests; nothing on un-routed PIDs;
2. the request routing a PID names that PID, and the `construct` event with that request and the
   handler's tag is in the trace; the tag is below the tag counter;
3. tags of different routed PIDs are different;
4. the `construct` events in the trace, oldest first, are exactly `ByPid(0)` followed by the
   concatenation of the per-event request lists, with tags 0, 1, 2, …;
5. the tag counter is the number of requests made. -/
theorem routing_refines (cfg : Cfg) (hscript : cfg.script = []) (evs : List Event) (pks : List Pk)
    (hwf : WF initRoute evs) (hre : Realises initRoute evs pks) :
    ∃ t c, pushSpec App.sem (App.init cfg) pks = .ok (t, c)
      ∧ pushModel App.sem (App.init cfg) pks = .ok (t, c)
      ∧ (∀ pid, SlotRel (run initRoute evs) pid ((run initRoute evs).slots pid) (t.get pid))
      ∧ (∀ pid req tag, (run initRoute evs).slots pid = some (req, tag) →
            reqPid req = pid ∧ Ev.construct req tag ∈ c.trace ∧ tag < c.nextTag)
      ∧ (∀ pid pid' req req' tag, (run initRoute evs).slots pid = some (req, tag) →
            (run initRoute evs).slots pid' = some (req', tag) → pid = pid')
      ∧ constructs c = (Req.byPid 0 :: historyRequests initRoute evs).zipIdx
      ∧ c.nextTag = 1 + (historyRequests initRoute evs).length := by
  obtain ⟨t, c, h1, h2, hsim⟩ := routing_refines_from initRoute _ _ evs pks (sim_init cfg hscript) hwf hre
  have hinv := tagInv_run evs initRoute tagInv_init
  have hreqs : (run initRoute evs).reqs = Req.byPid 0 :: historyRequests initRoute evs := by
    rw [run_reqs]; rfl
  refine ⟨t, c, h1, h2, hsim.slots, ?_, ?_, ?_, ?_⟩
  · intro pid req tag hs
    obtain ⟨a1, a2⟩ := hinv pid req tag hs
    refine ⟨a1, ?_, ?_⟩
    · rw [← mem_constructs, hsim.log, List.mem_zipIdx_iff_getElem?]; exact a2
    · rw [hsim.tag]
      apply Classical.byContradiction
      intro hn
      rw [List.getElem?_eq_none (by omega)] at a2
      cases a2
  · intro pid pid' req req' tag ha hb
    exact tags_distinct _ hinv pid pid' req req' tag ha hb
  · rw [hsim.log, hreqs]
  · rw [hsim.tag, hreqs, List.length_cons]; omega

/-- the agreement of clause 1, read from the route kind to the handler -/
theorem handler_of_route (r : Route) (pid : Nat) (o : Option Handler)
    (h : SlotRel r pid (r.slots pid) o) :
    (routeOf r pid = none → o = none) ∧
    (routeOf r pid = some (.byPid 0) → pid = 0 ∧ ∃ s, o = some (.pat s (r.patEntries.map PatEntry.pid)) ∧
        s.lastVersion = r.patVersion ∧ s.remaining = none) ∧
    (∀ a prog, routeOf r pid = some (.pmt a prog) →
        ∃ s, o = some (.pmt a prog s ((r.pmt pid).streams.map StreamInfo.pid)) ∧
          s.lastVersion = (r.pmt pid).ver ∧ s.remaining = none) ∧
    (∀ a, routeOf r pid = some (.nit a) → ∃ tag, tagOf r pid = some tag ∧ o = some (.recorder tag)) ∧
    (∀ n, routeOf r pid = some (.byPid (n + 1)) → ∃ tag, tagOf r pid = some tag ∧ o = some (.recorder tag)) ∧
    (∀ pp st a, routeOf r pid = some (.stream pp st a) → ∃ tag, tagOf r pid = some tag ∧
        if isPes st then ∃ f, o = some (.pes tag f) else o = some (.recorder tag)) := by
  unfold routeOf tagOf
  cases hs : r.slots pid with
  | none =>
    rw [hs] at h
    refine ⟨fun _ => h, ?_, ?_, ?_, ?_, ?_⟩ <;> simp
  | some x =>
    obtain ⟨req, tag⟩ := x
    rw [hs] at h
    rcases req with (_ | n) | ⟨a, b⟩ | x | ⟨pp, st, q, pcr, d1, d2⟩
    · refine ⟨by simp, fun _ => h, ?_, ?_, ?_, ?_⟩ <;> simp [kindOf]
    · refine ⟨by simp, by simp [kindOf], by simp [kindOf], by simp [kindOf], ?_, by simp [kindOf]⟩
      intro m _
      exact ⟨tag, rfl, h⟩
    · refine ⟨by simp, by simp [kindOf], ?_, by simp [kindOf], by simp [kindOf], by simp [kindOf]⟩
      intro a' prog' e
      simp only [Option.map_some, kindOf, Option.some.injEq, ReqKind.pmt.injEq] at e
      obtain ⟨rfl, rfl⟩ := e
      exact h
    · refine ⟨by simp, by simp [kindOf], by simp [kindOf], ?_, by simp [kindOf], by simp [kindOf]⟩
      intro _ _
      exact ⟨tag, rfl, h⟩
    · refine ⟨by simp, by simp [kindOf], by simp [kindOf], by simp [kindOf], by simp [kindOf], ?_⟩
      intro pp' st' a' e
      simp only [Option.map_some, kindOf, Option.some.injEq, ReqKind.stream.injEq] at e
      obtain ⟨rfl, rfl, rfl⟩ := e
      exact ⟨tag, rfl, h⟩

/-- … and from the handler to the route kind: handlers of each kind sit EXACTLY on the PIDs the route
says -/
theorem route_of_handler (r : Route) (pid : Nat) (o : Option Handler)
    (h : SlotRel r pid (r.slots pid) o) :
    (o = none → routeOf r pid = none) ∧
    (∀ s reg, o = some (.pat s reg) → routeOf r pid = some (.byPid 0) ∧ pid = 0) ∧
    (∀ a prog s reg, o = some (.pmt a prog s reg) → routeOf r pid = some (.pmt a prog)) ∧
    (∀ tag f, o = some (.pes tag f) → tagOf r pid = some tag ∧
        ∃ pp st a, routeOf r pid = some (.stream pp st a) ∧ isPes st = true) ∧
    (∀ tag, o = some (.recorder tag) → tagOf r pid = some tag ∧
        ((∃ a, routeOf r pid = some (.nit a)) ∨ (∃ n, routeOf r pid = some (.byPid (n + 1))) ∨
          ∃ pp st a, routeOf r pid = some (.stream pp st a) ∧ isPes st = false)) := by
  unfold routeOf tagOf
  cases hs : r.slots pid with
  | none =>
    rw [hs] at h
    have h' : o = none := h
    subst h'
    simp
  | some x =>
    obtain ⟨req, tag⟩ := x
    rw [hs] at h
    rcases req with (_ | n) | ⟨a, b⟩ | x | ⟨pp, st, q, pcr, d1, d2⟩
    · obtain ⟨hp, s, rfl, -⟩ := h
      simp [kindOf, hp]
    · have h' : o = some (.recorder tag) := h
      subst h'
      simp [kindOf]
    · obtain ⟨s, rfl, -⟩ := h
      simp [kindOf]
      intro a1 p1 s1 reg e1 e2 _ _
      exact ⟨e1, e2⟩
    · have h' : o = some (.recorder tag) := h
      subst h'
      simp [kindOf]
    · simp only [SlotRel] at h
      by_cases hp : isPes st = true
      · rw [if_pos hp] at h
        obtain ⟨f, rfl⟩ := h
        simp [kindOf]
        exact ⟨_, _, ⟨rfl, rfl⟩, hp⟩
      · rw [if_neg hp] at h
        subst h
        have hp' : isPes st = false := by simpa using hp
        simp [kindOf]
        exact ⟨_, _, ⟨rfl, rfl⟩, hp'⟩

/-! ### a new version takes effect for the very next transport packet -/

/-- `pks` realise the history `evs`; `pk` is ANY following packet (any PID, also the table's own).
The real loops dispatch `pk` on exactly the table `t` that agrees with the route after ALL of `evs` —
in particular after the table version applied by the last packet of `pks`. -/
theorem takes_effect_next_packet (cfg : Cfg) (hscript : cfg.script = []) (evs : List Event) (pks : List Pk)
    (hwf : WF initRoute evs) (hre : Realises initRoute evs pks) (pk : Pk) (rest : List Pk) :
    ∃ t c, pushModel App.sem (App.init cfg) pks = .ok (t, c) ∧ Sim (run initRoute evs) t c ∧
      pushModel App.sem (App.init cfg) (pks ++ pk :: rest) =
        (specStep App.sem (t, c) pk >>= fun tc => pushModel App.sem tc rest) := by
  obtain ⟨t, c, h1, h2, hsim⟩ := routing_refines_from initRoute _ _ evs pks (sim_init cfg hscript) hwf hre
  refine ⟨t, c, h2, hsim, ?_⟩
  rw [Ts.Props.C06.push_refines_spec, pushSpec_append_aux, h1]
  simp only [R.ok_bind, pushSpec_cons]
  congr 1
  funext tc
  rw [Ts.Props.C06.push_refines_spec]

/-- … and a packet on a routed PID is consumed by exactly the handler that agrees with the route -/
theorem next_packet_handled (t : Tab Handler) (c : Ctx) (pk : Pk) (h : Handler)
    (hg : t.get pk.pid = some h) (hf : pk.flagged = false) :
    specStep App.sem (t, c) pk =
      (App.consume h c pk >>= fun x => R.ok (applyChanges (t.insert pk.pid x.1) x.2.2, x.2.1)) :=
  Ts.Props.C05.packet_on_listed_pid_handled t c pk h hg hf

/-! ### the positive clause: the most recent tables decide the route -/

/-- PMT PIDs are requested as program-map PIDs with the announced program number and network
entries as NIT PIDs: after any history whose most recent PAT is `es` (collision-free; the packets
after it arbitrary events other than a PAT), a PID listed by `es` is routed by the request of its
last entry -/
theorem routed_by_latest_pat (pre post : List Event) (ver : Nat) (es : List PatEntry) (q : Nat) (req : Req)
    (hcf : CollisionFree (pre ++ .patApplied ver es :: post))
    (hlast : ∀ ev ∈ post, ∀ v es', ev ≠ .patApplied v es')
    (hq : lastFor (patRequests es) q = some req) :
    (∃ tag, (run initRoute (pre ++ .patApplied ver es :: post)).slots q = some (req, tag)) ∧
    routeOf (run initRoute (pre ++ .patApplied ver es :: post)) q = some (kindOf req) ∧
    ∃ e ∈ es, e.pid = q ∧ req = patRequest e := by
  obtain ⟨tag, h⟩ := Ts.Lemmas.C05H.routed_by_latest_pat pre post ver es q req hcf hlast hq
  refine ⟨⟨tag, h⟩, by unfold routeOf; rw [h]; rfl, ?_⟩
  have := lastFor_mem _ _ _ hq
  unfold patRequests at this
  obtain ⟨e, he, hee⟩ := List.mem_map.1 this
  simp only [Prod.mk.injEq] at hee
  exact ⟨e, he, hee.1, hee.2.symm⟩

/-- a PID listed by the most recent PMT received on program-map PID `p` is routed by a stream
request naming `p`, the entry's stream type and that PID (with the section's PCR PID and
descriptors) — whatever PAT versions, other PMTs, packets came after -/
theorem routed_by_latest_pmt (pre post : List Event) (p ver : Nat) (body : Bytes) (q : Nat) (req : Req)
    (hcf : CollisionFree (pre ++ .pmtApplied p ver body :: post))
    (hlast : ∀ ev ∈ post, ∀ v b, ev ≠ .pmtApplied p v b)
    (hq : lastFor (pmtReqs p body) q = some req) :
    (∃ tag, (run initRoute (pre ++ .pmtApplied p ver body :: post)).slots q = some (req, tag)) ∧
    routeOf (run initRoute (pre ++ .pmtApplied p ver body :: post)) q = some (kindOf req) ∧
    ∃ s ∈ streamsOf body, s.pid = q ∧
      req = .stream p s.streamType q (specPcrPid body) s.descBytes (specProgramDescBytes body) := by
  obtain ⟨tag, h⟩ := Ts.Lemmas.C05H.routed_by_latest_pmt pre post p ver body q req hcf hlast hq
  refine ⟨⟨tag, h⟩, by unfold routeOf; rw [h]; rfl, ?_⟩
  have := lastFor_mem _ _ _ hq
  unfold pmtReqs pmtRequests at this
  obtain ⟨s, hs, hee⟩ := List.mem_map.1 this
  simp only [Prod.mk.injEq] at hee
  obtain ⟨e1, e2⟩ := hee
  exact ⟨s, hs, e1, by rw [← e2, ← e1]; rfl⟩

/-- **the first sentence of C05, end to end.**  After any realised, well-formed, collision-free
history whose most recent PMT on `p` is `body`: the slot of a PID `q` listed by it holds a handler
the application built from the request naming `q`, its stream type and the owning program map `p` —
the `construct` event with that request and the handler's tag is in the trace; the handler is a PES
filter iff the stream type `is_pes`, else a recorder. -/
theorem handled_by_latest_pmt (cfg : Cfg) (hscript : cfg.script = []) (pre post : List Event)
    (p ver : Nat) (body : Bytes) (pks : List Pk) (q : Nat) (s : StreamInfo)
    (hwf : WF initRoute (pre ++ .pmtApplied p ver body :: post))
    (hcf : CollisionFree (pre ++ .pmtApplied p ver body :: post))
    (hre : Realises initRoute (pre ++ .pmtApplied p ver body :: post) pks)
    (hlast : ∀ ev ∈ post, ∀ v b, ev ≠ .pmtApplied p v b)
    (hq : lastFor (pmtReqs p body) q
      = some (.stream p s.streamType q (specPcrPid body) s.descBytes (specProgramDescBytes body))) :
    ∃ t c tag, pushModel App.sem (App.init cfg) pks = .ok (t, c) ∧
      Ev.construct (.stream p s.streamType q (specPcrPid body) s.descBytes (specProgramDescBytes body)) tag
        ∈ c.trace ∧
      (if isPes s.streamType then ∃ f, t.get q = some (.pes tag f) else t.get q = some (.recorder tag)) := by
  obtain ⟨t, c, -, h2, hslots, htags, -, -, -⟩ := routing_refines cfg hscript _ pks hwf hre
  obtain ⟨⟨tag, hs⟩, -, -⟩ := routed_by_latest_pmt pre post p ver body q _ hcf hlast hq
  have hrel := hslots q
  rw [hs] at hrel
  exact ⟨t, c, tag, h2, (htags q _ tag hs).2.1, hrel⟩

/-! ### the "dropped PIDs" clause -/

/-- PAT: a PID listed by one PAT version and dropped by the next applied version is un-routed by the
last packet of that version (whatever happened in between other than a PAT) -/
theorem dropped_by_next_pat (r : Route) (mid : List Event) (v1 v2 : Nat) (es1 es2 : List PatEntry) (q : Nat)
    (hmid : ∀ ev ∈ mid, ∀ v es, ev ≠ .patApplied v es)
    (hq : q ∈ es1.map PatEntry.pid) (h13 : q ≤ 0x1fff) (hdrop : q ∉ es2.map PatEntry.pid) :
    routeOf (run r (.patApplied v1 es1 :: mid ++ [.patApplied v2 es2])) q = none :=
  Ts.Lemmas.C05H.dropped_by_next_pat r mid v1 v2 es1 es2 q hmid hq h13 hdrop

/-- PMT: a PID listed by one PMT version on `p` and dropped by the next version applied on `p` is
un-routed PROVIDED no PAT version listing `p` was applied in between — i.e. the SAME handler
instance applies both versions.  This is the exact extra hypothesis (see `dropped_clause_gap_is_F7`). -/
theorem dropped_by_same_pmt_instance (r : Route) (mid : List Event) (p v1 v2 : Nat) (b1 b2 : Bytes) (q : Nat)
    (hmid : ∀ ev ∈ mid, (∀ v b, ev ≠ .pmtApplied p v b) ∧
      ∀ v es, ev = .patApplied v es → p ∉ es.map PatEntry.pid)
    (hq : q ∈ (streamsOf b1).map StreamInfo.pid) (h13 : q ≤ 0x1fff)
    (hdrop : q ∉ (streamsOf b2).map StreamInfo.pid) :
    routeOf (run r (.pmtApplied p v1 b1 :: mid ++ [.pmtApplied p v2 b2])) q = none :=
  Ts.Lemmas.C05H.dropped_by_same_pmt_instance r mid p v1 v2 b1 b2 q hmid hq h13 hdrop

/-- the single steps behind them, in terms of the state: what the CURRENT instance remembers -/
theorem drop_steps (r : Route) (q : Nat) (h13 : q ≤ 0x1fff) :
    (∀ ver es, q ∈ r.patEntries.map PatEntry.pid → q ∉ es.map PatEntry.pid →
      routeOf (stepRoute r (.patApplied ver es)) q = none) ∧
    (∀ p ver body, q ∈ (r.pmt p).streams.map StreamInfo.pid → q ∉ (streamsOf body).map StreamInfo.pid →
      routeOf (stepRoute r (.pmtApplied p ver body)) q = none) ∧
    (∀ p ver body, (r.pmt p).streams = [] → q ∉ (streamsOf body).map StreamInfo.pid →
      routeOf (stepRoute r (.pmtApplied p ver body)) q = routeOf r q) :=
  ⟨fun ver es h1 h2 => pat_drop_step r ver es q h1 h13 h2,
   fun p ver body h1 h2 => pmt_drop_step r p ver body q h1 h13 h2,
   fun p ver body h1 h2 => pmt_fresh_keeps r p ver body q h1 h2⟩

/-- **known finding F7: the clause is FALSE of the pinned code.**  Witness: PAT v0 {1 → 0x100},
PMT v0 {0x101, 0x102}, PAT v1 {1 → 0x100, 2 → 0x110}, PMT v1 {0x101}: PID 0x102 stays routed by the
stream request of PMT v0 (`removal_counterexample` in `Props/C05.lean` is the same history run
through the whole model; `f7_refined` below derives it from `routing_refines`). -/
theorem dropped_clause_pmt_false : ¬ DroppedClausePmt := by
  intro h
  have := h [.patApplied 0 [.program 1 0x100]] [.patApplied 1 [.program 1 0x100, .program 2 0x110]]
    0x100 0 1 body0 body1 0x102 (by decide +kernel) (by decide +kernel)
    (by intro ev hm v b e; rw [List.mem_singleton] at hm; rw [hm] at e; cases e)
    (by decide +kernel) (by decide +kernel)
  revert this
  decide +kernel

/-- the gap is EXACTLY F7: whenever the clause fails, a PAT version listing `p` was applied between
the two PMT versions (every such PAT builds a fresh PMT handler whose remembered set is empty) -/
theorem dropped_clause_gap_is_F7 (r : Route) (mid : List Event) (p v1 v2 : Nat) (b1 b2 : Bytes) (q : Nat)
    (hmid : ∀ ev ∈ mid, ∀ v b, ev ≠ .pmtApplied p v b)
    (hq : q ∈ (streamsOf b1).map StreamInfo.pid) (h13 : q ≤ 0x1fff)
    (hdrop : q ∉ (streamsOf b2).map StreamInfo.pid)
    (hfail : routeOf (run r (.pmtApplied p v1 b1 :: mid ++ [.pmtApplied p v2 b2])) q ≠ none) :
    ∃ ev ∈ mid, ∃ v es, ev = .patApplied v es ∧ p ∈ es.map PatEntry.pid := by
  apply Classical.byContradiction
  intro hn
  apply hfail
  apply dropped_by_same_pmt_instance r mid p v1 v2 b1 b2 q ?_ hq h13 hdrop
  intro ev hm
  refine ⟨hmid ev hm, ?_⟩
  intro v es e hp
  exact hn ⟨ev, hm, v, es, e, hp⟩

/-- second pinned quirk: the elementary-stream handlers of a program DROPPED by a newer PAT are not
un-routed (only the program-map PID is): PAT v0 {1 → 0x100}, PMT v0 {0x101, 0x102}, PAT v1 {} -/
theorem dropped_program_streams_survive :
    WF initRoute dropHist ∧ CollisionFree dropHist ∧
    routeOf (run initRoute dropHist) 0x100 = none ∧
    routeOf (run initRoute dropHist) 0x101 = some (.stream 0x100 0x1b 0x101) ∧
    routeOf (run initRoute dropHist) 0x102 = some (.stream 0x100 0x0f 0x102) := by
  refine ⟨drop_wf, drop_cf, ?_, ?_, ?_⟩ <;> unfold routeOf
  · rw [drop_slots.1]; rfl
  · rw [drop_slots.2.1]; rfl
  · rw [drop_slots.2.2]; rfl

/-! ### non-vacuity: the generator's `F7control` and `F7` probes -/

/-- one `push` of a buffer = the real loops on its framed packets -/
theorem runApp_one (cfg : Cfg) (buf : Bytes) (pks : List Pk) (h : Demux.frame buf 0 = .ok pks) :
    runApp cfg [buf] = pushModel App.sem (App.init cfg) pks := by
  simp only [runApp, pushAll, push, h, R.ok_bind]
  cases pushModel App.sem (App.init cfg) pks with
  | panic m => rfl
  | ok tc => rfl

/-- the hypotheses of `routing_refines` hold of the `F7control` probe (4 real packets: PAT v0,
PMT v0 {0x101, 0x102}, PMT v1 {0x101}, a packet on 0x102), cut into a 4-event history -/
example : Demux.frame ctlBytes 0 = .ok ctlPks ∧ WF initRoute ctlHist ∧ CollisionFree ctlHist ∧
    Realises initRoute ctlHist ctlPks := ⟨ctl_frame, ctl_wf, ctl_cf, ctl_realises⟩

/-- … and the conclusion read off: no panic; PMT v1 (applied by the SAME instance that applied v0) took
0x102 out: the probe packet made the application get `ByPid(0x102)` (tag 5) and is recorded by that
recorder; 0x101 is handled by the PES filter built for PMT v1's stream request (tag 4); the PMT filter
on 0x100 remembers {0x101}; the requests are exactly the per-event lists.  Identical to what kernel
evaluation of the whole model gives (`Ts.Lemmas.C05Run.ctl_run`). -/
theorem ctl_refined :
    ∃ t c, runApp {} [ctlBytes] = .ok (t, c) ∧
      t.get 0x102 = some (.recorder 5) ∧ (∃ f, t.get 0x101 = some (.pes 4 f)) ∧
      (∃ s, t.get 0x100 = some (.pmt 0x100 1 s [0x101]) ∧ s.lastVersion = some 1) ∧
      (∃ s, t.get 0 = some (.pat s [0x100]) ∧ s.lastVersion = some 0) ∧
      t.get 0x110 = none ∧
      Ev.construct (.byPid 0x102) 5 ∈ c.trace ∧
      constructs c = [(.byPid 0, 0), (.pmt 0x100 1, 1), (.stream 0x100 0x1b 0x101 0x101 [] [], 2),
        (.stream 0x100 0x0f 0x102 0x101 [] [], 3), (.stream 0x100 0x1b 0x101 0x101 [] [], 4),
        (.byPid 0x102, 5)] := by
  obtain ⟨t, c, -, h2, hslots, htags, -, hlog, -⟩ := routing_refines {} rfl ctlHist ctlPks ctl_wf ctl_realises
  obtain ⟨s0, s100, s101, s102, s110, pv, mv, -, ms⟩ := ctl_slots
  refine ⟨t, c, by rw [runApp_one {} ctlBytes ctlPks ctl_frame]; exact h2, ?_, ?_, ?_, ?_, ?_, ?_, ?_⟩
  · have := hslots 0x102; rw [s102] at this; exact this
  · have := hslots 0x101; rw [s101] at this; exact this
  · have := hslots 0x100; rw [s100] at this
    obtain ⟨s, h1, h3, -⟩ := this
    rw [ms] at h1; rw [mv] at h3
    exact ⟨s, h1, h3⟩
  · have := hslots 0; rw [s0] at this
    obtain ⟨-, s, h1, h3, -⟩ := this
    have pe : (run initRoute ctlHist).patEntries.map PatEntry.pid = [0x100] := by decide +kernel
    rw [pv] at h3; rw [pe] at h1
    exact ⟨s, h1, h3⟩
  · have := hslots 0x110; rw [s110] at this; exact this
  · exact (htags 0x102 _ 5 s102).2.1
  · rw [hlog, ctl_requests]; rfl

/-- the two derivations agree: `routing_refines` on the realised history vs. kernel evaluation of the
whole model on the same bytes -/
example : ∃ t c, runApp {} [ctlBytes] = .ok (t, c) ∧ t.get 0x102 = some (.recorder 5) ∧
    constructs c = constructsV0 ++ [(.stream 0x100 0x1b 0x101 0x101 [] [], 4), (.byPid 0x102, 5)] := by
  obtain ⟨t, c, hr, hc, -, -, -, h102, -⟩ := observe_some _ _ ctl_run
  exact ⟨t, c, hr, slot_recorder _ _ h102, hc⟩

/-- the `F7` probe (PAT v1 between the two PMT versions) also satisfies the hypotheses … -/
example : Demux.frame f7Bytes 0 = .ok f7Pks ∧ WF initRoute f7Hist ∧ CollisionFree f7Hist ∧
    Realises initRoute f7Hist f7Pks := ⟨f7_frame, f7_wf, f7_cf, f7_realises⟩

/-- … and `routing_refines` yields the pinned F7 behaviour: after PMT v1, slot 0x102 still holds the
PES filter with tag 3 built for PMT v0's stream request; the probe packet causes no `ByPid` request -/
theorem f7_refined :
    ∃ t c, runApp {} [f7Bytes] = .ok (t, c) ∧ (∃ f, t.get 0x102 = some (.pes 3 f)) ∧
      (∃ s, t.get 0x100 = some (.pmt 0x100 1 s [0x101])) ∧
      Ev.construct (.stream 0x100 0x0f 0x102 0x101 [] []) 3 ∈ c.trace ∧
      constructs c = [(.byPid 0, 0), (.pmt 0x100 1, 1), (.stream 0x100 0x1b 0x101 0x101 [] [], 2),
        (.stream 0x100 0x0f 0x102 0x101 [] [], 3), (.pmt 0x100 1, 4), (.pmt 0x110 2, 5),
        (.stream 0x100 0x1b 0x101 0x101 [] [], 6)] := by
  obtain ⟨t, c, -, h2, hslots, htags, -, hlog, -⟩ := routing_refines {} rfl f7Hist f7Pks f7_wf f7_realises
  obtain ⟨s100, s101, s102, s110, -, ms⟩ := f7_slots
  refine ⟨t, c, by rw [runApp_one {} f7Bytes f7Pks f7_frame]; exact h2, ?_, ?_, ?_, ?_⟩
  · have := hslots 0x102; rw [s102] at this; exact this
  · have := hslots 0x100; rw [s100] at this
    obtain ⟨s, h1, -⟩ := this
    rw [ms] at h1
    exact ⟨s, h1⟩
  · exact (htags 0x102 _ 3 s102).2.1
  · rw [hlog, f7_requests]; rfl

/-- a history with a repetition event (PAT v0 re-transmitted after PMT v0) is realised by real packets -/
example : WF initRoute repHist ∧ Realises initRoute repHist repPks := ⟨rep_wf, rep_realises⟩

/-- `routed_by_latest_pmt` / `dropped_by_same_pmt_instance` on the control history -/
example : routeOf (run initRoute [.patApplied 0 [.program 1 0x100], .pmtApplied 0x100 0 body0,
      .pmtApplied 0x100 1 body1]) 0x102 = none :=
  dropped_by_same_pmt_instance _ [] 0x100 0 1 body0 body1 0x102 (by simp) (by decide +kernel) (by decide)
    (by decide +kernel)

example : routeOf (run initRoute ctlHist) 0x101 = some (.stream 0x100 0x1b 0x101) :=
  (routed_by_latest_pmt [.patApplied 0 [.program 1 0x100], .pmtApplied 0x100 0 body0] [.esPacket 0x102]
    0x100 1 body1 0x101 (.stream 0x100 0x1b 0x101 0x101 [] []) ctl_cf
    (by intro ev hm v b e; rw [List.mem_singleton] at hm; rw [hm] at e; cases e)
    (by decide +kernel)).2.1

open Ts.Lemmas.C05He

/-! ## Additions after review B

* `shared_es_pid_unrouted`, `shared_es_pid_counterexample`, `shared_refined` — known finding F10.
* `CollisionFreeNow` (tables in force only) replaces the global `CollisionFree` in the positive
  clause: `routed_by_current_pmt`, `routed_by_latest_pmt'`, `handled_by_latest_pmt'`.
* `DroppedClausePmt'` — the dropped clause as a statement about handler TAGS; false (F7), with its
  `_partial` version.
* `next_packet_callbacks_tagged`, `latest_pmt_stream_callbacks_tagged` — the conclusion in terms of
  callbacks.
* instantiations of `removal_partial`, `handled_by_latest_pmt`, `dropped_by_next_pat`.
* `routing_refines_interleaved` — `routing_refines` for realisations with elementary-stream packets
  between the packets of one table (`RealisesI`).
-/

/-! ### known finding F10: a shared elementary PID is dropped by ONE program's newer PMT -/

/-- **Known finding F10 (spec level).**  History `sharedHist`: PAT {1 → 0x100, 2 → 0x110};
PMT(0x100) v0 {0x101, 0x102}; PMT(0x110) v0 {0x101, 0x102}; PMT(0x100) v1 {0x101}.  It is
well-formed; it is NOT `CollisionFree` (nor collision-free NOW: two PMTs in force share PIDs, which
ISO/IEC 13818-1 allows); the PMT in force on program 2's PID 0x110 is `body0`, which lists 0x102, and
0x110 is announced by the PAT in force; yet 0x102 is un-routed: program 1's newer PMT removed the
handler program 2's PMT had installed.  This violates the first sentence of C05; `routing_refines`
needs only `WF`, so it is the model's (and the code's: `shared_es_pid_counterexample`) behaviour. -/
theorem shared_es_pid_unrouted :
    WF initRoute sharedHist ∧ ¬ CollisionFree sharedHist ∧ ¬ CollisionFreeNowAll sharedHist ∧
    0x102 ∈ (streamsOf body0).map StreamInfo.pid ∧
    (0x110, body0) ∈ (currentOf sharedHist).pmt ∧ 0x110 ∈ progPids (currentOf sharedHist).pat ∧
    routeOf (run initRoute sharedHist) 0x102 = none := by
  refine ⟨shared_wf, shared_not_cf, by decide +kernel, by decide +kernel, by decide +kernel,
    by decide +kernel, ?_⟩
  unfold routeOf; rw [shared_slots.1]; rfl

/-- **Known finding F10 (model level, by kernel evaluation of the whole model on the exact probe
bytes `F10` / `F10c` of `/tmp/pr/f10.txt`, one `push`).**
* after the four tables slot 0x102 is EMPTY although the PMT filter of program 2 (slot 0x110) has
  0x102 registered and the handler it requested (`stream 0x110 0x0f 0x102`, tag 6) was built;
* `F10`: the packet on 0x102 makes the application get `ByPid(0x102)` (tag 8, the LAST request) and
  is recorded by that recorder at byte offset 752; no elementary-stream callback at all;
* `F10c` (control, without PMT(0x100) v1): the packet is consumed by the PES filter with tag 6; the
  elementary-stream callbacks are `start_stream`, `begin_packet` with tag 6; no `ByPid(0x102)`.
Identical to the output of the Rust harness on these bytes. -/
theorem shared_es_pid_counterexample :
    (∃ t c, runApp {} [pat2V0 ++ pmtV0 ++ pmt2V0 ++ pmtV1] = .ok (t, c) ∧ t.get 0x102 = none ∧
      (∃ s, t.get 0x110 = some (.pmt 0x110 2 s [0x101, 0x102])) ∧
      Ev.construct (.stream 0x110 0x0f 0x102 0x101 [] []) 6 ∈ c.trace) ∧
    (∃ t c, runApp {} [f10Bytes] = .ok (t, c) ∧ t.get 0x102 = some (.recorder 8) ∧
      (∃ s, t.get 0x110 = some (.pmt 0x110 2 s [0x101, 0x102])) ∧
      constructs c = [(.byPid 0, 0), (.pmt 0x100 1, 1), (.pmt 0x110 2, 2),
        (.stream 0x100 0x1b 0x101 0x101 [] [], 3), (.stream 0x100 0x0f 0x102 0x101 [] [], 4),
        (.stream 0x110 0x1b 0x101 0x101 [] [], 5), (.stream 0x110 0x0f 0x102 0x101 [] [], 6),
        (.stream 0x100 0x1b 0x101 0x101 [] [], 7), (.byPid 0x102, 8)] ∧
      pkts c = [(8, 752)] ∧ esTags c = []) ∧
    (∃ t c, runApp {} [f10cBytes] = .ok (t, c) ∧ (∃ f, t.get 0x102 = some (.pes 6 f)) ∧
      (∀ tag, Ev.construct (.byPid 0x102) tag ∉ c.trace) ∧ esTags c = [(6, 0), (6, 1)]) := by
  refine ⟨?_, ?_, ?_⟩
  · obtain ⟨t, c, hr, hc, -, -, -, h102, h110⟩ := observe_some _ _ f10_tables
    refine ⟨t, c, hr, slot_empty _ h102, slot_pmt _ _ _ _ h110, ?_⟩
    rw [← mem_constructs, hc]; decide
  · obtain ⟨t, c, hr, hc, hp, -, -, h102, h110⟩ := observe_some _ _ f10_run
    obtain ⟨t', c', hr', he⟩ := esTagsOf_some _ _ f10_es
    rw [hr] at hr'
    simp only [R.ok.injEq, Prod.mk.injEq] at hr'
    obtain ⟨-, rfl⟩ := hr'
    exact ⟨t, c, hr, slot_recorder _ _ h102, slot_pmt _ _ _ _ h110, hc, hp, he⟩
  · obtain ⟨t, c, hr, hc, -, -, -, h102, -⟩ := observe_some _ _ f10c_run
    obtain ⟨t', c', hr', he⟩ := esTagsOf_some _ _ f10c_es
    rw [hr] at hr'
    simp only [R.ok.injEq, Prod.mk.injEq] at hr'
    obtain ⟨-, rfl⟩ := hr'
    refine ⟨t, c, hr, slot_pes _ _ h102, ?_, he⟩
    intro tag hm
    rw [← mem_constructs, hc] at hm
    simp [constructsShared] at hm

/-- the F10 probe satisfies the hypotheses of `routing_refines` (5 real packets cut into the 5-event
history `sharedHistP` = `sharedHist` followed by the packet on 0x102) … -/
example : Demux.frame f10Bytes 0 = .ok f10Pks ∧ WF initRoute sharedHistP ∧
    Realises initRoute sharedHistP f10Pks := ⟨f10_frame, sharedP_wf, f10_realises⟩

/-- … and `routing_refines` yields the same F10 behaviour as kernel evaluation of the whole model -/
theorem shared_refined :
    ∃ t c, runApp {} [f10Bytes] = .ok (t, c) ∧ t.get 0x102 = some (.recorder 8) ∧
      Ev.construct (.byPid 0x102) 8 ∈ c.trace ∧
      (∃ s, t.get 0x110 = some (.pmt 0x110 2 s [0x101, 0x102])) := by
  obtain ⟨t, c, -, h2, hslots, htags, -, -, -⟩ :=
    routing_refines {} rfl sharedHistP f10Pks sharedP_wf f10_realises
  have s102 := shared_slots.2.2.2.2
  have s110 : (run initRoute sharedHistP).slots 0x110 = some (.pmt 0x110 2, 2) := by decide +kernel
  have m110 : ((run initRoute sharedHistP).pmt 0x110).streams = [⟨0x1b, 0x101, []⟩, ⟨0x0f, 0x102, []⟩] := by
    decide +kernel
  refine ⟨t, c, by rw [runApp_one {} f10Bytes f10Pks f10_frame]; exact h2, ?_, ?_, ?_⟩
  · have := hslots 0x102; rw [s102] at this; exact this
  · exact (htags 0x102 _ 8 s102).2.1
  · have := hslots 0x110; rw [s110] at this
    obtain ⟨s, h1, -⟩ := this
    rw [m110] at h1
    exact ⟨s, h1⟩

/-! ### the positive clause under collision-freedom of the tables IN FORCE only -/

/-- the condition, spelled out (`Current`, `stepCurrent`, `currentOf` in `Spec/RoutingHistory.lean`) -/
theorem collisionFreeNow_iff (T : Current) :
    CollisionFreeNow T ↔
      ((∀ e ∈ T.pat, ∀ e' ∈ T.pat, e.pid = e'.pid → isProgram e = isProgram e') ∧
       (∀ x ∈ T.pmt, ∀ s ∈ streamsOf x.2, ∀ e ∈ T.pat, s.pid ≠ e.pid) ∧
       (∀ x ∈ T.pmt, ∀ y ∈ T.pmt, ∀ s ∈ streamsOf x.2, ∀ s' ∈ streamsOf y.2, s.pid = s'.pid → x.1 = y.1)) :=
  Iff.rfl

/-- only the prefixes up to the length of the history matter, so the condition is decidable -/
theorem collisionFreeNowAll_iff (evs : List Event) :
    CollisionFreeNowAll evs ↔ ∀ k ≤ evs.length, CollisionFreeNow (currentOf (evs.take k)) :=
  Ts.Lemmas.C05He.collisionFreeNowAll_iff evs

/-- the global condition implies the per-prefix one (so every `CollisionFree` history is covered by
the primed theorems) -/
theorem collisionFreeNowAll_of_collisionFree (evs : List Event) (h : CollisionFree evs) :
    CollisionFreeNowAll evs := Ts.Lemmas.C05He.collisionFreeNowAll_of_collisionFree evs h

/-- the PMT in force on `p` after `pre ++ PMT(p, body) :: post`, when `post` applies no PMT on `p`
and every PAT in `post` announces `p` as a program-map PID, is `body` -/
theorem current_pmt_after (pre post : List Event) (p ver : Nat) (body : Bytes)
    (hlast : ∀ ev ∈ post, ∀ v b, ev ≠ .pmtApplied p v b)
    (hkeep : ∀ ev ∈ post, ∀ v es, ev = .patApplied v es → p ∈ progPids es) :
    (p, body) ∈ (currentOf (pre ++ .pmtApplied p ver body :: post)).pmt :=
  cur_after_pmt pre post p ver body (fun ev hm => ⟨hlast ev hm, hkeep ev hm⟩)

/-- **The positive clause for the tables in force.**  `evs`: a well-formed history such that after
EVERY prefix the tables in force are collision-free (`CollisionFreeNowAll`; superseded tables are not
constrained).  If `body` is the PMT in force on the program-map PID `p` (the most recent PMT applied
on `p` since `p` has continuously been announced by the PAT) then every PID `q` it lists is routed by
the stream request of its (last) entry in `body`: naming `p`, the entry's stream type, `q`, the
section's PCR PID and descriptors. -/
theorem routed_by_current_pmt (evs : List Event) (hwf : WF initRoute evs) (hcf : CollisionFreeNowAll evs)
    (p : Nat) (body : Bytes) (hm : (p, body) ∈ (currentOf evs).pmt) (q : Nat) (req : Req)
    (hq : lastFor (pmtReqs p body) q = some req) :
    (∃ tag, (run initRoute evs).slots q = some (req, tag)) ∧
    routeOf (run initRoute evs) q = some (kindOf req) ∧
    ∃ s ∈ streamsOf body, s.pid = q ∧
      req = .stream p s.streamType q (specPcrPid body) s.descBytes (specProgramDescBytes body) := by
  obtain ⟨tag, h⟩ := Ts.Lemmas.C05He.routed_by_current_pmt evs hwf hcf p body hm q req hq
  refine ⟨⟨tag, h⟩, by unfold routeOf; rw [h]; rfl, ?_⟩
  have := lastFor_mem _ _ _ hq
  unfold pmtReqs pmtRequests at this
  obtain ⟨s, hs, hee⟩ := List.mem_map.1 this
  simp only [Prod.mk.injEq] at hee
  obtain ⟨e1, e2⟩ := hee
  exact ⟨s, hs, e1, by rw [← e2, ← e1]; rfl⟩

/-- `routed_by_latest_pmt` with the global `CollisionFree` replaced by `CollisionFreeNowAll`.
Extra hypotheses compared with `routed_by_latest_pmt`: the history is well-formed (`hwf`), and every
PAT applied after the PMT still announces `p` as a program-map PID (`hkeep`: the program is not
dropped and announced again in between — then its PMT would no longer be in force). -/
theorem routed_by_latest_pmt' (pre post : List Event) (p ver : Nat) (body : Bytes) (q : Nat) (req : Req)
    (hwf : WF initRoute (pre ++ .pmtApplied p ver body :: post))
    (hcf : CollisionFreeNowAll (pre ++ .pmtApplied p ver body :: post))
    (hlast : ∀ ev ∈ post, ∀ v b, ev ≠ .pmtApplied p v b)
    (hkeep : ∀ ev ∈ post, ∀ v es, ev = .patApplied v es → p ∈ progPids es)
    (hq : lastFor (pmtReqs p body) q = some req) :
    (∃ tag, (run initRoute (pre ++ .pmtApplied p ver body :: post)).slots q = some (req, tag)) ∧
    routeOf (run initRoute (pre ++ .pmtApplied p ver body :: post)) q = some (kindOf req) ∧
    ∃ s ∈ streamsOf body, s.pid = q ∧
      req = .stream p s.streamType q (specPcrPid body) s.descBytes (specProgramDescBytes body) :=
  routed_by_current_pmt _ hwf hcf p body (current_pmt_after pre post p ver body hlast hkeep) q req hq

/-- the old theorem as a corollary (for well-formed histories in which `p` stays announced) -/
example (pre post : List Event) (p ver : Nat) (body : Bytes) (q : Nat) (req : Req)
    (hwf : WF initRoute (pre ++ .pmtApplied p ver body :: post))
    (hcf : CollisionFree (pre ++ .pmtApplied p ver body :: post))
    (hlast : ∀ ev ∈ post, ∀ v b, ev ≠ .pmtApplied p v b)
    (hkeep : ∀ ev ∈ post, ∀ v es, ev = .patApplied v es → p ∈ progPids es)
    (hq : lastFor (pmtReqs p body) q = some req) :
    ∃ tag, (run initRoute (pre ++ .pmtApplied p ver body :: post)).slots q = some (req, tag) :=
  (routed_by_latest_pmt' pre post p ver body q req hwf (collisionFreeNowAll_of_collisionFree _ hcf)
    hlast hkeep hq).1

/-- **the first sentence of C05, end to end, for the tables in force.**  As `handled_by_latest_pmt`
with `CollisionFree` replaced by `CollisionFreeNowAll` and the extra hypothesis `hkeep` (every PAT
after the PMT still announces `p`). -/
theorem handled_by_latest_pmt' (cfg : Cfg) (hscript : cfg.script = []) (pre post : List Event)
    (p ver : Nat) (body : Bytes) (pks : List Pk) (q : Nat) (s : StreamInfo)
    (hwf : WF initRoute (pre ++ .pmtApplied p ver body :: post))
    (hcf : CollisionFreeNowAll (pre ++ .pmtApplied p ver body :: post))
    (hre : Realises initRoute (pre ++ .pmtApplied p ver body :: post) pks)
    (hlast : ∀ ev ∈ post, ∀ v b, ev ≠ .pmtApplied p v b)
    (hkeep : ∀ ev ∈ post, ∀ v es, ev = .patApplied v es → p ∈ progPids es)
    (hq : lastFor (pmtReqs p body) q
      = some (.stream p s.streamType q (specPcrPid body) s.descBytes (specProgramDescBytes body))) :
    ∃ t c tag, pushModel App.sem (App.init cfg) pks = .ok (t, c) ∧
      Ev.construct (.stream p s.streamType q (specPcrPid body) s.descBytes (specProgramDescBytes body)) tag
        ∈ c.trace ∧
      (if isPes s.streamType then ∃ f, t.get q = some (.pes tag f) else t.get q = some (.recorder tag)) := by
  obtain ⟨t, c, -, h2, hslots, htags, -, -, -⟩ := routing_refines cfg hscript _ pks hwf hre
  obtain ⟨⟨tag, hs⟩, -, -⟩ := routed_by_latest_pmt' pre post p ver body q _ hwf hcf hlast hkeep hq
  have hrel := hslots q
  rw [hs] at hrel
  exact ⟨t, c, tag, h2, (htags q _ tag hs).2.1, hrel⟩

/-- **A history that is NOT `CollisionFree` but satisfies the new hypothesis.**  `movedHist`: PAT
{1 → 0x100, 2 → 0x110}; PMT(0x100) v0 {0x101, 0x102}; PMT(0x100) v1 {0x101} (applied by the same
instance, so 0x102 is removed); PMT(0x110) v0 {0x102}; a packet on 0x102 — PID 0x102 MOVES from
program 1 to program 2.  It is realised by real packets (`movedBytes`). -/
example : WF initRoute movedHist ∧ ¬ CollisionFree movedHist ∧ CollisionFreeNowAll movedHist ∧
    Demux.frame movedBytes 0 = .ok movedPks ∧ Realises initRoute movedHist movedPks :=
  ⟨moved_wf, moved_not_cf, moved_cfn, moved_frame, moved_realises⟩

/-- `handled_by_latest_pmt'` on it: 0x102 is handled by a PES filter built from program 2's stream
request … -/
theorem moved_handled :
    ∃ t c tag, runApp {} [movedBytes] = .ok (t, c) ∧
      Ev.construct (.stream 0x110 0x0f 0x102 0x102 [] []) tag ∈ c.trace ∧
      ∃ f, t.get 0x102 = some (.pes tag f) := by
  obtain ⟨t, c, tag, h1, h2, h3⟩ := handled_by_latest_pmt' {} rfl
    [.patApplied 0 pat2, .pmtApplied 0x100 0 body0, .pmtApplied 0x100 1 body1] [.esPacket 0x102]
    0x110 0 bodyM movedPks 0x102 ⟨0x0f, 0x102, []⟩ moved_wf moved_cfn moved_realises
    (by intro ev hm v b e; rw [List.mem_singleton] at hm; rw [hm] at e; cases e)
    (by intro ev hm v es e; rw [List.mem_singleton] at hm; rw [hm] at e; cases e)
    (by decide +kernel)
  have e1 : specPcrPid bodyM = 0x102 := by decide +kernel
  have e2 : specProgramDescBytes bodyM = [] := by decide +kernel
  rw [e1, e2] at h2
  rw [if_pos (by decide)] at h3
  exact ⟨t, c, tag, by rw [runApp_one {} movedBytes movedPks moved_frame]; exact h1, h2, h3⟩

/-- … and kernel evaluation of the whole model on the same bytes agrees: that tag is 6, and the
callbacks for the probe packet carry tag 6 (no stale handler interferes) -/
theorem moved_checked :
    ∃ t c, runApp {} [movedBytes] = .ok (t, c) ∧ (∃ f, t.get 0x102 = some (.pes 6 f)) ∧
      Ev.construct (.stream 0x110 0x0f 0x102 0x102 [] []) 6 ∈ c.trace ∧
      (∀ tag, Ev.construct (.byPid 0x102) tag ∉ c.trace) ∧ esTags c = [(6, 0), (6, 1)] := by
  obtain ⟨t, c, hr, hc, -, -, -, h102, -⟩ := observe_some _ _ moved_run
  obtain ⟨t', c', hr', he⟩ := esTagsOf_some _ _ moved_es
  rw [hr] at hr'
  simp only [R.ok.injEq, Prod.mk.injEq] at hr'
  obtain ⟨-, rfl⟩ := hr'
  refine ⟨t, c, hr, slot_pes _ _ h102, ?_, ?_, he⟩
  · rw [← mem_constructs, hc]; decide
  · intro tag hm
    rw [← mem_constructs, hc] at hm
    simp at hm

/-! ### the "dropped PIDs" clause as a statement about TAGS -/

/-- PMT, with tags: a PID listed by one PMT version on `p` and dropped by the next version applied on
`p` is afterwards routed to NO handler instance — in particular not to the one (tag `tag`) the older
version installed — PROVIDED no PAT version listing `p` was applied in between. -/
theorem dropped_by_same_pmt_instance' (r : Route) (mid : List Event) (p v1 v2 : Nat) (b1 b2 : Bytes)
    (q tag : Nat)
    (hmid : ∀ ev ∈ mid, (∀ v b, ev ≠ .pmtApplied p v b) ∧
      ∀ v es, ev = .patApplied v es → p ∉ es.map PatEntry.pid)
    (hq : q ∈ (streamsOf b1).map StreamInfo.pid) (h13 : q ≤ 0x1fff)
    (hdrop : q ∉ (streamsOf b2).map StreamInfo.pid) :
    tagOf (run r (.pmtApplied p v1 b1 :: mid ++ [.pmtApplied p v2 b2])) q = none ∧
    tagOf (run r (.pmtApplied p v1 b1 :: mid ++ [.pmtApplied p v2 b2])) q ≠ some tag := by
  have h := dropped_by_same_pmt_instance r mid p v1 v2 b1 b2 q hmid hq h13 hdrop
  have h' := ((routeOf_iff _ q).1).1 h
  unfold tagOf
  rw [h']
  exact ⟨rfl, fun e => by cases e⟩

/-- **`DroppedClausePmt'` with the exact extra hypothesis** "no PAT version listing `p` was applied
between the two PMT versions" (needs neither `WF` nor `CollisionFree`; `q` a 13-bit PID) -/
theorem dropped_clause_pmt'_partial (pre mid : List Event) (p v1 v2 : Nat) (b1 b2 : Bytes) (q tag : Nat)
    (hmid : ∀ ev ∈ mid, ∀ v b, ev ≠ .pmtApplied p v b)
    (hpat : ∀ ev ∈ mid, ∀ v es, ev = .patApplied v es → p ∉ es.map PatEntry.pid)
    (hq : q ∈ (streamsOf b1).map StreamInfo.pid) (h13 : q ≤ 0x1fff)
    (hdrop : q ∉ (streamsOf b2).map StreamInfo.pid) :
    tagOf (run initRoute (pre ++ (.pmtApplied p v1 b1 :: mid ++ [.pmtApplied p v2 b2]))) q ≠ some tag := by
  rw [run_append]
  exact (dropped_by_same_pmt_instance' _ mid p v1 v2 b1 b2 q tag
    (fun ev hm => ⟨hmid ev hm, hpat ev hm⟩) hq h13 hdrop).2

/-- **known finding F7 against the faithful clause: `DroppedClausePmt'` is FALSE.**  Witness as in
`dropped_clause_pmt_false`: right after PMT v0, 0x102 is routed to the instance with tag 3; after
PAT v1 and PMT v1 (which drops 0x102) it is STILL routed to the instance with tag 3. -/
theorem dropped_clause_pmt'_false : ¬ DroppedClausePmt' := by
  intro h
  have := h [.patApplied 0 [.program 1 0x100]] [.patApplied 1 [.program 1 0x100, .program 2 0x110]]
    0x100 0 1 body0 body1 0x102 3 (by decide +kernel) (by decide +kernel)
    (by intro ev hm v b e; rw [List.mem_singleton] at hm; rw [hm] at e; cases e)
    (by decide +kernel) (by decide +kernel) (by decide +kernel)
  revert this
  decide +kernel

/-- … and in the model (kernel evaluation of the whole model on the F7 bytes with a unit-start probe
packet): the handler PMT v0 installed for 0x102 (`construct` with tag 3) still sits in slot 0x102
after PMT v1 dropped 0x102, and the probe packet produces `start_stream` / `begin_packet` callbacks
carrying tag 3.  (`f7_refined` derives the slot content from `routing_refines`.) -/
theorem dropped_clause_model_witness :
    ∃ t c, runApp {} [f7aBytes] = .ok (t, c) ∧ (∃ f, t.get 0x102 = some (.pes 3 f)) ∧
      Ev.construct (.stream 0x100 0x0f 0x102 0x101 [] []) 3 ∈ c.trace ∧
      (∃ s, t.get 0x100 = some (.pmt 0x100 1 s [0x101])) ∧ esTags c = [(3, 0), (3, 1)] := by
  obtain ⟨t, c, hr, hc, -, h100, -, h102, -⟩ := observe_some _ _ f7a_run
  obtain ⟨t', c', hr', he⟩ := esTagsOf_some _ _ f7a_es
  rw [hr] at hr'
  simp only [R.ok.injEq, Prod.mk.injEq] at hr'
  obtain ⟨-, rfl⟩ := hr'
  refine ⟨t, c, hr, slot_pes _ _ h102, ?_, slot_pmt _ _ _ _ h100, he⟩
  rw [← mem_constructs, hc]; decide

/-- the dropped clause end to end, under the same-instance hypothesis: after a realised well-formed
history `pre ++ PMT(p) v1 :: mid ++ [PMT(p) v2]` with no PMT on `p` and no PAT listing `p` in `mid`,
the slot of a PID listed by v1 and not by v2 is EMPTY in the dispatcher's table -/
theorem dropped_by_same_pmt_instance_handled (cfg : Cfg) (hscript : cfg.script = [])
    (pre mid : List Event) (p v1 v2 : Nat) (b1 b2 : Bytes) (q : Nat) (pks : List Pk)
    (hwf : WF initRoute (pre ++ (.pmtApplied p v1 b1 :: mid ++ [.pmtApplied p v2 b2])))
    (hre : Realises initRoute (pre ++ (.pmtApplied p v1 b1 :: mid ++ [.pmtApplied p v2 b2])) pks)
    (hmid : ∀ ev ∈ mid, (∀ v b, ev ≠ .pmtApplied p v b) ∧
      ∀ v es, ev = .patApplied v es → p ∉ es.map PatEntry.pid)
    (hq : q ∈ (streamsOf b1).map StreamInfo.pid) (h13 : q ≤ 0x1fff)
    (hdrop : q ∉ (streamsOf b2).map StreamInfo.pid) :
    ∃ t c, pushModel App.sem (App.init cfg) pks = .ok (t, c) ∧ t.get q = none := by
  obtain ⟨t, c, -, h2, hslots, -, -, -, -⟩ := routing_refines cfg hscript _ pks hwf hre
  have h := dropped_by_same_pmt_instance (run initRoute pre) mid p v1 v2 b1 b2 q hmid hq h13 hdrop
  rw [← run_append] at h
  have h' := ((routeOf_iff _ q).1).1 h
  have hrel := hslots q
  rw [h'] at hrel
  exact ⟨t, c, h2, hrel⟩

/-! ### observable conclusion: the callbacks of the next packet carry the handler's tag -/

/-- a packet on a PID whose slot holds the PES filter with tag `tag` (the conclusion of
`handled_by_latest_pmt` / `handled_by_latest_pmt'` for an `is_pes` stream type): for ANY unflagged
188-byte packet `pk` on that PID the dispatcher step succeeds, keeps a PES filter with the SAME tag
in the slot and changes no other slot, makes no request (`nextTag` unchanged, no `construct` event),
and every event it appends to the trace is an elementary-stream callback carrying `tag`
(`Ts.Lemmas.Proj.tagOf e = some tag`). -/
theorem next_packet_callbacks_tagged (t : Tab Handler) (c : Ctx) (pk : Pk) (tag : Nat) (f : PesFilter.F)
    (hg : t.get pk.pid = some (.pes tag f)) (hf : pk.flagged = false) (hl : pk.bytes.length = 188) :
    ∃ f' c' out, specStep App.sem (t, c) pk = .ok (t.insert pk.pid (.pes tag f'), c') ∧
      c'.trace = out ++ c.trace ∧ c'.nextTag = c.nextTag ∧ c'.cfg = c.cfg ∧
      ∀ e ∈ out, Ts.Lemmas.Proj.tagOf e = some tag ∧ ∀ req σ, e ≠ .construct req σ := by
  obtain ⟨h', c', chg, h1, -, -⟩ := Ts.Lemmas.C01.consume_total (.pes tag f) c pk trivial hl
  obtain ⟨out, f', e1, e2, h2, h3, h4, h5⟩ := Ts.Lemmas.C19.pes_consume_events tag f c pk h' c' chg hl h1
  subst e1 e2
  refine ⟨f', c', out, ?_, h2, h4, h5, ?_⟩
  · rw [next_packet_handled t c pk _ hg hf, h1]; rfl
  · intro e he
    have := h3 e he
    cases e <;> first
      | exact this.elim
      | exact ⟨by simp only [Ts.Lemmas.Proj.tagOf]; rw [this], fun _ _ h => by cases h⟩
      | exact ⟨by simp only [Ts.Lemmas.Proj.tagOf]; rw [this.1], fun _ _ h => by cases h⟩

/-- **the first sentence of C05 in terms of callbacks.**  Hypotheses of `handled_by_latest_pmt'` plus
`is_pes` of the entry's stream type.  Then for ANY unflagged 188-byte packet `pk` on `q` following
the packets of the history: the real loops on `pks ++ [pk]` succeed, make no further request, and
every event appended for `pk` is an elementary-stream callback carrying the tag `tag` under which the
application answered the stream request naming `p`, the stream type and `q`. -/
theorem latest_pmt_stream_callbacks_tagged (cfg : Cfg) (hscript : cfg.script = []) (pre post : List Event)
    (p ver : Nat) (body : Bytes) (pks : List Pk) (q : Nat) (s : StreamInfo)
    (hwf : WF initRoute (pre ++ .pmtApplied p ver body :: post))
    (hcf : CollisionFreeNowAll (pre ++ .pmtApplied p ver body :: post))
    (hre : Realises initRoute (pre ++ .pmtApplied p ver body :: post) pks)
    (hlast : ∀ ev ∈ post, ∀ v b, ev ≠ .pmtApplied p v b)
    (hkeep : ∀ ev ∈ post, ∀ v es, ev = .patApplied v es → p ∈ progPids es)
    (hq : lastFor (pmtReqs p body) q
      = some (.stream p s.streamType q (specPcrPid body) s.descBytes (specProgramDescBytes body)))
    (hpes : isPes s.streamType = true)
    (pk : Pk) (hpid : pk.pid = q) (hf : pk.flagged = false) (hl : pk.bytes.length = 188) :
    ∃ t c tag t' c' out, pushModel App.sem (App.init cfg) pks = .ok (t, c) ∧
      Ev.construct (.stream p s.streamType q (specPcrPid body) s.descBytes (specProgramDescBytes body)) tag
        ∈ c.trace ∧
      pushModel App.sem (App.init cfg) (pks ++ [pk]) = .ok (t', c') ∧
      c'.trace = out ++ c.trace ∧ c'.nextTag = c.nextTag ∧
      (∀ e ∈ out, Ts.Lemmas.Proj.tagOf e = some tag ∧ ∀ req σ, e ≠ .construct req σ) ∧
      (∃ f', t'.get q = some (.pes tag f')) := by
  obtain ⟨t, c, tag, h1, h2, h3⟩ := handled_by_latest_pmt' cfg hscript pre post p ver body pks q s
    hwf hcf hre hlast hkeep hq
  rw [if_pos hpes] at h3
  obtain ⟨f, hg⟩ := h3
  obtain ⟨f', c', out, hstep, e1, e2, -, e4⟩ :=
    next_packet_callbacks_tagged t c pk tag f (by rw [hpid]; exact hg) hf hl
  refine ⟨t, c, tag, t.insert pk.pid (.pes tag f'), c', out, h1, h2, ?_, e1, e2, e4, f', ?_⟩
  · rw [Ts.Props.C06.push_refines_spec] at h1 ⊢
    rw [pushSpec_append_aux, h1]
    simp only [R.ok_bind, pushSpec_cons, hstep, pushSpec_nil]
  · rw [hpid]; exact Tab.get_insert_self _ _ _

/-- non-vacuity of `next_packet_callbacks_tagged` / `latest_pmt_stream_callbacks_tagged`: the
`movedHist` history up to PMT(0x110) and the probe packet `probeA` on 0x102 -/
example : ∃ t c tag t' c' out,
    pushModel App.sem (App.init {}) (movedPks.take 4) = .ok (t, c) ∧
    Ev.construct (.stream 0x110 0x0f 0x102 (specPcrPid bodyM) [] (specProgramDescBytes bodyM)) tag ∈ c.trace ∧
    pushModel App.sem (App.init {}) (movedPks.take 4 ++ [⟨probeA, 752, 0x102, false, false⟩]) = .ok (t', c') ∧
    c'.trace = out ++ c.trace ∧ c'.nextTag = c.nextTag ∧
    (∀ e ∈ out, Ts.Lemmas.Proj.tagOf e = some tag ∧ ∀ req σ, e ≠ .construct req σ) ∧
    (∃ f', t'.get 0x102 = some (.pes tag f')) :=
  latest_pmt_stream_callbacks_tagged {} rfl
    [.patApplied 0 pat2, .pmtApplied 0x100 0 body0, .pmtApplied 0x100 1 body1] []
    0x110 0 bodyM (movedPks.take 4) 0x102 ⟨0x0f, 0x102, []⟩ (by decide +kernel) (by decide +kernel)
    (Realises.cons (re_pat2 _ 0) (Realises.cons (re_pmt0 _ 188) (Realises.cons (re_pmt1 _ 376)
      (Realises.cons (re_pmt2_M _ 564) (Realises.nil _)))))
    (by intro ev hm; cases hm) (by intro ev hm; cases hm) (by decide +kernel) (by decide)
    ⟨probeA, 752, 0x102, false, false⟩ rfl rfl (by show probeA.length = 188; decide +kernel)

/-! ### instantiations (non-vacuity) of `removal_partial`, `handled_by_latest_pmt`, `dropped_by_next_pat` -/

/-- `Ts.Props.C05.removal_partial` on real bytes: the PMT filter on 0x100 that remembers PMT v0's PIDs
{0x101, 0x102} consumes the packet carrying PMT v1 (`pmtV1`): it queues `remove 0x102` and ends up
remembering {0x101} -/
example : ∃ s' c' chg,
    App.consume (.pmt 0x100 1 {} ((streamsOf body0).map StreamInfo.pid)) { cfg := {} }
        ⟨pmtV1, 376, 0x100, false, false⟩ = .ok (.pmt 0x100 1 s' [0x101], c', chg) ∧
      Change.remove 0x102 ∈ chg ∧ ∀ t : Tab Handler, (applyChanges t chg).get 0x102 = none := by
  have h : (match Psi.consume Psi.table {} pmtV1 with
      | .ok (_, [d]) =>
        (match Psi.crcPass false d.bytes with | .ok true => true | _ => false) &&
          byteD d.bytes 0 == 2 && decide (sectionBody d.bytes = body1)
      | _ => false) = true := by decide +kernel
  split at h
  · rename_i s' d heq
    simp only [Bool.and_eq_true, beq_iff_eq, decide_eq_true_eq] at h
    obtain ⟨⟨h1, h2⟩, h3⟩ := h
    split at h1
    · rename_i hc
      have := Ts.Props.C05.removal_partial 0x100 1 {} body0 { cfg := {} } ⟨pmtV1, 376, 0x100, false, false⟩
        s' d 0x102 heq hc (by rw [h3]; decide +kernel) h2 (by decide +kernel)
        (by rw [h3]; decide +kernel)
      obtain ⟨c', chg, a1, -, a3, a4⟩ := this
      rw [h3, streams_body1] at a1
      exact ⟨s', c', chg, a1, a3, fun t => (a4 t).1⟩
    · cases h1
  · cases h

/-- `handled_by_latest_pmt` on the control history (real packets `ctlPks`): 0x101, listed by the most
recent PMT (v1) of 0x100, holds a PES filter whose tag is that of a `construct` event with the stream
request of PMT v1 -/
example : ∃ t c tag, pushModel App.sem (App.init {}) ctlPks = .ok (t, c) ∧
    Ev.construct (.stream 0x100 0x1b 0x101 (specPcrPid body1) [] (specProgramDescBytes body1)) tag ∈ c.trace ∧
    ∃ f, t.get 0x101 = some (.pes tag f) := by
  obtain ⟨t, c, tag, h1, h2, h3⟩ := handled_by_latest_pmt {} rfl
    [.patApplied 0 [.program 1 0x100], .pmtApplied 0x100 0 body0] [.esPacket 0x102]
    0x100 1 body1 ctlPks 0x101 ⟨0x1b, 0x101, []⟩ ctl_wf ctl_cf ctl_realises
    (by intro ev hm v b e; rw [List.mem_singleton] at hm; rw [hm] at e; cases e)
    (by decide +kernel)
  rw [if_pos (by decide)] at h3
  exact ⟨t, c, tag, h1, h2, h3⟩

/-- `dropped_by_next_pat` on `dropHist`: the program-map PID 0x100, listed by PAT v0 and not by PAT v1
(a PMT applied in between), is un-routed -/
example : routeOf (run initRoute dropHist) 0x100 = none :=
  dropped_by_next_pat initRoute [.pmtApplied 0x100 0 body0] 0 1 [.program 1 0x100] [] 0x100
    (by intro ev hm v es e; rw [List.mem_singleton] at hm; rw [hm] at e; cases e)
    (by decide) (by decide) (by decide)

/-! ### interleaved realisation: elementary-stream packets between the packets of one table -/

/-- `Realises` is the special case of `RealisesI` without interleaved packets -/
theorem realisesI_of_realises {r : Route} {evs : List Event} {pks : List Pk} (h : Realises r evs pks) :
    RealisesI r evs pks := Ts.Lemmas.C05He.realisesI_of_realises h

/-- the induction, from any agreeing start, for interleaved realisations -/
theorem routing_refines_interleaved_from (r : Route) (t : Tab Handler) (c : Ctx) (evs : List Event)
    (pks : List Pk) (hsim : Sim r t c) (hwf : WF r evs) (hre : RealisesI r evs pks) :
    ∃ t' c', pushSpec App.sem (t, c) pks = .ok (t', c') ∧ pushModel App.sem (t, c) pks = .ok (t', c') ∧
      Sim (run r evs) t' c' := by
  obtain ⟨t', c', h1, h2⟩ := sim_run_I hre t c hsim hwf
  exact ⟨t', c', h1, by rw [Ts.Props.C06.push_refines_spec]; exact h1, h2⟩

/-- **C05 over whole histories, with interleaving.**  As `routing_refines`, but `pks` realises the
history in the sense of `RealisesI`: between (before, after) the packets of ONE PAT / PMT transmission
there may be any number of unflagged 188-byte packets on PIDs that, in the state the table event
happens in, are routed to a PES filter and are not named by the event (neither listed by the new
version nor installed by the superseded one) — `Foreign`.  Same conclusion as `routing_refines`.
NOT covered: packets of OTHER tables, of recorders or of unknown PIDs inside a multi-packet table
(they must sit between events), and packets on PIDs the table itself names. -/
theorem routing_refines_interleaved (cfg : Cfg) (hscript : cfg.script = []) (evs : List Event)
    (pks : List Pk) (hwf : WF initRoute evs) (hre : RealisesI initRoute evs pks) :
    ∃ t c, pushSpec App.sem (App.init cfg) pks = .ok (t, c)
      ∧ pushModel App.sem (App.init cfg) pks = .ok (t, c)
      ∧ (∀ pid, SlotRel (run initRoute evs) pid ((run initRoute evs).slots pid) (t.get pid))
      ∧ (∀ pid req tag, (run initRoute evs).slots pid = some (req, tag) →
            reqPid req = pid ∧ Ev.construct req tag ∈ c.trace ∧ tag < c.nextTag)
      ∧ (∀ pid pid' req req' tag, (run initRoute evs).slots pid = some (req, tag) →
            (run initRoute evs).slots pid' = some (req', tag) → pid = pid')
      ∧ constructs c = (Req.byPid 0 :: historyRequests initRoute evs).zipIdx
      ∧ c.nextTag = 1 + (historyRequests initRoute evs).length := by
  obtain ⟨t, c, h1, h2, hsim⟩ :=
    routing_refines_interleaved_from initRoute _ _ evs pks (sim_init cfg hscript) hwf hre
  have hinv := tagInv_run evs initRoute tagInv_init
  have hreqs : (run initRoute evs).reqs = Req.byPid 0 :: historyRequests initRoute evs := by
    rw [run_reqs]; rfl
  refine ⟨t, c, h1, h2, hsim.slots, ?_, ?_, ?_, ?_⟩
  · intro pid req tag hs
    obtain ⟨a1, a2⟩ := hinv pid req tag hs
    refine ⟨a1, ?_, ?_⟩
    · rw [← mem_constructs, hsim.log, List.mem_zipIdx_iff_getElem?]; exact a2
    · rw [hsim.tag]
      apply Classical.byContradiction
      intro hn
      rw [List.getElem?_eq_none (by omega)] at a2
      cases a2
  · intro pid pid' req req' tag ha hb
    exact tags_distinct _ hinv pid pid' req req' tag ha hb
  · rw [hsim.log, hreqs]
  · rw [hsim.tag, hreqs, List.length_cons]; omega

/-! #### non-vacuity: a TWO-packet PMT with an elementary-stream packet in between -/

/-- 184 bytes of elementary-stream descriptors (two user-private descriptors of 90 bytes) -/
def descL : Bytes := [0x80, 0x5a] ++ List.replicate 90 0x00 ++ ([0x80, 0x5a] ++ List.replicate 90 0x00)

/-- PMT body of program 2: PCR PID 0x111, 0x1b on 0x111 with 184 descriptor bytes -/
def bodyL : Bytes := [0xe1, 0x11, 0xf0, 0x00, 0x1b, 0xe1, 0x11, 0xf0, 0xb8] ++ descL

/-- the section: 205 bytes, so it needs two transport packets -/
def pmtLS : Bytes := [0x02, 0xb0, 0xca, 0x00, 0x02, 0xc1, 0x00, 0x00] ++ bodyL ++ [0x1c, 0x78, 0x1d, 0xd5]

/-- first packet on 0x110: unit start, `pointer_field = 0`, the first 183 bytes of the section -/
def pmtLA : Bytes := [0x47, 0x41, 0x10, 0x10, 0x00] ++ pmtLS.take 183

/-- second packet on 0x110: continuation, the remaining 22 bytes, stuffing -/
def pmtLB : Bytes := [0x47, 0x01, 0x10, 0x11] ++ pmtLS.drop 183 ++ List.replicate 162 0xff

/-- a unit-start packet on 0x101 (start of a PES packet, stream id 0xe0) -/
def probeB : Bytes :=
  [0x47, 0x41, 0x01, 0x10, 0x00, 0x00, 0x01, 0xe0, 0x00, 0x00, 0x80, 0x00, 0x00] ++ List.replicate 175 0x55

/-- PAT {1 → 0x100, 2 → 0x110}; PMT(0x100) {0x101, 0x102}; first packet of PMT(0x110); a packet on
0x101 (program 1's video); second packet of PMT(0x110) -/
def interBytes : Bytes := pat2V0 ++ pmtV0 ++ pmtLA ++ probeB ++ pmtLB

def interHist : List Event :=
  [.patApplied 0 pat2, .pmtApplied 0x100 0 body0, .pmtApplied 0x110 0 bodyL]

def interPks : List Pk :=
  [⟨pat2V0, 0, 0, false, false⟩, ⟨pmtV0, 188, 0x100, false, false⟩, ⟨pmtLA, 376, 0x110, false, false⟩,
   ⟨probeB, 564, 0x101, false, false⟩, ⟨pmtLB, 752, 0x110, false, false⟩]

theorem inter_frame : Demux.frame interBytes 0 = .ok interPks := by decide +kernel
theorem inter_wf : WF initRoute interHist := by decide +kernel

/-- the two packets on 0x110 are one intact transmission of `pmtLS` -/
theorem tx_pmtL : Transmits 0x110 pmtLS
    [⟨pmtLA, 376, 0x110, false, false⟩, ⟨pmtLB, 752, 0x110, false, false⟩] :=
  { wf := by decide +kernel, len := by decide +kernel, crc := by decide +kernel
    pkts := by
      intro pk hm
      simp only [List.mem_cons, List.mem_nil_iff, or_false] at hm
      rcases hm with rfl | rfl
      · exact ⟨rfl, rfl, by show pmtLA.length = 188; decide +kernel⟩
      · exact ⟨rfl, rfl, by show pmtLB.length = 188; decide +kernel⟩
    mux := ⟨⟨[], 183, [], [pmtLS.drop 183 ++ List.replicate 162 0xff], []⟩, 4,
      [⟨false, pmtLS.drop 183 ++ List.replicate 162 0xff, 4⟩],
      by decide +kernel,
      by
        show [pmtLA, pmtLB].filterMap Ts.Lemmas.C03.plOf = _
        decide +kernel,
      by decide, rfl⟩ }

theorem inter_realises : RealisesI initRoute interHist interPks := by
  refine RealisesI.cons (pks1 := [⟨pat2V0, 0, 0, false, false⟩])
    ⟨_, re_pat2 _ 0, Interleaves.own _ Interleaves.nil⟩
    (RealisesI.cons (pks1 := [⟨pmtV0, 188, 0x100, false, false⟩])
      ⟨_, re_pmt0 _ 188, Interleaves.own _ Interleaves.nil⟩
      (RealisesI.cons (pks1 := [⟨pmtLA, 376, 0x110, false, false⟩, ⟨probeB, 564, 0x101, false, false⟩,
          ⟨pmtLB, 752, 0x110, false, false⟩]) (pks2 := [])
        ⟨[⟨pmtLA, 376, 0x110, false, false⟩, ⟨pmtLB, 752, 0x110, false, false⟩], ?_, ?_⟩
        (RealisesI.nil _)))
  · exact ⟨pmtLS, tx_pmtL, by decide +kernel, by decide +kernel, by decide +kernel, by decide +kernel⟩
  · refine Interleaves.own _ (Interleaves.foreign _ ?_ (Interleaves.own _ Interleaves.nil))
    refine ⟨rfl, by show probeB.length = 188; decide +kernel, ?_, ?_⟩
    · exact ⟨0x100, 0x1b, 0x101, 0x101, [], [], 3, by decide +kernel, by decide⟩
    · show _ ∉ _ ∧ _ ∉ _
      decide +kernel

/-- `routing_refines_interleaved` on it: the PMT of program 2 is applied although a packet of
program 1 sat between its two packets; 0x101 still holds the PES filter with tag 3 … -/
theorem inter_refined :
    ∃ t c, runApp {} [interBytes] = .ok (t, c) ∧ (∃ f, t.get 0x101 = some (.pes 3 f)) ∧
      (∃ f, t.get 0x111 = some (.pes 5 f)) ∧
      (∃ s, t.get 0x110 = some (.pmt 0x110 2 s [0x111])) ∧
      Ev.construct (.stream 0x110 0x1b 0x111 0x111 descL []) 5 ∈ c.trace := by
  obtain ⟨t, c, -, h2, hslots, htags, -, -, -⟩ :=
    routing_refines_interleaved {} rfl interHist interPks inter_wf inter_realises
  have s101 : (run initRoute interHist).slots 0x101 = some (.stream 0x100 0x1b 0x101 0x101 [] [], 3) := by
    decide +kernel
  have s111 : (run initRoute interHist).slots 0x111 = some (.stream 0x110 0x1b 0x111 0x111 descL [], 5) := by
    decide +kernel
  have s110 : (run initRoute interHist).slots 0x110 = some (.pmt 0x110 2, 2) := by decide +kernel
  have m110 : ((run initRoute interHist).pmt 0x110).streams.map StreamInfo.pid = [0x111] := by decide +kernel
  refine ⟨t, c, by rw [runApp_one {} interBytes interPks inter_frame]; exact h2, ?_, ?_, ?_, ?_⟩
  · have := hslots 0x101; rw [s101] at this; exact this
  · have := hslots 0x111; rw [s111] at this; exact this
  · have := hslots 0x110; rw [s110] at this
    obtain ⟨s, h1, -⟩ := this
    rw [m110] at h1
    exact ⟨s, h1⟩
  · exact (htags 0x111 _ 5 s111).2.1

/-- … and kernel evaluation of the whole model on the same bytes agrees; the interleaved packet
produced `start_stream` / `begin_packet` with tag 3 -/
theorem inter_checked :
    (match runApp {} [interBytes] with
      | .ok (t, c) => slotOf (t.get 0x101) == .pes 3 && slotOf (t.get 0x110) == .pmt 0x110 2 [0x111] &&
          decide (esTags c = [(3, 0), (3, 1)]) && decide ((constructs c).length = 6)
      | .panic _ => false) = true := by decide +kernel

open Ts.Lemmas.C05Hf

/-! ## Additions after the second review

* (PAT clause) `routed_by_current_pat`, `routed_by_latest_pat'`, `handled_by_latest_pat'`,
  `handled_by_latest_pat_nit'`: `routed_by_latest_pat` with the global `CollisionFree` replaced by
  `CollisionFreeNowAll`, and lifted to the dispatcher's table; instantiations of the old and the new
  theorem.
* (scope boundary, DESIGN 8.1b) `shared_pmt_pid_same_version_unrouted`, `shared_pmt_pid_alternating`:
  two PAT entries naming the SAME PMT PID.  `next_table_applied_at_once`, `second_section_deduplicated`:
  `current_next_indicator = 0` and multi-section tables.  None of these is a known finding; they are
  LEGAL inputs outside the vocabulary of `Spec/RoutingHistory.lean`.
* (per-program reading) `DistinctPmtPids`, `pmtPidOf`; `routed_by_latest_pmt_of_program`,
  `handled_by_latest_pmt_of_program`.
-/

/-! ### the PAT clause under collision-freedom of the tables IN FORCE only -/

/-- the most recent PAT is the PAT in force -/
theorem current_pat_after (pre post : List Event) (ver : Nat) (es : List PatEntry)
    (hlast : ∀ ev ∈ post, ∀ v es', ev ≠ .patApplied v es') :
    (currentOf (pre ++ .patApplied ver es :: post)).pat = es := cur_pat_after pre post ver es hlast

/-- **The PAT clause for the tables in force.**  `evs`: a well-formed history such that after EVERY
prefix the tables in force are collision-free (`CollisionFreeNowAll`).  A PID `q` listed by the PAT in
force is routed by the request of its (last) entry: `Pmt(q, program_number)` for a program entry,
`Nit(q)` for the network entry. -/
theorem routed_by_current_pat (evs : List Event) (hwf : WF initRoute evs) (hcf : CollisionFreeNowAll evs)
    (q : Nat) (req : Req) (hq : lastFor (patRequests (currentOf evs).pat) q = some req) :
    (∃ tag, (run initRoute evs).slots q = some (req, tag)) ∧
    routeOf (run initRoute evs) q = some (kindOf req) ∧
    ∃ e ∈ (currentOf evs).pat, e.pid = q ∧ req = patRequest e := by
  obtain ⟨tag, h⟩ := Ts.Lemmas.C05Hf.routed_by_current_pat evs hwf hcf q req hq
  exact ⟨⟨tag, h⟩, by unfold routeOf; rw [h]; rfl, entry_of_lastFor hq⟩

/-- `routed_by_latest_pat` with the global `CollisionFree` replaced by `CollisionFreeNowAll`; extra
hypothesis compared with `routed_by_latest_pat`: the history is well-formed (`hwf`). -/
theorem routed_by_latest_pat' (pre post : List Event) (ver : Nat) (es : List PatEntry) (q : Nat) (req : Req)
    (hwf : WF initRoute (pre ++ .patApplied ver es :: post))
    (hcf : CollisionFreeNowAll (pre ++ .patApplied ver es :: post))
    (hlast : ∀ ev ∈ post, ∀ v es', ev ≠ .patApplied v es')
    (hq : lastFor (patRequests es) q = some req) :
    (∃ tag, (run initRoute (pre ++ .patApplied ver es :: post)).slots q = some (req, tag)) ∧
    routeOf (run initRoute (pre ++ .patApplied ver es :: post)) q = some (kindOf req) ∧
    ∃ e ∈ es, e.pid = q ∧ req = patRequest e := by
  have hcur := current_pat_after pre post ver es hlast
  obtain ⟨h1, h2, -⟩ := routed_by_current_pat _ hwf hcf q req (by rw [hcur]; exact hq)
  exact ⟨h1, h2, entry_of_lastFor hq⟩

/-- the old theorem's conclusion as a corollary (for well-formed histories) -/
example (pre post : List Event) (ver : Nat) (es : List PatEntry) (q : Nat) (req : Req)
    (hwf : WF initRoute (pre ++ .patApplied ver es :: post))
    (hcf : CollisionFree (pre ++ .patApplied ver es :: post))
    (hlast : ∀ ev ∈ post, ∀ v es', ev ≠ .patApplied v es')
    (hq : lastFor (patRequests es) q = some req) :
    ∃ tag, (run initRoute (pre ++ .patApplied ver es :: post)).slots q = some (req, tag) :=
  (routed_by_latest_pat' pre post ver es q req hwf (collisionFreeNowAll_of_collisionFree _ hcf) hlast hq).1

/-- **"PMT PIDs are requested as program-map PIDs with the announced program number", end to end, for
the tables in force.**  After any realised, well-formed history with `CollisionFreeNowAll` whose most
recent PAT is `es`: if the last entry of `es` naming PID `q` is the entry of program `n`
(`hq`), slot `q` of the dispatcher's table holds a PMT filter with parameters `(q, n)`, not
reassembling, and the `construct` event with the request `Pmt(q, n)` is in the trace.  Its version memory
and registered PIDs are those of the abstract instance; if no PMT has been applied on `q` since the
PAT, it is fresh: no version, nothing registered. -/
theorem handled_by_latest_pat' (cfg : Cfg) (hscript : cfg.script = []) (pre post : List Event)
    (ver : Nat) (es : List PatEntry) (pks : List Pk) (q n : Nat)
    (hwf : WF initRoute (pre ++ .patApplied ver es :: post))
    (hcf : CollisionFreeNowAll (pre ++ .patApplied ver es :: post))
    (hre : Realises initRoute (pre ++ .patApplied ver es :: post) pks)
    (hlast : ∀ ev ∈ post, ∀ v es', ev ≠ .patApplied v es')
    (hq : lastFor (patRequests es) q = some (.pmt q n)) :
    ∃ t c tag s reg, pushModel App.sem (App.init cfg) pks = .ok (t, c) ∧
      Ev.construct (.pmt q n) tag ∈ c.trace ∧
      t.get q = some (.pmt q n s reg) ∧ s.remaining = none ∧
      reg = ((run initRoute (pre ++ .patApplied ver es :: post)).pmt q).streams.map StreamInfo.pid ∧
      s.lastVersion = ((run initRoute (pre ++ .patApplied ver es :: post)).pmt q).ver ∧
      ((∀ ev ∈ post, ∀ v b, ev ≠ .pmtApplied q v b) → reg = [] ∧ s.lastVersion = none) := by
  obtain ⟨t, c, -, h2, hslots, htags, -, -, -⟩ := routing_refines cfg hscript _ pks hwf hre
  obtain ⟨⟨tag, hs⟩, -, -⟩ := routed_by_latest_pat' pre post ver es q _ hwf hcf hlast hq
  have hrel := hslots q
  rw [hs] at hrel
  obtain ⟨s, h3, h4, h5⟩ := hrel
  refine ⟨t, c, tag, s, _, h2, (htags q _ tag hs).2.1, h3, h5, rfl, h4, ?_⟩
  intro hno
  have := fresh_after_pat (run initRoute pre) post ver es q q n hlast hno hq
  rw [← run_append] at this
  rw [h4, this.1, this.2]
  exact ⟨rfl, rfl⟩

/-- **"… and network entries as NIT PIDs", end to end.**  Same hypotheses; if the last entry of the most
recent PAT naming `q` is the network entry, slot `q` holds the recorder the application answered the
request `Nit(q)` with. -/
theorem handled_by_latest_pat_nit' (cfg : Cfg) (hscript : cfg.script = []) (pre post : List Event)
    (ver : Nat) (es : List PatEntry) (pks : List Pk) (q : Nat)
    (hwf : WF initRoute (pre ++ .patApplied ver es :: post))
    (hcf : CollisionFreeNowAll (pre ++ .patApplied ver es :: post))
    (hre : Realises initRoute (pre ++ .patApplied ver es :: post) pks)
    (hlast : ∀ ev ∈ post, ∀ v es', ev ≠ .patApplied v es')
    (hq : lastFor (patRequests es) q = some (.nit q)) :
    ∃ t c tag, pushModel App.sem (App.init cfg) pks = .ok (t, c) ∧
      Ev.construct (.nit q) tag ∈ c.trace ∧ t.get q = some (.recorder tag) := by
  obtain ⟨t, c, -, h2, hslots, htags, -, -, -⟩ := routing_refines cfg hscript _ pks hwf hre
  obtain ⟨⟨tag, hs⟩, -, -⟩ := routed_by_latest_pat' pre post ver es q _ hwf hcf hlast hq
  have hrel := hslots q
  rw [hs] at hrel
  exact ⟨t, c, tag, h2, (htags q _ tag hs).2.1, hrel⟩

/-! #### instantiations (non-vacuity) of the old and the new PAT clause -/

/-- `routed_by_latest_pat` (the OLD theorem, global `CollisionFree`) on the F7 history: the most recent
PAT is v1 {1 → 0x100, 2 → 0x110}, followed by PMT v1 and a packet; 0x110 is routed by `Pmt(0x110, 2)` -/
example : routeOf (run initRoute f7Hist) 0x110 = some (.pmt 0x110 2) :=
  (routed_by_latest_pat [.patApplied 0 [.program 1 0x100], .pmtApplied 0x100 0 body0]
    [.pmtApplied 0x100 1 body1, .esPacket 0x102] 1 [.program 1 0x100, .program 2 0x110] 0x110 (.pmt 0x110 2)
    f7_cf
    (by
      intro ev hm v es e
      simp only [List.mem_cons, List.mem_nil_iff, or_false] at hm
      rcases hm with rfl | rfl <;> cases e)
    (by decide +kernel)).2.1

/-- `routed_by_latest_pat'` on `movedHist`, which is NOT `CollisionFree` (PID 0x102 moves between
programs) but `CollisionFreeNowAll`: 0x110 is routed by `Pmt(0x110, 2)` -/
example : routeOf (run initRoute movedHist) 0x110 = some (.pmt 0x110 2) :=
  (routed_by_latest_pat' [] [.pmtApplied 0x100 0 body0, .pmtApplied 0x100 1 body1, .pmtApplied 0x110 0 bodyM,
      .esPacket 0x102] 0 pat2 0x110 (.pmt 0x110 2) moved_wf moved_cfn
    (by
      intro ev hm v es e
      simp only [List.mem_cons, List.mem_nil_iff, or_false] at hm
      rcases hm with rfl | rfl | rfl | rfl <;> cases e)
    (by decide +kernel)).2.1

/-- `handled_by_latest_pat'` on `movedHist` / `movedBytes` (real packets): slot 0x110 holds the PMT
filter of program 2, built for the request `Pmt(0x110, 2)`; slot 0x100 that of program 1 -/
theorem moved_pat_handled :
    ∃ t c tag s reg, runApp {} [movedBytes] = .ok (t, c) ∧ Ev.construct (.pmt 0x110 2) tag ∈ c.trace ∧
      t.get 0x110 = some (.pmt 0x110 2 s reg) ∧ s.remaining = none := by
  obtain ⟨t, c, tag, s, reg, h1, h2, h3, h4, -⟩ := handled_by_latest_pat' {} rfl []
    [.pmtApplied 0x100 0 body0, .pmtApplied 0x100 1 body1, .pmtApplied 0x110 0 bodyM, .esPacket 0x102]
    0 pat2 movedPks 0x110 2 moved_wf moved_cfn moved_realises
    (by
      intro ev hm v es e
      simp only [List.mem_cons, List.mem_nil_iff, or_false] at hm
      rcases hm with rfl | rfl | rfl | rfl <;> cases e)
    (by decide +kernel)
  exact ⟨t, c, tag, s, reg, by rw [runApp_one {} movedBytes movedPks moved_frame]; exact h1, h2, h3, h4⟩

/-- the "fresh" clause of `handled_by_latest_pat'`: right after PAT {1 → 0x100, 2 → 0x110} alone (one real
packet), both PMT filters are fresh -/
example : ∃ t c tag s, pushModel App.sem (App.init {}) [⟨pat2V0, 0, 0, false, false⟩] = .ok (t, c) ∧
    Ev.construct (.pmt 0x110 2) tag ∈ c.trace ∧ t.get 0x110 = some (.pmt 0x110 2 s []) ∧
    s.lastVersion = none ∧ s.remaining = none := by
  obtain ⟨t, c, tag, s, reg, h1, h2, h3, h4, -, -, h7⟩ := handled_by_latest_pat' {} rfl [] [] 0 pat2
    [⟨pat2V0, 0, 0, false, false⟩] 0x110 2 (by decide +kernel) (by decide +kernel)
    (Realises.cons (re_pat2 _ 0) (Realises.nil _)) (by intro ev hm; cases hm) (by decide +kernel)
  obtain ⟨rfl, h8⟩ := h7 (by intro ev hm; cases hm)
  exact ⟨t, c, tag, s, h1, h2, h3, h8, h4⟩

/-- `handled_by_latest_pat_nit'` on a real packet carrying PAT {network → 0x10, 1 → 0x100}: slot 0x10
holds the recorder built for the request `Nit(0x10)`; and `handled_by_latest_pat'` on the same packet:
slot 0x100 holds the fresh PMT filter of program 1 -/
example : (∃ t c tag, pushModel App.sem (App.init {}) [⟨psiPkt 0x40 0x00 0x10 secPatNit, 0, 0, false, false⟩]
      = .ok (t, c) ∧ Ev.construct (.nit 0x10) tag ∈ c.trace ∧ t.get 0x10 = some (.recorder tag)) ∧
    (∃ t c tag s, pushModel App.sem (App.init {}) [⟨psiPkt 0x40 0x00 0x10 secPatNit, 0, 0, false, false⟩]
      = .ok (t, c) ∧ Ev.construct (.pmt 0x100 1) tag ∈ c.trace ∧ t.get 0x100 = some (.pmt 0x100 1 s [])) := by
  have hre : Realises initRoute ([] ++ Event.patApplied 0 patNit :: []) _ :=
    Realises.cons (re_patNit _) (Realises.nil _)
  refine ⟨handled_by_latest_pat_nit' {} rfl [] [] 0 patNit _ 0x10 nit_wf.1 nit_wf.2 hre
    (by intro ev hm; cases hm) (by decide +kernel), ?_⟩
  obtain ⟨t, c, tag, s, reg, h1, h2, h3, -, -, -, h7⟩ := handled_by_latest_pat' {} rfl [] [] 0 patNit _
    0x100 1 nit_wf.1 nit_wf.2 hre (by intro ev hm; cases hm) (by decide +kernel)
  obtain ⟨rfl, -⟩ := h7 (by intro ev hm; cases hm)
  exact ⟨t, c, tag, s, h1, h2, h3⟩

/-! ### SCOPE BOUNDARY (DESIGN 8.1b): two programs whose PAT entries name the SAME PMT PID -/

/-- `DistinctPmtPidsAll`, spelled out -/
theorem distinctPmtPidsAll_iff (evs : List Event) :
    DistinctPmtPidsAll evs ↔ ∀ v es, Event.patApplied v es ∈ evs → DistinctPmtPids es :=
  distinctAll_iff evs

/-- `DistinctPmtPids`, spelled out: two program entries with different program numbers name different
PIDs, and a program entry and a network entry name different PIDs -/
theorem distinctPmtPids_iff (es : List PatEntry) :
    DistinctPmtPids es ↔
      ((∀ n p n' p', PatEntry.program n p ∈ es → PatEntry.program n' p' ∈ es → n ≠ n' → p ≠ p') ∧
       (∀ n p p', PatEntry.program n p ∈ es → PatEntry.network p' ∈ es → p ≠ p')) := by
  constructor
  · intro h
    refine ⟨fun n p n' p' h1 h2 hn hp => ?_, fun n p p' h1 h2 hp => ?_⟩
    · have := h _ h1 _ h2 hp
      simp only [progNum, Option.some.injEq] at this
      exact hn this
    · have := h _ h1 _ h2 hp
      cases this
  · rintro ⟨h1, h2⟩ e he e' he' hp
    cases e with
    | program n p =>
      cases e' with
      | program n' p' =>
        apply Classical.byContradiction
        intro hne
        exact h1 n p n' p' he he' (fun e => hne (by rw [e]; rfl)) hp
      | network p' => exact absurd hp (h2 n p p' he he')
    | network p =>
      cases e' with
      | program n' p' => exact absurd hp.symm (h2 n' p' p he' he)
      | network p' => rfl

/-- `pmtPidOf es n = some p`: the PAT lists program `n` with PMT PID `p` (and `p` is one of its
program-map PIDs) -/
theorem pmtPidOf_some (es : List PatEntry) (n p : Nat) (h : pmtPidOf es n = some p) :
    PatEntry.program n p ∈ es ∧ p ∈ progPids es :=
  ⟨pmtPidOf_mem h, progPids_of_program (pmtPidOf_mem h)⟩

/-- **Scope boundary (NOT a known finding; DESIGN 8.1b): a shared PMT PID, equal versions.**
`sharedSameVer` of `/tmp/pr/rev2d_cases.txt`: PAT {1 → 0x100, 2 → 0x100}; on 0x100 the PMT of program 1
(`secPmtA`, version 0, stream 0x101) and the PMT of program 2 (`secPmtB0`, `table_id_extension` 2, version 0,
stream 0x201); elementary packets on 0x101 and 0x201.  This is LEGAL MPEG-2 TS (nothing forbids two PAT
entries naming one PID) but OUTSIDE the spec's vocabulary: `Event.pmtApplied` carries no program number,
so the spec reads "the PMT of a program" as "the PMT applied on that program's PMT PID".

Spec level: the history `hSame` is `WF`, `CollisionFree`, `CollisionFreeNowAll`, NOT `DistinctPmtPidsAll`,
and is REALISED by the exact bytes — program 2's PMT being a `repetition` in the sense of C10.  The PAT in
force lists program 2 with PMT PID 0x100; the only PMT in force on 0x100 is program 1's.  The theorems
`routed_by_latest_pmt` / `routed_by_latest_pmt'` HOLD on it in the spec's reading "PMT of the PMT PID
0x100" (0x101 is routed by `Stream(0x100, 0x1b, 0x101)`), while the property's reading "PMT of program 2"
FAILS: 0x201, the stream of program 2's PMT, is routed by `ByPid(0x201)`.

Model level (kernel evaluation of the whole model on the exact bytes; identical to the Rust output
`… C:stream:256:27:257…>3 … C:bypid:513>4 P:4@752`): no stream request for 0x201 is ever made; the packets
on 0x201 are recorded by the `ByPid(0x201)` recorder (tag 4) at offsets 752 and 1128; the PMT filter on
0x100 is the one requested for program 2 and has registered program 1's stream. -/
theorem shared_pmt_pid_same_version_unrouted :
    (WF initRoute hSame ∧ CollisionFree hSame ∧ CollisionFreeNowAll hSame ∧ ¬ DistinctPmtPidsAll hSame ∧
      Demux.frame sameBytes 0 = .ok samePks ∧ Realises initRoute hSame samePks ∧
      (currentOf hSame).pat = patShared ∧
      pmtPidOf patShared 1 = some 0x100 ∧ pmtPidOf patShared 2 = some 0x100 ∧
      (currentOf hSame).pmt = [(0x100, bodyA)] ∧
      byteD secPmtB0 4 = 2 ∧ sectionBody secPmtB0 = bodyB ∧ streamsOf bodyB = [⟨0x1b, 0x201, []⟩] ∧
      routeOf (run initRoute hSame) 0x100 = some (.pmt 0x100 2) ∧
      routeOf (run initRoute hSame) 0x101 = some (.stream 0x100 0x1b 0x101) ∧
      routeOf (run initRoute hSame) 0x201 = some (.byPid 0x201)) ∧
    (∃ t c, runApp {} [sameBytes] = .ok (t, c) ∧
      constructs c = [(.byPid 0, 0), (.pmt 0x100 1, 1), (.pmt 0x100 2, 2),
        (.stream 0x100 0x1b 0x101 0x101 [] [], 3), (.byPid 0x201, 4)] ∧
      pkts c = [(4, 752), (4, 1128)] ∧
      (∃ s, t.get 0x100 = some (.pmt 0x100 2 s [0x101])) ∧
      (∃ f, t.get 0x101 = some (.pes 3 f)) ∧ t.get 0x201 = some (.recorder 4)) := by
  refine ⟨⟨same_wf, same_cf.1, same_cf.2.1, same_cf.2.2, same_frame, same_realises, by decide +kernel,
    by decide +kernel, by decide +kernel, by decide +kernel, by decide +kernel, by decide +kernel,
    streams_bodyB, ?_, ?_, ?_⟩, ?_⟩
  · unfold routeOf; rw [same_slots.1]; rfl
  · unfold routeOf; rw [same_slots.2.1]; rfl
  · unfold routeOf; rw [same_slots.2.2.1]; rfl
  · obtain ⟨t, c, hr, hc, hp, -, hs⟩ := observeAt_some _ _ _ same_run
    simp only [List.map_cons, List.map_nil, List.cons.injEq, and_true] at hs
    obtain ⟨-, h100, h101, h201⟩ := hs
    exact ⟨t, c, hr, hc, hp, slot_pmt _ _ _ _ h100, slot_pes _ _ h101, slot_recorder _ _ h201⟩

/-- the positive-clause theorem `routed_by_latest_pmt'` applies to `hSame` (spec's reading: the PMT of
the PMT PID 0x100) … -/
example : routeOf (run initRoute hSame) 0x101 = some (.stream 0x100 0x1b 0x101) :=
  (routed_by_latest_pmt' [.patApplied 0 patShared]
    [.repetition 0x100, .esPacket 0x101, .esPacket 0x201, .esPacket 0x101, .esPacket 0x201]
    0x100 0 bodyA 0x101 (.stream 0x100 0x1b 0x101 0x101 [] []) same_wf same_cf.2.1
    (by
      intro ev hm v b e
      simp only [List.mem_cons, List.mem_nil_iff, or_false] at hm
      rcases hm with rfl | rfl | rfl | rfl | rfl <;> cases e)
    (by
      intro ev hm v es e
      simp only [List.mem_cons, List.mem_nil_iff, or_false] at hm
      rcases hm with rfl | rfl | rfl | rfl | rfl <;> cases e)
    (by decide +kernel)).2.1

/-- … and `routing_refines` on the realised history gives the same table as kernel evaluation of the
whole model: the model AGREES with the spec here; it is the spec's vocabulary that is too coarse -/
theorem shared_same_refined :
    ∃ t c, runApp {} [sameBytes] = .ok (t, c) ∧ t.get 0x201 = some (.recorder 4) ∧
      Ev.construct (.byPid 0x201) 4 ∈ c.trace ∧ (∃ s, t.get 0x100 = some (.pmt 0x100 2 s [0x101])) := by
  obtain ⟨t, c, -, h2, hslots, htags, -, -, -⟩ :=
    routing_refines {} rfl hSame samePks same_wf same_realises
  obtain ⟨s100, -, s201, m100⟩ := same_slots
  refine ⟨t, c, by rw [runApp_one {} sameBytes samePks same_frame]; exact h2, ?_, ?_, ?_⟩
  · have := hslots 0x201; rw [s201] at this; exact this
  · exact (htags 0x201 _ 4 s201).2.1
  · have := hslots 0x100; rw [s100] at this
    obtain ⟨s, h1, -⟩ := this
    rw [m100] at h1
    exact ⟨s, h1⟩

/-- **Scope boundary (NOT a known finding; DESIGN 8.1b): a shared PMT PID, different versions.**
`sharedDiffVer` of `/tmp/pr/rev2d_cases.txt`: as above with program 2's PMT at version 1, both PMTs
transmitted twice.  Legal input, outside the spec's vocabulary (see
`shared_pmt_pid_same_version_unrouted`).

Spec level: the history `hDiff` — in which the two programs' PMTs are versions 0, 1, 0, 1 of "the" PMT on
0x100 — is `WF`, `CollisionFree`, `CollisionFreeNowAll`, NOT `DistinctPmtPidsAll`, and is realised by the
exact bytes.  Every application un-routes the OTHER program's stream: after the 3rd event 0x101 is
un-routed, after the 6th 0x201, after the 9th 0x101 again.  `routed_by_latest_pmt'` holds in the spec's
reading (the PIDs of the most recent PMT on 0x100 are routed); the property's reading fails for whichever
program's PMT came first: its PMT is the most recent PMT of that program, it is listed by the most recent
PAT, and its stream is un-routed (then offered as `ByPid`).

Model level (kernel evaluation on the exact bytes): the `construct` requests alternate between stream
requests for 0x101 / 0x201 and `ByPid` requests for the PID just removed; three elementary packets are
recorded by `ByPid` recorders (tags 5, 7, 9); at the end 0x101 holds a recorder, 0x201 a PES filter. -/
theorem shared_pmt_pid_alternating :
    (WF initRoute hDiff ∧ CollisionFree hDiff ∧ CollisionFreeNowAll hDiff ∧ ¬ DistinctPmtPidsAll hDiff ∧
      Demux.frame diffBytes 0 = .ok diffPks ∧ Realises initRoute hDiff diffPks ∧
      hDiff.take 3 = [.patApplied 0 patShared, .pmtApplied 0x100 0 bodyA, .pmtApplied 0x100 1 bodyB] ∧
      routeOf (run initRoute (hDiff.take 3)) 0x101 = none ∧
      routeOf (run initRoute (hDiff.take 3)) 0x201 = some (.stream 0x100 0x1b 0x201) ∧
      routeOf (run initRoute (hDiff.take 6)) 0x101 = some (.stream 0x100 0x1b 0x101) ∧
      routeOf (run initRoute (hDiff.take 6)) 0x201 = none ∧
      routeOf (run initRoute (hDiff.take 9)) 0x101 = none ∧
      routeOf (run initRoute (hDiff.take 9)) 0x201 = some (.stream 0x100 0x1b 0x201) ∧
      routeOf (run initRoute hDiff) 0x101 = some (.byPid 0x101) ∧
      routeOf (run initRoute hDiff) 0x201 = some (.stream 0x100 0x1b 0x201)) ∧
    (∃ t c, runApp {} [diffBytes] = .ok (t, c) ∧
      constructs c = [(.byPid 0, 0), (.pmt 0x100 1, 1), (.pmt 0x100 2, 2),
        (.stream 0x100 0x1b 0x101 0x101 [] [], 3), (.stream 0x100 0x1b 0x201 0x201 [] [], 4),
        (.byPid 0x101, 5), (.stream 0x100 0x1b 0x101 0x101 [] [], 6), (.byPid 0x201, 7),
        (.stream 0x100 0x1b 0x201 0x201 [] [], 8), (.byPid 0x101, 9)] ∧
      pkts c = [(5, 564), (7, 1316), (9, 1692)] ∧
      (∃ s, t.get 0x100 = some (.pmt 0x100 2 s [0x201])) ∧
      t.get 0x101 = some (.recorder 9) ∧ (∃ f, t.get 0x201 = some (.pes 8 f))) := by
  obtain ⟨a1, a2, a3, a4, a5, a6, a7, a8⟩ := diff_slots
  refine ⟨⟨diff_wf, diff_cf.1, diff_cf.2.1, diff_cf.2.2, diff_frame, diff_realises, rfl,
    ?_, ?_, ?_, ?_, ?_, ?_, ?_, ?_⟩, ?_⟩
  · unfold routeOf; rw [a1]; rfl
  · unfold routeOf; rw [a2]; rfl
  · unfold routeOf; rw [a3]; rfl
  · unfold routeOf; rw [a4]; rfl
  · unfold routeOf; rw [a5]; rfl
  · unfold routeOf; rw [a6]; rfl
  · unfold routeOf; rw [a7]; rfl
  · unfold routeOf; rw [a8]; rfl
  · obtain ⟨t, c, hr, hc, hp, -, hs⟩ := observeAt_some _ _ _ diff_run
    simp only [List.map_cons, List.map_nil, List.cons.injEq, and_true] at hs
    obtain ⟨-, h100, h101, h201⟩ := hs
    exact ⟨t, c, hr, hc, hp, slot_pmt _ _ _ _ h100, slot_recorder _ _ h101, slot_pes _ _ h201⟩

/-! ### the positive clause read per PROGRAM, under `DistinctPmtPidsAll` -/

/-- **The positive clause for "the most recent PMT of a PROGRAM".**  History
`pre ++ PMT(p, ver, body) :: post`, well-formed, `CollisionFreeNowAll`, and — the scope hypothesis that
makes the spec's reading the property's reading — `DistinctPmtPidsAll`: no applied PAT lets two programs
(or a program and the network entry) share a PID.  Program `n`:
* `hprog`: the PAT in force when the PMT was applied announces `p` as the PMT PID of program `n`;
* `hkeep`: so does every PAT applied afterwards (the program is never dropped or moved; this implies the
  hypothesis `hkeep` of `routed_by_latest_pmt'`);
* `hlast`: no PMT is applied on `p` afterwards — `body` is the most recent PMT of program `n`.
Then
1. the most recent PAT announces `p` for program `n`, and EVERY entry of it naming `p` is the entry of
   program `n` (so a PMT applied on `p` is a PMT of program `n` and of no other program);
2. the PMT was consumed by a handler the application built from the request `Pmt(p, n)`, and `p` is
   still routed by a request `Pmt(p, n)`;
3. every PID `q` listed by `body` is routed by the stream request of its (last) entry, naming `p`, the
   entry's stream type and `q`.
(3 is `routed_by_latest_pmt'`; `DistinctPmtPidsAll` is what 1 and 2 need.  Without it 3 still holds but
says nothing about programs: `shared_pmt_pid_same_version_unrouted`.) -/
theorem routed_by_latest_pmt_of_program (pre post : List Event) (n p ver : Nat) (body : Bytes)
    (q : Nat) (req : Req)
    (hwf : WF initRoute (pre ++ .pmtApplied p ver body :: post))
    (hcf : CollisionFreeNowAll (pre ++ .pmtApplied p ver body :: post))
    (hd : DistinctPmtPidsAll (pre ++ .pmtApplied p ver body :: post))
    (hprog : pmtPidOf (currentOf pre).pat n = some p)
    (hlast : ∀ ev ∈ post, ∀ v b, ev ≠ .pmtApplied p v b)
    (hkeep : ∀ ev ∈ post, ∀ v es, ev = .patApplied v es → pmtPidOf es n = some p)
    (hq : lastFor (pmtReqs p body) q = some req) :
    (pmtPidOf (currentOf (pre ++ .pmtApplied p ver body :: post)).pat n = some p ∧
      ∀ e ∈ (currentOf (pre ++ .pmtApplied p ver body :: post)).pat, e.pid = p → e = .program n p) ∧
    ((∃ tag, (run initRoute pre).slots p = some (.pmt p n, tag)) ∧
      ∃ tag, (run initRoute (pre ++ .pmtApplied p ver body :: post)).slots p = some (.pmt p n, tag)) ∧
    ((∃ tag, (run initRoute (pre ++ .pmtApplied p ver body :: post)).slots q = some (req, tag)) ∧
      routeOf (run initRoute (pre ++ .pmtApplied p ver body :: post)) q = some (kindOf req) ∧
      ∃ s ∈ streamsOf body, s.pid = q ∧
        req = .stream p s.streamType q (specPcrPid body) s.descBytes (specProgramDescBytes body)) := by
  have hkeep' : ∀ ev ∈ post, ∀ v es, ev = .patApplied v es → PatEntry.program n p ∈ es :=
    fun ev hm v es e => pmtPidOf_mem (hkeep ev hm v es e)
  obtain ⟨hmem, huniq, hslot0⟩ := of_program_aux pre post n p ver body hwf hd (pmtPidOf_mem hprog) hkeep'
  have hcur : pmtPidOf (currentOf (pre ++ .pmtApplied p ver body :: post)).pat n = some p := by
    unfold currentOf
    rw [curFrom_append, curFrom_cons]
    exact cur_pat_pred (fun es => pmtPidOf es n = some p) post _ hprog hkeep
  refine ⟨⟨hcur, huniq⟩, ⟨hslot0, pmt_slot_of_program _ hwf hcf hd n p hmem⟩, ?_⟩
  exact routed_by_latest_pmt' pre post p ver body q req hwf hcf hlast
    (fun ev hm v es e => progPids_of_program (hkeep' ev hm v es e)) hq

/-- **the first sentence of C05, end to end, per PROGRAM.**  Hypotheses of
`routed_by_latest_pmt_of_program` (in particular the scope hypothesis `DistinctPmtPidsAll`) for a
realised history.  Then the real loops succeed and: slot `q` of a PID listed by the most recent PMT of
program `n` holds a handler built from the request naming `q`, its stream type and the program map `p`
of program `n` (PES filter iff `is_pes`, else recorder); slot `p` holds a PMT filter with parameters
`(p, n)` built from the request `Pmt(p, n)`. -/
theorem handled_by_latest_pmt_of_program (cfg : Cfg) (hscript : cfg.script = []) (pre post : List Event)
    (n p ver : Nat) (body : Bytes) (pks : List Pk) (q : Nat) (s : StreamInfo)
    (hwf : WF initRoute (pre ++ .pmtApplied p ver body :: post))
    (hcf : CollisionFreeNowAll (pre ++ .pmtApplied p ver body :: post))
    (hd : DistinctPmtPidsAll (pre ++ .pmtApplied p ver body :: post))
    (hre : Realises initRoute (pre ++ .pmtApplied p ver body :: post) pks)
    (hprog : pmtPidOf (currentOf pre).pat n = some p)
    (hlast : ∀ ev ∈ post, ∀ v b, ev ≠ .pmtApplied p v b)
    (hkeep : ∀ ev ∈ post, ∀ v es, ev = .patApplied v es → pmtPidOf es n = some p)
    (hq : lastFor (pmtReqs p body) q
      = some (.stream p s.streamType q (specPcrPid body) s.descBytes (specProgramDescBytes body))) :
    ∃ t c tag tagp sp reg, pushModel App.sem (App.init cfg) pks = .ok (t, c) ∧
      Ev.construct (.stream p s.streamType q (specPcrPid body) s.descBytes (specProgramDescBytes body)) tag
        ∈ c.trace ∧
      (if isPes s.streamType then ∃ f, t.get q = some (.pes tag f) else t.get q = some (.recorder tag)) ∧
      Ev.construct (.pmt p n) tagp ∈ c.trace ∧ t.get p = some (.pmt p n sp reg) := by
  obtain ⟨t, c, -, h2, hslots, htags, -, -, -⟩ := routing_refines cfg hscript _ pks hwf hre
  obtain ⟨-, ⟨-, tagp, hsp⟩, ⟨tag, hs⟩, -, -⟩ :=
    routed_by_latest_pmt_of_program pre post n p ver body q _ hwf hcf hd hprog hlast hkeep hq
  have hrel := hslots q
  rw [hs] at hrel
  have hrelp := hslots p
  rw [hsp] at hrelp
  obtain ⟨sp, h3, -⟩ := hrelp
  exact ⟨t, c, tag, tagp, sp, _, h2, (htags q _ tag hs).2.1, hrel, (htags p _ tagp hsp).2.1, h3⟩

/-- non-vacuity: `movedHist` (two programs with DISTINCT PMT PIDs; realised by `movedBytes`) satisfies
`DistinctPmtPidsAll`, and the hypotheses of the per-program theorems hold for program 2, `p = 0x110` -/
theorem moved_distinct : DistinctPmtPidsAll movedHist ∧
    pmtPidOf (currentOf [.patApplied 0 pat2, .pmtApplied 0x100 0 body0, .pmtApplied 0x100 1 body1]).pat 2
      = some 0x110 := by decide +kernel

/-- `handled_by_latest_pmt_of_program` on `movedHist` / `movedBytes`: program 2's stream 0x102 is handled
by a PES filter built from `Stream(0x110, 0x0f, 0x102)`, and 0x110 by the PMT filter of program 2 -/
theorem moved_handled_of_program :
    ∃ t c tag tagp sp reg, runApp {} [movedBytes] = .ok (t, c) ∧
      Ev.construct (.stream 0x110 0x0f 0x102 0x102 [] []) tag ∈ c.trace ∧
      (∃ f, t.get 0x102 = some (.pes tag f)) ∧
      Ev.construct (.pmt 0x110 2) tagp ∈ c.trace ∧ t.get 0x110 = some (.pmt 0x110 2 sp reg) := by
  obtain ⟨t, c, tag, tagp, sp, reg, h1, h2, h3, h4, h5⟩ := handled_by_latest_pmt_of_program {} rfl
    [.patApplied 0 pat2, .pmtApplied 0x100 0 body0, .pmtApplied 0x100 1 body1] [.esPacket 0x102]
    2 0x110 0 bodyM movedPks 0x102 ⟨0x0f, 0x102, []⟩ moved_wf moved_cfn moved_distinct.1 moved_realises
    moved_distinct.2
    (by intro ev hm v b e; rw [List.mem_singleton] at hm; rw [hm] at e; cases e)
    (by intro ev hm v es e; rw [List.mem_singleton] at hm; rw [hm] at e; cases e)
    (by decide +kernel)
  have e1 : specPcrPid bodyM = 0x102 := by decide +kernel
  have e2 : specProgramDescBytes bodyM = [] := by decide +kernel
  rw [e1, e2] at h2
  rw [if_pos (by decide)] at h3
  exact ⟨t, c, tag, tagp, sp, reg, by rw [runApp_one {} movedBytes movedPks moved_frame]; exact h1,
    h2, h3, h4, h5⟩

/-- the scope hypothesis is what fails on the shared-PID witnesses: program 2 IS announced with PMT PID
0x100 by the PAT in force throughout `hSame`, yet conclusion 1 of `routed_by_latest_pmt_of_program`
("every entry naming 0x100 is the entry of program 2") is false there -/
example : pmtPidOf (currentOf hSame).pat 2 = some 0x100 ∧
    ¬ (∀ e ∈ (currentOf hSame).pat, e.pid = 0x100 → e = .program 2 0x100) := by decide +kernel

/-! ### SCOPE BOUNDARY (DESIGN 8.1b): next tables and multi-section tables

`Transmits` / `RealisesEv` constrain `table_id`, `version_number`, the CRC and the packetisation of a
section; they do NOT constrain `current_next_indicator`, `section_number` / `last_section_number` or
`table_id_extension`.  Histories contain APPLIED versions only; what the code applies is shown here on two
legal inputs. -/

/-- **Scope boundary (NOT a known finding; DESIGN 8.1b): a NEXT table is applied at once.**  `cniNext` of
`/tmp/pr/rev2d_cases.txt`: PAT {1 → 0x100}; PMT v0 {0x101}; a packet on 0x101; a PMT with
`current_next_indicator = 0` (bit 0 of byte 5 of `secPmtNext`), version 1, listing 0x102 only; a packet
on 0x101.  ISO/IEC 13818-1 says a next table "is not yet applicable"; the code (and the model,
identically: Rust output `C:stream…258>3 C:bypid:257>4`) applies it like a current table: the stream
request for 0x102 is made (tag 3), 0x101 is removed, and the following packet on 0x101 is offered as
`ByPid(0x101)` (tag 4) and recorded at offset 752.  In the spec's vocabulary the bytes REALISE the
history `hCni`, in which the next table is just `pmtApplied 0x100 1 bodyN`: the spec does not represent
`current_next_indicator`. -/
theorem next_table_applied_at_once :
    (byteD secPmtNext 5 &&& 1 = 0 ∧ versionOf secPmtNext = 1 ∧ sectionBody secPmtNext = bodyN ∧
      Demux.frame cniBytes 0 = .ok cniPks ∧ WF initRoute hCni ∧ Realises initRoute hCni cniPks) ∧
    (∃ t c, runApp {} [cniBytes] = .ok (t, c) ∧
      constructs c = [(.byPid 0, 0), (.pmt 0x100 1, 1), (.stream 0x100 0x1b 0x101 0x101 [] [], 2),
        (.stream 0x100 0x1b 0x102 0x102 [] [], 3), (.byPid 0x101, 4)] ∧
      pkts c = [(4, 752)] ∧
      (∃ s, t.get 0x100 = some (.pmt 0x100 1 s [0x102])) ∧
      t.get 0x101 = some (.recorder 4) ∧ (∃ f, t.get 0x102 = some (.pes 3 f))) := by
  refine ⟨⟨by decide +kernel, by decide +kernel, by decide +kernel, cni_frame, cni_wf, cni_realises⟩, ?_⟩
  obtain ⟨t, c, hr, hc, hp, -, hs⟩ := observeAt_some _ _ _ cni_run
  simp only [List.map_cons, List.map_nil, List.cons.injEq, and_true] at hs
  obtain ⟨-, h100, h101, h102⟩ := hs
  exact ⟨t, c, hr, hc, hp, slot_pmt _ _ _ _ h100, slot_recorder _ _ h101, slot_pes _ _ h102⟩

/-- **Scope boundary (NOT a known finding; DESIGN 8.1b): the second section of a two-section PAT is
de-duplicated.**  `twoSectionPat` of `/tmp/pr/rev2d_cases.txt`: a PAT version 0 in two sections
(`section_number` 0 of 1: program 1 → 0x100; `section_number` 1 of 1: program 2 → 0x110); PMT of program
1 on 0x100; PMT of program 2 on 0x110; a packet on 0x201.  The de-duplication layer keys on
`version_number` only, so section 1 is taken for a repetition of section 0 (in the spec's vocabulary the
bytes REALISE `hTwoSec`, where it is `repetition 0`): program 2 never gets a PMT handler — the packet
carrying its PMT is offered as `ByPid(0x110)` (tag 3, recorded at 564) and its elementary stream as
`ByPid(0x201)` (tag 4, recorded at 752).  Rust output: `C:bypid:272>3 … C:bypid:513>4`.  The spec has no
representation of multi-section tables: a `patApplied` event is ONE section. -/
theorem second_section_deduplicated :
    (byteD secPat2a 6 = 0 ∧ byteD secPat2a 7 = 1 ∧ byteD secPat2b 6 = 1 ∧ byteD secPat2b 7 = 1 ∧
      versionOf secPat2a = 0 ∧ versionOf secPat2b = 0 ∧
      specPat (sectionBody secPat2b) = [.program 2 0x110] ∧
      Demux.frame twoSecBytes 0 = .ok twoSecPks ∧ WF initRoute hTwoSec ∧
      Realises initRoute hTwoSec twoSecPks) ∧
    (∃ t c, runApp {} [twoSecBytes] = .ok (t, c) ∧
      constructs c = [(.byPid 0, 0), (.pmt 0x100 1, 1), (.stream 0x100 0x1b 0x101 0x101 [] [], 2),
        (.byPid 0x110, 3), (.byPid 0x201, 4)] ∧
      pkts c = [(3, 564), (4, 752)] ∧
      (∃ s, t.get 0 = some (.pat s [0x100])) ∧
      t.get 0x110 = some (.recorder 3) ∧ t.get 0x201 = some (.recorder 4)) := by
  refine ⟨⟨by decide +kernel, by decide +kernel, by decide +kernel, by decide +kernel, by decide +kernel,
    by decide +kernel, by decide +kernel, twoSec_frame, twoSec_wf, twoSec_realises⟩, ?_⟩
  obtain ⟨t, c, hr, hc, hp, -, hs⟩ := observeAt_some _ _ _ twoSec_run
  simp only [List.map_cons, List.map_nil, List.cons.injEq, and_true] at hs
  obtain ⟨h0, -, h110, -, h201⟩ := hs
  exact ⟨t, c, hr, hc, hp, slot_pat _ _ h0, slot_recorder _ _ h110, slot_recorder _ _ h201⟩

end Ts.Props.C05History
