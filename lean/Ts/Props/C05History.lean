import Ts.Spec.RoutingHistory
import Ts.Lemmas.C05Hd
import Ts.Lemmas.C05HRun
import Ts.Props.C05
import Ts.Props.C06
/-!
# C05 over whole histories — routing follows the latest valid PAT and PMTs

`Ts/Props/C05.lean` proves C05 per applied table.  This file composes those theorems into ONE
theorem over whole histories of PAT / PMT versions, elementary-stream packets and repetitions.

* Spec: `Ts/Spec/RoutingHistory.lean` — abstract state `Route`, `routeOf`, `Event`, `stepRoute`
  (with the pinned quirks), `WF`, `CollisionFree`, `Realises`, the agreement relation `SlotRel`.
* `route_step_sound` — ONE `stepRoute` = the table change of the packets of one event (all four kinds).
* `routing_refines` (+ `_from`) — the induction over histories, from `Demultiplex::new`: the real
  dispatcher loops do not panic; EVERY slot of the final table agrees with the abstract route
  (`SlotRel`, spelled out by `handler_of_route` / `route_of_handler`); every routed PID's request
  names that PID and is in the trace with the handler's tag; tags are pairwise distinct and below the
  tag counter; the `construct` requests in the trace are exactly `ByPid(0)` followed by the
  concatenation of the per-event request lists (`historyRequests`), tagged 0, 1, 2, ….
* `takes_effect_next_packet` — the packet right after the packets of any history prefix is
  dispatched on exactly the table that agrees with the route after that prefix.
* `routed_by_latest_pat`, `routed_by_latest_pmt`, `handled_by_latest_pmt` — the positive clause of C05
  (needs `CollisionFree`; NOT `WF`).
* `dropped_by_next_pat`, `dropped_by_same_pmt_instance` — the "dropped PIDs" clause; for PMTs with the
  exact extra hypothesis "no PAT version listing that PMT PID was applied in between".
* `dropped_clause_pmt_false`, `dropped_clause_gap_is_F7` — known finding F7: the clause at full
  strength is FALSE of the code; the gap is exactly a PAT version in between.
  `dropped_program_streams_survive` — second pinned quirk.
* non-vacuity: the generator's `F7control` / `F7` probes.
-/
namespace Ts.Props.C05History
open Ts Ts.Tables Ts.App Ts.Demux Ts.Spec Ts.Spec.TableSpec Ts.Spec.Routing Ts.Spec.RoutingHistory
open Ts.Lemmas.C10 Ts.Lemmas.C05Run Ts.Lemmas.C05H Ts.Lemmas.C05HRun

/-! ### vocabulary, spelled out -/

theorem routeOf_iff (r : Route) (pid : Nat) :
    (routeOf r pid = none ↔ r.slots pid = none) ∧
    (∀ k, routeOf r pid = some k ↔ ∃ req tag, r.slots pid = some (req, tag) ∧ kindOf req = k) := by
  unfold routeOf
  cases h : r.slots pid with
  | none => simp
  | some x => obtain ⟨req, tag⟩ := x; simp

/-- the agreement relation, clause by clause -/
theorem slotRel_iff (r : Route) (p : Nat) (o : Option Handler) :
    (SlotRel r p none o ↔ o = none) ∧
    (∀ tag, SlotRel r p (some (.byPid 0, tag)) o ↔
      p = 0 ∧ ∃ s, o = some (.pat s (r.patEntries.map PatEntry.pid)) ∧
        s.lastVersion = r.patVersion ∧ s.remaining = none) ∧
    (∀ n tag, SlotRel r p (some (.byPid (n + 1), tag)) o ↔ o = some (.recorder tag)) ∧
    (∀ a b tag, SlotRel r p (some (.pmt a b, tag)) o ↔
      ∃ s, o = some (.pmt a b s ((r.pmt p).streams.map StreamInfo.pid)) ∧
        s.lastVersion = (r.pmt p).ver ∧ s.remaining = none) ∧
    (∀ a tag, SlotRel r p (some (.nit a, tag)) o ↔ o = some (.recorder tag)) ∧
    (∀ pp st a pcr d1 d2 tag, SlotRel r p (some (.stream pp st a pcr d1 d2, tag)) o ↔
      if isPes st then ∃ f, o = some (.pes tag f) else o = some (.recorder tag)) :=
  ⟨Iff.rfl, fun _ => Iff.rfl, fun _ _ => Iff.rfl, fun _ _ _ => Iff.rfl, fun _ _ => Iff.rfl,
    fun _ _ _ _ _ _ _ => Iff.rfl⟩

/-- the simulation relation between an abstract route and (table, context), spelled out -/
theorem sim_iff (r : Route) (t : Tab Handler) (c : Ctx) :
    Sim r t c ↔
      (c.cfg.script = [] ∧ c.nextTag = r.reqs.length ∧ constructs c = r.reqs.zipIdx ∧
       (∀ p, SlotRel r p (r.slots p) (t.get p)) ∧ (∀ e ∈ r.patEntries, e.pid ≠ 0) ∧
       ∀ p, ∀ s ∈ (r.pmt p).streams, s.pid ≠ p) :=
  ⟨fun h => ⟨h.script, h.tag, h.log, h.slots, h.pat0, h.pmtSelf⟩,
   fun ⟨a, b, c', d, e, f⟩ => ⟨a, b, c', d, e, f⟩⟩

theorem wfEv_iff (r : Route) :
    (∀ ver es, wfEv r (.patApplied ver es) ↔
      ((∃ tag, r.slots 0 = some (.byPid 0, tag)) ∧ r.patVersion ≠ some ver ∧
        ∀ e ∈ es, e.pid ≤ 0x1fff ∧ e.pid ≠ 0)) ∧
    (∀ p ver body, wfEv r (.pmtApplied p ver body) ↔
      ((∃ prog tag, r.slots p = some (.pmt p prog, tag)) ∧ (r.pmt p).ver ≠ some ver ∧
        ∀ s ∈ streamsOf body, s.pid ≤ 0x1fff ∧ s.pid ≠ p)) ∧
    (∀ p, wfEv r (.esPacket p) ↔ (p ≠ 0 ∧ tableRouted r p = false)) ∧
    (∀ p, wfEv r (.repetition p) ↔ tableRouted r p = true) := by
  refine ⟨fun ver es => ?_, fun p ver body => ?_, fun _ => Iff.rfl, fun _ => Iff.rfl⟩
  · unfold wfEv; rw [patRouted_iff]
  · simp only [wfEv]; rw [pmtRouted_iff]

/-! ### (1) one event -/

/-- **One `stepRoute` = the table change of the corresponding packets**, for each of the four event
kinds: from any (table, context) that agrees with route `r`, the packets of a well-formed event run
through the dispatcher without panic and end in a (table, context) that agrees with
`stepRoute r ev`. -/
theorem route_step_sound (r : Route) (t : Tab Handler) (c : Ctx) (ev : Event) (pks : List Pk)
    (hsim : Sim r t c) (hwf : wfEv r ev) (hre : RealisesEv r ev pks) :
    ∃ t' c', pushSpec App.sem (t, c) pks = .ok (t', c') ∧ Sim (stepRoute r ev) t' c' :=
  sim_step r t c ev pks hsim hwf hre

/-- the four kinds separately -/
theorem route_step_sound_pat (r : Route) (t : Tab Handler) (c : Ctx) (ver : Nat) (es : List PatEntry)
    (pks : List Pk) (hsim : Sim r t c) (hwf : wfEv r (.patApplied ver es))
    (hre : RealisesEv r (.patApplied ver es) pks) :
    ∃ t' c', pushSpec App.sem (t, c) pks = .ok (t', c') ∧ Sim (stepRoute r (.patApplied ver es)) t' c' :=
  sim_pat r t c ver es pks hsim hwf hre

theorem route_step_sound_pmt (r : Route) (t : Tab Handler) (c : Ctx) (p ver : Nat) (body : Bytes)
    (pks : List Pk) (hsim : Sim r t c) (hwf : wfEv r (.pmtApplied p ver body))
    (hre : RealisesEv r (.pmtApplied p ver body) pks) :
    ∃ t' c', pushSpec App.sem (t, c) pks = .ok (t', c') ∧ Sim (stepRoute r (.pmtApplied p ver body)) t' c' :=
  sim_pmt r t c p ver body pks hsim hwf hre

theorem route_step_sound_es (r : Route) (t : Tab Handler) (c : Ctx) (p : Nat) (pks : List Pk)
    (hsim : Sim r t c) (hwf : wfEv r (.esPacket p)) (hre : RealisesEv r (.esPacket p) pks) :
    ∃ t' c', pushSpec App.sem (t, c) pks = .ok (t', c') ∧ Sim (stepRoute r (.esPacket p)) t' c' :=
  sim_es r t c p pks hsim hwf hre

theorem route_step_sound_rep (r : Route) (t : Tab Handler) (c : Ctx) (p : Nat) (pks : List Pk)
    (hsim : Sim r t c) (hwf : wfEv r (.repetition p)) (hre : RealisesEv r (.repetition p) pks) :
    ∃ t' c', pushSpec App.sem (t, c) pks = .ok (t', c') ∧ Sim r t' c' :=
  sim_rep r t c p pks hsim hwf hre

/-- `Demultiplex::new` agrees with the initial route (no recorder script) -/
theorem init_refines (cfg : Cfg) (hscript : cfg.script = []) :
    Sim initRoute (App.init cfg).1 (App.init cfg).2 := sim_init cfg hscript

/-! ### (2) whole histories -/

/-- the induction, from any agreeing start -/
theorem routing_refines_from (r : Route) (t : Tab Handler) (c : Ctx) (evs : List Event) (pks : List Pk)
    (hsim : Sim r t c) (hwf : WF r evs) (hre : Realises r evs pks) :
    ∃ t' c', pushSpec App.sem (t, c) pks = .ok (t', c') ∧ pushModel App.sem (t, c) pks = .ok (t', c') ∧
      Sim (run r evs) t' c' := by
  obtain ⟨t', c', h1, h2⟩ := sim_run hre t c hsim hwf
  exact ⟨t', c', h1, by rw [Ts.Props.C06.push_refines_spec]; exact h1, h2⟩

/-- **C05 over whole histories.**  `cfg`: any configuration without recorder script (either build,
callbacks touching everything or not).  `evs`: any well-formed history; `pks`: any packet list
realising it.  Starting from `Demultiplex::new`, the real dispatcher loops (`pushModel`, equal to the
packet-by-packet `pushSpec`) run without panic and, with `r := run initRoute evs`:

1. for EVERY pid the handler in slot `pid` agrees with the route (`SlotRel`, spelled out kind by kind
   in `handler_of_route` / `route_of_handler`): the PAT filter on PID 0; PMT filters with the
   announced program number exactly on the PIDs routed by a `Pmt` request; PES filters / recorders
   carrying the tag of the `Stream` request that routes the PID; recorders for `Nit` and `ByPid`
   requests; nothing on un-routed PIDs;
2. the request routing a PID names that PID, and the `construct` event with that request and the
   handler's tag is in the trace; the tag is below the tag counter;
3. tags of different routed PIDs are different;
4. the `construct` events in the trace, oldest first, are exactly `ByPid(0)` followed by the
   concatenation of the per-event request lists, with tags 0, 1, 2, …;
5. the tag counter is the number of requests made. -/
theorem routing_refines (cfg : Cfg) (hscript : cfg.script = []) (evs : List Event) (pks : List Pk)
    (hwf : WF initRoute evs) (hre : Realises initRoute evs pks) :
    ∃ t c, pushSpec App.sem (App.init cfg) pks = .ok (t, c)
      ∧ pushModel App.sem (App.init cfg) pks = .ok (t, c)
      ∧ (∀ pid, SlotRel (run initRoute evs) pid ((run initRoute evs).slots pid) (t.get pid))
      ∧ (∀ pid req tag, (run initRoute evs).slots pid = some (req, tag) →
            reqPid req = pid ∧ Ev.construct req tag ∈ c.trace ∧ tag < c.nextTag)
      ∧ (∀ pid pid' req req' tag, (run initRoute evs).slots pid = some (req, tag) →
            (run initRoute evs).slots pid' = some (req', tag) → pid = pid')
      ∧ constructs c = (Req.byPid 0 :: historyRequests initRoute evs).zipIdx
      ∧ c.nextTag = 1 + (historyRequests initRoute evs).length := by
  obtain ⟨t, c, h1, h2, hsim⟩ := routing_refines_from initRoute _ _ evs pks (sim_init cfg hscript) hwf hre
  have hinv := tagInv_run evs initRoute tagInv_init
  have hreqs : (run initRoute evs).reqs = Req.byPid 0 :: historyRequests initRoute evs := by
    rw [run_reqs]; rfl
  refine ⟨t, c, h1, h2, hsim.slots, ?_, ?_, ?_, ?_⟩
  · intro pid req tag hs
    obtain ⟨a1, a2⟩ := hinv pid req tag hs
    refine ⟨a1, ?_, ?_⟩
    · rw [← mem_constructs, hsim.log, List.mem_zipIdx_iff_getElem?]; exact a2
    · rw [hsim.tag]
      apply Classical.byContradiction
      intro hn
      rw [List.getElem?_eq_none (by omega)] at a2
      cases a2
  · intro pid pid' req req' tag ha hb
    exact tags_distinct _ hinv pid pid' req req' tag ha hb
  · rw [hsim.log, hreqs]
  · rw [hsim.tag, hreqs, List.length_cons]; omega

/-- the agreement of clause 1, read from the route kind to the handler -/
theorem handler_of_route (r : Route) (pid : Nat) (o : Option Handler)
    (h : SlotRel r pid (r.slots pid) o) :
    (routeOf r pid = none → o = none) ∧
    (routeOf r pid = some (.byPid 0) → pid = 0 ∧ ∃ s, o = some (.pat s (r.patEntries.map PatEntry.pid)) ∧
        s.lastVersion = r.patVersion ∧ s.remaining = none) ∧
    (∀ a prog, routeOf r pid = some (.pmt a prog) →
        ∃ s, o = some (.pmt a prog s ((r.pmt pid).streams.map StreamInfo.pid)) ∧
          s.lastVersion = (r.pmt pid).ver ∧ s.remaining = none) ∧
    (∀ a, routeOf r pid = some (.nit a) → ∃ tag, tagOf r pid = some tag ∧ o = some (.recorder tag)) ∧
    (∀ n, routeOf r pid = some (.byPid (n + 1)) → ∃ tag, tagOf r pid = some tag ∧ o = some (.recorder tag)) ∧
    (∀ pp st a, routeOf r pid = some (.stream pp st a) → ∃ tag, tagOf r pid = some tag ∧
        if isPes st then ∃ f, o = some (.pes tag f) else o = some (.recorder tag)) := by
  unfold routeOf tagOf
  cases hs : r.slots pid with
  | none =>
    rw [hs] at h
    refine ⟨fun _ => h, ?_, ?_, ?_, ?_, ?_⟩ <;> simp
  | some x =>
    obtain ⟨req, tag⟩ := x
    rw [hs] at h
    rcases req with (_ | n) | ⟨a, b⟩ | x | ⟨pp, st, q, pcr, d1, d2⟩
    · refine ⟨by simp, fun _ => h, ?_, ?_, ?_, ?_⟩ <;> simp [kindOf]
    · refine ⟨by simp, by simp [kindOf], by simp [kindOf], by simp [kindOf], ?_, by simp [kindOf]⟩
      intro m _
      exact ⟨tag, rfl, h⟩
    · refine ⟨by simp, by simp [kindOf], ?_, by simp [kindOf], by simp [kindOf], by simp [kindOf]⟩
      intro a' prog' e
      simp only [Option.map_some, kindOf, Option.some.injEq, ReqKind.pmt.injEq] at e
      obtain ⟨rfl, rfl⟩ := e
      exact h
    · refine ⟨by simp, by simp [kindOf], by simp [kindOf], ?_, by simp [kindOf], by simp [kindOf]⟩
      intro _ _
      exact ⟨tag, rfl, h⟩
    · refine ⟨by simp, by simp [kindOf], by simp [kindOf], by simp [kindOf], by simp [kindOf], ?_⟩
      intro pp' st' a' e
      simp only [Option.map_some, kindOf, Option.some.injEq, ReqKind.stream.injEq] at e
      obtain ⟨rfl, rfl, rfl⟩ := e
      exact ⟨tag, rfl, h⟩

/-- … and from the handler to the route kind: handlers of each kind sit EXACTLY on the PIDs the route
says -/
theorem route_of_handler (r : Route) (pid : Nat) (o : Option Handler)
    (h : SlotRel r pid (r.slots pid) o) :
    (o = none → routeOf r pid = none) ∧
    (∀ s reg, o = some (.pat s reg) → routeOf r pid = some (.byPid 0) ∧ pid = 0) ∧
    (∀ a prog s reg, o = some (.pmt a prog s reg) → routeOf r pid = some (.pmt a prog)) ∧
    (∀ tag f, o = some (.pes tag f) → tagOf r pid = some tag ∧
        ∃ pp st a, routeOf r pid = some (.stream pp st a) ∧ isPes st = true) ∧
    (∀ tag, o = some (.recorder tag) → tagOf r pid = some tag ∧
        ((∃ a, routeOf r pid = some (.nit a)) ∨ (∃ n, routeOf r pid = some (.byPid (n + 1))) ∨
          ∃ pp st a, routeOf r pid = some (.stream pp st a) ∧ isPes st = false)) := by
  unfold routeOf tagOf
  cases hs : r.slots pid with
  | none =>
    rw [hs] at h
    have h' : o = none := h
    subst h'
    simp
  | some x =>
    obtain ⟨req, tag⟩ := x
    rw [hs] at h
    rcases req with (_ | n) | ⟨a, b⟩ | x | ⟨pp, st, q, pcr, d1, d2⟩
    · obtain ⟨hp, s, rfl, -⟩ := h
      simp [kindOf, hp]
    · have h' : o = some (.recorder tag) := h
      subst h'
      simp [kindOf]
    · obtain ⟨s, rfl, -⟩ := h
      simp [kindOf]
      intro a1 p1 s1 reg e1 e2 _ _
      exact ⟨e1, e2⟩
    · have h' : o = some (.recorder tag) := h
      subst h'
      simp [kindOf]
    · simp only [SlotRel] at h
      by_cases hp : isPes st = true
      · rw [if_pos hp] at h
        obtain ⟨f, rfl⟩ := h
        simp [kindOf]
        exact ⟨_, _, ⟨rfl, rfl⟩, hp⟩
      · rw [if_neg hp] at h
        subst h
        have hp' : isPes st = false := by simpa using hp
        simp [kindOf]
        exact ⟨_, _, ⟨rfl, rfl⟩, hp'⟩

/-! ### a new version takes effect for the very next transport packet -/

/-- `pks` realise the history `evs`; `pk` is ANY following packet (any PID, also the table's own).
The real loops dispatch `pk` on exactly the table `t` that agrees with the route after ALL of `evs` —
in particular after the table version applied by the last packet of `pks`. -/
theorem takes_effect_next_packet (cfg : Cfg) (hscript : cfg.script = []) (evs : List Event) (pks : List Pk)
    (hwf : WF initRoute evs) (hre : Realises initRoute evs pks) (pk : Pk) (rest : List Pk) :
    ∃ t c, pushModel App.sem (App.init cfg) pks = .ok (t, c) ∧ Sim (run initRoute evs) t c ∧
      pushModel App.sem (App.init cfg) (pks ++ pk :: rest) =
        (specStep App.sem (t, c) pk >>= fun tc => pushModel App.sem tc rest) := by
  obtain ⟨t, c, h1, h2, hsim⟩ := routing_refines_from initRoute _ _ evs pks (sim_init cfg hscript) hwf hre
  refine ⟨t, c, h2, hsim, ?_⟩
  rw [Ts.Props.C06.push_refines_spec, pushSpec_append_aux, h1]
  simp only [R.ok_bind, pushSpec_cons]
  congr 1
  funext tc
  rw [Ts.Props.C06.push_refines_spec]

/-- … and a packet on a routed PID is consumed by exactly the handler that agrees with the route -/
theorem next_packet_handled (t : Tab Handler) (c : Ctx) (pk : Pk) (h : Handler)
    (hg : t.get pk.pid = some h) (hf : pk.flagged = false) :
    specStep App.sem (t, c) pk =
      (App.consume h c pk >>= fun x => R.ok (applyChanges (t.insert pk.pid x.1) x.2.2, x.2.1)) :=
  Ts.Props.C05.packet_on_listed_pid_handled t c pk h hg hf

/-! ### the positive clause: the most recent tables decide the route -/

/-- PMT PIDs are requested as program-map PIDs with the announced program number and network
entries as NIT PIDs: after any history whose most recent PAT is `es` (collision-free; the packets
after it arbitrary events other than a PAT), a PID listed by `es` is routed by the request of its
last entry -/
theorem routed_by_latest_pat (pre post : List Event) (ver : Nat) (es : List PatEntry) (q : Nat) (req : Req)
    (hcf : CollisionFree (pre ++ .patApplied ver es :: post))
    (hlast : ∀ ev ∈ post, ∀ v es', ev ≠ .patApplied v es')
    (hq : lastFor (patRequests es) q = some req) :
    (∃ tag, (run initRoute (pre ++ .patApplied ver es :: post)).slots q = some (req, tag)) ∧
    routeOf (run initRoute (pre ++ .patApplied ver es :: post)) q = some (kindOf req) ∧
    ∃ e ∈ es, e.pid = q ∧ req = patRequest e := by
  obtain ⟨tag, h⟩ := Ts.Lemmas.C05H.routed_by_latest_pat pre post ver es q req hcf hlast hq
  refine ⟨⟨tag, h⟩, by unfold routeOf; rw [h]; rfl, ?_⟩
  have := lastFor_mem _ _ _ hq
  unfold patRequests at this
  obtain ⟨e, he, hee⟩ := List.mem_map.1 this
  simp only [Prod.mk.injEq] at hee
  exact ⟨e, he, hee.1, hee.2.symm⟩

/-- a PID listed by the most recent PMT received on program-map PID `p` is routed by a stream
request naming `p`, the entry's stream type and that PID (with the section's PCR PID and
descriptors) — whatever PAT versions, other PMTs, packets came after -/
theorem routed_by_latest_pmt (pre post : List Event) (p ver : Nat) (body : Bytes) (q : Nat) (req : Req)
    (hcf : CollisionFree (pre ++ .pmtApplied p ver body :: post))
    (hlast : ∀ ev ∈ post, ∀ v b, ev ≠ .pmtApplied p v b)
    (hq : lastFor (pmtReqs p body) q = some req) :
    (∃ tag, (run initRoute (pre ++ .pmtApplied p ver body :: post)).slots q = some (req, tag)) ∧
    routeOf (run initRoute (pre ++ .pmtApplied p ver body :: post)) q = some (kindOf req) ∧
    ∃ s ∈ streamsOf body, s.pid = q ∧
      req = .stream p s.streamType q (specPcrPid body) s.descBytes (specProgramDescBytes body) := by
  obtain ⟨tag, h⟩ := Ts.Lemmas.C05H.routed_by_latest_pmt pre post p ver body q req hcf hlast hq
  refine ⟨⟨tag, h⟩, by unfold routeOf; rw [h]; rfl, ?_⟩
  have := lastFor_mem _ _ _ hq
  unfold pmtReqs pmtRequests at this
  obtain ⟨s, hs, hee⟩ := List.mem_map.1 this
  simp only [Prod.mk.injEq] at hee
  obtain ⟨e1, e2⟩ := hee
  exact ⟨s, hs, e1, by rw [← e2, ← e1]; rfl⟩

/-- **the first sentence of C05, end to end.**  After any realised, well-formed, collision-free
history whose most recent PMT on `p` is `body`: the slot of a PID `q` listed by it holds a handler
the application built from the request naming `q`, its stream type and the owning program map `p` —
the `construct` event with that request and the handler's tag is in the trace; the handler is a PES
filter iff the stream type `is_pes`, else a recorder. -/
theorem handled_by_latest_pmt (cfg : Cfg) (hscript : cfg.script = []) (pre post : List Event)
    (p ver : Nat) (body : Bytes) (pks : List Pk) (q : Nat) (s : StreamInfo)
    (hwf : WF initRoute (pre ++ .pmtApplied p ver body :: post))
    (hcf : CollisionFree (pre ++ .pmtApplied p ver body :: post))
    (hre : Realises initRoute (pre ++ .pmtApplied p ver body :: post) pks)
    (hlast : ∀ ev ∈ post, ∀ v b, ev ≠ .pmtApplied p v b)
    (hq : lastFor (pmtReqs p body) q
      = some (.stream p s.streamType q (specPcrPid body) s.descBytes (specProgramDescBytes body))) :
    ∃ t c tag, pushModel App.sem (App.init cfg) pks = .ok (t, c) ∧
      Ev.construct (.stream p s.streamType q (specPcrPid body) s.descBytes (specProgramDescBytes body)) tag
        ∈ c.trace ∧
      (if isPes s.streamType then ∃ f, t.get q = some (.pes tag f) else t.get q = some (.recorder tag)) := by
  obtain ⟨t, c, -, h2, hslots, htags, -, -, -⟩ := routing_refines cfg hscript _ pks hwf hre
  obtain ⟨⟨tag, hs⟩, -, -⟩ := routed_by_latest_pmt pre post p ver body q _ hcf hlast hq
  have hrel := hslots q
  rw [hs] at hrel
  exact ⟨t, c, tag, h2, (htags q _ tag hs).2.1, hrel⟩

/-! ### the "dropped PIDs" clause -/

/-- PAT: a PID listed by one PAT version and dropped by the next applied version is un-routed by the
last packet of that version (whatever happened in between other than a PAT) -/
theorem dropped_by_next_pat (r : Route) (mid : List Event) (v1 v2 : Nat) (es1 es2 : List PatEntry) (q : Nat)
    (hmid : ∀ ev ∈ mid, ∀ v es, ev ≠ .patApplied v es)
    (hq : q ∈ es1.map PatEntry.pid) (h13 : q ≤ 0x1fff) (hdrop : q ∉ es2.map PatEntry.pid) :
    routeOf (run r (.patApplied v1 es1 :: mid ++ [.patApplied v2 es2])) q = none :=
  Ts.Lemmas.C05H.dropped_by_next_pat r mid v1 v2 es1 es2 q hmid hq h13 hdrop

/-- PMT: a PID listed by one PMT version on `p` and dropped by the next version applied on `p` is
un-routed PROVIDED no PAT version listing `p` was applied in between — i.e. the SAME handler
instance applies both versions.  This is the exact extra hypothesis (see `dropped_clause_gap_is_F7`). -/
theorem dropped_by_same_pmt_instance (r : Route) (mid : List Event) (p v1 v2 : Nat) (b1 b2 : Bytes) (q : Nat)
    (hmid : ∀ ev ∈ mid, (∀ v b, ev ≠ .pmtApplied p v b) ∧
      ∀ v es, ev = .patApplied v es → p ∉ es.map PatEntry.pid)
    (hq : q ∈ (streamsOf b1).map StreamInfo.pid) (h13 : q ≤ 0x1fff)
    (hdrop : q ∉ (streamsOf b2).map StreamInfo.pid) :
    routeOf (run r (.pmtApplied p v1 b1 :: mid ++ [.pmtApplied p v2 b2])) q = none :=
  Ts.Lemmas.C05H.dropped_by_same_pmt_instance r mid p v1 v2 b1 b2 q hmid hq h13 hdrop

/-- the single steps behind them, in terms of the state: what the CURRENT instance remembers -/
theorem drop_steps (r : Route) (q : Nat) (h13 : q ≤ 0x1fff) :
    (∀ ver es, q ∈ r.patEntries.map PatEntry.pid → q ∉ es.map PatEntry.pid →
      routeOf (stepRoute r (.patApplied ver es)) q = none) ∧
    (∀ p ver body, q ∈ (r.pmt p).streams.map StreamInfo.pid → q ∉ (streamsOf body).map StreamInfo.pid →
      routeOf (stepRoute r (.pmtApplied p ver body)) q = none) ∧
    (∀ p ver body, (r.pmt p).streams = [] → q ∉ (streamsOf body).map StreamInfo.pid →
      routeOf (stepRoute r (.pmtApplied p ver body)) q = routeOf r q) :=
  ⟨fun ver es h1 h2 => pat_drop_step r ver es q h1 h13 h2,
   fun p ver body h1 h2 => pmt_drop_step r p ver body q h1 h13 h2,
   fun p ver body h1 h2 => pmt_fresh_keeps r p ver body q h1 h2⟩

/-- **known finding F7: the clause is FALSE of the pinned code.**  Witness: PAT v0 {1 → 0x100},
PMT v0 {0x101, 0x102}, PAT v1 {1 → 0x100, 2 → 0x110}, PMT v1 {0x101}: PID 0x102 stays routed by the
stream request of PMT v0 (`removal_counterexample` in `Props/C05.lean` is the same history run
through the whole model; `f7_refined` below derives it from `routing_refines`). -/
theorem dropped_clause_pmt_false : ¬ DroppedClausePmt := by
  intro h
  have := h [.patApplied 0 [.program 1 0x100]] [.patApplied 1 [.program 1 0x100, .program 2 0x110]]
    0x100 0 1 body0 body1 0x102 (by decide +kernel) (by decide +kernel)
    (by intro ev hm v b e; rw [List.mem_singleton] at hm; rw [hm] at e; cases e)
    (by decide +kernel) (by decide +kernel)
  revert this
  decide +kernel

/-- the gap is EXACTLY F7: whenever the clause fails, a PAT version listing `p` was applied between
the two PMT versions (every such PAT builds a fresh PMT handler whose remembered set is empty) -/
theorem dropped_clause_gap_is_F7 (r : Route) (mid : List Event) (p v1 v2 : Nat) (b1 b2 : Bytes) (q : Nat)
    (hmid : ∀ ev ∈ mid, ∀ v b, ev ≠ .pmtApplied p v b)
    (hq : q ∈ (streamsOf b1).map StreamInfo.pid) (h13 : q ≤ 0x1fff)
    (hdrop : q ∉ (streamsOf b2).map StreamInfo.pid)
    (hfail : routeOf (run r (.pmtApplied p v1 b1 :: mid ++ [.pmtApplied p v2 b2])) q ≠ none) :
    ∃ ev ∈ mid, ∃ v es, ev = .patApplied v es ∧ p ∈ es.map PatEntry.pid := by
  apply Classical.byContradiction
  intro hn
  apply hfail
  apply dropped_by_same_pmt_instance r mid p v1 v2 b1 b2 q ?_ hq h13 hdrop
  intro ev hm
  refine ⟨hmid ev hm, ?_⟩
  intro v es e hp
  exact hn ⟨ev, hm, v, es, e, hp⟩

/-- second pinned quirk: the elementary-stream handlers of a program DROPPED by a newer PAT are not
un-routed (only the program-map PID is): PAT v0 {1 → 0x100}, PMT v0 {0x101, 0x102}, PAT v1 {} -/
theorem dropped_program_streams_survive :
    WF initRoute dropHist ∧ CollisionFree dropHist ∧
    routeOf (run initRoute dropHist) 0x100 = none ∧
    routeOf (run initRoute dropHist) 0x101 = some (.stream 0x100 0x1b 0x101) ∧
    routeOf (run initRoute dropHist) 0x102 = some (.stream 0x100 0x0f 0x102) := by
  refine ⟨drop_wf, drop_cf, ?_, ?_, ?_⟩ <;> unfold routeOf
  · rw [drop_slots.1]; rfl
  · rw [drop_slots.2.1]; rfl
  · rw [drop_slots.2.2]; rfl

/-! ### non-vacuity: the generator's `F7control` and `F7` probes -/

/-- one `push` of a buffer = the real loops on its framed packets -/
theorem runApp_one (cfg : Cfg) (buf : Bytes) (pks : List Pk) (h : Demux.frame buf 0 = .ok pks) :
    runApp cfg [buf] = pushModel App.sem (App.init cfg) pks := by
  simp only [runApp, pushAll, push, h, R.ok_bind]
  cases pushModel App.sem (App.init cfg) pks with
  | panic m => rfl
  | ok tc => rfl

/-- the hypotheses of `routing_refines` hold of the `F7control` probe (4 real packets: PAT v0,
PMT v0 {0x101, 0x102}, PMT v1 {0x101}, a packet on 0x102), cut into a 4-event history -/
example : Demux.frame ctlBytes 0 = .ok ctlPks ∧ WF initRoute ctlHist ∧ CollisionFree ctlHist ∧
    Realises initRoute ctlHist ctlPks := ⟨ctl_frame, ctl_wf, ctl_cf, ctl_realises⟩

/-- … and the conclusion read off: no panic; PMT v1 (applied by the SAME instance that applied v0) took
0x102 out: the probe packet made the application get `ByPid(0x102)` (tag 5) and is recorded by that
recorder; 0x101 is handled by the PES filter built for PMT v1's stream request (tag 4); the PMT filter
on 0x100 remembers {0x101}; the requests are exactly the per-event lists.  Identical to what kernel
evaluation of the whole model gives (`Ts.Lemmas.C05Run.ctl_run`). -/
theorem ctl_refined :
    ∃ t c, runApp {} [ctlBytes] = .ok (t, c) ∧
      t.get 0x102 = some (.recorder 5) ∧ (∃ f, t.get 0x101 = some (.pes 4 f)) ∧
      (∃ s, t.get 0x100 = some (.pmt 0x100 1 s [0x101]) ∧ s.lastVersion = some 1) ∧
      (∃ s, t.get 0 = some (.pat s [0x100]) ∧ s.lastVersion = some 0) ∧
      t.get 0x110 = none ∧
      Ev.construct (.byPid 0x102) 5 ∈ c.trace ∧
      constructs c = [(.byPid 0, 0), (.pmt 0x100 1, 1), (.stream 0x100 0x1b 0x101 0x101 [] [], 2),
        (.stream 0x100 0x0f 0x102 0x101 [] [], 3), (.stream 0x100 0x1b 0x101 0x101 [] [], 4),
        (.byPid 0x102, 5)] := by
  obtain ⟨t, c, -, h2, hslots, htags, -, hlog, -⟩ := routing_refines {} rfl ctlHist ctlPks ctl_wf ctl_realises
  obtain ⟨s0, s100, s101, s102, s110, pv, mv, -, ms⟩ := ctl_slots
  refine ⟨t, c, by rw [runApp_one {} ctlBytes ctlPks ctl_frame]; exact h2, ?_, ?_, ?_, ?_, ?_, ?_, ?_⟩
  · have := hslots 0x102; rw [s102] at this; exact this
  · have := hslots 0x101; rw [s101] at this; exact this
  · have := hslots 0x100; rw [s100] at this
    obtain ⟨s, h1, h3, -⟩ := this
    rw [ms] at h1; rw [mv] at h3
    exact ⟨s, h1, h3⟩
  · have := hslots 0; rw [s0] at this
    obtain ⟨-, s, h1, h3, -⟩ := this
    have pe : (run initRoute ctlHist).patEntries.map PatEntry.pid = [0x100] := by decide +kernel
    rw [pv] at h3; rw [pe] at h1
    exact ⟨s, h1, h3⟩
  · have := hslots 0x110; rw [s110] at this; exact this
  · exact (htags 0x102 _ 5 s102).2.1
  · rw [hlog, ctl_requests]; rfl

/-- the two derivations agree: `routing_refines` on the realised history vs. kernel evaluation of the
whole model on the same bytes -/
example : ∃ t c, runApp {} [ctlBytes] = .ok (t, c) ∧ t.get 0x102 = some (.recorder 5) ∧
    constructs c = constructsV0 ++ [(.stream 0x100 0x1b 0x101 0x101 [] [], 4), (.byPid 0x102, 5)] := by
  obtain ⟨t, c, hr, hc, -, -, -, h102, -⟩ := observe_some _ _ ctl_run
  exact ⟨t, c, hr, slot_recorder _ _ h102, hc⟩

/-- the `F7` probe (PAT v1 between the two PMT versions) also satisfies the hypotheses … -/
example : Demux.frame f7Bytes 0 = .ok f7Pks ∧ WF initRoute f7Hist ∧ CollisionFree f7Hist ∧
    Realises initRoute f7Hist f7Pks := ⟨f7_frame, f7_wf, f7_cf, f7_realises⟩

/-- … and `routing_refines` yields the pinned F7 behaviour: after PMT v1, slot 0x102 still holds the
PES filter with tag 3 built for PMT v0's stream request; the probe packet causes no `ByPid` request -/
theorem f7_refined :
    ∃ t c, runApp {} [f7Bytes] = .ok (t, c) ∧ (∃ f, t.get 0x102 = some (.pes 3 f)) ∧
      (∃ s, t.get 0x100 = some (.pmt 0x100 1 s [0x101])) ∧
      Ev.construct (.stream 0x100 0x0f 0x102 0x101 [] []) 3 ∈ c.trace ∧
      constructs c = [(.byPid 0, 0), (.pmt 0x100 1, 1), (.stream 0x100 0x1b 0x101 0x101 [] [], 2),
        (.stream 0x100 0x0f 0x102 0x101 [] [], 3), (.pmt 0x100 1, 4), (.pmt 0x110 2, 5),
        (.stream 0x100 0x1b 0x101 0x101 [] [], 6)] := by
  obtain ⟨t, c, -, h2, hslots, htags, -, hlog, -⟩ := routing_refines {} rfl f7Hist f7Pks f7_wf f7_realises
  obtain ⟨s100, s101, s102, s110, -, ms⟩ := f7_slots
  refine ⟨t, c, by rw [runApp_one {} f7Bytes f7Pks f7_frame]; exact h2, ?_, ?_, ?_, ?_⟩
  · have := hslots 0x102; rw [s102] at this; exact this
  · have := hslots 0x100; rw [s100] at this
    obtain ⟨s, h1, -⟩ := this
    rw [ms] at h1
    exact ⟨s, h1⟩
  · exact (htags 0x102 _ 3 s102).2.1
  · rw [hlog, f7_requests]; rfl

/-- a history with a repetition event (PAT v0 re-transmitted after PMT v0) is realised by real packets -/
example : WF initRoute repHist ∧ Realises initRoute repHist repPks := ⟨rep_wf, rep_realises⟩

/-- `routed_by_latest_pmt` / `dropped_by_same_pmt_instance` on the control history -/
example : routeOf (run initRoute [.patApplied 0 [.program 1 0x100], .pmtApplied 0x100 0 body0,
      .pmtApplied 0x100 1 body1]) 0x102 = none :=
  dropped_by_same_pmt_instance _ [] 0x100 0 1 body0 body1 0x102 (by simp) (by decide +kernel) (by decide)
    (by decide +kernel)

example : routeOf (run initRoute ctlHist) 0x101 = some (.stream 0x100 0x1b 0x101) :=
  (routed_by_latest_pmt [.patApplied 0 [.program 1 0x100], .pmtApplied 0x100 0 body0] [.esPacket 0x102]
    0x100 1 body1 0x101 (.stream 0x100 0x1b 0x101 0x101 [] []) ctl_cf
    (by intro ev hm v b e; rw [List.mem_singleton] at hm; rw [hm] at e; cases e)
    (by decide +kernel)).2.1

end Ts.Props.C05History
