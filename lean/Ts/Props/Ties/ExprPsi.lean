import Ts.Refl.Tie
import Ts.Gen.Exprs
import Ts.Model.Psi
import Ts.Model.Values
/-!
# Expression ties — section headers (audited with C03)

See `Ts/Props/Ties/ExprTime.lean` for the method.  `Ts.Gen.Expr.sch_*`, `tsh_*` are translated from
`/repo/src/psi/mod.rs` on every run.
-/
namespace Ts.Props.Ties.Expr
open Ts Ts.Refl Ts.Gen.Expr

def mSchSyntax (e : Env) : Bool := e 1 &&& 0b1000_0000 != 0
def mSchPrivate (e : Env) : Bool := e 1 &&& 0b0100_0000 != 0
def mSchLength (e : Env) : Nat := ((e 1 &&& 0b0000_1111) <<< 8) ||| e 2

theorem tie_expr_sch_bits : ∀ x : Fin 256,
    sch_syntax (envL [0xff, x.val, 0xff]) = mSchSyntax (envL [0, x.val])
    ∧ sch_private (envL [0xff, x.val, 0xff]) = mSchPrivate (envL [0, x.val]) := by decide +kernel
theorem tie_expr_sch_length : ∀ l : List Nat, l.length ≤ 3 → (∀ x ∈ l, x < 256) →
    sch_length (envL l) = mSchLength (envL l) := by tie_linear 3

theorem tie_model_header_new (b : Bytes) : Psi.headerNew b = (do
    assertR (b.length == Psi.COMMON) "assert_eq!(buf.len(), Self::SIZE)"
    let b0 ← byteAt b 0; let b1 ← byteAt b 1; let b1' ← byteAt b 1; let b1'' ← byteAt b 1; let b2 ← byteAt b 2
    pure ⟨b0, mSchSyntax (envL [0, b1]), mSchPrivate (envL [0, b1']), mSchLength (envL [0, b1'', b2])⟩) := rfl

def mTshId (e : Env) : Nat := (e 0 <<< 8) ||| e 1
def mTshVersion (e : Env) : Nat := (e 2 >>> 1) &&& 0b0001_1111

theorem tie_expr_tsh_id : ∀ l : List Nat, l.length ≤ 2 → (∀ x ∈ l, x < 256) →
    tsh_id (envL l) = mTshId (envL l) := by tie_linear 2
theorem tie_expr_tsh_version : ∀ x : Fin 256,
    tsh_version (envL [0xff, 0xff, x.val, 0xff]) = mTshVersion (envL [0, 0, x.val]) := by decide +kernel

theorem tie_model_tsh_version (b : Bytes) : Psi.tshVersion b = (do
    assertR (b.length ≥ Psi.TSH) "assert!(buf.len() >= Self::SIZE)"
    let b2 ← byteAt b 2
    pure (mTshVersion (envL [0, 0, b2]))) := rfl

theorem tie_model_tsh_fields (b : Bytes) : Values.tshFields b = (do
    assertR (b.length ≥ 5) "assert!(buf.len() >= Self::SIZE)"
    let b0 ← byteAt b 0; let b1 ← byteAt b 1
    let id := mTshId (envL [b0, b1])
    let b2 ← byteAt b 2
    let version := mTshVersion (envL [0, 0, b2])
    let b2' ← byteAt b 2
    let cur ← Values.currentNextFrom (b2' &&& 1)
    let b3 ← byteAt b 3; let b4 ← byteAt b 4
    pure ⟨id, version, cur, b3, b4⟩) := rfl

end Ts.Props.Ties.Expr
