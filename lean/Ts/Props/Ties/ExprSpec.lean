import Ts.Props.Ties.ExprTime
import Ts.Props.Ties.ExprPacket
import Ts.Props.Ties.ExprAf
import Ts.Props.Ties.ExprPes
import Ts.Props.Ties.ExprPsi
import Ts.Props.Ties.ExprTables
import Ts.Props.Ties.ExprDesc
import Ts.Spec.Bits
import Ts.Lemmas.BitOps
import Ts.Lemmas.C14b
import Ts.Lemmas.C15
import Ts.Lemmas.C16
import Ts.Lemmas.C17
/-!
# CODE = ISO: the source's bit-field expressions compute the standard's bit fields

`Ts/Props/Ties/Expr*.lean` prove CODE = MODEL: the expression machine-translated from `/repo/src`
(`Ts.Gen.Expr.*`) equals the hand-written model's expression, for all byte values.  The property
theorems (`Ts/Props/C12 … C17`, `Ts/Lemmas/*`) prove MODEL = ISO: the model's masks and shifts compute
the `uimsbf` field that the syntax tables of ISO/IEC 13818-1 define (`Ts.Spec.readBits bs off n`:
`n` bits, most significant first, from BIT offset `off`).

This file composes the two.  Each `code_*_is_iso` states that the CODE's expression, evaluated on
the bytes of an arbitrary byte string `bs` (`envB bs`), is the ISO bit field of `bs` — the model
does not occur in the statement.  Every proof is the chain

    code_model_* : f (envB bs) = m (envB bs)      -- the tie `tie_expr_*`, transported to `bs`
    model_iso_*  : m (envB bs) = readBits bs … …  -- the arithmetic lemmas of the property proofs
    code_*_is_iso := code_model_*.trans model_iso_*

The tie theorems are stated for lists of at most `n` byte values, `bs` may be longer:
`tie_on_bytes` applies the tie to the first `n` bytes of `bs` and uses that both expressions read
only indices `< n` (`reads_below`, by unfolding).

The length hypotheses say that the field lies inside `bs`; they are what a caller has, and the
minimum for the field to be meaningful.  The proofs do not use them: past the end of the string
`envB bs` and `readBits bs` both read 0, so the equations hold there as well.

Layouts (checked against the syntax tables of ISO/IEC 13818-1):
* transport packet (2.4.3.2): sync 8 | tei 1 | pusi 1 | prio 1 | PID 13 | tsc 2 | afc 2 | cc 4
* PTS/DTS (2.4.3.6): prefix 4 | [32..30] 3 | marker | [29..15] 15 | marker | [14..0] 15 | marker
* PCR/OPCR (2.4.3.4): base 33 | reserved 6 | extension 9
* ESCR (2.4.3.6): reserved 2 | [32..30] 3 | marker | [29..15] 15 | marker | [14..0] 15 | marker |
  extension 9 | marker;  ES_rate: marker | ES_rate 22 | marker
* section (2.4.4.x): table_id 8 | syntax 1 | private 1 | reserved 2 | section_length 12; then
  (`TableSyntaxHeader`) id 16 | reserved 2 | version 5 | current_next 1 | section_number 8 | last 8
* PAT entry: program_number 16 | reserved 3 | PID 13
* PMT body: reserved 3 | PCR_PID 13 | reserved 4 | program_info_length 12;
  stream: stream_type 8 | reserved 3 | elementary_PID 13 | reserved 4 | ES_info_length 12
* adaptation field extension (2.4.3.4): ltw_valid 1 | ltw_offset 15;  reserved 2 | piecewise_rate 22
* maximum_bitrate_descriptor payload (2.6.26): reserved 2 | maximum_bitrate 22
* PES packet (2.4.3.6): start code prefix 24 | stream_id 8 | PES_packet_length 16
All nineteen right-hand sides requested were found correct.
-/
namespace Ts.Props.Ties.Expr
open Ts Ts.Refl Ts.Gen.Expr Ts.Spec

/-! ## Transport of a tie to an arbitrary byte string -/

/-- `Ts.Refl.envB_apply`, with `byteD` -/
theorem envB_byteD (b : Bytes) (i : Nat) : envB b i = byteD b i := envB_apply b i

/-- the values of the first `n` bytes of `bs`: the list a tie theorem is applied to -/
def pre (bs : Bytes) (n : Nat) : List Nat := (bs.take n).map (·.toNat)

theorem pre_length (bs : Bytes) (n : Nat) : (pre bs n).length ≤ n := by
  unfold pre
  rw [List.length_map, List.length_take]
  exact Nat.min_le_left _ _

theorem pre_lt (bs : Bytes) (n : Nat) : ∀ x ∈ pre bs n, x < 256 := envB_lt (bs.take n)

theorem envL_pre (bs : Bytes) (n i : Nat) (h : i < n) : envL (pre bs n) i = byteD bs i := by
  show envB (bs.take n) i = _
  rw [envB_byteD, byteD_take bs n i h]

/-- `f` reads only the bytes with index `< n` -/
def ReadsBelow (n : Nat) (f : Env → Nat) : Prop :=
  ∀ e e' : Env, (∀ i, i < n → e i = e' i) → f e = f e'

/-- a tie proved for all lists of at most `n` byte values holds on the bytes of every byte
string, whatever its length, when both sides read only indices `< n` -/
theorem tie_on_bytes {f g : Env → Nat} (n : Nat)
    (tie : ∀ l : List Nat, l.length ≤ n → (∀ x ∈ l, x < 256) → f (envL l) = g (envL l))
    (hf : ReadsBelow n f) (hg : ReadsBelow n g) (bs : Bytes) : f (envB bs) = g (envB bs) := by
  have agree : ∀ i, i < n → envB bs i = envL (pre bs n) i := fun i hi => by
    rw [envB_byteD, envL_pre bs n i hi]
  rw [hf _ _ agree, tie _ (pre_length bs n) (pre_lt bs n)]
  exact (hg _ _ agree).symm

/-- `reads_below f`: proves `ReadsBelow n f` by unfolding `f` and rewriting every byte read -/
macro "reads_below " f:ident : tactic =>
  `(tactic| (intro e e' h; simp (disch := decide) only [$f:ident, h]))

/-! ## CODE = MODEL on a byte string -/

theorem code_model_pid (bs : Bytes) : pk_pid (envB bs) = mPid (envB bs) :=
  tie_on_bytes 3 tie_expr_pk_pid (by reads_below pk_pid) (by reads_below mPid) bs

/-- one-byte tie (`∀ x : Fin 256`), instantiated at byte 3 of `bs` -/
theorem code_model_cc (bs : Bytes) : pk_cc (envB bs) = mCc (envB bs) := by
  have l1 : pk_cc (envB bs) = pk_cc (envL [0xff, 0xff, 0xff, byteD bs 3, 0xff]) := by
    simp only [pk_cc, envB_byteD]; rfl
  have l2 : mCc (envL [0, 0, 0, byteD bs 3]) = mCc (envB bs) := by
    simp only [mCc, envB_byteD]; rfl
  rw [l1]
  exact (tie_expr_pk_cc ⟨byteD bs 3, byteD_lt bs 3⟩).trans l2

theorem code_model_ts_val (bs : Bytes) : ts_val (envB bs) = mTsVal (envB bs) :=
  tie_on_bytes 5 tie_expr_ts_val (by reads_below ts_val) (by reads_below mTsVal) bs

theorem code_model_cref_base (bs : Bytes) : cref_base (envB bs) = mCrefBase (envB bs) :=
  tie_on_bytes 6 tie_expr_cref_base (by reads_below cref_base) (by reads_below mCrefBase) bs

theorem code_model_cref_ext (bs : Bytes) : cref_ext (envB bs) = mCrefExt (envB bs) :=
  tie_on_bytes 6 tie_expr_cref_ext (by reads_below cref_ext) (by reads_below mCrefExt) bs

theorem code_model_escr_base (bs : Bytes) : pes_escr_base (envB bs) = mEscrBase (envB bs) :=
  tie_on_bytes 6 tie_expr_pes_escr_base (by reads_below pes_escr_base) (by reads_below mEscrBase) bs

theorem code_model_escr_ext (bs : Bytes) : pes_escr_ext (envB bs) = mEscrExt (envB bs) :=
  tie_on_bytes 6 tie_expr_pes_escr_ext (by reads_below pes_escr_ext) (by reads_below mEscrExt) bs

theorem code_model_es_rate (bs : Bytes) : pes_es_rate (envB bs) = mEsRate (envB bs) :=
  tie_on_bytes 3 tie_expr_pes_es_rate (by reads_below pes_es_rate) (by reads_below mEsRate) bs

theorem code_model_section_length (bs : Bytes) : sch_length (envB bs) = mSchLength (envB bs) :=
  tie_on_bytes 3 tie_expr_sch_length (by reads_below sch_length) (by reads_below mSchLength) bs

/-- one-byte tie (`∀ x : Fin 256`), instantiated at byte 2 of `bs` -/
theorem code_model_tsh_version (bs : Bytes) : tsh_version (envB bs) = mTshVersion (envB bs) := by
  have l1 : tsh_version (envB bs) = tsh_version (envL [0xff, 0xff, byteD bs 2, 0xff]) := by
    simp only [tsh_version, envB_byteD]; rfl
  have l2 : mTshVersion (envL [0, 0, byteD bs 2]) = mTshVersion (envB bs) := by
    simp only [mTshVersion, envB_byteD]; rfl
  rw [l1]
  exact (tie_expr_tsh_version ⟨byteD bs 2, byteD_lt bs 2⟩).trans l2

theorem code_model_pat_pid (bs : Bytes) : pat_pid (envB bs) = mPatPid (envB bs) :=
  tie_on_bytes 4 tie_expr_pat_pid (by reads_below pat_pid) (by reads_below mPatPid) bs

theorem code_model_pmt_pcr_pid (bs : Bytes) : pmt_pcr_pid (envB bs) = mPmtPcrPid (envB bs) :=
  tie_on_bytes 4 tie_expr_pmt_pcr_pid (by reads_below pmt_pcr_pid) (by reads_below mPmtPcrPid) bs

theorem code_model_pmt_program_info_length (bs : Bytes) :
    pmt_program_info_length (envB bs) = mPmtProgramInfoLength (envB bs) :=
  tie_on_bytes 4 tie_expr_pmt_program_info_length (by reads_below pmt_program_info_length)
    (by reads_below mPmtProgramInfoLength) bs

theorem code_model_pmt_elementary_pid (bs : Bytes) :
    pmt_elementary_pid (envB bs) = mPmtElementaryPid (envB bs) :=
  tie_on_bytes 5 tie_expr_pmt_elementary_pid (by reads_below pmt_elementary_pid)
    (by reads_below mPmtElementaryPid) bs

theorem code_model_pmt_es_info_length (bs : Bytes) :
    pmt_es_info_length (envB bs) = mPmtEsInfoLength (envB bs) :=
  tie_on_bytes 5 tie_expr_pmt_es_info_length (by reads_below pmt_es_info_length)
    (by reads_below mPmtEsInfoLength) bs

theorem code_model_piecewise_rate (bs : Bytes) : ext_piecewise_rate (envB bs) = mPiecewise (envB bs) :=
  tie_on_bytes 3 tie_expr_ext_piecewise_rate (by reads_below ext_piecewise_rate)
    (by reads_below mPiecewise) bs

theorem code_model_ltw_offset (bs : Bytes) : ext_ltw_offset (envB bs) = mLtwOffset (envB bs) :=
  tie_on_bytes 2 tie_expr_ext_ltw_offset (by reads_below ext_ltw_offset) (by reads_below mLtwOffset) bs

theorem code_model_max_bitrate (bs : Bytes) : maxbr_rate (envB bs) = mMaxBitrate (envB bs) :=
  tie_on_bytes 3 tie_expr_maxbr_rate (by reads_below maxbr_rate) (by reads_below mMaxBitrate) bs

theorem code_model_pes_packet_length (bs : Bytes) : pes_packet_length (envB bs) = mPacketLength (envB bs) :=
  tie_on_bytes 6 tie_expr_pes_packet_length (by reads_below pes_packet_length)
    (by reads_below mPacketLength) bs

/-! ## MODEL = ISO on a byte string

The model expression on `envB bs` is masks and shifts of `byteD bs i`; the lemmas used by the
property proofs turn both it and the `readBits` field into the same byte arithmetic. -/

open Ts.Lemmas.C16 Ts.Lemmas.C17 in
theorem model_iso_pid (bs : Bytes) : mPid (envB bs) = readBits bs 11 13 := by
  simp only [mPid, envB_byteD]
  rw [mask13 _ _ (byteD_lt bs 1) (byteD_lt bs 2), st_pid]

theorem model_iso_cc (bs : Bytes) : mCc (envB bs) = readBits bs 28 4 := by
  simp only [mCc, envB_byteD]
  have r := readBits_sub bs 3 4 4 (by omega)
  rw [show 8 * 3 + 4 = 28 from rfl] at r
  rw [r, and_0f _ (byteD_lt bs 3)]
  simp

open Ts.Lemmas.C15 in
theorem model_iso_ts_val (bs : Bytes) :
    mTsVal (envB bs) = readBits bs 4 3 * 2^30 + readBits bs 8 15 * 2^15 + readBits bs 24 15 := by
  simp only [mTsVal, envB_byteD]
  rw [tsVal_arith _ _ _ _ _ (byteD_lt bs 0) (byteD_lt bs 1) (byteD_lt bs 2) (byteD_lt bs 3) (byteD_lt bs 4),
    field_hi, field_mid, field_lo]
  omega

open Ts.Lemmas.C15 in
theorem model_iso_cref_base (bs : Bytes) : mCrefBase (envB bs) = readBits bs 0 33 := by
  simp only [mCrefBase, envB_byteD]
  rw [crefBase_arith _ _ _ _ _ (byteD_lt bs 0) (byteD_lt bs 1) (byteD_lt bs 2) (byteD_lt bs 3) (byteD_lt bs 4),
    field_pcrBase]

open Ts.Lemmas.C15 in
theorem model_iso_cref_ext (bs : Bytes) : mCrefExt (envB bs) = readBits bs 39 9 := by
  simp only [mCrefExt, envB_byteD]
  rw [crefExt_arith _ _ (byteD_lt bs 5), field_pcrExt]

open Ts.Lemmas.C14 Ts.Spec.PesSpec in
theorem model_iso_escr_base (bs : Bytes) :
    mEscrBase (envB bs) = readBits bs 2 3 * 2^30 + readBits bs 6 15 * 2^15 + readBits bs 22 15 := by
  simp only [mEscrBase, envB_byteD]
  rw [escrBase_arith _ _ _ _ _ (byteD_lt bs 0) (byteD_lt bs 1) (byteD_lt bs 2) (byteD_lt bs 3) (byteD_lt bs 4)]
  have e := congrArg EscrVal.base (escrAt_eq bs 0)
  simp only [escrAt, Nat.mul_zero, Nat.zero_add] at e
  exact e.symm

open Ts.Lemmas.C14 Ts.Spec.PesSpec in
theorem model_iso_escr_ext (bs : Bytes) : mEscrExt (envB bs) = readBits bs 38 9 := by
  simp only [mEscrExt, envB_byteD]
  rw [escrExt_arith _ _ (byteD_lt bs 4) (byteD_lt bs 5)]
  have e := congrArg EscrVal.ext (escrAt_eq bs 0)
  simp only [escrAt, Nat.mul_zero, Nat.zero_add] at e
  exact e.symm

open Ts.Lemmas.C14 Ts.Spec.PesSpec in
theorem model_iso_es_rate (bs : Bytes) : mEsRate (envB bs) = readBits bs 1 22 := by
  simp only [mEsRate, envB_byteD]
  have e := esRate_val bs 0
  simp only [esRateAt, Nat.mul_zero, Nat.zero_add] at e
  exact e

open Ts.Lemmas.C16 in
theorem model_iso_section_length (bs : Bytes) : mSchLength (envB bs) = readBits bs 12 12 := by
  simp only [mSchLength, envB_byteD]
  rw [mask12 _ _ (byteD_lt bs 1) (byteD_lt bs 2)]
  exact (field_4_12 bs 1).symm

theorem shr1_and_1f_fin : ∀ b : Fin 256, (b.val >>> 1) &&& 0b0001_1111 = b.val / 2 % 32 := by
  decide +kernel

theorem model_iso_tsh_version (bs : Bytes) : mTshVersion (envB bs) = readBits bs 18 5 := by
  simp only [mTshVersion, envB_byteD]
  have r := readBits_sub bs 2 2 5 (by omega)
  rw [show 8 * 2 + 2 = 18 from rfl] at r
  rw [r]
  exact shr1_and_1f_fin ⟨byteD bs 2, byteD_lt bs 2⟩

open Ts.Lemmas.C16 in
theorem model_iso_pat_pid (bs : Bytes) : mPatPid (envB bs) = readBits bs 19 13 := by
  simp only [mPatPid, envB_byteD]
  rw [mask13 _ _ (byteD_lt bs 2) (byteD_lt bs 3), Ts.Lemmas.C16.pat_pid]

open Ts.Lemmas.C16 in
theorem model_iso_pmt_pcr_pid (bs : Bytes) : mPmtPcrPid (envB bs) = readBits bs 3 13 := by
  simp only [mPmtPcrPid, envB_byteD]
  rw [mask13 _ _ (byteD_lt bs 0) (byteD_lt bs 1), pmt_pcr]

open Ts.Lemmas.C16 in
theorem model_iso_pmt_program_info_length (bs : Bytes) :
    mPmtProgramInfoLength (envB bs) = readBits bs 20 12 := by
  simp only [mPmtProgramInfoLength, envB_byteD]
  rw [mask12 _ _ (byteD_lt bs 2) (byteD_lt bs 3), pmt_pil]

open Ts.Lemmas.C16 in
theorem model_iso_pmt_elementary_pid (bs : Bytes) : mPmtElementaryPid (envB bs) = readBits bs 11 13 := by
  simp only [mPmtElementaryPid, envB_byteD]
  rw [mask13 _ _ (byteD_lt bs 1) (byteD_lt bs 2), st_pid]

open Ts.Lemmas.C16 in
theorem model_iso_pmt_es_info_length (bs : Bytes) : mPmtEsInfoLength (envB bs) = readBits bs 28 12 := by
  simp only [mPmtEsInfoLength, envB_byteD]
  rw [mask12 _ _ (byteD_lt bs 3) (byteD_lt bs 4), st_esil]

open Ts.Lemmas.C17 in
theorem model_iso_piecewise_rate (bs : Bytes) : mPiecewise (envB bs) = readBits bs 2 22 := by
  simp only [mPiecewise, envB_byteD]
  rw [bitrate_arith _ _ _ (byteD_lt bs 0) (byteD_lt bs 1) (byteD_lt bs 2), bitrate_field]

open Ts.Lemmas.C16 in
theorem model_iso_ltw_offset (bs : Bytes) : mLtwOffset (envB bs) = readBits bs 1 15 := by
  simp only [mLtwOffset, envB_byteD]
  have e : readBits bs 1 15 = readBits bs 1 7 * 2^8 + readBits bs (1 + 7) 8 := readBits_add bs 1 7 8
  have r1 := readBits_sub bs 0 1 7 (by omega)
  have r2 := readBits_byte bs 1
  simp only [Nat.mul_zero, Nat.zero_add, Nat.mul_one] at r1 r2
  rw [e, r1, r2, and_7f _ (byteD_lt bs 0), shl8_or _ _ (byteD_lt bs 1)]
  simp

open Ts.Lemmas.C17 in
theorem model_iso_max_bitrate (bs : Bytes) : mMaxBitrate (envB bs) = readBits bs 2 22 := by
  simp only [mMaxBitrate, envB_byteD]
  rw [bitrate_arith _ _ _ (byteD_lt bs 0) (byteD_lt bs 1) (byteD_lt bs 2), bitrate_field]

open Ts.Lemmas.C16 in
theorem model_iso_pes_packet_length (bs : Bytes) : mPacketLength (envB bs) = readBits bs 32 16 := by
  simp only [mPacketLength, envB_byteD]
  rw [shl8_or _ _ (byteD_lt bs 5)]
  exact (field_0_16 bs 4).symm

/-! ## CODE = ISO -/

/-- transport packet header: `PID`, 13 bits at bit 11 -/
theorem code_pid_is_iso (bs : Bytes) (_h : 3 ≤ bs.length) : pk_pid (envB bs) = readBits bs 11 13 :=
  (code_model_pid bs).trans (model_iso_pid bs)

/-- transport packet header: `continuity_counter`, 4 bits at bit 28 -/
theorem code_cc_is_iso (bs : Bytes) (_h : 4 ≤ bs.length) : pk_cc (envB bs) = readBits bs 28 4 :=
  (code_model_cc bs).trans (model_iso_cc bs)

/-- PTS / DTS: the three value fields `[32..30]`, `[29..15]`, `[14..0]` between the marker bits -/
theorem code_ts_val_is_iso (bs : Bytes) (_h : 5 ≤ bs.length) :
    ts_val (envB bs) = readBits bs 4 3 * 2^30 + readBits bs 8 15 * 2^15 + readBits bs 24 15 :=
  (code_model_ts_val bs).trans (model_iso_ts_val bs)

/-- PCR / OPCR: `program_clock_reference_base`, 33 bits at bit 0 -/
theorem code_cref_base_is_iso (bs : Bytes) (_h : 6 ≤ bs.length) : cref_base (envB bs) = readBits bs 0 33 :=
  (code_model_cref_base bs).trans (model_iso_cref_base bs)

/-- PCR / OPCR: `program_clock_reference_extension`, 9 bits at bit 39 -/
theorem code_cref_ext_is_iso (bs : Bytes) (_h : 6 ≤ bs.length) : cref_ext (envB bs) = readBits bs 39 9 :=
  (code_model_cref_ext bs).trans (model_iso_cref_ext bs)

/-- ESCR: `ESCR_base` `[32..30]`, `[29..15]`, `[14..0]` -/
theorem code_escr_base_is_iso (bs : Bytes) (_h : 6 ≤ bs.length) :
    pes_escr_base (envB bs) = readBits bs 2 3 * 2^30 + readBits bs 6 15 * 2^15 + readBits bs 22 15 :=
  (code_model_escr_base bs).trans (model_iso_escr_base bs)

/-- ESCR: `ESCR_extension`, 9 bits at bit 38 -/
theorem code_escr_ext_is_iso (bs : Bytes) (_h : 6 ≤ bs.length) : pes_escr_ext (envB bs) = readBits bs 38 9 :=
  (code_model_escr_ext bs).trans (model_iso_escr_ext bs)

/-- `ES_rate`, 22 bits at bit 1 -/
theorem code_es_rate_is_iso (bs : Bytes) (_h : 3 ≤ bs.length) : pes_es_rate (envB bs) = readBits bs 1 22 :=
  (code_model_es_rate bs).trans (model_iso_es_rate bs)

/-- section header: `section_length`, 12 bits at bit 12 -/
theorem code_section_length_is_iso (bs : Bytes) (_h : 3 ≤ bs.length) :
    sch_length (envB bs) = readBits bs 12 12 :=
  (code_model_section_length bs).trans (model_iso_section_length bs)

/-- table syntax header (the bytes after `section_length`): `version_number`, 5 bits at bit 18 -/
theorem code_tsh_version_is_iso (bs : Bytes) (_h : 3 ≤ bs.length) :
    tsh_version (envB bs) = readBits bs 18 5 :=
  (code_model_tsh_version bs).trans (model_iso_tsh_version bs)

/-- PAT entry: `network_PID` / `program_map_PID`, 13 bits at bit 19 -/
theorem code_pat_pid_is_iso (bs : Bytes) (_h : 4 ≤ bs.length) : pat_pid (envB bs) = readBits bs 19 13 :=
  (code_model_pat_pid bs).trans (model_iso_pat_pid bs)

/-- PMT body: `PCR_PID`, 13 bits at bit 3 -/
theorem code_pmt_pcr_pid_is_iso (bs : Bytes) (_h : 2 ≤ bs.length) :
    pmt_pcr_pid (envB bs) = readBits bs 3 13 :=
  (code_model_pmt_pcr_pid bs).trans (model_iso_pmt_pcr_pid bs)

/-- PMT body: `program_info_length`, 12 bits at bit 20 -/
theorem code_pmt_program_info_length_is_iso (bs : Bytes) (_h : 4 ≤ bs.length) :
    pmt_program_info_length (envB bs) = readBits bs 20 12 :=
  (code_model_pmt_program_info_length bs).trans (model_iso_pmt_program_info_length bs)

/-- PMT stream entry: `elementary_PID`, 13 bits at bit 11 -/
theorem code_pmt_elementary_pid_is_iso (bs : Bytes) (_h : 3 ≤ bs.length) :
    pmt_elementary_pid (envB bs) = readBits bs 11 13 :=
  (code_model_pmt_elementary_pid bs).trans (model_iso_pmt_elementary_pid bs)

/-- PMT stream entry: `ES_info_length`, 12 bits at bit 28 -/
theorem code_pmt_es_info_length_is_iso (bs : Bytes) (_h : 5 ≤ bs.length) :
    pmt_es_info_length (envB bs) = readBits bs 28 12 :=
  (code_model_pmt_es_info_length bs).trans (model_iso_pmt_es_info_length bs)

/-- adaptation field extension: `piecewise_rate`, 22 bits at bit 2 -/
theorem code_piecewise_rate_is_iso (bs : Bytes) (_h : 3 ≤ bs.length) :
    ext_piecewise_rate (envB bs) = readBits bs 2 22 :=
  (code_model_piecewise_rate bs).trans (model_iso_piecewise_rate bs)

/-- adaptation field extension: `ltw_offset`, 15 bits at bit 1 -/
theorem code_ltw_offset_is_iso (bs : Bytes) (_h : 2 ≤ bs.length) :
    ext_ltw_offset (envB bs) = readBits bs 1 15 :=
  (code_model_ltw_offset bs).trans (model_iso_ltw_offset bs)

/-- maximum bitrate descriptor: `maximum_bitrate`, 22 bits at bit 2 -/
theorem code_max_bitrate_is_iso (bs : Bytes) (_h : 3 ≤ bs.length) : maxbr_rate (envB bs) = readBits bs 2 22 :=
  (code_model_max_bitrate bs).trans (model_iso_max_bitrate bs)

/-- PES packet: `PES_packet_length`, 16 bits at bit 32 -/
theorem code_pes_packet_length_is_iso (bs : Bytes) (_h : 6 ≤ bs.length) :
    pes_packet_length (envB bs) = readBits bs 32 16 :=
  (code_model_pes_packet_length bs).trans (model_iso_pes_packet_length bs)

/-! ## Instances -/

/-- PID 0x1234 & 0x1fff = 0x1234 in a packet header `47 52 34 1c` (surrounding bits all set) -/
example : pk_pid (envB [0x47, 0xf2, 0x34, 0x1c]) = 0x1234
    ∧ readBits [0x47, 0xf2, 0x34, 0x1c] 11 13 = 0x1234 := by decide

/-- PTS `21 00 05 bf 21` = prefix 0010, value 0x15f90 = 90000 (one second of the 90 kHz clock) -/
example : ts_val (envB [0x21, 0x00, 0x05, 0xbf, 0x21]) = 90000
    ∧ readBits [0x21, 0x00, 0x05, 0xbf, 0x21] 4 3 * 2^30 + readBits [0x21, 0x00, 0x05, 0xbf, 0x21] 8 15 * 2^15
        + readBits [0x21, 0x00, 0x05, 0xbf, 0x21] 24 15 = 90000 := by decide

/-- section header `02 b0 1d`: section_length 0x01d = 29, and the theorem instantiated -/
example : sch_length (envB [0x02, 0xb0, 0x1d]) = 29 ∧ readBits [0x02, 0xb0, 0x1d] 12 12 = 29 := by decide
example : sch_length (envB [0x02, 0xb0, 0x1d]) = readBits [0x02, 0xb0, 0x1d] 12 12 :=
  code_section_length_is_iso _ (by decide)

end Ts.Props.Ties.Expr
