import Ts.Props.Ties.ExprSpecCore
import Ts.Props.Ties.ExprAf
import Ts.Lemmas.C16
import Ts.Lemmas.C17
/-!
# CODE = ISO: the translated expressions of `/repo/src` equal the bit fields of ISO/IEC 13818-1 — part `Af` (audited with C13)

See `Ts/Props/Ties/ExprSpecCore.lean`. Each `code_*_is_iso` is `(code_model_*).trans (model_iso_*)`: the
model appears only in the two intermediate lemmas, never in the final statement.
-/
namespace Ts.Props.Ties.Expr
open Ts Ts.Refl Ts.Gen.Expr Ts.Spec

theorem code_model_piecewise_rate (bs : Bytes) : ext_piecewise_rate (envB bs) = mPiecewise (envB bs) :=
  tie_on_bytes 3 tie_expr_ext_piecewise_rate (by reads_below ext_piecewise_rate)
    (by reads_below mPiecewise) bs

theorem code_model_ltw_offset (bs : Bytes) : ext_ltw_offset (envB bs) = mLtwOffset (envB bs) :=
  tie_on_bytes 2 tie_expr_ext_ltw_offset (by reads_below ext_ltw_offset) (by reads_below mLtwOffset) bs

open Ts.Lemmas.C17 in
theorem model_iso_piecewise_rate (bs : Bytes) : mPiecewise (envB bs) = readBits bs 2 22 := by
  simp only [mPiecewise, envB_byteD]
  rw [bitrate_arith _ _ _ (byteD_lt bs 0) (byteD_lt bs 1) (byteD_lt bs 2), bitrate_field]

open Ts.Lemmas.C16 in
theorem model_iso_ltw_offset (bs : Bytes) : mLtwOffset (envB bs) = readBits bs 1 15 := by
  simp only [mLtwOffset, envB_byteD]
  have e : readBits bs 1 15 = readBits bs 1 7 * 2^8 + readBits bs (1 + 7) 8 := readBits_add bs 1 7 8
  have r1 := readBits_sub bs 0 1 7 (by omega)
  have r2 := readBits_byte bs 1
  simp only [Nat.mul_zero, Nat.zero_add, Nat.mul_one] at r1 r2
  rw [e, r1, r2, and_7f _ (byteD_lt bs 0), shl8_or _ _ (byteD_lt bs 1)]
  simp

/-- adaptation field extension: `piecewise_rate`, 22 bits at bit 2 -/
theorem code_piecewise_rate_is_iso (bs : Bytes) (_h : 3 ≤ bs.length) :
    ext_piecewise_rate (envB bs) = readBits bs 2 22 :=
  (code_model_piecewise_rate bs).trans (model_iso_piecewise_rate bs)

/-- adaptation field extension: `ltw_offset`, 15 bits at bit 1 -/
theorem code_ltw_offset_is_iso (bs : Bytes) (_h : 2 ≤ bs.length) :
    ext_ltw_offset (envB bs) = readBits bs 1 15 :=
  (code_model_ltw_offset bs).trans (model_iso_ltw_offset bs)

end Ts.Props.Ties.Expr
