import Ts.Model.Pes
import Ts.Model.Tables
import Ts.Model.App
import Ts.Model.Values
import Ts.Gen.Consts
/-!
# Ties between the model's literals and constants regenerated from `/repo/src` — part `Pes`

Audited with: C14 (so that a changed constant breaks the proof obligations of exactly the properties
it concerns). See `Ts/Props/Ties.lean` for the general explanation.
-/
namespace Ts.Props.Ties
open Ts Ts.Pes Ts.Tables Ts.Demux

/-- `dsm_trick_mode_end` adds `DSM_TRICK_MODE_SIZE` -/
theorem tie_trick_mode_size (f : Nat) :
    trickEnd f = (esRateEnd f >>= fun e => pure (e + if trickFlag f then Gen.pesTrickModeSize else 0)) := rfl

/-- `additional_copy_info_end` adds `ADDITIONAL_COPY_INFO_SIZE` -/
theorem tie_copy_info_size (f : Nat) :
    aciEnd f = (trickEnd f >>= fun e => pure (e + if aciFlag f then Gen.pesCopyInfoSize else 0)) := rfl

/-- `previous_pes_packet_crc_end` adds `PREVIOUS_PES_PACKET_CRC_SIZE` -/
theorem tie_prev_crc_size (f : Nat) :
    crcEnd f = (aciEnd f >>= fun e => pure (e + if crcFlag f then Gen.pesPrevCrcSize else 0)) := rfl

/-- `EsRate::bytes_per_second` multiplies by `RATE_BYTES_PER_SECOND` -/
theorem tie_bytes_per_second (v : Nat) : bytesPerSecond v = v * Gen.esRateBytesPerSecond := rfl

/-- the `u32` product cannot overflow for any value `EsRate::new` accepts (`es_rate < 1 << 22`) -/
theorem bytes_per_second_no_overflow (v : Nat) (h : v < Gen.esRateBound) : bytesPerSecond v < 2 ^ 32 := by
  unfold bytesPerSecond
  have : Gen.esRateBound = 4194304 := rfl
  omega

/-- `EsRate::new`'s `assert!(es_rate < 1 << 22)` inside `es_rate()` -/
theorem tie_es_rate_assert (buf : Bytes) :
    esRate buf = (do
      let f ← flagsByte buf
      if esRateFlag f then do
        let a ← escrEnd f
        match ← headerSlice buf a (a + Gen.pesEsRateSize) with
        | .error e => pure (.error e)
        | .ok s => do
          let s0 ← byteAt s 0; let s1 ← byteAt s 1; let s2 ← byteAt s 2
          let v := esRateVal s0 s1 s2
          assertR (v < Gen.esRateBound) "assert!(es_rate < 1 << 22)"
          pure (.ok v)
      else pure (.error .fieldNotPresent)) := rfl

/-- `dsm_trick_mode()` slices `es_rate_end() .. es_rate_end() + DSM_TRICK_MODE_SIZE` -/
theorem tie_trick_mode_slice (buf : Bytes) :
    dsmTrickMode buf = (do
      let f ← flagsByte buf
      if trickFlag f then do
        let a ← esRateEnd f
        match ← headerSlice buf a (a + Gen.pesTrickModeSize) with
        | .error e => pure (.error e)
        | .ok s => do let b ← byteAt s 0; let t ← trickOfByte b; pure (.ok t)
      else pure (.error .fieldNotPresent)) := rfl

/-- `additional_copy_info()` slices `… + ADDITIONAL_COPY_INFO_SIZE` -/
theorem tie_copy_info_slice (buf : Bytes) :
    additionalCopyInfo buf = (do
      let f ← flagsByte buf
      if aciFlag f then do
        let a ← trickEnd f
        match ← headerSlice buf a (a + Gen.pesCopyInfoSize) with
        | .error e => pure (.error e)
        | .ok s => do
          let b ← byteAt s 0
          if b &&& 0b1000_0000 == 0 then pure (.error .markerBitNotSet)
          else pure (.ok (b &&& 0b0111_1111))
      else pure (.error .fieldNotPresent)) := rfl

/-- `previous_pes_packet_crc()` slices `… + PREVIOUS_PES_PACKET_CRC_SIZE` -/
theorem tie_prev_crc_slice (buf : Bytes) :
    previousCrc buf = (do
      let f ← flagsByte buf
      if crcFlag f then do
        let a ← aciEnd f
        match ← headerSlice buf a (a + Gen.pesPrevCrcSize) with
        | .error e => pure (.error e)
        | .ok s => do let s0 ← byteAt s 0; let s1 ← byteAt s 1; pure (.ok ((s0 <<< 8) ||| s1))
      else pure (.error .fieldNotPresent)) := rfl

/-- `pts_dts_end` … `es_rate_end` with the regenerated sizes (the model's named constants
`FIXED`, `TIMESTAMP_SIZE`, `ESCR_SIZE`, `ES_RATE_SIZE` are also tied by name in `Ts/Props/C14.lean`) -/
theorem tie_pes_offset_chain (f : Nat) :
    ptsDtsEnd f = (match ptsDtsFlags f with
      | 0 => .ok Gen.pesParsedFixed
      | 1 => .ok Gen.pesParsedFixed
      | 2 => .ok (Gen.pesParsedFixed + Gen.pesTimestampSize)
      | 3 => .ok (Gen.pesParsedFixed + Gen.pesTimestampSize * 2)
      | _ => .panic "unexpected value") ∧
    escrEnd f = (ptsDtsEnd f >>= fun e => pure (e + if escrFlag f then Gen.pesEscrSize else 0)) ∧
    esRateEnd f = (escrEnd f >>= fun e => pure (e + if esRateFlag f then Gen.pesEsRateSize else 0)) :=
  ⟨rfl, rfl, rfl⟩

/-- `PesHeader::from_bytes` / `contents` use `PesHeader::FIXED_HEADER_SIZE` -/
theorem tie_pes_header_size (buf : Bytes) :
    headerFromBytes buf = (do
      if buf.length < Gen.pesFixedHeaderSize then pure none
      else do
        let b0 ← byteAt buf 0; let b1 ← byteAt buf 1; let b2 ← byteAt buf 2
        let pfx := (b0 <<< 16) ||| (b1 <<< 8) ||| b2
        if pfx != 1 then pure none else pure (some buf)) ∧
    contents buf = (do
      let rest ← sliceFrom buf Gen.pesFixedHeaderSize
      let sid ← streamId buf
      if isParsed sid then do
        let c ← parsedFromBytes rest
        pure (.parsed c)
      else pure (.payload rest)) := ⟨rfl, rfl⟩

/-- the harness application's call of `EsRate::bytes_per_second` (`App.touchParsed`): the checked
`u32` product uses `RATE_BYTES_PER_SECOND` -/
theorem tie_touch_bytes_per_second (c : Bytes) :
    App.touchParsed c = (do
      let _ ← Pes.pesPriority c; let _ ← Pes.dataAlignment c; let _ ← Pes.copyrightUndefined c; let _ ← Pes.original c
      let _ ← Pes.ptsDts c
      match ← Pes.escr c with
      | .ok cr => do let _ ← Time.crefTo27MHz cr; pure ()
      | .error _ => pure ()
      match ← Pes.esRate c with
      | .ok v => assertR (v * Gen.esRateBytesPerSecond < 2^32) "attempt to multiply with overflow"
      | .error _ => pure ()
      let _ ← Pes.dsmTrickMode c; let _ ← Pes.additionalCopyInfo c; let _ ← Pes.previousCrc c
      let _ ← Pes.pesExtension c; let _ ← Pes.payloadOffset c
      pure ()) := rfl

end Ts.Props.Ties
