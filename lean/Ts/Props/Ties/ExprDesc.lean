import Ts.Refl.Tie
import Ts.Gen.Exprs
import Ts.Model.Tables
/-!
# Expression ties — typed descriptors (audited with C17)

See `Ts/Props/Ties/ExprTime.lean` for the method.  `Ts.Gen.Expr.maxbr_*`, `avc_*` are translated from
`/repo/src/descriptor/max_bitrate.rs`, `descriptor/avcvideo.rs` on every run.
-/
namespace Ts.Props.Ties.Expr
open Ts Ts.Refl Ts.Gen.Expr Ts.Tables

def mMaxBitrate (e : Env) : Nat := ((e 0 &&& 0b0011_1111) <<< 16) ||| (e 1 <<< 8) ||| e 2
theorem tie_expr_maxbr_rate : ∀ l : List Nat, l.length ≤ 3 → (∀ x ∈ l, x < 256) →
    maxbr_rate (envL l) = mMaxBitrate (envL l) := by tie_linear 3
theorem tie_model_max_bitrate (p : Bytes) : Tables.maxBitrateFields p = (do
    let b0 ← byteAt p 0; let b1 ← byteAt p 1; let b2 ← byteAt p 2
    let r := mMaxBitrate (envL [b0, b1, b2])
    assertR (r * 50 < 2^32) "attempt to multiply with overflow"
    assertR (r * 50 * 8 < 2^32) "attempt to multiply with overflow"
    pure (r, r * 50 * 8)) := rfl

def mAvcCs0 (e : Env) : Bool := e 1 &&& 0b1000_0000 != 0
def mAvcCs1 (e : Env) : Bool := e 1 &&& 0b0100_0000 != 0
def mAvcCs2 (e : Env) : Bool := e 1 &&& 0b0010_0000 != 0
def mAvcCs3 (e : Env) : Bool := e 1 &&& 0b0001_0000 != 0
def mAvcCs4 (e : Env) : Bool := e 1 &&& 0b0000_1000 != 0
def mAvcCs5 (e : Env) : Bool := e 1 &&& 0b0000_0100 != 0
def mAvcCompat (e : Env) : Nat := e 1 &&& 0b0000_0011
def mAvcStill (e : Env) : Bool := e 3 &&& 0b1000_0000 != 0
def mAvc24h (e : Env) : Bool := e 3 &&& 0b0100_0000 != 0
def mAvcFpSei (e : Env) : Bool := e 3 &&& 0b0010_0000 != 0

theorem tie_expr_avc_byte1 : ∀ x : Fin 256,
    avc_cs0 (envL [0xff, x.val, 0xff, 0xff]) = mAvcCs0 (envL [0, x.val])
    ∧ avc_cs1 (envL [0xff, x.val, 0xff, 0xff]) = mAvcCs1 (envL [0, x.val])
    ∧ avc_cs2 (envL [0xff, x.val, 0xff, 0xff]) = mAvcCs2 (envL [0, x.val])
    ∧ avc_cs3 (envL [0xff, x.val, 0xff, 0xff]) = mAvcCs3 (envL [0, x.val])
    ∧ avc_cs4 (envL [0xff, x.val, 0xff, 0xff]) = mAvcCs4 (envL [0, x.val])
    ∧ avc_cs5 (envL [0xff, x.val, 0xff, 0xff]) = mAvcCs5 (envL [0, x.val])
    ∧ avc_compat (envL [0xff, x.val, 0xff, 0xff]) = mAvcCompat (envL [0, x.val]) := by decide +kernel
theorem tie_expr_avc_byte3 : ∀ x : Fin 256,
    avc_still (envL [0xff, 0xff, 0xff, x.val]) = mAvcStill (envL [0, 0, 0, x.val])
    ∧ avc_24h (envL [0xff, 0xff, 0xff, x.val]) = mAvc24h (envL [0, 0, 0, x.val])
    ∧ avc_fpsei (envL [0xff, 0xff, 0xff, x.val]) = mAvcFpSei (envL [0, 0, 0, x.val]) := by decide +kernel

theorem tie_model_avc (p : Bytes) : Tables.avcFields p = (do
    let b0 ← byteAt p 0; let b1 ← byteAt p 1; let b2 ← byteAt p 2; let b3 ← byteAt p 3
    pure { profileIdc := b0,
           cs0 := mAvcCs0 (envL [0, b1]), cs1 := mAvcCs1 (envL [0, b1]), cs2 := mAvcCs2 (envL [0, b1]),
           cs3 := mAvcCs3 (envL [0, b1]), cs4 := mAvcCs4 (envL [0, b1]), cs5 := mAvcCs5 (envL [0, b1]),
           compat := mAvcCompat (envL [0, b1]), levelIdc := b2,
           still := mAvcStill (envL [0, 0, 0, b3]), h24 := mAvc24h (envL [0, 0, 0, b3]),
           fpSei := mAvcFpSei (envL [0, 0, 0, b3]) }) := rfl

end Ts.Props.Ties.Expr
