import Ts.Props.Ties.StmtTables
import Ts.Props.Ties.StmtPmt
import Ts.Lemmas.C05
/-!
# Statement-level tie — the PMT table processor (audited with C05 and C10)

`Ts.Gen.TablesGen.PmtProcessor` is `PmtProcessor::{new, section, new_table, remove_outdated}` of
`/repo/src/demultiplex.rs` as they read NOW (tools/gen_tables.py); its `for stream_info in
sect.streams()` loop runs the TRANSLATED stream iterator (`PmtGen.StreamInfoIter.next`), and the
`ByStream` request it builds carries VIEWS (the PMT section and the stream entry).  The harness
application reads what it prints out of those views (`reqOfRaw`: PCR PID, program descriptors, the
entry's PID and descriptors) — the model stores them parsed in `Req.stream`.
`tie_stmt_pmt_section` proves that, with that application plugged in, the translated processor IS
the model's `App.pmtSection` for every context, registered set, queue, header and section data.
-/
set_option linter.unusedSimpArgs false
namespace Ts.Props.Ties.StmtTables
open Ts Ts.Stmt Ts.StmtVec Ts.Demux Ts.App Ts.Gen Ts.Gen.TablesGen Ts.Props.Ties.StmtPsi Ts.Props.Ties.StmtIters
open Ts.Props.Ties.StmtPmt Ts.Lemmas.C16 Ts.Spec Ts.Spec.TableSpec Ts.Tables

attribute [local irreducible] App.outdated

/-- what the harness application makes of a raw `ByStream` request -/
def reqOfRaw : RawReq → R Req
  | .byStream pp st sect info => do
    let pcr ← Tables.pmtPcrPid sect.bytes
    let pd ← Tables.pmtDescriptorBytes sect.bytes
    pure (.stream pp st (streamAt info.bytes).pid pcr (streamAt info.bytes).descBytes pd)

def appConstructRaw (c : Ctx) (r : RawReq) : R (Handler × Ctx) := reqOfRaw r >>= fun q => R.ok (App.construct c q)

/-- the translated loop body with the application plugged in -/
def pmtBody (sect : Slice) (stream_info : Slice)
    (st : PmtProcessor × Ctx × List (Change Handler) × List Nat) :
    R (PmtProcessor × Ctx × List (Change Handler) × List Nat) := do
  let (self, ctx, q, pids_seen) := st
  let t1 ← Stmt.streamType stream_info
  let (pes_packet_consumer, ctx) ← appConstructRaw ctx (Stmt.RawReq.byStream self.pid t1 sect stream_info)
  let t2 ← Stmt.elementaryPid stream_info
  let q := q ++ [Change.insert t2 pes_packet_consumer]
  let t3 ← Stmt.elementaryPid stream_info
  let pids_seen := pids_seen ++ [t3]
  let t4 ← Stmt.elementaryPid stream_info
  let self := { self with filters_registered := self.filters_registered ++ [t4] }
  pure (self, ctx, q, pids_seen)

/-- the step of the model's fold in `App.pmtSection` -/
def pmtStep (pmtPid pcr : Nat) (pd : Bytes) (acc : Ctx × List (Change Handler)) (s : StreamInfo) : Ctx × List (Change Handler) :=
  let (h, c') := construct acc.1 (Req.stream pmtPid s.streamType s.pid pcr s.descBytes pd)
  (c', acc.2 ++ [Change.insert s.pid h])

theorem streamType_ok (v : Slice) (h : streamFits v.bytes) : Stmt.streamType v = .ok (streamAt v.bytes).streamType := by
  unfold Stmt.streamType streamAt
  rw [byteAt_ok _ 0 (by have := h.1; omega), st_type]

theorem elementaryPid_ok (v : Slice) (h : streamFits v.bytes) : Stmt.elementaryPid v = .ok (streamAt v.bytes).pid := by
  unfold Stmt.elementaryPid streamAt
  rw [byteAt_ok _ 1 (by have := h.1; omega), byteAt_ok _ 2 (by have := h.1; omega)]
  simp only [R.ok_bind]
  rw [mask13 _ _ (byteD_lt _ 1) (byteD_lt _ 2), ← st_pid]
  have := readBits_lt v.bytes 11 13
  exact pidNew_ok _ (by omega)

theorem pmtBody_eq (pid pn : Nat) (reg : List Nat) (sect v : Slice) (c : Ctx) (q : List (Change Handler)) (seen : List Nat)
    (hv : streamFits v.bytes) (ha : specPmtAccept sect.bytes) :
    pmtBody sect v (⟨pid, pn, reg⟩, c, q, seen)
      = .ok (⟨pid, pn, reg ++ [(streamAt v.bytes).pid]⟩,
          (pmtStep pid (specPcrPid sect.bytes) (specProgramDescBytes sect.bytes) (c, q) (streamAt v.bytes).info).1,
          (pmtStep pid (specPcrPid sect.bytes) (specProgramDescBytes sect.bytes) (c, q) (streamAt v.bytes).info).2,
          seen ++ [(streamAt v.bytes).pid]) := by
  unfold pmtBody appConstructRaw reqOfRaw
  simp only [streamType_ok v hv, elementaryPid_ok v hv, R.ok_bind, R.pure_eq,
    pmtPcrPid_eq sect.bytes (by have := ha.1; omega), pmtDescriptorBytes_eq sect.bytes ha, R.bind_assoc]
  rfl

/-- every view the stream iterator yields is a complete entry -/
theorem iterate_fits (fuel : Nat) : ∀ (b : Bytes) (src : Option Nat) (l : List Slice),
    iterate PmtGen.StreamInfoIter.next fuel ⟨⟨b, src⟩⟩ = .ok l → ∀ v ∈ l, streamFits v.bytes := by
  induction fuel with
  | zero => intro b src l h; cases h; intro v hv; cases hv
  | succ n ih =>
    intro b src l h
    unfold iterate at h
    rw [stream_next] at h
    by_cases he : b.isEmpty = true
    · simp only [he, if_true, R.ok_bind] at h; cases h; intro v hv; cases hv
    · simp only [he, Bool.false_eq_true, if_false] at h
      by_cases hf : streamFits b
      · simp only [hf, if_true, R.ok_bind] at h
        cases hi : iterate PmtGen.StreamInfoIter.next n ⟨⟨List.drop (5 + esInfoLength b) b, Option.map (· + (5 + esInfoLength b)) src⟩⟩ with
        | panic m => rw [hi] at h; cases h
        | ok rest =>
          rw [hi] at h
          simp only [R.ok_bind] at h
          cases h
          intro v hv
          rcases List.mem_cons.mp hv with rfl | hv
          · exact hf
          · exact ih _ _ rest hi v hv
      · simp only [hf, if_false, R.ok_bind] at h; cases h; intro v hv; cases hv

/-- ANY loop body that, on a complete entry, does what `pmtBody` does (whatever the order of its
statements), run over the yielded views, is the model's fold over their parsed records -/
theorem pmt_loop (pid pn : Nat) (sect : Slice)
    (f : Slice → PmtProcessor × Ctx × List (Change Handler) × List Nat → R (PmtProcessor × Ctx × List (Change Handler) × List Nat))
    (hf : ∀ (v : Slice) (reg : List Nat) (c : Ctx) (q : List (Change Handler)) (seen : List Nat), streamFits v.bytes →
      f v (⟨pid, pn, reg⟩, c, q, seen)
        = .ok (⟨pid, pn, reg ++ [(streamAt v.bytes).pid]⟩,
            (pmtStep pid (specPcrPid sect.bytes) (specProgramDescBytes sect.bytes) (c, q) (streamAt v.bytes).info).1,
            (pmtStep pid (specPcrPid sect.bytes) (specProgramDescBytes sect.bytes) (c, q) (streamAt v.bytes).info).2,
            seen ++ [(streamAt v.bytes).pid]))
    (views : List Slice) :
    (∀ v ∈ views, streamFits v.bytes) → ∀ (reg : List Nat) (c : Ctx) (q : List (Change Handler)) (seen : List Nat),
    forEach views ((⟨pid, pn, reg⟩ : PmtProcessor), c, q, seen) f
      = .ok (⟨pid, pn, reg ++ views.map fun v => (streamAt v.bytes).pid⟩,
          ((views.map fun v => (streamAt v.bytes).info).foldl (pmtStep pid (specPcrPid sect.bytes) (specProgramDescBytes sect.bytes)) (c, q)).1,
          ((views.map fun v => (streamAt v.bytes).info).foldl (pmtStep pid (specPcrPid sect.bytes) (specProgramDescBytes sect.bytes)) (c, q)).2,
          seen ++ views.map fun v => (streamAt v.bytes).pid) := by
  induction views with
  | nil => intro _ reg c q seen; simp [forEach]
  | cons v vs ih =>
    intro hall reg c q seen
    unfold forEach
    rw [hf v reg c q seen (hall v (List.mem_cons_self ..))]
    simp only []
    rw [ih (fun w hw => hall w (List.mem_cons_of_mem _ hw))]
    simp [List.append_assoc]

/-- the step of the fold started with a queue is the step started with `[]`, the queue prepended -/
theorem pmt_fold_queue (pid pcr : Nat) (pd : Bytes) (l : List StreamInfo) : ∀ (c : Ctx) (q : List (Change Handler)),
    l.foldl (pmtStep pid pcr pd) (c, q)
      = ((l.foldl (pmtStep pid pcr pd) (c, [])).1, q ++ (l.foldl (pmtStep pid pcr pd) (c, [])).2) := by
  induction l with
  | nil => intro c q; simp
  | cons e es ih =>
    intro c q
    simp only [List.foldl_cons]
    have h1 : pmtStep pid pcr pd (c, q) e = ((pmtStep pid pcr pd (c, []) e).1, q ++ (pmtStep pid pcr pd (c, []) e).2) := by
      simp [pmtStep]
    rw [h1, ih _ (q ++ _), ih (pmtStep pid pcr pd (c, []) e).1 (pmtStep pid pcr pd (c, []) e).2]
    simp [List.append_assoc]

/-- `PmtProcessor::remove_outdated` -/
theorem tie_stmt_pmt_remove_outdated (pid pn : Nat) (reg seen : List Nat) (q : List (Change Handler)) :
    PmtProcessor.remove_outdated (H := Handler) ⟨pid, pn, reg⟩ q seen
      = ((outdated reg seen).mapM remItem >>= fun rem => R.ok ((⟨pid, pn, seen⟩ : PmtProcessor), q ++ rem)) := by
  unfold PmtProcessor.remove_outdated
  show (forEach (outdated reg seen) q remBody >>= fun q' => R.ok ((⟨pid, pn, seen⟩ : PmtProcessor), q')) = _
  rw [remove_loop]
  cases List.mapM remItem (outdated reg seen) <;> rfl

/-- the stream iterator of an accepted section, run to exhaustion: the views it yields, read through
`streamAt`, are the model's stream list -/
theorem pmt_views (sect : Slice) (ha : specPmtAccept sect.bytes) :
    ∃ (it : PmtGen.Self) (views : List Slice), PmtGen.PmtSection.streams sect = .ok it ∧
      iterate PmtGen.StreamInfoIter.next (it.buf.len + 1) it = .ok views ∧
      (views.map fun v => (streamAt v.bytes).info) = (specStreams (specStreamBytes sect.bytes)).1.map StreamEnc.info ∧
      ∀ v ∈ views, streamFits v.bytes := by
  rcases sect with ⟨b, src⟩
  have hm := tie_stmt_pmt_streams b src
  rw [pmtStreams_eq b ha] at hm
  cases hs : PmtGen.PmtSection.streams ⟨b, src⟩ with
  | panic m => rw [hs] at hm; cases hm
  | ok it =>
    rw [hs] at hm
    simp only [R.ok_bind] at hm
    cases hi : iterate PmtGen.StreamInfoIter.next (it.buf.bytes.length + 1) it with
    | panic m => rw [hi] at hm; cases hm
    | ok views =>
      rw [hi] at hm
      simp only [rmap_ok] at hm
      refine ⟨it, views, rfl, hi, R.ok.inj hm, ?_⟩
      rcases it with ⟨⟨ib, isrc⟩⟩
      exact iterate_fits _ ib isrc views hi

/-- `PmtProcessor::new_table`, closed form on an accepted section -/
theorem tie_stmt_pmt_new_table (pid pn : Nat) (reg : List Nat) (c : Ctx) (q : List (Change Handler)) (h : Psi.Header)
    (sect : Slice) (ha : specPmtAccept sect.bytes) :
    PmtProcessor.new_table appConstructRaw ⟨pid, pn, reg⟩ c q h sect
      = (if (2 != h.tableId) = true then R.ok ((⟨pid, pn, reg⟩ : PmtProcessor), c, q)
         else
           let ss := (specStreams (specStreamBytes sect.bytes)).1.map StreamEnc.info
           let r := ss.foldl (pmtStep pid (specPcrPid sect.bytes) (specProgramDescBytes sect.bytes)) (c, [])
           (outdated (reg ++ ss.map StreamInfo.pid) (ss.map StreamInfo.pid)).mapM remItem >>= fun rem =>
             R.ok ((⟨pid, pn, ss.map StreamInfo.pid⟩ : PmtProcessor), r.1, q ++ r.2 ++ rem)) := by
  unfold PmtProcessor.new_table
  by_cases ht : (2 != h.tableId) = true
  · simp only [ht, if_true, R.pure_eq]
  · simp only [ht, Bool.false_eq_true, if_false]
    obtain ⟨it, views, hs, hi, hmap, hfit⟩ := pmt_views sect ha
    rw [hs]
    simp only [R.ok_bind]
    rw [forIter_of_iterate _ _ _ _ _ _ hi]
    rw [pmt_loop pid pn sect _ (by
      -- the translated loop body, with the application plugged in, on a complete entry: every bind is a
      -- checked read that succeeds, so the order of the statements does not matter
      intro v reg' c' q' seen' hv
      simp only [streamType_ok v hv, elementaryPid_ok v hv, R.ok_bind, R.pure_eq, appConstructRaw, reqOfRaw,
        pmtPcrPid_eq sect.bytes (by have := ha.1; omega), pmtDescriptorBytes_eq sect.bytes ha, R.bind_assoc]
      rfl) views hfit]
    simp only [R.ok_bind, List.nil_append]
    have hp : (views.map fun v => (streamAt v.bytes).pid) = ((specStreams (specStreamBytes sect.bytes)).1.map StreamEnc.info).map StreamInfo.pid := by
      rw [← hmap, List.map_map]; rfl
    rw [tie_stmt_pmt_remove_outdated, hmap, hp, pmt_fold_queue]
    simp only [R.bind_assoc, R.ok_bind]
    try rfl

/-- TIE: `PmtProcessor::section` with the harness application plugged in IS the model's
`App.pmtSection`, the model's changes appended to whatever was already queued -/
theorem tie_stmt_pmt_section (c : Ctx) (pid pn : Nat) (reg : List Nat) (q : List (Change Handler)) (h : Psi.Header)
    (d : Slice) (hh : h.tableId = byteD d.bytes 0) :
    PmtProcessor.«section» appConstructRaw ⟨pid, pn, reg⟩ c q h d
      = rmap (fun r => ((⟨pid, pn, r.2.1⟩ : PmtProcessor), r.1, q ++ r.2.2)) (App.pmtSection c pid reg d.bytes) := by
  unfold PmtProcessor.«section» App.pmtSection
  simp only [Slice.len]
  by_cases h4 : 4 ≤ d.bytes.length
  · simp only [subR_ok _ _ h4, R.ok_bind, Slice.sub, R.bind_assoc, R.pure_eq]
    cases hb : sliceR d.bytes 8 (d.bytes.length - 4) with
    | panic m => rfl
    | ok body =>
      simp only [R.ok_bind, tie_stmt_pmt_from_bytes, pmtFromBytes_eq, rmap_ok]
      by_cases ha : specPmtAccept body
      · simp only [ha, if_true, Option.map, byteAt_ok d.bytes 0 (by omega), R.ok_bind]
        rw [tie_stmt_pmt_new_table pid pn reg c q h _ ha, hh]
        by_cases ht : (byteD d.bytes 0 != 2) = true
        · have ht' : (2 != byteD d.bytes 0) = true := by
            simp only [bne_iff_ne, ne_eq] at ht ⊢; omega
          simp only [ht, ht', if_true, R.pure_eq, rmap_ok, List.append_nil]
        · have ht' : ¬ (2 != byteD d.bytes 0) = true := by
            simp only [bne_iff_ne, ne_eq, Decidable.not_not] at ht ⊢; omega
          have hto := Ts.Lemmas.C05.touchPmt_ok body ha
          simp only [ht, ht', Bool.false_eq_true, if_false, pmtStreams_eq body ha,
            pmtPcrPid_eq body (by have := ha.1; omega), pmtDescriptorBytes_eq body ha, R.ok_bind]
          cases hc : c.cfg.touch <;>
            simp only [Bool.false_eq_true, if_false, if_true, hto, R.ok_bind, rmap_bind, R.pure_eq]
          all_goals
            show (List.mapM remItem _ >>= _) = (List.mapM remItem _ >>= _)
            cases List.mapM remItem (outdated (reg ++ List.map StreamInfo.pid (List.map StreamEnc.info (specStreams (specStreamBytes body)).1))
                (List.map StreamInfo.pid (List.map StreamEnc.info (specStreams (specStreamBytes body)).1))) with
            | panic m => rfl
            | ok rem =>
              simp only [R.ok_bind, rmap_ok, List.append_assoc]
              rfl
      · simp only [ha, if_false, Option.map, R.pure_eq, rmap_ok, List.append_nil]
  · have : subR d.bytes.length 4 = .panic "attempt to subtract with overflow" := by
      unfold subR; simp [h4]
    simp only [this, R.panic_bind, rmap_panic]

end Ts.Props.Ties.StmtTables
