import Ts.Gen.FiltersGen
import Ts.Lemmas.Demux
/-!
# Statement-level tie — the PID table and the changeset (audited with C06, C07, C18)

`Ts.Gen.FiltersGen` is `Filters::{default, contains, get, insert, remove}`, `FilterChange::apply`
and `FilterChangeset::{default, insert, remove, apply, is_empty}` of `/repo/src/demultiplex.rs` as
they read NOW, translated statement by statement by `tools/gen_filters.py` (checked indexing, the
`isize` difference and the `for _ in 0..=diff` growth loop of `insert`, the `drain(..)` loop of
`apply`).  The theorems below prove, for EVERY table, EVERY PID (no 13-bit bound is needed) and EVERY
queue of changes, that the translated functions never panic and compute exactly the model's
`Tab.contains / get / insert / remove`, `applyChange`, `applyChanges` (`Ts/Model/Demux.lean`) — the
functions every C06 / C07 / C18 theorem is stated over.
-/
set_option linter.unusedSimpArgs false
namespace Ts.Props.Ties.StmtFilters
open Ts Ts.Demux Ts.StmtVec Ts.Gen.FiltersGen

variable {H : Type}

theorem vecGet_ok {α : Type} (v : List α) (i : Nat) (h : i < v.length) : vecGet v i = .ok v[i] := by
  unfold vecGet; simp [List.getElem?_eq_getElem h]

theorem vecSet_ok {α : Type} (v : List α) (i : Nat) (x : α) (h : i < v.length) : vecSet v i x = .ok (v.set i x) := by
  unfold vecSet; simp [h]

/-- the growth loop of `insert`: `n` iterations push `n` empty slots -/
theorem forN_push (n : Nat) (t : List (Option H)) :
    forN n (⟨t⟩ : Filters H) (fun self => R.ok { filters_by_pid := self.filters_by_pid ++ [none] })
      = .ok ⟨t ++ List.replicate n none⟩ := by
  induction n generalizing t with
  | zero => simp [forN]
  | succ n ih =>
    unfold forN
    simp only []
    rw [ih (t ++ [none])]
    simp [List.replicate_succ, List.append_assoc]

/-- `Filters::contains` -/
theorem tie_stmt_contains (t : Tab H) (pid : Nat) : Filters.contains ⟨t⟩ pid = .ok (Tab.contains t pid) := by
  unfold Filters.contains Tab.contains
  by_cases h : pid < t.length
  · simp only [h, decide_true, if_true, vecGet_ok t pid h, R.ok_bind, R.pure_eq, Bool.true_and]
    rw [List.getElem?_eq_getElem h]
    cases t[pid] <;> rfl
  · simp only [h, decide_false, Bool.false_eq_true, if_false, R.ok_bind, R.pure_eq, Bool.false_and]

/-- `Filters::get` (the table itself is unchanged) -/
theorem tie_stmt_get (t : Tab H) (pid : Nat) : Filters.get ⟨t⟩ pid = .ok (⟨t⟩, Tab.get t pid) := by
  unfold Filters.get Tab.get
  -- whichever way round the source writes the bounds test
  by_cases h : pid ≥ t.length
  · have h' : ¬ pid < t.length := by omega
    simp only [h, h', decide_true, decide_false, Bool.false_eq_true, if_true, if_false, R.ok_bind, R.pure_eq]
  · have h' : pid < t.length := by omega
    simp only [h, h', decide_true, decide_false, Bool.false_eq_true, if_true, if_false, vecGet_ok t pid h', R.ok_bind, R.pure_eq]
    rw [List.getElem?_eq_getElem h']

/-- `Filters::insert`: grows the table up to and including `pid`, then stores; never panics -/
theorem tie_stmt_insert (t : Tab H) (pid : Nat) (h : H) : Filters.insert ⟨t⟩ pid h = .ok ⟨Tab.insert t pid h⟩ := by
  unfold Filters.insert Tab.insert
  simp only [Int.ofNat_eq_natCast]
  by_cases hg : pid ≥ t.length
  · have hd : ((pid : Int) - (t.length : Int) ≥ (0 : Int)) := by omega
    have hn : ((pid : Int) - (t.length : Int) - 0 + 1).toNat = pid - t.length + 1 := by omega
    simp only [hd, decide_true, if_true, hn, forN_push, R.ok_bind, R.pure_eq, hg]
    have hl : pid < (t ++ List.replicate (pid - t.length + 1) (none : Option H)).length := by
      simp; omega
    simp only [vecSet_ok _ pid _ hl, R.ok_bind]
  · have hd : ¬ ((pid : Int) - (t.length : Int) ≥ (0 : Int)) := by omega
    have hl : pid < t.length := by omega
    simp only [hd, decide_false, Bool.false_eq_true, if_false, R.ok_bind, R.pure_eq, hg, vecSet_ok t pid _ hl]

/-- `Filters::remove`: a PID beyond the table is left alone; never panics -/
theorem tie_stmt_remove (t : Tab H) (pid : Nat) : Filters.remove ⟨t⟩ pid = .ok ⟨Tab.remove t pid⟩ := by
  unfold Filters.remove Tab.remove
  by_cases hl : pid < t.length
  · have hl' : ¬ pid ≥ t.length := by omega
    simp only [hl, hl', decide_true, decide_false, Bool.false_eq_true, if_true, if_false, vecSet_ok t pid _ hl, R.ok_bind, R.pure_eq]
  · have hl' : pid ≥ t.length := by omega
    simp only [hl, hl', decide_true, decide_false, Bool.false_eq_true, if_true, if_false, R.ok_bind, R.pure_eq]

/-- a queued change in the model's vocabulary -/
def chOf : FilterChange H → Change H
  | .Insert pid f => .insert pid f
  | .Remove pid => .remove pid

/-- `FilterChange::apply` -/
theorem tie_stmt_change_apply (c : FilterChange H) (t : Tab H) :
    FilterChange.apply c ⟨t⟩ = .ok ⟨applyChange t (chOf c)⟩ := by
  unfold FilterChange.apply
  cases c with
  | Insert pid f => simp only [tie_stmt_insert, R.ok_bind, R.pure_eq]; rfl
  | Remove pid => simp only [tie_stmt_remove, R.ok_bind, R.pure_eq]; rfl

theorem forEach_apply (cs : List (FilterChange H)) (t : Tab H) :
    forEach cs (⟨t⟩ : Filters H) (fun update filters => (do
        let filters ← FilterChange.apply update filters
        pure filters : R (Filters H)))
      = .ok ⟨applyChanges t (cs.map chOf)⟩ := by
  induction cs generalizing t with
  | nil => rfl
  | cons c cs ih =>
    unfold forEach
    simp only [tie_stmt_change_apply, R.ok_bind, R.pure_eq]
    rw [ih]
    rfl

/-- `FilterChangeset::apply`: every queued change is applied, oldest first, and the queue is left empty -/
theorem tie_stmt_changeset_apply (cs : List (FilterChange H)) (t : Tab H) :
    FilterChangeset.apply ⟨cs⟩ ⟨t⟩ = .ok (⟨[]⟩, ⟨applyChanges t (cs.map chOf)⟩) := by
  unfold FilterChangeset.apply
  simp only [forEach_apply, R.ok_bind, R.pure_eq]

/-- `FilterChangeset::insert` / `remove`: appended at the end of the queue -/
theorem tie_stmt_changeset_insert (cs : List (FilterChange H)) (pid : Nat) (f : H) :
    FilterChangeset.insert ⟨cs⟩ pid f = .ok ⟨cs ++ [.Insert pid f]⟩ := rfl
theorem tie_stmt_changeset_remove (cs : List (FilterChange H)) (pid : Nat) :
    (FilterChangeset.remove ⟨cs⟩ pid : R (FilterChangeset H)) = .ok ⟨cs ++ [.Remove pid]⟩ := rfl
theorem tie_stmt_changeset_is_empty (cs : List (FilterChange H)) :
    FilterChangeset.is_empty (⟨cs⟩ : FilterChangeset H) = .ok cs.isEmpty := rfl

/-- `Filters::default` / `FilterChangeset::default` -/
theorem tie_stmt_defaults :
    (Filters.default : Filters H) = ⟨[]⟩ ∧ (FilterChangeset.default : FilterChangeset H) = ⟨[]⟩ := ⟨rfl, rfl⟩

/-- CODE-level reading of C18's "applied in the order queued, the last request for a PID wins":
whatever the table, applying a queue that ends with an insert for `pid` leaves that handler on `pid` -/
theorem code_last_insert_wins (cs : List (FilterChange H)) (t : Tab H) (pid : Nat) (f : H) :
    ∃ t', FilterChangeset.apply ⟨cs ++ [.Insert pid f]⟩ ⟨t⟩ = .ok (⟨[]⟩, ⟨t'⟩) ∧ Tab.get t' pid = some f := by
  refine ⟨_, tie_stmt_changeset_apply _ _, ?_⟩
  simp only [List.map_append, List.map_cons, List.map_nil, chOf, applyChanges_append]
  show Tab.get (applyChange _ (.insert pid f)) pid = some f
  exact Tab.get_insert_self _ pid f

/-- non-vacuity: removing an unregistered PID beyond the table, then inserting two handlers -/
example : FilterChangeset.apply ⟨[.Remove 5, .Insert 2 7, .Insert 2 9, .Insert 0 1]⟩ (⟨[]⟩ : Filters Nat)
    = .ok (⟨[]⟩, ⟨[some 1, none, some 9]⟩) := by
  rw [tie_stmt_changeset_apply]; rfl

end Ts.Props.Ties.StmtFilters
