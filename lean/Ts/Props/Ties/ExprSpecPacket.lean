import Ts.Props.Ties.ExprSpecCore
import Ts.Props.Ties.ExprPacket
import Ts.Lemmas.C16
import Ts.Lemmas.C17
/-!
# CODE = ISO: the translated expressions of `/repo/src` equal the bit fields of ISO/IEC 13818-1 — part `Packet` (audited with C12)

See `Ts/Props/Ties/ExprSpecCore.lean`. Each `code_*_is_iso` is `(code_model_*).trans (model_iso_*)`: the
model appears only in the two intermediate lemmas, never in the final statement.
-/
namespace Ts.Props.Ties.Expr
open Ts Ts.Refl Ts.Gen.Expr Ts.Spec

theorem code_model_pid (bs : Bytes) : pk_pid (envB bs) = mPid (envB bs) :=
  tie_on_bytes 3 tie_expr_pk_pid (by reads_below pk_pid) (by reads_below mPid) bs

/-- one-byte tie (`∀ x : Fin 256`), instantiated at byte 3 of `bs` -/
theorem code_model_cc (bs : Bytes) : pk_cc (envB bs) = mCc (envB bs) := by
  have l1 : pk_cc (envB bs) = pk_cc (envL [0xff, 0xff, 0xff, byteD bs 3, 0xff]) := by
    simp only [pk_cc, envB_byteD]; rfl
  have l2 : mCc (envL [0, 0, 0, byteD bs 3]) = mCc (envB bs) := by
    simp only [mCc, envB_byteD]; rfl
  rw [l1]
  exact (tie_expr_pk_cc ⟨byteD bs 3, byteD_lt bs 3⟩).trans l2

open Ts.Lemmas.C16 Ts.Lemmas.C17 in
theorem model_iso_pid (bs : Bytes) : mPid (envB bs) = readBits bs 11 13 := by
  simp only [mPid, envB_byteD]
  rw [mask13 _ _ (byteD_lt bs 1) (byteD_lt bs 2), st_pid]

theorem model_iso_cc (bs : Bytes) : mCc (envB bs) = readBits bs 28 4 := by
  simp only [mCc, envB_byteD]
  have r := readBits_sub bs 3 4 4 (by omega)
  rw [show 8 * 3 + 4 = 28 from rfl] at r
  rw [r, and_0f _ (byteD_lt bs 3)]
  simp

/-- transport packet header: `PID`, 13 bits at bit 11 -/
theorem code_pid_is_iso (bs : Bytes) (_h : 3 ≤ bs.length) : pk_pid (envB bs) = readBits bs 11 13 :=
  (code_model_pid bs).trans (model_iso_pid bs)

/-- transport packet header: `continuity_counter`, 4 bits at bit 28 -/
theorem code_cc_is_iso (bs : Bytes) (_h : 4 ≤ bs.length) : pk_cc (envB bs) = readBits bs 28 4 :=
  (code_model_cc bs).trans (model_iso_cc bs)

/-- PID 0x1234 & 0x1fff = 0x1234 in a packet header `47 52 34 1c` (surrounding bits all set) -/
example : pk_pid (envB [0x47, 0xf2, 0x34, 0x1c]) = 0x1234
    ∧ readBits [0x47, 0xf2, 0x34, 0x1c] 11 13 = 0x1234 := by decide

end Ts.Props.Ties.Expr
