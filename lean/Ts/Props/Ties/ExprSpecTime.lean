import Ts.Props.Ties.ExprSpecCore
import Ts.Props.Ties.ExprTime
import Ts.Lemmas.C15
/-!
# CODE = ISO: the translated expressions of `/repo/src` equal the bit fields of ISO/IEC 13818-1 — part `Time` (audited with C15)

See `Ts/Props/Ties/ExprSpecCore.lean`. Each `code_*_is_iso` is `(code_model_*).trans (model_iso_*)`: the
model appears only in the two intermediate lemmas, never in the final statement.
-/
namespace Ts.Props.Ties.Expr
open Ts Ts.Refl Ts.Gen.Expr Ts.Spec

theorem code_model_ts_val (bs : Bytes) : ts_val (envB bs) = mTsVal (envB bs) :=
  tie_on_bytes 5 tie_expr_ts_val (by reads_below ts_val) (by reads_below mTsVal) bs

theorem code_model_cref_base (bs : Bytes) : cref_base (envB bs) = mCrefBase (envB bs) :=
  tie_on_bytes 6 tie_expr_cref_base (by reads_below cref_base) (by reads_below mCrefBase) bs

theorem code_model_cref_ext (bs : Bytes) : cref_ext (envB bs) = mCrefExt (envB bs) :=
  tie_on_bytes 6 tie_expr_cref_ext (by reads_below cref_ext) (by reads_below mCrefExt) bs

open Ts.Lemmas.C15 in
theorem model_iso_ts_val (bs : Bytes) :
    mTsVal (envB bs) = readBits bs 4 3 * 2^30 + readBits bs 8 15 * 2^15 + readBits bs 24 15 := by
  simp only [mTsVal, envB_byteD]
  rw [tsVal_arith _ _ _ _ _ (byteD_lt bs 0) (byteD_lt bs 1) (byteD_lt bs 2) (byteD_lt bs 3) (byteD_lt bs 4),
    field_hi, field_mid, field_lo]
  omega

open Ts.Lemmas.C15 in
theorem model_iso_cref_base (bs : Bytes) : mCrefBase (envB bs) = readBits bs 0 33 := by
  simp only [mCrefBase, envB_byteD]
  rw [crefBase_arith _ _ _ _ _ (byteD_lt bs 0) (byteD_lt bs 1) (byteD_lt bs 2) (byteD_lt bs 3) (byteD_lt bs 4),
    field_pcrBase]

open Ts.Lemmas.C15 in
theorem model_iso_cref_ext (bs : Bytes) : mCrefExt (envB bs) = readBits bs 39 9 := by
  simp only [mCrefExt, envB_byteD]
  rw [crefExt_arith _ _ (byteD_lt bs 5), field_pcrExt]

/-- PTS / DTS: the three value fields `[32..30]`, `[29..15]`, `[14..0]` between the marker bits -/
theorem code_ts_val_is_iso (bs : Bytes) (_h : 5 ≤ bs.length) :
    ts_val (envB bs) = readBits bs 4 3 * 2^30 + readBits bs 8 15 * 2^15 + readBits bs 24 15 :=
  (code_model_ts_val bs).trans (model_iso_ts_val bs)

/-- PCR / OPCR: `program_clock_reference_base`, 33 bits at bit 0 -/
theorem code_cref_base_is_iso (bs : Bytes) (_h : 6 ≤ bs.length) : cref_base (envB bs) = readBits bs 0 33 :=
  (code_model_cref_base bs).trans (model_iso_cref_base bs)

/-- PCR / OPCR: `program_clock_reference_extension`, 9 bits at bit 39 -/
theorem code_cref_ext_is_iso (bs : Bytes) (_h : 6 ≤ bs.length) : cref_ext (envB bs) = readBits bs 39 9 :=
  (code_model_cref_ext bs).trans (model_iso_cref_ext bs)

/-- PTS `21 00 05 bf 21` = prefix 0010, value 0x15f90 = 90000 (one second of the 90 kHz clock) -/
example : ts_val (envB [0x21, 0x00, 0x05, 0xbf, 0x21]) = 90000
    ∧ readBits [0x21, 0x00, 0x05, 0xbf, 0x21] 4 3 * 2^30 + readBits [0x21, 0x00, 0x05, 0xbf, 0x21] 8 15 * 2^15
        + readBits [0x21, 0x00, 0x05, 0xbf, 0x21] 24 15 = 90000 := by decide

end Ts.Props.Ties.Expr
