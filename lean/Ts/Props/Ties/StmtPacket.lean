import Ts.Gen.PacketGen
import Ts.Props.Ties.StmtPsi
/-!
# Statement-level tie — the adaptation-field / payload split (audited with C12)

`Ts.Gen.PacketGen` is `Packet::{adaptation_field_length, content_offset, mk_payload, payload, mk_af,
adaptation_field}` of `/repo/src/packet.rs` as they read NOW, translated statement by statement by
`tools/gen_packet.py` (early `return`s, the `match offset.cmp(&len)`, checked indexing and slicing,
the module constants read from the source).  The theorems below prove, for EVERY byte string `p` (no
length hypothesis: a short buffer panics on both sides at the same operation), that the translated
functions compute exactly the model's `Packet.afLen / contentOffset / mkPayload / payloadRange /
mkAf / afRange` — the functions the C12 theorems `af_exact`, `payload_exact`, `split_sound` are
stated over — with the slices they return lying where the model's ranges say.
-/
set_option linter.unusedSimpArgs false
namespace Ts.Props.Ties.StmtPacket
open Ts Ts.Stmt Ts.Packet Ts.Gen Ts.Props.Ties.StmtPsi

/-- the packet view over the bytes `p` -/
def pk (p : Bytes) : PacketGen.Self := ⟨⟨p, some 0⟩⟩

/-- a range of the model as the slice the code returns -/
def sliceOfRange (p : Bytes) (r : Nat × Nat) : Slice := ⟨rangeBytes p r, some r.1⟩

theorem tie_stmt_adaptation_field_length (p : Bytes) :
    PacketGen.adaptation_field_length (pk p) = Packet.afLen p := by
  unfold PacketGen.adaptation_field_length Packet.afLen pk Slice.get
  simp only [R.pure_eq, bind_ok_eta]

theorem tie_stmt_content_offset (p : Bytes) : PacketGen.content_offset (pk p) = Packet.contentOffset p := by
  unfold PacketGen.content_offset Packet.contentOffset
  rw [tie_stmt_adaptation_field_length]
  show (byteAt p 3 >>= _) = (byteAt p 3 >>= _)
  cases byteAt p 3 with
  | panic m => rfl
  | ok b3 =>
    show (if _ then _ else _) = (if _ then _ else _)
    cases Packet.hasAf b3 <;>
      simp only [ADAPTATION_FIELD_OFFSET, FIXED_HEADER_SIZE, Bool.not_true, Bool.not_false, Bool.false_eq_true,
        if_true, if_false, R.pure_eq, bind_ok_eta] <;>
      try (first | rfl | (cases Packet.afLen p <;> rfl))

theorem tie_stmt_mk_payload (p : Bytes) :
    PacketGen.mk_payload (pk p) = rmap (Option.map (sliceOfRange p)) (Packet.mkPayload p) := by
  unfold PacketGen.mk_payload Packet.mkPayload
  rw [tie_stmt_content_offset]
  cases Packet.contentOffset p with
  | panic m => rfl
  | ok offset =>
    simp only [R.ok_bind, R.pure_eq, pk, Slice.len]
    rcases Nat.lt_trichotomy offset p.length with hlt | heq | hgt
    · have hc : compare offset p.length = .lt := Nat.compare_eq_lt.mpr hlt
      have h1 : (offset == p.length) = false := by simp; omega
      have h2 : ¬ offset > p.length := by omega
      have hle : offset ≤ p.length := by omega
      simp only [hc, h1, h2, Bool.false_eq_true, if_false, from_ok ⟨p, some 0⟩ offset hle, sliceFrom_ok p offset hle,
        R.ok_bind, rmap_ok, Option.map, sliceOfRange, rangeBytes, Nat.zero_add]
      rw [List.take_of_length_le (by simp)]
    · subst heq
      have hc : compare p.length p.length = .eq := Nat.compare_eq_eq.mpr rfl
      simp only [hc, BEq.rfl, if_true, rmap_ok, Option.map]
    · have hc : compare offset p.length = .gt := Nat.compare_eq_gt.mpr hgt
      have h1 : (offset == p.length) = false := by simp; omega
      simp only [hc, h1, hgt, Bool.false_eq_true, if_false, if_true, rmap_ok, Option.map]

theorem tie_stmt_payload (p : Bytes) :
    PacketGen.payload (pk p) = rmap (Option.map (sliceOfRange p)) (Packet.payloadRange p) := by
  unfold PacketGen.payload Packet.payloadRange
  rw [tie_stmt_mk_payload]
  show (byteAt p 3 >>= _) = rmap _ (byteAt p 3 >>= _)
  cases byteAt p 3 with
  | panic m => rfl
  | ok b3 =>
    simp only [R.ok_bind, R.pure_eq, bind_ok_eta]
    cases Packet.hasPayload b3 <;> simp [rmap_ok, Bool.not_true, Bool.not_false]

theorem tie_stmt_mk_af (p : Bytes) (len : Nat) :
    PacketGen.mk_af (pk p) len = rmap (sliceOfRange p) (Packet.mkAf p len) := by
  unfold PacketGen.mk_af Packet.mkAf pk Slice.sub Stmt.afNew
  simp only [ADAPTATION_FIELD_OFFSET, FIXED_HEADER_SIZE, R.bind_assoc, R.ok_bind, R.pure_eq, rmap_bind, rmap_ok, Option.map]
  cases h : sliceR p (4 + 1) (4 + 1 + len) with
  | panic m => rfl
  | ok s =>
    have h5 : sliceR p 5 (5 + len) = .ok s := h
    simp only [R.ok_bind]
    have hs : s = (p.drop 5).take len := by
      unfold sliceR at h5
      split at h5
      · cases h5
      · split at h5
        · cases h5
        · have := R.ok.inj h5
          rw [← this]; congr 1; omega
    cases hE : assertR (!s.isEmpty) "assert!(!buf.is_empty())" with
    | panic m => rfl
    | ok u =>
      simp only [R.ok_bind, rmap_ok, sliceOfRange, rangeBytes, hs, Nat.zero_add]

theorem tie_stmt_adaptation_field (p : Bytes) :
    PacketGen.adaptation_field (pk p) = rmap (Option.map (sliceOfRange p)) (Packet.afRange p) := by
  unfold PacketGen.adaptation_field Packet.afRange
  simp only [tie_stmt_adaptation_field_length, tie_stmt_mk_af]
  show (byteAt p 3 >>= _) = rmap _ (byteAt p 3 >>= _)
  cases byteAt p 3 with
  | panic m => rfl
  | ok b3 =>
    simp only [R.ok_bind, R.pure_eq]
    cases Packet.hasAf b3
    · simp [rmap_ok]
    · simp only [if_true]
      cases Packet.hasPayload b3
      · simp only [Bool.false_eq_true, if_false, SIZE, ADAPTATION_FIELD_OFFSET, FIXED_HEADER_SIZE]
        cases Packet.afLen p with
        | panic m => rfl
        | ok len =>
          simp only [R.ok_bind, subR_ok 188 5 (by decide)]
          by_cases hl : len = 183
          · subst hl
            simp only [bne_self_eq_false, Bool.false_eq_true, if_false, bind_rmap, rmap_bind, R.pure_eq, rmap_ok, Option.map]
          · have h1 : (len != 183) = true := by simp [hl]
            simp only [h1, if_true, R.pure_eq, rmap_ok, Option.map]
      · simp only [if_true]
        cases Packet.afLen p with
        | panic m => rfl
        | ok len =>
          simp only [R.ok_bind]
          -- all four combinations of the two tests, in whichever order the source makes them
          by_cases hg : len > 182 <;> by_cases h0 : len = 0
          · omega
          · have h1 : (len == 0) = false := by simp [h0]
            simp only [hg, h1, decide_true, if_true, Bool.false_eq_true, if_false, R.pure_eq, rmap_ok, Option.map]
          · subst h0
            simp only [hg, BEq.rfl, decide_false, if_true, Bool.false_eq_true, if_false, R.pure_eq, rmap_ok, Option.map]
          · have h1 : (len == 0) = false := by simp [h0]
            simp only [hg, h1, decide_false, Bool.false_eq_true, if_false, bind_rmap, rmap_bind, R.pure_eq, rmap_ok, Option.map]

/-- the payload the code returns IS the byte range C12 proves (`payload_exact`): composition of the
statement tie with the model theorem is immediate because both speak about `Packet.payloadRange` -/
theorem code_payload_bytes (p : Bytes) :
    rmap (Option.map Slice.bytes) (PacketGen.payload (pk p)) = Packet.payload p := by
  rw [tie_stmt_payload, rmap_rmap]
  unfold Packet.payload
  cases Packet.payloadRange p with
  | panic m => rfl
  | ok o => cases o <;> rfl

theorem code_af_bytes (p : Bytes) :
    rmap (Option.map Slice.bytes) (PacketGen.adaptation_field (pk p)) = Packet.af p := by
  rw [tie_stmt_adaptation_field, rmap_rmap]
  unfold Packet.af
  cases Packet.afRange p with
  | panic m => rfl
  | ok o => cases o <;> rfl

end Ts.Props.Ties.StmtPacket
