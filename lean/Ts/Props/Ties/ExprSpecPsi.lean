import Ts.Props.Ties.ExprSpecCore
import Ts.Props.Ties.ExprPsi
import Ts.Lemmas.C16
/-!
# CODE = ISO: the translated expressions of `/repo/src` equal the bit fields of ISO/IEC 13818-1 — part `Psi` (audited with C03)

See `Ts/Props/Ties/ExprSpecCore.lean`. Each `code_*_is_iso` is `(code_model_*).trans (model_iso_*)`: the
model appears only in the two intermediate lemmas, never in the final statement.
-/
namespace Ts.Props.Ties.Expr
open Ts Ts.Refl Ts.Gen.Expr Ts.Spec

theorem code_model_section_length (bs : Bytes) : sch_length (envB bs) = mSchLength (envB bs) :=
  tie_on_bytes 3 tie_expr_sch_length (by reads_below sch_length) (by reads_below mSchLength) bs

/-- one-byte tie (`∀ x : Fin 256`), instantiated at byte 2 of `bs` -/
theorem code_model_tsh_version (bs : Bytes) : tsh_version (envB bs) = mTshVersion (envB bs) := by
  have l1 : tsh_version (envB bs) = tsh_version (envL [0xff, 0xff, byteD bs 2, 0xff]) := by
    simp only [tsh_version, envB_byteD]; rfl
  have l2 : mTshVersion (envL [0, 0, byteD bs 2]) = mTshVersion (envB bs) := by
    simp only [mTshVersion, envB_byteD]; rfl
  rw [l1]
  exact (tie_expr_tsh_version ⟨byteD bs 2, byteD_lt bs 2⟩).trans l2

open Ts.Lemmas.C16 in
theorem model_iso_section_length (bs : Bytes) : mSchLength (envB bs) = readBits bs 12 12 := by
  simp only [mSchLength, envB_byteD]
  rw [mask12 _ _ (byteD_lt bs 1) (byteD_lt bs 2)]
  exact (field_4_12 bs 1).symm

theorem shr1_and_1f_fin : ∀ b : Fin 256, (b.val >>> 1) &&& 0b0001_1111 = b.val / 2 % 32 := by
  decide +kernel

theorem model_iso_tsh_version (bs : Bytes) : mTshVersion (envB bs) = readBits bs 18 5 := by
  simp only [mTshVersion, envB_byteD]
  have r := readBits_sub bs 2 2 5 (by omega)
  rw [show 8 * 2 + 2 = 18 from rfl] at r
  rw [r]
  exact shr1_and_1f_fin ⟨byteD bs 2, byteD_lt bs 2⟩

/-- section header: `section_length`, 12 bits at bit 12 -/
theorem code_section_length_is_iso (bs : Bytes) (_h : 3 ≤ bs.length) :
    sch_length (envB bs) = readBits bs 12 12 :=
  (code_model_section_length bs).trans (model_iso_section_length bs)

/-- table syntax header (the bytes after `section_length`): `version_number`, 5 bits at bit 18 -/
theorem code_tsh_version_is_iso (bs : Bytes) (_h : 3 ≤ bs.length) :
    tsh_version (envB bs) = readBits bs 18 5 :=
  (code_model_tsh_version bs).trans (model_iso_tsh_version bs)

/-- section header `02 b0 1d`: section_length 0x01d = 29, and the theorem instantiated -/
example : sch_length (envB [0x02, 0xb0, 0x1d]) = 29 ∧ readBits [0x02, 0xb0, 0x1d] 12 12 = 29 := by decide
example : sch_length (envB [0x02, 0xb0, 0x1d]) = readBits [0x02, 0xb0, 0x1d] 12 12 :=
  code_section_length_is_iso _ (by decide)

end Ts.Props.Ties.Expr
