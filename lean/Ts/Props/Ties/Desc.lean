import Ts.Model.Pes
import Ts.Model.Tables
import Ts.Model.App
import Ts.Model.Values
import Ts.Gen.Consts
/-!
# Ties between the model's literals and constants regenerated from `/repo/src` — part `Desc`

Audited with: C17 (so that a changed constant breaks the proof obligations of exactly the properties
it concerns). See `Ts/Props/Ties.lean` for the general explanation.
-/
namespace Ts.Props.Ties
open Ts Ts.Pes Ts.Tables Ts.Demux

/-- minimum payload sizes demanded by the typed descriptors' constructors (`descriptor_len(buf, tag, n)`) -/
theorem tie_typed_descriptor_min_len (p : Bytes) :
    typedNew 5 p = .ok (descriptorLen p Gen.registrationMinLen) ∧
    typedNew 14 p = .ok (descriptorLen p Gen.maxBitrateMinLen) ∧
    typedNew 40 p = .ok (descriptorLen p Gen.avcVideoMinLen) := ⟨rfl, rfl, rfl⟩

/-- `LanguageIterator::next` splits off `4` bytes per language item -/
theorem tie_language_item_size (fuel : Nat) (buf : Bytes) :
    languages (fuel + 1) buf =
      (if buf.isEmpty then .ok []
       else if buf.length < Gen.languageItemSize then .ok [.tooShort buf.length]
       else do
         let head := buf.take Gen.languageItemSize
         assertR (head.length == 4) "assert_eq!(buf.len(), 4)"
         let code ← sliceR head 0 3
         let at_ ← byteAt head 3
         let rest ← languages fuel (buf.drop Gen.languageItemSize)
         pure (.lang code at_ :: rest)) := rfl

/-- `MaximumBitrateDescriptor::maximum_bits_per_second` is `maximum_bitrate() * 50 * 8` with the
LITERAL 50 ("units of 50 bytes per second", `max_bitrate.rs:39`); restated with `EsRate`'s
`RATE_BYTES_PER_SECOND`, the only regenerated 50 -/
theorem tie_max_bitrate_unit (p : Bytes) :
    maxBitrateFields p = (do
      let b0 ← byteAt p 0; let b1 ← byteAt p 1; let b2 ← byteAt p 2
      let r := ((b0 &&& 0b0011_1111) <<< 16) ||| (b1 <<< 8) ||| b2
      assertR (r * Gen.esRateBytesPerSecond < 2^32) "attempt to multiply with overflow"
      assertR (r * Gen.esRateBytesPerSecond * 8 < 2^32) "attempt to multiply with overflow"
      pure (r, r * Gen.esRateBytesPerSecond * 8)) := rfl

/-- `RegistrationDescriptor`: the format identifier is the first `registrationMinLen` bytes
(`&self.buf[0..4]` / `&self.buf[4..]`, literals in `registration.rs`) -/
theorem tie_registration_split (p : Bytes) :
    regFields p = (do
      let f ← sliceR p 0 Gen.registrationMinLen
      let a ← sliceFrom p Gen.registrationMinLen
      pure (f, a)) := rfl

/-- `AudioType::from`: the four named values, everything else `Reserved(v)` with the value kept -/
theorem audio_type_exact (v : Nat) :
    audioTypeOf v = (if v = 0 then .undefined else if v = 1 then .cleanEffects
      else if v = 2 then .hearingImpaired else if v = 3 then .visualImpairedCommentary else .reserved v) := by
  match v with
  | 0 => rfl
  | 1 => rfl
  | 2 => rfl
  | 3 => rfl
  | n + 4 => simp [audioTypeOf]

/-- READING.  ISO/IEC 13818-1 (2007 and later) Table 2-60 calls `0x04..0x7F` "user private" and
`0x80..0xFF` "reserved"; the crate follows the first edition, where all of `0x04..0xFF` is reserved,
and names the variant `Reserved` for both ranges.  The raw value is carried by the variant, so no
information the standard defines is lost (C17: "expose exactly the bit fields the standard
defines"); the naming is recorded here, not counted as a defect. -/
theorem audio_type_keeps_value (v w : Nat) (hv : 4 ≤ v) (hw : 4 ≤ w) (h : audioTypeOf v = audioTypeOf w) :
    v = w := by
  rw [audio_type_exact, audio_type_exact] at h
  have hv' : ¬ v = 0 ∧ ¬ v = 1 ∧ ¬ v = 2 ∧ ¬ v = 3 := by omega
  have hw' : ¬ w = 0 ∧ ¬ w = 1 ∧ ¬ w = 2 ∧ ¬ w = 3 := by omega
  simp only [hv'.1, hv'.2.1, hv'.2.2.1, hv'.2.2.2, hw'.1, hw'.2.1, hw'.2.2.1, hw'.2.2.2, if_false] at h
  injection h

/-- `Language::code`: latin1 decoding is byte ↦ code point of the same number; three code points
below 256 for a three-byte code -/
theorem lang_code_points (code : Bytes) :
    (langCodePoints code).length = code.length ∧ ∀ n ∈ langCodePoints code, n < 256 := by
  refine ⟨by simp [langCodePoints], ?_⟩
  intro n hn
  simp only [langCodePoints, List.mem_map] at hn
  obtain ⟨b, _, rfl⟩ := hn
  exact UInt8.toNat_lt b

end Ts.Props.Ties
