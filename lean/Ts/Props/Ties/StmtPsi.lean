import Ts.Gen.PsiGen
import Ts.Lemmas.C03d
import Ts.Props.C04
/-!
# Statement-level tie — the section reassembly chain (audited with C03, C04, C10, C11)

`Ts.Gen.PsiGen` is the section chain of `/repo/src/psi/mod.rs` as it reads NOW
(`SectionPacketConsumer::consume`, the two `…SyntaxSectionProcessor`s, the de-duplication layer, the
two buffering layers, the CRC gate), translated statement by statement by `tools/gen_psi.py`: one
Lean function per Rust method, returning the struct's new fields and the calls it made on the layer
it wraps.  This module *composes* the translated layers the way `demultiplex.rs` and the harness
nest the types

* `table`      — `SectionPacketConsumer<SectionSyntaxSectionProcessor<Dedup…<BufferSectionSyntaxParser<…>>>>`
* `rawSection` — `SectionPacketConsumer<SectionSyntaxSectionProcessor<BufferSectionSyntaxParser<…>>>`
* `rawCompact` — `SectionPacketConsumer<CompactSyntaxSectionProcessor<BufferCompactSyntaxParser<…>>>`

(every call a layer makes is interpreted by the next layer's translated method, in order) and
proves, for EVERY state of every layer and EVERY payload (any bytes, any length, any
`payload_unit_start_indicator`), that the composed translation computes exactly what the
hand-written model `Ts.Psi.consume` computes — same new state, same deliveries with the same
zero-copy provenance, a panic exactly when (and where) the model panics.  `code_consume_*` lift that
to 188-byte packets; `tie_stmt_crc` does the same for the CRC gate (`Stmt.erase`: the assertion
message is not compared).
-/
set_option linter.unusedSimpArgs false
namespace Ts.Props.Ties.StmtPsi
open Ts Ts.Psi Ts.Stmt Ts.Gen.PsiGen Ts.Lemmas.C03

/-! ### vocabulary -/

/-- the buffering state of the generated code in the model's vocabulary, and back -/
def remOf : BufferSectionState → Option Nat
  | .Complete => none
  | .Buffering n => some n

def stateOf : Option Nat → BufferSectionState
  | none => .Complete
  | some n => .Buffering n

@[simp] theorem remOf_stateOf (r : Option Nat) : remOf (stateOf r) = r := by cases r <;> rfl
@[simp] theorem stateOf_remOf (s : BufferSectionState) : stateOf (remOf s) = s := by cases s <;> rfl

/-- a whole-section call as the model's delivery: the bytes and where they lie -/
def delivOf (d : Slice) : Delivery := ⟨d.bytes, d.src⟩

/-- map the value inside `R` -/
def rmap {α β : Type} (f : α → β) : R α → R β
  | .ok a => .ok (f a)
  | .panic s => .panic s

@[simp] theorem rmap_ok {α β} (f : α → β) (a : α) : rmap f (R.ok a) = R.ok (f a) := rfl
@[simp] theorem rmap_panic {α β} (f : α → β) (s : String) : rmap f (R.panic s : R α) = R.panic s := rfl
theorem R.bind_assoc {α β γ} (x : R α) (f : α → R β) (g : β → R γ) :
    (x >>= f) >>= g = x >>= fun a => f a >>= g := by cases x <;> rfl
theorem rmap_bind {α β γ} (x : R α) (g : α → R β) (f : β → γ) :
    rmap f (x >>= g) = x >>= fun a => rmap f (g a) := by cases x <;> rfl
theorem bind_rmap {α β γ} (x : R α) (f : α → β) (k : β → R γ) :
    rmap f x >>= k = x >>= fun a => k (f a) := by cases x <;> rfl
theorem rmap_rmap {α β γ} (x : R α) (f : α → β) (g : β → γ) : rmap g (rmap f x) = rmap (fun a => g (f a)) x := by
  cases x <;> rfl
theorem rmap_id {α} (x : R α) : rmap (fun a => a) x = x := by cases x <;> rfl
theorem bind_ok_eta {α} (x : R α) : (x >>= fun a => R.ok a) = x := by cases x <;> rfl

theorem upto_ok (s : Slice) (n : Nat) (h : n ≤ s.bytes.length) : s.upto n = .ok ⟨s.bytes.take n, s.src⟩ := by
  unfold Slice.upto; rw [sliceTo_ok _ _ h]; rfl
theorem from_ok (s : Slice) (n : Nat) (h : n ≤ s.bytes.length) :
    s.from n = .ok ⟨s.bytes.drop n, s.src.map (· + n)⟩ := by
  unfold Slice.from; rw [sliceFrom_ok _ _ h]; rfl
theorem subR_ok (a b : Nat) (h : b ≤ a) : subR a b = .ok (a - b) := by simp [subR, h]

/-- `if len > remaining { 0 } else { remaining - len }` is truncated subtraction, however it is spelled -/
theorem newRem1 (a n : Nat) : (if decide (a > n) = true then (R.ok 0 : R Nat) else subR n a) = R.ok (n - a) := by
  by_cases h : a > n
  · simp only [h, decide_true, if_true]; congr 1; omega
  · simp only [h, decide_false, Bool.false_eq_true, if_false]; exact subR_ok n a (by omega)
theorem newRem2 (a n : Nat) :
    (if decide (a > n) = true then (R.ok 0 : R Nat) else (subR n a >>= fun t => R.ok t)) = R.ok (n - a) := by
  by_cases h : a > n
  · simp only [h, decide_true, if_true]; congr 1; omega
  · simp only [h, decide_false, Bool.false_eq_true, if_false, subR_ok n a (by omega : a ≤ n), R.ok_bind]
theorem newRem3 (a n : Nat) : (if a > n then (R.ok 0 : R Nat) else subR n a) = R.ok (n - a) := by
  by_cases h : a > n
  · simp only [h, if_true]; congr 1; omega
  · simp only [h, if_false]; exact subR_ok n a (by omega)

/-- run a list of calls through the next layer, concatenating what that layer emits in turn -/
def foldCalls {σ C D : Type} (f : σ → C → R (σ × List D)) (s : σ) : List C → R (σ × List D)
  | [] => .ok (s, [])
  | c :: cs => f s c >>= fun r1 => foldCalls f r1.1 cs >>= fun r2 => .ok (r2.1, r1.2 ++ r2.2)

/-- a layer's result followed by the interpretation of its calls by the layer below -/
def thenCalls {σ τ C D : Type} (x : R (σ × List C)) (f : τ → C → R (τ × List D)) (t : τ) : R ((σ × τ) × List D) :=
  x >>= fun r => foldCalls f t r.2 >>= fun r2 => .ok ((r.1, r2.1), r2.2)

@[simp] theorem foldCalls_nil {σ C D : Type} (f : σ → C → R (σ × List D)) (s : σ) :
    foldCalls f s [] = .ok (s, []) := rfl
@[simp] theorem foldCalls_one {σ C D : Type} (f : σ → C → R (σ × List D)) (s : σ) (c : C) :
    foldCalls f s [c] = f s c := by
  show (f s c >>= fun r1 => R.ok (r1.1, r1.2 ++ [])) = f s c
  cases f s c with
  | ok r => simp
  | panic m => rfl
theorem foldCalls_two {σ C D : Type} (f : σ → C → R (σ × List D)) (s : σ) (c1 c2 : C) :
    foldCalls f s [c1, c2] = f s c1 >>= fun r1 => f r1.1 c2 >>= fun r2 => .ok (r2.1, r1.2 ++ r2.2) := by
  show (f s c1 >>= fun r1 => foldCalls f r1.1 [c2] >>= fun r2 => R.ok (r2.1, r1.2 ++ r2.2)) = _
  simp only [foldCalls_one]

/-! ### the buffering layers -/

def concB (s : St) : BufferSectionSyntaxParser.Self := ⟨s.buf, stateOf s.remaining⟩
def concBC (s : St) : BufferCompactSyntaxParser.Self := ⟨s.buf, stateOf s.remaining⟩

/-- interpretation of the calls made on `BufferSectionSyntaxParser`; its own calls (`section`) are the deliveries -/
def bufSStep (fz : Bool) (b : BufferSectionSyntaxParser.Self) :
    DedupSectionSyntaxPayloadParser.Call → R (BufferSectionSyntaxParser.Self × List Delivery)
  | .start_syntax_section h t d =>
    rmap (fun r => (r.1, r.2.map fun | .«section» _ _ x => delivOf x)) (BufferSectionSyntaxParser.start_syntax_section fz b h t d)
  | .continue_syntax_section d =>
    rmap (fun r => (r.1, r.2.map fun | .«section» _ _ x => delivOf x)) (BufferSectionSyntaxParser.continue_syntax_section fz b d)
  | .reset =>
    rmap (fun r => (r.1, r.2.map fun | .«section» _ _ x => delivOf x)) (BufferSectionSyntaxParser.reset fz b)

/-- the same layer directly under the section-syntax processor (no de-duplication) -/
def bufSStepRaw (fz : Bool) (b : BufferSectionSyntaxParser.Self) :
    SectionSyntaxSectionProcessor.Call → R (BufferSectionSyntaxParser.Self × List Delivery)
  | .start_syntax_section h t d => bufSStep fz b (.start_syntax_section h t d)
  | .continue_syntax_section d => bufSStep fz b (.continue_syntax_section d)
  | .reset => bufSStep fz b .reset

def bufCStep (fz : Bool) (b : BufferCompactSyntaxParser.Self) :
    CompactSyntaxSectionProcessor.Call → R (BufferCompactSyntaxParser.Self × List Delivery)
  | .start_compact_section h d =>
    rmap (fun r => (r.1, r.2.map fun | .«section» _ x => delivOf x)) (BufferCompactSyntaxParser.start_compact_section fz b h d)
  | .continue_compact_section d =>
    rmap (fun r => (r.1, r.2.map fun | .«section» _ x => delivOf x)) (BufferCompactSyntaxParser.continue_compact_section fz b d)
  | .reset =>
    rmap (fun r => (r.1, r.2.map fun | .«section» _ x => delivOf x)) (BufferCompactSyntaxParser.reset fz b)

/-- what the buffering layer changes of the model state -/
def setB (s0 s : St) : St := { s0 with buf := s.buf, remaining := s.remaining }

theorem bufS_start (fz : Bool) (s : St) (h : Header) (t d : Slice) (off : Nat) (hd : d.src = some off) :
    bufSStep fz (concB s) (.start_syntax_section h t d)
      = rmap (fun r => (concB r.1, r.2)) (Psi.bufStart s h d.bytes off) := by
  unfold bufSStep BufferSectionSyntaxParser.start_syntax_section Psi.bufStart
  simp only [Slice.len, COMMON]
  by_cases hc : h.sectionLength + 3 ≤ d.bytes.length
  · simp only [hc, decide_true, if_true, upto_ok _ _ hc, sliceTo_ok _ _ hc, R.ok_bind, R.pure_eq, rmap_ok]
    simp [concB, delivOf, hd, stateOf]
  · have h2 : d.bytes.length ≤ h.sectionLength + 3 := by omega
    simp only [hc, decide_false, if_false, Bool.false_eq_true, subR_ok _ _ h2, R.ok_bind, R.pure_eq, rmap_ok]
    simp [concB, stateOf]

theorem bufS_reset (fz : Bool) (s : St) :
    bufSStep fz (concB s) .reset = .ok (concB (bufReset s), []) := by
  simp [bufSStep, BufferSectionSyntaxParser.reset, concB, bufReset, stateOf]

theorem bufS_continue (fz : Bool) (cfg : Cfg) (hs : cfg.sectionSyntax = true) (s : St) (d : Slice) :
    bufSStep fz (concB s) (.continue_syntax_section d)
      = rmap (fun r => (concB r.1, r.2)) (Psi.bufContinue cfg s d.bytes) := by
  unfold bufSStep BufferSectionSyntaxParser.continue_syntax_section Psi.bufContinue
  cases hr : s.remaining with
  | none => simp [concB, stateOf, hr]
  | some n =>
    simp only [concB, stateOf, hr, R.pure_eq, newRem1, newRem2, newRem3, R.ok_bind]
    simp only [show d.len = d.bytes.length from rfl]
    by_cases h0 : n - d.bytes.length = 0
    · have h2 : n ≤ d.bytes.length := by omega
      simp only [h0, BEq.rfl, if_true, upto_ok _ _ h2, sliceTo_ok _ _ h2, R.ok_bind]
      simp only [Slice.upto, Slice.from, Slice.ofVec, Stmt.headerNew, Stmt.tshNew, hs, if_true, COMMON,
        rmap_bind, R.bind_assoc, R.ok_bind, R.pure_eq, rmap_ok]
      rfl
    · have hb : (n - d.bytes.length == 0) = false := by simp [h0]
      simp only [hb, if_false, Bool.false_eq_true, R.ok_bind, rmap_ok, R.pure_eq]
      rfl

theorem bufC_start (fz : Bool) (s : St) (h : Header) (d : Slice) (off : Nat) (hd : d.src = some off) :
    bufCStep fz (concBC s) (.start_compact_section h d)
      = rmap (fun r => (concBC r.1, r.2)) (Psi.bufStart s h d.bytes off) := by
  unfold bufCStep BufferCompactSyntaxParser.start_compact_section Psi.bufStart
  simp only [Slice.len, COMMON]
  by_cases hc : h.sectionLength + 3 ≤ d.bytes.length
  · simp only [hc, decide_true, if_true, upto_ok _ _ hc, sliceTo_ok _ _ hc, R.ok_bind, R.pure_eq, rmap_ok]
    simp [concBC, delivOf, hd, stateOf]
  · have h2 : d.bytes.length ≤ h.sectionLength + 3 := by omega
    simp only [hc, decide_false, if_false, Bool.false_eq_true, subR_ok _ _ h2, R.ok_bind, R.pure_eq, rmap_ok]
    simp [concBC, stateOf]

theorem bufC_reset (fz : Bool) (s : St) :
    bufCStep fz (concBC s) .reset = .ok (concBC (bufReset s), []) := by
  simp [bufCStep, BufferCompactSyntaxParser.reset, concBC, bufReset, stateOf]

theorem bufC_continue (fz : Bool) (cfg : Cfg) (hs : cfg.sectionSyntax = false) (s : St) (d : Slice) :
    bufCStep fz (concBC s) (.continue_compact_section d)
      = rmap (fun r => (concBC r.1, r.2)) (Psi.bufContinue cfg s d.bytes) := by
  unfold bufCStep BufferCompactSyntaxParser.continue_compact_section Psi.bufContinue
  cases hr : s.remaining with
  | none => simp [concBC, stateOf, hr]
  | some n =>
    simp only [concBC, stateOf, hr, R.pure_eq, newRem1, newRem2, newRem3, R.ok_bind]
    simp only [show d.len = d.bytes.length from rfl]
    by_cases h0 : n - d.bytes.length = 0
    · have h2 : n ≤ d.bytes.length := by omega
      simp only [h0, BEq.rfl, if_true, upto_ok _ _ h2, sliceTo_ok _ _ h2, R.ok_bind]
      simp only [Slice.upto, Slice.from, Slice.ofVec, Stmt.headerNew, Stmt.tshNew, hs, if_false, Bool.false_eq_true, COMMON,
        rmap_bind, R.bind_assoc, R.ok_bind, R.pure_eq, rmap_ok]
      rfl
    · have hb : (n - d.bytes.length == 0) = false := by simp [h0]
      simp only [hb, if_false, Bool.false_eq_true, R.ok_bind, rmap_ok, R.pure_eq]
      rfl

theorem bufStart_setB (s : St) (h : Header) (data : Bytes) (off : Nat) :
    Psi.bufStart s h data off = rmap (fun r => (setB s r.1, r.2)) (Psi.bufStart s h data off) := by
  unfold Psi.bufStart
  simp only [COMMON]
  by_cases hc : h.sectionLength + 3 ≤ data.length
  · simp only [hc, if_true, sliceTo_ok _ _ hc, R.ok_bind, R.pure_eq, rmap_ok]; rfl
  · have h2 : data.length ≤ h.sectionLength + 3 := by omega
    simp only [hc, if_false, subR_ok _ _ h2, R.ok_bind, R.pure_eq, rmap_ok]; rfl

theorem bufContinue_setB (cfg : Cfg) (s : St) (data : Bytes) :
    Psi.bufContinue cfg s data = rmap (fun r => (setB s r.1, r.2)) (Psi.bufContinue cfg s data) := by
  unfold Psi.bufContinue
  cases hr : s.remaining with
  | none =>
    simp only [R.pure_eq, rmap_ok, setB]
  | some n =>
    simp only []
    by_cases hc : data.length > n
    · have h1 : n ≤ data.length := by omega
      simp only [hc, if_true, R.ok_bind, R.pure_eq, BEq.rfl, sliceTo_ok _ _ h1]
      cases cfg.sectionSyntax <;>
        simp only [if_true, if_false, Bool.false_eq_true, rmap_bind, R.bind_assoc, R.ok_bind, R.pure_eq, rmap_ok] <;> rfl
    · have h1 : data.length ≤ n := by omega
      simp only [hc, if_false, R.ok_bind, R.pure_eq, subR_ok _ _ h1]
      by_cases h0 : n - data.length = 0
      · have h2 : n ≤ data.length := by omega
        simp only [h0, BEq.rfl, if_true, sliceTo_ok _ _ h2, R.ok_bind]
        cases cfg.sectionSyntax <;>
          simp only [if_true, if_false, Bool.false_eq_true, rmap_bind, R.bind_assoc, R.ok_bind, R.pure_eq, rmap_ok] <;> rfl
      · have hb : (n - data.length == 0) = false := by simp [h0]
        simp only [hb, if_false, Bool.false_eq_true, R.ok_bind, rmap_ok, R.pure_eq]; rfl

theorem frame_of_setB {L : Type} {s : St} {x : R (St × L)} (h : x = rmap (fun r => (setB s r.1, r.2)) x)
    (r : St × L) (e : x = .ok r) :
    r.1.ignoreRest = s.ignoreRest ∧ r.1.lastVersion = s.lastVersion ∧ r.1.dedupIgnore = s.dedupIgnore := by
  rw [e] at h
  simp only [rmap_ok] at h
  have h1 : r.1 = setB s r.1 := congrArg (fun x => x.1) (R.ok.inj h)
  refine ⟨?_, ?_, ?_⟩ <;> (rw [h1]; rfl)

/-! ### the de-duplication layer over the buffering layer -/

def concD (s : St) : DedupSectionSyntaxPayloadParser.Self := ⟨s.lastVersion, s.dedupIgnore⟩

def dedupStep (fz : Bool) (d : DedupSectionSyntaxPayloadParser.Self) :
    SectionSyntaxSectionProcessor.Call → R (DedupSectionSyntaxPayloadParser.Self × List DedupSectionSyntaxPayloadParser.Call)
  | .start_syntax_section h t x => DedupSectionSyntaxPayloadParser.start_syntax_section fz d h t x
  | .continue_syntax_section x => DedupSectionSyntaxPayloadParser.continue_syntax_section fz d x
  | .reset => DedupSectionSyntaxPayloadParser.reset fz d

abbrev DB := DedupSectionSyntaxPayloadParser.Self × BufferSectionSyntaxParser.Self

/-- de-duplication layer, its calls interpreted by the buffering layer -/
def dbStep (fz : Bool) (db : DB) (c : SectionSyntaxSectionProcessor.Call) : R (DB × List Delivery) :=
  thenCalls (dedupStep fz db.1 c) (bufSStep fz) db.2

def concDB (s : St) : DB := (concD s, concB s)

theorem db_continue (fz : Bool) (s : St) (d : Slice) :
    dbStep fz (concDB s) (.continue_syntax_section d)
      = rmap (fun r => (concDB r.1, r.2)) (Psi.dedupContinue Psi.table s d.bytes) := by
  unfold dbStep thenCalls dedupStep DedupSectionSyntaxPayloadParser.continue_syntax_section Psi.dedupContinue
  cases hi : s.dedupIgnore
  · simp only [concDB, concD, hi, Bool.not_false, if_true, R.pure_eq, R.ok_bind, List.nil_append, foldCalls_one,
      Psi.table, Bool.and_false, Bool.false_eq_true, if_false]
    rw [bufS_continue fz ⟨true, true⟩ rfl s d]
    have hf := frame_of_setB (bufContinue_setB ⟨true, true⟩ s d.bytes)
    cases hb : Psi.bufContinue ⟨true, true⟩ s d.bytes with
    | panic m => rfl
    | ok r =>
      obtain ⟨_, h2, h3⟩ := hf r hb
      simp only [rmap_ok, R.ok_bind, h2, h3, hi]
  · simp only [concDB, concD, hi, Bool.not_true, Bool.false_eq_true, if_false, R.pure_eq, R.ok_bind, foldCalls_nil,
      Psi.table, Bool.and_self, if_true, rmap_ok]

theorem db_reset (fz : Bool) (s : St) :
    dbStep fz (concDB s) .reset = .ok (concDB (Psi.dedupReset Psi.table s), []) := by
  unfold dbStep thenCalls dedupStep DedupSectionSyntaxPayloadParser.reset
  simp only [R.pure_eq, R.ok_bind, List.nil_append, foldCalls_one, concDB, bufS_reset]
  rfl

theorem db_start (fz : Bool) (s : St) (h : Header) (t d : Slice) (off : Nat) (hd : d.src = some off)
    (ht : t.bytes = d.bytes.drop 3) (h3 : 3 ≤ d.bytes.length) (h5 : 5 ≤ t.bytes.length) :
    dbStep fz (concDB s) (.start_syntax_section h t d)
      = rmap (fun r => (concDB r.1, r.2)) (Psi.dedupStart Psi.table s h d.bytes off) := by
  have hv : Psi.tshVersion (d.bytes.drop 3) = .ok ((byteD t.bytes 2 >>> 1) &&& 0b0001_1111) := by
    unfold Psi.tshVersion
    rw [← ht, byteAt_ok _ 2 (by omega)]
    simp [assertR, TSH, h5]
  have hg : Stmt.tshVersion t = .ok ((byteD t.bytes 2 >>> 1) &&& 0b0001_1111) := by
    unfold Stmt.tshVersion
    rw [byteAt_ok _ 2 (by omega)]; rfl
  unfold dbStep thenCalls dedupStep DedupSectionSyntaxPayloadParser.start_syntax_section Psi.dedupStart
  simp only [Psi.table, if_true, COMMON, sliceFrom_ok _ _ h3, R.ok_bind, hv, hg, concDB, concD]
  generalize (byteD t.bytes 2 >>> 1) &&& 0b0001_1111 = v
  have key : ∀ s' : St, s'.buf = s.buf → s'.remaining = s.remaining → s'.lastVersion = some v → s'.dedupIgnore = false →
      (bufSStep fz (concB s) (.start_syntax_section h t d) >>= fun r2 =>
        R.ok (((⟨some v, false⟩ : DedupSectionSyntaxPayloadParser.Self), r2.1), r2.2))
        = rmap (fun r => ((concD r.1, concB r.1), r.2)) (Psi.bufStart s' h d.bytes off) := by
    intro s' e1 e2 e3 e4
    have hcb : concB s = concB s' := by simp [concB, e1, e2]
    rw [hcb, bufS_start fz s' h t d off hd]
    have hf := frame_of_setB (bufStart_setB s' h d.bytes off)
    cases hb : Psi.bufStart s' h d.bytes off with
    | panic m => rfl
    | ok r =>
      obtain ⟨_, h2, h3⟩ := hf r hb
      simp only [rmap_ok, R.ok_bind, concD, h2, h3, e3, e4]
  cases hl : s.lastVersion with
  | none =>
    have : ((none : Option Nat) == some v) = false := rfl
    simp only [this, Bool.false_eq_true, if_false, R.pure_eq, R.ok_bind, List.nil_append, foldCalls_one]
    exact key _ rfl rfl rfl rfl
  | some last =>
    by_cases he : last = v
    · subst he
      simp only [BEq.rfl, if_true, R.pure_eq, R.ok_bind, foldCalls_nil, rmap_ok]
      rfl
    · have h1 : (last == v) = false := by simp [he]
      have h2 : (some last == some v) = false := by simp [he]
      simp only [h1, h2, Bool.false_eq_true, if_false, R.pure_eq, R.ok_bind, List.nil_append, foldCalls_one]
      exact key _ rfl rfl rfl rfl

/-! ### frame: what the model's de-duplication and buffering layers leave alone -/

theorem dedupContinue_ir (cfg : Cfg) (s : St) (data : Bytes) (r : St × List Delivery)
    (e : Psi.dedupContinue cfg s data = .ok r) : r.1.ignoreRest = s.ignoreRest := by
  unfold Psi.dedupContinue at e
  split at e
  · cases e; rfl
  · exact (frame_of_setB (bufContinue_setB cfg s data) r e).1

theorem dedupStart_ir (cfg : Cfg) (s : St) (h : Header) (data : Bytes) (off : Nat) (r : St × List Delivery)
    (e : Psi.dedupStart cfg s h data off = .ok r) : r.1.ignoreRest = s.ignoreRest := by
  unfold Psi.dedupStart at e
  cases hd : cfg.dedup
  · simp only [hd, Bool.false_eq_true, if_false] at e
    exact (frame_of_setB (bufStart_setB s h data off) r e).1
  · simp only [hd, if_true] at e
    cases h1 : sliceFrom data COMMON with
    | panic m => rw [h1] at e; cases e
    | ok tb =>
      rw [h1] at e
      simp only [R.ok_bind] at e
      cases h2 : Psi.tshVersion tb with
      | panic m => rw [h2] at e; cases e
      | ok v =>
        rw [h2] at e
        simp only [R.ok_bind] at e
        split at e
        · cases e; rfl
        · exact (frame_of_setB (bufStart_setB _ h data off) r e).1

/-! ### the section-syntax processor over any lower layer that realises the model's de-duplication level -/

def concP (s : St) : SectionSyntaxSectionProcessor.Self := ⟨s.ignoreRest⟩

def procStep (fz : Bool) (p : SectionSyntaxSectionProcessor.Self) :
    SectionPacketConsumer.Call → R (SectionSyntaxSectionProcessor.Self × List SectionSyntaxSectionProcessor.Call)
  | .start_section h d => SectionSyntaxSectionProcessor.start_section fz p h d
  | .continue_section d => SectionSyntaxSectionProcessor.continue_section fz p d
  | .reset => SectionSyntaxSectionProcessor.reset fz p

/-- the processor with its calls interpreted by the lower layers `low` -/
def overS {τ : Type} (fz : Bool) (low : τ → SectionSyntaxSectionProcessor.Call → R (τ × List Delivery))
    (st : SectionSyntaxSectionProcessor.Self × τ) (c : SectionPacketConsumer.Call) :
    R ((SectionSyntaxSectionProcessor.Self × τ) × List Delivery) :=
  thenCalls (procStep fz st.1 c) low st.2

/-- what a lower layer has to satisfy: it computes the model's de-duplication level of `cfg` -/
structure LowOk {τ : Type} (cfg : Cfg) (low : τ → SectionSyntaxSectionProcessor.Call → R (τ × List Delivery))
    (concL : St → τ) : Prop where
  frame : ∀ s s' : St, s'.buf = s.buf → s'.remaining = s.remaining → s'.lastVersion = s.lastVersion →
    s'.dedupIgnore = s.dedupIgnore → concL s' = concL s
  cont : ∀ (s : St) (d : Slice), low (concL s) (.continue_syntax_section d)
    = rmap (fun r => (concL r.1, r.2)) (Psi.dedupContinue cfg s d.bytes)
  reset : ∀ s : St, low (concL s) .reset = .ok (concL (Psi.dedupReset cfg s), [])
  start : ∀ (s : St) (h : Header) (t : Slice) (b : Bytes) (off : Nat), t.bytes = b.drop 3 → 3 ≤ b.length →
    5 ≤ t.bytes.length → low (concL s) (.start_syntax_section h t ⟨b, some off⟩)
      = rmap (fun r => (concL r.1, r.2)) (Psi.dedupStart cfg s h b off)

section over
variable {τ : Type} {cfg : Cfg} {low : τ → SectionSyntaxSectionProcessor.Call → R (τ × List Delivery)} {concL : St → τ}

theorem overS_continue (fz : Bool) (ok : LowOk cfg low concL) (s : St) (d : Slice) :
    overS fz low (concP s, concL s) (.continue_section d)
      = rmap (fun r => ((concP r.1, concL r.1), r.2)) (Psi.procContinue cfg s d.bytes) := by
  unfold overS thenCalls procStep SectionSyntaxSectionProcessor.continue_section Psi.procContinue
  cases hi : s.ignoreRest
  · simp only [concP, hi, Bool.not_false, if_true, R.pure_eq, R.ok_bind, List.nil_append, foldCalls_one,
      Bool.false_eq_true, if_false, ok.cont]
    cases hb : Psi.dedupContinue cfg s d.bytes with
    | panic m => rfl
    | ok r =>
      have := dedupContinue_ir cfg s d.bytes r hb
      simp only [rmap_ok, R.ok_bind, this, hi]
  · simp only [concP, hi, Bool.not_true, Bool.false_eq_true, if_false, R.pure_eq, R.ok_bind, foldCalls_nil,
      if_true, rmap_ok]

theorem overS_reset (fz : Bool) (ok : LowOk cfg low concL) (s : St) :
    overS fz low (concP s, concL s) .reset = .ok ((concP (Psi.procReset cfg s), concL (Psi.procReset cfg s)), []) := by
  unfold overS thenCalls procStep SectionSyntaxSectionProcessor.reset
  simp only [R.pure_eq, R.ok_bind, List.nil_append, foldCalls_one, ok.reset, Psi.procReset]
  have : (Psi.dedupReset cfg s).ignoreRest = s.ignoreRest := by
    unfold Psi.dedupReset Psi.bufReset; split <;> rfl
  simp only [concP, this]

theorem overS_start (fz : Bool) (hs : cfg.sectionSyntax = true) (ok : LowOk cfg low concL) (s : St) (h : Header)
    (b : Bytes) (off : Nat) :
    overS fz low (concP s, concL s) (.start_section h ⟨b, some off⟩)
      = rmap (fun r => ((concP r.1, concL r.1), r.2)) (Psi.procStart cfg s h b off) := by
  unfold overS thenCalls procStep SectionSyntaxSectionProcessor.start_section Psi.procStart
  simp only [hs, if_true, Slice.len, COMMON, TSH, SECTION_LIMIT]
  -- the three rejections, in whichever order the source tests them
  have hrej : (R.ok (((⟨true⟩ : SectionSyntaxSectionProcessor.Self), concL s), ([] : List Delivery)) : R _)
      = R.ok ((concP { s with ignoreRest := true }, concL { s with ignoreRest := true }), []) :=
    congrArg R.ok (Prod.ext (Prod.ext rfl (ok.frame s { s with ignoreRest := true } rfl rfl rfl rfl).symm) rfl)
  by_cases h8 : b.length < 3 + 5 <;> by_cases hl : h.sectionLength > 1021 <;> cases hsy : h.syntaxInd <;>
    simp only [h8, hl, decide_true, decide_false, Bool.not_true, Bool.not_false, Bool.false_eq_true, if_true, if_false,
      R.pure_eq, R.ok_bind, foldCalls_nil, rmap_ok] <;> try exact hrej
  -- accepted: syntax bit set, at least 8 bytes present, length within the limit
  have h3 : 3 ≤ b.length := by omega
  have h5 : 5 ≤ (b.drop 3).length := by rw [List.length_drop]; omega
  simp only [from_ok ⟨b, some off⟩ 3 h3, sliceFrom_ok b 3 h3, Stmt.tshNew, TSH, R.pure_eq, R.ok_bind,
    List.nil_append, foldCalls_one]
  simp only [assertR, ge_iff_le, h5, decide_true, if_true, R.ok_bind, List.nil_append, foldCalls_one]
  have hfr : concL s = concL { s with ignoreRest := false } := (ok.frame s { s with ignoreRest := false } rfl rfl rfl rfl).symm
  rw [hfr, ok.start _ h ⟨b.drop 3, Option.map (· + 3) (some off)⟩ b off rfl h3 h5]
  cases hb : Psi.dedupStart cfg { s with ignoreRest := false } h b off with
  | panic m => rfl
  | ok r =>
    have := dedupStart_ir cfg _ h b off r hb
    simp only [rmap_ok, R.ok_bind, concP, this]

end over

/-! ### the two section-syntax chains -/

theorem lowOk_table (fz : Bool) : LowOk Psi.table (dbStep fz) concDB where
  frame := by
    intro s s' e1 e2 e3 e4
    simp [concDB, concD, concB, e1, e2, e3, e4]
  cont := db_continue fz
  reset := db_reset fz
  start := by
    intro s h t b off ht h3 h5
    exact db_start fz s h t ⟨b, some off⟩ off rfl ht h3 h5

theorem lowOk_rawSection (fz : Bool) : LowOk Psi.rawSection (bufSStepRaw fz) concB where
  frame := by
    intro s s' e1 e2 _ _
    simp [concB, e1, e2]
  cont := by
    intro s d
    show bufSStep fz (concB s) (.continue_syntax_section d) = _
    rw [bufS_continue fz Psi.rawSection rfl s d]
    rfl
  reset := by
    intro s
    show bufSStep fz (concB s) .reset = _
    rw [bufS_reset]; rfl
  start := by
    intro s h t b off _ _ _
    show bufSStep fz (concB s) (.start_syntax_section h t ⟨b, some off⟩) = _
    rw [bufS_start fz s h t ⟨b, some off⟩ off rfl]
    rfl

/-! ### the compact-syntax chain -/

def concPC (s : St) : CompactSyntaxSectionProcessor.Self := ⟨s.ignoreRest⟩

def procCStep (fz : Bool) (p : CompactSyntaxSectionProcessor.Self) :
    SectionPacketConsumer.Call → R (CompactSyntaxSectionProcessor.Self × List CompactSyntaxSectionProcessor.Call)
  | .start_section h d => CompactSyntaxSectionProcessor.start_section fz p h d
  | .continue_section d => CompactSyntaxSectionProcessor.continue_section fz p d
  | .reset => CompactSyntaxSectionProcessor.reset fz p

def overC (fz : Bool) (st : CompactSyntaxSectionProcessor.Self × BufferCompactSyntaxParser.Self)
    (c : SectionPacketConsumer.Call) :
    R ((CompactSyntaxSectionProcessor.Self × BufferCompactSyntaxParser.Self) × List Delivery) :=
  thenCalls (procCStep fz st.1 c) (bufCStep fz) st.2

theorem overC_continue (fz : Bool) (s : St) (d : Slice) :
    overC fz (concPC s, concBC s) (.continue_section d)
      = rmap (fun r => ((concPC r.1, concBC r.1), r.2)) (Psi.procContinue Psi.rawCompact s d.bytes) := by
  unfold overC thenCalls procCStep CompactSyntaxSectionProcessor.continue_section Psi.procContinue Psi.dedupContinue
  cases hi : s.ignoreRest
  · simp only [concPC, hi, Bool.not_false, if_true, R.pure_eq, R.ok_bind, List.nil_append, foldCalls_one,
      Bool.false_eq_true, if_false, Psi.rawCompact, Bool.false_and]
    rw [bufC_continue fz ⟨false, false⟩ rfl s d]
    cases hb : Psi.bufContinue ⟨false, false⟩ s d.bytes with
    | panic m => rfl
    | ok r =>
      have := (frame_of_setB (bufContinue_setB ⟨false, false⟩ s d.bytes) r hb).1
      simp only [rmap_ok, R.ok_bind, this, hi]
  · simp only [concPC, hi, Bool.not_true, Bool.false_eq_true, if_false, R.pure_eq, R.ok_bind, foldCalls_nil,
      if_true, rmap_ok]

theorem overC_reset (fz : Bool) (s : St) :
    overC fz (concPC s, concBC s) .reset
      = .ok ((concPC (Psi.procReset Psi.rawCompact s), concBC (Psi.procReset Psi.rawCompact s)), []) := by
  unfold overC thenCalls procCStep CompactSyntaxSectionProcessor.reset
  simp only [R.pure_eq, R.ok_bind, List.nil_append, foldCalls_one, bufC_reset]
  rfl

theorem overC_start (fz : Bool) (s : St) (h : Header) (b : Bytes) (off : Nat) :
    overC fz (concPC s, concBC s) (.start_section h ⟨b, some off⟩)
      = rmap (fun r => ((concPC r.1, concBC r.1), r.2)) (Psi.procStart Psi.rawCompact s h b off) := by
  unfold overC thenCalls procCStep CompactSyntaxSectionProcessor.start_section Psi.procStart Psi.dedupStart
  simp only [Psi.rawCompact, Bool.false_eq_true, if_false, Slice.len, COMMON, SECTION_LIMIT]
  -- the three rejections, in whichever order the source tests them
  by_cases h8 : b.length < 3 <;> by_cases hl : h.sectionLength > 1021 <;> cases hsy : h.syntaxInd <;>
    simp only [h8, hl, decide_true, decide_false, Bool.false_eq_true, if_true, if_false,
      R.pure_eq, R.ok_bind, foldCalls_nil, rmap_ok, concPC] <;> try rfl
  -- accepted
  simp only [List.nil_append, foldCalls_one]
  have hcb : concBC s = concBC { s with ignoreRest := false } := rfl
  rw [hcb, bufC_start fz _ h ⟨b, some off⟩ off rfl]
  cases hb : Psi.bufStart { s with ignoreRest := false } h b off with
  | panic m => rfl
  | ok r =>
    have := (frame_of_setB (bufStart_setB _ h b off) r hb).1
    simp only [rmap_ok, R.ok_bind, concPC, this]

/-! ### `SectionPacketConsumer::consume` over any chain that realises the model's processor level -/

/-- what the layers under the packet consumer have to satisfy -/
structure ChainOk {σ : Type} (cfg : Cfg) (step : σ → SectionPacketConsumer.Call → R (σ × List Delivery))
    (conc : St → σ) : Prop where
  cont : ∀ (s : St) (d : Slice), step (conc s) (.continue_section d)
    = rmap (fun r => (conc r.1, r.2)) (Psi.procContinue cfg s d.bytes)
  reset : ∀ s : St, step (conc s) .reset = .ok (conc (Psi.procReset cfg s), [])
  start : ∀ (s : St) (h : Header) (b : Bytes) (off : Nat), step (conc s) (.start_section h ⟨b, some off⟩)
    = rmap (fun r => (conc r.1, r.2)) (Psi.procStart cfg s h b off)

/-- the whole translated chain on one packet: `consume`, its calls interpreted by the layers below -/
def chainConsume {σ : Type} (fz : Bool) (step : σ → SectionPacketConsumer.Call → R (σ × List Delivery))
    (st : σ) (pk : Pk) : R (σ × List Delivery) :=
  rmap (fun r => (r.1.2, r.2)) (thenCalls (SectionPacketConsumer.consume fz {} pk) step st)

theorem chain_consume {σ : Type} {cfg : Cfg} {step : σ → SectionPacketConsumer.Call → R (σ × List Delivery)}
    {conc : St → σ} (fz : Bool) (ok : ChainOk cfg step conc) (s : St) (us : Bool) (pkBuf : Bytes) (off : Nat) :
    chainConsume fz step (conc s) ⟨some ⟨pkBuf, some off⟩, us⟩
      = rmap (fun r => (conc r.1, r.2)) (consumePayload cfg s us pkBuf off) := by
  unfold chainConsume thenCalls SectionPacketConsumer.consume consumePayload
  cases us
  · simp only [Bool.false_eq_true, if_false, R.pure_eq, R.ok_bind, List.nil_append, foldCalls_one, ok.cont]
    cases Psi.procContinue cfg s pkBuf <;> rfl
  · simp only [if_true, Slice.get, Slice.from, R.bind_assoc, R.ok_bind, R.pure_eq, rmap_bind, Slice.len]
    cases byteAt pkBuf 0 with
    | panic m => rfl
    | ok pointer =>
      simp only [R.ok_bind]
      cases hsd : sliceFrom pkBuf 1 with
      | panic m => rfl
      | ok sd =>
        simp only [R.ok_bind, Option.map]
        by_cases hp : pointer > 0
        · by_cases hge : pointer ≥ sd.length
          · simp only [hp, hge, decide_true, if_true, Bool.and_self, R.pure_eq, R.ok_bind, List.nil_append,
              foldCalls_one, ok.reset, rmap_ok]
          · have hle : pointer ≤ sd.length := by omega
            simp only [hp, hge, decide_true, decide_false, if_true, Bool.and_false, Bool.false_eq_true, if_false,
              upto_ok ⟨sd, some (off + 1)⟩ pointer hle, from_ok ⟨sd, some (off + 1)⟩ pointer hle,
              sliceTo_ok sd pointer hle, sliceFrom_ok sd pointer hle, R.ok_bind, Option.map]
            by_cases h3 : (sd.drop pointer).length < 3
            · simp only [h3, decide_true, if_true, COMMON, R.pure_eq, R.ok_bind, List.nil_append, List.cons_append,
                foldCalls_two, ok.cont, bind_rmap, ok.reset, R.bind_assoc, rmap_bind, rmap_ok]
              cases Psi.procContinue cfg s (List.take pointer sd) with
              | panic m => rfl
              | ok r => rcases r with ⟨s1, d1⟩; simp
            · have h3' : 3 ≤ (sd.drop pointer).length := by omega
              simp only [h3, decide_false, Bool.false_eq_true, if_false, COMMON,
                upto_ok ⟨sd.drop pointer, some (off + 1 + pointer)⟩ 3 h3', sliceTo_ok _ 3 h3', Stmt.headerNew,
                R.ok_bind, headerNew_eq _ h3']
              simp only [R.pure_eq, R.ok_bind, List.nil_append, List.cons_append, foldCalls_two, ok.cont, bind_rmap,
                ok.start, R.bind_assoc, rmap_bind, rmap_ok]
        · have hp0 : pointer = 0 := by omega
          subst hp0
          simp only [Nat.lt_irrefl, decide_false, Bool.false_eq_true, if_false, Bool.false_and, gt_iff_lt,
            from_ok ⟨sd, some (off + 1)⟩ 0 (Nat.zero_le _), sliceFrom_ok sd 0 (Nat.zero_le _), R.ok_bind,
            R.pure_eq, Option.map, List.drop_zero, Nat.add_zero]
          by_cases h3 : sd.length < 3
          · simp only [h3, decide_true, if_true, COMMON, R.pure_eq, R.ok_bind, List.nil_append, foldCalls_one,
              ok.reset, rmap_ok, List.append_nil]
          · have h3' : 3 ≤ sd.length := by omega
            simp only [h3, decide_false, Bool.false_eq_true, if_false, COMMON,
              upto_ok ⟨sd, some (off + 1)⟩ 3 h3', sliceTo_ok sd 3 h3', Stmt.headerNew, R.ok_bind,
              headerNew_eq _ h3']
            simp only [R.pure_eq, R.ok_bind, List.nil_append, foldCalls_one, ok.start, rmap_bind, rmap_ok]
            cases Psi.procStart cfg s (hdrOf sd) sd (off + 1) with
            | panic m => rfl
            | ok r2 => rcases r2 with ⟨s2, d2⟩; simp

/-! ### the three chains, composed -/

abbrev TableSt := SectionSyntaxSectionProcessor.Self × DB
abbrev RawSectionSt := SectionSyntaxSectionProcessor.Self × BufferSectionSyntaxParser.Self
abbrev RawCompactSt := CompactSyntaxSectionProcessor.Self × BufferCompactSyntaxParser.Self

/-- the fields of the three (four) translated structs from a model state -/
def concTable (s : St) : TableSt := (concP s, concDB s)
def concRawSection (s : St) : RawSectionSt := (concP s, concB s)
def concRawCompact (s : St) : RawCompactSt := (concPC s, concBC s)

/-- PAT / PMT chain: consumer → section-syntax processor → de-duplication → buffering -/
def tableStep (fz : Bool) : TableSt → SectionPacketConsumer.Call → R (TableSt × List Delivery) := overS fz (dbStep fz)
/-- consumer → section-syntax processor → buffering -/
def rawSectionStep (fz : Bool) : RawSectionSt → SectionPacketConsumer.Call → R (RawSectionSt × List Delivery) :=
  overS fz (bufSStepRaw fz)
/-- consumer → compact-syntax processor → compact buffering -/
def rawCompactStep (fz : Bool) : RawCompactSt → SectionPacketConsumer.Call → R (RawCompactSt × List Delivery) := overC fz

theorem chainOk_table (fz : Bool) : ChainOk Psi.table (tableStep fz) concTable where
  cont := overS_continue fz (lowOk_table fz)
  reset := overS_reset fz (lowOk_table fz)
  start := overS_start fz rfl (lowOk_table fz)

theorem chainOk_rawSection (fz : Bool) : ChainOk Psi.rawSection (rawSectionStep fz) concRawSection where
  cont := overS_continue fz (lowOk_rawSection fz)
  reset := overS_reset fz (lowOk_rawSection fz)
  start := overS_start fz rfl (lowOk_rawSection fz)

theorem chainOk_rawCompact (fz : Bool) : ChainOk Psi.rawCompact (rawCompactStep fz) concRawCompact where
  cont := overC_continue fz
  reset := overC_reset fz
  start := overC_start fz

/-- every state the translated structs can be in is the image of a model state: the ties below
quantify over ALL states of the translated code -/
theorem concTable_surj (st : TableSt) : ∃ s : St, concTable s = st := by
  rcases st with ⟨⟨ir⟩, ⟨lv, di⟩, ⟨buf, state⟩⟩
  exact ⟨⟨ir, lv, di, buf, remOf state⟩, by simp [concTable, concP, concDB, concD, concB]⟩
theorem concRawSection_surj (st : RawSectionSt) : ∃ s : St, concRawSection s = st := by
  rcases st with ⟨⟨ir⟩, ⟨buf, state⟩⟩
  exact ⟨⟨ir, none, false, buf, remOf state⟩, by simp [concRawSection, concP, concB]⟩
theorem concRawCompact_surj (st : RawCompactSt) : ∃ s : St, concRawCompact s = st := by
  rcases st with ⟨⟨ir⟩, ⟨buf, state⟩⟩
  exact ⟨⟨ir, none, false, buf, remOf state⟩, by simp [concRawCompact, concPC, concBC]⟩

/-- TIE (PAT / PMT chain, payload level): for every state and every payload the translated source
computes what the model computes -/
theorem tie_stmt_consume_table (fz : Bool) (s : St) (us : Bool) (pkBuf : Bytes) (off : Nat) :
    chainConsume fz (tableStep fz) (concTable s) ⟨some ⟨pkBuf, some off⟩, us⟩
      = rmap (fun r => (concTable r.1, r.2)) (consumePayload Psi.table s us pkBuf off) :=
  chain_consume fz (chainOk_table fz) s us pkBuf off

theorem tie_stmt_consume_rawSection (fz : Bool) (s : St) (us : Bool) (pkBuf : Bytes) (off : Nat) :
    chainConsume fz (rawSectionStep fz) (concRawSection s) ⟨some ⟨pkBuf, some off⟩, us⟩
      = rmap (fun r => (concRawSection r.1, r.2)) (consumePayload Psi.rawSection s us pkBuf off) :=
  chain_consume fz (chainOk_rawSection fz) s us pkBuf off

theorem tie_stmt_consume_rawCompact (fz : Bool) (s : St) (us : Bool) (pkBuf : Bytes) (off : Nat) :
    chainConsume fz (rawCompactStep fz) (concRawCompact s) ⟨some ⟨pkBuf, some off⟩, us⟩
      = rmap (fun r => (concRawCompact r.1, r.2)) (consumePayload Psi.rawCompact s us pkBuf off) :=
  chain_consume fz (chainOk_rawCompact fz) s us pkBuf off

/-- what `consume` observes of a 188-byte packet (C12's payload split) -/
def pkOf (p : Bytes) : Pk :=
  match plOf p with
  | none => ⟨none, Spec.readBits p 9 1 == 1⟩
  | some q => ⟨some ⟨q.bytes, some q.off⟩, q.us⟩

theorem chain_code_consume {σ : Type} {cfg : Cfg} {step : σ → SectionPacketConsumer.Call → R (σ × List Delivery)}
    {conc : St → σ} (fz : Bool) (ok : ChainOk cfg step conc) (s : St) (p : Bytes) (h : p.length = 188) :
    chainConsume fz step (conc s) (pkOf p) = rmap (fun r => (conc r.1, r.2)) (Psi.consume cfg s p) := by
  rw [consume_eq_plOf cfg s p h]
  unfold pkOf
  cases plOf p with
  | none => rfl
  | some q => exact chain_consume fz ok s q.us q.bytes q.off

/-- CODE = MODEL on packets: on every 188-byte packet and from every state, the model's
`Psi.consume` IS the translated source chain applied to the packet's payload -/
theorem code_consume_table (fz : Bool) (s : St) (p : Bytes) (h : p.length = 188) :
    chainConsume fz (tableStep fz) (concTable s) (pkOf p)
      = rmap (fun r => (concTable r.1, r.2)) (Psi.consume Psi.table s p) :=
  chain_code_consume fz (chainOk_table fz) s p h

theorem code_consume_rawSection (fz : Bool) (s : St) (p : Bytes) (h : p.length = 188) :
    chainConsume fz (rawSectionStep fz) (concRawSection s) (pkOf p)
      = rmap (fun r => (concRawSection r.1, r.2)) (Psi.consume Psi.rawSection s p) :=
  chain_code_consume fz (chainOk_rawSection fz) s p h

theorem code_consume_rawCompact (fz : Bool) (s : St) (p : Bytes) (h : p.length = 188) :
    chainConsume fz (rawCompactStep fz) (concRawCompact s) (pkOf p)
      = rmap (fun r => (concRawCompact r.1, r.2)) (Psi.consume Psi.rawCompact s p) :=
  chain_code_consume fz (chainOk_rawCompact fz) s p h

/-- the constructors: every `new` of the translated structs is the model's initial state -/
theorem tie_stmt_new :
    concTable {} = (SectionSyntaxSectionProcessor.new, DedupSectionSyntaxPayloadParser.new, BufferSectionSyntaxParser.new)
    ∧ concRawSection {} = (SectionSyntaxSectionProcessor.new, BufferSectionSyntaxParser.new)
    ∧ concRawCompact {} = (CompactSyntaxSectionProcessor.new, BufferCompactSyntaxParser.new) := by
  refine ⟨rfl, rfl, rfl⟩

/-- a whole run: the translated chain folded over the packets equals the model's `Psi.run` -/
def chainRun {σ : Type} (fz : Bool) (step : σ → SectionPacketConsumer.Call → R (σ × List Delivery)) (st : σ) :
    List Bytes → R (σ × List (List Delivery))
  | [] => .ok (st, [])
  | p :: ps => chainConsume fz step st (pkOf p) >>= fun r1 => chainRun fz step r1.1 ps >>= fun r2 => .ok (r2.1, r1.2 :: r2.2)

theorem chain_code_run {σ : Type} {cfg : Cfg} {step : σ → SectionPacketConsumer.Call → R (σ × List Delivery)}
    {conc : St → σ} (fz : Bool) (ok : ChainOk cfg step conc) (ps : List Bytes) (hp : ∀ p ∈ ps, p.length = 188) (s : St) :
    chainRun fz step (conc s) ps = rmap (fun r => (conc r.1, r.2)) (Psi.run cfg s ps) := by
  induction ps generalizing s with
  | nil => rfl
  | cons p ps ih =>
    unfold chainRun Psi.run
    rw [chain_code_consume fz ok s p (hp p (List.mem_cons_self ..))]
    cases Psi.consume cfg s p with
    | panic m => rfl
    | ok r1 =>
      rcases r1 with ⟨s1, d1⟩
      simp only [rmap_ok, R.ok_bind]
      rw [ih (fun q hq => hp q (List.mem_cons_of_mem _ hq)) s1]
      cases Psi.run cfg s1 ps with
      | panic m => rfl
      | ok r2 => rcases r2 with ⟨s2, d2⟩; rfl

theorem code_run_table (fz : Bool) (ps : List Bytes) (hp : ∀ p ∈ ps, p.length = 188) (s : St) :
    chainRun fz (tableStep fz) (concTable s) ps = rmap (fun r => (concTable r.1, r.2)) (Psi.run Psi.table s ps) :=
  chain_code_run fz (chainOk_table fz) ps hp s

/-! ### the CRC gate -/

/-- `CrcCheckWholeSectionSyntaxPayloadParser::section`: the translated source passes the section on
exactly when the model's `crcPass` says so, and panics exactly when it panics.  `hh`: the header the
caller hands over was parsed from the first three bytes of the same data — true of both call sites
in the buffering layer. -/
theorem tie_stmt_crc (fz : Bool) (h : Header) (t d : Slice) (h3 : 3 ≤ d.bytes.length)
    (hh : Psi.headerNew (d.bytes.take 3) = .ok h) :
    erase (rmap (fun r => r.2) (CrcCheckWholeSectionSyntaxPayloadParser.section fz {} h t d))
      = erase (rmap (fun pass => if pass then [CrcCheckWholeSectionSyntaxPayloadParser.Call.«section» h t d] else [])
          (Psi.crcPass fz d.bytes)) := by
  have hs : h.syntaxInd = (byteD d.bytes 1 &&& 0b1000_0000 != 0) := by
    unfold Psi.headerNew at hh
    have hl : (d.bytes.take 3).length = 3 := by simp; omega
    simp only [hl, COMMON, assertR, BEq.rfl, if_true, R.ok_bind, byteAt_ok _ 0 (by omega : 0 < (d.bytes.take 3).length),
      byteAt_ok _ 1 (by omega : 1 < (d.bytes.take 3).length), byteAt_ok _ 2 (by omega : 2 < (d.bytes.take 3).length),
      R.pure_eq] at hh
    have := R.ok.inj hh
    rw [← this]
    simp only [byteD_take _ 3 1 (by omega)]
  unfold CrcCheckWholeSectionSyntaxPayloadParser.section Psi.crcPass
  -- the checksum is total (`sum32_eq_bitserial`), so the length test and the checksum test may come in
  -- either order
  simp only [byteAt_ok d.bytes 1 (by omega), R.ok_bind, ← hs, Slice.len, COMMON, TSH, Stmt.sum32,
    Ts.Props.C04.sum32_eq_bitserial]
  cases h.syntaxInd
  · rfl
  · simp only [assertR, if_true, R.ok_bind]
    by_cases hl : d.bytes.length < 3 + 5 + 4 <;> cases fz <;> by_cases hc : Ts.CrcSpec.crc d.bytes = 0 <;>
      simp [hl, hc, erase, rmap]

/-! ### non-vacuity: the translated chain evaluated on concrete packets -/

/-- a 188-byte PAT packet: pointer_field 0, a 16-byte section (table_id 0, section_length 13) -/
def patPacket : Bytes :=
  [0x47, 0x40, 0x00, 0x10, 0x00, 0x00, 0xb0, 0x0d, 0x00, 0x01, 0xc1, 0x00, 0x00, 0x00, 0x01, 0xe1, 0x00,
   0x12, 0x34, 0x56, 0x78] ++ List.replicate 167 0xff

example : patPacket.length = 188 := by decide +kernel

/-- first transmission: delivered in place at packet offset 5; repetition: de-duplicated -/
def patTwice : Bool :=
  match chainRun false (tableStep false) (concTable {}) [patPacket, patPacket] with
  | .ok r => r.2.map (List.map fun d => (d.bytes.length, d.inplace)) == [[(16, some 5)], []]
  | .panic _ => false

example : patTwice = true := by decide +kernel

end Ts.Props.Ties.StmtPsi
