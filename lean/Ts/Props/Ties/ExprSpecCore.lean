import Ts.Refl.Tie
import Ts.Basic
import Ts.Spec.Bits
import Ts.Lemmas.BitOps
/-!
# CODE = ISO: the source's bit-field expressions compute the standard's bit fields

`Ts/Props/Ties/Expr*.lean` prove CODE = MODEL: the expression machine-translated from `/repo/src`
(`Ts.Gen.Expr.*`) equals the hand-written model's expression, for all byte values.  The property
theorems (`Ts/Props/C12 … C17`, `Ts/Lemmas/*`) prove MODEL = ISO: the model's masks and shifts compute
the `uimsbf` field that the syntax tables of ISO/IEC 13818-1 define (`Ts.Spec.readBits bs off n`:
`n` bits, most significant first, from BIT offset `off`).

This file composes the two.  Each `code_*_is_iso` states that the CODE's expression, evaluated on
the bytes of an arbitrary byte string `bs` (`envB bs`), is the ISO bit field of `bs` — the model
does not occur in the statement.  Every proof is the chain

    code_model_* : f (envB bs) = m (envB bs)      -- the tie `tie_expr_*`, transported to `bs`
    model_iso_*  : m (envB bs) = readBits bs … …  -- the arithmetic lemmas of the property proofs
    code_*_is_iso := code_model_*.trans model_iso_*

The tie theorems are stated for lists of at most `n` byte values, `bs` may be longer:
`tie_on_bytes` applies the tie to the first `n` bytes of `bs` and uses that both expressions read
only indices `< n` (`reads_below`, by unfolding).

The length hypotheses say that the field lies inside `bs`; they are what a caller has, and the
minimum for the field to be meaningful.  The proofs do not use them: past the end of the string
`envB bs` and `readBits bs` both read 0, so the equations hold there as well.

Layouts (checked against the syntax tables of ISO/IEC 13818-1):
* transport packet (2.4.3.2): sync 8 | tei 1 | pusi 1 | prio 1 | PID 13 | tsc 2 | afc 2 | cc 4
* PTS/DTS (2.4.3.6): prefix 4 | [32..30] 3 | marker | [29..15] 15 | marker | [14..0] 15 | marker
* PCR/OPCR (2.4.3.4): base 33 | reserved 6 | extension 9
* ESCR (2.4.3.6): reserved 2 | [32..30] 3 | marker | [29..15] 15 | marker | [14..0] 15 | marker |
  extension 9 | marker;  ES_rate: marker | ES_rate 22 | marker
* section (2.4.4.x): table_id 8 | syntax 1 | private 1 | reserved 2 | section_length 12; then
  (`TableSyntaxHeader`) id 16 | reserved 2 | version 5 | current_next 1 | section_number 8 | last 8
* PAT entry: program_number 16 | reserved 3 | PID 13
* PMT body: reserved 3 | PCR_PID 13 | reserved 4 | program_info_length 12;
  stream: stream_type 8 | reserved 3 | elementary_PID 13 | reserved 4 | ES_info_length 12
* adaptation field extension (2.4.3.4): ltw_valid 1 | ltw_offset 15;  reserved 2 | piecewise_rate 22
* maximum_bitrate_descriptor payload (2.6.26): reserved 2 | maximum_bitrate 22
* PES packet (2.4.3.6): start code prefix 24 | stream_id 8 | PES_packet_length 16
All nineteen right-hand sides requested were found correct.
-/
namespace Ts.Props.Ties.Expr
open Ts Ts.Refl Ts.Spec

/-! ## Transport of a tie to an arbitrary byte string -/

/-- `Ts.Refl.envB_apply`, with `byteD` -/
theorem envB_byteD (b : Bytes) (i : Nat) : envB b i = byteD b i := envB_apply b i

/-- the values of the first `n` bytes of `bs`: the list a tie theorem is applied to -/
def pre (bs : Bytes) (n : Nat) : List Nat := (bs.take n).map (·.toNat)

theorem pre_length (bs : Bytes) (n : Nat) : (pre bs n).length ≤ n := by
  unfold pre
  rw [List.length_map, List.length_take]
  exact Nat.min_le_left _ _

theorem pre_lt (bs : Bytes) (n : Nat) : ∀ x ∈ pre bs n, x < 256 := envB_lt (bs.take n)

theorem envL_pre (bs : Bytes) (n i : Nat) (h : i < n) : envL (pre bs n) i = byteD bs i := by
  show envB (bs.take n) i = _
  rw [envB_byteD, byteD_take bs n i h]

/-- `f` reads only the bytes with index `< n` -/
def ReadsBelow (n : Nat) (f : Env → Nat) : Prop :=
  ∀ e e' : Env, (∀ i, i < n → e i = e' i) → f e = f e'

/-- a tie proved for all lists of at most `n` byte values holds on the bytes of every byte
string, whatever its length, when both sides read only indices `< n` -/
theorem tie_on_bytes {f g : Env → Nat} (n : Nat)
    (tie : ∀ l : List Nat, l.length ≤ n → (∀ x ∈ l, x < 256) → f (envL l) = g (envL l))
    (hf : ReadsBelow n f) (hg : ReadsBelow n g) (bs : Bytes) : f (envB bs) = g (envB bs) := by
  have agree : ∀ i, i < n → envB bs i = envL (pre bs n) i := fun i hi => by
    rw [envB_byteD, envL_pre bs n i hi]
  rw [hf _ _ agree, tie _ (pre_length bs n) (pre_lt bs n)]
  exact (hg _ _ agree).symm

/-- `reads_below f`: proves `ReadsBelow n f` by unfolding `f` and rewriting every byte read -/
macro "reads_below " f:ident : tactic =>
  `(tactic| (intro e e' h; simp (disch := decide) only [$f:ident, h]))

end Ts.Props.Ties.Expr
