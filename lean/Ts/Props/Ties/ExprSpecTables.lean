import Ts.Props.Ties.ExprSpecCore
import Ts.Props.Ties.ExprTables
import Ts.Lemmas.C16
/-!
# CODE = ISO: the translated expressions of `/repo/src` equal the bit fields of ISO/IEC 13818-1 — part `Tables` (audited with C16)

See `Ts/Props/Ties/ExprSpecCore.lean`. Each `code_*_is_iso` is `(code_model_*).trans (model_iso_*)`: the
model appears only in the two intermediate lemmas, never in the final statement.
-/
namespace Ts.Props.Ties.Expr
open Ts Ts.Refl Ts.Gen.Expr Ts.Spec

theorem code_model_pat_pid (bs : Bytes) : pat_pid (envB bs) = mPatPid (envB bs) :=
  tie_on_bytes 4 tie_expr_pat_pid (by reads_below pat_pid) (by reads_below mPatPid) bs

theorem code_model_pmt_pcr_pid (bs : Bytes) : pmt_pcr_pid (envB bs) = mPmtPcrPid (envB bs) :=
  tie_on_bytes 4 tie_expr_pmt_pcr_pid (by reads_below pmt_pcr_pid) (by reads_below mPmtPcrPid) bs

theorem code_model_pmt_program_info_length (bs : Bytes) :
    pmt_program_info_length (envB bs) = mPmtProgramInfoLength (envB bs) :=
  tie_on_bytes 4 tie_expr_pmt_program_info_length (by reads_below pmt_program_info_length)
    (by reads_below mPmtProgramInfoLength) bs

theorem code_model_pmt_elementary_pid (bs : Bytes) :
    pmt_elementary_pid (envB bs) = mPmtElementaryPid (envB bs) :=
  tie_on_bytes 5 tie_expr_pmt_elementary_pid (by reads_below pmt_elementary_pid)
    (by reads_below mPmtElementaryPid) bs

theorem code_model_pmt_es_info_length (bs : Bytes) :
    pmt_es_info_length (envB bs) = mPmtEsInfoLength (envB bs) :=
  tie_on_bytes 5 tie_expr_pmt_es_info_length (by reads_below pmt_es_info_length)
    (by reads_below mPmtEsInfoLength) bs

open Ts.Lemmas.C16 in
theorem model_iso_pat_pid (bs : Bytes) : mPatPid (envB bs) = readBits bs 19 13 := by
  simp only [mPatPid, envB_byteD]
  rw [mask13 _ _ (byteD_lt bs 2) (byteD_lt bs 3), Ts.Lemmas.C16.pat_pid]

open Ts.Lemmas.C16 in
theorem model_iso_pmt_pcr_pid (bs : Bytes) : mPmtPcrPid (envB bs) = readBits bs 3 13 := by
  simp only [mPmtPcrPid, envB_byteD]
  rw [mask13 _ _ (byteD_lt bs 0) (byteD_lt bs 1), pmt_pcr]

open Ts.Lemmas.C16 in
theorem model_iso_pmt_program_info_length (bs : Bytes) :
    mPmtProgramInfoLength (envB bs) = readBits bs 20 12 := by
  simp only [mPmtProgramInfoLength, envB_byteD]
  rw [mask12 _ _ (byteD_lt bs 2) (byteD_lt bs 3), pmt_pil]

open Ts.Lemmas.C16 in
theorem model_iso_pmt_elementary_pid (bs : Bytes) : mPmtElementaryPid (envB bs) = readBits bs 11 13 := by
  simp only [mPmtElementaryPid, envB_byteD]
  rw [mask13 _ _ (byteD_lt bs 1) (byteD_lt bs 2), st_pid]

open Ts.Lemmas.C16 in
theorem model_iso_pmt_es_info_length (bs : Bytes) : mPmtEsInfoLength (envB bs) = readBits bs 28 12 := by
  simp only [mPmtEsInfoLength, envB_byteD]
  rw [mask12 _ _ (byteD_lt bs 3) (byteD_lt bs 4), st_esil]

/-- PAT entry: `network_PID` / `program_map_PID`, 13 bits at bit 19 -/
theorem code_pat_pid_is_iso (bs : Bytes) (_h : 4 ≤ bs.length) : pat_pid (envB bs) = readBits bs 19 13 :=
  (code_model_pat_pid bs).trans (model_iso_pat_pid bs)

/-- PMT body: `PCR_PID`, 13 bits at bit 3 -/
theorem code_pmt_pcr_pid_is_iso (bs : Bytes) (_h : 2 ≤ bs.length) :
    pmt_pcr_pid (envB bs) = readBits bs 3 13 :=
  (code_model_pmt_pcr_pid bs).trans (model_iso_pmt_pcr_pid bs)

/-- PMT body: `program_info_length`, 12 bits at bit 20 -/
theorem code_pmt_program_info_length_is_iso (bs : Bytes) (_h : 4 ≤ bs.length) :
    pmt_program_info_length (envB bs) = readBits bs 20 12 :=
  (code_model_pmt_program_info_length bs).trans (model_iso_pmt_program_info_length bs)

/-- PMT stream entry: `elementary_PID`, 13 bits at bit 11 -/
theorem code_pmt_elementary_pid_is_iso (bs : Bytes) (_h : 3 ≤ bs.length) :
    pmt_elementary_pid (envB bs) = readBits bs 11 13 :=
  (code_model_pmt_elementary_pid bs).trans (model_iso_pmt_elementary_pid bs)

/-- PMT stream entry: `ES_info_length`, 12 bits at bit 28 -/
theorem code_pmt_es_info_length_is_iso (bs : Bytes) (_h : 5 ≤ bs.length) :
    pmt_es_info_length (envB bs) = readBits bs 28 12 :=
  (code_model_pmt_es_info_length bs).trans (model_iso_pmt_es_info_length bs)

end Ts.Props.Ties.Expr
