import Ts.Model.Pes
import Ts.Model.Tables
import Ts.Model.App
import Ts.Model.Values
import Ts.Gen.Consts
/-!
# Ties between the model's literals and constants regenerated from `/repo/src` — part `Packet`

Audited with: C12, C06, C07 (so that a changed constant breaks the proof obligations of exactly the properties
it concerns). See `Ts/Props/Ties.lean` for the general explanation.
-/
namespace Ts.Props.Ties
open Ts Ts.Pes Ts.Tables Ts.Demux

/-- `Pid::new` / `Pid::try_from` compare with `Pid::MAX_VALUE` (model copies in `Tables` and `Values`) -/
theorem tie_pid_new (v : Nat) :
    Tables.pidNew v = (do assertR (v ≤ Gen.pidMax) "assert!(pid <= 0x1fff)"; pure v) ∧
    Values.pidNew v = (do assertR (v ≤ Gen.pidMax) "assert!(pid <= 0x1fff)"; pure v) ∧
    Values.pidTryFrom v = (if v ≤ Gen.pidMax then some v else none) := ⟨rfl, rfl, rfl⟩

/-- `Packet::try_new`, `content_offset`, `adaptation_field`: `SIZE`, `SYNC_BYTE`, `FIXED_HEADER_SIZE`,
`ADAPTATION_FIELD_OFFSET = FIXED_HEADER_SIZE + 1`, and the literal `182` of `if len > 182` -/
theorem tie_packet_layout (p : Bytes) :
    Packet.tryNew p = (do
      assertR (p.length == Gen.packetSize) "assert_eq!(buf.len(), Self::SIZE)"
      let b0 ← byteAt p 0
      if b0 == Gen.syncByte then pure (some p) else pure none) ∧
    Packet.contentOffset p = (do
      let b3 ← Packet.byte3 p
      if Packet.hasAf b3 then do let l ← Packet.afLen p; pure (Gen.fixedHeaderSize + 1 + l)
      else pure Gen.fixedHeaderSize) ∧
    Packet.afRange p = (do
      let b3 ← Packet.byte3 p
      if Packet.hasAf b3 then
        if Packet.hasPayload b3 then
          let len ← Packet.afLen p
          if len > Gen.afMaxWithPayload then pure none
          else if len == 0 then pure none
          else do let r ← Packet.mkAf p len; pure (some r)
        else
          let len ← Packet.afLen p
          if len != (Gen.packetSize - (Gen.fixedHeaderSize + 1)) then pure none
          else do let r ← Packet.mkAf p len; pure (some r)
      else pure none) := ⟨rfl, rfl, rfl⟩

/-- `Demultiplex::push`: `chunks_exact(Packet::SIZE)`; the model's packet offsets advance by the
same amount -/
theorem tie_frame_packet_size (buf : Bytes) (base : Nat) (ch : Bytes) (chs : List Bytes) (off : Nat) :
    frame buf base = framePks (chunksExact Gen.packetSize (buf.length / Gen.packetSize + 1) buf) base ∧
    framePks (ch :: chs) off = (do
      let r ← mkPk ch off
      let rest ← framePks chs (off + Gen.packetSize)
      match r with
      | some pk => pure (pk :: rest)
      | none => pure rest) := ⟨rfl, rfl⟩

end Ts.Props.Ties
