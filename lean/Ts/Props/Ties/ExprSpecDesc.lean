import Ts.Props.Ties.ExprSpecCore
import Ts.Props.Ties.ExprDesc
import Ts.Lemmas.C17
/-!
# CODE = ISO: the translated expressions of `/repo/src` equal the bit fields of ISO/IEC 13818-1 — part `Desc` (audited with C17)

See `Ts/Props/Ties/ExprSpecCore.lean`. Each `code_*_is_iso` is `(code_model_*).trans (model_iso_*)`: the
model appears only in the two intermediate lemmas, never in the final statement.
-/
namespace Ts.Props.Ties.Expr
open Ts Ts.Refl Ts.Gen.Expr Ts.Spec

theorem code_model_max_bitrate (bs : Bytes) : maxbr_rate (envB bs) = mMaxBitrate (envB bs) :=
  tie_on_bytes 3 tie_expr_maxbr_rate (by reads_below maxbr_rate) (by reads_below mMaxBitrate) bs

open Ts.Lemmas.C17 in
theorem model_iso_max_bitrate (bs : Bytes) : mMaxBitrate (envB bs) = readBits bs 2 22 := by
  simp only [mMaxBitrate, envB_byteD]
  rw [bitrate_arith _ _ _ (byteD_lt bs 0) (byteD_lt bs 1) (byteD_lt bs 2), bitrate_field]

/-- maximum bitrate descriptor: `maximum_bitrate`, 22 bits at bit 2 -/
theorem code_max_bitrate_is_iso (bs : Bytes) (_h : 3 ≤ bs.length) : maxbr_rate (envB bs) = readBits bs 2 22 :=
  (code_model_max_bitrate bs).trans (model_iso_max_bitrate bs)

end Ts.Props.Ties.Expr
