import Ts.Refl.Tie
import Ts.Gen.Exprs
import Ts.Model.Time
/-!
# Expression ties — timestamps and clock references (audited with C15)

`Ts.Gen.Expr.*` are the bit-field expressions of `/repo/src` as they read NOW, translated by
`tools/gen_exprs.py` (Rust precedence, integer widths, truncating shifts).  Each theorem
`tie_expr_*` proves, for ALL byte values, that the translated expression computes what the
hand-written model's expression computes; each `tie_model_*` (by `rfl`) shows that the model function
really is built from that expression.  A changed mask, shift, byte index, width or operator in the
source therefore breaks a proof obligation here; an equivalent rewrite does not.
-/
namespace Ts.Props.Ties.Expr
open Ts Ts.Refl Ts.Gen.Expr

/-- `Timestamp::from_bytes`: the 33-bit value -/
def mTsVal (e : Env) : Nat := Time.tsVal (e 0) (e 1) (e 2) (e 3) (e 4)
theorem tie_expr_ts_val : ∀ l : List Nat, l.length ≤ 5 → (∀ x ∈ l, x < 256) →
    ts_val (envL l) = mTsVal (envL l) := by
  tie_linear 5

theorem tie_expr_ts_val' (b0 b1 b2 b3 b4 : Nat) (h0 : b0 < 256) (h1 : b1 < 256) (h2 : b2 < 256)
    (h3 : b3 < 256) (h4 : b4 < 256) :
    ts_val (envL [b0, b1, b2, b3, b4]) = Time.tsVal b0 b1 b2 b3 b4 :=
  tie_expr_ts_val [b0, b1, b2, b3, b4] (by simp) (by simp; omega)

/-- `check_prefix`: `buf[0] >> 4` -/
def mPrefix (e : Env) : Nat := e 0 >>> 4
theorem tie_expr_ts_prefix : ∀ x : Fin 256, ts_prefix (envL [x.val]) = mPrefix (envL [x.val]) := by
  decide +kernel
theorem tie_model_ts_prefix (buf : Bytes) (expected : Nat) : Time.checkPrefix buf expected = (do
    assertR (expected ≤ 0b1111) "assert!(expected <= 0b1111)"
    let b0 ← byteAt buf 0
    let actual := mPrefix (envL [b0])
    if actual == expected then pure (.ok ()) else pure (.error (.incorrectPrefix expected actual))) := rfl

/-- `ClockRef::from_slice`: base and extension -/
def mCrefBase (e : Env) : Nat := (e 0 <<< 25) ||| (e 1 <<< 17) ||| (e 2 <<< 9) ||| (e 3 <<< 1) ||| (e 4 >>> 7)
def mCrefExt (e : Env) : Nat := ((e 4 &&& 0b1) <<< 8) ||| e 5
theorem tie_expr_cref_base : ∀ l : List Nat, l.length ≤ 6 → (∀ x ∈ l, x < 256) →
    cref_base (envL l) = mCrefBase (envL l) := by tie_linear 6
theorem tie_expr_cref_ext : ∀ l : List Nat, l.length ≤ 6 → (∀ x ∈ l, x < 256) →
    cref_ext (envL l) = mCrefExt (envL l) := by tie_linear 6
theorem tie_model_cref (d : Bytes) : Time.crefFromSlice d = (do
    let d0 ← byteAt d 0; let d1 ← byteAt d 1; let d2 ← byteAt d 2; let d3 ← byteAt d 3; let d4 ← byteAt d 4
    let base := mCrefBase (envL [d0, d1, d2, d3, d4])
    let d4' ← byteAt d 4
    let d5 ← byteAt d 5
    let ext := mCrefExt (envL [0, 0, 0, 0, d4', d5])
    pure ⟨base, ext⟩) := rfl

end Ts.Props.Ties.Expr
