import Ts.Gen.PesGen
import Ts.Lemmas.C14
import Ts.Props.Ties.StmtPsi
/-!
# Statement-level tie — PES header acceptance (audited with C14 and C08)

`Ts.Gen.PesGen` is `PesHeader::from_bytes`, `PesHeader::contents` and
`PesParsedContents::from_bytes` of `/repo/src/pes.rs` as they read NOW, translated statement by
statement by `tools/gen_pes.py`.  The theorems below prove, for EVERY byte string, that the
translated functions compute exactly the model's `Pes.headerFromBytes`, `Pes.parsedFromBytes`,
`Pes.contents` — the functions C14's `header_accept_iff`, `parsed_accept_iff`, `contents_kind` are
stated over — including the two subtractions the model evaluates for the `warn!` arguments (they
cannot underflow: `tie_stmt_parsed_from_bytes` shows the model never panics there either).
-/
set_option linter.unusedSimpArgs false
namespace Ts.Props.Ties.StmtPes
open Ts Ts.Stmt Ts.Gen Ts.Gen.PesGen Ts.Props.Ties.StmtPsi Ts.Lemmas.C14

/-- `PesHeader::from_bytes`: the same slice comes back when the six fixed bytes are present and start
with `00 00 01` -/
theorem tie_stmt_header_from_bytes (b : Bytes) (src : Option Nat) :
    PesHeader.from_bytes ⟨b, src⟩ = rmap (Option.map fun x => (⟨x, src⟩ : Slice)) (Pes.headerFromBytes b) := by
  unfold PesHeader.from_bytes Pes.headerFromBytes
  simp only [Slice.len, Slice.get, Pes.HDR_FIXED]
  by_cases h : b.length < 6
  · simp only [h, decide_true, if_true, R.pure_eq, rmap_ok, Option.map]
  · have h' : 6 ≤ b.length := by omega
    simp only [h, decide_false, Bool.false_eq_true, if_false, byteAt_ok b 0 (by omega), byteAt_ok b 1 (by omega),
      byteAt_ok b 2 (by omega), R.ok_bind, R.pure_eq]
    split <;> simp [rmap_ok]

/-- `PesParsedContents::from_bytes` -/
theorem tie_stmt_parsed_from_bytes (b : Bytes) (src : Option Nat) :
    PesParsedContents.from_bytes ⟨b, src⟩ = rmap (Option.map fun x => (⟨x, src⟩ : Slice)) (Pes.parsedFromBytes b) := by
  unfold PesParsedContents.from_bytes Pes.parsedFromBytes
  simp only [Slice.len, Slice.get, Pes.FIXED, Pes.hdl, Pes.flagsByte]
  by_cases h : b.length < 3
  · simp only [h, decide_true, if_true, R.pure_eq, rmap_ok, Option.map]
  · have h' : 3 ≤ b.length := by omega
    simp only [h, decide_false, Bool.false_eq_true, if_false, byteAt_ok b 0 (by omega), byteAt_ok b 1 (by omega),
      byteAt_ok b 2 (by omega), R.ok_bind, R.pure_eq]
    by_cases hc : (byteD b 0 >>> 6 != 2) = true
    · simp only [hc, if_true, rmap_ok, Option.map]
    · simp only [hc, Bool.false_eq_true, if_false]
      -- both consistency tests, in whichever order the source makes them
      have hcrc := crcEnd_eq (byteD b 1) (byteD_lt b 1)
      have h3 := three_le_curExt (flagsOfByte (byteD b 1))
      by_cases hh : 3 + byteD b 2 > b.length <;> by_cases hce : curExt (flagsOfByte (byteD b 1)) > 3 + byteD b 2 <;>
        simp only [hh, hce, hcrc, decide_true, decide_false, if_true, if_false, Bool.false_eq_true,
          subR_ok b.length 3 h', subR_ok _ 3 h3, R.ok_bind, rmap_ok, Option.map]

/-- the model's vocabulary for `PesContents` -/
def contentsOf (src : Option Nat) : Pes.Contents → PesContents
  | .parsed c => .Parsed (c.map fun x => ⟨x, src⟩)
  | .payload rest => .Payload ⟨rest, src⟩

/-- `PesHeader::contents`: payload or parsed contents, both views of the bytes after the six fixed ones -/
theorem tie_stmt_contents (b : Bytes) (src : Option Nat) :
    PesHeader.contents ⟨⟨b, src⟩⟩ = rmap (contentsOf (src.map (· + 6))) (Pes.contents b) := by
  unfold PesHeader.contents Pes.contents
  simp only [Pes.HDR_FIXED, Slice.from, R.bind_assoc, R.ok_bind, R.pure_eq, rmap_bind]
  cases sliceFrom b 6 with
  | panic m => rfl
  | ok rest =>
    simp only [R.ok_bind]
    cases Pes.streamId b with
    | panic m => rfl
    | ok sid =>
      simp only [R.ok_bind]
      cases Pes.isParsed sid <;>
        simp only [Bool.not_true, Bool.not_false, Bool.false_eq_true, if_true, if_false, tie_stmt_parsed_from_bytes,
          bind_rmap, rmap_bind, R.pure_eq, rmap_ok, contentsOf]

/-- the model never panics in `parsedFromBytes` (the two subtractions it evaluates for the `warn!`
arguments cannot underflow) -/
theorem parsed_from_bytes_total (b : Bytes) : ∃ o, Pes.parsedFromBytes b = .ok o := by
  unfold Pes.parsedFromBytes
  simp only [Pes.FIXED, Pes.hdl, Pes.flagsByte]
  by_cases h3 : b.length < 3
  · exact ⟨none, by simp only [h3, if_true, R.pure_eq]⟩
  · have h' : 3 ≤ b.length := by omega
    have hcrc := crcEnd_eq (byteD b 1) (byteD_lt b 1)
    have hx := three_le_curExt (flagsOfByte (byteD b 1))
    simp only [h3, if_false, byteAt_ok b 0 (by omega), byteAt_ok b 1 (by omega), byteAt_ok b 2 (by omega),
      R.ok_bind, R.pure_eq, hcrc]
    by_cases hc : (byteD b 0 >>> 6 != 2) = true
    · exact ⟨none, by simp only [hc, if_true]⟩
    · by_cases hh : 3 + byteD b 2 > b.length
      · exact ⟨none, by simp only [hc, hh, Bool.false_eq_true, if_false, if_true, subR_ok b.length 3 h', R.ok_bind]⟩
      · by_cases hce : curExt (flagsOfByte (byteD b 1)) > 3 + byteD b 2
        · exact ⟨none, by simp only [hc, hh, hce, Bool.false_eq_true, if_false, if_true, subR_ok _ 3 hx, R.ok_bind]⟩
        · exact ⟨some b, by simp only [hc, hh, hce, Bool.false_eq_true, if_false]⟩

end Ts.Props.Ties.StmtPes
