import Ts.Refl.Tie
import Ts.Gen.Exprs
import Ts.Model.Tables
/-!
# Expression ties — PAT / PMT bodies (audited with C16)

See `Ts/Props/Ties/ExprTime.lean` for the method.  `Ts.Gen.Expr.pat_*`, `pmt_*` are
translated from `/repo/src/psi/pat.rs`, `psi/pmt.rs` on every run.
-/
namespace Ts.Props.Ties.Expr
open Ts Ts.Refl Ts.Gen.Expr Ts.Tables

def mPatProgramNumber (e : Env) : Nat := (e 0 <<< 8) ||| e 1
def mPatPid (e : Env) : Nat := ((e 2 &&& 0b0001_1111) <<< 8) ||| e 3

theorem tie_expr_pat_program_number : ∀ l : List Nat, l.length ≤ 4 → (∀ x ∈ l, x < 256) →
    pat_program_number (envL l) = mPatProgramNumber (envL l) := by tie_linear 4
theorem tie_expr_pat_pid : ∀ l : List Nat, l.length ≤ 4 → (∀ x ∈ l, x < 256) →
    pat_pid (envL l) = mPatPid (envL l) := by tie_linear 4

theorem tie_model_pat_entry (d : Bytes) : Tables.patEntryFromBytes d = (do
    let d0 ← byteAt d 0; let d1 ← byteAt d 1
    let pn := mPatProgramNumber (envL [d0, d1])
    let d2 ← byteAt d 2; let d3 ← byteAt d 3
    let pid ← pidNew (mPatPid (envL [0, 0, d2, d3]))
    if pn == 0 then pure (.network pid) else pure (.program pn pid)) := rfl

def mPmtPcrPid (e : Env) : Nat := ((e 0 &&& 0b0001_1111) <<< 8) ||| e 1
def mPmtProgramInfoLength (e : Env) : Nat := ((e 2 &&& 0b0000_1111) <<< 8) ||| e 3
def mPmtElementaryPid (e : Env) : Nat := ((e 1 &&& 0b0001_1111) <<< 8) ||| e 2
def mPmtEsInfoLength (e : Env) : Nat := ((e 3 &&& 0b0000_1111) <<< 8) ||| e 4

theorem tie_expr_pmt_pcr_pid : ∀ l : List Nat, l.length ≤ 4 → (∀ x ∈ l, x < 256) →
    pmt_pcr_pid (envL l) = mPmtPcrPid (envL l) := by tie_linear 4
theorem tie_expr_pmt_program_info_length : ∀ l : List Nat, l.length ≤ 4 → (∀ x ∈ l, x < 256) →
    pmt_program_info_length (envL l) = mPmtProgramInfoLength (envL l) := by tie_linear 4
theorem tie_expr_pmt_elementary_pid : ∀ l : List Nat, l.length ≤ 5 → (∀ x ∈ l, x < 256) →
    pmt_elementary_pid (envL l) = mPmtElementaryPid (envL l) := by tie_linear 5
theorem tie_expr_pmt_es_info_length : ∀ l : List Nat, l.length ≤ 5 → (∀ x ∈ l, x < 256) →
    pmt_es_info_length (envL l) = mPmtEsInfoLength (envL l) := by tie_linear 5

theorem tie_model_pmt_from_bytes (data : Bytes) : Tables.pmtFromBytes data = (do
    if data.length < 4 then pure none
    else do
      let d2 ← byteAt data 2; let d3 ← byteAt data 3
      let pil := mPmtProgramInfoLength (envL [0, 0, d2, d3])
      let expected := pil + 4
      if data.length < expected then pure none else pure (some data)) := rfl
theorem tie_model_pmt_pcr_pid (data : Bytes) : Tables.pmtPcrPid data = (do
    let d0 ← byteAt data 0; let d1 ← byteAt data 1
    pidNew (mPmtPcrPid (envL [d0, d1]))) := rfl
theorem tie_model_pmt_program_info_length (data : Bytes) : Tables.pmtProgramInfoLength data = (do
    let d2 ← byteAt data 2; let d3 ← byteAt data 3
    pure (mPmtProgramInfoLength (envL [0, 0, d2, d3]))) := rfl
theorem tie_model_stream_info (data : Bytes) : Tables.streamInfoFromBytes data = (do
    if data.length < 5 then pure none
    else do
      let d3 ← byteAt data 3; let d4 ← byteAt data 4
      let esil := mPmtEsInfoLength (envL [0, 0, 0, d3, d4])
      let descriptorEnd := 5 + esil
      if descriptorEnd > data.length then pure none
      else do
        let st ← byteAt data 0
        let d1 ← byteAt data 1; let d2 ← byteAt data 2
        let pid ← pidNew (mPmtElementaryPid (envL [0, d1, d2]))
        let db ← sliceR data 5 descriptorEnd
        pure (some (⟨st, pid, db⟩, descriptorEnd))) := rfl

end Ts.Props.Ties.Expr
