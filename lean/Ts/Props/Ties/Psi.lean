import Ts.Model.Pes
import Ts.Model.Tables
import Ts.Model.App
import Ts.Model.Values
import Ts.Gen.Consts
/-!
# Ties between the model's literals and constants regenerated from `/repo/src` — part `Psi`

Audited with: C03, C04, C05 (section bounds) (so that a changed constant breaks the proof obligations of exactly the properties
it concerns). See `Ts/Props/Ties.lean` for the general explanation.
-/
namespace Ts.Props.Ties
open Ts Ts.Pes Ts.Tables Ts.Demux

/-- `CrcCheckWholeSectionSyntaxPayloadParser::section`: the minimum length is
`SectionCommonHeader::SIZE + TableSyntaxHeader::SIZE + CRC_SIZE` -/
theorem tie_crc_size (bypassCrc : Bool) (data : Bytes) :
    Psi.crcPass bypassCrc data = (do
      let b1 ← byteAt data 1
      assertR (b1 &&& 0b1000_0000 != 0) "assert!(header.section_syntax_indicator)"
      if data.length < Gen.commonHeaderSize + Gen.tableSyntaxHeaderSize + Gen.crcSize then pure false
      else if bypassCrc then pure true
      else do
        let c ← Crc.sum32 data
        pure (c == 0)) := rfl

/-- `{Section,Compact}SyntaxSectionProcessor::start_section`: each processor compares with ITS OWN
`SECTION_LIMIT`, and with the header sizes -/
theorem tie_section_limits (cfg : Psi.Cfg) (s : Psi.St) (h : Psi.Header) (data : Bytes) (off : Nat) :
    Psi.procStart cfg s h data off = (do
      if cfg.sectionSyntax then do
        if !h.syntaxInd then pure ({ s with ignoreRest := true }, [])
        else if data.length < Gen.commonHeaderSize + Gen.tableSyntaxHeaderSize then
          pure ({ s with ignoreRest := true }, [])
        else if h.sectionLength > Gen.sectionLimitSyntax then pure ({ s with ignoreRest := true }, [])
        else do
          let tb ← sliceFrom data Gen.commonHeaderSize
          assertR (tb.length ≥ Gen.tableSyntaxHeaderSize) "assert!(buf.len() >= Self::SIZE)"
          Psi.dedupStart cfg { s with ignoreRest := false } h data off
      else do
        if h.syntaxInd then pure ({ s with ignoreRest := true }, [])
        else if data.length < Gen.commonHeaderSize then pure ({ s with ignoreRest := true }, [])
        else if h.sectionLength > Gen.sectionLimitCompact then pure ({ s with ignoreRest := true }, [])
        else Psi.dedupStart cfg { s with ignoreRest := false } h data off) := rfl

/-- `SectionCommonHeader::new` / `TableSyntaxHeader::new` size assertions, `Buffer…::start_*_section`'s
`section_length + SectionCommonHeader::SIZE`, and the `TableSyntaxHeader::SIZE` literal of
`Values.tshFields` -/
theorem tie_psi_header_sizes (b : Bytes) (s : Psi.St) (h : Psi.Header) (data : Bytes) (off : Nat) :
    Psi.headerNew b = (do
      assertR (b.length == Gen.commonHeaderSize) "assert_eq!(buf.len(), Self::SIZE)"
      let b0 ← byteAt b 0; let b1 ← byteAt b 1; let b1' ← byteAt b 1; let b1'' ← byteAt b 1; let b2 ← byteAt b 2
      pure ⟨b0, b1 &&& 0b1000_0000 != 0, b1' &&& 0b0100_0000 != 0, ((b1'' &&& 0b0000_1111) <<< 8) ||| b2⟩) ∧
    Psi.tshVersion b = (do
      assertR (b.length ≥ Gen.tableSyntaxHeaderSize) "assert!(buf.len() >= Self::SIZE)"
      let b2 ← byteAt b 2
      pure ((b2 >>> 1) &&& 0b0001_1111)) ∧
    Psi.bufStart s h data off = (do
      let slwh := h.sectionLength + Gen.commonHeaderSize
      if slwh ≤ data.length then do
        let d ← sliceTo data slwh
        pure ({ s with remaining := none }, [⟨d, some off⟩])
      else do
        let toRead ← subR slwh data.length
        pure ({ s with buf := data, remaining := some toRead }, [])) ∧
    Values.tshFields b = (do
      assertR (b.length ≥ Gen.tableSyntaxHeaderSize) "assert!(buf.len() >= Self::SIZE)"
      let b0 ← byteAt b 0; let b1 ← byteAt b 1
      let id := (b0 <<< 8) ||| b1
      let b2 ← byteAt b 2
      let version := (b2 >>> 1) &&& 0b0001_1111
      let b2' ← byteAt b 2
      let cur ← Values.currentNextFrom (b2' &&& 1)
      let b3 ← byteAt b 3; let b4 ← byteAt b 4
      pure ⟨id, version, cur, b3, b4⟩) := ⟨rfl, rfl, rfl, rfl⟩

set_option maxRecDepth 20000 in
/-- `PatProcessor::section` (`demultiplex.rs:525-526`): `start = SectionCommonHeader::SIZE +
TableSyntaxHeader::SIZE` (named in the source); `end = data.len() - 4` (LITERAL in the source,
"remove CRC bytes"), restated with `CRC_SIZE` -/
theorem tie_pat_section_bounds (c : App.Ctx) (reg : List Nat) (data : Bytes) :
    App.patSection c reg data = (do
      let start := Gen.commonHeaderSize + Gen.tableSyntaxHeaderSize
      let end_ ← subR data.length Gen.crcSize
      let body ← sliceR data start end_
      let tableId ← byteAt data 0
      if tableId != 0 then pure (c, reg, [])
      else do
        let entries ← patProgramsAll body
        let (c1, chg) := entries.foldl (fun (acc : App.Ctx × List (Change App.Handler)) e =>
            let req := match e with
              | .program pn pid => App.Req.pmt pid pn
              | .network pid => App.Req.nit pid
            let (h, c') := App.construct acc.1 req
            (c', acc.2 ++ [Change.insert e.pid h])) (c, [])
        let seen := entries.map PatEntry.pid
        let rem ← (App.outdated (reg ++ seen) seen).mapM
          (fun p => do let q ← pidNew p; pure (Change.remove (H := App.Handler) q))
        pure (c1, seen, chg ++ rem)) := rfl

set_option maxRecDepth 20000 in
/-- `PmtProcessor::section` (`demultiplex.rs:387-388`): the same two bounds -/
theorem tie_pmt_section_bounds (c : App.Ctx) (pmtPid : Nat) (reg : List Nat) (data : Bytes) :
    App.pmtSection c pmtPid reg data = (do
      let start := Gen.commonHeaderSize + Gen.tableSyntaxHeaderSize
      let end_ ← subR data.length Gen.crcSize
      let body ← sliceR data start end_
      match ← pmtFromBytes body with
      | none => pure (c, reg, [])
      | some sect => do
        let tableId ← byteAt data 0
        if tableId != 2 then pure (c, reg, [])
        else do
          let streams ← pmtStreams sect
          let pcr ← pmtPcrPid sect
          let progDesc ← pmtDescriptorBytes sect
          if c.cfg.touch then App.touchPmt sect
          let (c1, chg) := streams.foldl (fun (acc : App.Ctx × List (Change App.Handler)) s =>
              let (h, c') := App.construct acc.1 (App.Req.stream pmtPid s.streamType s.pid pcr s.descBytes progDesc)
              (c', acc.2 ++ [Change.insert s.pid h])) (c, [])
          let seen := streams.map StreamInfo.pid
          let rem ← (App.outdated (reg ++ seen) seen).mapM
            (fun p => do let q ← pidNew p; pure (Change.remove (H := App.Handler) q))
          pure (c1, seen, chg ++ rem)) := rfl

end Ts.Props.Ties
