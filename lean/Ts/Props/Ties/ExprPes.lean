import Ts.Refl.Tie
import Ts.Gen.Exprs
import Ts.Model.Pes
/-!
# Expression ties — PES header (audited with C14)

See `Ts/Props/Ties/ExprTime.lean` for the method.  `Ts.Gen.Expr.pes_*` are translated from
`/repo/src/pes.rs` on every run.
-/
namespace Ts.Props.Ties.Expr
open Ts Ts.Refl Ts.Gen.Expr Ts.Pes

/-! ### `PesHeader` -/

def mStartCode (e : Env) : Nat := (e 0 <<< 16) ||| (e 1 <<< 8) ||| e 2
def mPacketLength (e : Env) : Nat := (e 4 <<< 8) ||| e 5

theorem tie_expr_pes_start_code : ∀ l : List Nat, l.length ≤ 3 → (∀ x ∈ l, x < 256) →
    pes_start_code (envL l) = mStartCode (envL l) := by tie_linear 3
theorem tie_expr_pes_packet_length : ∀ l : List Nat, l.length ≤ 6 → (∀ x ∈ l, x < 256) →
    pes_packet_length (envL l) = mPacketLength (envL l) := by tie_linear 6

theorem tie_model_header (buf : Bytes) : Pes.headerFromBytes buf = (do
    if buf.length < HDR_FIXED then pure none
    else do
      let b0 ← byteAt buf 0; let b1 ← byteAt buf 1; let b2 ← byteAt buf 2
      let pfx := mStartCode (envL [b0, b1, b2])
      if pfx != 1 then pure none else pure (some buf)) := rfl
theorem tie_model_packet_length (buf : Bytes) : Pes.pesPacketLength buf = (do
    let b4 ← byteAt buf 4; let b5 ← byteAt buf 5
    pure (mPacketLength (envL [0, 0, 0, 0, b4, b5]))) := rfl

/-! ### `PesParsedContents`: byte 0 (check bits, priority, alignment, copyright, original) -/

def mCheckBits (e : Env) : Nat := e 0 >>> 6
def mPriority (e : Env) : Nat := (e 0 >>> 3) &&& 1
def mAlignment (e : Env) : Bool := e 0 &&& 0b100 != 0
def mCopyright (e : Env) : Bool := e 0 &&& 0b10 != 0
def mOriginal (e : Env) : Bool := e 0 &&& 0b1 != 0

theorem tie_expr_pes_byte0 : ∀ x : Fin 256,
    pes_check_bits (envL [x.val, 0xff, 0xff]) = mCheckBits (envL [x.val])
    ∧ pes_priority (envL [x.val, 0xff, 0xff]) = mPriority (envL [x.val])
    ∧ pes_data_alignment (envL [x.val, 0xff, 0xff]) = mAlignment (envL [x.val])
    ∧ pes_copyright (envL [x.val, 0xff, 0xff]) = mCopyright (envL [x.val])
    ∧ pes_original (envL [x.val, 0xff, 0xff]) = mOriginal (envL [x.val]) := by decide +kernel

theorem tie_model_priority (buf : Bytes) :
    Pes.pesPriority buf = (do let b ← byteAt buf 0; pure (mPriority (envL [b]))) := rfl
theorem tie_model_alignment (buf : Bytes) :
    Pes.dataAlignment buf = (do let b ← byteAt buf 0; pure (mAlignment (envL [b]))) := rfl
theorem tie_model_copyright (buf : Bytes) :
    Pes.copyrightUndefined buf = (do let b ← byteAt buf 0; pure (mCopyright (envL [b]))) := rfl
theorem tie_model_original (buf : Bytes) :
    Pes.original buf = (do let b ← byteAt buf 0; pure (mOriginal (envL [b]))) := rfl
theorem tie_model_parsed_from_bytes (buf : Bytes) : Pes.parsedFromBytes buf = (do
    if buf.length < FIXED then pure none
    else do
      let b0 ← byteAt buf 0
      let checkBits := mCheckBits (envL [b0])
      if checkBits != 0b10 then pure none
      else do
        let h ← hdl buf
        if FIXED + h > buf.length then do
          let _ ← subR buf.length FIXED
          pure none
        else do
          let f ← flagsByte buf
          let ce ← crcEnd f
          if ce > FIXED + h then do
            let _ ← subR ce FIXED
            pure none
          else pure (some buf)) := rfl

/-! ### byte 1 (the seven flags) and byte 2 (header data length) -/

theorem tie_expr_pes_flags : ∀ x : Fin 256,
    pes_pts_dts_flags (envL [0xff, x.val, 0xff]) = Pes.ptsDtsFlags x.val
    ∧ pes_escr_flag (envL [0xff, x.val, 0xff]) = Pes.escrFlag x.val
    ∧ pes_esrate_flag (envL [0xff, x.val, 0xff]) = Pes.esRateFlag x.val
    ∧ pes_trick_flag (envL [0xff, x.val, 0xff]) = Pes.trickFlag x.val
    ∧ pes_copy_info_flag (envL [0xff, x.val, 0xff]) = Pes.aciFlag x.val
    ∧ pes_crc_flag (envL [0xff, x.val, 0xff]) = Pes.crcFlag x.val
    ∧ pes_ext_flag (envL [0xff, x.val, 0xff]) = Pes.extFlag x.val := by decide +kernel
theorem tie_model_flags_byte (buf : Bytes) : Pes.flagsByte buf = byteAt buf 1 := rfl

theorem tie_expr_pes_header_data_len : ∀ x : Fin 256,
    pes_header_data_len (envL [0xff, 0xff, x.val, 0xff]) = x.val := by decide +kernel
theorem tie_model_hdl (buf : Bytes) : Pes.hdl buf = byteAt buf 2 := rfl

/-! ### the flag-dependent end-offset chain (control flow translated from the source: `match` with
its `panic!` arm, `if`, calls) -/

/-- a model result as an option (`none` = the Rust code panics) -/
def rOpt {α : Type} : R α → Option α
  | .ok a => some a
  | .panic _ => none

/-- `pts_dts_end` … `pes_crc_end` as functions of the flags byte (byte 1): same value, and the same
(unreachable: `pts_dts_flags` is two bits) panic arm -/
theorem tie_expr_pes_ends : ∀ x : Fin 256,
    pes_pts_dts_end (envL [0, x.val]) = rOpt (Pes.ptsDtsEnd x.val)
    ∧ pes_escr_end (envL [0, x.val]) = rOpt (Pes.escrEnd x.val)
    ∧ pes_es_rate_end (envL [0, x.val]) = rOpt (Pes.esRateEnd x.val)
    ∧ pes_trick_end (envL [0, x.val]) = rOpt (Pes.trickEnd x.val)
    ∧ pes_copy_info_end (envL [0, x.val]) = rOpt (Pes.aciEnd x.val)
    ∧ pes_crc_end (envL [0, x.val]) = rOpt (Pes.crcEnd x.val) := by decide +kernel

/-- none of them panics, whatever the flags byte -/
theorem code_pes_ends_total : ∀ x : Fin 256, (pes_crc_end (envL [0, x.val])).isSome = true := by
  decide +kernel

/-! ### ESCR, ES_rate -/

def mEscrBase (e : Env) : Nat := Pes.escrBase (e 0) (e 1) (e 2) (e 3) (e 4)
def mEscrExt (e : Env) : Nat := Pes.escrExt (e 4) (e 5)
def mEsRate (e : Env) : Nat := Pes.esRateVal (e 0) (e 1) (e 2)

theorem tie_expr_pes_escr_base : ∀ l : List Nat, l.length ≤ 6 → (∀ x ∈ l, x < 256) →
    pes_escr_base (envL l) = mEscrBase (envL l) := by tie_linear 6
theorem tie_expr_pes_escr_ext : ∀ l : List Nat, l.length ≤ 6 → (∀ x ∈ l, x < 256) →
    pes_escr_ext (envL l) = mEscrExt (envL l) := by tie_linear 6
theorem tie_expr_pes_es_rate : ∀ l : List Nat, l.length ≤ 3 → (∀ x ∈ l, x < 256) →
    pes_es_rate (envL l) = mEsRate (envL l) := by tie_linear 3

/-! ### trick mode, additional copy info, previous CRC -/

def mTrickControl (e : Env) : Nat := e 0 >>> 5
def mTrickData (e : Env) : Nat := e 0 &&& 0b0001_1111
def mTrickFieldId (e : Env) : Nat := e 0 >>> 3
def mTrickIntra (e : Env) : Bool := (e 0 &&& 0b100) != 0
def mTrickFreq (e : Env) : Nat := e 0 &&& 0b11
def mTrickFreezeReserved (e : Env) : Nat := e 0 &&& 0b111

theorem tie_expr_pes_trick : ∀ x : Fin 256,
    pes_trick_control (envL [x.val, 0xff]) = mTrickControl (envL [x.val])
    ∧ pes_trick_data (envL [x.val, 0xff]) = mTrickData (envL [x.val])
    ∧ pes_trick_field_id (envL [x.val, 0xff]) = mTrickFieldId (envL [x.val])
    ∧ pes_trick_intra (envL [x.val, 0xff]) = mTrickIntra (envL [x.val])
    ∧ pes_trick_freq (envL [x.val, 0xff]) = mTrickFreq (envL [x.val])
    ∧ pes_trick_freeze_reserved (envL [x.val, 0xff]) = mTrickFreezeReserved (envL [x.val]) := by
  decide +kernel

theorem tie_model_trick (b : Nat) : Pes.trickOfByte b = (do
    let ctrl := mTrickControl (envL [b])
    let data := mTrickData (envL [b])
    match ctrl with
    | 0 => do let fq ← freqFromId (mTrickFreq (envL [data])); pure (.fastForward (mTrickFieldId (envL [data])) (mTrickIntra (envL [data])) fq)
    | 1 => pure (.slowMotion data)
    | 2 => pure (.freezeFrame (mTrickFieldId (envL [data])) (mTrickFreezeReserved (envL [data])))
    | 3 => do let fq ← freqFromId (mTrickFreq (envL [data])); pure (.fastReverse (mTrickFieldId (envL [data])) (mTrickIntra (envL [data])) fq)
    | 4 => pure (.slowReverse data)
    | _ => pure (.reserved ctrl)) := rfl

def mCopyInfoMarkerClear (e : Env) : Bool := e 0 &&& 0b1000_0000 == 0
def mCopyInfo (e : Env) : Nat := e 0 &&& 0b0111_1111
def mPrevCrc (e : Env) : Nat := (e 0 <<< 8) ||| e 1

theorem tie_expr_pes_copy_info : ∀ x : Fin 256,
    pes_copy_info_marker_clear (envL [x.val, 0xff]) = mCopyInfoMarkerClear (envL [x.val])
    ∧ pes_copy_info (envL [x.val, 0xff]) = mCopyInfo (envL [x.val]) := by decide +kernel
theorem tie_expr_pes_prev_crc : ∀ l : List Nat, l.length ≤ 2 → (∀ x ∈ l, x < 256) →
    pes_prev_crc (envL l) = mPrevCrc (envL l) := by tie_linear 2

theorem tie_model_copy_info (buf : Bytes) : Pes.additionalCopyInfo buf = (do
    let f ← flagsByte buf
    if aciFlag f then do
      let a ← trickEnd f
      match ← headerSlice buf a (a + 1) with
      | .error e => pure (.error e)
      | .ok s => do
        let b ← byteAt s 0
        if mCopyInfoMarkerClear (envL [b]) then pure (.error .markerBitNotSet)
        else pure (.ok (mCopyInfo (envL [b])))
    else pure (.error .fieldNotPresent)) := rfl

theorem tie_model_prev_crc (buf : Bytes) : Pes.previousCrc buf = (do
    let f ← flagsByte buf
    if crcFlag f then do
      let a ← aciEnd f
      match ← headerSlice buf a (a + 2) with
      | .error e => pure (.error e)
      | .ok s => do let s0 ← byteAt s 0; let s1 ← byteAt s 1; pure (.ok (mPrevCrc (envL [s0, s1])))
    else pure (.error .fieldNotPresent)) := rfl

end Ts.Props.Ties.Expr
