import Ts.Props.Ties.ExprSpecCore
import Ts.Props.Ties.ExprPes
import Ts.Lemmas.C14b
import Ts.Lemmas.C16
/-!
# CODE = ISO: the translated expressions of `/repo/src` equal the bit fields of ISO/IEC 13818-1 — part `Pes` (audited with C14)

See `Ts/Props/Ties/ExprSpecCore.lean`. Each `code_*_is_iso` is `(code_model_*).trans (model_iso_*)`: the
model appears only in the two intermediate lemmas, never in the final statement.
-/
namespace Ts.Props.Ties.Expr
open Ts Ts.Refl Ts.Gen.Expr Ts.Spec

theorem code_model_escr_base (bs : Bytes) : pes_escr_base (envB bs) = mEscrBase (envB bs) :=
  tie_on_bytes 6 tie_expr_pes_escr_base (by reads_below pes_escr_base) (by reads_below mEscrBase) bs

theorem code_model_escr_ext (bs : Bytes) : pes_escr_ext (envB bs) = mEscrExt (envB bs) :=
  tie_on_bytes 6 tie_expr_pes_escr_ext (by reads_below pes_escr_ext) (by reads_below mEscrExt) bs

theorem code_model_es_rate (bs : Bytes) : pes_es_rate (envB bs) = mEsRate (envB bs) :=
  tie_on_bytes 3 tie_expr_pes_es_rate (by reads_below pes_es_rate) (by reads_below mEsRate) bs

theorem code_model_pes_packet_length (bs : Bytes) : pes_packet_length (envB bs) = mPacketLength (envB bs) :=
  tie_on_bytes 6 tie_expr_pes_packet_length (by reads_below pes_packet_length)
    (by reads_below mPacketLength) bs

open Ts.Lemmas.C14 Ts.Spec.PesSpec in
theorem model_iso_escr_base (bs : Bytes) :
    mEscrBase (envB bs) = readBits bs 2 3 * 2^30 + readBits bs 6 15 * 2^15 + readBits bs 22 15 := by
  simp only [mEscrBase, envB_byteD]
  rw [escrBase_arith _ _ _ _ _ (byteD_lt bs 0) (byteD_lt bs 1) (byteD_lt bs 2) (byteD_lt bs 3) (byteD_lt bs 4)]
  have e := congrArg EscrVal.base (escrAt_eq bs 0)
  simp only [escrAt, Nat.mul_zero, Nat.zero_add] at e
  exact e.symm

open Ts.Lemmas.C14 Ts.Spec.PesSpec in
theorem model_iso_escr_ext (bs : Bytes) : mEscrExt (envB bs) = readBits bs 38 9 := by
  simp only [mEscrExt, envB_byteD]
  rw [escrExt_arith _ _ (byteD_lt bs 4) (byteD_lt bs 5)]
  have e := congrArg EscrVal.ext (escrAt_eq bs 0)
  simp only [escrAt, Nat.mul_zero, Nat.zero_add] at e
  exact e.symm

open Ts.Lemmas.C14 Ts.Spec.PesSpec in
theorem model_iso_es_rate (bs : Bytes) : mEsRate (envB bs) = readBits bs 1 22 := by
  simp only [mEsRate, envB_byteD]
  have e := esRate_val bs 0
  simp only [esRateAt, Nat.mul_zero, Nat.zero_add] at e
  exact e

open Ts.Lemmas.C16 in
theorem model_iso_pes_packet_length (bs : Bytes) : mPacketLength (envB bs) = readBits bs 32 16 := by
  simp only [mPacketLength, envB_byteD]
  rw [shl8_or _ _ (byteD_lt bs 5)]
  exact (field_0_16 bs 4).symm

/-- ESCR: `ESCR_base` `[32..30]`, `[29..15]`, `[14..0]` -/
theorem code_escr_base_is_iso (bs : Bytes) (_h : 6 ≤ bs.length) :
    pes_escr_base (envB bs) = readBits bs 2 3 * 2^30 + readBits bs 6 15 * 2^15 + readBits bs 22 15 :=
  (code_model_escr_base bs).trans (model_iso_escr_base bs)

/-- ESCR: `ESCR_extension`, 9 bits at bit 38 -/
theorem code_escr_ext_is_iso (bs : Bytes) (_h : 6 ≤ bs.length) : pes_escr_ext (envB bs) = readBits bs 38 9 :=
  (code_model_escr_ext bs).trans (model_iso_escr_ext bs)

/-- `ES_rate`, 22 bits at bit 1 -/
theorem code_es_rate_is_iso (bs : Bytes) (_h : 3 ≤ bs.length) : pes_es_rate (envB bs) = readBits bs 1 22 :=
  (code_model_es_rate bs).trans (model_iso_es_rate bs)

/-- PES packet: `PES_packet_length`, 16 bits at bit 32 -/
theorem code_pes_packet_length_is_iso (bs : Bytes) (_h : 6 ≤ bs.length) :
    pes_packet_length (envB bs) = readBits bs 32 16 :=
  (code_model_pes_packet_length bs).trans (model_iso_pes_packet_length bs)

end Ts.Props.Ties.Expr
