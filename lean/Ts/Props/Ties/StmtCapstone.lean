import Ts.Props.Ties.StmtPsiApp
import Ts.Props.Ties.StmtTables
import Ts.Props.Ties.StmtTablesPmt
/-!
# Capstone: a table handler, from the transport packet to the queued changes, is translated code

`handler_is_translated_path` (StmtPsiApp) says: the model's table handler on one packet is the section
chain translated from `psi/mod.rs` (consumer → processor → de-duplication → buffering → CRC gate)
followed by the model's `patSection` / `pmtSection`.  `tie_stmt_pat_section` / `tie_stmt_pmt_section`
(StmtTables, StmtTablesPmt) say: `patSection` / `pmtSection` are `PatProcessor::section` /
`PmtProcessor::section` translated from `demultiplex.rs`.  This file composes the two: the whole
handler of the model — `Psi.consume` then `App.runDeliveries` — equals (up to which panic message is
reported) a composition that consists ONLY of definitions regenerated from the source on every run,
with the application's `construct` as the one parameter.
-/
set_option linter.unusedSimpArgs false
namespace Ts.Props.Ties.StmtCapstone
open Ts Ts.Psi Ts.Stmt Ts.Demux Ts.App Ts.Gen Ts.Gen.PsiGen Ts.Gen.TablesGen
open Ts.Props.Ties.StmtPsi Ts.Props.Ties.StmtTables

/-- the translated CRC gate over every whole-section call, keeping the calls it makes on the table
processor (header, table-syntax header, data) -/
def gatedH (fz : Bool) : List BufferSectionSyntaxParser.Call → R (List CrcCheckWholeSectionSyntaxPayloadParser.Call)
  | [] => .ok []
  | .«section» h t d :: cs =>
    CrcCheckWholeSectionSyntaxPayloadParser.section fz {} h t d >>= fun r1 =>
      gatedH fz cs >>= fun r2 => .ok (r1.2 ++ r2)

theorem gated_eq_map (fz : Bool) : ∀ cs, gated fz cs = rmap (List.map gateDeliv) (gatedH fz cs) := by
  intro cs
  induction cs with
  | nil => rfl
  | cons c cs ih =>
    rcases c with ⟨h, t, d⟩
    simp only [gated, gatedH, ih, rmap_bind, bind_rmap, rmap_ok, List.map_append]

/-- the header a call carries is the header of the data it carries -/
def HOk : CrcCheckWholeSectionSyntaxPayloadParser.Call → Prop
  | .«section» h _ d => h.tableId = byteD d.bytes 0

/-- the translated CRC gate passes on nothing, or exactly the call it was given (from `tie_stmt_crc`,
so independent of how the gate's tests are ordered in the source) -/
theorem crc_calls (fz : Bool) (h : Psi.Header) (t d : Slice) (h3 : 3 ≤ d.bytes.length)
    (hh : Psi.headerNew (d.bytes.take 3) = .ok h)
    (r : CrcCheckWholeSectionSyntaxPayloadParser.Self × List CrcCheckWholeSectionSyntaxPayloadParser.Call)
    (e : CrcCheckWholeSectionSyntaxPayloadParser.section fz {} h t d = .ok r) :
    r.2 = [] ∨ r.2 = [.«section» h t d] := by
  have k := tie_stmt_crc fz h t d h3 hh
  rw [e] at k
  cases hp : Psi.crcPass fz d.bytes with
  | panic m => rw [hp] at k; cases k
  | ok pass =>
    rw [hp] at k
    simp only [rmap_ok, erase_ok] at k
    have k' := R.ok.inj k
    cases pass
    · exact Or.inl (by simpa using k')
    · exact Or.inr (by simpa using k')

theorem hok_of_hdrOk (h : Psi.Header) (t d : Slice) (h3 : 3 ≤ d.bytes.length)
    (hh : Psi.headerNew (d.bytes.take 3) = .ok h) : HOk (.«section» h t d) := by
  show h.tableId = byteD d.bytes 0
  unfold Psi.headerNew at hh
  have hl : (d.bytes.take 3).length = 3 := by simp; omega
  simp only [hl, COMMON, assertR, BEq.rfl, if_true, R.ok_bind, byteAt_ok _ 0 (by omega : 0 < (d.bytes.take 3).length),
    byteAt_ok _ 1 (by omega : 1 < (d.bytes.take 3).length), byteAt_ok _ 2 (by omega : 2 < (d.bytes.take 3).length),
    R.pure_eq] at hh
  have := R.ok.inj hh
  rw [← this]
  simp only [byteD_take _ 3 0 (by omega)]

/-- everything the gate passes on carries the header of its own data -/
theorem gatedH_hok (fz : Bool) : ∀ (cs : List BufferSectionSyntaxParser.Call), (∀ c ∈ cs, HdrOk c) →
    ∀ r, gatedH fz cs = .ok r → ∀ x ∈ r, HOk x := by
  intro cs
  induction cs with
  | nil => intro _ r e x hx; cases e; cases hx
  | cons c cs ih =>
    intro hall r e x hx
    rcases c with ⟨h, t, d⟩
    have hc : HdrOk (.«section» h t d) := hall _ (List.mem_cons_self ..)
    simp only [gatedH] at e
    obtain ⟨r1, e1, e⟩ := bind_ok_inv _ _ _ e
    obtain ⟨r2, e2, e⟩ := bind_ok_inv _ _ _ e
    cases e
    rcases List.mem_append.mp hx with hx | hx
    · rcases crc_calls fz h t d hc.1 hc.2 r1 e1 with h0 | h1
      · rw [h0] at hx; cases hx
      · rw [h1] at hx
        rw [List.mem_singleton.mp hx]
        exact hok_of_hdrOk h t d hc.1 hc.2
    · exact ih (fun c' hc' => hall c' (List.mem_cons_of_mem _ hc')) r2 e2 x hx

/-- `PatProcessor::section`, as translated, run on every call the gate made -/
def codeRunPat (self : PatProcessor) (c : Ctx) (q : List (Change Handler)) :
    List CrcCheckWholeSectionSyntaxPayloadParser.Call → R (PatProcessor × Ctx × List (Change Handler))
  | [] => .ok (self, c, q)
  | .«section» h _ d :: cs =>
    PatProcessor.«section» appConstruct self c q h d >>= fun r => codeRunPat r.1 r.2.1 r.2.2 cs

/-- … is the model's `patSection` run on the same deliveries -/
theorem codeRunPat_eq : ∀ (cs : List CrcCheckWholeSectionSyntaxPayloadParser.Call), (∀ x ∈ cs, HOk x) →
    ∀ (reg : List Nat) (c : Ctx) (q : List (Change Handler)),
      codeRunPat ⟨reg⟩ c q cs
        = rmap (fun r => ((⟨r.2.1⟩ : PatProcessor), r.1, q ++ r.2.2)) (runPassed patSection c reg (cs.map gateDeliv)) := by
  intro cs
  induction cs with
  | nil => intro _ reg c q; simp [codeRunPat, runPassed]
  | cons x cs ih =>
    intro hall reg c q
    rcases x with ⟨h, t, d⟩
    have hx : HOk (.«section» h t d) := hall _ (List.mem_cons_self ..)
    have ih' := ih (fun c' hc' => hall c' (List.mem_cons_of_mem _ hc'))
    simp only [codeRunPat, List.map_cons, runPassed, gateDeliv, delivOf, tie_stmt_pat_section c reg q h d hx,
      bind_rmap, rmap_bind, rmap_ok, R.bind_assoc]
    cases App.patSection c reg d.bytes with
    | panic m => rfl
    | ok r1 =>
      simp only [R.ok_bind, ih', bind_rmap, rmap_bind, rmap_ok, R.bind_assoc, List.append_assoc]
      cases runPassed patSection r1.1 r1.2.1 (cs.map gateDeliv) with
      | panic m => rfl
      | ok r2 => rfl

/-- `PmtProcessor::section`, as translated, run on every call the gate made -/
def codeRunPmt (self : PmtProcessor) (c : Ctx) (q : List (Change Handler)) :
    List CrcCheckWholeSectionSyntaxPayloadParser.Call → R (PmtProcessor × Ctx × List (Change Handler))
  | [] => .ok (self, c, q)
  | .«section» h _ d :: cs =>
    PmtProcessor.«section» appConstructRaw self c q h d >>= fun r => codeRunPmt r.1 r.2.1 r.2.2 cs

theorem codeRunPmt_eq (pid pn : Nat) : ∀ (cs : List CrcCheckWholeSectionSyntaxPayloadParser.Call), (∀ x ∈ cs, HOk x) →
    ∀ (reg : List Nat) (c : Ctx) (q : List (Change Handler)),
      codeRunPmt ⟨pid, pn, reg⟩ c q cs
        = rmap (fun r => ((⟨pid, pn, r.2.1⟩ : PmtProcessor), r.1, q ++ r.2.2))
            (runPassed (fun c r d => pmtSection c pid r d) c reg (cs.map gateDeliv)) := by
  intro cs
  induction cs with
  | nil => intro _ reg c q; simp [codeRunPmt, runPassed]
  | cons x cs ih =>
    intro hall reg c q
    rcases x with ⟨h, t, d⟩
    have hx : HOk (.«section» h t d) := hall _ (List.mem_cons_self ..)
    have ih' := ih (fun c' hc' => hall c' (List.mem_cons_of_mem _ hc'))
    simp only [codeRunPmt, List.map_cons, runPassed, gateDeliv, delivOf, tie_stmt_pmt_section c pid pn reg q h d hx,
      bind_rmap, rmap_bind, rmap_ok, R.bind_assoc]
    cases App.pmtSection c pid reg d.bytes with
    | panic m => rfl
    | ok r1 =>
      simp only [R.ok_bind, ih', bind_rmap, rmap_bind, rmap_ok, R.bind_assoc, List.append_assoc]
      cases runPassed (fun c r d => pmtSection c pid r d) r1.1 r1.2.1 (cs.map gateDeliv) with
      | panic m => rfl
      | ok r2 => rfl

/-! ### the whole handler, from the transport packet to the queued changes -/

/-- the PAT handler on one transport packet, composed ONLY of definitions translated from the source
(`SectionPacketConsumer::consume` → `SectionSyntaxSectionProcessor` → `DedupSectionSyntaxPayloadParser`
→ `BufferSectionSyntaxParser` → `CrcCheckWholeSectionSyntaxPayloadParser` → `PatProcessor::section`,
the last with the application's `construct`); the changeset is empty on entry -/
def codePatPacket (fz : Bool) (st : TableSt) (self : PatProcessor) (c : Ctx) (pk : Stmt.Pk) :
    R (TableSt × PatProcessor × Ctx × List (Change Handler)) :=
  chainConsumeK fz (tableStepK fz) st pk >>= fun r =>
    gatedH fz r.2 >>= fun calls => rmap (fun x => (r.1, x)) (codeRunPat self c [] calls)

/-- … and a PMT handler -/
def codePmtPacket (fz : Bool) (st : TableSt) (self : PmtProcessor) (c : Ctx) (pk : Stmt.Pk) :
    R (TableSt × PmtProcessor × Ctx × List (Change Handler)) :=
  chainConsumeK fz (tableStepK fz) st pk >>= fun r =>
    gatedH fz r.2 >>= fun calls => rmap (fun x => (r.1, x)) (codeRunPmt self c [] calls)

theorem codePatPacket_eq (fz : Bool) (st : TableSt) (reg : List Nat) (c : Ctx) (pk : Stmt.Pk) :
    codePatPacket fz st ⟨reg⟩ c pk
      = rmap (fun y => (y.1, (⟨y.2.2.1⟩ : PatProcessor), y.2.1, y.2.2.2))
          (tableGated fz st pk >>= fun g => rmap (fun x => (g.1, x)) (runPassed patSection c reg g.2)) := by
  unfold codePatPacket tableGated
  cases hk : chainConsumeK fz (tableStepK fz) st pk with
  | panic m => rfl
  | ok r =>
    have hall := table_calls_hdrOk fz st pk r hk
    simp only [R.ok_bind, gated_eq_map, bind_rmap, rmap_bind, R.bind_assoc, rmap_rmap]
    cases hg : gatedH fz r.2 with
    | panic m => rfl
    | ok calls =>
      have hok := gatedH_hok fz r.2 hall calls hg
      simp only [R.ok_bind, rmap_ok, codeRunPat_eq calls hok, rmap_rmap, List.nil_append]

theorem codePmtPacket_eq (fz : Bool) (st : TableSt) (pid pn : Nat) (reg : List Nat) (c : Ctx) (pk : Stmt.Pk) :
    codePmtPacket fz st ⟨pid, pn, reg⟩ c pk
      = rmap (fun y => (y.1, (⟨pid, pn, y.2.2.1⟩ : PmtProcessor), y.2.1, y.2.2.2))
          (tableGated fz st pk >>= fun g => rmap (fun x => (g.1, x)) (runPassed (fun c r d => pmtSection c pid r d) c reg g.2)) := by
  unfold codePmtPacket tableGated
  cases hk : chainConsumeK fz (tableStepK fz) st pk with
  | panic m => rfl
  | ok r =>
    have hall := table_calls_hdrOk fz st pk r hk
    simp only [R.ok_bind, gated_eq_map, bind_rmap, rmap_bind, R.bind_assoc, rmap_rmap]
    cases hg : gatedH fz r.2 with
    | panic m => rfl
    | ok calls =>
      have hok := gatedH_hok fz r.2 hall calls hg
      simp only [R.ok_bind, rmap_ok, codeRunPmt_eq pid pn calls hok, rmap_rmap, List.nil_append]

/-- **CAPSTONE (PAT).**  For every state of every layer, every registered set, every context and
every 188-byte packet: the model's PAT handler (`Psi.consume`, then `App.runDeliveries patSection`)
and the composition of the definitions translated from `/repo/src` agree — same new state of every
layer, same registered PMT PIDs, same context, same queued changes — and one panics exactly when the
other does. -/
theorem code_pat_handler (s : Psi.St) (reg : List Nat) (c : Ctx) (p : Bytes) (h : p.length = 188) :
    erase (codePatPacket c.cfg.bypassCrc (concTable s) ⟨reg⟩ c (pkOf p))
      = erase (Psi.consume Psi.table s p >>= fun r =>
          rmap (fun x => (concTable r.1, (⟨x.2.1⟩ : PatProcessor), x.1, x.2.2)) (App.runDeliveries patSection c reg r.2)) := by
  rw [codePatPacket_eq]
  have k := erase_rmap (fun y : TableSt × Ctx × List Nat × List (Change Handler) =>
      (y.1, (⟨y.2.2.1⟩ : PatProcessor), y.2.1, y.2.2.2)) (pat_handler_is_translated_path s reg c p h)
  rw [k]
  simp only [rmap_bind, rmap_rmap]

/-- **CAPSTONE (PMT).**  The same for every PMT handler (`pid`, `program_number`). -/
theorem code_pmt_handler (pid pn : Nat) (s : Psi.St) (reg : List Nat) (c : Ctx) (p : Bytes) (h : p.length = 188) :
    erase (codePmtPacket c.cfg.bypassCrc (concTable s) ⟨pid, pn, reg⟩ c (pkOf p))
      = erase (Psi.consume Psi.table s p >>= fun r =>
          rmap (fun x => (concTable r.1, (⟨pid, pn, x.2.1⟩ : PmtProcessor), x.1, x.2.2))
            (App.runDeliveries (fun c r d => pmtSection c pid r d) c reg r.2)) := by
  rw [codePmtPacket_eq]
  have k := erase_rmap (fun y : TableSt × Ctx × List Nat × List (Change Handler) =>
      (y.1, (⟨pid, pn, y.2.2.1⟩ : PmtProcessor), y.2.1, y.2.2.2)) (pmt_handler_is_translated_path pid s reg c p h)
  rw [k]
  simp only [rmap_bind, rmap_rmap]

/-- non-vacuity: the translated composition run on a concrete PAT packet (program 1 → PID 0x100; the
CRC-bypassing build, the sample packet's CRC bytes being arbitrary) registers PID 0x100 and queues one
insert; in the checking build the same packet is stopped by the translated CRC gate -/
example :
    (match codePatPacket true (concTable {}) ⟨[]⟩ { cfg := { bypassCrc := true } } (pkOf patPacket) with
     | .ok r => (r.2.1.1, r.2.2.2.length) | .panic _ => ([], 99)) = ([0x100], 1) ∧
    (match codePatPacket false (concTable {}) ⟨[]⟩ { cfg := {} } (pkOf patPacket) with
     | .ok r => (r.2.1.1, r.2.2.2.length) | .panic _ => ([], 99)) = ([], 0) := by
  decide +kernel

end Ts.Props.Ties.StmtCapstone
