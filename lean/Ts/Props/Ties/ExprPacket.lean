import Ts.Refl.Tie
import Ts.Gen.Exprs
import Ts.Model.Packet
/-!
# Expression ties — transport packet fixed header (audited with C12)

See `Ts/Props/Ties/ExprTime.lean` for the method.  `Ts.Gen.Expr.pk_*`, `ac_*`, `tsc_*`, `cc_follows`
are translated from `/repo/src/packet.rs` on every run.
-/
namespace Ts.Props.Ties.Expr
open Ts Ts.Refl Ts.Gen.Expr

/-! ### header bytes 1 and 2 -/

def mTei (e : Env) : Bool := e 1 &&& 0b1000_0000 != 0
def mPusi (e : Env) : Bool := e 1 &&& 0b0100_0000 != 0
def mPrio (e : Env) : Bool := e 1 &&& 0b0010_0000 != 0
def mPid (e : Env) : Nat := ((e 1 &&& 0b0001_1111) <<< 8) ||| e 2

theorem tie_expr_pk_tei : ∀ x : Fin 256, pk_tei (envL [0, x.val]) = mTei (envL [0, x.val]) := by decide +kernel
theorem tie_expr_pk_pusi : ∀ x : Fin 256, pk_pusi (envL [0, x.val]) = mPusi (envL [0, x.val]) := by decide +kernel
theorem tie_expr_pk_prio : ∀ x : Fin 256, pk_prio (envL [0, x.val]) = mPrio (envL [0, x.val]) := by decide +kernel
theorem tie_expr_pk_pid : ∀ l : List Nat, l.length ≤ 3 → (∀ x ∈ l, x < 256) →
    pk_pid (envL l) = mPid (envL l) := by tie_linear 3

/-- the flag accessors read only byte 1: an index change in the source is caught as well -/
theorem tie_expr_pk_flags_index : ∀ x : Fin 256,
    pk_tei (envL [0xff, x.val, 0xff, 0xff]) = mTei (envL [0, x.val])
    ∧ pk_pusi (envL [0xff, x.val, 0xff, 0xff]) = mPusi (envL [0, x.val])
    ∧ pk_prio (envL [0xff, x.val, 0xff, 0xff]) = mPrio (envL [0, x.val]) := by decide +kernel

theorem tie_model_tei (p : Bytes) : Packet.tei p = (do let b ← byteAt p 1; pure (mTei (envL [0, b]))) := rfl
theorem tie_model_pusi (p : Bytes) : Packet.pusi p = (do let b ← byteAt p 1; pure (mPusi (envL [0, b]))) := rfl
theorem tie_model_prio (p : Bytes) : Packet.prio p = (do let b ← byteAt p 1; pure (mPrio (envL [0, b]))) := rfl
theorem tie_model_pid (p : Bytes) : Packet.pid p = (do
    let b1 ← byteAt p 1; let b2 ← byteAt p 2
    pure (mPid (envL [0, b1, b2]))) := rfl

/-! ### header byte 3: scrambling control, adaptation control, continuity counter -/

def mCc (e : Env) : Nat := e 3 &&& 0b0000_1111
theorem tie_expr_pk_cc : ∀ x : Fin 256,
    pk_cc (envL [0xff, 0xff, 0xff, x.val, 0xff]) = mCc (envL [0, 0, 0, x.val]) := by decide +kernel
theorem tie_model_cc (p : Bytes) : Packet.cc p = (do
    let b ← byteAt p 3
    let v := mCc (envL [0, 0, 0, b])
    assertR (v < 0b10000) "assert!(count < 0b10000)"
    pure v) := rfl

/-- `adaptation_field_length()` is byte 4 -/
theorem tie_expr_pk_af_len : ∀ x : Fin 256, pk_af_len (envL [0xff, 0xff, 0xff, 0xff, x.val, 0xff]) = x.val := by
  decide +kernel
theorem tie_model_af_len (p : Bytes) : Packet.afLen p = byteAt p 4 := rfl

/-- `AdaptationControl::new` keeps the two field bits (F11 repair), and the two predicates applied to
the stored value are the model's predicates on header byte 3 -/
theorem tie_expr_ac : ∀ x : Fin 256,
    ac_new (envL [x.val]) = Packet.adaptationControlRepr x.val
    ∧ ac_has_payload (envL [ac_new (envL [x.val])]) = Packet.hasPayload x.val
    ∧ ac_has_af (envL [ac_new (envL [x.val])]) = Packet.hasAf x.val := by decide +kernel

/-- `TransportScramblingControl::from_byte_four`, `is_scrambled`, `scheme` -/
theorem tie_expr_tsc : ∀ x : Fin 256,
    tsc_new (envL [x.val]) = Packet.scramblingControlRepr x.val
    ∧ tsc_is_scrambled (envL [tsc_new (envL [x.val])]) = Packet.isScrambled x.val
    ∧ tsc_scheme (envL [tsc_new (envL [x.val])]) = Packet.scheme x.val := by decide +kernel

/-- `ContinuityCounter::follows` on the 16 × 16 counter values (`u8` addition cannot overflow there) -/
theorem tie_expr_cc_follows : ∀ other self : Fin 16,
    cc_follows (envL [other.val, self.val]) = Packet.follows self.val other.val := by decide +kernel

end Ts.Props.Ties.Expr
