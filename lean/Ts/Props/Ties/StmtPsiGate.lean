import Ts.Props.Ties.StmtPsi
/-!
# Statement-level tie, continued — the PAT / PMT chain INCLUDING the CRC gate (audited with C04)

`Ts/Props/Ties/StmtPsi.lean` maps the whole-section calls of the buffering layer to the model's
deliveries at once, and `tie_stmt_crc` takes as a hypothesis that the header handed to the CRC gate
was parsed from the first three bytes of the same data.  Here that hypothesis is *proved of the
composed translation*: the chain is run keeping the calls (`…K` functions, header and table-syntax
header included), every `section` call it emits satisfies `HdrOk` (`table_calls_hdrOk`), the
`K` chain projects onto the delivery chain (`tableStepK_deliv`), and therefore the translated
consumer → processor → de-duplication → buffering → CRC gate, composed, passes on exactly the
deliveries of the model's `Psi.consume` that the model's `crcPass` lets through
(`code_consume_table_gated`).
-/
set_option linter.unusedSimpArgs false
namespace Ts.Props.Ties.StmtPsi
open Ts Ts.Psi Ts.Stmt Ts.Gen.PsiGen Ts.Lemmas.C03

/-! ### generic facts about `foldCalls` / `thenCalls` -/

theorem foldCalls_all {σ C D : Type} (f : σ → C → R (σ × List D)) (P : C → Prop) (Q : D → Prop)
    (hf : ∀ s c r, P c → f s c = .ok r → ∀ d ∈ r.2, Q d) :
    ∀ (cs : List C) (s : σ) (r : σ × List D), (∀ c ∈ cs, P c) → foldCalls f s cs = .ok r → ∀ d ∈ r.2, Q d := by
  intro cs
  induction cs with
  | nil => intro s r _ e; cases e; intro d hd; cases hd
  | cons c cs ih =>
    intro s r hP e
    unfold foldCalls at e
    cases h1 : f s c with
    | panic m => rw [h1] at e; cases e
    | ok r1 =>
      rw [h1] at e
      simp only [R.ok_bind] at e
      cases h2 : foldCalls f r1.1 cs with
      | panic m => rw [h2] at e; cases e
      | ok r2 =>
        rw [h2] at e
        simp only [R.ok_bind] at e
        cases e
        intro d hd
        rcases List.mem_append.mp hd with hd | hd
        · exact hf s c r1 (hP c (List.mem_cons_self ..)) h1 d hd
        · exact ih r1.1 r2 (fun c' hc' => hP c' (List.mem_cons_of_mem _ hc')) h2 d hd

theorem thenCalls_all {σ τ C D : Type} (x : R (σ × List C)) (f : τ → C → R (τ × List D)) (t : τ)
    (P : C → Prop) (Q : D → Prop) (hx : ∀ r, x = .ok r → ∀ c ∈ r.2, P c)
    (hf : ∀ s c r, P c → f s c = .ok r → ∀ d ∈ r.2, Q d) :
    ∀ r, thenCalls x f t = .ok r → ∀ d ∈ r.2, Q d := by
  intro r e
  unfold thenCalls at e
  cases h1 : x with
  | panic m => rw [h1] at e; cases e
  | ok r1 =>
    rw [h1] at e
    simp only [R.ok_bind] at e
    cases h2 : foldCalls f t r1.2 with
    | panic m => rw [h2] at e; cases e
    | ok r2 =>
      rw [h2] at e
      simp only [R.ok_bind] at e
      cases e
      exact foldCalls_all f P Q hf r1.2 t r2 (hx r1 h1) h2

/-- post-processing the outputs of every step is post-processing the outputs of the fold -/
theorem foldCalls_map {σ C D E : Type} (f : σ → C → R (σ × List D)) (g : D → E) :
    ∀ (cs : List C) (s : σ),
      foldCalls (fun s c => rmap (fun r => (r.1, r.2.map g)) (f s c)) s cs
        = rmap (fun r => (r.1, r.2.map g)) (foldCalls f s cs) := by
  intro cs
  induction cs with
  | nil => intro s; rfl
  | cons c cs ih =>
    intro s
    unfold foldCalls
    cases f s c with
    | panic m => rfl
    | ok r1 =>
      simp only [rmap_ok, R.ok_bind]
      rw [ih r1.1]
      cases foldCalls f r1.1 cs with
      | panic m => rfl
      | ok r2 => simp [List.map_append]

theorem thenCalls_map {σ τ C D E : Type} (x : R (σ × List C)) (f : τ → C → R (τ × List D)) (g : D → E) (t : τ) :
    thenCalls x (fun s c => rmap (fun r => (r.1, r.2.map g)) (f s c)) t
      = rmap (fun r => (r.1, r.2.map g)) (thenCalls x f t) := by
  unfold thenCalls
  cases x with
  | panic m => rfl
  | ok r1 =>
    simp only [R.ok_bind]
    rw [foldCalls_map]
    cases foldCalls f t r1.2 with
    | panic m => rfl
    | ok r2 => rfl

/-! ### the chain keeping its calls -/

def callDeliv : BufferSectionSyntaxParser.Call → Delivery
  | .«section» _ _ x => delivOf x

def bufSStepK (fz : Bool) (b : BufferSectionSyntaxParser.Self) :
    DedupSectionSyntaxPayloadParser.Call → R (BufferSectionSyntaxParser.Self × List BufferSectionSyntaxParser.Call)
  | .start_syntax_section h t d => BufferSectionSyntaxParser.start_syntax_section fz b h t d
  | .continue_syntax_section d => BufferSectionSyntaxParser.continue_syntax_section fz b d
  | .reset => BufferSectionSyntaxParser.reset fz b

theorem bufSStep_eq (fz : Bool) :
    bufSStep fz = fun b c => rmap (fun r => (r.1, r.2.map callDeliv)) (bufSStepK fz b c) := by
  funext b c
  cases c <;> rfl

def dbStepK (fz : Bool) (db : DB) (c : SectionSyntaxSectionProcessor.Call) : R (DB × List BufferSectionSyntaxParser.Call) :=
  thenCalls (dedupStep fz db.1 c) (bufSStepK fz) db.2

theorem dbStep_eq (fz : Bool) :
    dbStep fz = fun db c => rmap (fun r => (r.1, r.2.map callDeliv)) (dbStepK fz db c) := by
  funext db c
  unfold dbStep dbStepK
  rw [bufSStep_eq, thenCalls_map]

def tableStepK (fz : Bool) (st : TableSt) (c : SectionPacketConsumer.Call) :
    R (TableSt × List BufferSectionSyntaxParser.Call) :=
  thenCalls (procStep fz st.1 c) (dbStepK fz) st.2

theorem tableStep_eq (fz : Bool) :
    tableStep fz = fun st c => rmap (fun r => (r.1, r.2.map callDeliv)) (tableStepK fz st c) := by
  funext st c
  unfold tableStep overS tableStepK
  rw [dbStep_eq, thenCalls_map]

def chainConsumeK {σ D : Type} (fz : Bool) (step : σ → SectionPacketConsumer.Call → R (σ × List D))
    (st : σ) (pk : Pk) : R (σ × List D) :=
  rmap (fun r => (r.1.2, r.2)) (thenCalls (SectionPacketConsumer.consume fz {} pk) step st)

/-- the delivery chain is the call-keeping chain with each `section` call read as a delivery -/
theorem chainConsume_table_eq (fz : Bool) (st : TableSt) (pk : Pk) :
    chainConsume fz (tableStep fz) st pk
      = rmap (fun r => (r.1, r.2.map callDeliv)) (chainConsumeK fz (tableStepK fz) st pk) := by
  unfold chainConsume chainConsumeK
  rw [tableStep_eq, thenCalls_map, rmap_rmap, rmap_rmap]

/-! ### the header travels unchanged from `consume` to the whole-section call -/

def HdrOk : BufferSectionSyntaxParser.Call → Prop
  | .«section» h _ d => 3 ≤ d.bytes.length ∧ Psi.headerNew (d.bytes.take 3) = .ok h
def OkD : DedupSectionSyntaxPayloadParser.Call → Prop
  | .start_syntax_section h _ d => 3 ≤ d.bytes.length ∧ Psi.headerNew (d.bytes.take 3) = .ok h
  | _ => True
def OkS : SectionSyntaxSectionProcessor.Call → Prop
  | .start_syntax_section h _ d => 3 ≤ d.bytes.length ∧ Psi.headerNew (d.bytes.take 3) = .ok h
  | _ => True
def OkC : SectionPacketConsumer.Call → Prop
  | .start_section h d => 3 ≤ d.bytes.length ∧ Psi.headerNew (d.bytes.take 3) = .ok h
  | _ => True

theorem mem_singleton_or_nil {α : Type} {P : α → Prop} {l : List α} (x : α) (h : l = [x] ∨ l = []) (hx : P x) :
    ∀ y ∈ l, P y := by
  intro y hy
  rcases h with rfl | rfl
  · simp at hy; rw [hy]; exact hx
  · cases hy

theorem consume_calls_ok (fz : Bool) (s : SectionPacketConsumer.Self) (pk : Pk) (r : SectionPacketConsumer.Self × List SectionPacketConsumer.Call)
    (e : SectionPacketConsumer.consume fz s pk = .ok r) : ∀ c ∈ r.2, OkC c := by
  unfold SectionPacketConsumer.consume at e
  rcases pk with ⟨pl, us⟩
  cases pl with
  | none => simp only [R.pure_eq] at e; cases e; intro c hc; cases hc
  | some pb =>
    simp only [] at e
    cases us
    · simp only [Bool.false_eq_true, if_false, R.pure_eq, List.nil_append] at e
      cases e; intro c hc; simp at hc; rw [hc]; trivial
    · simp only [if_true, Slice.get, Slice.len] at e
      cases h0 : byteAt pb.bytes 0 with
      | panic m => rw [h0] at e; cases e
      | ok pointer =>
        rw [h0] at e; simp only [R.ok_bind] at e
        cases h1 : pb.from 1 with
        | panic m => rw [h1] at e; cases e
        | ok sd =>
          rw [h1] at e; simp only [R.ok_bind] at e
          have fin : ∀ (pre : List SectionPacketConsumer.Call) (ns : Slice) (r' : SectionPacketConsumer.Self × List SectionPacketConsumer.Call),
              (∀ c ∈ pre, OkC c) →
              (if decide (ns.bytes.length < 3) = true then (R.ok (s, pre ++ [SectionPacketConsumer.Call.reset]) : R _)
                else ns.upto 3 >>= fun t => Stmt.headerNew t >>= fun h => R.ok (s, pre ++ [SectionPacketConsumer.Call.start_section h ns])) = .ok r' →
              ∀ c ∈ r'.2, OkC c := by
            intro pre ns r' hpre e'
            by_cases h3 : ns.bytes.length < 3
            · simp only [h3, decide_true, if_true] at e'
              cases e'
              intro c hc
              rcases List.mem_append.mp hc with hc | hc
              · exact hpre c hc
              · simp at hc; rw [hc]; trivial
            · have h3' : 3 ≤ ns.bytes.length := by omega
              simp only [h3, decide_false, Bool.false_eq_true, if_false, upto_ok ns 3 h3', R.ok_bind, Stmt.headerNew] at e'
              cases hh : Psi.headerNew (List.take 3 ns.bytes) with
              | panic m => rw [hh] at e'; cases e'
              | ok h =>
                rw [hh] at e'; simp only [R.ok_bind] at e'
                cases e'
                intro c hc
                rcases List.mem_append.mp hc with hc | hc
                · exact hpre c hc
                · simp at hc; rw [hc]; exact ⟨h3', hh⟩
          by_cases hp : pointer > 0
          · simp only [hp, decide_true, if_true] at e
            by_cases hge : pointer ≥ sd.bytes.length
            · simp only [hge, decide_true, if_true, R.pure_eq, List.nil_append] at e
              cases e; intro c hc; simp at hc; rw [hc]; trivial
            · simp only [hge, decide_false, Bool.false_eq_true, if_false] at e
              cases h2 : sd.upto pointer with
              | panic m => rw [h2] at e; cases e
              | ok rem =>
                rw [h2] at e; simp only [R.ok_bind, List.nil_append] at e
                cases h3 : sd.from pointer with
                | panic m => rw [h3] at e; cases e
                | ok ns =>
                  rw [h3] at e; simp only [R.ok_bind, R.pure_eq] at e
                  refine fin [SectionPacketConsumer.Call.continue_section rem] ns r ?_ ?_
                  · intro c hc; simp at hc; rw [hc]; trivial
                  · exact e
          · simp only [hp, decide_false, Bool.false_eq_true, if_false] at e
            cases h3 : sd.from pointer with
            | panic m => rw [h3] at e; cases e
            | ok ns =>
              rw [h3] at e; simp only [R.ok_bind, R.pure_eq] at e
              refine fin [] ns r ?_ ?_
              · intro c hc; cases hc
              · exact e

theorem procStep_ok (fz : Bool) (p : SectionSyntaxSectionProcessor.Self) (c : SectionPacketConsumer.Call)
    (r : SectionSyntaxSectionProcessor.Self × List SectionSyntaxSectionProcessor.Call)
    (hc : OkC c) (e : procStep fz p c = .ok r) : ∀ c' ∈ r.2, OkS c' := by
  cases c with
  | continue_section d =>
    unfold procStep SectionSyntaxSectionProcessor.continue_section at e
    simp only [R.pure_eq, List.nil_append] at e
    split at e <;> cases e <;> intro c' hc'
    · simp at hc'; rw [hc']; trivial
    · cases hc'
  | reset =>
    unfold procStep SectionSyntaxSectionProcessor.reset at e
    simp only [R.pure_eq, List.nil_append] at e
    cases e; intro c' hc'; simp at hc'; rw [hc']; trivial
  | start_section h d =>
    unfold procStep SectionSyntaxSectionProcessor.start_section at e
    simp only [R.pure_eq, List.nil_append] at e
    split at e
    · cases e; intro c' hc'; cases hc'
    · split at e
      · cases e; intro c' hc'; cases hc'
      · split at e
        · cases e; intro c' hc'; cases hc'
        · cases h1 : d.from 3 with
          | panic m => rw [h1] at e; cases e
          | ok t1 =>
            rw [h1] at e; simp only [R.ok_bind] at e
            cases h2 : Stmt.tshNew t1 with
            | panic m => rw [h2] at e; cases e
            | ok t2 =>
              rw [h2] at e; simp only [R.ok_bind] at e
              cases e
              intro c' hc'; simp at hc'; rw [hc']; exact hc

theorem dedupStep_ok (fz : Bool) (d : DedupSectionSyntaxPayloadParser.Self) (c : SectionSyntaxSectionProcessor.Call)
    (r : DedupSectionSyntaxPayloadParser.Self × List DedupSectionSyntaxPayloadParser.Call)
    (hc : OkS c) (e : dedupStep fz d c = .ok r) : ∀ c' ∈ r.2, OkD c' := by
  cases c with
  | continue_syntax_section x =>
    unfold dedupStep DedupSectionSyntaxPayloadParser.continue_syntax_section at e
    simp only [R.pure_eq, List.nil_append] at e
    split at e <;> cases e <;> intro c' hc'
    · simp at hc'; rw [hc']; trivial
    · cases hc'
  | reset =>
    unfold dedupStep DedupSectionSyntaxPayloadParser.reset at e
    simp only [R.pure_eq, List.nil_append] at e
    cases e; intro c' hc'; simp at hc'; rw [hc']; trivial
  | start_syntax_section h t x =>
    unfold dedupStep DedupSectionSyntaxPayloadParser.start_syntax_section at e
    simp only [R.pure_eq, List.nil_append] at e
    cases hv : Stmt.tshVersion t with
    | panic m =>
      cases hl : d.last_version <;> simp only [hl, hv, R.panic_bind] at e <;> cases e
    | ok v =>
      cases hl : d.last_version with
      | none =>
        simp only [hl, hv, R.ok_bind] at e
        cases e; intro c' hc'; simp at hc'; rw [hc']; exact hc
      | some last =>
        simp only [hl, hv, R.ok_bind] at e
        split at e
        · cases e; intro c' hc'; cases hc'
        · cases e; intro c' hc'; simp at hc'; rw [hc']; exact hc

theorem bufSStepK_ok (fz : Bool) (b : BufferSectionSyntaxParser.Self) (c : DedupSectionSyntaxPayloadParser.Call)
    (r : BufferSectionSyntaxParser.Self × List BufferSectionSyntaxParser.Call)
    (hc : OkD c) (e : bufSStepK fz b c = .ok r) : ∀ c' ∈ r.2, HdrOk c' := by
  cases c with
  | reset =>
    unfold bufSStepK BufferSectionSyntaxParser.reset at e
    simp only [R.pure_eq] at e
    cases e; intro c' hc'; cases hc'
  | start_syntax_section h t d =>
    obtain ⟨h3, hh⟩ := hc
    unfold bufSStepK BufferSectionSyntaxParser.start_syntax_section at e
    simp only [R.pure_eq, List.nil_append, Slice.len] at e
    by_cases hle : h.sectionLength + 3 ≤ d.bytes.length
    · simp only [hle, decide_true, if_true, upto_ok d _ hle, R.ok_bind] at e
      cases e
      intro c' hc'; simp at hc'; rw [hc']
      refine ⟨by simp; omega, ?_⟩
      show Psi.headerNew (List.take 3 (List.take (h.sectionLength + 3) d.bytes)) = R.ok h
      rw [List.take_take, Nat.min_eq_left (by omega)]
      exact hh
    · simp only [hle, decide_false, Bool.false_eq_true, if_false] at e
      cases hs : subR (h.sectionLength + 3) d.bytes.length with
      | panic m => rw [hs] at e; cases e
      | ok n => rw [hs] at e; simp only [R.ok_bind] at e; cases e; intro c' hc'; cases hc'
  | continue_syntax_section d =>
    unfold bufSStepK BufferSectionSyntaxParser.continue_syntax_section at e
    cases hst : b.state with
    | Complete => simp only [hst, R.pure_eq] at e; cases e; intro c' hc'; cases hc'
    | Buffering n =>
      simp only [hst, R.pure_eq, List.nil_append] at e
      have hl : d.len = d.bytes.length := rfl
      have hsplit : ∃ nr : Nat,
          ((if (nr == 0) = true then
              d.upto n >>= fun t3 => (Slice.ofVec (b.buf ++ t3.bytes)).upto 3 >>= fun t4 => Stmt.headerNew t4 >>= fun t5 =>
                (Slice.ofVec (b.buf ++ t3.bytes)).from 3 >>= fun t6 => Stmt.tshNew t6 >>= fun t7 =>
                  R.ok (({ buf := b.buf ++ t3.bytes, state := BufferSectionState.Complete } : BufferSectionSyntaxParser.Self),
                    [BufferSectionSyntaxParser.Call.«section» t5 t7 (Slice.ofVec (b.buf ++ t3.bytes))])
            else R.ok ({ buf := b.buf ++ d.bytes, state := BufferSectionState.Buffering nr }, [])) = R.ok r) := by
        -- `if len > remaining { 0 } else { remaining - len }`, `saturating_sub`, … : however it is spelled
        -- (`newRem1-3`), what follows only needs SOME new remaining count
        try simp only [newRem1, newRem2, newRem3, R.ok_bind] at e
        exact ⟨n - d.len, e⟩
      obtain ⟨nr, e⟩ := hsplit
      split at e
      · cases h1 : d.upto n with
        | panic m => rw [h1] at e; cases e
        | ok t3 =>
          rw [h1] at e; simp only [R.ok_bind] at e
          by_cases hb : 3 ≤ (b.buf ++ t3.bytes).length
          · simp only [Slice.ofVec, upto_ok ⟨b.buf ++ t3.bytes, none⟩ 3 hb, R.ok_bind, Stmt.headerNew] at e
            cases h2 : Psi.headerNew (List.take 3 (b.buf ++ t3.bytes)) with
            | panic m => rw [h2] at e; cases e
            | ok hd =>
              rw [h2] at e; simp only [R.ok_bind] at e
              cases h3 : Slice.from { bytes := b.buf ++ t3.bytes, src := none } 3 with
              | panic m => rw [h3] at e; cases e
              | ok t6 =>
                rw [h3] at e; simp only [R.ok_bind] at e
                cases h4 : Stmt.tshNew t6 with
                | panic m => rw [h4] at e; cases e
                | ok t7 =>
                  rw [h4] at e; simp only [R.ok_bind] at e
                  cases e
                  intro c' hc'; simp at hc'; rw [hc']
                  exact ⟨hb, h2⟩
          · have : (Slice.ofVec (b.buf ++ t3.bytes)).upto 3 = .panic "range end index out of range" := by
              unfold Slice.upto sliceTo Slice.ofVec
              have h3 : 3 > (b.buf ++ t3.bytes).length := by omega
              simp only [h3, if_true]
              rfl
            rw [this] at e; cases e
      · cases e; intro c' hc'; cases hc'

/-- every whole-section call the composed PAT / PMT chain makes carries the header parsed from the
first three bytes of the very data it hands over -/
theorem tableStepK_hdrOk (fz : Bool) (st : TableSt) (c : SectionPacketConsumer.Call)
    (r : TableSt × List BufferSectionSyntaxParser.Call) (hc : OkC c) (e : tableStepK fz st c = .ok r) :
    ∀ x ∈ r.2, HdrOk x := by
  unfold tableStepK at e
  refine thenCalls_all (procStep fz st.1 c) (dbStepK fz) st.2 OkS HdrOk ?_ ?_ r e
  · intro r1 e1; exact procStep_ok fz st.1 c r1 hc e1
  · intro db c1 r2 hc1 e2
    unfold dbStepK at e2
    refine thenCalls_all (dedupStep fz db.1 c1) (bufSStepK fz) db.2 OkD HdrOk ?_ ?_ r2 e2
    · intro r3 e3; exact dedupStep_ok fz db.1 c1 r3 hc1 e3
    · intro b c2 r4 hc2 e4; exact bufSStepK_ok fz b c2 r4 hc2 e4

theorem table_calls_hdrOk (fz : Bool) (st : TableSt) (pk : Pk) (r : TableSt × List BufferSectionSyntaxParser.Call)
    (e : chainConsumeK fz (tableStepK fz) st pk = .ok r) : ∀ x ∈ r.2, HdrOk x := by
  unfold chainConsumeK at e
  cases h1 : thenCalls (SectionPacketConsumer.consume fz {} pk) (tableStepK fz) st with
  | panic m => rw [h1] at e; cases e
  | ok r1 =>
    rw [h1] at e
    simp only [rmap_ok] at e
    cases e
    refine thenCalls_all (SectionPacketConsumer.consume fz {} pk) (tableStepK fz) st OkC HdrOk ?_ ?_ r1 h1
    · intro r0 e0; exact consume_calls_ok fz {} pk r0 e0
    · intro s c r2 hc e2; exact tableStepK_hdrOk fz s c r2 hc e2

/-! ### the CRC gate over the whole-section calls -/

theorem erase_bind_congr {α β : Type} {x x' : R α} {g g' : α → R β}
    (hx : erase x = erase x') (hg : ∀ a, erase (g a) = erase (g' a)) : erase (x >>= g) = erase (x' >>= g') := by
  cases x with
  | ok a =>
    cases x' with
    | ok a' =>
      have : a = a' := by simpa [erase] using hx
      subst this
      exact hg a
    | panic m => simp [erase] at hx
  | panic m =>
    cases x' with
    | ok a' => simp [erase] at hx
    | panic m' => rfl

theorem erase_rmap {α β : Type} {x x' : R α} (f : α → β) (hx : erase x = erase x') :
    erase (rmap f x) = erase (rmap f x') := by
  cases x <;> cases x' <;> simp [erase] at hx ⊢
  · rw [hx]

def gateDeliv : CrcCheckWholeSectionSyntaxPayloadParser.Call → Delivery
  | .«section» _ _ x => delivOf x

/-- every whole-section call handed to the translated CRC gate, in order; what the gate passes on
(to the PAT / PMT table processor) as deliveries -/
def gated (fz : Bool) : List BufferSectionSyntaxParser.Call → R (List Delivery)
  | [] => .ok []
  | .«section» h t d :: cs =>
    CrcCheckWholeSectionSyntaxPayloadParser.section fz {} h t d >>= fun r1 =>
      gated fz cs >>= fun r2 => .ok (r1.2.map gateDeliv ++ r2)

/-- the model: the deliveries that `crcPass` lets through (`App.runDeliveries` filters with it) -/
def gatedM (fz : Bool) : List Delivery → R (List Delivery)
  | [] => .ok []
  | d :: ds => Psi.crcPass fz d.bytes >>= fun p => gatedM fz ds >>= fun r => .ok ((if p then [d] else []) ++ r)

theorem gate_ok (fz : Bool) : ∀ (cs : List BufferSectionSyntaxParser.Call), (∀ c ∈ cs, HdrOk c) →
    erase (gated fz cs) = erase (gatedM fz (cs.map callDeliv)) := by
  intro cs
  induction cs with
  | nil => intro _; rfl
  | cons c cs ih =>
    intro hall
    rcases c with ⟨h, t, d⟩
    have hc : HdrOk (.«section» h t d) := hall _ (List.mem_cons_self ..)
    have ih' := ih (fun c' hc' => hall c' (List.mem_cons_of_mem _ hc'))
    have key := tie_stmt_crc fz h t d hc.1 hc.2
    show erase (CrcCheckWholeSectionSyntaxPayloadParser.section fz {} h t d >>= fun r1 =>
        gated fz cs >>= fun r2 => R.ok (r1.2.map gateDeliv ++ r2))
      = erase (Psi.crcPass fz d.bytes >>= fun p =>
        gatedM fz (cs.map callDeliv) >>= fun r => R.ok ((if p then [delivOf d] else []) ++ r))
    have e1 : (CrcCheckWholeSectionSyntaxPayloadParser.section fz {} h t d >>= fun r1 =>
        gated fz cs >>= fun r2 => R.ok (r1.2.map gateDeliv ++ r2))
        = rmap (fun r => r.2) (CrcCheckWholeSectionSyntaxPayloadParser.section fz {} h t d) >>= fun l =>
          gated fz cs >>= fun r2 => R.ok (l.map gateDeliv ++ r2) := by
      rw [bind_rmap]
    have e2 : (Psi.crcPass fz d.bytes >>= fun p =>
        gatedM fz (cs.map callDeliv) >>= fun r => R.ok ((if p then [delivOf d] else []) ++ r))
        = rmap (fun pass => if pass then [CrcCheckWholeSectionSyntaxPayloadParser.Call.«section» h t d] else [])
            (Psi.crcPass fz d.bytes) >>= fun l =>
          gatedM fz (cs.map callDeliv) >>= fun r2 => R.ok (l.map gateDeliv ++ r2) := by
      rw [bind_rmap]
      congr 1
      funext p
      cases p <;> rfl
    rw [e1, e2]
    refine erase_bind_congr key ?_
    intro l
    exact erase_bind_congr ih' (fun _ => rfl)

/-- what reaches the table processor from one packet: the translated consumer → section-syntax
processor → de-duplication → buffering → CRC gate, composed -/
def tableGated (fz : Bool) (st : TableSt) (pk : Pk) : R (TableSt × List Delivery) :=
  chainConsumeK fz (tableStepK fz) st pk >>= fun r => rmap (fun ds => (r.1, ds)) (gated fz r.2)

/-- CODE = MODEL for the whole PAT / PMT section path, CRC gate included: on every 188-byte packet
and from every state of every layer, the composed translation hands the table processor exactly the
deliveries of the model's `Psi.consume` that the model's `crcPass` lets through (both builds), and
panics exactly when the model does -/
theorem code_consume_table_gated (fz : Bool) (s : St) (p : Bytes) (h : p.length = 188) :
    erase (tableGated fz (concTable s) (pkOf p))
      = erase (Psi.consume Psi.table s p >>= fun r => rmap (fun ds => (concTable r.1, ds)) (gatedM fz r.2)) := by
  have hcode := code_consume_table fz s p h
  rw [chainConsume_table_eq] at hcode
  unfold tableGated
  cases hk : chainConsumeK fz (tableStepK fz) (concTable s) (pkOf p) with
  | panic m =>
    rw [hk] at hcode
    cases hm : Psi.consume Psi.table s p with
    | panic m' => rfl
    | ok r' => rw [hm] at hcode; cases hcode
  | ok r =>
    rw [hk] at hcode
    cases hm : Psi.consume Psi.table s p with
    | panic m' => rw [hm] at hcode; cases hcode
    | ok r' =>
      rw [hm] at hcode
      simp only [rmap_ok] at hcode
      have h1 : r.1 = concTable r'.1 := congrArg (fun x => x.1) (R.ok.inj hcode)
      have h2 : r.2.map callDeliv = r'.2 := congrArg (fun x => x.2) (R.ok.inj hcode)
      simp only [R.ok_bind]
      rw [h1, ← h2]
      exact erase_rmap _ (gate_ok fz r.2 (table_calls_hdrOk fz (concTable s) (pkOf p) r hk))

end Ts.Props.Ties.StmtPsi
