import Ts.Model.Pes
import Ts.Model.Tables
import Ts.Model.App
import Ts.Model.Values
import Ts.Lemmas.C19b
import Ts.Gen.Consts
/-!
# Ties between the model's literals and constants regenerated from `/repo/src` — part `Bounds`

Audited with: C19, C18 (so that a changed constant breaks the proof obligations of exactly the properties
it concerns). See `Ts/Props/Ties.lean` for the general explanation.
-/
namespace Ts.Props.Ties
open Ts Ts.Pes Ts.Tables Ts.Demux

/-- `PatProcessor` / `PmtProcessor`: the `FixedBitSet`s have `Pid::PID_COUNT = MAX_VALUE + 1` bits, so
`difference` ranges over that many PIDs -/
theorem tie_pid_count (registered seen : List Nat) :
    App.outdated registered seen =
      (List.range (Gen.pidMax + 1)).filter (fun p => registered.contains p && !seen.contains p) := rfl

/-- C19's invariant `Bounded` (a proof-side definition, `Ts/Lemmas/C19b.lean`) bounds the table
length by `PID_COUNT = MAX_VALUE + 1`, and its packet/script hypotheses speak of PIDs up to
`MAX_VALUE` and packets of `Packet::SIZE` bytes -/
theorem tie_bounded_pid_count (t : Tab App.Handler) (pk : Pk) (cfg : App.Cfg) :
    (Lemmas.C19.Bounded t ↔
      t.length ≤ Gen.pidMax + 1 ∧ ∀ p h, t.get p = some h → Lemmas.C19.HOk h) ∧
    (Lemmas.C19.PkOk pk ↔ pk.bytes.length = Gen.packetSize ∧ pk.pid < Gen.pidMax + 1) ∧
    (Lemmas.C19.ScriptOk cfg ↔
      ∀ k ops, (k, ops) ∈ cfg.script → ∀ op ∈ ops, Lemmas.C19.opPid op < Gen.pidMax + 1) :=
  ⟨Iff.rfl, Iff.rfl, Iff.rfl⟩

/-- C19's reassembly-buffer bound (proof-side `PsiBnd`, `Ts/Lemmas/C19b.lean`): 1024 is
`SECTION_LIMIT + SectionCommonHeader::SIZE` (the longest section the processors let through, with
its 3-byte header), and `ChgOk` bounds queued PIDs by `PID_COUNT`.  `RETAINED_MAX` =
`PID_COUNT` slots × (1 + that buffer bound + two `PID_COUNT`-bit sets of `PID_COUNT / 8` bytes each),
cf. `Ts.Props.C19.retained_max_value`. -/
theorem tie_psi_buffer_bound (s : Psi.St) (ch : Change App.Handler) :
    (Lemmas.C19.PsiBnd s ↔ Lemmas.C03.PsiInv .syntax s ∧
      s.buf.length ≤ Gen.sectionLimitSyntax + Gen.commonHeaderSize) ∧
    (Lemmas.C19.ChgOk ch ↔
      ch.pid < Gen.pidMax + 1 ∧ ∀ h, ch.val = some h → Lemmas.C19.HOk h) ∧
    Lemmas.C19.RETAINED_MAX = (Gen.pidMax + 1) *
      (1 + (Gen.sectionLimitSyntax + Gen.commonHeaderSize) + 2 * ((Gen.pidMax + 1) / 8)) :=
  ⟨Iff.rfl, Iff.rfl, by decide⟩



/-- the recorder's script lookup (harness application, `/verif/harness/src/app.rs`) indexes packets
by `offset / 188` -/
theorem tie_script_index (tag : Nat) (c : App.Ctx) (pk : Pk) :
    App.consume (.recorder tag) c pk = (do
      if c.cfg.touch then App.touchPacket pk.bytes
      let c1 := c.emit (.pkt tag pk.off)
      match c.cfg.script.lookup (pk.off / Gen.packetSize) with
      | some ops =>
        let (c2, chg) := App.scriptChanges c1 ops
        pure (.recorder tag, c2, chg)
      | none => pure (.recorder tag, c1, [])) := rfl

end Ts.Props.Ties
