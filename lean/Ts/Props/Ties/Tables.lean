import Ts.Model.Pes
import Ts.Model.Tables
import Ts.Model.App
import Ts.Model.Values
import Ts.Gen.Consts
/-!
# Ties between the model's literals and constants regenerated from `/repo/src` — part `Tables`

Audited with: C16 (so that a changed constant breaks the proof obligations of exactly the properties
it concerns). See `Ts/Props/Ties.lean` for the general explanation.
-/
namespace Ts.Props.Ties
open Ts Ts.Pes Ts.Tables Ts.Demux

/-- `ProgramIter::next` splits off `4` bytes per PAT entry -/
theorem tie_pat_entry_size (fuel : Nat) (buf : Bytes) :
    patPrograms (fuel + 1) buf =
      (if buf.isEmpty then .ok []
       else if buf.length < Gen.patEntrySize then .ok []
       else do
         let e ← patEntryFromBytes (buf.take Gen.patEntrySize)
         let rest ← patPrograms fuel (buf.drop Gen.patEntrySize)
         pure (e :: rest)) := rfl

/-- `PmtSection::from_bytes`, `descriptors`, `streams`: `PmtSection::HEADER_SIZE` -/
theorem tie_pmt_header_size (data : Bytes) :
    pmtFromBytes data = (do
      if data.length < Gen.pmtHeaderSize then pure none
      else do
        let d2 ← byteAt data 2; let d3 ← byteAt data 3
        let pil := ((d2 &&& 0b0000_1111) <<< 8) ||| d3
        let expected := pil + Gen.pmtHeaderSize
        if data.length < expected then pure none else pure (some data)) ∧
    pmtDescriptorBytes data = (do
      let pil ← pmtProgramInfoLength data
      sliceR data Gen.pmtHeaderSize (Gen.pmtHeaderSize + pil)) ∧
    pmtStreams data = (do
      let pil ← pmtProgramInfoLength data
      let descriptorEnd := Gen.pmtHeaderSize + pil
      if descriptorEnd > data.length then do
        let e ← sliceR data 0 0
        streamIter (e.length + 1) e
      else do
        let r ← sliceFrom data descriptorEnd
        streamIter (r.length + 1) r) := ⟨rfl, rfl, rfl⟩

/-- `StreamInfo::from_bytes` / `descriptors`: `StreamInfo::HEADER_SIZE` -/
theorem tie_stream_info_header_size (data : Bytes) :
    streamInfoFromBytes data = (do
      if data.length < Gen.streamInfoHeaderSize then pure none
      else do
        let d3 ← byteAt data 3; let d4 ← byteAt data 4
        let esil := ((d3 &&& 0b0000_1111) <<< 8) ||| d4
        let descriptorEnd := Gen.streamInfoHeaderSize + esil
        if descriptorEnd > data.length then pure none
        else do
          let st ← byteAt data 0
          let d1 ← byteAt data 1; let d2 ← byteAt data 2
          let pid ← pidNew (((d1 &&& 0b0001_1111) <<< 8) ||| d2)
          let db ← sliceR data Gen.streamInfoHeaderSize descriptorEnd
          pure (some (⟨st, pid, db⟩, descriptorEnd))) := rfl

end Ts.Props.Ties
