import Ts.Model.Pes
import Ts.Model.Tables
import Ts.Model.App
import Ts.Model.Values
import Ts.Gen.Consts
/-!
# Ties between the model's literals and constants regenerated from `/repo/src` — part `Time`

Audited with: C15 (so that a changed constant breaks the proof obligations of exactly the properties
it concerns). See `Ts/Props/Ties.lean` for the general explanation.
-/
namespace Ts.Props.Ties
open Ts Ts.Pes Ts.Tables Ts.Demux

/-- `ClockRef::from_parts`: both assertions -/
theorem tie_cref_from_parts (base ext : Nat) :
    Time.crefFromParts base ext = (do
      assertR (base < Gen.crefBaseBound) "assert!(base < (1 << 33))"
      assertR (ext < Gen.crefExtBound) "assert!(extension < (1 << 9))"
      pure ⟨base, ext⟩) := rfl

/-- `Timestamp::likely_wrapped_since` compares with `Timestamp::MAX.val / 2` -/
theorem tie_ts_max_wrap (self since : Nat) :
    Time.likelyWrappedSince self since = (decide (self ≤ since) && decide (since - self > Gen.tsMax / 2)) := rfl

/-- `Timestamp::from_u64` (the model takes the bound as an argument; every property theorem passes
`Gen.tsFromU64Bound`): with the regenerated bound it accepts exactly the values up to the MODEL's
`Time.MAX` (= `Timestamp::MAX`, `Ts.Props.C15.tie_model_max_gen`).  Breaks when the asserted bound
and `MAX + 1` come apart. -/
theorem tie_from_u64_accepts_to_max (v : Nat) :
    (Time.fromU64 Gen.tsFromU64Bound v).isOk = true ↔ v ≤ Time.MAX := by
  have hb : Gen.tsFromU64Bound = 8589934592 := rfl
  have hm : Time.MAX = 8589934591 := by decide
  unfold Time.fromU64 assertR
  rw [hb, hm]
  by_cases c : v < 8589934592
  · simp only [c, decide_true, if_true, R.ok_bind, R.pure_eq]
    exact ⟨fun _ => by omega, fun _ => rfl⟩
  · simp only [c, decide_false, Bool.false_eq_true, if_false, R.panic_bind]
    exact ⟨fun h => (by cases h), fun h => (by omega)⟩

end Ts.Props.Ties
