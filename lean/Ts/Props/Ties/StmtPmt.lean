import Ts.Gen.PmtGen
import Ts.Lemmas.C16
import Ts.Props.Ties.StmtIters
/-!
# Statement-level tie — the PMT stream loop (audited with C16)

`Ts.Gen.PmtGen` is `PmtSection::from_bytes`, `PmtSection::streams`, `StreamInfo::from_bytes` and
`StreamInfoIter::next` of `/repo/src/psi/pmt.rs` as they read NOW, translated statement by statement
by `tools/gen_pmt.py`.  The code keeps a stream entry as a *view* of the remaining bytes and reads
its fields on demand; the model (`Tables.streamInfoFromBytes`) reads them at once.  The theorems
below prove: acceptance and length of an entry are the specification's (`streamFits`,
`5 + esInfoLength`), the view is the input, and the model's run-to-exhaustion `streamIter` /
`pmtStreams` ARE the translated `next` iterated, with each yielded view read through the
specification's `streamAt` — so C16's `pmt_streams_tile` / `pmt_roundtrip` speak about the loop
the source contains today.
-/
set_option linter.unusedSimpArgs false
namespace Ts.Props.Ties.StmtPmt
open Ts Ts.Stmt Ts.Gen Ts.Gen.PmtGen Ts.Props.Ties.StmtPsi Ts.Props.Ties.StmtIters Ts.Lemmas.C16
open Ts.Spec Ts.Spec.TableSpec Ts.Tables

/-- `PmtSection::from_bytes` -/
theorem tie_stmt_pmt_from_bytes (b : Bytes) (src : Option Nat) :
    PmtSection.from_bytes ⟨b, src⟩ = rmap (Option.map fun x => (⟨x, src⟩ : Slice)) (Tables.pmtFromBytes b) := by
  unfold PmtSection.from_bytes Tables.pmtFromBytes Tables.pmtProgramInfoLength
  simp only [Slice.len]
  by_cases h : b.length < 4
  · simp only [h, decide_true, if_true, R.pure_eq, rmap_ok, Option.map]
  · simp only [h, decide_false, Bool.false_eq_true, if_false, byteAt_ok b 2 (by omega), byteAt_ok b 3 (by omega),
      R.ok_bind, R.pure_eq]
    by_cases h2 : b.length < ((byteD b 2 &&& 15) <<< 8 ||| byteD b 3) + 4
    · simp only [h2, decide_true, if_true, rmap_ok, Option.map]
    · simp only [h2, decide_false, Bool.false_eq_true, if_false, rmap_ok, Option.map]

/-- `StreamInfo::from_bytes`, closed form: an entry is accepted exactly when it fits, its view is the
input and its encoded length is `5 + ES_info_length` -/
theorem stream_info_from_bytes (b : Bytes) (src : Option Nat) :
    StreamInfo.from_bytes ⟨b, src⟩ = .ok (if streamFits b then some (⟨b, src⟩, 5 + esInfoLength b) else none) := by
  unfold StreamInfo.from_bytes Stmt.esInfoLen
  simp only [Slice.len]
  by_cases h5 : b.length < 5
  · have : ¬ streamFits b := by unfold streamFits; omega
    simp only [h5, decide_true, if_true, R.pure_eq, this, if_false]
  · simp only [h5, decide_false, Bool.false_eq_true, if_false, byteAt_ok b 3 (by omega), byteAt_ok b 4 (by omega),
      R.ok_bind, R.pure_eq]
    rw [mask12 _ _ (byteD_lt b 3) (byteD_lt b 4), ← st_esil]
    by_cases h2 : 5 + readBits b 28 12 > b.length
    · have : ¬ streamFits b := by unfold streamFits esInfoLength; omega
      simp only [h2, decide_true, if_true, this, if_false]
    · have hf : streamFits b := by unfold streamFits esInfoLength; omega
      simp only [h2, decide_false, Bool.false_eq_true, if_false, hf, if_true, esInfoLength]

/-- … and the model's `streamInfoFromBytes` agrees on acceptance and length, its record being the
specification's reading of the same bytes -/
theorem tie_stmt_stream_info_from_bytes (b : Bytes) (src : Option Nat) :
    rmap (Option.map fun r => ((streamAt r.1.bytes).info, r.2)) (StreamInfo.from_bytes ⟨b, src⟩)
      = Tables.streamInfoFromBytes b := by
  rw [stream_info_from_bytes, streamInfo_eq]
  by_cases hf : streamFits b <;> simp [hf]

/-- one call of `StreamInfoIter::next`, in closed form -/
theorem stream_next (b : Bytes) (src : Option Nat) :
    StreamInfoIter.next ⟨⟨b, src⟩⟩ =
      (if b.isEmpty then .ok (⟨⟨b, src⟩⟩, none)
       else if streamFits b then
         .ok (⟨⟨b.drop (5 + esInfoLength b), src.map (· + (5 + esInfoLength b))⟩⟩, some ⟨b, src⟩)
       else .ok (⟨⟨b, src⟩⟩, none)) := by
  unfold StreamInfoIter.next
  by_cases he : b.isEmpty = true
  · simp only [he, if_true, R.pure_eq]
  · simp only [he, Bool.false_eq_true, if_false, stream_info_from_bytes, R.ok_bind]
    by_cases hf : streamFits b
    · simp only [hf, if_true, from_ok ⟨b, src⟩ _ hf.2, R.ok_bind, R.pure_eq]
    · simp only [hf, if_false, R.pure_eq]

/-- `StreamInfoIter`: the model's `streamIter` is the translated `next` iterated, each view read
through the specification's `streamAt` -/
theorem tie_stmt_stream_iter (fuel : Nat) : ∀ (b : Bytes) (src : Option Nat),
    rmap (List.map fun v => (streamAt v.bytes).info) (iterate StreamInfoIter.next fuel ⟨⟨b, src⟩⟩)
      = Tables.streamIter fuel b := by
  induction fuel with
  | zero => intro b src; rfl
  | succ n ih =>
    intro b src
    unfold iterate Tables.streamIter
    rw [stream_next, streamInfo_eq]
    by_cases he : b.isEmpty = true
    · simp only [he, if_true, R.ok_bind, rmap_ok, List.map_nil]
    · simp only [he, Bool.false_eq_true, if_false]
      by_cases hf : streamFits b
      · simp only [hf, if_true, R.ok_bind, sliceFrom_ok b _ hf.2, R.pure_eq, rmap_bind]
        rw [← ih (List.drop (5 + esInfoLength b) b) (Option.map (· + (5 + esInfoLength b)) src)]
        cases iterate StreamInfoIter.next n ⟨⟨List.drop (5 + esInfoLength b) b, Option.map (· + (5 + esInfoLength b)) src⟩⟩ with
        | panic m => rfl
        | ok l => rfl
      · simp only [hf, if_false, R.ok_bind, rmap_ok, List.map_nil, R.pure_eq]

/-- `PmtSection::streams()` run to exhaustion is the model's `pmtStreams` -/
theorem tie_stmt_pmt_streams (b : Bytes) (src : Option Nat) :
    rmap (List.map fun v => (streamAt v.bytes).info)
        (PmtSection.streams ⟨b, src⟩ >>= fun it => iterate StreamInfoIter.next (it.buf.bytes.length + 1) it)
      = Tables.pmtStreams b := by
  unfold PmtSection.streams Tables.pmtStreams
  simp only [Slice.len, R.bind_assoc]
  cases Tables.pmtProgramInfoLength b with
  | panic m => rfl
  | ok pil =>
    simp only [R.ok_bind]
    -- whichever way round the source writes the bounds test
    by_cases hg : 4 + pil > b.length
    · have hsub : Slice.sub ⟨b, src⟩ 0 0 = .ok ⟨[], src.map (· + 0)⟩ := by unfold Slice.sub sliceR; simp
      have hm : sliceR b 0 0 = .ok [] := by unfold sliceR; simp
      have hg' : ¬ 4 + pil ≤ b.length := by omega
      simp only [hg, hg', decide_true, decide_false, Bool.false_eq_true, if_true, if_false, hsub, hm, R.ok_bind, R.pure_eq]
      exact tie_stmt_stream_iter _ [] _
    · have hle : 4 + pil ≤ b.length := by omega
      simp only [hg, hle, decide_true, decide_false, Bool.false_eq_true, if_true, if_false, from_ok ⟨b, src⟩ _ hle,
        sliceFrom_ok b _ hle, R.ok_bind, R.pure_eq]
      exact tie_stmt_stream_iter _ _ _

end Ts.Props.Ties.StmtPmt
