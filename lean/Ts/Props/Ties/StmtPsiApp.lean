import Ts.Props.Ties.StmtPsiGate
import Ts.Model.App
/-!
# From the translated section chain to the application model (audited with C04)

`App.consume` hands the deliveries of `Psi.consume` to `App.runDeliveries`, which asks `crcPass` for
each one and runs the table processor on those that pass.  `runDeliveries_gated` separates the two:
(up to which of two panics is reported first) `runDeliveries` is "filter with `crcPass`" —
`gatedM`, which `code_consume_table_gated` proves equal to the translated CRC gate composed with
the translated chain — followed by the table processor on what passed.  So the PAT / PMT handler
of the model is: the section path *as translated from the source*, then `patSection` /
`pmtSection` (the hand-written part of the model).
-/
namespace Ts.Props.Ties.StmtPsi
open Ts Ts.Psi Ts.Stmt Ts.Demux Ts.App

abbrev SectFn := Ctx → List Nat → Bytes → R (Ctx × List Nat × List (Change Handler))

/-- the table processor run on every delivery of a list (no gate) -/
def runPassed (sect : SectFn) (c : Ctx) (reg : List Nat) : List Delivery → R (Ctx × List Nat × List (Change Handler))
  | [] => .ok (c, reg, [])
  | d :: ds =>
    sect c reg d.bytes >>= fun r1 => runPassed sect r1.1 r1.2.1 ds >>= fun r2 => .ok (r2.1, r2.2.1, r1.2.2 ++ r2.2.2)

theorem erase_bind_comm {α β γ : Type} (x : R α) (y : R β) (k : α → β → R γ) :
    erase (x >>= fun a => y >>= fun b => k a b) = erase (y >>= fun b => x >>= fun a => k a b) := by
  cases x <;> cases y <;> rfl

theorem runPassed_nil_append (sect : SectFn) (c : Ctx) (reg : List Nat) (ds : List Delivery) :
    runPassed sect c reg ([] ++ ds) = runPassed sect c reg ds := rfl

/-- `runDeliveries` = the CRC filter, then the table processor on what passed -/
theorem runDeliveries_gated (sect : SectFn) (hcfg : ∀ c reg d r, sect c reg d = .ok r → r.1.cfg = c.cfg) :
    ∀ (ds : List Delivery) (c : Ctx) (reg : List Nat),
      erase (App.runDeliveries sect c reg ds)
        = erase (gatedM c.cfg.bypassCrc ds >>= fun ps => runPassed sect c reg ps) := by
  intro ds
  induction ds with
  | nil => intro c reg; rfl
  | cons d ds ih =>
    intro c reg
    unfold App.runDeliveries gatedM
    simp only [R.bind_assoc, R.ok_bind]
    cases hp : Psi.crcPass c.cfg.bypassCrc d.bytes with
    | panic m => rfl
    | ok p =>
      simp only [R.ok_bind]
      cases p
      · simp only [Bool.false_eq_true, if_false, List.nil_append]
        exact ih c reg
      · simp only [if_true, List.singleton_append]
        -- right-hand side: `gatedM rest` first, then `sect` on `d`; commute them (up to the panic reported)
        have hr : erase (gatedM c.cfg.bypassCrc ds >>= fun r => runPassed sect c reg (d :: r))
            = erase (sect c reg d.bytes >>= fun r1 => gatedM c.cfg.bypassCrc ds >>= fun r =>
                runPassed sect r1.1 r1.2.1 r >>= fun r2 => R.ok (r2.1, r2.2.1, r1.2.2 ++ r2.2.2)) := by
          show erase (gatedM c.cfg.bypassCrc ds >>= fun r => sect c reg d.bytes >>= fun r1 =>
              runPassed sect r1.1 r1.2.1 r >>= fun r2 => R.ok (r2.1, r2.2.1, r1.2.2 ++ r2.2.2)) = _
          exact erase_bind_comm _ _ _
        rw [hr]
        cases hs : sect c reg d.bytes with
        | panic m => rfl
        | ok r1 =>
          rcases r1 with ⟨c1, reg1, chg1⟩
          simp only [R.ok_bind]
          have hc1 : c1.cfg = c.cfg := hcfg c reg d.bytes _ hs
          rw [← hc1]
          have := ih c1 reg1
          -- both sides continue with the same pure post-processing of the recursive result
          have h2 : ∀ (x y : R (Ctx × List Nat × List (Change Handler))), erase x = erase y →
              erase (x >>= fun r2 => R.ok (r2.1, r2.2.1, chg1 ++ r2.2.2)) = erase (y >>= fun r2 => R.ok (r2.1, r2.2.1, chg1 ++ r2.2.2)) :=
            fun x y h => erase_bind_congr h (fun _ => rfl)
          have h3 := h2 _ _ this
          simpa [R.bind_assoc] using h3

/-! ### the two table processors keep the configuration -/

theorem construct_cfg' (c : Ctx) (req : Req) : (construct c req).2.cfg = c.cfg := by
  unfold construct
  split <;> try rfl
  simp only []
  split <;> rfl

theorem foldl_cfg {α : Type} (f : Ctx × List (Change Handler) → α → Ctx × List (Change Handler))
    (hf : ∀ acc a, (f acc a).1.cfg = acc.1.cfg) :
    ∀ (l : List α) (acc : Ctx × List (Change Handler)), (l.foldl f acc).1.cfg = acc.1.cfg := by
  intro l
  induction l with
  | nil => intro acc; rfl
  | cons a l ih => intro acc; rw [List.foldl_cons, ih, hf]

theorem bind_ok_inv {α β : Type} (x : R α) (f : α → R β) (r : β) (e : (x >>= f) = .ok r) :
    ∃ a, x = .ok a ∧ f a = .ok r := by
  cases x with
  | ok a => exact ⟨a, rfl, e⟩
  | panic m => cases e

theorem patSection_cfg (c : Ctx) (reg : List Nat) (d : Bytes) (r : Ctx × List Nat × List (Change Handler))
    (e : patSection c reg d = .ok r) : r.1.cfg = c.cfg := by
  unfold patSection at e
  cases h1 : subR d.length 4 with
  | panic m => rw [h1] at e; cases e
  | ok en =>
    rw [h1] at e; simp only [R.ok_bind] at e
    cases h2 : sliceR d 8 en with
    | panic m => rw [h2] at e; cases e
    | ok body =>
      rw [h2] at e; simp only [R.ok_bind] at e
      cases h3 : byteAt d 0 with
      | panic m => rw [h3] at e; cases e
      | ok tid =>
        rw [h3] at e; simp only [R.ok_bind] at e
        split at e
        · cases e; rfl
        · cases h4 : Tables.patProgramsAll body with
          | panic m => rw [h4] at e; cases e
          | ok entries =>
            rw [h4] at e; simp only [R.ok_bind] at e
            generalize hfold : List.foldl _ (c, ([] : List (Change Handler))) entries = acc at e
            have hacc : acc.1.cfg = c.cfg := by
              rw [← hfold]
              refine foldl_cfg _ ?_ entries (c, [])
              intro acc a
              exact construct_cfg' _ _
            obtain ⟨rem, _, hr⟩ := bind_ok_inv _ _ _ e
            cases hr
            exact hacc

theorem pmtSection_cfg (pid : Nat) (c : Ctx) (reg : List Nat) (d : Bytes) (r : Ctx × List Nat × List (Change Handler))
    (e : pmtSection c pid reg d = .ok r) : r.1.cfg = c.cfg := by
  unfold pmtSection at e
  obtain ⟨en, _, e⟩ := bind_ok_inv _ _ _ e
  obtain ⟨body, _, e⟩ := bind_ok_inv _ _ _ e
  obtain ⟨o, _, e⟩ := bind_ok_inv _ _ _ e
  cases o with
  | none => cases e; rfl
  | some sect =>
    simp only [] at e
    obtain ⟨tid, _, e⟩ := bind_ok_inv _ _ _ e
    split at e
    · cases e; rfl
    · obtain ⟨streams, _, e⟩ := bind_ok_inv _ _ _ e
      obtain ⟨pcr, _, e⟩ := bind_ok_inv _ _ _ e
      obtain ⟨pd, _, e⟩ := bind_ok_inv _ _ _ e
      have fin : ∀ (e' : (List.mapM (fun p => Tables.pidNew p >>= fun q => (pure (Change.remove q) : R (Change Handler)))
            (outdated (reg ++ List.map Tables.StreamInfo.pid streams) (List.map Tables.StreamInfo.pid streams)) >>= fun rem =>
            (pure ((List.foldl (fun (acc : Ctx × List (Change Handler)) (s : Tables.StreamInfo) =>
                ((construct acc.fst (Req.stream pid s.streamType s.pid pcr s.descBytes pd)).snd,
                  acc.snd ++ [Change.insert s.pid (construct acc.fst (Req.stream pid s.streamType s.pid pcr s.descBytes pd)).fst]))
                (c, []) streams).fst, List.map Tables.StreamInfo.pid streams,
              (List.foldl (fun (acc : Ctx × List (Change Handler)) (s : Tables.StreamInfo) =>
                ((construct acc.fst (Req.stream pid s.streamType s.pid pcr s.descBytes pd)).snd,
                  acc.snd ++ [Change.insert s.pid (construct acc.fst (Req.stream pid s.streamType s.pid pcr s.descBytes pd)).fst]))
                (c, []) streams).snd ++ rem) : R (Ctx × List Nat × List (Change Handler)))) = .ok r),
          r.1.cfg = c.cfg := by
        intro e'
        obtain ⟨rem, _, hr⟩ := bind_ok_inv _ _ _ e'
        cases hr
        refine foldl_cfg _ ?_ streams (c, [])
        intro acc a
        exact construct_cfg' _ _
      split at e
      · obtain ⟨u, _, e⟩ := bind_ok_inv _ _ _ e
        exact fin e
      · exact fin e

/-- the section path of a table handler of the MODEL on one packet — `Psi.consume`, then
`runDeliveries` with the table processor `sect` — is (up to which panic is reported) the section path
TRANSLATED FROM THE SOURCE (consumer → processor → de-duplication → buffering → CRC gate, composed),
followed by `sect` on what the gate passed on -/
theorem handler_is_translated_path (sect : SectFn) (hcfg : ∀ c reg d r, sect c reg d = .ok r → r.1.cfg = c.cfg)
    (s : Psi.St) (reg : List Nat) (c : Ctx) (p : Bytes) (h : p.length = 188) :
    erase (tableGated c.cfg.bypassCrc (concTable s) (pkOf p) >>= fun g =>
        rmap (fun x => (g.1, x)) (runPassed sect c reg g.2))
      = erase (Psi.consume Psi.table s p >>= fun r =>
        rmap (fun x => (concTable r.1, x)) (App.runDeliveries sect c reg r.2)) := by
  have A := code_consume_table_gated c.cfg.bypassCrc s p h
  have L := erase_bind_congr (g := fun g => rmap (fun x => (g.1, x)) (runPassed sect c reg g.2))
    (g' := fun g => rmap (fun x => (g.1, x)) (runPassed sect c reg g.2)) A (fun _ => rfl)
  rw [L]
  simp only [R.bind_assoc, bind_rmap]
  refine erase_bind_congr rfl ?_
  intro r
  have := erase_rmap (fun x => (concTable r.1, x)) (runDeliveries_gated sect hcfg r.2 c reg)
  rw [this, rmap_bind]

/-- … for the PAT handler … -/
theorem pat_handler_is_translated_path (s : Psi.St) (reg : List Nat) (c : Ctx) (p : Bytes) (h : p.length = 188) :
    erase (tableGated c.cfg.bypassCrc (concTable s) (pkOf p) >>= fun g =>
        rmap (fun x => (g.1, x)) (runPassed patSection c reg g.2))
      = erase (Psi.consume Psi.table s p >>= fun r =>
        rmap (fun x => (concTable r.1, x)) (App.runDeliveries patSection c reg r.2)) :=
  handler_is_translated_path patSection patSection_cfg s reg c p h

/-- … and for every PMT handler -/
theorem pmt_handler_is_translated_path (pid : Nat) (s : Psi.St) (reg : List Nat) (c : Ctx) (p : Bytes)
    (h : p.length = 188) :
    erase (tableGated c.cfg.bypassCrc (concTable s) (pkOf p) >>= fun g =>
        rmap (fun x => (g.1, x)) (runPassed (fun c r d => pmtSection c pid r d) c reg g.2))
      = erase (Psi.consume Psi.table s p >>= fun r =>
        rmap (fun x => (concTable r.1, x)) (App.runDeliveries (fun c r d => pmtSection c pid r d) c reg r.2)) :=
  handler_is_translated_path _ (fun c reg d r e => pmtSection_cfg pid c reg d r e) s reg c p h

end Ts.Props.Ties.StmtPsi
